"""E5 scratch-memory sanitizer.

(a) wp.empty / wp.empty_like interposition: "uninitialised" arrays are filled with a chosen finite pattern,
    so code that reads scratch memory before writing it produces pattern-dependent results.
(b) Data scrambler: overwrites, element-wise, every Data entry that stepping was observed to modify and that
    is not part of the integration state (model-derived constants living in Data are therefore never touched).
"""

import dataclasses

import numpy as np

_orig = {}
PATTERN = {"on": False, "f": 0.0, "i": 0}
COUNT = {"empty_calls": 0, "bytes": 0}

STATE_FIELDS = {"time", "qpos", "qvel", "act", "history", "qacc_warmstart", "ctrl", "qfrc_applied", "xfrc_applied", "eq_active", "mocap_pos", "mocap_quat", "userdata"}
NEVER = {"overflow", "tree_asleep", "tree_awake", "body_awake", "body_awake_ind", "dof_awake_ind", "nbody_awake", "ntree_awake", "nv_awake"}


def install():
  import warp as wp

  if _orig:
    return
  _orig["empty"] = wp.empty
  _orig["empty_like"] = wp.empty_like

  def _fill(a):
    if not PATTERN["on"] or a is None or a.size == 0:
      return a
    COUNT["empty_calls"] += 1
    try:
      dt = a.dtype
      scalar = getattr(dt, "_wp_scalar_type_", dt)
      if scalar in (wp.float32, wp.float64, wp.float16, float):
        a.fill_(PATTERN["f"])
      elif scalar in (wp.int32, wp.int64, wp.uint32, wp.int8, wp.uint8, wp.int16, int):
        a.fill_(PATTERN["i"])
      elif scalar in (wp.bool, bool):
        a.fill_(bool(PATTERN["i"] & 1))
      COUNT["bytes"] += int(a.capacity) if hasattr(a, "capacity") else 0
    except Exception:
      pass
    return a

  def empty(*args, **kwargs):
    return _fill(_orig["empty"](*args, **kwargs))

  def empty_like(*args, **kwargs):
    return _fill(_orig["empty_like"](*args, **kwargs))

  wp.empty = empty
  wp.empty_like = empty_like


def set_pattern(f=None, i=None):
  if f is None:
    PATTERN["on"] = False
  else:
    PATTERN.update(on=True, f=float(f), i=int(i))


def _arrays(obj, prefix=""):
  for f in dataclasses.fields(obj):
    v = getattr(obj, f.name, None)
    if v is None:
      continue
    if dataclasses.is_dataclass(v):
      yield from _arrays(v, prefix + f.name + ".")
    elif hasattr(v, "numpy") and hasattr(v, "shape"):
      yield prefix + f.name, v


def snapshot_all(d):
  return {k: np.array(v.numpy()) for k, v in _arrays(d) if v.size}


def writable_mask(fresh_snap, stepped_snap):
  mask = {}
  for k, a in fresh_snap.items():
    base = k.split(".")[-1]
    if k in STATE_FIELDS or k in NEVER:
      continue
    b = stepped_snap.get(k)
    if b is None or b.shape != a.shape:
      continue
    if a.dtype.kind == "f":
      m = ~((a == b) | (np.isnan(a) & np.isnan(b)))
    else:
      m = a != b
    if m.any():
      mask[k] = m
  return mask


def scramble(d, mask, rng, fval=4321.5):
  """Overwrites masked elements: floats with a finite pattern, ints/bools with a permutation of the
  values currently stored in the masked elements (keeps index ranges valid)."""
  import warp as wp

  n = 0
  for k, arr in _arrays(d):
    m = mask.get(k)
    if m is None:
      continue
    a = np.array(arr.numpy())
    if a.shape != m.shape:
      continue
    if a.dtype.kind == "f":
      a[m] = fval * (1.0 + 0.01 * rng.standard_normal(int(m.sum())))
    else:
      vals = a[m]
      a[m] = rng.permutation(vals)
    wp.copy(arr, wp.array(a, dtype=arr.dtype))
    n += int(m.sum())
  return n
