"""Parent runner: ./check <ID> [--tier quick|thorough] [--seed N] [--replay path] [--workers N]

Builds the case list of a property module, shards it over worker subprocesses (grouped by Warp
build mode), folds the event logs into evidence/<ID>.json, prints VIOLATION / KNOWN-FINDING
lines and sets the exit code: 0 held on everything observed, 1 violation not listed in
known_findings.jsonl, 2 inconclusive (monitor not reached / harness error / watchdog).
"""

import argparse
import importlib
import json
import os
import shutil
import subprocess
import sys
import time

VERIF = os.path.dirname(os.path.dirname(os.path.abspath(__file__)))
PY = "/venv/bin/python"


def load_known(pid):
  path = os.path.join(VERIF, "known_findings.jsonl")
  open_, fixed = [], []
  if os.path.exists(path):
    for line in open(path):
      line = line.strip()
      if not line or line.startswith("#"):
        continue
      e = json.loads(line)
      if e.get("property") != pid:
        continue
      (open_ if e.get("status") == "open" else fixed).append(e)
  return open_, fixed


def merge_cover(agg, cov):
  for k, v in cov.items():
    if isinstance(v, int):
      agg[k] = agg.get(k, 0) + v
    else:
      s = agg.setdefault(k, [])
      for x in v:
        if x not in s:
          s.append(x)


def run_workers(pid, cases, workers, budget_s, workdir, hard_s):
  """Returns (events per case id, crashes, notes)."""
  by_mode = {}
  for c in cases:
    by_mode.setdefault(c.get("mode", "release"), []).append(c)
  # allocate workers proportionally to case weight
  total_w = sum(c.get("weight", 1) for c in cases) or 1
  shards = []
  for mode, cs in by_mode.items():
    w = sum(c.get("weight", 1) for c in cs)
    n = max(1, min(len(cs), round(workers * w / total_w)))
    # longest-processing-time-first assignment by declared weight
    bins = [[] for _ in range(n)]
    loads = [0.0] * n
    for c in sorted(cs, key=lambda c: -c.get("weight", 1)):
      i = loads.index(min(loads))
      bins[i].append(c)
      loads[i] += c.get("weight", 1)
    for b in bins:
      if b:
        shards.append({"mode": mode, "cases": b})
  deadline = time.time() + budget_s
  procs = []
  for i, sh in enumerate(shards):
    sh["deadline"] = deadline
    sp = os.path.join(workdir, f"shard_{i}.json")
    op = os.path.join(workdir, f"out_{i}.jsonl")
    with open(sp, "w") as f:
      json.dump(sh, f)
    procs.append(_spawn(pid, sp, op, workdir, i, 0))
  results, crashes, notes = {}, [], []
  hard_deadline = time.time() + hard_s
  pending = list(procs)
  while pending:
    nxt = []
    for pr in pending:
      rc = pr["p"].poll()
      if rc is None:
        if time.time() > hard_deadline:
          pr["p"].kill()
          pr["p"].wait()
          notes.append(f"watchdog killed worker {pr['i']}")
          _collect(pr, results, crashes, killed=True)
          continue
        nxt.append(pr)
        continue
      finished, crashed_case = _collect(pr, results, crashes, killed=False)
      if not finished and pr["gen"] < 6:
        # restart on the remaining cases of this shard (skip the crashed one)
        sh = json.load(open(pr["sp"]))
        done_ids = set(results) | {c["case"] for c in crashes}
        rest = [c for c in sh["cases"] if c["id"] not in done_ids]
        if rest:
          sh["cases"] = rest
          sp = pr["sp"] + f".r{pr['gen'] + 1}"
          with open(sp, "w") as f:
            json.dump(sh, f)
          op = pr["op"] + f".r{pr['gen'] + 1}"
          nxt.append(_spawn(pid, sp, op, workdir, pr["i"], pr["gen"] + 1))
    pending = nxt
    if pending:
      time.sleep(0.2)
  return results, crashes, notes


def _spawn(pid, sp, op, workdir, i, gen):
  err = open(os.path.join(workdir, f"err_{i}_{gen}.txt"), "w")
  env = dict(os.environ)
  env["PYTHONPATH"] = VERIF + ":" + env.get("PYTHONPATH", "")
  env.setdefault("PYTHONHASHSEED", "0")
  env["OMP_NUM_THREADS"] = "1"
  env["OPENBLAS_NUM_THREADS"] = "1"
  env["MKL_NUM_THREADS"] = "1"
  p = subprocess.Popen([PY, "-m", "mon.worker", pid, sp, op], stdout=err, stderr=err, cwd=VERIF, env=env)
  return {"p": p, "sp": sp, "op": op, "i": i, "gen": gen, "err": err.name}


def _collect(pr, results, crashes, killed):
  started = None
  finished = False
  if os.path.exists(pr["op"]):
    for line in open(pr["op"]):
      try:
        ev = json.loads(line)
      except Exception:
        continue
      if ev["ev"] == "start":
        started = ev["case"]
      elif ev["ev"] == "done":
        results[ev["case"]] = ev["res"]
        started = None
      elif ev["ev"] == "skipped_time":
        results.setdefault(ev["case"], {"skipped_time": True})
      elif ev["ev"] == "exit":
        finished = True
  rc = pr["p"].returncode
  if not finished and not killed:
    tail = ""
    try:
      tail = open(pr["err"]).read()[-4000:]
    except Exception:
      pass
    crashes.append({"case": started, "returncode": rc, "stderr_tail": tail})
  elif killed and started is not None:
    results.setdefault(started, {"watchdog": True})
  return finished, started


def main():
  ap = argparse.ArgumentParser()
  ap.add_argument("pid")
  ap.add_argument("--tier", default=os.environ.get("VERIF_TIER", "quick"))
  ap.add_argument("--seed", type=int, default=int(os.environ.get("VERIF_SEED", "0")))
  ap.add_argument("--replay", default=None)
  ap.add_argument("--workers", type=int, default=int(os.environ.get("VERIF_WORKERS", "16")))
  ap.add_argument("--limit", type=int, default=None, help="only the first N cases (debugging)")
  ap.add_argument("--no-evidence", action="store_true")
  args = ap.parse_args()
  pid = args.pid
  tier = args.tier if args.tier in ("quick", "thorough") else "quick"
  t0 = time.time()
  sys.path.insert(0, VERIF)
  mod = importlib.import_module(f"mon.props.{pid}")

  workdir = os.path.join(VERIF, ".cache", "work", f"{pid}_{os.getpid()}")
  shutil.rmtree(workdir, ignore_errors=True)
  os.makedirs(workdir, exist_ok=True)

  if args.replay:
    rp = json.load(open(args.replay))
    cases = [rp["case"]]
    tier = rp.get("tier", tier)
  else:
    cases = mod.cases(tier, args.seed)
    if args.limit:
      cases = cases[: args.limit]
  ids = [c["id"] for c in cases]
  assert len(ids) == len(set(ids)), "case ids must be unique"
  from mon import worker as _worker

  for _mode in sorted({c.get("mode", "release") for c in cases} | ({"release"} if pid == "C36" else set())):
    _worker.prepare_cache(_mode)
  budget = getattr(mod, "BUDGET", {"quick": 240, "thorough": 2400})[tier]
  # development aid: VERIF_BUDGET_SCALE=0.5 halves the soft time budget (workers stop starting new cases earlier)
  budget = int(budget * float(os.environ.get("VERIF_BUDGET_SCALE", "1")))
  hard = budget * 3 + 300
  results, crashes, notes = run_workers(pid, cases, args.workers, budget, workdir, hard)

  known_open, known_fixed = load_known(pid)
  casemap = {c["id"]: c for c in cases}
  cover, worst, tally = {}, {}, {}
  keys = set()
  samples = []
  n_eval = n_checks = n_incon = n_rej = n_skip = n_herr = 0
  viols = []  # (case, v)
  incon_reasons = {}
  herrs = []
  for cid in ids:
    r = results.get(cid)
    if r is None:
      continue
    if r.get("skipped_time") or r.get("watchdog"):
      n_skip += 1
      continue
    n_eval += 1
    if r.get("harness_error"):
      n_herr += 1
      herrs.append((cid, r["harness_error"]))
      continue
    if r.get("rejected"):
      n_rej += 1
    n_checks += r.get("checks", 0)
    if r.get("key"):
      keys.add(r["key"])
    merge_cover(cover, r.get("cover", {}))
    for k, v in r.get("worst", {}).items():
      if v > worst.get(k, -1):
        worst[k] = v
    for k, v in r.get("tally", {}).items():
      tally[k] = tally.get(k, 0) + v
    if r.get("inconclusive"):
      n_incon += 1
      for why in r["inconclusive"]:
        incon_reasons[why] = incon_reasons.get(why, 0) + 1
    for v in r.get("violations", []):
      viols.append((cid, v))
    if r.get("sample") is not None and len(samples) < 4:
      samples.append({"case": cid, **(r["sample"] if isinstance(r["sample"], dict) else {"value": r["sample"]})})
  crash_is_violation = getattr(mod, "CRASH_IS_VIOLATION", False)
  for cr in crashes:
    if cr["case"] is None:
      notes.append(f"worker died outside a case rc={cr['returncode']}: {cr['stderr_tail'][-300:]}")
      n_herr += 1
      herrs.append(("<worker>", cr["stderr_tail"]))
      continue
    sig = "crash:signal" if (cr["returncode"] or 0) < 0 else "crash:exit"
    tail = cr["stderr_tail"]
    import re

    where = re.search(r'File "[^"]*/mujoco_warp/_src/([a-z_]+)\.py", line \d+ in (\w+)', tail)
    loc = f"{where.group(1)}.py:{where.group(2)}" if where else "unknown"
    if "Assertion failed" in tail:
      expr = re.search(r"Assertion failed: '([^']*)'", tail)
      sig = f"oob-assert:{loc}"
    else:
      sig = f"{sig}:{loc}"
    v = {"sig": sig, "msg": f"worker died rc={cr['returncode']} during case", "data": {"stderr_tail": tail[-1500:]}}
    if crash_is_violation:
      viols.append((cr["case"], v))
      n_eval += 1
    else:
      # a crash of the real code while another property is being observed: the property was not
      # decided for that case -> inconclusive (C17 is the check that turns crashes into verdicts)
      n_herr += 1
      herrs.append((cr["case"], "CRASH " + tail[-1500:]))

  # --- known findings / violations
  replay_dir = os.path.join(VERIF, "replays", pid)
  new_viols, known_hit = [], {}
  for cid, v in viols:
    hit = None
    for e in known_open:
      if e["sig"] == v["sig"]:
        hit = e
        break
    if hit is not None:
      known_hit.setdefault(hit["sig"], [hit, 0, cid])
      known_hit[hit["sig"]][1] += 1
    else:
      new_viols.append((cid, v))
  printed = set()
  for cid, v in new_viols:
    if v["sig"] in printed or len(printed) >= 200:
      continue
    printed.add(v["sig"])
    os.makedirs(replay_dir, exist_ok=True)
    rpath = os.path.join(replay_dir, f"{cid}.json".replace("/", "_"))
    with open(rpath, "w") as f:
      json.dump({"property": pid, "tier": tier, "seed": args.seed, "case": casemap.get(cid), "violation": v}, f, indent=1)
    print(f"VIOLATION property={pid} replay={rpath}")
    print(f"  sig={v['sig']} :: {v['msg'][:400]}")
  for sig, (e, n, cid) in known_hit.items():
    print(f"KNOWN-FINDING: property={pid} {e['what']} [sig={sig}; reproduced in {n} case(s), e.g. {cid}]")

  # --- conclusiveness
  agg = {
    "evaluations": n_eval,
    "checks": n_checks,
    "distinct": len(keys),
    "cover": cover,
    "tally": tally,
    "rejected": n_rej,
    "inconclusive": n_incon,
    "skipped_time": n_skip,
    "harness_errors": n_herr,
  }
  unmet = []
  if not args.replay:
    if hasattr(mod, "requirements"):
      unmet = list(mod.requirements(agg, tier) or [])
    if n_checks == 0:
      unmet.append("deciding monitor made zero observations")
    if len(keys) < 2:
      unmet.append("fewer than 2 distinct non-trivial cases")
  if n_herr:
    unmet.append(f"{n_herr} harness error(s)/crash(es)")
    for cid, tb in herrs[:3]:
      print(f"HARNESS-ERROR case={cid}\n{tb[-1500:]}", file=sys.stderr)

  wall = time.time() - t0
  verdict = "violated" if new_viols else ("inconclusive" if unmet else "held")
  if not args.replay and not args.no_evidence:
    ev = {
      "property_id": pid,
      "tier": tier,
      "seed": args.seed,
      "level": getattr(mod, "LEVEL", "exploration") if getattr(mod, "LEVEL", "exploration") in ("exploration", "fault_enumeration", "model_checking", "proof", "translation_validation", "other") else "exploration",
      "coverage": {
        "evaluations": n_eval,
        "distinct_nontrivial": len(keys),
        "rule": getattr(mod, "RULE", ""),
        "samples": samples if samples else [{"note": "no sample recorded"}],
        "monitor_observations": n_checks,
        "feature_coverage": cover,
        "verdict_tally": {
          **tally,
          "cases_inconclusive": n_incon,
          "cases_rejected_by_put_model_or_mujoco": n_rej,
          "cases_skipped_for_time": n_skip,
          "violations_known": sum(x[1] for x in known_hit.values()),
          "violations_new": len(new_viols),
        },
        "inconclusive_reasons": dict(sorted(incon_reasons.items(), key=lambda kv: -kv[1])[:12]),
        "worst_err_over_bound": {k: round(v, 4) for k, v in sorted(worst.items())},
        "unmet_requirements": unmet,
        "verdict": verdict,
        "known_findings_reproduced": [x[0]["sig"] for x in known_hit.values()],
        "notes": notes,
        "exhaustive": bool(getattr(mod, "EXHAUSTIVE", {}).get(tier, False)) if isinstance(getattr(mod, "EXHAUSTIVE", None), dict) else False,
      },
      "assumptions": getattr(mod, "ASSUMPTIONS", []),
      "wall_s": round(wall, 2),
      "violations": len(new_viols),
    }
    os.makedirs(os.path.join(VERIF, "evidence"), exist_ok=True)
    with open(os.path.join(VERIF, "evidence", f"{pid}.json"), "w") as f:
      json.dump(ev, f, indent=1, sort_keys=False)
  print(
    f"[{pid}] tier={tier} seed={args.seed} verdict={verdict} cases={n_eval}/{len(ids)} distinct={len(keys)} "
    f"observations={n_checks} inconclusive={n_incon} rejected={n_rej} skipped={n_skip} known={len(known_hit)} "
    f"new_violations={len(new_viols)} wall={wall:.1f}s"
  )
  if unmet:
    print(f"[{pid}] INCONCLUSIVE: " + "; ".join(unmet))
  if worst:
    top = sorted(worst.items(), key=lambda kv: -kv[1])[:6]
    print(f"[{pid}] worst err/bound: " + ", ".join(f"{k}={v:.3g}" for k, v in top))
  shutil.rmtree(workdir, ignore_errors=True)
  if args.replay:
    for cid, v in viols:
      print(json.dumps(v, indent=1)[:3000])
  sys.exit(1 if new_viols else (2 if unmet else 0))


if __name__ == "__main__":
  main()
