"""Regenerates the generated blocks of DESIGN.md (findings table 9.3, seeded-defect catch matrix 9.4)."""

import glob
import json
import os

V = os.path.dirname(os.path.dirname(os.path.abspath(__file__)))
BEGIN = "<!-- BEGIN GENERATED (python -m mon.report) -->"
END = "<!-- END GENERATED -->"


def findings():
  es = [json.loads(l) for l in open(os.path.join(V, "known_findings.jsonl")) if l.strip()]
  out = ["### 9.3 Defects found by the monitors", ""]
  fixed = [e for e in es if e["status"] == "fixed"]
  opn = [e for e in es if e["status"] == "open"]
  out.append(f"{len(fixed)} repaired by `fix:` commits in /repo (each reproduced by its monitor first; the classifier and its signature stay, so the")
  out.append("check fires again if the defect returns), " + f"{len(opn)} recorded as open known findings (genuine differences whose repair is not small and safe, or")
  out.append("MuJoCo 3.13-vs-3.12 version skew). Matching is by exact mechanism signature; any other violation of the same property still exits 1.")
  out += ["", "**Repaired**", "", "| property | commit | signature | what failed |", "|---|---|---|---|"]
  for e in sorted(fixed, key=lambda e: e["property"]):
    what = e["what"].split(e.get("commit", "~~~"), 1)[-1].strip() if e.get("commit") and e.get("commit") in e["what"] else e["what"]
    out.append(f"| {e['property']} | {e.get('commit', '')} | `{e['sig']}` | {what[:260].replace('|', '/')} |")
  out += ["", "**Open (KNOWN-FINDING lines)**", "", "| property | signature | mechanism |", "|---|---|---|"]
  for e in sorted(opn, key=lambda e: (e["property"], e["sig"])):
    out.append(f"| {e['property']} | `{e['sig']}` | {e['what'][:300].replace('|', '/')} |")
  return out


def seeded():
  out = ["### 9.4 Seeded defects (independent sub-agents) and which checks catch them", ""]
  out.append("Each defect was written by a fresh sub-agent that saw only the property text and a scratch worktree (nothing from /verif), compiles,")
  out.append("passes the relevant existing tests, and comes with a demonstration (PASS on clean, FAIL on patched). `seeded/run_seeded.py` applies the patch to a")
  out.append("scratch worktree of /repo HEAD and runs the check with MJWARP_REPO pointing at it. exit 1 = caught, 0 = missed, 2 = inconclusive.")
  out += ["", "| seeded | property | what the change does / needs | demo clean/patched | check result | signatures |", "|---|---|---|---|---|---|"]
  for d in sorted(glob.glob(os.path.join(V, "seeded", "*", "meta.json"))):
    name = os.path.basename(os.path.dirname(d))
    meta = json.load(open(d))
    rp = os.path.join(os.path.dirname(d), "result.json")
    res = json.load(open(rp)) if os.path.exists(rp) else {}
    dc = res.get("demo_clean", {}).get("exit", "?")
    dp = res.get("demo_patched", {}).get("exit", "?")
    chk = "; ".join(f"{k}: exit {v['exit']} ({v['wall_s']} s)" for k, v in res.get("checks", {}).items()) or "not run yet"
    sigs = ", ".join(s for v in res.get("checks", {}).values() for s in v.get("signatures", [])[:4])
    summ = (meta.get("summary", "")[:230] + " NEEDS: " + meta.get("needs", "")[:200]).replace("|", "/").replace("\n", " ")
    out.append(f"| {name} | {meta.get('property')} | {summ} | {dc}/{dp} | {chk} | {sigs[:160]} |")
  return out


def checks():
  import importlib
  import sys

  sys.path.insert(0, V)
  out = ["### 9.5 Checks as built (from the modules and the committed quick-tier evidence)", ""]
  out += ["| id | deciding oracle (module docstring) | quick: cases / distinct / observations / wall | open known findings |", "|---|---|---|---|"]
  known = {}
  for l in open(os.path.join(V, "known_findings.jsonl")):
    if l.strip():
      e = json.loads(l)
      if e["status"] == "open":
        known[e["property"]] = known.get(e["property"], 0) + 1
  for i in range(1, 41):
    pid = f"C{i:02d}"
    try:
      mod = importlib.import_module(f"mon.props.{pid}")
      doc = " ".join((mod.__doc__ or "").split())[:420].replace("|", "/")
    except Exception as e:  # noqa
      doc = f"(module import failed: {e})"
    ev = os.path.join(V, "evidence", f"{pid}.json")
    cov = "no evidence committed"
    if os.path.exists(ev):
      j = json.load(open(ev))
      c = j["coverage"]
      cov = f"{c.get('evaluations')} / {c.get('distinct_nontrivial')} / {c.get('monitor_observations')} / {j.get('wall_s')} s (seed {j.get('seed')})"
    out.append(f"| {pid} | {doc} | {cov} | {known.get(pid, 0)} |")
  return out


def main():
  p = os.path.join(V, "DESIGN.md")
  s = open(p).read()
  block = "\n".join([BEGIN, ""] + findings() + [""] + seeded() + [""] + checks() + ["", END])
  if BEGIN in s:
    s = s[: s.index(BEGIN)] + block + s[s.index(END) + len(END) :]
  else:
    s = s.rstrip() + "\n\n" + block + "\n"
  open(p, "w").write(s)
  print("DESIGN.md updated")


if __name__ == "__main__":
  main()
