"""Worker process: python -m mon.worker <ID> <shard.json> <out.jsonl>

Runs the shard's cases sequentially inside one interpreter (one Warp kernel-cache mode),
journalling a 'start' line before and a 'done' line after every case so that the parent can
name the case that was running when the process died.
"""

import importlib
import json
import os
import sys
import time
import traceback


def source_hash() -> str:
  """sha1 over the non-test sources of the observed mujoco_warp checkout."""
  import hashlib

  root = os.path.join(os.environ.get("MJWARP_REPO", "/repo"), "mujoco_warp", "_src")
  h = hashlib.sha1()
  for fn in sorted(os.listdir(root)):
    if fn.endswith(".py") and not fn.endswith("_test.py"):
      with open(os.path.join(root, fn), "rb") as f:
        h.update(fn.encode())
        h.update(f.read())
  return h.hexdigest()[:12]


def file_hashes() -> dict:
  import hashlib

  root = os.path.join(os.environ.get("MJWARP_REPO", "/repo"), "mujoco_warp", "_src")
  out = {}
  for fn in sorted(os.listdir(root)):
    if fn.endswith(".py") and not fn.endswith("_test.py"):
      with open(os.path.join(root, fn), "rb") as f:
        out[fn] = hashlib.sha1(f.read()).hexdigest()
  return out


def prepare_cache(mode: str) -> str:
  """Returns the kernel cache dir for (mode, source tree), creating it if needed.

  A new cache is seeded from the newest cache of the same mode, minus every cached module whose kernel is
  defined in a source file that changed (Warp's module hash does not see every dependency of a kernel, e.g.
  wp.func objects only referenced through wp.tile_map, which live next to their kernels); everything else is
  re-validated by Warp's own content hash.  The parent runner calls this once before it starts workers."""
  import re
  import shutil

  from mon import core

  root = os.path.join(core.VERIF, ".cache")
  cache = os.path.join(root, f"{mode}-{source_hash()}")
  if os.path.isdir(cache):
    return cache
  os.makedirs(root, exist_ok=True)
  cur = file_hashes()
  cands = []
  for d in os.listdir(root):
    mf = os.path.join(root, d, "manifest.json")
    if d.startswith(mode + "-") and os.path.exists(mf):
      cands.append((os.path.getmtime(mf), d))
  tmp = cache + f".tmp{os.getpid()}"
  try:
    if cands:
      src = os.path.join(root, max(cands)[1])
      old = json.load(open(os.path.join(src, "manifest.json")))
      changed = [fn for fn in cur if old.get(fn) != cur[fn]] + [fn for fn in old if fn not in cur]
      shutil.copytree(src, tmp, symlinks=True)
      srcroot = os.path.join(os.environ.get("MJWARP_REPO", "/repo"), "mujoco_warp", "_src")
      idents = set()
      for fn in changed:
        idents.add("_src." + fn[:-3] + "_")
        for base in (srcroot, "/repo/mujoco_warp/_src"):
          try:
            idents.update(re.findall(r"^\s*def (\w+)\(", open(os.path.join(base, fn)).read(), re.M))
          except Exception:
            pass
      for ver in os.listdir(tmp):
        vd = os.path.join(tmp, ver)
        if not os.path.isdir(vd):
          continue
        for ent in os.listdir(vd):
          if any((i in ent) if i.startswith("_src.") else (f"_{i}_" in ent or f"_{i}__locals__" in ent or ent.startswith(f"wp_{i}_")) for i in idents):
            shutil.rmtree(os.path.join(vd, ent), ignore_errors=True)
    else:
      os.makedirs(tmp, exist_ok=True)
    with open(os.path.join(tmp, "manifest.json"), "w") as f:
      json.dump(cur, f)
    try:
      os.rename(tmp, cache)
    except OSError:
      shutil.rmtree(tmp, ignore_errors=True)  # another process won the race
  except Exception:
    shutil.rmtree(tmp, ignore_errors=True)
    os.makedirs(cache, exist_ok=True)
  # prune: caches older than 3 h beyond the newest 4 of this mode (never one a running check may use)
  try:
    olds = sorted((d for d in os.listdir(root) if d.startswith(mode + "-") and ".tmp" not in d), key=lambda d: os.path.getmtime(os.path.join(root, d)))
    for d in olds[:-4]:
      if time.time() - os.path.getmtime(os.path.join(root, d)) > 3 * 3600:
        shutil.rmtree(os.path.join(root, d), ignore_errors=True)
  except Exception:
    pass
  return cache


def setup_warp(mode: str):
  import warp as wp

  from mon import core

  # one kernel cache per (build mode, content of the observed source tree): Warp's module hash misses some
  # dependencies (e.g. wp.func objects only referenced through wp.tile_map), so a cache shared between
  # different source trees could serve stale kernels.  Caches older than 3 h are pruned beyond the newest 4 per mode.
  cache = prepare_cache(mode)
  wp.config.kernel_cache_dir = cache
  wp.config.quiet = True
  if "debug" in mode:
    wp.config.mode = "debug"
    wp.config.verify_fp = False
  if mode.startswith("perm"):
    from mon import sched

    sched.install()
  else:
    from mon import sched

    sched.install_launchlog()
  wp.init()
  return wp


def main():
  pid, shard_path, out_path = sys.argv[1:4]
  with open(shard_path) as f:
    shard = json.load(f)
  mode = shard.get("mode", "release")
  deadline = shard.get("deadline")  # absolute epoch seconds (soft)
  out = open(out_path, "a", buffering=1)

  def emit(obj):
    out.write(json.dumps(obj) + "\n")
    out.flush()
    os.fsync(out.fileno())

  import faulthandler

  faulthandler.enable()  # on SIGSEGV/SIGABRT/SIGILL the Python stack (most recent call first) goes to stderr
  setup_warp(mode)
  from mon import core

  mod = importlib.import_module(f"mon.props.{pid}")
  import warnings

  warnings.filterwarnings("ignore")

  for case in shard["cases"]:
    if deadline and time.time() > deadline:
      emit({"ev": "skipped_time", "case": case["id"]})
      continue
    emit({"ev": "start", "case": case["id"]})
    t0 = time.time()
    try:
      res = mod.run_case(case)
    except Exception as exc:  # noqa
      where = core.classify_exception(exc)
      tbs = traceback.format_exc()[-3000:]
      if where == "repo" and not isinstance(exc, (MemoryError, KeyboardInterrupt)):
        res = {
          "violations": [{"sig": core.exception_sig(exc), "msg": f"{type(exc).__name__}: {exc}"[:500], "data": {"traceback": tbs}}],
          "inconclusive": [],
          "checks": 0,
          "key": None,
          "cover": {},
          "worst": {},
          "sample": None,
          "rejected": None,
          "tally": {},
        }
      else:
        res = {
          "violations": [],
          "inconclusive": [],
          "harness_error": tbs,
          "checks": 0,
          "key": None,
          "cover": {},
          "worst": {},
          "sample": None,
          "rejected": None,
          "tally": {},
        }
    res["wall"] = time.time() - t0
    emit({"ev": "done", "case": case["id"], "res": res})
  emit({"ev": "exit"})


if __name__ == "__main__":
  main()
