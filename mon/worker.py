"""Worker process: python -m mon.worker <ID> <shard.json> <out.jsonl>

Runs the shard's cases sequentially inside one interpreter (one Warp kernel-cache mode),
journalling a 'start' line before and a 'done' line after every case so that the parent can
name the case that was running when the process died.
"""

import importlib
import json
import os
import sys
import time
import traceback


def source_hash() -> str:
  """sha1 over the non-test sources of the observed mujoco_warp checkout."""
  import hashlib

  root = os.path.join(os.environ.get("MJWARP_REPO", "/repo"), "mujoco_warp", "_src")
  h = hashlib.sha1()
  for fn in sorted(os.listdir(root)):
    if fn.endswith(".py") and not fn.endswith("_test.py"):
      with open(os.path.join(root, fn), "rb") as f:
        h.update(fn.encode())
        h.update(f.read())
  return h.hexdigest()[:12]


def setup_warp(mode: str):
  import warp as wp

  from mon import core

  # one kernel cache per (build mode, content of the observed source tree): Warp's module hash misses some
  # dependencies (e.g. wp.func objects only referenced through wp.tile_map), so a cache shared between
  # different source trees could serve stale kernels.  Caches older than 3 h are pruned beyond the newest 4 per mode.
  cache = os.path.join(core.VERIF, ".cache", f"{mode}-{source_hash()}")
  if not os.path.isdir(cache):
    os.makedirs(cache, exist_ok=True)
    try:
      import shutil

      root = os.path.join(core.VERIF, ".cache")
      old = sorted((d for d in os.listdir(root) if d.startswith(mode + "-")), key=lambda d: os.path.getmtime(os.path.join(root, d)))
      for d in old[:-4]:
        if time.time() - os.path.getmtime(os.path.join(root, d)) > 3 * 3600:  # never a cache a running check may use
          shutil.rmtree(os.path.join(root, d), ignore_errors=True)
    except Exception:
      pass
  wp.config.kernel_cache_dir = cache
  wp.config.quiet = True
  if "debug" in mode:
    wp.config.mode = "debug"
    wp.config.verify_fp = False
  if mode.startswith("perm"):
    from mon import sched

    sched.install()
  else:
    from mon import sched

    sched.install_launchlog()
  wp.init()
  return wp


def main():
  pid, shard_path, out_path = sys.argv[1:4]
  with open(shard_path) as f:
    shard = json.load(f)
  mode = shard.get("mode", "release")
  deadline = shard.get("deadline")  # absolute epoch seconds (soft)
  out = open(out_path, "a", buffering=1)

  def emit(obj):
    out.write(json.dumps(obj) + "\n")
    out.flush()
    os.fsync(out.fileno())

  import faulthandler

  faulthandler.enable()  # on SIGSEGV/SIGABRT/SIGILL the Python stack (most recent call first) goes to stderr
  setup_warp(mode)
  from mon import core

  mod = importlib.import_module(f"mon.props.{pid}")
  import warnings

  warnings.filterwarnings("ignore")

  for case in shard["cases"]:
    if deadline and time.time() > deadline:
      emit({"ev": "skipped_time", "case": case["id"]})
      continue
    emit({"ev": "start", "case": case["id"]})
    t0 = time.time()
    try:
      res = mod.run_case(case)
    except Exception as exc:  # noqa
      where = core.classify_exception(exc)
      tbs = traceback.format_exc()[-3000:]
      if where == "repo" and not isinstance(exc, (MemoryError, KeyboardInterrupt)):
        res = {
          "violations": [{"sig": core.exception_sig(exc), "msg": f"{type(exc).__name__}: {exc}"[:500], "data": {"traceback": tbs}}],
          "inconclusive": [],
          "checks": 0,
          "key": None,
          "cover": {},
          "worst": {},
          "sample": None,
          "rejected": None,
          "tally": {},
        }
      else:
        res = {
          "violations": [],
          "inconclusive": [],
          "harness_error": tbs,
          "checks": 0,
          "key": None,
          "cover": {},
          "worst": {},
          "sample": None,
          "rejected": None,
          "tally": {},
        }
    res["wall"] = time.time() - t0
    emit({"ev": "done", "case": case["id"], "res": res})
  emit({"ev": "exit"})


if __name__ == "__main__":
  main()
