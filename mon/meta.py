"""Metamorphic comparison utilities: two executions of the real code that should agree.

All comparisons follow the first-divergence thresholds of cmp.first_divergence: bit-equal, round-off
(relative <= 1e-4 of the field scale), violated (>= 1e-2), in between inconclusive.
"""

import numpy as np

from mon import cmp, mw

# per-world observables of Data that do not depend on the listing order of contacts / rows and are not
# solver-internal scratch.  (efc.* and contact.* are compared as multisets separately.)
OBS_FIELDS = (
  "time energy qpos qvel act qacc_warmstart qacc act_dot sensordata xpos xquat xmat xipos ximat xanchor xaxis geom_xpos geom_xmat "
  "site_xpos site_xmat cam_xpos cam_xmat light_xpos light_xdir subtree_com cdof cinert ten_length actuator_length M cvel cdof_dot "
  "qfrc_bias qfrc_spring qfrc_damper qfrc_gravcomp qfrc_fluid qfrc_passive subtree_linvel subtree_angmom actuator_force qfrc_actuator "
  "qfrc_smooth qacc_smooth qfrc_constraint cacc cfrc_int cfrc_ext ne nf nl nefc ten_velocity actuator_velocity flexvert_xpos "
  "flexedge_length flexedge_velocity history userdata"
).split()

STATE_ONLY = "time qpos qvel act qacc_warmstart history".split()

# solver outputs: legitimately sensitive to summation order through the iterative solver
SOLVER_FIELDS = {"qacc", "qacc_warmstart", "qfrc_constraint", "cacc", "cfrc_int", "cfrc_ext", "sensordata", "qvel", "qpos", "act", "act_dot", "history"}


CAP_BITS = 511  # every OverflowType bit except ITERATIONS (1<<9) and LS_ITERATIONS (1<<10)
ITER_BITS = (1 << 9) | (1 << 10)


def step_viol(mjm):
  """Violation threshold for comparisons after a whole step(): RK4 evaluates forward() four times at states that
  depend on the previous stage's solver output, which amplifies legitimate round-off level differences
  (reordered sums) through contact-manifold changes; only gross differences are judged there."""
  import mujoco

  return 0.3 if mjm.opt.integrator == mujoco.mjtIntegrator.mjINT_RK4 else 1e-2


def gate(ofA, wa, ofB, wb):
  """None if world wa of execution A may be compared with world wb of B, else the reason.

  Capacity bits in ANY world disable the comparison (contacts share one pool); iteration-limit bits of the
  compared worlds disable it too: an unconverged solve legitimately amplifies reordered-sum round-off
  (measured: constraints.xml, iterations=4, nworld 1 vs 4: 3% in qfrc_constraint at |force| 1e6)."""
  if (ofA & CAP_BITS).any() or (ofB & CAP_BITS).any():
    return "capacity_overflow"
  if (ofA[wa] & ITER_BITS) or (ofB[wb] & ITER_BITS):
    return "iteration_limit"
  return None


def diverged(obsA, wa, obsB=None, wb=None, vmax=1e6, amax=1e10):
  """True if the compared world of either execution has left the regime in which float32 results can be compared:
  non-finite state or |qvel| > vmax or |qacc| > amax (a numerically unstable model / step size, e.g. cubic damping under
  an explicit integrator).  There every reordered sum differs at O(1): nothing can be judged, the world is inconclusive."""
  for obs, w in ((obsA, wa), (obsB, wb)):
    if obs is None:
      continue
    for k, lim in (("qpos", 1e8), ("qvel", vmax), ("qacc", amax)):
      v = obs.get(k)
      if v is None:
        continue
      x = np.asarray(v[w], dtype=np.float64)
      if x.size and (not np.all(np.isfinite(x)) or float(np.abs(x).max()) > lim):
        return True
  return False


def snap_obs(d, fields=OBS_FIELDS):
  out = {}
  for k in fields:
    v = getattr(d, k, None)
    if v is not None and hasattr(v, "numpy"):
      out[k] = np.array(v.numpy())
  out["overflow"] = np.array(d.overflow.numpy())
  return out


def compare_obs(rec, tag, A, B, wa, wb, fields=None, tol_round=1e-4, tol_viol=1e-2, sig_prefix="", skip=()):
  """Compares world wa of snapshot A with world wb of snapshot B. Returns worst class seen: bit<round<incon<viol."""
  order = {"bit": 0, "round": 1, "incon": 2, "viol": 3}
  worst = "bit"
  for k in fields or A.keys():
    if k == "overflow" or k in skip or k not in A or k not in B:
      continue
    a, b = A[k][wa], B[k][wb]
    r = cmp.first_divergence(rec, k, a, b, sig_prefix=sig_prefix, ctx=tag, tol_round=tol_round, tol_viol=tol_viol)
    if order[r] > order[worst]:
      worst = r
  return worst


def _greedy_match(FA, FB):
  """max over greedy nearest-neighbour matching of rows of FA to rows of FB (L-inf, column-scaled)."""
  if len(FA) == 0:
    return 0.0
  scale = np.maximum(1.0, np.maximum(np.abs(FA).max(axis=0), np.abs(FB).max(axis=0)))
  A = FA / scale
  B = FB / scale
  used = np.zeros(len(B), dtype=bool)
  worst = 0.0
  # process rows of A in an order that makes greedy robust: by decreasing norm
  for i in np.argsort(-np.abs(A).sum(axis=1)):
    dist = np.abs(B - A[i]).max(axis=1)
    dist[used] = np.inf
    j = int(np.argmin(dist))
    used[j] = True
    worst = max(worst, float(dist[j]))
  return worst


def multiset_diff(labelsA, FA, labelsB, FB):
  """Returns (structure_equal, max matched relative distance)."""
  labelsA = np.asarray(labelsA)
  labelsB = np.asarray(labelsB)
  if labelsA.shape[0] != labelsB.shape[0]:
    return False, float("inf")
  if labelsA.shape[0] == 0:
    return True, 0.0
  la = [tuple(np.atleast_1d(x).tolist()) for x in labelsA]
  lb = [tuple(np.atleast_1d(x).tolist()) for x in labelsB]
  if sorted(la) != sorted(lb):
    return False, float("inf")
  worst = 0.0
  groups = {}
  for i, l in enumerate(la):
    groups.setdefault(l, [[], []])[0].append(i)
  for i, l in enumerate(lb):
    groups[l][1].append(i)
  FA = np.asarray(FA, dtype=np.float64).reshape(len(la), -1)
  FB = np.asarray(FB, dtype=np.float64).reshape(len(lb), -1)
  for l, (ia, ib) in groups.items():
    worst = max(worst, _greedy_match(FA[ia], FB[ib]))
  return True, worst


def contact_features(c):
  n = len(c["dist"])
  F = np.concatenate(
    [
      c["dist"].reshape(n, 1),
      c["pos"].reshape(n, 3),
      c["frame"].reshape(n, 9),
      c["includemargin"].reshape(n, 1),
      c["friction"].reshape(n, 5),
      c["solref"].reshape(n, 2),
      c["solreffriction"].reshape(n, 2),
      c["solimp"].reshape(n, 5),
    ],
    axis=1,
  )
  L = np.concatenate([c["geom"].reshape(n, 2), c["dim"].reshape(n, 1)], axis=1)
  return L, F


def compare_contacts(rec, tag, ca, cb, sig_prefix="", tol_round=1e-4, tol_viol=1e-2):
  """Multiset comparison of two contact dicts (mw.contacts)."""
  rec.check()
  La, Fa = contact_features(ca)
  Lb, Fb = contact_features(cb)
  same, dist = multiset_diff(La, Fa, Lb, Fb)
  if not same and tol_viol > 0.1:
    rec.inconcl("contacts: discrete structure differs in an amplified (multi-stage) comparison")
    return "incon"
  if not same:
    rec.viol(
      f"{sig_prefix}contacts:multiset",
      f"contact multisets differ {tag}: {len(La)} vs {len(Lb)} contacts; pairs A={sorted(map(tuple, La.tolist()))[:12]} B={sorted(map(tuple, Lb.tolist()))[:12]}",
    )
    return "viol"
  if dist == 0.0:
    return "bit"
  if dist <= tol_round:
    return "round"
  if dist >= tol_viol:
    rec.viol(f"{sig_prefix}contacts:values", f"matched contacts differ by rel {dist:.3g} {tag}")
    return "viol"
  rec.inconcl("contacts: matched difference between round-off and violation line")
  return "incon"


def row_features(r):
  n = r["nefc"]
  F = np.concatenate([r["pos"].reshape(n, 1), r["margin"].reshape(n, 1), r["D"].reshape(n, 1), r["aref"].reshape(n, 1), r["frictionloss"].reshape(n, 1), r["vel"].reshape(n, 1), r["J"].reshape(n, r["J"].shape[-1] if r["J"].ndim == 2 else 0)], axis=1)
  L = r["type"].reshape(n, 1)
  return L, F


def compare_rows(rec, tag, ra, rb, sig_prefix="", tol_round=1e-4, tol_viol=1e-2, with_force=False):
  rec.check()
  for k in ("ne", "nf", "nl", "nefc_raw"):
    if ra[k] != rb[k] and tol_viol > 0.1:
      rec.inconcl("efc: row counts differ in an amplified (multi-stage) comparison")
      return "incon"
    if ra[k] != rb[k]:
      rec.viol(f"{sig_prefix}efc:{k}", f"{k} differs {ra[k]} vs {rb[k]} {tag}")
      return "viol"
  La, Fa = row_features(ra)
  Lb, Fb = row_features(rb)
  if with_force:
    Fa = np.concatenate([Fa, ra["force"].reshape(-1, 1)], axis=1)
    Fb = np.concatenate([Fb, rb["force"].reshape(-1, 1)], axis=1)
  same, dist = multiset_diff(La, Fa, Lb, Fb)
  if not same and tol_viol > 0.1:
    rec.inconcl("efc: row types differ in an amplified (multi-stage) comparison")
    return "incon"
  if not same:
    rec.viol(f"{sig_prefix}efc:multiset", f"constraint row type multisets differ {tag}")
    return "viol"
  if dist == 0.0:
    return "bit"
  if dist <= tol_round:
    return "round"
  if dist >= tol_viol:
    rec.viol(f"{sig_prefix}efc:values", f"matched constraint rows differ by rel {dist:.3g} {tag}")
    return "viol"
  rec.inconcl("efc rows: matched difference between round-off and violation line")
  return "incon"


def copy_state(dst, src_snap, w_dst=None, w_src=None):
  """Writes the integration state held in snapshot src_snap (all worlds) into Data dst."""
  import warp as wp

  for k in STATE_ONLY + ["ctrl", "qfrc_applied", "xfrc_applied", "mocap_pos", "mocap_quat", "eq_active", "userdata"]:
    if k in src_snap and src_snap[k].size:
      arr = getattr(dst, k)
      wp.copy(arr, wp.array(src_snap[k], dtype=arr.dtype))


FULL_STATE = STATE_ONLY + ["ctrl", "qfrc_applied", "xfrc_applied", "mocap_pos", "mocap_quat", "eq_active", "userdata"]


def snap_state(d):
  out = {}
  for k in FULL_STATE:
    v = getattr(d, k, None)
    if v is not None and hasattr(v, "numpy"):
      out[k] = np.array(v.numpy())
  return out
