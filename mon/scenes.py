"""Scene pool for the metamorphic monitors (C09, C11, C12, C16, C17, C25, C36).

scene(spec) -> (label, mjm, feats) where spec is a JSON-able dict:
  {"kind": "repo", "path": "...", "opt": {...}}      repository model with option overrides
  {"kind": "gen", "seed": n, "profile": "full"|...}   generated model
"""

import os

import mujoco
import numpy as np

from mon import core, gen

FULL = gen.profile(
  nbody=(3, 8),
  collide=True,
  contact_rich=True,
  p_plane=0.8,
  p_free=0.45,
  condims=(1, 3, 4, 6),
  p_margin=0.3,
  p_limit=0.4,
  p_frictionloss=0.3,
  equality=2,
  tendon_fixed=0.4,
  tendon_spatial=0.3,
  actuators=3,
  act_ball=False,
  act_trn=("joint", "tendon", "site", "jointinparent", "body", "slidercrank"),
  act_kinds=("motor", "position", "velocity", "general", "damper", "intvelocity"),
  p_adhesion=0.2,
  sensors=4,
  sensor_kinds=("jointpos", "jointvel", "framepos", "framequat", "framelinvel", "subtreecom", "accelerometer", "gyro", "touch", "actuatorfrc", "tendonpos"),
  cones=("pyramidal", "elliptic"),
  solvers=("Newton", "CG"),
  jacobians=("dense", "sparse", "auto"),
  integrators=("Euler", "implicitfast", "RK4", "implicit"),
  p_pair=0.2,
  p_exclude=0.2,
  p_priority=0.2,
  p_mocap=0.1,
  nuserdata=0,
  p_poly=0.4,
  p_actfrcrange=0.3,
  p_surfacevel=0.25,
  p_actgravcomp=0.3,
  p_gravcomp_x=0.3,
)

PROFILES = {
  "full": FULL,
  # one tree with > 64 dofs: sparse LDL factorisation levels, sparse Jacobian
  "bigtree": gen.profile(nbody=(2, 4), big_tree=66, big_tree_branch=6, jacobians=("sparse",), p_limit=0.5, p_frictionloss=0.3, equality=1, eq_kinds=("joint", "connect"), solvers=("Newton", "CG"), p_armature=0.6),
  "free": gen.profile(
    nbody=(3, 7), collide=True, contact_rich=True, p_plane=1.0, p_free=1.0, p_branch=0.0, condims=(3, 4, 6, 1), cones=("pyramidal", "elliptic"), solvers=("Newton", "CG"), jacobians=("dense", "sparse"), p_surfacevel=0.3
  ),
  "joints": gen.profile(
    nbody=(3, 9),
    p_limit=0.6,
    p_frictionloss=0.5,
    equality=3,
    tendon_fixed=0.6,
    tendon_spatial=0.3,
    actuators=3,
    act_ball=False,
    solvers=("Newton", "CG"),
    jacobians=("dense", "sparse"),
    integrators=("Euler", "implicitfast", "RK4", "implicit"),
    p_poly=0.5,
    p_actfrcrange=0.3,
  ),
}

REPO = [
  ("humanoid/humanoid.xml", {}),
  ("collision.xml", {}),
  ("constraints.xml", {}),
  ("pendula.xml", {}),
  ("primitives.xml", {}),
  ("humanoid/humanoid.xml", {"solver": "CG"}),
  ("humanoid/humanoid.xml", {"cone": "elliptic", "jacobian": "sparse"}),
  ("constraints.xml", {"jacobian": "sparse"}),
  ("collision.xml", {"cone": "elliptic"}),
  ("tendon/tendon_limit.xml", {}),
  ("actuation/actuators.xml", {}),
  ("humanoid/humanoid.xml", {"integrator": "implicitfast"}),
  ("humanoid/humanoid.xml", {"integrator": "RK4"}),
]

_ENUM = {
  "solver": {"CG": mujoco.mjtSolver.mjSOL_CG, "Newton": mujoco.mjtSolver.mjSOL_NEWTON},
  "cone": {"pyramidal": mujoco.mjtCone.mjCONE_PYRAMIDAL, "elliptic": mujoco.mjtCone.mjCONE_ELLIPTIC},
  "jacobian": {"dense": mujoco.mjtJacobian.mjJAC_DENSE, "sparse": mujoco.mjtJacobian.mjJAC_SPARSE, "auto": mujoco.mjtJacobian.mjJAC_AUTO},
  "integrator": {
    "Euler": mujoco.mjtIntegrator.mjINT_EULER,
    "RK4": mujoco.mjtIntegrator.mjINT_RK4,
    "implicit": mujoco.mjtIntegrator.mjINT_IMPLICIT,
    "implicitfast": mujoco.mjtIntegrator.mjINT_IMPLICITFAST,
  },
}


def apply_opt(mjm, opt):
  for k, v in (opt or {}).items():
    if k in _ENUM:
      setattr(mjm.opt, k, _ENUM[k][v])
    elif k == "disable":
      mjm.opt.disableflags |= int(v)
    elif k == "enable":
      mjm.opt.enableflags |= int(v)
    else:
      setattr(mjm.opt, k, v)


def scene(spec):
  if spec["kind"] == "repo":
    path = os.path.join(core.TEST_DATA, spec["path"])
    mjm = mujoco.MjModel.from_xml_path(path)
    apply_opt(mjm, spec.get("opt"))
    label = spec["path"] + ("" if not spec.get("opt") else str(sorted(spec["opt"].items())))
    feats = ["repo:" + spec["path"]] + [f"opt:{k}={v}" for k, v in (spec.get("opt") or {}).items()]
    return label, mjm, feats
  P = PROFILES[spec.get("profile", "full")]
  if spec.get("override"):
    P = dict(P)
    P.update(spec["override"])
  xml, mjm, feat, s = gen.make_model(spec["seed"], P)
  if mjm is None:
    return None, None, None
  apply_opt(mjm, spec.get("opt"))
  return xml, mjm, feat


def settle_states(mjm, rng, n, steps=(0, 5, 30), vel=0.5):
  """Per-world states reached by MuJoCo itself from random initial conditions (so that contact scenes are
  in physically sensible, contact-rich configurations); rounded to float32."""
  out = []
  for i in range(n):
    st = gen.sample_state(mjm, rng, vel=vel, quat_scale=False)
    k = int(steps[i % len(steps)])
    if k:
      from mon import mw

      mjd = mujoco.MjData(mjm)
      mw.apply_state_mj(mjm, mjd, st)
      try:
        for _ in range(k):
          mujoco.mj_step(mjm, mjd)
        if np.all(np.isfinite(mjd.qpos)) and np.all(np.isfinite(mjd.qvel)) and np.abs(mjd.qvel).max() < 1e3:
          st["qpos"] = mjd.qpos.astype(np.float32)
          st["qvel"] = mjd.qvel.astype(np.float32)
          st["act"] = mjd.act.astype(np.float32)
          st["time"] = np.float32(mjd.time)
          st["qacc_warmstart"] = mjd.qacc_warmstart.astype(np.float32)
      except Exception:
        pass
    out.append(st)
  return out
