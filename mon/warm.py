"""Warms the private kernel caches (best effort; checks compile whatever is still missing)."""

import os
import subprocess
import sys

VERIF = os.path.dirname(os.path.dirname(os.path.abspath(__file__)))
CODE = r"""
import sys, os, warnings
warnings.filterwarnings('ignore')
sys.path.insert(0, %r)
from mon import worker
wp = worker.setup_warp(sys.argv[1])
import mujoco, mujoco_warp as mjw
for path in ['humanoid/humanoid.xml', 'collision.xml', 'constraints.xml', 'pendula.xml', 'primitives.xml']:
  try:
    mjm = mujoco.MjModel.from_xml_path('/repo/mujoco_warp/test_data/' + path)
    m = mjw.put_model(mjm); d = mjw.make_data(mjm, nworld=2)
    for _ in range(2): mjw.step(m, d)
    wp.synchronize()
  except Exception as e:
    print('warm', path, type(e).__name__, e)
"""


def main():
  procs = []
  for mode in ("release", "debug", "perm"):
    procs.append(subprocess.Popen(["/venv/bin/python", "-c", CODE % VERIF, mode], cwd=VERIF, stdout=subprocess.DEVNULL, stderr=subprocess.DEVNULL))
  for p in procs:
    try:
      p.wait(timeout=900)
    except Exception:
      p.kill()


if __name__ == "__main__":
  main()
