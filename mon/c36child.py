"""Child process for C36: runs a program of configurations, then the target, in ONE interpreter.

python -m mon.c36child <spec.json> <out.json>
spec = {"program": [cfg, ...], "target": cfg, "steps": K}
cfg  = {"scene": <scenes spec | {"kind":"xml","xml":...}>, "nworld": n, "seed": s, "model_opts": {...}, "caps": {...}}
Output: target trajectory (hex of float32 bytes per step, so comparison is bit-exact) + cache audit findings.
"""

import dataclasses
import hashlib
import json
import sys

import numpy as np


def deep_fp(a):
  """content fingerprint of a kernel-builder argument."""
  try:
    import warp as wp
  except Exception:
    wp = None
  if dataclasses.is_dataclass(a) and not isinstance(a, type):
    return (type(a).__name__,) + tuple((f.name, deep_fp(getattr(a, f.name))) for f in dataclasses.fields(a))
  if hasattr(a, "numpy") and hasattr(a, "shape"):
    arr = a.numpy()
    return ("arr", tuple(arr.shape), hashlib.sha1(np.ascontiguousarray(arr).tobytes()).hexdigest()[:12])
  if isinstance(a, np.ndarray):
    return ("np", tuple(a.shape), hashlib.sha1(np.ascontiguousarray(a).tobytes()).hexdigest()[:12])
  if isinstance(a, (list, tuple)):
    return tuple(deep_fp(x) for x in a)
  if isinstance(a, (bool, int, np.integer)):
    return ("int", int(a))  # bool / IntEnum / int hash alike and specialise code alike
  if callable(a):
    return ("fn", getattr(a, "__name__", None) or getattr(getattr(a, "func", None), "__name__", repr(a)))
  return repr(a)


AUDIT = {"hits": 0, "misses": 0, "collisions": []}


def install_cache_audit():
  """Import hook: patches warp_util.cache_kernel right after that module executes, i.e. before any other
  mujoco_warp module does `from warp_util import cache_kernel`."""
  import importlib.abc
  import importlib.machinery

  class Hook(importlib.abc.MetaPathFinder):
    def find_spec(self, name, path, target=None):
      if name != "mujoco_warp._src.warp_util":
        return None
      spec = importlib.machinery.PathFinder.find_spec(name, path)
      if spec is None:
        return None
      loader = spec.loader
      orig_exec = loader.exec_module

      def exec_module(module):
        orig_exec(module)
        _patch(module)

      loader.exec_module = exec_module
      return spec

  sys.meta_path.insert(0, Hook())


def _patch(wu):
  orig = wu.cache_kernel

  def cache_kernel(func):
    state = {"built": False}
    fps = {}  # id(kernel object) -> set of argument fingerprints it was BUILT for

    def counting_builder(*args, **kwargs):
      state["built"] = True
      return func(*args, **kwargs)

    counting_builder.__name__ = func.__name__
    wrapped = orig(counting_builder)

    def wrapper(*args, **kwargs):
      # keyword arguments are passed through untouched (whether the repository's cache accepts and keys them is its
      # business); the fingerprint covers their values
      state["built"] = False
      k = wrapped(*args, **kwargs)
      fp = deep_fp(args) if not kwargs else deep_fp((args, tuple(sorted((n, deep_fp(v)) for n, v in kwargs.items()))))
      if state["built"]:
        AUDIT["misses"] += 1
        fps.setdefault(id(k), (set(), k))[0].add(fp)
      else:
        AUDIT["hits"] += 1
        known = fps.get(id(k), (set(), None))[0]
        if fp not in known:
          # the key ignored something that differs: decide by building the kernel for THESE arguments and
          # comparing it with the one that was served (Warp gives kernels of identical code the same key)
          AUDIT["rebuilt_on_hit"] = AUDIT.get("rebuilt_on_hit", 0) + 1
          k2 = func(*args, **kwargs)
          # module="unique" kernels: the module name carries Warp's content hash (kernel.key does not)
          ident = lambda kk: (getattr(getattr(kk, "module", None), "name", None), getattr(kk, "key", None))
          same = (k2 is k) or (ident(k2)[0] is not None and ident(k2) == ident(k))
          if same:
            known.add(fp)
          elif len(AUDIT["collisions"]) < 10:
            AUDIT["collisions"].append(
              {"builder": func.__name__, "built_for": repr(sorted(known, key=repr))[:300], "served_for": repr(fp)[:300], "served_key": str(getattr(k, "key", None)), "correct_key": str(getattr(k2, "key", None))}
            )
      return k

    wrapper.__name__ = getattr(func, "__name__", "builder")
    wrapper.__wrapped__ = func
    return wrapper

  wu.cache_kernel = cache_kernel


def build(cfg):
  import mujoco

  from mon import mw, scenes

  sc = cfg["scene"]
  if sc["kind"] == "xml":
    mjm = mujoco.MjModel.from_xml_string(sc["xml"])
    scenes.apply_opt(mjm, sc.get("opt"))
    label = "xml"
  else:
    label, mjm, feats = scenes.scene(sc)
  if mjm is None:
    return None
  m = mw.put_model(mjm)
  for k, v in (cfg.get("model_opts") or {}).items():
    setattr(m.opt, k, v)
  rng = np.random.default_rng(cfg["seed"])
  states = scenes.settle_states(mjm, rng, cfg["nworld"], steps=(6, 0, 15))
  d = mw.make_data(mjm, m, states, **(cfg.get("caps") or {}))
  return mjm, m, d


def run_cfg(cfg, steps, record):
  import mujoco_warp as mjw

  from mon import mw

  try:
    b = build(cfg)
  except (NotImplementedError, ValueError) as e:
    return {"rejected": str(e)[:200]}
  if b is None:
    return {"rejected": "mujoco compile"}
  mjm, m, d = b
  traj = []
  for t in range(steps):
    mjw.step(m, d)
    if record:
      rec = {}
      for k in ("qpos", "qvel", "qacc", "sensordata", "nefc", "qfrc_constraint"):
        rec[k] = np.ascontiguousarray(mw.npy(getattr(d, k))).tobytes().hex()
      c = mw.sorted_contacts(mw.contacts(d))
      rec["ncon"] = int(len(c["dist"]))
      rec["contacts"] = np.ascontiguousarray(np.concatenate([c["dist"].reshape(-1, 1), c["pos"].reshape(-1, 3), c["frame"].reshape(-1, 9)], axis=1).astype(np.float32)).tobytes().hex() if len(c["dist"]) else ""
      rec["contact_geom"] = c["geom"].reshape(-1).tolist()
      rec["overflow"] = mw.npy(d.overflow).tolist()
      traj.append(rec)
  return {"traj": traj, "nv": int(mjm.nv)}


def main():
  spec = json.load(open(sys.argv[1]))
  sys.path.insert(0, spec.get("verif", "/verif"))
  from mon import worker

  worker.setup_warp("release")
  install_cache_audit()
  import mujoco_warp  # noqa: F401  (after the audit hook so that every builder is wrapped)
  import mujoco_warp._src.collision_primitive as cp

  out = {"program": []}
  for cfg in spec["program"]:
    try:
      r = run_cfg(cfg, 2, False)
      out["program"].append("rejected" if "rejected" in r else "ran")
    except Exception as e:  # noqa: an exception in a program entry is C17's subject; the target still runs
      out["program"].append(f"error:{type(e).__name__}")
  out["globals_before_target"] = {"_PRIMITIVE_COLLISION_TYPES": [tuple(int(x) for x in t) for t in getattr(cp, "_PRIMITIVE_COLLISION_TYPES", [])]}
  try:
    out["target"] = run_cfg(spec["target"], spec["steps"], True)
  except Exception as e:  # noqa
    import traceback

    out["target"] = {"error": f"{type(e).__name__}: {e}"[:300], "where": traceback.format_exc()[-600:]}
  out["audit"] = AUDIT
  with open(sys.argv[2], "w") as f:
    json.dump(out, f)


if __name__ == "__main__":
  main()
