"""E2/E3: reference evaluation with a conditioning probe, and the comparator / verdict policy.

ok          err <= a*scale + C*D
violated    err >  VIOL_FACTOR * (a*scale + C*D)      (and the case is well conditioned)
otherwise   inconclusive
where D is the spread of the *reference itself* under +-1..2 float32-ulp perturbations of the input.
"""

import mujoco
import numpy as np

from mon import mw

C_NOISE = 50.0
VIOL_FACTOR = 30.0
ILLCOND = 1e-3  # a field whose reference moves by more than this (relative) under ulp noise is not judged


def perturb_state(st, rng, ulps=2):
  out = dict(st)
  for k in ("qpos", "qvel", "act", "ctrl", "mocap_pos", "mocap_quat", "qfrc_applied", "xfrc_applied"):
    if k in st and np.asarray(st[k]).size:
      v = np.asarray(st[k], dtype=np.float32)
      n = rng.integers(-ulps, ulps + 1, size=v.shape)
      eps = np.spacing(np.abs(v).astype(np.float32)).astype(np.float64)
      eps = np.maximum(eps, 1e-9)
      out[k] = (v.astype(np.float64) + n * eps).astype(np.float64)
  return out


def reference(mjm, st, stage_fn, extract_fn, probes=3, seed=0):
  """Runs the MuJoCo stage on the state and on `probes` ulp-perturbed copies.

  Returns (ref_fields, noise) where noise[name] = max |ref_perturbed - ref| (0-d float).
  """
  mjd = mujoco.MjData(mjm)
  mw.apply_state_mj(mjm, mjd, st)
  stage_fn(mjm, mjd)
  ref = {k: np.array(v, dtype=np.float64, copy=True) for k, v in extract_fn(mjm, mjd).items()}
  noise = {k: 0.0 for k in ref}
  rng = np.random.default_rng(seed + 12345)
  for _ in range(probes):
    mjd2 = mujoco.MjData(mjm)
    mw.apply_state_mj(mjm, mjd2, perturb_state(st, rng))
    stage_fn(mjm, mjd2)
    alt = extract_fn(mjm, mjd2)
    for k in ref:
      a = np.asarray(alt[k], dtype=np.float64)
      if a.shape != ref[k].shape:
        noise[k] = float("inf")
        continue
      if a.size:
        if k.endswith("quat"):
          dd = float(mw.quat_err(a.reshape(-1, 4), ref[k].reshape(-1, 4)).max())
        else:
          dd = float(np.abs(a - ref[k]).max())
        noise[k] = max(noise[k], dd)
  return ref, noise, mjd


def judge(rec, name, got, ref, allow, noise=0.0, quat=False, sig_prefix="", ctx=""):
  """Applies the tolerance policy to one field; records worst ratio; returns 'ok'|'viol'|'incon'."""
  got = np.asarray(got, dtype=np.float64)
  ref = np.asarray(ref, dtype=np.float64)
  rec.check()
  if got.shape != ref.shape:
    try:
      got = got.reshape(ref.shape)
    except Exception:
      rec.viol(f"{sig_prefix}{name}:shape", f"{name}: shape {got.shape} vs reference {ref.shape} {ctx}")
      return "viol"
  if ref.size == 0:
    return "ok"
  scale = max(1.0, float(np.abs(ref).max()))
  if not np.all(np.isfinite(ref)):
    rec.inconcl(f"{name}: reference not finite")
    return "incon"
  if not np.all(np.isfinite(got)):
    rec.viol(f"{sig_prefix}{name}:nonfinite", f"{name}: MJWarp value not finite where MuJoCo's is {ctx}")
    return "viol"
  if quat:
    err = float(mw.quat_err(got.reshape(-1, 4), ref.reshape(-1, 4)).max())
  else:
    err = float(np.abs(got - ref).max())
  if noise == float("inf") or noise > ILLCOND * scale:
    rec.inconcl(f"{name}: ill-conditioned reference")
    rec.count("illcond_fields")
    return "incon"
  bound = allow * scale + C_NOISE * noise
  ratio = err / bound
  rec.worst(name, ratio)
  if ratio <= 1.0:
    return "ok"
  if ratio > VIOL_FACTOR:
    if quat:
      idx = int(np.argmax(mw.quat_err(got.reshape(-1, 4), ref.reshape(-1, 4))))
    else:
      idx = int(np.argmax(np.abs(got - ref)))
    rec.viol(
      f"{sig_prefix}{name}",
      f"{name}: |mjwarp-mujoco|={err:.3g} > {VIOL_FACTOR:g}x bound {bound:.3g} (scale {scale:.3g}, noise {noise:.2g}) at flat index {idx} {ctx}",
      got=got.ravel()[max(0, idx - 2) : idx + 3],
      ref=ref.ravel()[max(0, idx - 2) : idx + 3],
      index=idx,
    )
    return "viol"
  rec.inconcl(f"{name}: between bound and violation line")
  rec.count("grey_zone_fields")
  return "incon"


def first_divergence(rec, name, a, b, sig_prefix="", ctx="", tol_round=1e-4, tol_viol=1e-2):
  """Metamorphic comparison of two executions that should agree.

  Returns 'bit' | 'round' | 'viol' | 'incon'.
  """
  a = np.asarray(a)
  b = np.asarray(b)
  rec.check()
  if a.shape != b.shape:
    rec.viol(f"{sig_prefix}{name}:shape", f"{name}: shapes differ {a.shape} vs {b.shape} {ctx}")
    return "viol"
  if a.size == 0:
    return "bit"
  if a.dtype.kind in "iub":
    if np.array_equal(a, b):
      return "bit"
    idx = int(np.argmax(a.ravel() != b.ravel()))
    rec.viol(f"{sig_prefix}{name}", f"{name}: integer field differs at {idx}: {a.ravel()[idx]} vs {b.ravel()[idx]} {ctx}", index=idx)
    return "viol"
  if a.tobytes() == b.tobytes():
    return "bit"
  a64 = a.astype(np.float64)
  b64 = b.astype(np.float64)
  nan_a, nan_b = ~np.isfinite(a64), ~np.isfinite(b64)
  if nan_a.any() or nan_b.any():
    if np.array_equal(nan_a, nan_b) and np.allclose(a64[~nan_a], b64[~nan_b], rtol=0, atol=0):
      return "bit"
    rec.viol(f"{sig_prefix}{name}:nonfinite", f"{name}: non-finite values differ {ctx}")
    return "viol"
  scale = max(1.0, float(np.abs(a64).max()), float(np.abs(b64).max()))
  err = float(np.abs(a64 - b64).max())
  rel = err / scale
  rec.worst("fd:" + name, rel / tol_round)
  if rel <= tol_round:
    return "round"
  if rel >= tol_viol:
    idx = int(np.argmax(np.abs(a64 - b64)))
    rec.viol(
      f"{sig_prefix}{name}",
      f"{name}: executions differ by {err:.3g} (rel {rel:.2g}) at flat index {idx}: {a64.ravel()[idx]:.6g} vs {b64.ravel()[idx]:.6g} {ctx}",
      index=idx,
    )
    return "viol"
  rec.inconcl(f"{name}: difference between round-off and violation line")
  return "incon"
