"""Glue between generated cases, MuJoCo (reference executor, E2) and MJWarp (system under observation)."""

import warnings

import mujoco
import numpy as np

STATE_FIELDS = ("qpos", "qvel", "act", "ctrl", "mocap_pos", "mocap_quat", "qfrc_applied", "xfrc_applied", "eq_active", "time", "userdata")


def apply_state_mj(mjm, mjd, st, reset=True):
  """Loads a sampled state into MjData (float64 copies of float32 values)."""
  if reset:
    mujoco.mj_resetData(mjm, mjd)
  for k in STATE_FIELDS:
    if k not in st:
      continue
    v = st[k]
    if k == "time":
      mjd.time = float(v)
    elif k == "eq_active":
      mjd.eq_active[:] = np.asarray(v, dtype=np.uint8)
    else:
      arr = getattr(mjd, k)
      if arr.size:
        arr[...] = np.asarray(v, dtype=np.float64).reshape(arr.shape)
  if "qacc_warmstart" in st:
    mjd.qacc_warmstart[:] = st["qacc_warmstart"]


def put_model(mjm, **kw):
  import mujoco_warp as mjw

  with warnings.catch_warnings():
    warnings.simplefilter("ignore")
    return mjw.put_model(mjm, **kw)


def set_world_states(m, d, states):
  """Writes a list of per-world state dicts into mjw.Data arrays."""
  import warp as wp

  nworld = d.nworld
  assert len(states) == nworld
  for k in STATE_FIELDS:
    if k not in states[0]:
      continue
    dst = getattr(d, k)
    if k == "time":
      arr = np.array([float(s["time"]) for s in states], dtype=np.float32)
    elif k == "eq_active":
      arr = np.stack([np.asarray(s[k], dtype=bool) for s in states])
    elif k == "xfrc_applied":
      arr = np.stack([np.asarray(s[k], dtype=np.float32) for s in states])
    elif k in ("mocap_pos", "mocap_quat"):
      arr = np.stack([np.asarray(s[k], dtype=np.float32) for s in states])
    else:
      arr = np.stack([np.asarray(s[k], dtype=np.float32) for s in states])
    if arr.size == 0:
      continue
    wp.copy(dst, wp.array(arr, dtype=dst.dtype))
  if any("qacc_warmstart" in s for s in states):
    nv = d.qacc_warmstart.shape[1]
    arr = np.stack([np.asarray(s.get("qacc_warmstart", np.zeros(nv)), dtype=np.float32) for s in states])
    wp.copy(d.qacc_warmstart, wp.array(arr, dtype=float))


def make_data(mjm, m, states, **caps):
  import mujoco_warp as mjw

  with warnings.catch_warnings():
    warnings.simplefilter("ignore")
    d = mjw.make_data(mjm, nworld=len(states), **caps)
  set_world_states(m, d, states)
  return d


def npy(a):
  return a.numpy() if a is not None and hasattr(a, "numpy") else a


def quat_err(a, b):
  """sign-insensitive max abs difference between quaternion arrays (..., 4)."""
  a = np.asarray(a, dtype=np.float64)
  b = np.asarray(b, dtype=np.float64)
  d1 = np.abs(a - b).max(axis=-1)
  d2 = np.abs(a + b).max(axis=-1)
  return np.minimum(d1, d2)


def rel_err(x, r):
  """(err, scale) with scale=max(1,max|r|)."""
  x = np.asarray(x, dtype=np.float64)
  r = np.asarray(r, dtype=np.float64)
  if x.shape != r.shape:
    return float("inf"), 1.0
  if r.size == 0:
    return 0.0, 1.0
  scale = max(1.0, float(np.abs(r).max()))
  d = np.abs(x - r)
  if not np.all(np.isfinite(x)):
    return float("inf"), scale
  return float(d.max()), scale


def overflow(d):
  return npy(d.overflow).copy()


def zero_overflow(d):
  d.overflow.zero_()


def dense_M(mjm, Mrow):
  """Dense symmetric inertia from MJWarp's / MuJoCo's CSR lower-triangle storage (length nC)."""
  out = np.zeros((mjm.nv, mjm.nv))
  mujoco.mju_sym2dense(out, np.array(Mrow, dtype=np.float64)[: mjm.nC], mjm.M_rownnz, mjm.M_rowadr, mjm.M_colind)
  return out


# ------------------------------------------------------------------------------------ snapshots

CONTACT_FIELDS = ("dist", "pos", "frame", "includemargin", "friction", "solref", "solreffriction", "solimp", "dim", "geom", "efc_address", "type")


def contacts(d, w=None):
  """Contacts of world w (all worlds if None) among the first min(nacon, naconmax) pool slots.

  Returns dict name -> array plus 'slot' (pool indices) and 'nacon_raw'.
  """
  nacon_raw = int(npy(d.nacon)[0])
  n = min(nacon_raw, d.naconmax)
  wid = npy(d.contact.worldid)[:n]
  sel = np.arange(n) if w is None else np.nonzero(wid == w)[0]
  out = {"slot": sel, "nacon_raw": nacon_raw, "worldid": wid[sel]}
  for k in CONTACT_FIELDS:
    out[k] = np.array(npy(getattr(d.contact, k))[:n][sel])
  return out


def contact_sort_key(c):
  """Canonical order of a contact dict: by geom pair, then position rounded to 1e-4, then dist."""
  g = c["geom"].reshape(-1, 2)
  p = np.round(c["pos"].reshape(-1, 3) / 1e-4).astype(np.int64)
  keys = np.lexsort((np.round(c["dist"] / 1e-5).astype(np.int64), p[:, 2], p[:, 1], p[:, 0], g[:, 1], g[:, 0]))
  return keys


def sorted_contacts(c):
  order = contact_sort_key(c)
  return {k: (v[order] if isinstance(v, np.ndarray) and v.shape[:1] == order.shape else v) for k, v in c.items()}


def efc_rows(mjm, m, d, w):
  """Constraint rows of world w with a dense Jacobian (nefc, nv)."""
  nefc = int(min(npy(d.nefc)[w], d.njmax))
  out = {"nefc": nefc, "nefc_raw": int(npy(d.nefc)[w]), "ne": int(npy(d.ne)[w]), "nf": int(npy(d.nf)[w]), "nl": int(npy(d.nl)[w])}
  for k in ("type", "id", "pos", "margin", "D", "vel", "aref", "frictionloss", "force", "state"):
    out[k] = np.array(npy(getattr(d.efc, k))[w][:nefc])
  nv = mjm.nv
  if m.is_sparse:
    J = np.zeros((nefc, nv))
    rownnz = npy(d.efc.J_rownnz)[w]
    rowadr = npy(d.efc.J_rowadr)[w]
    colind = npy(d.efc.J_colind)[w].reshape(-1)
    vals = npy(d.efc.J)[w].reshape(-1)
    ok = True
    for i in range(nefc):
      a, n = int(rowadr[i]), int(rownnz[i])
      if a < 0 or n < 0 or a + n > vals.size:
        ok = False
        continue
      cols = colind[a : a + n]
      if n and (cols.min() < 0 or cols.max() >= nv):
        ok = False
        continue
      np.add.at(J[i], cols, vals[a : a + n])
    out["J"] = J
    out["J_ok"] = ok
    out["nnz"] = int(rownnz[:nefc].sum())
  else:
    out["J"] = np.array(npy(d.efc.J)[w][:nefc, :nv], dtype=np.float64)
    out["J_ok"] = True
  return out


def world_fields(d):
  """Names of Data fields whose leading dimension is nworld (per-world observables)."""
  import dataclasses

  names = []
  for f in dataclasses.fields(type(d)):
    v = getattr(d, f.name, None)
    if hasattr(v, "numpy") and hasattr(v, "shape") and len(v.shape) >= 1 and v.shape[0] == d.nworld:
      spec = getattr(f.type, "shape", None)
      if spec and spec[0] == "nworld":
        names.append(f.name)
  return names


def snapshot(d, names=None):
  """numpy copies of per-world Data arrays (all worlds)."""
  names = names or world_fields(d)
  return {k: np.array(npy(getattr(d, k))) for k in names}
