"""Glue between generated cases, MuJoCo (reference executor, E2) and MJWarp (system under observation)."""

import warnings

import mujoco
import numpy as np

STATE_FIELDS = ("qpos", "qvel", "act", "ctrl", "mocap_pos", "mocap_quat", "qfrc_applied", "xfrc_applied", "eq_active", "time", "userdata")


def apply_state_mj(mjm, mjd, st, reset=True):
  """Loads a sampled state into MjData (float64 copies of float32 values)."""
  if reset:
    mujoco.mj_resetData(mjm, mjd)
  for k in STATE_FIELDS:
    if k not in st:
      continue
    v = st[k]
    if k == "time":
      mjd.time = float(v)
    elif k == "eq_active":
      mjd.eq_active[:] = np.asarray(v, dtype=np.uint8)
    else:
      arr = getattr(mjd, k)
      if arr.size:
        arr[...] = np.asarray(v, dtype=np.float64).reshape(arr.shape)
  if "qacc_warmstart" in st:
    mjd.qacc_warmstart[:] = st["qacc_warmstart"]


def put_model(mjm, **kw):
  import mujoco_warp as mjw

  with warnings.catch_warnings():
    warnings.simplefilter("ignore")
    return mjw.put_model(mjm, **kw)


def set_world_states(m, d, states):
  """Writes a list of per-world state dicts into mjw.Data arrays."""
  import warp as wp

  nworld = d.nworld
  assert len(states) == nworld
  for k in STATE_FIELDS:
    if k not in states[0]:
      continue
    dst = getattr(d, k)
    if k == "time":
      arr = np.array([float(s["time"]) for s in states], dtype=np.float32)
    elif k == "eq_active":
      arr = np.stack([np.asarray(s[k], dtype=bool) for s in states])
    elif k == "xfrc_applied":
      arr = np.stack([np.asarray(s[k], dtype=np.float32) for s in states])
    elif k in ("mocap_pos", "mocap_quat"):
      arr = np.stack([np.asarray(s[k], dtype=np.float32) for s in states])
    else:
      arr = np.stack([np.asarray(s[k], dtype=np.float32) for s in states])
    if arr.size == 0:
      continue
    wp.copy(dst, wp.array(arr, dtype=dst.dtype))
  if "qacc_warmstart" in states[0]:
    arr = np.stack([np.asarray(s["qacc_warmstart"], dtype=np.float32) for s in states])
    wp.copy(d.qacc_warmstart, wp.array(arr, dtype=float))


def make_data(mjm, m, states, **caps):
  import mujoco_warp as mjw

  with warnings.catch_warnings():
    warnings.simplefilter("ignore")
    d = mjw.make_data(mjm, nworld=len(states), **caps)
  set_world_states(m, d, states)
  return d


def npy(a):
  return a.numpy() if a is not None and hasattr(a, "numpy") else a


def quat_err(a, b):
  """sign-insensitive max abs difference between quaternion arrays (..., 4)."""
  a = np.asarray(a, dtype=np.float64)
  b = np.asarray(b, dtype=np.float64)
  d1 = np.abs(a - b).max(axis=-1)
  d2 = np.abs(a + b).max(axis=-1)
  return np.minimum(d1, d2)


def rel_err(x, r):
  """(err, scale) with scale=max(1,max|r|)."""
  x = np.asarray(x, dtype=np.float64)
  r = np.asarray(r, dtype=np.float64)
  if x.shape != r.shape:
    return float("inf"), 1.0
  if r.size == 0:
    return 0.0, 1.0
  scale = max(1.0, float(np.abs(r).max()))
  d = np.abs(x - r)
  if not np.all(np.isfinite(x)):
    return float("inf"), scale
  return float(d.max()), scale


def overflow(d):
  return npy(d.overflow).copy()


def zero_overflow(d):
  d.overflow.zero_()


def dense_M(mjm, Mrow):
  """Dense symmetric inertia from MJWarp's / MuJoCo's CSR lower-triangle storage (length nC)."""
  out = np.zeros((mjm.nv, mjm.nv))
  mujoco.mju_sym2dense(out, np.array(Mrow, dtype=np.float64)[: mjm.nC], mjm.M_rownnz, mjm.M_rowadr, mjm.M_colind)
  return out
