"""C32 Disable and enable flags act exactly as in MuJoCo.

Differential monitor over flag subsets: the flag set S (17 disable + 2 enable bits) is written into the MjModel before
put_model; then (a) one mjw.step() is compared with mujoco.mj_step() from the same float32 state with the C08 oracle
(mon/props/_step.py, post-solver quantities gated), plus sensordata and energy of that step, and (b) mjw.forward();
mjw.inverse() is compared with mj_forward(); mj_inverse() fed with the same qacc (makes INVDISCRETE observable).
Scenes are built so that every flag has something to switch off/on; liveness is *measured* per case and flag: toggling
that one flag (S vs S minus f) changes MuJoCo's own result.

A flag usually acts in more than one code path (CLAMPCTRL: the actuator force AND the velocity derivative d force/d qvel that
the implicit integrators put into M - h*qDeriv; DAMPER: passive force, qDeriv, Euler's implicit damping; every flag: the RK4
stages). The second family 'xi' therefore crosses flag sets with all four integrators on actuator-dense scenes (velocity-
dependent actuator gains/biases scaled to the inertia they act on, driven outside ctrlrange; joint and tendon damping), and
liveness is additionally measured *in the derivative path*: toggling the flag changes MuJoCo's qDeriv.
"""

import mujoco
import numpy as np

from mon import cmp, core, gen, mw
from mon.props import _step

ID = "C32"
LEVEL = "exploration"
RULE = (
  "case=(scene seed, flag set S, integrator): generated articulated scene with joint/tendon limits, equalities (one with "
  "solref below 2*timestep), dof/tendon frictionloss, springs, dampers, gravcomp, actuators with ctrl outside ctrlrange, "
  "pre-solver sensors, plus free spheres/capsules resting on a plane and a parent/child pair of overlapping colliding geoms; "
  "S runs over all singletons, all pairs and random subsets of 19 flags; 2 worlds with different states and non-zero "
  "warmstart; scene index and integrator are decorrelated (every scene meets every integrator). Family xi: the same scenes "
  "plus 3-4 appended velocity-feedback actuators (affine gain with gainprm[2]!=0 with/without activation dynamics, actearly, "
  "actrange, forcerange, tendon transmission; damper; position with kv), coefficient scaled so that h*coef*ctrl*J^T M^-1 J is "
  "0.15-0.45, ctrl outside ctrlrange; S = every singleton x {Euler, RK4, implicit, implicitfast}, pairs with CLAMPCTRL/DAMPER/"
  "ACTUATION and random subsets containing one of them under implicit/implicitfast. "
  "Non-trivial: >=1 world judged on qvel under S; distinct by hash(xml, S, integrator, states)."
)
ASSUMPTIONS = [
  "MuJoCo 3.13 with the same flag bits is the reference; flags are baked into the MJWarp Model at put_model time",
  "C08's gating rule and allowances apply to post-solver quantities; sensordata/energy use the pre-solver allowance",
  "NATIVECCD is documented as ignored by MJWarp and SLEEP is out of scope: neither is toggled",
  "liveness of flag f in a case = MuJoCo's one-step result (qpos,qvel,act,sensordata,energy,qfrc_inverse,ne/nf/nl/nefc/ncon,"
  "solver iterations, island count) differs between S and S with f toggled",
  "INVDISCRETE is only combined with Euler / implicitfast (MJWarp rejects it for implicit, both engines for RK4)",
  "liveness of flag f in the derivative path = MuJoCo's qDeriv after an implicit/implicitfast step differs between S and S with f toggled",
]
BUDGET = {"quick": 240, "thorough": 2400}

DIS = ["CONSTRAINT", "EQUALITY", "FRICTIONLOSS", "LIMIT", "CONTACT", "SPRING", "DAMPER", "GRAVITY", "CLAMPCTRL", "WARMSTART", "FILTERPARENT", "ACTUATION", "REFSAFE", "SENSOR", "EULERDAMP", "ISLAND", "MULTICCD"]
ENB = ["ENERGY", "INVDISCRETE"]
FLAGS = [("d", f) for f in DIS] + [("e", f) for f in ENB]
INT_ENUM = {"Euler": 0, "RK4": 1, "implicit": 2, "implicitfast": 3}

P_SCENE = gen.profile(
  nbody=(3, 6),
  p_free=0.1,
  p_ball=0.15,
  p_spring=0.6,
  p_damping=0.7,
  p_armature=0.4,
  p_gravcomp=0.5,
  tendon_fixed=0.7,
  tendon_spatial=0.2,
  p_limit=0.7,
  p_frictionloss=0.4,
  equality=3,
  actuators=3,
  act_kinds=("motor", "position", "velocity", "general", "damper"),
  act_dyn=("none", "integrator", "filter"),
  act_ball=False,
  p_mocap=0.0,
  p_plane=0.0,
  sensors=5,
  sensor_kinds=("jointpos", "jointvel", "framepos", "framelinvel", "actuatorfrc", "tendonpos", "subtreecom", "clock", "actuatorpos"),
  timestep=(0.00390625,),
)

CONTACT_BLOCK = """
    <geom name="c32_plane" type="plane" size="0 0 1" pos="0 0 -3" contype="1" conaffinity="1" solref="0.003 1"/>
    <body name="c32_a" pos="3 0 {za:.5f}">
      <freejoint/>
      <geom name="c32_ga" type="sphere" size="0.15" contype="1" conaffinity="1" solref="{sr} 1" condim="{cd}"/>
      <body name="c32_a2" pos="0.2 0 0.12">
        <joint name="c32_j" type="hinge" axis="0 1 0" damping="0.2"/>
        <geom name="c32_ga2" type="sphere" size="0.1" contype="1" conaffinity="1"/>
      </body>
    </body>
    <body name="c32_b" pos="4 1 {zb:.5f}">
      <freejoint/>
      <geom name="c32_gb" type="capsule" size="0.1 0.15" quat="0.70710678 0 0.70710678 0" contype="1" conaffinity="1" solref="0.003 1"/>
    </body>
"""


def flag_bits(S):
  dis = en = 0
  for kind, name in S:
    if kind == "d":
      dis |= int(getattr(mujoco.mjtDisableBit, "mjDSBL_" + name))
    else:
      en |= int(getattr(mujoco.mjtEnableBit, "mjENBL_" + name))
  return dis, en


def fname(S):
  return "+".join(sorted(("" if k == "d" else "en:") + n for k, n in S)) or "none"


IMPL = ("implicitfast", "implicit")
# flags whose effect also has to reach the velocity-derivative matrix M - h*qDeriv of the implicit integrators (a second code
# path next to the force itself: derivative.deriv_smooth_vel), crossed with every other flag in the "xi" family
FOCUS = [("d", "CLAMPCTRL"), ("d", "DAMPER"), ("d", "ACTUATION")]


def _valid_integ(S, integ):
  if ("e", "INVDISCRETE") in [tuple(f) for f in S] and integ in ("implicit", "RK4"):
    return "implicitfast"
  return integ


def xi_cases(tier, seed):
  """Family 'xi': flag sets x integrators on actuator-dense scenes (build_scene(dense=True)): every scene carries
  velocity-feedback actuators (velocity-dependent gain or bias, with/without activation dynamics, ctrl- and force-limited,
  joint and tendon transmissions) driven outside ctrlrange, joint and tendon damping - the features through which a flag
  reaches integrator-specific code (qDeriv of implicit/implicitfast, Euler's implicit damping, the RK4 stages)."""
  quick = tier == "quick"
  nd = 6 if quick else 40
  rng = np.random.default_rng(seed + 777)
  xs = []
  for r in range(1 if quick else 4):
    for f in FLAGS:
      for integ in INT_ENUM:
        if _valid_integ([f], integ) == integ:
          xs.append(([f], integ))
  k = 0
  first = FOCUS if quick else FLAGS
  seen = set()
  for f in first:
    for g in FLAGS:
      key = frozenset((f, g))
      if g == f or key in seen:
        continue
      seen.add(key)
      S = sorted([f, g], key=FLAGS.index)
      for integ in (IMPL[k % 2],) if quick else IMPL:
        xs.append((S, _valid_integ(S, integ)))
      k += 1
  for _ in range(25 if quick else 1500):
    n = int(rng.integers(3, 9))
    idx = sorted(rng.choice(len(FLAGS), size=n, replace=False).tolist())
    S = [FLAGS[i] for i in idx]
    if not any(f in S for f in FOCUS):
      S[int(rng.integers(len(S)))] = FOCUS[int(rng.integers(len(FOCUS)))]
      S = sorted(set(S), key=FLAGS.index)
    integ = ("Euler", "RK4", "implicit", "implicitfast", "implicit", "implicitfast")[int(rng.integers(6))]
    xs.append((S, _valid_integ(S, integ)))
  out = []
  for n, (S, integ) in enumerate(xs):
    out.append({"id": f"s{seed}_xi{n}", "seed": seed * 100000 + 50000 + n, "scene": seed * 1000 + 500 + ((n + n // 4 + n // 24) % nd), "dense": True, "flags": [list(f) for f in S], "integrator": integ, "weight": 1})
  return out


def cases(tier, seed):
  nscene = 6 if tier == "quick" else 40
  sets = [[]]
  sets += [[f] for f in FLAGS]
  sets += [[FLAGS[i], FLAGS[j]] for i in range(len(FLAGS)) for j in range(i + 1, len(FLAGS))]
  rng = np.random.default_rng(seed + 4242)
  for _ in range(100 if tier == "quick" else 5000):
    k = int(rng.integers(3, 9))
    idx = rng.choice(len(FLAGS), size=k, replace=False)
    sets.append([FLAGS[i] for i in sorted(idx)])
  out = []
  for n, S in enumerate(sets):
    names = {f for _, f in S}
    integ = ("Euler", "implicitfast", "Euler", "implicit", "Euler", "RK4")[n % 6]
    if "INVDISCRETE" in names and integ in ("implicit", "RK4"):
      integ = "implicitfast"
    if "EULERDAMP" in names and len(S) <= 2:
      integ = "Euler"
    # (n + n // 6): the scene index is decorrelated from the integrator slot n % 6, every scene meets every integrator
    out.append({"id": f"s{seed}_{n}", "seed": seed * 100000 + n, "scene": seed * 1000 + ((n + n // 6) % nscene), "flags": [list(f) for f in S], "integrator": integ, "weight": 1})
  # interleave the xi family (a soft-budget expiry must not drop one family as a whole)
  xi = xi_cases(tier, seed)
  merged = []
  step = max(1, len(out) // max(1, len(xi)))
  j = 0
  for i, c in enumerate(out):
    merged.append(c)
    if (i + 1) % step == 0 and j < len(xi):
      merged.append(xi[j])
      j += 1
  merged += xi[j:]
  return merged


def _g(x):
  return " ".join(f"{float(v):.6g}" for v in np.atleast_1d(x))


DENSE_KINDS = ("velgain", "damper", "velgain_forcelimited", "velgain_dyn", "velgain_tendon", "position_kv", "velgain_bias")


def dense_actuators(xml, rng):
  """Appends 3-4 velocity-feedback actuators (names c32_x*) to the scene: the first one always has a velocity-dependent
  gain, no activation dynamics and a ctrlrange (the combination through which ctrl reaches qDeriv); the others are drawn
  from DENSE_KINDS. Returns the new xml (or the old one if the scene has no scalar joint)."""
  try:
    mjm = mujoco.MjModel.from_xml_string(xml)
  except Exception:
    return xml
  joints = [mujoco.mj_id2name(mjm, mujoco.mjtObj.mjOBJ_JOINT, j) for j in range(mjm.njnt) if int(mjm.jnt_type[j]) in (int(mujoco.mjtJoint.mjJNT_HINGE), int(mujoco.mjtJoint.mjJNT_SLIDE))]
  joints = [j for j in joints if j]
  tendons = [t for t in (mujoco.mj_id2name(mjm, mujoco.mjtObj.mjOBJ_TENDON, t) for t in range(mjm.ntendon)) if t]
  if not joints:
    return xml
  kinds = ["velgain"] + [DENSE_KINDS[int(rng.integers(len(DENSE_KINDS)))] for _ in range(int(rng.integers(2, 4)))]
  out, rho, cmax = [], [], []
  for i, kind in enumerate(kinds):
    j = joints[int(rng.integers(len(joints)))]
    trn = f'joint="{j}" gear="{_g(rng.choice([-1, 1]) * rng.uniform(0.5, 2))}"'
    if kind == "velgain_tendon":
      if tendons:
        trn = f'tendon="{tendons[int(rng.integers(len(tendons)))]}" gear="{_g(rng.uniform(0.5, 2))}"'
      kind = "velgain"
    lo = rng.uniform(-1.5, 0)
    hi = lo + rng.uniform(0.5, 2)
    cr = f'ctrllimited="true" ctrlrange="{_g([lo, hi])}"'
    # velocity coefficient (gainprm[2] / kv) is written as the placeholder @Ci@ and fixed in a second pass, relative to the
    # inertia seen by the transmission: rho = h * |coef| * |ctrl|max * (moment^T M^-1 moment) is the relative weight of the
    # actuator's term in M - h*qDeriv (>= ~0.03 to be visible above the float32 allowance, < 1 to keep the matrix definite
    # when the term is anti-dissipative); sign mostly dissipative for ctrl > 0
    rho.append(float(rng.uniform(0.15, 0.45) * (-1 if rng.random() < 0.75 else 1)))
    cmax.append(max(abs(lo), abs(hi)) + 3.0)
    gain = f'gaintype="affine" gainprm="{_g([rng.uniform(0.5, 5), rng.normal()])} @C{i}@"'
    name = f'name="c32_x{i}"'
    if kind == "velgain":
      out.append(f'    <general {name} {trn} {gain} {cr}/>')
    elif kind == "velgain_bias":
      out.append(f'    <general {name} {trn} {gain} biastype="affine" biasprm="{_g(rng.normal(size=3) * [2, 2, 0.5])}" {cr}/>')
    elif kind == "damper":
      hi = rng.uniform(0.5, 2)
      rho[-1], cmax[-1] = abs(rho[-1]), hi + 3.0
      out.append(f'    <damper {name} {trn} kv="@C{i}@" ctrlrange="0 {_g(hi)}"/>')
    elif kind == "velgain_forcelimited":
      fr = float(rng.choice([5.0, 50.0, 500.0]))
      out.append(f'    <general {name} {trn} {gain} {cr} forcelimited="true" forcerange="{_g([-fr, fr])}"/>')
    elif kind == "velgain_dyn":
      dyn = ("integrator", "filter", "filterexact")[int(rng.integers(3))]
      extra = f'dyntype="{dyn}" dynprm="{_g(1 if dyn == "integrator" else rng.uniform(0.01, 0.3))}"'
      if rng.random() < 0.5:
        extra += ' actearly="true"'
      if rng.random() < 0.5:
        a = rng.uniform(-1.2, -0.1)
        extra += f' actlimited="true" actrange="{_g([a, a + rng.uniform(0.5, 2.5)])}"'
      out.append(f'    <general {name} {trn} {gain} {extra} {cr}/>')
    elif kind == "position_kv":
      rho[-1], cmax[-1] = abs(rho[-1]), 1.0
      out.append(f'    <position {name} {trn} kp="{_g(rng.uniform(1, 30))}" kv="@C{i}@" {cr}/>')

  def render(coef):
    block = "\n".join(out) + "\n"
    for i, c in enumerate(coef):
      block = block.replace(f"@C{i}@", _g(c))
    if "</actuator>" in xml:
      return xml.replace("  </actuator>", block + "  </actuator>", 1)
    return xml.replace("</mujoco>", "  <actuator>\n" + block + "  </actuator>\n</mujoco>", 1)

  # pass 1 with unit coefficients: transmission moments and inertia at qpos0
  try:
    m1 = mujoco.MjModel.from_xml_string(render([1.0] * len(out)))
  except Exception:
    return xml
  d1 = mujoco.MjData(m1)
  mujoco.mj_forward(m1, d1)
  Minv = np.linalg.inv(mw.dense_M(m1, d1.M))
  mom = _step._actuator_moment_dense(m1, d1)
  h = float(m1.opt.timestep)
  coef = []
  for i in range(len(out)):
    a = mujoco.mj_name2id(m1, mujoco.mjtObj.mjOBJ_ACTUATOR, f"c32_x{i}")
    s = float(mom[a] @ Minv @ mom[a])
    coef.append(rho[i] / (h * cmax[i] * s) if s > 1e-9 else 0.1 * np.sign(rho[i]))
  return render(coef)


def dense_damping(mjm, scene_seed):
  """Dense scenes: joint and tendon damping strong enough to matter in M - h*qDeriv (and in Euler's implicit damping):
  70% of the tendons and 40% of the hinge/slide dofs get damping b with h * b * (J^T M^-1 J at qpos0) in 0.15-0.45.
  Written into the compiled MjModel (like the flags), identically for every flag set of the scene."""
  rng = np.random.default_rng(scene_seed + 4321)
  d = mujoco.MjData(mjm)
  mujoco.mj_forward(mjm, d)
  Minv = np.linalg.inv(mw.dense_M(mjm, d.M))
  h = float(mjm.opt.timestep)
  n = 0
  for t in range(mjm.ntendon):
    rho = rng.uniform(0.15, 0.45)
    if rng.random() < 0.7:
      J = np.zeros(mjm.nv)
      a, k = int(mjm.ten_J_rowadr[t]), int(mjm.ten_J_rownnz[t])
      J[mjm.ten_J_colind[a : a + k]] = d.ten_J[a : a + k]
      s = float(J @ Minv @ J)
      if s > 1e-9:
        mjm.tendon_damping[t] = rho / (h * s)
        if t % 2 == 0:
          mjm.tendon_dampingpoly[t] = [0.2 * rho / (h * s), 0.05 * rho / (h * s)]  # velocity-dependent damping coefficient
        n += 1
  for j in range(mjm.njnt):
    rho, u, poly = rng.uniform(0.15, 0.45), rng.random(), rng.random() < 0.5
    if int(mjm.jnt_type[j]) in (int(mujoco.mjtJoint.mjJNT_HINGE), int(mujoco.mjtJoint.mjJNT_SLIDE)) and u < 0.4:
      i = int(mjm.jnt_dofadr[j])
      mjm.dof_damping[i] = rho / (h * Minv[i, i])
      if poly:
        mjm.dof_dampingpoly[i] = [0.2 * mjm.dof_damping[i], 0.05 * mjm.dof_damping[i]]
      n += 1
    if int(mjm.jnt_type[j]) in (int(mujoco.mjtJoint.mjJNT_HINGE), int(mujoco.mjtJoint.mjJNT_SLIDE)) and mjm.jnt_stiffness[j] > 0 and j % 2 == 0:
      # displacement-dependent stiffness (SPRING flag: passive force and, with ENERGY, the potential energy)
      mjm.jnt_stiffnesspoly[j] = [0.3 * mjm.jnt_stiffness[j], 0.1 * mjm.jnt_stiffness[j]]
  return n


def build_scene(scene_seed, dense=False):
  rng = np.random.default_rng(scene_seed + 99)
  xml, mjm, feat, _ = gen.make_model(scene_seed, P_SCENE, accept=_step.well_conditioned)
  if xml is None:
    return None, None
  sr = (0.002, 0.02)[int(rng.integers(2))]
  block = CONTACT_BLOCK.format(za=-3 + 0.15 - 0.004, zb=-3 + 0.1 - 0.003, sr=sr, cd=(3, 4, 1)[int(rng.integers(3))])
  xml = xml.replace("  </worldbody>", block + "  </worldbody>")
  # one equality with a solref time constant below 2*timestep so that REFSAFE has something to do
  lines = xml.split("\n")
  for i, ln in enumerate(lines):
    if 'name="eq0"' in ln and "solref" not in ln:
      lines[i] = ln.replace('name="eq0"', 'name="eq0" solref="0.003 1"', 1)
  xml = "\n".join(lines)
  if dense:
    xml = dense_actuators(xml, np.random.default_rng(scene_seed + 1234))
  return xml, list(feat)


def sample_states(mjm, rng, nworld=2):
  states = []
  for w in range(nworld):
    st = gen.sample_state(mjm, rng, vel=float(rng.choice([0.3, 2.0])), quat_scale=False)
    # the contact sub-scene keeps its resting pose; small velocities there
    qp = st["qpos"].astype(np.float64)
    qv = st["qvel"].astype(np.float64)
    for nm in ("c32_a", "c32_b"):
      b = mujoco.mj_name2id(mjm, mujoco.mjtObj.mjOBJ_BODY, nm)
      j = mjm.body_jntadr[b]
      a, v = mjm.jnt_qposadr[j], mjm.jnt_dofadr[j]
      qp[a : a + 7] = mjm.qpos0[a : a + 7]
      qp[a + 2] -= rng.uniform(0, 0.003)
      qv[v : v + 6] = rng.normal(size=6) * 0.3
      if nm == "c32_b":
        qv[v + 3 : v + 6] = 0  # lone free body: keeps MuJoCo 3.13's implicit gyroscopic treatment (version skew) inactive
    st["qpos"] = qp.astype(np.float32)
    st["qvel"] = qv.astype(np.float32)
    st["xfrc_applied"] = (st["xfrc_applied"] * 0.3).astype(np.float32)
    # dense scenes: the appended velocity-feedback actuators are driven outside their ctrlrange (always the first one in
    # world 0, the others in 70% of the draws, either side), so that CLAMPCTRL decides which ctrl enters force AND qDeriv
    ctrl = st["ctrl"].astype(np.float64)
    for i in range(mjm.nu):
      nm = mujoco.mj_id2name(mjm, mujoco.mjtObj.mjOBJ_ACTUATOR, i) or ""
      if nm.startswith("c32_x") and mjm.actuator_ctrllimited[i]:
        u, side, mag = rng.random(), rng.random(), rng.uniform(1.0, 3.0)
        if (nm == "c32_x0" and w == 0) or u < 0.7:
          lo, hi = mjm.actuator_ctrlrange[i]
          ctrl[i] = hi + mag if side < 0.6 else lo - mag
    st["ctrl"] = ctrl.astype(np.float32)
    st["qacc_warmstart"] = (rng.normal(size=mjm.nv) * 2.0).astype(np.float32)
    if w == 1:
      # a *useful* warmstart (the converged acceleration of the unflagged model): MuJoCo discards a warmstart that is worse
      # than qacc_smooth, so a random one would never make the WARMSTART flag live
      d0 = mujoco.MjData(mjm)
      mw.apply_state_mj(mjm, d0, st)
      mujoco.mj_forward(mjm, d0)
      if np.all(np.isfinite(d0.qacc)):
        st["qacc_warmstart"] = np.asarray(d0.qacc, dtype=np.float32)
    states.append(st)
  return states


def mj_observe(mjm, st, qacc_for_inverse=None):
  """MuJoCo's observable result for liveness: one step + (forward; inverse)."""
  d = mujoco.MjData(mjm)
  mw.apply_state_mj(mjm, d, st)
  mujoco.mj_forward(mjm, d)
  nisl = int(d.nisland)
  niter = int(np.sum(d.solver_niter[: max(1, nisl)]))
  if qacc_for_inverse is not None:
    d.qacc[:] = qacc_for_inverse
  try:
    mujoco.mj_inverse(mjm, d)
    qinv = np.array(d.qfrc_inverse)
  except Exception:
    qinv = np.zeros(mjm.nv)
  d2 = mujoco.MjData(mjm)
  mw.apply_state_mj(mjm, d2, st)
  mujoco.mj_step(mjm, d2)
  implicit = int(mjm.opt.integrator) in (int(mujoco.mjtIntegrator.mjINT_IMPLICIT), int(mujoco.mjtIntegrator.mjINT_IMPLICITFAST))
  # qDeriv (d smooth force / d velocity) as used by MuJoCo's implicit step: a flag that changes it is live in the
  # derivative code path, not only in the force
  return {"cont": np.concatenate([d2.qpos, d2.qvel, d2.act, d2.sensordata, d2.energy, qinv]), "disc": np.array([d2.ne, d2.nf, d2.nl, d2.nefc, d2.ncon, nisl, niter]), "qderiv": np.array(d2.qDeriv) if implicit else None}


def run_case(case):
  import copy

  import mujoco_warp as mjw

  rec = core.Rec(case)
  rng = np.random.default_rng(case["seed"])
  S = [tuple(f) for f in case["flags"]]
  names = {f for _, f in S}
  dense = bool(case.get("dense", False))
  xml, feat = build_scene(case["scene"], dense)
  if xml is None:
    rec.rejected = "no scene"
    return rec.result()
  try:
    mjm = mujoco.MjModel.from_xml_string(xml)
  except Exception as e:
    rec.rejected = f"mujoco compile: {e}"[:200]
    return rec.result()
  integ = case["integrator"]
  mjm.opt.integrator = INT_ENUM[integ]
  mjm.opt.iterations = 100
  mjm.opt.ls_iterations = 50
  dis, en = flag_bits(S)
  mjm.opt.disableflags = dis
  mjm.opt.enableflags = en
  if dense:
    rec.cover("xi:strongly_damped_tendons_and_dofs", dense_damping(mjm, case["scene"]))
  try:
    m = mw.put_model(mjm)
  except (NotImplementedError, ValueError) as e:
    rec.rejected = f"put_model: {e}"[:200]
    rec.count("rejected_put_model")
    rec.cover("rejected_flagsets", fname(S))
    return rec.result()
  states = sample_states(mjm, np.random.default_rng(case["scene"] + 7))  # same states for every flag set of a scene
  nworld = len(states)
  label = fname(S) if len(S) <= 2 else "multi"
  if "ACTUATION" in names and mjm.na:
    # mechanism label shared by all flag sets: with actuation disabled MuJoCo leaves act untouched, so an activation that
    # starts outside its actrange is a distinct, recognisable situation
    for i in range(mjm.nu):
      if mjm.actuator_actlimited[i] and mjm.actuator_actadr[i] >= 0:
        a = mjm.actuator_actadr[i] + mjm.actuator_actnum[i] - 1
        lo, hi = mjm.actuator_actrange[i]
        if any(st["act"][a] < lo or st["act"][a] > hi for st in states):
          label = "ACTUATION,act_outside_actrange"
  prefix = f"flags[{label}]:"

  # ---- (b) forward + inverse with the same qacc
  qinv_ok = not (("INVDISCRETE" in names) and integ in ("implicit", "RK4"))
  qacc_w = None
  if qinv_ok:
    d = mw.make_data(mjm, m, states, njmax=128, nconmax=48)
    mjw.forward(m, d)
    qacc_w = np.array(mw.npy(d.qacc))
    try:
      mjw.inverse(m, d)
    except NotImplementedError as e:
      rec.count("rejected_inverse")
      qinv_ok = False
    if qinv_ok:
      got_inv = np.array(mw.npy(d.qfrc_inverse))
      nefc_inv = np.array(mw.npy(d.nefc))
      for w, st in enumerate(states):
        qa = qacc_w[w][: mjm.nv].astype(np.float64)
        if not np.all(np.isfinite(qa)) or np.abs(qa).max(initial=0) > 1e6:
          continue
        if "INVDISCRETE" in names and _step.mujoco_extra_treatment(mjm, st):
          rec.count("worlds_skew_mujoco313_implicit_extra_treatment")
          continue
        if "INVDISCRETE" in names and integ == "implicitfast" and any(_step.implicit_hypothesis(mjm, st, h) is not None for h in ("muscle_gain_vel",)):
          # the discrete->continuous conversion uses the same velocity-derivative matrix as the implicitfast step: states
          # in which the open C08 finding implicit:actuator_vel_derivative_muscle_gain_missing is active are reported by oracle (a), not twice
          rec.count("inverse_worlds_skipped_known_vel_derivative_mechanism_active")
          continue

        def stage(mm, dd, qa=qa):
          mujoco.mj_forward(mm, dd)
          dd.qacc[:] = qa
          mujoco.mj_inverse(mm, dd)

        def extract(mm, dd):
          return {"qfrc_inverse": dd.qfrc_inverse, "struct": np.array([dd.ne, dd.nf, dd.nl, dd.nefc, dd.ncon], dtype=np.float64), "terms": np.array([np.abs(dd.qfrc_bias).max(initial=0), np.abs(dd.qfrc_passive).max(initial=0), np.abs(dd.qfrc_constraint).max(initial=0), np.abs(dd.qfrc_inverse + dd.qfrc_passive + dd.qfrc_constraint - dd.qfrc_bias).max(initial=0)]), "mindist": np.array([float(dd.contact.dist.min()) if dd.ncon else 0.0])}

        ref, noise, _ = cmp.reference(mjm, st, stage, extract, seed=case["seed"] + w)
        if noise["struct"] != 0 or int(ref["struct"][3]) != int(nefc_inv[w]) or ref["mindist"][0] < -_step.MAX_PENETRATION:
          rec.count("inverse_worlds_ungated")
          continue
        terms = max(1.0, float(ref["terms"].max()))
        allow = 1e-3 if int(ref["struct"][3]) else 1e-4
        cmp.judge(rec, "qfrc_inverse", np.append(got_inv[w][: mjm.nv].astype(np.float64), terms), np.append(ref["qfrc_inverse"], terms), allow, noise["qfrc_inverse"], sig_prefix=prefix, ctx=f"world {w} flags {fname(S)} {integ}")
        rec.cover("inverse_worlds_judged", 1)

  # ---- (a) one step, C08 oracle + sensordata + energy
  def extra(rec_, got, w, st, ref, noise, verdict):
    if mjm.nsensor and integ == "RK4":
      # integrator-specific, not flag-specific: MuJoCo's RK stages skip the sensors (sensordata keeps the values of the
      # step's initial state), MJWarp's rungekutta4 calls the full forward() in every stage
      cmp.judge(rec_, "sensordata_left_by_last_stage", got["sensordata"][w][: mjm.nsensordata], ref["sensordata"], _step.A_PRE, noise["sensordata"], sig_prefix="RK4:", ctx=f"world {w} flags {fname(S)}")
    elif mjm.nsensor:
      cmp.judge(rec_, "sensordata", got["sensordata"][w][: mjm.nsensordata], ref["sensordata"], _step.A_PRE, noise["sensordata"], sig_prefix=prefix, ctx=f"world {w} flags {fname(S)}")
    cmp.judge(rec_, "energy", np.asarray(got["energy"][w]).reshape(-1)[:2], ref["energy"], _step.A_PRE, noise["energy"], sig_prefix=prefix, ctx=f"world {w} flags {fname(S)}")

  res = _step.step_compare(rec, mjm, m, states, nsteps=1, seed=case["seed"], prefix=prefix, extra=extra, njmax=128, nconmax=48)
  judged = res["gated"] + res["free"]
  for v in rec.violations:
    # integrator-specific, not flag-specific (same mechanism under every flag set): reported under the signature of the
    # listed finding instead of one signature per flag set
    if v["sig"].endswith(":act_exact_integration_in_stages"):
      v["sig"] = "RK4:act_exact_integration_in_stages"

  # ---- measured liveness of every flag of S (and of the full set vs none)
  base = [mj_observe(mjm, st, None if qacc_w is None else qacc_w[w][: mjm.nv].astype(np.float64)) for w, st in enumerate(states)]
  for f in S:
    mm = copy.copy(mjm)
    S2 = [g for g in S if g != f]
    mm.opt.disableflags, mm.opt.enableflags = flag_bits(S2)
    live = live_qd = False
    for w, st in enumerate(states):
      alt = mj_observe(mm, st, None if qacc_w is None else qacc_w[w][: mjm.nv].astype(np.float64))
      a, b = base[w]["cont"], alt["cont"]
      fin = np.isfinite(a) & np.isfinite(b)
      if not np.array_equal(base[w]["disc"], alt["disc"]) or (fin.any() and np.abs(a[fin] - b[fin]).max() > 1e-9 * max(1.0, np.abs(b[fin]).max())):
        live = True
      qa_, qb_ = base[w]["qderiv"], alt["qderiv"]
      if qa_ is not None and qb_ is not None and qa_.size and np.all(np.isfinite(qa_)) and np.all(np.isfinite(qb_)) and np.abs(qa_ - qb_).max() > 1e-9 * max(1.0, np.abs(qb_).max()):
        live_qd = True
      if live and (live_qd or qa_ is None):
        break
    nm = ("" if f[0] == "d" else "en:") + f[1]
    rec.cover("toggled:" + nm, 1)
    if live:
      rec.cover("live:" + nm, 1)
      if judged:
        rec.cover("live_and_judged:" + nm, 1)
        rec.cover(f"live_and_judged[{integ}]:" + nm, 1)
      if len(S) == 1:
        rec.cover("live_singleton:" + nm, 1)
    if live and live_qd:
      # the flag changes MuJoCo's velocity-derivative matrix: its effect must also reach MJWarp's derivative path
      rec.cover("live_qderiv:" + nm, 1)
      if judged:
        rec.cover("live_qderiv_and_judged:" + nm, 1)
  rec.cover("flagset_size:" + str(min(len(S), 3)) + ("+" if len(S) >= 3 else ""), 1)
  rec.cover("integrator:" + integ, 1)
  rec.cover("family:" + ("xi" if dense else "base"), 1)
  if dense:
    rec.cover("xi:worlds_judged", judged)
    rec.cover("xi:worlds_ungated", res["ungated"])
    nvg = nout = 0
    for i in range(mjm.nu):
      if (mujoco.mj_id2name(mjm, mujoco.mjtObj.mjOBJ_ACTUATOR, i) or "").startswith("c32_x"):
        velgain = mjm.actuator_gaintype[i] == mujoco.mjtGain.mjGAIN_AFFINE and mjm.actuator_gainprm[i, 2] != 0
        nvg += int(velgain)
        if velgain and mjm.actuator_ctrllimited[i] and mjm.actuator_dyntype[i] == mujoco.mjtDyn.mjDYN_NONE:
          lo, hi = mjm.actuator_ctrlrange[i]
          nout += int(any(st["ctrl"][i] < lo or st["ctrl"][i] > hi for st in states))
    rec.cover("xi:velgain_actuators", nvg)
    rec.cover("xi:velgain_nodyn_actuators_with_ctrl_outside_ctrlrange", nout)
    if nout and "CLAMPCTRL" in names and "ACTUATION" not in names and integ in IMPL and judged:
      rec.cover("xi:judged_cases_CLAMPCTRL_disabled_x_implicit_x_velgain_ctrl_outside_range", 1)
  rec.cover("worlds_judged", judged)
  rec.cover("worlds_ungated", res["ungated"])
  if judged:
    rec.nontrivial(xml, fname(S), integ, *[s["qpos"] for s in states])
  rec.sample = {"flags": fname(S), "integrator": integ, "scene": case["scene"], "nv": mjm.nv, "nu": mjm.nu, "neq": mjm.neq, "nsensor": mjm.nsensor, "judged_worlds": judged, "ungated_worlds": res["ungated"], "ref_struct_world0": res["refs"][0]["struct"].tolist() if res["refs"] else None}
  return rec.result()


def requirements(agg, tier):
  unmet = []
  cov = agg["cover"]
  for k, f in FLAGS:
    nm = ("" if k == "d" else "en:") + f
    if cov.get("toggled:" + nm, 0) < 10:
      unmet.append(f"flag toggled in fewer than 10 cases: {nm}")
    if f in ("MULTICCD",):
      continue  # no colliding convex-convex pair with multi-contact support in both engines: liveness is reported, not required
    if cov.get("live_and_judged:" + nm, 0) < 3:
      unmet.append(f"flag uncovered (live and judged in fewer than 3 cases): {nm}")
  # xi family: the flags that enter the velocity-derivative matrix must have been live there (MuJoCo's qDeriv changes when
  # the flag is toggled) in judged implicit/implicitfast cases, and every flag must have been live under every integrator
  for f in ("CLAMPCTRL", "DAMPER", "ACTUATION"):
    if cov.get("live_qderiv_and_judged:" + f, 0) < 3:
      unmet.append(f"flag live in qDeriv (implicit integrators) and judged in fewer than 3 cases: {f}")
  if cov.get("xi:judged_cases_CLAMPCTRL_disabled_x_implicit_x_velgain_ctrl_outside_range", 0) < 3:
    unmet.append("fewer than 3 judged cases with CLAMPCTRL disabled, implicit integrator, velocity-gain actuator driven outside ctrlrange")
  if not cov.get("xi:worlds_judged", 0):
    unmet.append("xi family (flags x integrators on actuator-dense scenes) judged nothing")
  for k, f in FLAGS:
    if f in ("MULTICCD", "EULERDAMP", "INVDISCRETE"):
      continue  # EULERDAMP only acts under Euler, INVDISCRETE is restricted to Euler / implicitfast
    nm = ("" if k == "d" else "en:") + f
    for integ in INT_ENUM:
      if not cov.get(f"live_and_judged[{integ}]:" + nm, 0):
        unmet.append(f"flag never live and judged under integrator {integ}: {nm}")
  for s in ("flagset_size:1", "flagset_size:2", "flagset_size:3+"):
    if not cov.get(s):
      unmet.append(f"never observed: {s}")
  tot = cov.get("worlds_judged", 0) + cov.get("worlds_ungated", 0)
  if tot and cov.get("worlds_ungated", 0) > 0.5 * tot:
    unmet.append("more than half of the worlds ungated")
  if agg["distinct"] < 100:
    unmet.append("fewer than 100 distinct non-trivial cases")
  return unmet
