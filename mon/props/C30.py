"""C30 Delayed controls and sensors read the right past sample.

Lock-step differential monitor: a generated delay-line model (slide joints, unit-gain motors so that the applied --
delayed -- control is observable as actuator_force; filter/position actuators; sensors observing step-wise random
signals: actuatorfrc of an undelayed motor, clock, mocap framepos/framequat, jointpos; delays that are multiples and
dyadic non-multiples of the dyadic timestep, nsample 1-8, zoh/linear/cubic, intervals) is stepped by MJWarp and by
MuJoCo C with identical random float32 control / mocap sequences.  After every step actuator_force, act, sensordata and
the history buffer itself are compared with MuJoCo; an independent Python delay-line model predicts the applied control
of every plain delayed motor from the recorded sequence; read_ctrl / read_sensor are compared with mj_readCtrl /
mj_readSensor evaluated on MJWarp's own buffer; init_ctrl_history / init_sensor_history with mj_init*History.
Starts: make_data, put_data (fresh and mid-run MjData), after reset_data (full and partial masks).
"""

import copy

import mujoco
import numpy as np

from mon import cmp, core, mw
from mon.props import _state as S

ID = "C30"
LEVEL = "exploration"
RULE = (
  "case=(seed,start): generated delay-line model (1-4 slide bodies, 2-7 actuators of which >=1 delayed unit-gain motor, 2-7 "
  "sensors with delay/interval/history-only, dims 1/3/4), timestep 2^-8 or 2^-9, nworld 1-3 with different random control and "
  "mocap sequences, 3*max(nsample)+8..+20 steps (>=3 buffer wrap-arounds), start in {make_data, put_data fresh, put_data "
  "mid-run, reset_data all, reset_data partial}. Non-trivial: >=1 delayed actuator and >=1 delayed/interval sensor and the "
  "control sequence is non-constant; distinct by hash(xml, start, sequences)."
)
ASSUMPTIONS = [
  "MuJoCo 3.13 (mj_step, mj_readCtrl, mj_readSensor, mj_initCtrlHistory, mj_initSensorHistory, mj_resetData) defines the behaviour",
  "dyadic timestep and dyadic delays: time, sample times and t-delay are exact in float32, so no sample is selected differently by rounding",
  "allowance 2e-5*scale on values (float32 interpolation arithmetic); cursor and time stamps exact to 1e-6",
  "when a start leaves a buffer that differs from MuJoCo's (known mechanisms: make_data all-zero, reset_data stale) the monitor "
  "records it, overwrites the buffer with MuJoCo's and continues, so everything else is still decided",
]
BUDGET = {"quick": 300, "thorough": 1200}

A = 2e-5
STARTS = ("make", "put_fresh", "put_mid", "reset_all", "reset_partial")
INTERP = ("zoh", "linear", "cubic")


def cases(tier, seed):
  n = 200 if tier == "quick" else 3000
  out = [{"id": f"d{seed}_{i}", "seed": seed * 100000 + i, "start": STARTS[i % len(STARTS)]} for i in range(n)]
  # every sensor stage / special sensor list with a delay: position, velocity and acceleration stage sensors, joint and
  # tendon limit pos / vel / frc, touch, tendon actuator force (each list has its own delay pass in sensor.py)
  m = 16 if tier == "quick" else 300
  for i in range(m):
    out.insert(1 + i * (len(out) // m), {"id": f"stage{seed}_{i}", "kind": "stage", "seed": seed * 100000 + 50000 + i, "start": "stage"})
  return out


def _f(x):
  return " ".join(f"{float(v):.10g}" for v in np.atleast_1d(x))


def gen_model(rng):
  h = float(rng.choice([2.0**-8, 2.0**-9]))
  nb = int(rng.integers(1, 5))
  bodies, act, sens, feats = [], [], [], set()
  for i in range(nb):
    bodies.append(f'<body name="b{i}" pos="{i} 0 0"><joint name="s{i}" type="slide" axis="0 0 1" damping="{_f(rng.uniform(0, 2))}"/><geom size="0.1" mass="{_f(rng.uniform(0.2, 2))}"/></body>')
  bodies.append('<body name="mc" mocap="true" pos="0 2 0"><geom size="0.02" contype="0" conaffinity="0"/></body>')

  def delay_attrs(kind="act"):
    ns = int(rng.integers(1, 9))
    r = rng.random()
    if r < 0.45:
      mult = float(rng.integers(1, ns + 1))  # multiple of h inside the buffer
      feats.add("delay:multiple")
    elif r < 0.8:
      mult = float(rng.integers(0, ns)) + float(rng.choice([0.5, 0.25, 0.75]))  # dyadic non-multiple
      feats.add("delay:non-multiple")
    elif r < 0.9:
      mult = float(ns + rng.integers(1, 4))  # older than the buffer holds: clamps to the oldest sample
      feats.add("delay:beyond-buffer")
    else:
      mult = 0.0  # history only
      feats.add("delay:zero-history-only")
    ip = INTERP[rng.integers(3)]
    feats.add(f"{kind}:interp:{ip}")
    feats.add(f"nsample:{ns}")
    return f'delay="{_f(mult * h)}" nsample="{ns}" interp="{ip}"', ns, mult

  plain = []  # (actuator index, delay multiple, nsample, interp, clamp range or None)
  na_ = 0
  # an undelayed unit-gain motor whose force equals its ctrl: the signal source for actuatorfrc sensors
  act.append('<motor name="u0" joint="s0"/>')
  na_ += 1
  ndel = int(rng.integers(1, 5))
  for k in range(ndel):
    j = int(rng.integers(nb))
    a, ns, mult = delay_attrs()
    r = rng.random()
    if r < 0.6:
      lim = ""
      rngc = None
      if rng.random() < 0.3:
        rngc = (-0.5, 0.75)
        lim = ' ctrllimited="true" ctrlrange="-0.5 0.75"'
        feats.add("act:ctrllimited")
      act.append(f'<motor name="d{k}" joint="s{j}" {a}{lim}/>')
      plain.append((na_, mult, ns, a.split('interp="')[1].split('"')[0], rngc))
      feats.add("act:delayed-motor")
    elif r < 0.8:
      act.append(f'<general name="d{k}" joint="s{j}" dyntype="filter" dynprm="{_f(rng.uniform(0.02, 0.2))}" gainprm="{_f(rng.uniform(0.5, 3))}" biastype="none" {a}/>')
      feats.add("act:delayed-filter")
    elif r < 0.9:
      act.append(f'<general name="d{k}" joint="s{j}" dyntype="integrator" gainprm="1" biastype="none" {a}/>')
      feats.add("act:delayed-integrator")
    else:
      act.append(f'<position name="d{k}" joint="s{j}" kp="{_f(rng.uniform(1, 20))}" {a}/>')
      feats.add("act:delayed-position")
    na_ += 1
  nsen = int(rng.integers(2, 8))
  for k in range(nsen):
    r = rng.integers(7)
    a, ns, mult = delay_attrs("sensor")
    iv = ""
    if rng.random() < 0.35:
      per = float(rng.choice([2.0, 3.0, 2.5, 1.0])) * h
      ph = -float(rng.integers(0, 2)) * h * 0.5  # MuJoCo requires -period < phase <= 0
      iv = f' interval="{_f(per)} {_f(ph)}"'
      feats.add("sensor:interval+delay" if mult > 0 else "sensor:interval-only")
    elif mult > 0:
      feats.add("sensor:delay")
    if r == 0:
      sens.append(f'<actuatorfrc name="q{k}" actuator="u0" {a}{iv}/>')
    elif r == 1:
      sens.append(f'<clock name="q{k}" {a}{iv}/>')
    elif r == 2:
      sens.append(f'<framepos name="q{k}" objtype="body" objname="mc" {a}{iv}/>')
      feats.add("sensor:dim3")
    elif r == 3:
      sens.append(f'<framequat name="q{k}" objtype="body" objname="mc" {a}{iv}/>')
      feats.add("sensor:dim4")
    elif r == 4:
      sens.append(f'<jointpos name="q{k}" joint="s{int(rng.integers(nb))}" {a}{iv}/>')
    elif r == 5:
      sens.append(f'<jointvel name="q{k}" joint="s{int(rng.integers(nb))}" {a}{iv}/>')
    else:
      sens.append(f'<actuatorfrc name="q{k}" actuator="d0" {a}{iv}/>')
  if rng.random() < 0.3:
    sens.append(f'<clock name="qi" interval="{_f(2.5 * h)}"/>')  # interval without any buffer
    feats.add("sensor:interval-no-buffer")
  xml = (
    f'<mujoco>\n  <option timestep="{_f(h)}" gravity="0 0 0"/>\n  <worldbody>\n    '
    + "\n    ".join(bodies)
    + "\n  </worldbody>\n  <actuator>\n    "
    + "\n    ".join(act)
    + "\n  </actuator>\n  <sensor>\n    "
    + "\n    ".join(sens)
    + "\n  </sensor>\n</mujoco>"
  )
  return xml, h, plain, sorted(feats)


# ------------------------------------------------------------------------------------ independent delay line


class DelayLine:
  """Reference semantics of one scalar delay buffer, written from the MJCF documentation of delay/nsample/interp:
  the n most recent (time, value) samples; before any sample n zeros at -n*h..-h; read clamps outside the stored span."""

  def __init__(self, n, h):
    self.t = [-(n - k) * h for k in range(n)]
    self.v = [0.0] * n
    self.n = n

  def insert(self, t, v):
    self.t.append(t)
    self.v.append(v)
    self.t = self.t[-self.n :]
    self.v = self.v[-self.n :]

  def read(self, t, interp):
    T, V = self.t, self.v
    if t <= T[0]:
      return V[0]
    if t >= T[-1]:
      return V[-1]
    i = next(k for k in range(len(T)) if T[k] >= t)
    if T[i] == t:
      return V[i]
    lo, hi = i - 1, i
    if interp == "zoh":
      return V[lo]
    dt = T[hi] - T[lo]
    a = (t - T[lo]) / dt
    if interp == "linear":
      return V[lo] + a * (V[hi] - V[lo])
    m_lo = (V[hi] - V[lo - 1]) / (T[hi] - T[lo - 1]) if lo - 1 >= 0 else 0.0
    m_hi = (V[hi + 1] - V[lo]) / (T[hi + 1] - T[lo]) if hi + 1 < len(T) else 0.0
    a2, a3 = a * a, a * a * a
    return (2 * a3 - 3 * a2 + 1) * V[lo] + (a3 - 2 * a2 + a) * dt * m_lo + (-2 * a3 + 3 * a2) * V[hi] + (a3 - a2) * dt * m_hi


# ------------------------------------------------------------------------------------ helpers


def _rand_quat(rng):
  q = rng.normal(size=4)
  return (q / np.linalg.norm(q)).astype(np.float32)


def _inputs(mjm, rng, nworld):
  out = []
  for _ in range(nworld):
    out.append({"ctrl": rng.uniform(-1, 1, size=mjm.nu).astype(np.float32), "mocap_pos": rng.uniform(-1, 1, size=(mjm.nmocap, 3)).astype(np.float32), "mocap_quat": np.stack([_rand_quat(rng) for _ in range(mjm.nmocap)])})
  return out


def _apply_mj(mjd, inp):
  mjd.ctrl[:] = inp["ctrl"]
  mjd.mocap_pos[:] = inp["mocap_pos"]
  mjd.mocap_quat[:] = inp["mocap_quat"]


def _hist_check(rec, name, got, ref, ctx, sig):
  """Buffer vs MuJoCo's: returns True if equal within allowance."""
  rec.check()
  got = np.asarray(got, np.float64)
  ref = np.asarray(ref, np.float64)
  if got.shape != ref.shape:
    rec.viol(sig, f"{name}: shape {got.shape} vs {ref.shape} {ctx}")
    return False
  if got.size == 0:
    return True
  err = np.abs(got - ref)
  bound = A * np.maximum(1.0, np.abs(ref))
  if np.all(err <= bound):
    rec.worst(name, float((err / bound).max()))
    return True
  return False


def _compare_world(rec, mjm, d_np, mjd, w, ctx):
  """actuator_force, act, sensordata, history of world w against its MuJoCo twin. Returns False at first violation."""
  ok = True
  for k, ref in (("actuator_force", mjd.actuator_force), ("act", mjd.act), ("sensordata", mjd.sensordata), ("qpos", mjd.qpos), ("qvel", mjd.qvel)):
    r = cmp.judge(rec, k, d_np[k][w], ref, A, 0.0, ctx=ctx, sig_prefix="lockstep:")
    ok &= r != "viol"
  rec.check()
  hg, hr = np.asarray(d_np["history"][w], np.float64), np.asarray(mjd.history, np.float64)
  err = np.abs(hg - hr)
  bound = A * np.maximum(1.0, np.abs(hr))
  ratio = float((err / bound).max()) if hg.size else 0.0
  rec.worst("history", ratio)
  if ratio > cmp.VIOL_FACTOR:
    idx = int(np.argmax(err / bound))
    # which buffer and which slot
    where = _locate(mjm, idx)
    rec.viol("lockstep:history", f"history buffer differs from MuJoCo's at flat index {idx} ({where}): {hg[idx]:.7g} vs {hr[idx]:.7g} {ctx}", got=hg[max(0, idx - 3) : idx + 4], ref=hr[max(0, idx - 3) : idx + 4])
    ok = False
  elif ratio > 1:
    rec.inconcl("history: between bound and violation line")
  return ok


def _locate(mjm, idx):
  for i in range(mjm.nu):
    n = int(mjm.actuator_history[i, 0])
    adr = int(mjm.actuator_historyadr[i])
    if n and adr <= idx < adr + 2 + 2 * n:
      o = idx - adr
      return f"actuator {i} n={n} " + ("user" if o == 0 else "cursor" if o == 1 else f"time[{o - 2}]" if o < 2 + n else f"value[{o - 2 - n}]")
  for i in range(mjm.nsensor):
    n = int(mjm.sensor_history[i, 0])
    adr = int(mjm.sensor_historyadr[i])
    dim = int(mjm.sensor_dim[i])
    if n and adr <= idx < adr + 2 + n + n * dim:
      o = idx - adr
      return f"sensor {i} n={n} dim={dim} " + ("user" if o == 0 else "cursor" if o == 1 else f"time[{o - 2}]" if o < 2 + n else f"value[{o - 2 - n}]")
  return "?"


def _read_probes(rec, mjm, m, d, twins, rng, h, ctx):
  """read_ctrl / read_sensor against mj_readCtrl / mj_readSensor evaluated on MJWarp's own buffers."""
  import mujoco_warp as mjw
  import warp as wp

  nworld = d.nworld
  hist = mw.npy(d.history)
  ctrl = mw.npy(d.ctrl)
  sdat = mw.npy(d.sensordata)
  tnow = mw.npy(d.time)
  mirrors = []
  for w in range(nworld):
    q = copy.copy(twins[w])
    q.history[:] = hist[w]
    q.ctrl[:] = ctrl[w]
    q.sensordata[:] = sdat[w]
    q.time = float(tnow[w])
    mirrors.append(q)
  for _ in range(4):
    interp = int(rng.integers(-1, 3))
    # query times on a dyadic grid around the stored span (per world)
    qt = np.array([np.float32(tnow[w] + float(rng.integers(-48, 9)) * h / 4) for w in range(nworld)], dtype=np.float32)
    qarr = wp.array(qt, dtype=float)
    if mjm.nu:
      uid = int(rng.integers(mjm.nu))
      res = wp.zeros(nworld, dtype=float)
      mjw.read_ctrl(m, d, uid, qarr, interp, res)
      got = res.numpy()
      for w in range(nworld):
        ref = mujoco.mj_readCtrl(mjm, mirrors[w], uid, float(qt[w]), interp)
        r = cmp.judge(rec, "read_ctrl", got[w], ref, A, 0.0, ctx=f"actuator {uid} nsample {int(mjm.actuator_history[uid, 0])} delay {float(mjm.actuator_delay[uid]) / h:g}h query t={float(qt[w]) / h:g}h now={float(tnow[w]) / h:g}h interp {interp} world {w} {ctx}", sig_prefix="api:")
        rec.count("read_ctrl_" + r)
    if mjm.nsensor:
      sid = int(rng.integers(mjm.nsensor))
      dim = int(mjm.sensor_dim[sid])
      res = wp.zeros((nworld, dim), dtype=float)
      mjw.read_sensor(m, d, sid, qarr, interp, res)
      got = res.numpy()
      for w in range(nworld):
        buf = np.zeros(dim)
        ptr = mujoco.mj_readSensor(mjm, mirrors[w], sid, float(qt[w]), buf, interp)
        ref = np.array(ptr if ptr is not None else buf, dtype=np.float64).reshape(-1)[:dim]
        r = cmp.judge(rec, "read_sensor", got[w], ref, A, 0.0, ctx=f"sensor {sid} dim {dim} nsample {int(mjm.sensor_history[sid, 0])} delay {float(mjm.sensor_delay[sid]) / h:g}h query t={float(qt[w]) / h:g}h now={float(tnow[w]) / h:g}h interp {interp} world {w} {ctx}", sig_prefix="api:")
        rec.count("read_sensor_" + r)


def _init_probe(rec, mjm, m, d, twins, rng, h, use_none, ctx):
  """init_ctrl_history / init_sensor_history on both engines; buffers must stay equal. Returns nothing (repairs on mismatch)."""
  import mujoco_warp as mjw
  import warp as wp

  nworld = d.nworld
  tnow = float(mw.npy(d.time)[0])
  cand_a = [i for i in range(mjm.nu) if mjm.actuator_history[i, 0] > 0]
  cand_s = [i for i in range(mjm.nsensor) if mjm.sensor_history[i, 0] > 0]
  if cand_a:
    uid = cand_a[rng.integers(len(cand_a))]
    n = int(mjm.actuator_history[uid, 0])
    vals = rng.uniform(-1, 1, size=(nworld, n)).astype(np.float32)
    times = None if use_none else (tnow - h * np.cumsum(rng.integers(1, 3, size=n))[::-1] * 0.5).astype(np.float32)
    try:
      for w in range(nworld):
        mujoco.mj_initCtrlHistory(mjm, twins[w], uid, None if times is None else times.astype(np.float64), vals[w].astype(np.float64))
      mj_ok = True
    except Exception:
      mj_ok = False
    if mj_ok:
      mjw.init_ctrl_history(m, d, uid, None if times is None else wp.array(times, dtype=float), wp.array(vals, dtype=float))
      rec.count("init_ctrl_history:" + ("times=None" if times is None else "times"))
      hist = mw.npy(d.history)
      bad = [w for w in range(nworld) if not _hist_check(rec, "init_ctrl_history", hist[w], twins[w].history, ctx, "api:init_ctrl_history")]
      if bad:
        adr = int(mjm.actuator_historyadr[uid])
        w = bad[0]
        sig = "history:init-times-none-overwrites-timestamps" if times is None else "api:init_ctrl_history"
        rec.viol(sig, f"after init_ctrl_history(actuator {uid}, times={'None' if times is None else 'given'}) the buffer differs from mj_initCtrlHistory: {hist[w][adr : adr + 2 + 2 * n]} vs {np.asarray(twins[w].history)[adr : adr + 2 + 2 * n]} {ctx}")
        S.set_field(d, "history", np.stack([np.asarray(t.history, np.float32) for t in twins]))
  if cand_s:
    sid = cand_s[rng.integers(len(cand_s))]
    n = int(mjm.sensor_history[sid, 0])
    dim = int(mjm.sensor_dim[sid])
    vals = rng.uniform(-1, 1, size=(nworld, n * dim)).astype(np.float32)
    phase = rng.uniform(-2 * h, 0, size=nworld).astype(np.float32)
    times = None if use_none else (tnow - h * np.cumsum(rng.integers(1, 3, size=n))[::-1] * 0.5).astype(np.float32)
    try:
      for w in range(nworld):
        mujoco.mj_initSensorHistory(mjm, twins[w], sid, None if times is None else times.astype(np.float64), vals[w].astype(np.float64).reshape(n, dim), float(phase[w]))
      mj_ok = True
    except Exception:
      mj_ok = False
    if mj_ok:
      mjw.init_sensor_history(m, d, sid, None if times is None else wp.array(times, dtype=float), wp.array(vals, dtype=float), wp.array(phase, dtype=float))
      rec.count("init_sensor_history:" + ("times=None" if times is None else "times"))
      hist = mw.npy(d.history)
      bad = [w for w in range(nworld) if not _hist_check(rec, "init_sensor_history", hist[w], twins[w].history, ctx, "api:init_sensor_history")]
      if bad:
        adr = int(mjm.sensor_historyadr[sid])
        w = bad[0]
        sig = "history:init-times-none-overwrites-timestamps" if times is None else "api:init_sensor_history"
        rec.viol(sig, f"after init_sensor_history(sensor {sid}, times={'None' if times is None else 'given'}) the buffer differs from mj_initSensorHistory: {hist[w][adr : adr + 2 + n]} vs {np.asarray(twins[w].history)[adr : adr + 2 + n]} {ctx}")
        S.set_field(d, "history", np.stack([np.asarray(t.history, np.float32) for t in twins]))


STAGE_SENSORS = (
  ("jointpos", 'joint="s0"'),
  ("jointvel", 'joint="s0"'),
  ("jointlimitpos", 'joint="s1"'),
  ("jointlimitvel", 'joint="s1"'),
  ("jointlimitfrc", 'joint="s1"'),
  ("tendonpos", 'tendon="t0"'),
  ("tendonvel", 'tendon="t0"'),
  ("tendonlimitpos", 'tendon="t0"'),
  ("tendonlimitvel", 'tendon="t0"'),
  ("tendonlimitfrc", 'tendon="t0"'),
  ("tendonactuatorfrc", 'tendon="t0"'),
  ("jointactuatorfrc", 'joint="s1"'),
  ("actuatorfrc", 'actuator="m1"'),
  ("touch", 'site="ts"'),
  ("accelerometer", 'site="ts"'),
  ("force", 'site="ts"'),
  ("framelinacc", 'objtype="site" objname="ts"'),
  ("subtreelinvel", 'body="b0"'),
)


def _run_stage(case):
  """Lock-step differential run against mj_step: one delayed sensor of every stage / special list."""
  import mujoco_warp as mjw
  import warp as wp

  rec = core.Rec(case)
  rng = np.random.default_rng(case["seed"])
  h = float(rng.choice([2.0**-7, 2.0**-8]))
  sens = []
  kinds = []
  for name, tgt in STAGE_SENSORS:
    if rng.random() < 0.75:
      ns = int(rng.integers(2, 8))
      mult = float(rng.integers(1, ns + 1)) if rng.random() < 0.6 else float(rng.integers(0, ns)) + 0.5
      sens.append(f'<{name} {tgt} delay="{_f(mult * h)}" nsample="{ns}" interp="{INTERP[rng.integers(3)]}"/>')
      kinds.append(name)
  if not sens:
    sens.append('<jointlimitfrc joint="s0" delay="%s" nsample="3"/>' % _f(2 * h))
    kinds.append("jointlimitfrc")
  xml = f"""<mujoco><option timestep="{_f(h)}"/><worldbody>
  <geom type="plane" size="2 2 .1"/>
  <body name="b0" pos="0 0 0.5"><joint name="s0" type="slide" axis="0 0 1" limited="true" range="-0.4 0.4" damping="0.5"/><geom size="0.1" mass="1" contype="0" conaffinity="0"/>
    <body name="b1" pos="0.3 0 0"><joint name="s1" type="slide" axis="1 0 0" limited="true" range="-0.1 0.1" damping="0.3"/><geom size="0.05" mass="0.5" contype="0" conaffinity="0"/></body></body>
  <body name="bt" pos="1 0 0.12"><freejoint/><geom name="gt" size="0.1" mass="0.5"/><site name="ts" size="0.12"/></body>
</worldbody>
<tendon><fixed name="t0" limited="true" range="-0.2 0.2"><joint joint="s0" coef="1"/><joint joint="s1" coef="0.7"/></fixed></tendon>
<actuator><motor name="m0" tendon="t0" gear="2"/><motor name="m1" joint="s1" gear="1.5"/></actuator>
<sensor>{"".join(sens)}</sensor></mujoco>"""
  mjm = mujoco.MjModel.from_xml_string(xml)
  mjd = mujoco.MjData(mjm)
  m = mw.put_model(mjm)
  nworld = 2
  d = mjw.put_data(mjm, mjd, nworld=nworld)
  T = 90
  bad = {}
  seen_nonzero = set()
  for t in range(T):
    # drive the joints against their limits, the tendon against its limit, and let the ball bounce on the plane
    c = np.array([8.0 * np.sin(0.21 * t + 0.3 * case["seed"]), 6.0 * np.cos(0.13 * t)])
    mjd.ctrl[:] = c
    wp.copy(d.ctrl, wp.array(np.tile(c.astype(np.float32), (nworld, 1)), dtype=float))
    mujoco.mj_step(mjm, mjd)
    mjw.step(m, d)
    sd = d.sensordata.numpy()
    # re-synchronise the state on MuJoCo's (float32-rounded) so that only the sensor pipeline is compared
    for k in ("qpos", "qvel"):
      wp.copy(getattr(d, k), wp.array(np.tile(getattr(mjd, k).astype(np.float32), (nworld, 1)), dtype=float))
    for si, name in enumerate(kinds):
      adr, dim = int(mjm.sensor_adr[si]), int(mjm.sensor_dim[si])
      ref = mjd.sensordata[adr : adr + dim]
      if np.any(ref != 0):
        seen_nonzero.add(name)
      for w in range(nworld):
        rec.check()
        err = float(np.abs(sd[w, adr : adr + dim] - ref).max())
        # solver-dependent readings (constraint forces, accelerations) agree to the solver tolerance only
        rel = 2e-2 if name in ("touch", "accelerometer", "force", "framelinacc", "jointlimitfrc", "tendonlimitfrc") else 2e-3
        tol = rel * max(1.0, float(np.abs(ref).max()), float(np.abs(sd[w, adr : adr + dim]).max()))
        rec.worst("stage:" + name, err / tol)
        if err > 10 * tol and name not in bad:
          bad[name] = f"delayed {name} sensor: MJWarp {sd[w, adr : adr + dim]} vs MuJoCo {ref} at step {t} world {w} (lock-step, state re-synchronised every step)"
  for name, msg in bad.items():
    rec.viol(f"stage-sensor-delay:{name}", msg)
  for name in kinds:
    rec.cover("stage_sensors_run", name)
  for name in seen_nonzero:
    rec.cover("stage_sensors_nonzero_reference", name)
  rec.cover("start:stage", 1)
  rec.nontrivial(xml)
  rec.sample = {"kind": "stage", "sensors": kinds, "steps": T}
  return rec.result()


def run_case(case):
  import mujoco_warp as mjw
  import warp as wp

  if case.get("kind") == "stage":
    return _run_stage(case)
  rec = core.Rec(case)
  rng = np.random.default_rng(case["seed"])
  xml, h, plain, feats = gen_model(rng)
  try:
    mjm = mujoco.MjModel.from_xml_string(xml)
  except Exception as e:
    rec.rejected = f"mujoco compile: {e}"[:200]
    return rec.result()
  try:
    m = mw.put_model(mjm)
  except (NotImplementedError, ValueError) as e:
    rec.rejected = f"put_model: {e}"[:200]
    return rec.result()
  start = case["start"]
  nworld = int(rng.integers(1, 4))
  nmax = int(max(mjm.actuator_history[:, 0].max() if mjm.nu else 0, mjm.sensor_history[:, 0].max() if mjm.nsensor else 0))
  nsteps = 3 * nmax + int(rng.integers(8, 21))
  mj_init = S.mj_initial_history(mjm)
  twins = []
  lines = None  # python delay lines per world, valid only when the run starts from MuJoCo's initial buffer at t=0

  def fresh_twin():
    t = mujoco.MjData(mjm)
    mujoco.mj_resetData(mjm, t)
    return t

  if start == "make":
    d = mjw.make_data(mjm, nworld=nworld)
    twins = [fresh_twin() for _ in range(nworld)]
    hist = mw.npy(d.history)
    rec.check()
    if any(not _hist_check(rec, "make_data.history", hist[w], mj_init, "", "x") for w in range(nworld)):
      nz = int((hist != 0).sum())
      rec.viol("history:make_data-initial-buffer-differs-from-mujoco", f"make_data leaves Data.history {'all-zero' if nz == 0 else 'with %d non-zero entries' % nz}; MuJoCo's initial buffer is {mj_init[:10]}... (cursor n-1, times -(n-k)h)")
      rec.count("F2_make_data_buffer")
      S.set_field(d, "history", np.tile(mj_init.astype(np.float32), (nworld, 1)))
    lines = True
  elif start == "put_fresh":
    d = mjw.put_data(mjm, fresh_twin(), nworld=nworld)
    twins = [fresh_twin() for _ in range(nworld)]
    lines = True
  elif start == "put_mid":
    t0 = fresh_twin()
    for _ in range(int(rng.integers(3, 2 * nmax + 6))):
      _apply_mj(t0, _inputs(mjm, rng, 1)[0])
      mujoco.mj_step(mjm, t0)
    d = mjw.put_data(mjm, t0, nworld=nworld)
    twins = [copy.copy(t0) for _ in range(nworld)]
  else:
    d = mjw.put_data(mjm, fresh_twin(), nworld=nworld)
    twins = [fresh_twin() for _ in range(nworld)]
    Hn = int(rng.integers(3, 2 * nmax + 6))
    ok_pre = [True] * nworld
    for k in range(Hn):
      inp = _inputs(mjm, rng, nworld)
      S.apply_inputs(d, inp)
      mjw.step(m, d)
      d_np = {f: mw.npy(getattr(d, f)) for f in ("actuator_force", "act", "sensordata", "history", "qpos", "qvel")}
      for w in range(nworld):
        _apply_mj(twins[w], inp[w])
        mujoco.mj_step(mjm, twins[w])
        if ok_pre[w]:
          ok_pre[w] = _compare_world(rec, mjm, d_np, twins[w], w, f"world {w} step {k} before reset (put_data start)")
    mask = np.ones(nworld, bool) if start == "reset_all" else (rng.random(nworld) < 0.6)
    if start == "reset_partial" and not mask.any():
      mask[rng.integers(nworld)] = True
    before = mw.npy(d.history).copy()
    mjw.reset_data(m, d, None if start == "reset_all" and rng.random() < 0.5 else wp.array(mask, dtype=bool))
    after = mw.npy(d.history).copy()
    for w in range(nworld):
      if mask[w]:
        twins[w] = fresh_twin()
    bad = [w for w in range(nworld) if mask[w] and not _hist_check(rec, "reset_data.history", after[w], mj_init, "", "x")]
    if bad:
      w = bad[0]
      if after[w].tobytes() == before[w].tobytes():
        rec.viol("reset:history-not-reset", f"reset_data left the delay buffers of reset world {w} untouched (stale samples with time stamps up to {before[w].max():.4g} while time restarts at 0); MuJoCo re-initialises them")
        rec.count("F2_reset_stale_buffer")
      elif not after[w].any():
        rec.viol("history:make_data-initial-buffer-differs-from-mujoco", f"reset_data zeroes Data.history of world {w}; MuJoCo's initial buffer is {mj_init[:10]}...")
      else:
        rec.viol("history:reset-buffer-differs-from-mujoco", f"delay buffers of reset world {w} after reset_data: {after[w][:10]} vs MuJoCo {mj_init[:10]}")
      fixed = after.copy()
      for w in bad:
        fixed[w] = mj_init.astype(np.float32)
      S.set_field(d, "history", fixed)
    rec.check()
    for w in range(nworld):
      if not mask[w] and after[w].tobytes() != before[w].tobytes():
        rec.viol("reset:unselected-world-history-modified", f"reset_data changed the delay buffers of unselected world {w}")
    rec.cover("reset_worlds", int(mask.sum()))

  # python delay lines (only meaningful from the initial buffer at t=0 in every world)
  dl = None
  if lines and plain:
    dl = [[DelayLine(ns, h) for (_, _, ns, _, _) in plain] for _ in range(nworld)]

  # optional init_*_history call on the fresh buffer with times=None (MuJoCo: keep existing time stamps)
  if start in ("make", "put_fresh") and rng.random() < 0.5:
    _init_probe(rec, mjm, m, d, twins, rng, h, True, f"(start {start}, fresh buffer)")
    dl = None
  init_at = int(rng.integers(2, nsteps)) if rng.random() < 0.5 else -1

  alive = [True] * nworld
  ctrl_var = 0.0
  for k in range(nsteps):
    inp = _inputs(mjm, rng, nworld)
    if rng.random() < 0.15 and k > 0:
      inp = last  # repeated control: constant stretches
    last = inp
    S.apply_inputs(d, inp)
    tk = float(mw.npy(d.time)[0])
    mjw.step(m, d)
    d_np = {f: mw.npy(getattr(d, f)) for f in ("actuator_force", "act", "sensordata", "history", "qpos", "qvel")}
    for w in range(nworld):
      _apply_mj(twins[w], inp[w])
      mujoco.mj_step(mjm, twins[w])
      was_alive = alive[w]
      if alive[w]:
        alive[w] = _compare_world(rec, mjm, d_np, twins[w], w, f"world {w} step {k} t={k}h (start {start})")
        rec.count("lockstep_world_steps")
      # independent delay line: applied control of plain delayed motors
      if dl is not None and was_alive:
        for li, (ai, mult, ns, ip, rngc) in enumerate(plain):
          line = dl[w][li]
          u = float(inp[w]["ctrl"][ai])
          if mult == 0.0:
            exp = u
          else:
            exp = line.read(k * h - mult * h, ip)
          if rngc is not None:
            exp = min(max(exp, rngc[0]), rngc[1])
          line.insert(k * h, u)
          got = float(d_np["actuator_force"][w][ai])
          mjv = float(twins[w].actuator_force[ai])
          rec.check()
          if abs(mjv - exp) > 1e-5 * max(1, abs(exp)):
            rec.count("delayline_model_disagrees_with_mujoco")
            rec.inconcl("python delay-line model disagrees with MuJoCo (oracle model not applicable)")
          elif abs(got - exp) > 30 * A * max(1, abs(exp)):
            rec.viol("delayline:applied-ctrl", f"applied control of delayed motor {ai} (delay {mult:g}h nsample {ns} {ip}) is {got:.7g}, recorded sequence interpolated at t-delay gives {exp:.7g} (MuJoCo {mjv:.7g}) world {w} step {k} start {start}")
          else:
            rec.count("delayline_ok")
    ctrl_var = max(ctrl_var, float(np.abs(inp[0]["ctrl"]).max()))
    if k % 5 == 4 and any(alive):
      _read_probes(rec, mjm, m, d, twins, rng, h, f"step {k} start {start}")
    if k == init_at and all(alive):
      _init_probe(rec, mjm, m, d, twins, rng, h, False, f"(start {start}, step {k})")
      dl = None
    if not any(alive):
      break

  for f in feats:
    rec.cover("features", f)
  rec.cover("start:" + start, 1)
  rec.cover("steps", nsteps)
  rec.cover("wraparounds_min", int(nsteps // max(nmax, 1)))
  rec.cover("nworld", str(nworld))
  has_da = any(mjm.actuator_delay > 0)
  has_ds = any((mjm.sensor_delay > 0) | (mjm.sensor_interval[:, 0] > 0))
  if has_da and has_ds and ctrl_var > 0:
    rec.nontrivial(xml, start, case["seed"])
  rec.sample = {"start": start, "nworld": nworld, "h": h, "nu": mjm.nu, "nsensor": mjm.nsensor, "nhistory": mjm.nhistory, "steps": nsteps, "actuator_history": mjm.actuator_history.tolist(), "actuator_delay_in_h": (mjm.actuator_delay / h).tolist(), "sensor_history": mjm.sensor_history.tolist()}
  return rec.result()


def requirements(agg, tier):
  unmet = []
  cov = agg["cover"]
  nz = set(cov.get("stage_sensors_nonzero_reference", []))
  for name in ("jointlimitpos", "jointlimitvel", "jointlimitfrc", "tendonlimitfrc", "touch", "tendonactuatorfrc", "jointvel", "accelerometer"):
    if name not in nz:
      unmet.append(f"delayed {name} sensor never had a non-zero reference value")
  for s in STARTS:
    if cov.get("start:" + s, 0) < 10:
      unmet.append(f"start {s} exercised fewer than 10 times")
  feats = set(cov.get("features", []))
  need = ["delay:multiple", "delay:non-multiple", "delay:beyond-buffer", "delay:zero-history-only", "act:interp:zoh", "act:interp:linear", "act:interp:cubic", "sensor:interp:zoh", "sensor:interp:linear", "sensor:interp:cubic", "sensor:interval+delay", "sensor:interval-only", "sensor:dim3", "sensor:dim4", "act:delayed-filter", "act:ctrllimited"] + [f"nsample:{i}" for i in range(1, 9)]
  for f in need:
    if f not in feats:
      unmet.append(f"feature never generated: {f}")
  t = agg["tally"]
  if t.get("lockstep_world_steps", 0) < 2000:
    unmet.append("fewer than 2000 lock-step world-steps compared")
  if t.get("delayline_ok", 0) < 500:
    unmet.append("independent delay-line model confirmed fewer than 500 applied controls")
  if t.get("read_ctrl_ok", 0) < 200 or t.get("read_sensor_ok", 0) < 200:
    unmet.append("read_ctrl/read_sensor compared fewer than 200 times each")
  if t.get("init_ctrl_history:times", 0) < 10 or t.get("init_sensor_history:times", 0) < 10:
    unmet.append("init_*_history(times) exercised fewer than 10 times")
  if agg["distinct"] < 50:
    unmet.append("fewer than 50 distinct non-trivial cases")
  return unmet
