"""C03 Actuation agrees with MuJoCo C.

Differential monitor: MJWarp fwd_position (transmission) + fwd_velocity + fwd_actuation on generated actuator sets
versus mj_fwdPosition + mj_fwdVelocity + mj_fwdActuation on the same float32 state; additionally the activation
state after one step (next_act / _next_activation) versus mj_step.  Body (adhesion) transmissions are observed on
contact scenes whose contact lists are identical in both engines.
"""

import re

import mujoco
import numpy as np

from mon import cmp, core, gen, mw

ID = "C03"
LEVEL = "exploration"
RULE = (
  "case=(kind,seed). kind=gen: generated tree (free/ball/hinge/slide joints, fixed+spatial tendons, sites) with up to 7 "
  "generated actuators (motor/position/velocity/intvelocity/damper/cylinder/muscle/dcmotor/general over dyn none/integrator/"
  "filter/filterexact, gain fixed/affine, bias none/affine; joint/jointinparent/tendon/site(+refsite)/slider-crank "
  "transmissions; ctrl/force/act limits, actearly) plus injected actuators (dyntype user with actdim 2-3 so na>nu, muscle "
  "gain/bias in <general>, gain/bias type user, richer dcmotor) and joint/tendon actuator-force ranges and actuator-level "
  "gravcomp written into the compiled model; CLAMPCTRL/GRAVITY/ACTUATION flags toggled. kind=adh: sphere/capsule bodies "
  "resting near a plane with body-adhesion actuators (condim 1/3/4/6, both cones, dense+sparse, margin/gap). kind=repo: "
  "test_data/actuation/*.xml. 3 worlds with different random qpos/qvel/act/ctrl (ctrl inside, at and far outside ranges). "
  "Non-trivial: nu>=1 and some |actuator_force|>0; distinct by hash(model xml, ctrl, act, qpos)."
)
ASSUMPTIONS = [
  "MuJoCo 3.13 C (float64) is the reference at the same float32-representable state; no actuator callbacks are installed",
  "version skew MuJoCo 3.13 vs mujoco_warp 3.12: 3.13 wraps the position error of fixed-gain/affine-bias servos "
  "(gainprm[0]==-biasprm[1], dyntype none/integrator) on ball joints into [-pi|gear|, pi|gear|]; that mechanism is reported "
  "under its own signature actuator_force:ball-servo-wrap",
  "body-transmission moments are compared only when both engines report the same contact list for that state",
  "float32 allowance 1e-5*scale + 50*noise (noise = spread of MuJoCo's own result under +-2ulp input perturbation)",
]
BUDGET = {"quick": 150, "thorough": 1500}

A = 1e-5

ALL_KINDS = ("motor", "position", "velocity", "general", "general", "intvelocity", "damper", "cylinder", "muscle", "dcmotor")

PROFILE = gen.profile(
  nbody=(2, 8),
  p_ball=0.3,
  p_free=0.2,
  tendon_fixed=0.55,
  tendon_spatial=0.5,
  p_limit=0.0,
  p_gravcomp=0.4,
  p_mocap=0.1,
  p_site=0.9,
  actuators=7,
  act_kinds=ALL_KINDS,
  act_dyn=("none", "integrator", "filter", "filterexact"),
  act_trn=("joint", "joint", "jointinparent", "tendon", "site", "slidercrank"),
  timestep=(0.00390625, 0.002, 0.01),
  p_actfrcrange=0.4,  # joint / tendon actuatorfrcrange clamps (extras stream: model structure unchanged)
  p_actgravcomp=0.4,  # gravity compensation routed through qfrc_actuator
)

REPO_MODELS = [
  "actuation/actuation.xml",
  "actuation/actuators.xml",
  "actuation/muscle.xml",
  "actuation/position.xml",
  "actuation/site.xml",
  "actuation/slidercrank.xml",
  "actuation/tendon_force_limit.xml",
  "actuation/adhesion.xml",
  "humanoid/humanoid.xml",
]

TRN = {0: "joint", 1: "jointinparent", 2: "slidercrank", 3: "tendon", 4: "site", 5: "body"}
DYN = {int(v): k[6:].lower() for k, v in mujoco.mjtDyn.__members__.items()}
GAIN = {int(v): k[7:].lower() for k, v in mujoco.mjtGain.__members__.items()}
BIAS = {int(v): k[7:].lower() for k, v in mujoco.mjtBias.__members__.items()}

NAMES = ["actuator_length", "actuator_velocity", "actuator_force", "act_dot", "qfrc_actuator", "moment", "qfrc_gravcomp"]


def cases(tier, seed):
  n = 170 if tier == "quick" else 3200
  out = []
  for i in range(n):
    out.append({"id": f"gen{seed}_{i}", "kind": "gen", "seed": seed * 100000 + i, "variant": i % 12})
  na = 36 if tier == "quick" else 500
  for i in range(na):
    out.append({"id": f"adh{seed}_{i}", "kind": "adh", "seed": seed * 100000 + 50000 + i, "weight": 2})
  for k, p in enumerate(REPO_MODELS):
    for r in range(1 if tier == "quick" else 6):
      out.append({"id": f"repo{seed}_{k}_{r}", "kind": "repo", "path": p, "seed": seed * 100000 + 90000 + 10 * k + r})
  return out


# --------------------------------------------------------------------------------------- model construction


def _names(mjm, objtype, n):
  return [mujoco.mj_id2name(mjm, objtype, i) for i in range(n)]


def inject_actuators(xml, mjm, rng):
  """Appends a second <actuator> section with features the shared generator does not emit."""
  jn = _names(mjm, mujoco.mjtObj.mjOBJ_JOINT, mjm.njnt)
  scal = [jn[j] for j in range(mjm.njnt) if mjm.jnt_type[j] in (2, 3) and jn[j]]
  balls = [jn[j] for j in range(mjm.njnt) if mjm.jnt_type[j] == 1 and jn[j]]
  tn = [t for t in _names(mjm, mujoco.mjtObj.mjOBJ_TENDON, mjm.ntendon) if t]
  f = gen._f
  lines = []
  feats = set()

  def target(allow_tendon=True):
    if tn and allow_tendon and rng.random() < 0.3:
      return f'tendon="{tn[rng.integers(len(tn))]}"'
    if scal:
      g = f' gear="{f(rng.uniform(-3, 3))}"' if rng.random() < 0.5 else ""
      return f'joint="{scal[rng.integers(len(scal))]}"{g}'
    return None

  def limits():
    s = ""
    if rng.random() < 0.5:
      lo = rng.uniform(-2, 0)
      s += f' ctrllimited="true" ctrlrange="{f([lo, lo + rng.uniform(0.5, 3)])}"'
    if rng.random() < 0.4:
      lo = rng.uniform(-5, 0)
      s += f' forcelimited="true" forcerange="{f([lo, lo + rng.uniform(1, 8)])}"'
    return s

  k = 0
  # dyntype user with actdim > 1 (na > nu), with / without actearly
  if rng.random() < 0.45:
    t = target()
    if t:
      early = rng.random() < 0.4
      bias = ' biastype="affine" biasprm="%s"' % f(rng.normal(size=3)) if rng.random() < 0.5 else ""
      lines.append(f'    <general name="x{k}" {t} dyntype="user" actdim="{int(rng.integers(1, 4))}" gainprm="{f(rng.uniform(0.5, 5))}"{bias}{limits()}{" actearly=\"true\"" if early else ""}/>')
      feats.add("inj:dyn_user")
      if early:
        feats.add("inj:dyn_user_actearly")
      k += 1
  # muscle gain / bias inside <general>, combined with non-muscle dynamics
  if rng.random() < 0.35:
    t = target()
    if t:
      dyn = ("none", "integrator", "filter", "filterexact", "muscle")[rng.integers(5)]
      gt = ("muscle", "fixed", "affine")[rng.integers(3)]
      bt = "muscle" if gt != "muscle" or rng.random() < 0.6 else ("none", "affine")[rng.integers(2)]
      mp = f"{f([rng.uniform(0.5, 0.9), rng.uniform(1.0, 1.3)])} {f(rng.choice([-1.0, 50.0, 200.0]))} {f(rng.uniform(50, 300))} 0.5 1.6 {f(rng.uniform(1, 2))} 1.3 1.2"
      gp = mp if gt == "muscle" else f"{f(rng.uniform(0.5, 5))} {f(rng.normal(size=2))}"
      bp = mp if bt == "muscle" else f(rng.normal(size=3))
      dp = f"{f([rng.uniform(0.005, 0.02), rng.uniform(0.02, 0.08)])} {f(rng.choice([0, 0.2]))}" if dyn == "muscle" else (f(rng.uniform(0.01, 0.3)) if dyn != "integrator" else "1")
      early = ' actearly="true"' if dyn != "none" and rng.random() < 0.4 else ""
      lines.append(f'    <general name="x{k}" {t} dyntype="{dyn}" gaintype="{gt}" biastype="{bt}" gainprm="{gp}" biasprm="{bp}" dynprm="{dp}" lengthrange="{f([rng.uniform(0.05, 0.3), rng.uniform(0.8, 2.0)])}"{early}/>')
      feats.add("inj:muscle_general")
      k += 1
  # user gain / bias without callbacks (joint transmission only)
  if rng.random() < 0.12 and scal:
    t = target(allow_tendon=False)
    gt, bt = (("user", "user"), ("user", "affine"), ("fixed", "user"), ("user", "none"))[rng.integers(4)]
    lines.append(f'    <general name="x{k}" {t} gaintype="{gt}" biastype="{bt}" gainprm="{f(rng.uniform(0.5, 5))}" biasprm="{f(rng.normal(size=3))}"{limits()}/>')
    feats.add("inj:gain_user" if gt == "user" else "inj:bias_user")
    k += 1
  # richer dcmotor
  if rng.random() < 0.35 and scal:
    t = target(allow_tendon=False)
    a = f'motorconst="{f([rng.uniform(0.02, 2), rng.uniform(0.02, 2)])}" resistance="{f(rng.uniform(0.5, 5))}"'
    r = rng.random()
    if r < 0.3:
      a += f' inductance="{f([rng.choice([0, 0.01]), rng.uniform(0.0005, 0.05)])}"'
      feats.add("inj:dcmotor_inductance")
    r = rng.random()
    if r < 0.25:
      a += f' input="velocity" controller="{f([rng.uniform(1, 8), rng.uniform(0, 5)])}"'
      feats.add("inj:dcmotor_input_velocity")
    elif r < 0.5:
      a += f' input="position" controller="{f([rng.uniform(1, 10), rng.uniform(0, 3), rng.uniform(0, 5)])}"'
      feats.add("inj:dcmotor_input_position")
    if rng.random() < 0.3:
      a += f' damping="{f(rng.uniform(0.0005, 0.01))}" lugre="{f([rng.uniform(100, 1e4), rng.uniform(1, 100), rng.uniform(0.001, 0.01), rng.uniform(0.01, 0.02), rng.uniform(0.05, 0.5)])}"'
      feats.add("inj:dcmotor_lugre")
    lines.append(f'    <dcmotor name="x{k}" {t} {a}{limits()}/>')
    k += 1
  # servo on a ball joint (the configuration where MuJoCo 3.13 wraps the error): both plain and integrated
  if balls and rng.random() < 0.5:
    b = balls[rng.integers(len(balls))]
    g = rng.normal(size=3) * rng.choice([0.3, 1.0])
    trn = ("joint", "jointinparent")[int(rng.random() < 0.3)]
    if rng.random() < 0.7:
      kv = f' kv="{f(rng.uniform(0.1, 3))}"' if rng.random() < 0.4 else ""
      lines.append(f'    <position name="x{k}" {trn}="{b}" gear="{f(g)} 0 0 0" kp="{f(rng.uniform(1, 30))}"{kv}{limits()}/>')
    else:
      lo = rng.uniform(-3, -0.5)
      lines.append(f'    <intvelocity name="x{k}" {trn}="{b}" gear="{f(g)} 0 0 0" kp="{f(rng.uniform(1, 30))}" actrange="{f([lo, lo + rng.uniform(1, 6)])}"{" actearly=\"true\"" if rng.random() < 0.5 else ""}/>')
    feats.add("inj:ball_servo")
    k += 1
  # slider-crank with a non-unit gear (the shared generator never sets one)
  sn = [x for x in _names(mjm, mujoco.mjtObj.mjOBJ_SITE, mjm.nsite) if x]
  if len(sn) >= 2 and rng.random() < 0.3:
    i1, i2 = rng.choice(len(sn), size=2, replace=False)
    lines.append(f'    <general name="x{k}" cranksite="{sn[i1]}" slidersite="{sn[i2]}" cranklength="{f(rng.uniform(0.5, 2.5))}" gear="{f(rng.uniform(-3, 3))}" gainprm="{f(rng.uniform(0.5, 5))}" biastype="affine" biasprm="{f(rng.normal(size=3))}"/>')
    feats.add("inj:slidercrank_gear")
    k += 1
  if not lines:
    return xml, feats
  sec = "  <actuator>\n" + "\n".join(lines) + "\n  </actuator>\n"
  return xml.replace("</mujoco>", sec + "</mujoco>"), feats


def edit_model(mjm, rng):
  """Joint / tendon actuator-force ranges and actuator-level gravcomp written into the compiled model."""
  feats = set()
  acted_j = set()
  acted_t = set()
  for i in range(mjm.nu):
    if mjm.actuator_trntype[i] in (0, 1):
      acted_j.add(int(mjm.actuator_trnid[i, 0]))
    if mjm.actuator_trntype[i] == 3:
      acted_t.add(int(mjm.actuator_trnid[i, 0]))
  for j in range(mjm.njnt):
    if mjm.jnt_type[j] == 0:
      continue
    p = 0.5 if j in acted_j else 0.15
    if rng.random() < p and mjm.jnt_type[j] in (2, 3):  # MuJoCo defines actuatorfrcrange for scalar joints only
      mjm.jnt_actfrclimited[j] = 1
      mjm.jnt_actfrcrange[j] = [-rng.uniform(0.05, 4), rng.uniform(0.05, 4)]
      feats.add("jnt_actfrcrange")
    if rng.random() < 0.3:
      mjm.jnt_actgravcomp[j] = 1
      feats.add("jnt_actgravcomp")
  for t in range(mjm.ntendon):
    if rng.random() < (0.6 if t in acted_t else 0.1):
      mjm.tendon_actfrclimited[t] = 1
      mjm.tendon_actfrcrange[t] = [-rng.uniform(0.05, 4), rng.uniform(0.05, 4)]
      feats.add("tendon_actfrcrange")
  return feats


ADH_GEOMS = ("sphere", "sphere", "capsule")


def adhesion_scene(seed):
  """Bodies with sphere/capsule geoms hovering around a plane, each possibly carrying an adhesion actuator."""
  rng = np.random.default_rng(seed)
  f = gen._f
  cone = ("pyramidal", "elliptic")[rng.integers(2)]
  jac = ("dense", "sparse")[rng.integers(2)]
  nb = int(rng.integers(1, 4))
  body, act = [], []
  for b in range(nb):
    x = 0.8 * b
    jt = rng.integers(3)
    geoms = []
    r0 = None
    for g in range(int(rng.integers(1, 4))):
      r = rng.uniform(0.06, 0.12)
      r0 = r0 or r
      margin = rng.choice([0, 0.01, 0.03])
      gap = rng.choice([0, 0.01, 0.02]) if margin else 0
      cd = (1, 3, 3, 4, 6)[rng.integers(5)]
      pos = [0.25 * g * np.cos(b), 0.25 * g * np.sin(b), rng.normal() * 0.01]
      if rng.random() < 0.3:
        geoms.append(f'<geom type="capsule" size="{f(r)} 0.1" pos="{f(pos)}" euler="0 90 {f(rng.uniform(0, 90))}" margin="{f(margin)}" gap="{f(gap)}" condim="{cd}"/>')
      else:
        geoms.append(f'<geom type="sphere" size="{f(r)}" pos="{f(pos)}" margin="{f(margin)}" gap="{f(gap)}" condim="{cd}"/>')
    z = r0 + rng.choice([-0.01, 0.0, 0.005, 0.015, 0.05])
    if jt == 0:
      j = "<freejoint/>"
    elif jt == 1:
      j = '<joint type="slide" axis="0 0 1"/><joint type="hinge" axis="1 0 1"/>'
    else:
      j = '<joint type="slide" axis="0 0.3 1"/>'
    child = ""
    if rng.random() < 0.4:
      child = f'<body pos="0 0 0.3"><joint type="hinge" axis="0 1 0"/><geom type="sphere" size="0.05" pos="0.2 0 {f(-0.3 + 0.05 - z + rng.choice([-0.005, 0.01]))}"/></body>'
    body.append(f'<body name="b{b}" pos="{f([x, 0, z])}">{j}{"".join(geoms)}{child}</body>')
    if b == 0 or rng.random() < 0.7:
      act.append(f'<adhesion name="ad{b}" body="b{b}" gain="{f(rng.uniform(0.1, 20))}" ctrlrange="0 {f(rng.uniform(0.5, 2))}"/>')
  if rng.random() < 0.3:
    act.append('<adhesion name="adw" body="world" gain="1.5" ctrlrange="0 1"/>')
  xml = f"""<mujoco>
  <option cone="{cone}" jacobian="{jac}" timestep="0.002"/>
  <worldbody>
    <geom name="floor" type="plane" size="5 5 .01" condim="{(1, 3, 4, 6)[rng.integers(4)]}"/>
    {chr(10).join(body)}
  </worldbody>
  <actuator>
    {chr(10).join(act)}
  </actuator>
</mujoco>"""
  return xml, {"cone:" + cone, "jacobian:" + jac}


def adhesion_state(mjm, rng):
  st = gen.sample_state(mjm, rng, vel=0.3, quat_scale=False, applied=False)
  qpos = np.array(mjm.qpos0, dtype=np.float64)
  for j in range(mjm.njnt):
    a = mjm.jnt_qposadr[j]
    t = mjm.jnt_type[j]
    if t == 0:
      qpos[a : a + 3] += [rng.normal() * 0.01, rng.normal() * 0.01, rng.normal() * 0.01]
      q = np.array([1, 0, 0, 0]) + rng.normal(size=4) * 0.05
      qpos[a + 3 : a + 7] = q / np.linalg.norm(q)
    elif t == 2:
      qpos[a] += rng.normal() * 0.01
    else:
      qpos[a] += rng.normal() * 0.1
  st["qpos"] = qpos.astype(np.float32)
  st["ctrl"] = rng.uniform(-0.3, 2.2, size=mjm.nu).astype(np.float32)
  return st


# --------------------------------------------------------------------------------------- elementwise comparator
# Same policy as cmp.judge (ok <= a*scale + 50*noise, violated > 30x, between = inconclusive) but with the noise floor
# and the scale taken per element, so that one huge or ill-conditioned entry cannot hide (or condemn) the others.


def reference_el(mjm, st, stage_fn, extract_fn, probes=3, seed=0):
  """Like cmp.reference, but noise[name] is an array (per element) of the spread under +-2ulp input perturbation."""
  mjd = mujoco.MjData(mjm)
  mw.apply_state_mj(mjm, mjd, st)
  stage_fn(mjm, mjd)
  ref = {k: np.array(v, dtype=np.float64, copy=True) for k, v in extract_fn(mjm, mjd).items()}
  noise = {k: np.zeros(v.shape) for k, v in ref.items()}
  rng = np.random.default_rng(seed + 12345)
  for _ in range(probes):
    mjd2 = mujoco.MjData(mjm)
    mw.apply_state_mj(mjm, mjd2, cmp.perturb_state(st, rng))
    stage_fn(mjm, mjd2)
    alt = extract_fn(mjm, mjd2)
    for k in ref:
      a = np.asarray(alt[k], dtype=np.float64)
      if a.shape != ref[k].shape:
        noise[k] = np.full(ref[k].shape, np.inf)
        continue
      dd = np.abs(a - ref[k])
      dd[~np.isfinite(dd)] = np.inf
      noise[k] = np.maximum(noise[k], dd)
  return ref, noise, mjd


def judge_el(rec, name, got, ref, allow, noise, scale=None, sig=None, ctx="", allow_abs=0.0):
  """Elementwise verdict. scale: per-element magnitude of the terms entering the value (default max(1,|ref|))."""
  got = np.asarray(got, dtype=np.float64).reshape(-1)
  ref = np.asarray(ref, dtype=np.float64).reshape(-1)
  rec.check()
  if got.size != ref.size:
    rec.viol(f"{sig or name}:shape", f"{name}: size {got.size} vs reference {ref.size} {ctx}")
    return "viol"
  if ref.size == 0:
    return "ok"
  noise = np.broadcast_to(np.asarray(noise, dtype=np.float64).reshape(-1) if np.ndim(noise) else np.float64(noise), ref.shape)
  sc = np.maximum(1.0, np.abs(ref)) if scale is None else np.maximum(1.0, np.broadcast_to(np.asarray(scale, dtype=np.float64).reshape(-1) if np.ndim(scale) else np.float64(scale), ref.shape))
  finite_ref = np.isfinite(ref)
  well = finite_ref & np.isfinite(noise) & (noise <= cmp.ILLCOND * sc)
  if not well.all():
    rec.count("illcond_elements", int((~well).sum()))
    if not well.any():
      rec.inconcl(f"{name}: ill-conditioned reference")
      return "incon"
  bad = well & ~np.isfinite(got)
  if bad.any():
    rec.viol(f"{sig or name}:nonfinite", f"{name}: MJWarp value not finite where MuJoCo's is, element {int(np.argmax(bad))} {ctx}")
    return "viol"
  bound = allow * sc + allow_abs + cmp.C_NOISE * noise
  ratio = np.where(well, np.abs(got - ref) / bound, 0.0)
  idx = int(np.argmax(ratio))
  r = float(ratio[idx])
  rec.worst(name, r)
  if r <= 1.0:
    return "ok"
  if r > cmp.VIOL_FACTOR:
    rec.viol(
      sig or name,
      f"{name}: |mjwarp-mujoco|={abs(got[idx] - ref[idx]):.3g} > {cmp.VIOL_FACTOR:g}x bound {bound[idx]:.3g} (scale {sc[idx]:.3g}, noise {noise[idx]:.2g}) at element {idx}: {got[idx]:.7g} vs {ref[idx]:.7g} {ctx}",
      got=got[max(0, idx - 2) : idx + 3],
      ref=ref[max(0, idx - 2) : idx + 3],
      index=idx,
    )
    return "viol"
  rec.inconcl(f"{name}: between bound and violation line")
  rec.count("grey_zone_fields")
  return "incon"


# --------------------------------------------------------------------------------------- reference


def stage(mjm, mjd):
  mujoco.mj_fwdPosition(mjm, mjd)
  mujoco.mj_fwdVelocity(mjm, mjd)
  mujoco.mj_fwdActuation(mjm, mjd)


def dense_moment_mj(mjm, mjd):
  out = np.zeros((mjm.nu, mjm.nv))
  if mjm.nu:
    mujoco.mju_sparse2dense(out, mjd.actuator_moment, mjd.moment_rownnz, mjd.moment_rowadr, mjd.moment_colind)
  return out


def extract(mjm, mjd):
  return {
    "actuator_length": mjd.actuator_length,
    "actuator_velocity": mjd.actuator_velocity,
    "actuator_force": mjd.actuator_force,
    "act_dot": mjd.act_dot,
    "qfrc_actuator": mjd.qfrc_actuator,
    "moment": dense_moment_mj(mjm, mjd),
    "qfrc_gravcomp": mjd.qfrc_gravcomp,
  }


def dense_moment_mjw(d, w, nu, nv):
  rownnz = mw.npy(d.moment_rownnz)[w]
  rowadr = mw.npy(d.moment_rowadr)[w]
  colind = mw.npy(d.moment_colind)[w]
  val = mw.npy(d.actuator_moment)[w]
  out = np.zeros((nu, nv))
  ok = True
  for i in range(nu):
    a, n = int(rowadr[i]), int(rownnz[i])
    if a < 0 or n < 0 or a + n > val.size:
      ok = False
      continue
    c = colind[a : a + n]
    if n and (c.min() < 0 or c.max() >= nv):
      ok = False
      continue
    np.add.at(out[i], c, val[a : a + n])
  return out, ok


def contact_list_mj(mjm, mjd):
  c = mjd.contact
  return sorted((int(c.geom[i][0]), int(c.geom[i][1]), int(c.dim[i]), bool(c.dist[i] < c.includemargin[i])) for i in range(mjd.ncon))


def contact_list_mjw(d, w):
  c = mw.contacts(d, w)
  return sorted((int(g[0]), int(g[1]), int(dm), bool(ds < im)) for g, dm, ds, im in zip(c["geom"], c["dim"], c["dist"], c["includemargin"]))


# --------------------------------------------------------------------------------------- known-mechanism model


def _ctrl_act(mjm, i, st, dt):
  """ctrl_act of actuator i for dyntype none / integrator (python model of both engines' common semantics)."""
  ctrl = float(st["ctrl"][i])
  if mjm.actuator_ctrllimited[i] and not (mjm.opt.disableflags & mujoco.mjtDisableBit.mjDSBL_CLAMPCTRL):
    ctrl = float(np.clip(ctrl, *mjm.actuator_ctrlrange[i]))
  dyn = int(mjm.actuator_dyntype[i])
  if dyn == int(mujoco.mjtDyn.mjDYN_NONE):
    return ctrl
  act = float(st["act"][mjm.actuator_actadr[i] + mjm.actuator_actnum[i] - 1])
  if dyn == int(mujoco.mjtDyn.mjDYN_INTEGRATOR):
    if mjm.actuator_actearly[i]:
      act = act + ctrl * dt
      if mjm.actuator_actlimited[i]:
        act = float(np.clip(act, *mjm.actuator_actrange[i]))
    return act
  return None


def wrap_candidates(mjm):
  """Actuators for which MuJoCo 3.13 wraps the servo error (established by probing 3.13)."""
  out = []
  for i in range(mjm.nu):
    if int(mjm.actuator_trntype[i]) not in (0, 1):
      continue
    if int(mjm.jnt_type[mjm.actuator_trnid[i, 0]]) != int(mujoco.mjtJoint.mjJNT_BALL):
      continue
    if int(mjm.actuator_gaintype[i]) != int(mujoco.mjtGain.mjGAIN_FIXED) or int(mjm.actuator_biastype[i]) != int(mujoco.mjtBias.mjBIAS_AFFINE):
      continue
    if mjm.actuator_gainprm[i, 0] != -mjm.actuator_biasprm[i, 1] or mjm.actuator_gainprm[i, 0] == 0:
      continue
    if int(mjm.actuator_dyntype[i]) not in (int(mujoco.mjtDyn.mjDYN_NONE), int(mujoco.mjtDyn.mjDYN_INTEGRATOR)):
      continue
    if np.linalg.norm(mjm.actuator_gear[i, :3]) == 0:
      continue
    out.append(i)
  return out


def unwrapped_force(mjm, i, st, ref):
  """Force of servo i without the 3.13 wrap, and the servo error in units of the wrap threshold."""
  ca = _ctrl_act(mjm, i, st, mjm.opt.timestep)
  L = float(ref["actuator_length"][i])
  V = float(ref["actuator_velocity"][i])
  g = mjm.actuator_gainprm[i, 0]
  b = mjm.actuator_biasprm[i]
  frc = g * ca + b[0] + b[1] * L + b[2] * V
  if mjm.actuator_forcelimited[i]:
    frc = float(np.clip(frc, *mjm.actuator_forcerange[i]))
  thr = np.pi * np.linalg.norm(mjm.actuator_gear[i, :3])
  return frc, abs(ca - L) / thr


def forces_clamp_then_tendon(mjm, st, ids, t):
  """Forces of the actuators `ids` on tendon t if forcerange is applied before the tendon total-force scaling.

  The unclamped forces are MuJoCo's own, obtained on a copy of the model without force limits.
  """
  import copy

  m2 = copy.copy(mjm)
  m2.actuator_forcelimited[:] = 0
  m2.tendon_actfrclimited[:] = 0
  d2 = mujoco.MjData(m2)
  mw.apply_state_mj(m2, d2, st)
  stage(m2, d2)
  u = np.array(d2.actuator_force)
  if any(int(mjm.actuator_biastype[i]) == int(mujoco.mjtBias.mjBIAS_DCMOTOR) and mjm.actuator_forcelimited[i] for i in ids):
    return None  # dcmotor adds mechanical forces after its own forcerange clamp: not modelled here
  f = np.array([np.clip(u[i], *mjm.actuator_forcerange[i]) if mjm.actuator_forcelimited[i] else u[i] for i in ids])
  tot = f.sum()
  lo, hi = mjm.tendon_actfrcrange[t]
  if tot < lo:
    f *= lo / tot
  elif tot > hi:
    f *= hi / tot
  return f


def force_with_zero_gain(mjm, st, i):
  """MuJoCo's force of actuator i if its gain were 0 (what a USER gain without callback yields in MJWarp)."""
  import copy

  m2 = copy.copy(mjm)
  m2.actuator_gaintype[i] = int(mujoco.mjtGain.mjGAIN_FIXED)
  m2.actuator_gainprm[i, 0] = 0.0
  m2.tendon_actfrclimited[:] = 0
  d2 = mujoco.MjData(m2)
  mw.apply_state_mj(m2, d2, st)
  stage(m2, d2)
  return float(d2.actuator_force[i])


def qfrc_from_force(mjm, ref, force):
  q = ref["moment"].T @ force
  grav = not (mjm.opt.disableflags & mujoco.mjtDisableBit.mjDSBL_GRAVITY)
  for dof in range(mjm.nv):
    j = mjm.dof_jntid[dof]
    if grav and mjm.jnt_actgravcomp[j]:
      q[dof] += ref["qfrc_gravcomp"][dof]
    if mjm.jnt_actfrclimited[j]:
      q[dof] = np.clip(q[dof], *mjm.jnt_actfrcrange[j])
  return q


# --------------------------------------------------------------------------------------- the case


def build(case, rec):
  rng = np.random.default_rng(case["seed"] + 17)
  feats = set()
  if case["kind"] == "gen":
    P = dict(PROFILE)
    v = case.get("variant", 0)
    fl = ["clampctrl"]
    if v == 3:
      fl.append("actuation")
    if v in (5, 6):
      fl.append("gravity")
    P["flags_disable"] = tuple(fl)
    if v == 7:
      P["act_trn"] = ("site", "slidercrank", "tendon")
    if v == 8:
      P["p_ball"] = 0.6
      P["act_trn"] = ("joint", "jointinparent")
    if v in (9, 10):
      P["integrators"] = ("implicitfast", "RK4", "implicit")
    xml = mjm = None
    for k in range(30):
      x0, f0 = gen.gen((case["seed"] * 1000003 + k), P)
      m0 = gen.compile_xml(x0)
      if m0 is None or m0.nv == 0:
        continue
      x1, f1 = inject_actuators(x0, m0, rng)
      m1 = gen.compile_xml(x1)
      if m1 is None:
        x1, f1, m1 = x0, set(), m0
      if m1.nu == 0:
        continue
      xml, mjm = x1, m1
      feats = set(f0) | f1
      break
    if mjm is None:
      rec.rejected = "mujoco compile"
      return None
    feats |= edit_model(mjm, rng)
    mjm.opt.disableflags |= mujoco.mjtDisableBit.mjDSBL_CONTACT
    return xml, mjm, feats, False
  if case["kind"] == "adh":
    xml, feats = adhesion_scene(case["seed"])
    mjm = gen.compile_xml(xml)
    if mjm is None:
      rec.rejected = "mujoco compile"
      return None
    return xml, mjm, feats, True
  import os

  path = os.path.join(core.TEST_DATA, case["path"])
  if not os.path.exists(path):
    rec.rejected = "missing file"
    return None
  mjm = mujoco.MjModel.from_xml_path(path)
  contact = case["path"].endswith("adhesion.xml")
  if not contact:
    mjm.geom_contype[:] = 0
    mjm.geom_conaffinity[:] = 0
    mjm.opt.disableflags |= mujoco.mjtDisableBit.mjDSBL_CONTACT
  return case["path"], mjm, {"repo:" + case["path"]}, contact


def run_case(case):
  import mujoco_warp as mjw

  rec = core.Rec(case)
  b = build(case, rec)
  if b is None:
    return rec.result()
  xml, mjm, feats, contact = b
  rng = np.random.default_rng(case["seed"])
  try:
    m = mw.put_model(mjm)
  except (NotImplementedError, ValueError) as e:
    rec.rejected = f"put_model: {e}"[:200]
    rec.count("rejected_put_model")
    return rec.result()
  nworld = 3
  if contact:
    states = [adhesion_state(mjm, rng) for _ in range(nworld)]
    if case["kind"] == "repo":
      for s in states:
        s["qpos"][0] = np.float32(rng.choice([0.08, 0.09, 0.11, 0.12, 0.105]))
    d = mw.make_data(mjm, m, states, nconmax=32, njmax=160)
  else:
    states = [gen.sample_state(mjm, rng, vel=rng.choice([0.3, 3.0])) for _ in range(nworld)]
    for s in states:
      # activations beyond their ranges, and muscle-like activations in [0,1]
      if mjm.na:
        s["act"] = (s["act"] * rng.choice([1.0, 1.0, 4.0])).astype(np.float32)
    d = mw.make_data(mjm, m, states)
  mjw.fwd_position(m, d)
  mjw.fwd_velocity(m, d)
  mjw.fwd_actuation(m, d)
  got = {k: np.array(mw.npy(getattr(d, k))) for k in ("actuator_length", "actuator_velocity", "actuator_force", "act_dot", "qfrc_actuator")}
  moments = [dense_moment_mjw(d, w, mjm.nu, mjm.nv) for w in range(nworld)]
  clists = [contact_list_mjw(d, w) for w in range(nworld)] if contact else None
  # one step for the activation state
  do_step = mjm.na > 0 and not contact
  if do_step:
    mjw.step(m, d)
    act_next = np.array(mw.npy(d.act))

  wrapc = wrap_candidates(mjm)
  user_gain = [i for i in range(mjm.nu) if int(mjm.actuator_gaintype[i]) == int(mujoco.mjtGain.mjGAIN_USER)]
  user_early = [i for i in range(mjm.nu) if int(mjm.actuator_dyntype[i]) == int(mujoco.mjtDyn.mjDYN_USER) and mjm.actuator_actearly[i]]
  nontrivial = False
  act_disabled = bool(mjm.opt.disableflags & mujoco.mjtDisableBit.mjDSBL_ACTUATION)
  rk4 = int(mjm.opt.integrator) == int(mujoco.mjtIntegrator.mjINT_RK4)
  act_owner = np.full(mjm.na, -1)
  for i in range(mjm.nu):
    if mjm.actuator_actadr[i] >= 0:
      act_owner[mjm.actuator_actadr[i] : mjm.actuator_actadr[i] + mjm.actuator_actnum[i]] = i
  exact_dyn = (int(mujoco.mjtDyn.mjDYN_FILTEREXACT), int(mujoco.mjtDyn.mjDYN_DCMOTOR))
  tendon_order_candidates = sorted(
    {int(mjm.actuator_trnid[i, 0]) for i in range(mjm.nu) if int(mjm.actuator_trntype[i]) == 3 and mjm.tendon_actfrclimited[mjm.actuator_trnid[i, 0]] and mjm.actuator_forcelimited[i]}
  )
  if tendon_order_candidates:
    rec.cover("models_tendon_actfrcrange_with_forcelimited_actuator", 1)
  for w in range(nworld):
    st = states[w]
    ref, noise, mjd = reference_el(mjm, st, stage, extract, seed=case["seed"] + w)
    ctx = f"world {w}"
    gated = True
    if contact:
      cl = contact_list_mj(mjm, mjd)
      rec.count("contact_worlds")
      if cl != clists[w]:
        gated = False
        rec.count("ungated_contact_list_differs")
        rec.inconcl("contact lists differ: body-transmission moment not judged")
      else:
        rec.cover("adhesion_contacts_active", sum(1 for c in cl if c[3]))
        rec.cover("adhesion_contacts_in_gap", sum(1 for c in cl if not c[3]))
    judge_el(rec, "actuator_length", got["actuator_length"][w], ref["actuator_length"], A, noise["actuator_length"], ctx=ctx)
    mom, mom_ok = moments[w]
    rec.check()
    if not mom_ok:
      rec.viol("actuator_moment:csr", f"moment_rownnz/rowadr/colind out of range {ctx}")
    absmom = np.abs(ref["moment"])
    if gated:
      rowscale = np.repeat(absmom.max(axis=1, keepdims=True), mjm.nv, axis=1) if mjm.nu else absmom
      judge_el(rec, "actuator_moment", mom, ref["moment"], A, noise["moment"], scale=rowscale, ctx=ctx)
      if act_disabled:
        # MuJoCo 3.13 leaves actuator_velocity at 0 when ACTUATION is disabled (length and moment are still computed);
        # whether 3.12 did is unknown here, and nothing downstream reads it: not judged
        rec.count("actuator_velocity_not_judged_actuation_disabled")
      else:
        vscale = absmom @ np.abs(np.asarray(st["qvel"], dtype=np.float64))
        judge_el(rec, "actuator_velocity", got["actuator_velocity"][w], ref["actuator_velocity"], A, noise["actuator_velocity"], scale=vscale, ctx=ctx)
    judge_el(rec, "act_dot", got["act_dot"][w][: mjm.na], ref["act_dot"], A, noise["act_dot"], ctx=ctx)

    # ---- actuator_force, with the mechanisms that have their own signature separated out
    fref = ref["actuator_force"].copy()
    fgot = np.asarray(got["actuator_force"][w], dtype=np.float64)
    nz = noise["actuator_force"]
    fscale = np.maximum(1.0, np.abs(fref))
    bound = A * fscale + cmp.C_NOISE * nz
    well = np.isfinite(nz) & (nz <= cmp.ILLCOND * fscale)
    substituted = False
    for i in wrapc:
      fu, e = unwrapped_force(mjm, i, st, ref)
      if e <= 1.0:
        continue
      rec.cover("ball_servo_error_beyond_pi_gear", 1)
      if abs(e % 2.0 - 1.0) < 1e-3 or not well[i]:
        # at the wrap discontinuity MuJoCo's value flips by 2*pi*|gear|*kp under a perturbation of the float32 size:
        # this actuator is not judged in this world
        rec.inconcl("ball servo error within 1e-3 of the wrap discontinuity")
        rec.count("ball_servo_at_wrap_discontinuity")
        fref[i] = fgot[i]
        substituted = True
        continue
      rec.check()
      if abs(fgot[i] - fref[i]) <= bound[i]:
        continue
      if abs(fgot[i] - fu) <= bound[i] + A * abs(fu):
        rec.viol(
          "actuator_force:ball-servo-wrap",
          f"servo on ball joint, |ctrl-length|={e:.3g} x pi|gear|: MuJoCo 3.13 wraps the error ({fref[i]:.6g}), MJWarp does not ({fgot[i]:.6g}) actuator {i} {ctx}",
          actuator=i,
        )
        fref[i] = fgot[i]
        substituted = True
    done = set()
    for t in tendon_order_candidates:
      ids = [i for i in range(mjm.nu) if int(mjm.actuator_trntype[i]) == 3 and int(mjm.actuator_trnid[i, 0]) == t]
      if not any(well[i] and abs(fgot[i] - fref[i]) > cmp.VIOL_FACTOR * bound[i] for i in ids):
        continue
      rec.check()
      pred = forces_clamp_then_tendon(mjm, st, ids, t)
      if pred is not None and all(abs(fgot[i] - pred[k]) <= bound[i] + A * abs(pred[k]) for k, i in enumerate(ids)):
        rec.viol(
          "actuator_force:forcerange-applied-before-tendon-actfrcrange",
          f"tendon {t} has actuatorfrcrange and a forcelimited actuator: MJWarp clamps forcerange first and scales by the tendon limit afterwards, MuJoCo does the reverse; actuators {ids} got {[float(fgot[i]) for i in ids]} mujoco {[float(fref[i]) for i in ids]} {ctx}",
          tendon=t,
        )
        for i in ids:
          fref[i] = fgot[i]
          done.add(i)
        substituted = True
    for i in user_gain:
      rec.check()
      if i not in done and well[i] and abs(fgot[i] - fref[i]) > cmp.VIOL_FACTOR * bound[i] and abs(fgot[i] - force_with_zero_gain(mjm, st, i)) <= bound[i] + A * abs(fgot[i]):
        rec.viol(
          "actuator_force:gain-user-without-callback",
          f"gaintype user, no callback installed: MuJoCo uses gain 1 ({fref[i]:.6g}), MJWarp gain 0 ({fgot[i]:.6g}) actuator {i} {ctx}",
          actuator=i,
        )
        fref[i] = fgot[i]
        substituted = True
    for i in user_early:
      rec.check()
      if i not in done and well[i] and abs(fgot[i] - fref[i]) > cmp.VIOL_FACTOR * bound[i]:
        rec.viol(
          "actuator_force:dyn-user-actearly-act-not-read",
          f"dyntype user + actearly: MuJoCo uses act[last] ({fref[i]:.6g}), MJWarp {fgot[i]:.6g} actuator {i} {ctx}",
          actuator=i,
        )
        fref[i] = fgot[i]
        substituted = True
    # actuators that share a force-limited tendon with an actuator of a classified mechanism inherit its error through
    # the common scaling factor: the whole group follows MJWarp's values (no extra violation)
    for t in range(mjm.ntendon):
      if not mjm.tendon_actfrclimited[t]:
        continue
      ids = [i for i in range(mjm.nu) if int(mjm.actuator_trntype[i]) == 3 and int(mjm.actuator_trnid[i, 0]) == t]
      if any((i in user_gain or i in user_early) and abs(fgot[i] - ref["actuator_force"][i]) > bound[i] for i in ids):
        for i in ids:
          fref[i] = fgot[i]
        substituted = True
        rec.count("tendon_group_follows_classified_actuator")
    if gated:
      judge_el(rec, "actuator_force", fgot, fref, A, nz, ctx=ctx)
      qref = qfrc_from_force(mjm, ref, fref) if substituted else ref["qfrc_actuator"]
      if substituted:
        rec.count("qfrc_actuator_reference_rebuilt")
      qscale = (np.repeat(absmom.max(axis=1, keepdims=True), mjm.nv, axis=1) * (absmom > 0)).T @ np.abs(fref) + np.abs(ref["qfrc_gravcomp"])
      qnoise = noise["qfrc_actuator"]
      if substituted:
        qnoise = np.minimum(qnoise, absmom.T @ np.where(np.isfinite(nz), nz, 0.0) + noise["moment"].T @ np.abs(fref) + noise["qfrc_gravcomp"])
      judge_el(rec, "qfrc_actuator", got["qfrc_actuator"][w], qref, A, qnoise, scale=qscale, ctx=ctx)
    step_ok = False
    if do_step:
      sref, snoise, _ = reference_el(mjm, st, mujoco.mj_step, lambda mm, dd: {"act": dd.act, "warn": [sum(int(x.number) for x in dd.warning)]}, seed=case["seed"] + w)
      step_ok = sref["warn"][0] == 0 and snoise["warn"][0] == 0
      if not step_ok:
        rec.count("act_next_reference_step_raised_warning")  # mj_step auto-resets on bad qacc: no reference
    if step_ok:
      rec.cover("act_next_worlds", 1)
      an_got = np.asarray(act_next[w][: mjm.na], dtype=np.float64)
      an_ref = sref["act"]
      if rk4:
        # RK4 re-evaluates forward 3 times (conditioning of the whole pipeline): coarser allowance; activations of
        # filterexact / dcmotor actuators carry their own mechanism signature
        sel = np.array([int(mjm.actuator_dyntype[o]) in exact_dyn for o in act_owner], dtype=bool)
        if sel.any():
          rec.cover("rk4_exact_dyn_activations", int(sel.sum()))
          judge_el(rec, "act_next_rk4_exact", an_got[sel], an_ref[sel], 1e-4, snoise["act"][sel], sig="act_next:rk4-stage-activation-not-linear", ctx=ctx + " (RK4 + filterexact/dcmotor activation; MuJoCo forms stage states as act0 + a*h*act_dot)")
        if (~sel).any():
          judge_el(rec, "act_next", an_got[~sel], an_ref[~sel], 1e-4, snoise["act"][~sel], ctx=ctx)
        rec.cover("act_next_worlds_rk4", 1)
      elif act_disabled:
        # classified mechanism: activations still pass through _next_activation (act_dot=0): clamped to actrange; dcmotor
        # slots integrate on. Everything else must be untouched.
        pred = an_ref.copy()
        free = np.zeros(mjm.na, dtype=bool)
        for o in range(mjm.nu):
          if mjm.actuator_actadr[o] < 0:
            continue
          sl = slice(int(mjm.actuator_actadr[o]), int(mjm.actuator_actadr[o] + mjm.actuator_actnum[o]))
          if int(mjm.actuator_dyntype[o]) == int(mujoco.mjtDyn.mjDYN_DCMOTOR):
            free[sl] = True
          elif mjm.actuator_actlimited[o] and int(mjm.actuator_dyntype[o]) != int(mujoco.mjtDyn.mjDYN_USER):
            pred[sl] = np.clip(pred[sl], *mjm.actuator_actrange[o])
        cls = free | ((np.abs(pred - an_ref) > 0) & (np.abs(an_got - pred) <= A * np.maximum(1.0, np.abs(pred))))
        if cls.any():
          judge_el(rec, "act_next_actuation_disabled", an_got[cls], an_ref[cls], A, snoise["act"][cls], sig="act_next:actuation-disabled-still-advanced", ctx=ctx + " (ACTUATION disabled: mj_step leaves act untouched)")
        if (~cls).any():
          judge_el(rec, "act_next", an_got[~cls], an_ref[~cls], A, snoise["act"][~cls], ctx=ctx)
      else:
        judge_el(rec, "act_next", an_got, an_ref, A, snoise["act"], ctx=ctx)

    # ---- measured coverage (from the reference data of this world)
    f = ref["actuator_force"]
    if f.size and np.abs(f).max() > 0:
      nontrivial = True
    clampctrl = not (mjm.opt.disableflags & mujoco.mjtDisableBit.mjDSBL_CLAMPCTRL)
    for i in range(mjm.nu):
      if mjm.actuator_ctrllimited[i]:
        lo, hi = mjm.actuator_ctrlrange[i]
        c = st["ctrl"][i]
        if c < lo or c > hi:
          rec.cover("ctrl_outside_range:" + ("clamped" if clampctrl else "clamp_disabled"), 1)
        elif c == np.float32(lo) or c == np.float32(hi):
          rec.cover("ctrl_at_range_bound", 1)
      if mjm.actuator_forcelimited[i] and (f[i] == mjm.actuator_forcerange[i, 0] or f[i] == mjm.actuator_forcerange[i, 1]):
        rec.cover("force_clamp_active", 1)
      if mjm.actuator_trntype[i] == 3:
        t = mjm.actuator_trnid[i, 0]
        if mjm.tendon_actfrclimited[t]:
          tot = sum(f[k] for k in range(mjm.nu) if mjm.actuator_trntype[k] == 3 and mjm.actuator_trnid[k, 0] == t)
          lo, hi = mjm.tendon_actfrcrange[t]
          if abs(tot - lo) < 1e-9 * max(1, abs(lo)) or abs(tot - hi) < 1e-9 * max(1, abs(hi)):
            rec.cover("tendon_actfrc_clamp_active", 1)
      if mjm.actuator_actlimited[i] and mjm.actuator_actearly[i] and mjm.actuator_actadr[i] >= 0:
        rec.cover("actearly_with_actrange", 1)
    q = ref["qfrc_actuator"]
    for dof in range(mjm.nv):
      j = mjm.dof_jntid[dof]
      if mjm.jnt_actfrclimited[j] and (q[dof] == mjm.jnt_actfrcrange[j, 0] or q[dof] == mjm.jnt_actfrcrange[j, 1]):
        rec.cover("jnt_actfrc_clamp_active", 1)
      if mjm.jnt_actgravcomp[j] and ref["qfrc_gravcomp"][dof] != 0:
        rec.cover("actuator_gravcomp_nonzero", 1)
    if contact and gated and np.abs(ref["moment"]).max() > 0:
      rec.cover("body_transmission_nonzero_moment", 1)

  # ---- static coverage of the compiled model
  for i in range(mjm.nu):
    trn = TRN.get(int(mjm.actuator_trntype[i]), "?")
    if trn == "site" and mjm.actuator_trnid[i, 1] >= 0:
      trn = "site+refsite"
    if trn in ("joint", "jointinparent"):
      jt = int(mjm.jnt_type[mjm.actuator_trnid[i, 0]])
      trn += ":" + ("free", "ball", "slide", "hinge")[jt]
    dyn, gn, bs = DYN[int(mjm.actuator_dyntype[i])], GAIN[int(mjm.actuator_gaintype[i])], BIAS[int(mjm.actuator_biastype[i])]
    rec.cover("trn", trn)
    rec.cover("dyn", dyn)
    rec.cover("gain", gn)
    rec.cover("bias", bs)
    rec.cover("combo_dyn_gain_bias", f"{dyn}/{gn}/{bs}")
    rec.cover("combo_trn_dyn", f"{trn.split(':')[0]}/{dyn}")
    mods = []
    if mjm.actuator_ctrllimited[i]:
      mods.append("ctrllimited")
    if mjm.actuator_forcelimited[i]:
      mods.append("forcelimited")
    if mjm.actuator_actlimited[i]:
      mods.append("actlimited")
    if mjm.actuator_actearly[i]:
      mods.append("actearly")
    if mjm.actuator_trntype[i] == 3 and mjm.tendon_actfrclimited[mjm.actuator_trnid[i, 0]]:
      mods.append("tendonfrcrange")
    if mjm.actuator_trntype[i] in (0, 1) and mjm.jnt_actfrclimited[mjm.actuator_trnid[i, 0]]:
      mods.append("jntfrcrange")
    for a in range(len(mods)):
      for b_ in range(a + 1, len(mods)):
        rec.cover("pairs", f"{mods[a]}+{mods[b_]}")
    if len(mods) >= 3:
      rec.cover("actuators_with_3plus_limit_features", 1)
    if mjm.actuator_actnum[i] > 1:
      rec.cover("actnum>1", 1)
  if mjm.na > mjm.nu:
    rec.cover("models_na>nu", 1)
  for fl, nm in ((mujoco.mjtDisableBit.mjDSBL_CLAMPCTRL, "clampctrl"), (mujoco.mjtDisableBit.mjDSBL_ACTUATION, "actuation"), (mujoco.mjtDisableBit.mjDSBL_GRAVITY, "gravity")):
    if mjm.opt.disableflags & fl:
      rec.cover("disabled:" + nm, 1)
  for ft in feats:
    rec.cover("features", ft)
  rec.cover("worlds_compared", nworld)
  rec.cover("kind:" + case["kind"], 1)
  if mjm.nu >= 1 and nontrivial:
    rec.nontrivial(xml, *[s["ctrl"] for s in states], *[s["act"] for s in states], *[s["qpos"] for s in states])
  rec.sample = {
    "model": case.get("path", f"{case['kind']} seed {case['seed']}"),
    "nv": mjm.nv,
    "nu": mjm.nu,
    "na": mjm.na,
    "ntendon": mjm.ntendon,
    "actuators": [f"{TRN.get(int(mjm.actuator_trntype[i]))}/{DYN[int(mjm.actuator_dyntype[i])]}/{GAIN[int(mjm.actuator_gaintype[i])]}/{BIAS[int(mjm.actuator_biastype[i])]}" for i in range(min(mjm.nu, 8))],
    "ctrl_world0": states[0]["ctrl"][:8],
  }
  return rec.result()


def requirements(agg, tier):
  unmet = []
  cov = agg["cover"]

  def need_set(name, vals):
    have = set(cov.get(name, []))
    for v in vals:
      if v not in have:
        unmet.append(f"{name} never observed: {v}")

  need_set("trn", ["joint:hinge", "joint:slide", "joint:ball", "jointinparent:ball", "jointinparent:hinge", "tendon", "site", "site+refsite", "slidercrank", "body"])
  need_set("dyn", ["none", "integrator", "filter", "filterexact", "muscle", "dcmotor", "user"])
  need_set("gain", ["fixed", "affine", "muscle", "dcmotor"])
  need_set("bias", ["none", "affine", "muscle", "dcmotor"])
  for k, n in (
    ("ctrl_outside_range:clamped", 20),
    ("ctrl_outside_range:clamp_disabled", 5),
    ("force_clamp_active", 20),
    ("jnt_actfrc_clamp_active", 20),
    ("tendon_actfrc_clamp_active", 5),
    ("actearly_with_actrange", 5),
    ("actuator_gravcomp_nonzero", 10),
    ("body_transmission_nonzero_moment", 10),
    ("adhesion_contacts_in_gap", 1),
    ("models_na>nu", 3),
    ("act_next_worlds", 30),
    ("disabled:actuation", 1),
  ):
    if cov.get(k, 0) < n:
      unmet.append(f"coverage {k}={cov.get(k, 0)} < {n}")
  if len(cov.get("pairs", [])) < 10:
    unmet.append("fewer than 10 distinct limit-feature pairs seen together")
  t = agg["tally"]
  if t.get("contact_worlds", 0) and t.get("ungated_contact_list_differs", 0) > 0.5 * t["contact_worlds"]:
    unmet.append("more than half of the contact worlds were ungated")
  if agg["distinct"] < 60:
    unmet.append("fewer than 60 distinct non-trivial cases")
  return unmet
