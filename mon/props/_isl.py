"""Shared builders / oracles for the island + sleeping monitors (C28, C29, C38).

graph_model(n, family): one MJCF model with n kinematic trees and one *switchable* constraint for every
unordered pair of trees (i<j) and one self/world edge per tree (i,i).  Edge k of EDGES(n) is switched per
world, either through eq_active (equality families) or through qpos (contact / limit family), so that
all 2^(n(n+1)/2) constraint graphs on n trees are the worlds of one batch.
"""

import numpy as np

FAMILIES = ("connect", "weld", "joint", "tendon", "contact", "mixed")


def edges(n):
  return [(i, j) for i in range(n) for j in range(i, n)]


def nedges(n):
  return n * (n + 1) // 2


def graph_bits(n, g):
  """list of active edges (i,j) of graph number g."""
  return [e for k, e in enumerate(edges(n)) if (g >> k) & 1]


# ------------------------------------------------------------------------------------------ union find


def components(n, edge_sets):
  """edge_sets: iterable of iterables of tree ids (a hyper-edge touches >=1 tree).

  Returns labels (n,) int: -1 for untouched trees, islands numbered by smallest tree.
  """
  parent = list(range(n))
  touched = [False] * n

  def find(a):
    while parent[a] != a:
      parent[a] = parent[parent[a]]
      a = parent[a]
    return a

  for es in edge_sets:
    es = [int(t) for t in es if t >= 0]
    if not es:
      continue
    for t in es:
      touched[t] = True
    r = find(es[0])
    for t in es[1:]:
      q = find(t)
      if q != r:
        parent[q] = r
  labels = -np.ones(n, dtype=int)
  nxt = 0
  rootlab = {}
  for t in range(n):
    if not touched[t]:
      continue
    r = find(t)
    if r not in rootlab:
      rootlab[r] = nxt
      nxt += 1
    labels[t] = rootlab[r]
  return labels


# ------------------------------------------------------------------------------------------ models

_HEAD = """<mujoco>
  <option timestep="0.002" jacobian="{jac}" cone="{cone}" gravity="0 0 -9.81"{extra_opt}>
    <flag {flags}/>
  </option>
"""


def _opt(jac="dense", cone="pyramidal", flags="", extra_opt=""):
  return _HEAD.format(jac=jac, cone=cone, flags=flags or 'warmstart="enable"', extra_opt=extra_opt)


def graph_model(n, family, jac="dense", seed=0):
  """Returns (xml, info).  info: dict(kind per edge, nrows per edge, encode(g)->state overrides)."""
  rng = np.random.default_rng(1000 * n + seed)
  E = edges(n)
  fam_of = []
  for k, (i, j) in enumerate(E):
    if family == "mixed":
      fam_of.append(("connect", "weld", "joint", "tendon", "contact")[int(rng.integers(5))])
    else:
      fam_of.append(family)
  # every tree: root body with two slide joints (a: x axis, b: y axis) and a ball joint -> works for every family.
  # contact edges use child bodies on slide joints (q = 0 far apart, q = ENG engaged/overlapping).
  body = []
  eqs = []
  tendons = []
  world_geoms = []
  rows = []
  need_child = {i: [] for i in range(n)}
  for k, (i, j) in enumerate(E):
    f = fam_of[k]
    slot = np.array([1.0 * k, 5.0, 0.0])
    if f == "contact":
      if i == j:
        if i % 2 == 0:
          # contact with a static world geom
          need_child[i].append((k, slot, +1, False))
          world_geoms.append(f'<geom name="ws{k}" type="sphere" size="0.1" pos="{slot[0]} {slot[1]} -0.05" condim="1"/>')
          rows.append(1)
        else:
          # joint limit of the child's slide joint (range [-1, 0.5], engaged q=0.95)
          need_child[i].append((k, slot, +1, True))
          rows.append(1)
      else:
        need_child[i].append((k, slot, +1, False))
        need_child[j].append((k, slot, -1, False))
        rows.append(1)
    elif f in ("connect", "weld"):
      nr = 3 if f == "connect" else 6
      if i == j:
        eqs.append(f'<{f} name="e{k}" body1="t{i}"' + (' anchor="0 0 0"' if f == "connect" else "") + "/>")
      else:
        eqs.append(f'<{f} name="e{k}" body1="t{i}" body2="t{j}"' + (' anchor="0 0 0"' if f == "connect" else "") + "/>")
      rows.append(nr)
    elif f == "joint":
      if i == j:
        if i % 2 == 0:
          eqs.append(f'<joint name="e{k}" joint1="ja{i}"/>')
        else:
          eqs.append(f'<joint name="e{k}" joint1="ja{i}" joint2="jb{i}"/>')
      else:
        eqs.append(f'<joint name="e{k}" joint1="ja{i}" joint2="jb{j}"/>')
      rows.append(1)
    elif f == "tendon":
      if i == j:
        tendons.append(f'<fixed name="T{k}"><joint joint="ja{i}" coef="1"/><joint joint="jb{i}" coef="0.5"/></fixed>')
      else:
        tendons.append(f'<fixed name="T{k}"><joint joint="ja{i}" coef="1"/><joint joint="jb{j}" coef="-1"/></fixed>')
      eqs.append(f'<tendon name="e{k}" tendon1="T{k}"/>')
      rows.append(1)
  xml = [_opt(jac=jac)]
  xml.append("  <worldbody>")
  for g in world_geoms:
    xml.append("    " + g)
  for i in range(n):
    xml.append(f'    <body name="t{i}" pos="{1.0 * i} 0 0">')
    if family in ("connect", "weld"):
      xml.append("      <freejoint/>")
      xml.append('      <geom type="sphere" size="0.1" contype="0" conaffinity="0"/>')
    else:
      xml.append(f'      <joint name="ja{i}" type="slide" axis="1 0 0"/>')
      xml.append(f'      <joint name="jb{i}" type="slide" axis="0 1 0"/>')
      xml.append('      <geom type="sphere" size="0.1" contype="0" conaffinity="0"/>')
    for k, slot, sgn, limited in need_child[i]:
      p = slot + np.array([0, 0, 1.0 * sgn]) - np.array([1.0 * i, 0, 0])
      lim = ' limited="true" range="-1 0.5"' if limited else ""
      xml.append(f'      <body name="c{k}_{i}" pos="{p[0]} {p[1]} {p[2]}">')
      xml.append(f'        <joint name="jc{k}_{i}" type="slide" axis="0 0 {-sgn}"{lim}/>')
      ct = ' contype="0" conaffinity="0"' if limited else ""
      xml.append(f'        <geom name="gc{k}_{i}" type="sphere" size="0.1" condim="1"{ct}/>')
      xml.append("      </body>")
    xml.append("    </body>")
  xml.append("  </worldbody>")
  if tendons:
    xml.append("  <tendon>")
    xml += ["    " + t for t in tendons]
    xml.append("  </tendon>")
  if eqs:
    xml.append("  <equality>")
    xml += ["    " + e for e in eqs]
    xml.append("  </equality>")
  xml.append("</mujoco>")
  return "\n".join(xml), {"fam_of": fam_of, "rows": rows, "edges": E}


ENGAGED = 0.95


def encode_graph(mjm, info, g):
  """state overrides (qpos, eq_active) that realise graph number g on the model of graph_model()."""
  import mujoco

  qpos = np.array(mjm.qpos0, dtype=np.float32)
  eq_active = np.zeros(mjm.neq, dtype=bool)
  for k, (i, j) in enumerate(info["edges"]):
    on = (g >> k) & 1
    f = info["fam_of"][k]
    if f == "contact":
      if on:
        for t in {i, j}:
          jid = mujoco.mj_name2id(mjm, mujoco.mjtObj.mjOBJ_JOINT, f"jc{k}_{t}")
          qpos[mjm.jnt_qposadr[jid]] = ENGAGED
    else:
      eid = mujoco.mj_name2id(mjm, mujoco.mjtObj.mjOBJ_EQUALITY, f"e{k}")
      eq_active[eid] = bool(on)
  return qpos, eq_active


# ------------------------------------------------------------------------------------------ sleep scenes

TREE_KINDS = ("box", "sphere", "capsule", "cart", "arm", "stack", "slider")


def sleep_scene(seed, ntree=(3, 6), jac="auto", cone="pyramidal", sleep=True, tol=None, p_act=0.25, links=True,
                spread=0.45, integrator="Euler", p_frictionloss=0.3, kinds=TREE_KINDS, timestep=0.004, iterations=50, p_touch=0.3):
  """Multi-tree scene on a plane for the sleeping / compaction monitors.

  Returns (xml, meta).  meta: roots (body name of each tree root), eq names, tendon names, features.
  Trees: free box/sphere/capsule, cart+pendulum (slide+hinge), 2-hinge arm (optionally actuated => policy never),
  stack (two free boxes on top of each other => two trees in contact), slider (vertical slide with limit).
  Links (each a potential wake path): connect / weld / joint equality between trees, limited spatial tendon
  between two trees, limited fixed tendon across two trees, tendon equality.
  """
  rng = np.random.default_rng(seed)
  nt = int(rng.integers(ntree[0], ntree[1] + 1))
  if tol is None:
    tol = float(rng.choice([0.02, 0.05, 0.1]))
  feats = set()
  bodies, acts, eqs, tendons = [], [], [], []
  roots = []  # (body name, kind, joint names usable for joint equality / fixed tendons, site name)
  x = 0.0
  k = 0
  while len(roots) < nt:
    kind = str(kinds[int(rng.integers(len(kinds)))])
    feats.add("tree:" + kind)
    # gap to previous tree: sometimes touching (contact wake path), mostly apart
    gap = spread if rng.random() >= p_touch else 0.19
    x += gap
    y = float(rng.normal() * 0.02)
    fl = f' frictionloss="{rng.uniform(0.05, 0.3):.3g}"' if rng.random() < p_frictionloss else ""
    if fl:
      feats.add("frictionloss")
    damp = f'{rng.uniform(0.2, 1.0):.3g}'
    name = f"r{k}"
    if kind in ("box", "sphere", "capsule"):
      z = 0.1 + (float(rng.uniform(0.0, 0.15)) if rng.random() < 0.5 else 0.0)
      g = {
        "box": '<geom type="box" size=".1 .1 .1" mass="1"/>',
        "sphere": '<geom type="sphere" size=".1" mass="1"/>',
        "capsule": '<geom type="capsule" size=".1 .08" euler="0 90 0" mass="1"/>',
      }[kind]
      bodies.append(f'<body name="{name}" pos="{x:.4g} {y:.4g} {z:.4g}"><freejoint name="f{k}"/>{g}<site name="s{k}" pos="0 0 .1"/></body>')
      roots.append((name, kind, [], f"s{k}"))
    elif kind == "stack":
      bodies.append(f'<body name="{name}" pos="{x:.4g} {y:.4g} .1"><freejoint name="f{k}"/><geom type="box" size=".1 .1 .1" mass="1"/><site name="s{k}" pos="0 0 .1"/></body>')
      roots.append((name, "box", [], f"s{k}"))
      k += 1
      name2 = f"r{k}"
      bodies.append(f'<body name="{name2}" pos="{x:.4g} {y:.4g} .3"><freejoint name="f{k}"/><geom type="box" size=".08 .08 .1" mass=".5"/><site name="s{k}" pos="0 0 .1"/></body>')
      roots.append((name2, "box", [], f"s{k}"))
    elif kind == "cart":
      bodies.append(
        f'<body name="{name}" pos="{x:.4g} {y:.4g} .095"><joint name="ja{k}" type="slide" axis="1 0 0" damping="{damp}"{fl}/>'
        f'<geom type="box" size=".08 .08 .08" mass="1"/><site name="s{k}" pos="0 0 .08"/>'
        f'<body pos="0 0 .12"><joint name="jb{k}" type="hinge" axis="0 1 0" damping="{damp}" limited="true" range="-60 60"/>'
        f'<geom type="capsule" size=".03" fromto="0 0 0 0 0 .2" mass=".2"/></body></body>'
      )
      roots.append((name, kind, [f"ja{k}", f"jb{k}"], f"s{k}"))
    elif kind == "arm":
      bodies.append(
        f'<body name="{name}" pos="{x:.4g} {y:.4g} .5"><joint name="ja{k}" type="hinge" axis="0 1 0" damping="{damp}"{fl}/>'
        f'<geom type="capsule" size=".03" fromto="0 0 0 0 0 -.2" mass=".3"/><site name="s{k}" pos="0 0 -.1"/>'
        f'<body pos="0 0 -.2"><joint name="jb{k}" type="hinge" axis="0 1 0" damping="{damp}" limited="true" range="-100 100"/>'
        f'<geom type="capsule" size=".03" fromto="0 0 0 0 0 -.2" mass=".3"/></body></body>'
      )
      roots.append((name, kind, [f"ja{k}", f"jb{k}"], f"s{k}"))
      if rng.random() < p_act:
        acts.append(f'<motor joint="ja{k}" gear="0.2"/>')
        feats.add("actuated_tree")
    else:  # slider: vertical slide resting on its lower limit
      bodies.append(
        f'<body name="{name}" pos="{x:.4g} {y:.4g} .3"><joint name="ja{k}" type="slide" axis="0 0 1" damping="{damp}" limited="true" range="-0.1 0.3"{fl}/>'
        f'<geom type="sphere" size=".06" mass=".5"/><site name="s{k}" pos="0 0 .06"/></body>'
      )
      roots.append((name, kind, [f"ja{k}"], f"s{k}"))
    k += 1
  nt = len(roots)
  neq = 0
  if links and nt >= 2:
    nl = int(rng.integers(1, 4))
    for li in range(nl):
      a, b = [int(v) for v in rng.choice(nt, size=2, replace=False)]
      ra, rb = roots[a], roots[b]
      lk = str(rng.choice(["connect", "weld", "joint", "spatial", "fixed", "teneq", "connect_world"]))
      if lk == "connect":
        eqs.append(f'<connect name="e{neq}" body1="{ra[0]}" body2="{rb[0]}" anchor="0 0 .15" active="false"/>')
      elif lk == "connect_world":
        eqs.append(f'<connect name="e{neq}" body1="{ra[0]}" anchor="0 0 0" active="false"/>')
      elif lk == "weld":
        eqs.append(f'<weld name="e{neq}" body1="{ra[0]}" body2="{rb[0]}" active="false"/>')
      elif lk == "joint" and ra[2] and rb[2]:
        eqs.append(f'<joint name="e{neq}" joint1="{ra[2][0]}" joint2="{rb[2][-1]}" active="false"/>')
      elif lk == "spatial":
        lo = float(rng.uniform(0.0, 0.2))
        hi = float(rng.uniform(0.3, 1.5))
        tendons.append(f'<spatial name="T{len(tendons)}" limited="true" range="{lo:.3g} {hi:.3g}"><site site="{ra[3]}"/><site site="{rb[3]}"/></spatial>')
        feats.add("link:spatial_tendon_limit")
        continue
      elif lk == "fixed" and ra[2] and rb[2]:
        tendons.append(f'<fixed name="T{len(tendons)}" limited="true" range="-0.05 0.05"><joint joint="{ra[2][0]}" coef="1"/><joint joint="{rb[2][-1]}" coef="-1"/></fixed>')
        feats.add("link:fixed_tendon_limit")
        continue
      elif lk == "teneq" and ra[2] and rb[2]:
        tendons.append(f'<fixed name="T{len(tendons)}"><joint joint="{ra[2][0]}" coef="1"/><joint joint="{rb[2][-1]}" coef="1"/></fixed>')
        eqs.append(f'<tendon name="e{neq}" tendon1="T{len(tendons) - 1}" active="false"/>')
        lk = "tendon_eq"
      else:
        continue
      feats.add("link:" + lk)
      neq += 1
  flags = 'sleep="enable"' if sleep else 'sleep="disable"'
  xml = [_opt(jac=jac, cone=cone, flags=flags, extra_opt=f' sleep_tolerance="{tol}" integrator="{integrator}" iterations="{iterations}"').replace('timestep="0.002"', f'timestep="{timestep}"')]
  xml.append('<worldbody><geom name="floor" type="plane" size="20 20 .1"/>')
  xml += bodies
  xml.append("</worldbody>")
  if tendons:
    xml.append("<tendon>" + "".join(tendons) + "</tendon>")
  if eqs:
    xml.append("<equality>" + "".join(eqs) + "</equality>")
  if acts:
    xml.append("<actuator>" + "".join(acts) + "</actuator>")
  xml.append("</mujoco>")
  return "\n".join(xml), {"ntree": nt, "tol": tol, "features": sorted(feats), "neq": neq}


def mj_set_sleep(mjm, mjd, tree_asleep):
  """Python replica of mj_updateSleep: writes tree_asleep and every derived awake array into MjData.

  Valid only after an mj_forward with every tree awake (sleeping bodies keep their stored kinematics);
  validated against MuJoCo's own evolution (bit-equal re-synchronised stepping) at design time.
  """
  ta = np.asarray(tree_asleep, dtype=np.int32)
  mjd.tree_asleep[:] = ta
  aw = (ta < 0).astype(np.int32)
  mjd.tree_awake[:] = aw
  mjd.ntree_awake = int(aw.sum())
  ba = np.zeros(mjm.nbody, np.int32)
  for b in range(mjm.nbody):
    t = mjm.body_treeid[b]
    if t < 0:
      ba[b] = 1 if mjm.body_mocapid[mjm.body_rootid[b]] >= 0 else -1
    else:
      ba[b] = 1 if aw[t] else 0
  mjd.body_awake[:] = ba
  ind = np.nonzero(ba != 0)[0]
  mjd.nbody_awake = len(ind)
  mjd.body_awake_ind[: len(ind)] = ind
  pind = np.array([b for b in range(1, mjm.nbody) if ba[mjm.body_parentid[b]] != 0], dtype=np.int32)
  mjd.nparent_awake = len(pind)
  mjd.parent_awake_ind[: len(pind)] = pind
  dind = np.array([i for i in range(mjm.nv) if aw[mjm.dof_treeid[i]]], dtype=np.int32)
  mjd.nv_awake = len(dind)
  mjd.dof_awake_ind[: len(dind)] = dind


def cycles_of(tree_asleep):
  """Decomposes the >=0 entries into cycles.  Returns (list of frozensets, ok flag)."""
  ta = np.asarray(tree_asleep)
  n = len(ta)
  seen = set()
  out = []
  ok = True
  for t in range(n):
    if ta[t] < 0 or t in seen:
      continue
    cyc = [t]
    cur = int(ta[t])
    steps = 0
    while cur != t:
      if cur < 0 or cur >= n or ta[cur] < 0 or cur in cyc or steps > n:
        ok = False
        break
      cyc.append(cur)
      cur = int(ta[cur])
      steps += 1
    if any(c in seen for c in cyc):
      ok = False
    seen.update(cyc)
    out.append(frozenset(cyc))
  return out, ok


# ------------------------------------------------------------------------------------------ constraint rows -> trees

EQ, FDOF, FTEN, LJNT, LTEN = 0, 1, 2, 3, 4  # mjtConstraint
CONTACTS = (5, 6, 7)


import mujoco  # noqa: E402


def row_trees(mjm, rows, con_geom, sparse_cols=None):
  """List (per row) of the sorted tree ids a constraint row touches."""
  out = []
  bt = mjm.body_treeid
  for r in range(rows["nefc"]):
    ty, i = int(rows["type"][r]), int(rows["id"][r])
    ts = None
    if ty == EQ:
      et = int(mjm.eq_type[i])
      if et in (int(mujoco.mjtEq.mjEQ_CONNECT), int(mujoco.mjtEq.mjEQ_WELD)):
        o1, o2 = int(mjm.eq_obj1id[i]), int(mjm.eq_obj2id[i])
        if int(mjm.eq_objtype[i]) == int(mujoco.mjtObj.mjOBJ_SITE):
          o1, o2 = int(mjm.site_bodyid[o1]), int(mjm.site_bodyid[o2])
        ts = [int(bt[o1]), int(bt[o2])]
    elif ty == FDOF:
      ts = [int(mjm.dof_treeid[i])]
    elif ty == LJNT:
      ts = [int(mjm.dof_treeid[mjm.jnt_dofadr[i]])]
    elif ty in CONTACTS:
      g1, g2 = con_geom[i]
      if g1 >= 0 and g2 >= 0:
        ts = [int(bt[mjm.geom_bodyid[g1]]), int(bt[mjm.geom_bodyid[g2]])]
    if ts is None:
      if sparse_cols is not None:
        cols = sparse_cols[r]
      else:
        cols = np.nonzero(rows["J"][r])[0]
      ts = [int(mjm.dof_treeid[c]) for c in cols]
    out.append(sorted(set(t for t in ts if t >= 0)))
  return out


class Rows:
  """Constraint rows of a whole batch, fetched once."""

  def __init__(self, m, d):
    self.sparse = bool(m.is_sparse)
    self.type = d.efc.type.numpy()
    self.id = d.efc.id.numpy()
    self.nefc = np.minimum(d.nefc.numpy(), d.njmax)
    if self.sparse:
      self.rownnz = d.efc.J_rownnz.numpy()
      self.rowadr = d.efc.J_rowadr.numpy()
      self.colind = d.efc.J_colind.numpy().reshape(d.nworld, -1)
    else:
      self.J = d.efc.J.numpy()

  def world(self, mjm, w):
    n = int(self.nefc[w])
    rows = {"nefc": n, "type": self.type[w][:n], "id": self.id[w][:n]}
    if self.sparse:
      ci = self.colind[w]
      cols = [ci[self.rowadr[w][r] : self.rowadr[w][r] + self.rownnz[w][r]] for r in range(n)]
    else:
      rows["J"] = self.J[w][:n, : mjm.nv]
      cols = None
    return rows, cols


