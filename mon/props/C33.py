"""C33 set_const recomputes derived model fields correctly.

Differential monitor: a batched MJWarp Model receives different set_const-safe changes in every world (masses+inertias,
inertial frames, body poses, qpos0, qpos_spring, armature, position-actuator gains/dampratio, unset connect/weld data),
mjw.set_const (or set_const_fixed + set_const_0 + set_const_spring) is called, and every derived field of world w is
compared with mujoco.mj_setConst on an MjModel carrying world w's values. With restore=True the Data of world w must
equal MuJoCo's position-stage quantities at the unchanged d.qpos.
"""

import copy

import mujoco
import numpy as np

from mon import cmp, core, gen, mw
from mon.props.C03 import judge_el

ID = "C33"
LEVEL = "exploration"
RULE = (
  "case=(seed): generated tree (free/ball/hinge/slide, welded + mocap bodies, cameras/lights in all tracking modes, fixed+spatial "
  "tendons some with springlength=-1, position actuators, connect/weld equalities) or a repository model; 3 worlds, each with "
  "its own random change set: mass+inertia scaling of random bodies, body_ipos/body_iquat, body_pos/body_quat of moving bodies, "
  "qpos0 and qpos_spring of hinge/slide/ball joints, dof_armature, kp (gainprm/biasprm) and dampratio of position actuators, "
  "unset (zeroed) connect/weld offsets. Entry: set_const | fixed+0+spring, restore True/False. Non-trivial: >=2 change kinds "
  "applied and nv>=2; distinct by hash(model xml, changes)."
)
ASSUMPTIONS = [
  "mujoco.mj_setConst (3.13, float64) on an MjModel carrying one world's values is the reference for that world",
  "only fields the set_const docstring lists as safely modifiable are changed",
  "allowance: 1e-5*scale for copied/kinematic fields, 3e-4*scale for fields obtained through an inertia solve "
  "(dof/body/tendon_invweight0, actuator_acc0, dampratio-resolved biasprm), scale=max(1,max|field|)",
]
BUDGET = {"quick": 150, "thorough": 1500}

PROFILE = gen.profile(
  nbody=(2, 7),
  p_camlight=0.7,
  tendon_fixed=0.5,
  tendon_spatial=0.5,
  p_mocap=0.15,
  p_weld=0.2,
  p_massless=0.0,
  p_armature=0.5,
  p_gravcomp=0.2,
  actuators=3,
  act_kinds=("position", "position", "motor", "general"),
  act_trn=("joint", "tendon", "site"),
  act_ball=False,
  equality=2,
  eq_kinds=("connect", "weld"),
  jacobians=("dense", "sparse"),
)

REPO_MODELS = ["humanoid/humanoid.xml", "pendula.xml", "constraints.xml", "tendon/fixed.xml", "actuation/position.xml"]

# derived fields: name -> (allowance, needs inertia solve)
DERIVED = {
  "body_subtreemass": 1e-5,
  "tendon_length0": 1e-5,
  "dof_invweight0": 3e-4,
  "body_invweight0": 3e-4,
  "tendon_invweight0": 3e-4,
  "cam_pos0": 1e-5,
  "cam_poscom0": 1e-5,
  "cam_mat0": 1e-5,
  "light_pos0": 1e-5,
  "light_poscom0": 1e-5,
  "light_dir0": 1e-5,
  "actuator_acc0": 3e-4,
  "actuator_biasprm": 3e-4,
  "tendon_lengthspring": 1e-5,
  "eq_data": 1e-5,
}
CHANGED = ["body_mass", "body_inertia", "body_ipos", "body_iquat", "body_pos", "body_quat", "qpos0", "qpos_spring", "dof_armature", "actuator_gainprm", "actuator_biasprm", "eq_data", "tendon_lengthspring"]
DATA_FIELDS = ["xpos", "xquat", "xipos", "subtree_com", "cinert", "ten_length", "actuator_length", "M"]


def cases(tier, seed):
  n = 110 if tier == "quick" else 2000
  out = []
  for i in range(n):
    out.append({"id": f"gen{seed}_{i}", "kind": "gen", "seed": seed * 100000 + i, "entry": ("all", "parts")[i % 2], "restore": bool((i // 2) % 2 == 0), "big": 40 if i % 25 == 11 else 0, "weight": 3 if i % 25 == 11 else 1})
  for k, p in enumerate(REPO_MODELS):
    for r in range(1 if tier == "quick" else 5):
      out.append({"id": f"repo{seed}_{k}_{r}", "kind": "repo", "path": p, "seed": seed * 100000 + 70000 + 10 * k + r, "entry": ("all", "parts")[r % 2], "restore": True, "weight": 3})
  return out


def moving(mjm, b):
  """True if body b or one of its ancestors has a joint (changing body_pos of static bodies is documented as unsafe)."""
  while b > 0:
    if mjm.body_dofnum[b] > 0:
      return True
    b = int(mjm.body_parentid[b])
  return False


def change_world(mjm, rng, kinds_out):
  """Applies a random change set to a copy of mjm; returns the copy."""
  m2 = copy.copy(mjm)
  nb = mjm.nbody
  if rng.random() < 0.8 and nb > 1:
    for b in rng.choice(np.arange(1, nb), size=min(nb - 1, int(rng.integers(1, 4))), replace=False):
      if mjm.body_mass[b] > 0:
        s = rng.uniform(0.3, 3.0)
        m2.body_mass[b] *= s
        m2.body_inertia[b] *= s
        kinds_out.add("mass+inertia")
  if rng.random() < 0.5 and nb > 1:
    b = int(rng.integers(1, nb))
    if mjm.body_mass[b] > 0:
      m2.body_ipos[b] += rng.normal(size=3) * 0.03
      kinds_out.add("body_ipos")
      if rng.random() < 0.5:
        q = m2.body_iquat[b] + rng.normal(size=4) * 0.2
        m2.body_iquat[b] = q / np.linalg.norm(q)
        kinds_out.add("body_iquat")
  if rng.random() < 0.5:
    cand = [b for b in range(1, nb) if mjm.body_dofnum[b] > 0 and mjm.jnt_type[mjm.body_jntadr[b]] != 0 and mjm.body_mocapid[b] < 0]
    if cand:
      b = cand[rng.integers(len(cand))]
      m2.body_pos[b] += rng.normal(size=3) * 0.05
      kinds_out.add("body_pos")
      if rng.random() < 0.5:
        q = m2.body_quat[b] + rng.normal(size=4) * 0.2
        m2.body_quat[b] = q / np.linalg.norm(q)
        kinds_out.add("body_quat")
  for name, p in (("qpos0", 0.8), ("qpos_spring", 0.5)):
    if rng.random() < p:
      arr = getattr(m2, name)
      for j in range(mjm.njnt):
        a = mjm.jnt_qposadr[j]
        t = int(mjm.jnt_type[j])
        if rng.random() < 0.6:
          if t in (2, 3):
            arr[a] += rng.normal() * 0.3
            kinds_out.add(name + ":scalar")
          elif t == 1:
            q = arr[a : a + 4] + rng.normal(size=4) * 0.3
            arr[a : a + 4] = q / np.linalg.norm(q)
            kinds_out.add(name + ":ball")
  if rng.random() < 0.5 and mjm.nv:
    for i in range(mjm.nv):
      if rng.random() < 0.4:
        m2.dof_armature[i] = rng.uniform(0, 0.5)
        kinds_out.add("dof_armature")
  for i in range(mjm.nu):
    pos_like = mjm.actuator_biastype[i] == 1 and mjm.actuator_gainprm[i, 0] == -mjm.actuator_biasprm[i, 1] and mjm.actuator_gainprm[i, 0] > 0
    if pos_like and rng.random() < 0.7:
      kp = rng.uniform(1, 60)
      m2.actuator_gainprm[i, 0] = kp
      m2.actuator_biasprm[i, 1] = -kp
      kinds_out.add("kp")
      if rng.random() < 0.6:
        m2.actuator_biasprm[i, 2] = rng.uniform(0.2, 2.0)  # positive: a damping ratio to be resolved
        kinds_out.add("dampratio")
  for e in range(mjm.neq):
    if int(mjm.eq_objtype[e]) != int(mujoco.mjtObj.mjOBJ_BODY) or rng.random() < 0.5:
      continue
    if int(mjm.eq_type[e]) == int(mujoco.mjtEq.mjEQ_CONNECT):
      m2.eq_data[e, 3:6] = 0
      kinds_out.add("connect_unset")
    elif int(mjm.eq_type[e]) == int(mujoco.mjtEq.mjEQ_WELD):
      m2.eq_data[e, 3:10] = 0
      kinds_out.add("weld_unset")
  for t in range(mjm.ntendon):
    if rng.random() < 0.3:
      m2.tendon_lengthspring[t] = -1
      kinds_out.add("tendon_lengthspring_unset")
  return m2


def build(case, rec):
  if case["kind"] == "gen":
    P = dict(PROFILE)
    if case.get("big"):
      P["big_tree"] = case["big"]
      P["nbody"] = (1, 3)
      P["jacobians"] = ("sparse",)
    xml, mjm, feats, _ = gen.make_model(case["seed"], P, accept=lambda m: m.nv >= 2)
    if mjm is None:
      rec.rejected = "mujoco compile"
      return None
    return xml, mjm, set(feats)
  import os

  path = os.path.join(core.TEST_DATA, case["path"])
  if not os.path.exists(path):
    rec.rejected = "missing file"
    return None
  return case["path"], mujoco.MjModel.from_xml_path(path), {"repo:" + case["path"]}


def camlight_prediction(minp, st):
  """cam/light reference fields as obtained from mj_camlight's pose at qpos0 (inputs still carry the old *_pos0/mat0/dir0)."""
  minp = copy.copy(minp)
  sub = np.array(minp.body_mass)
  for b in range(minp.nbody - 1, 0, -1):
    sub[minp.body_parentid[b]] += sub[b]
  minp.body_subtreemass[:] = sub  # set_const_fixed runs first, so the centre-of-mass pass sees the new subtree masses
  d = mujoco.MjData(minp)
  mw.apply_state_mj(minp, d, st)
  d.qpos[:] = minp.qpos0
  mujoco.mj_kinematics(minp, d)
  mujoco.mj_comPos(minp, d)
  mujoco.mj_camlight(minp, d)
  out = {}
  for pre, n, bid, tid, xp, xo in (("cam", minp.ncam, minp.cam_bodyid, minp.cam_targetbodyid, d.cam_xpos, d.cam_xmat), ("light", minp.nlight, minp.light_bodyid, minp.light_targetbodyid, d.light_xpos, d.light_xdir)):
    pos0 = np.array([xp[i] - d.xpos[bid[i]] for i in range(n)]).reshape(n, 3)
    com0 = np.array([xp[i] - d.subtree_com[tid[i] if tid[i] >= 0 else bid[i]] for i in range(n)]).reshape(n, 3)
    out[pre + "_pos0"] = pos0
    out[pre + "_poscom0"] = com0
    out[pre + ("_mat0" if pre == "cam" else "_dir0")] = np.array(xo).reshape(n, 9 if pre == "cam" else 3)
  return out


def stack_field(models, name):
  return np.stack([np.array(getattr(mm, name), dtype=np.float64) for mm in models])


def run_case(case):
  import mujoco_warp as mjw
  import warp as wp

  rec = core.Rec(case)
  b = build(case, rec)
  if b is None:
    return rec.result()
  xml, mjm, feats = b
  rng = np.random.default_rng(case["seed"])
  nworld = 3
  kinds = set()
  worlds = [change_world(mjm, rng, kinds) for _ in range(nworld)]
  names = [n for n in list(DERIVED) + CHANGED if getattr(mjm, n).size]
  names = list(dict.fromkeys(names))
  try:
    m = mw.put_model(mjm, batch_sizes={n: nworld for n in names})
  except (NotImplementedError, ValueError) as e:
    rec.rejected = f"put_model: {e}"[:200]
    rec.count("rejected_put_model")
    return rec.result()
  # write every world's changed values into the batched model
  for n in CHANGED:
    if not getattr(mjm, n).size:
      continue
    cur = getattr(m, n)
    arr = stack_field(worlds, n).astype(np.float32).reshape((nworld,) + tuple(mw.npy(cur).shape[1:]))
    setattr(m, n, wp.array(arr, dtype=cur.dtype))
  m.stat.meaninertia = wp.array(np.full(nworld, mjm.stat.meaninertia, dtype=np.float32), dtype=float)
  states = [gen.sample_state(mjm, rng) for _ in range(nworld)]
  d = mw.make_data(mjm, m, states)
  mjw.fwd_position(m, d)
  qpos_before = np.array(mw.npy(d.qpos))
  if case["entry"] == "all":
    mjw.set_const(m, d, restore=case["restore"])
  else:
    mjw.set_const_fixed(m, d)
    mjw.set_const_0(m, d, restore=case["restore"])
    mjw.set_const_spring(m, d, restore=case["restore"])
  got = {n: np.array(mw.npy(getattr(m, n)), dtype=np.float64) for n in DERIVED if getattr(mjm, n).size}
  got_mean = np.array(mw.npy(m.stat.meaninertia), dtype=np.float64)
  qpos_after = np.array(mw.npy(d.qpos))
  got_data = {n: np.array(mw.npy(getattr(d, n)), dtype=np.float64) for n in DATA_FIELDS}

  for w in range(nworld):
    ctx = f"world {w}"
    mref = copy.copy(worlds[w])  # mj_setConst works in place; worlds[w] keeps the inputs
    mjd = mujoco.MjData(mref)
    mw.apply_state_mj(mref, mjd, states[w])  # same mocap poses / qpos as the MJWarp Data of this world
    mujoco.mj_setConst(mref, mjd)
    singular = bool(mref.nv and np.abs(mref.dof_invweight0).max() > 1e8)
    camlight_pred = camlight_prediction(worlds[w], states[w])
    for n, allow in DERIVED.items():
      if n not in got:
        continue
      r = np.array(getattr(mref, n), dtype=np.float64)
      g = got[n]
      if g.shape[0] != nworld:
        rec.check()
        rec.viol(n + ":not-batched", f"{n}: leading dimension {g.shape[0]} although batch_sizes asked for {nworld}")
        continue
      g = g[w].reshape(-1)[: r.size] if n not in ("actuator_biasprm", "eq_data") else g[w].reshape(r.shape[0], -1)[:, : r.shape[1]].reshape(-1)
      sc = max(1.0, float(np.abs(r).max())) if r.size else 1.0
      if singular and DERIVED[n] > 1e-5:
        rec.inconcl(f"{n}: singular inertia at qpos0 (MuJoCo reports dof_invweight0 > 1e8)")
        rec.count("singular_inertia_fields")
        continue
      if n == "eq_data":
        # judged per equality so that the connect / weld mechanisms keep apart
        for e in range(mref.neq):
          tp = {0: "connect", 1: "weld"}.get(int(mref.eq_type[e]), "other")
          ge, re_ = g.reshape(mref.neq, -1)[e], r.reshape(mref.neq, -1)[e]
          if tp == "weld" and np.abs(ge[6:10] + re_[6:10]).max() < np.abs(ge[6:10] - re_[6:10]).max():
            ge = ge.copy()
            ge[6:10] = -ge[6:10]
          judge_el(rec, "eq_data_" + tp, ge, re_, allow, 0.0, scale=max(1.0, float(np.abs(re_).max())), sig="eq_data:" + tp, ctx=ctx + f" equality {e}")
        continue
      if n.startswith("cam_") or n.startswith("light_"):
        # MuJoCo derives these from the local camera/light frame at qpos0 whatever the tracking mode; judged per mode
        modes = np.asarray(mref.cam_mode if n.startswith("cam_") else mref.light_mode)
        k = r.size // max(1, modes.size)
        gm, rm = g.reshape(modes.size, k), r.reshape(modes.size, k)
        fixed = modes == 0
        # the classified mechanism: value == what mj_camlight's (mode dependent) pose at qpos0 gives with the old *_pos0
        if modes.size == 0:
          continue
        pm = camlight_pred[n].reshape(modes.size, k)
        cls = (~fixed) & (np.abs(gm - pm).max(axis=1) <= cmp.VIOL_FACTOR * allow * sc) & (np.abs(rm - pm).max(axis=1) > cmp.VIOL_FACTOR * allow * sc)
        if (~cls).any():
          judge_el(rec, n, gm[~cls], rm[~cls], allow, 0.0, scale=sc, sig=n, ctx=ctx)
          rec.cover("camlight_fixed_mode_compared", int(fixed.sum()))
          rec.cover("camlight_tracking_mode_compared", int((~fixed & ~cls).sum()))
        if cls.any():
          judge_el(rec, n + "_tracking_mode", gm[cls], rm[cls], allow, 0.0, scale=sc, sig=n + ":tracking-or-target-mode-uses-camlight-pose", ctx=ctx)
          rec.cover("camlight_tracking_mode_follows_camlight", int(cls.sum()))
        continue
      if n == "body_invweight0":
        gm, rm = g.reshape(-1, 2), r.reshape(-1, 2)
        fb = ((np.abs(rm[:, 0]) < 1e-12) != (np.abs(rm[:, 1]) < 1e-12))  # exactly one component is zero in MuJoCo
        # ... and MJWarp reports the non-zero component in both slots
        fb &= np.abs(gm[:, 0] - gm[:, 1]) <= 1e-6 * np.maximum(1.0, np.abs(gm).max(axis=1))
        if fb.any():
          judge_el(rec, n + "_one_zero_component", gm[fb], rm[fb], allow, 0.0, scale=sc, sig=n + ":zero-component-replaced-by-the-other", ctx=ctx)
          rec.cover("body_invweight0_one_zero_component", int(fb.sum()))
        if (~fb).any():
          judge_el(rec, n, gm[~fb], rm[~fb], allow, 0.0, scale=sc, sig=n, ctx=ctx)
        continue
      if n == "actuator_biasprm":
        gm, rm = g.reshape(mref.nu, -1), r.reshape(mref.nu, -1)
        dr = np.asarray(worlds[w].actuator_biasprm[:, 2] > 0) & (np.asarray(worlds[w].actuator_biastype) == 1) & (np.asarray(worlds[w].actuator_gainprm[:, 0]) == -np.asarray(worlds[w].actuator_biasprm[:, 1]))
        rec.cover("dampratio_resolved", int(dr.sum()))
        # classified mechanism: the resolved damping comes out (much) larger in magnitude than MuJoCo's
        dr &= np.abs(gm[:, 2]) > np.abs(rm[:, 2])
        if dr.any():
          judge_el(rec, n + "_dampratio", gm[dr], rm[dr], allow, 0.0, scale=np.maximum(1.0, np.abs(rm[dr])), sig=n + ":dampratio", ctx=ctx)
        if (~dr).any():
          judge_el(rec, n, gm[~dr], rm[~dr], allow, 0.0, scale=np.maximum(1.0, np.abs(rm[~dr])), sig=n, ctx=ctx)
        continue
      judge_el(rec, n, g, r.reshape(-1), allow, 0.0, scale=sc, sig=n, ctx=ctx)
    judge_el(rec, "stat.meaninertia", [got_mean[w if got_mean.size == nworld else 0]], [mref.stat.meaninertia], 1e-5, 0.0, sig="stat.meaninertia", ctx=ctx)
    # Data state
    rec.check()
    if not np.array_equal(qpos_before[w], qpos_after[w]):
      rec.viol("data:qpos-not-restored", f"d.qpos changed by set_const {ctx}")
    if case["restore"]:
      st = dict(states[w])
      mw.apply_state_mj(mref, mjd, st)
      mujoco.mj_fwdPosition(mref, mjd)
      for n in DATA_FIELDS:
        r = np.array(getattr(mjd, n), dtype=np.float64)
        g = got_data[n][w].reshape(-1)[: r.size]
        if n == "xquat":
          gq, rq = g.reshape(-1, 4), r.reshape(-1, 4)
          flip = np.abs(gq + rq).max(axis=1) < np.abs(gq - rq).max(axis=1)
          gq[flip] *= -1
          g = gq.reshape(-1)
        judge_el(rec, "restored:" + n, g, r.reshape(-1), 1e-5, 0.0, scale=max(1.0, float(np.abs(r).max())) if r.size else 1.0, sig="data:restore:" + n, ctx=ctx)
      rec.cover("restore_checked_worlds", 1)
  for k in kinds:
    rec.cover("change_kinds", k)
  for ft in feats:
    rec.cover("features", ft)
  rec.cover("entry:" + case["entry"], 1)
  rec.cover("restore:" + str(case["restore"]), 1)
  rec.cover("sparse" if m.is_sparse else "dense", 1)
  for n in got:
    rec.cover("derived_fields_compared", n)
  if mjm.ncam:
    for md in set(int(x) for x in mjm.cam_mode):
      rec.cover("cam_modes", str(md))
  if len(kinds) >= 2 and mjm.nv >= 2:
    rec.nontrivial(xml, sorted(kinds), *[w_.qpos0 for w_ in worlds], *[w_.body_mass for w_ in worlds])
  rec.sample = {"model": case.get("path", f"generated seed {case['seed']}"), "nv": mjm.nv, "nbody": mjm.nbody, "ntendon": mjm.ntendon, "nu": mjm.nu, "neq": mjm.neq, "ncam": mjm.ncam, "changes": sorted(kinds), "entry": case["entry"], "restore": case["restore"]}
  return rec.result()


def requirements(agg, tier):
  unmet = []
  cov = agg["cover"]
  for k in ("mass+inertia", "body_ipos", "body_iquat", "body_pos", "body_quat", "qpos0:scalar", "qpos0:ball", "qpos_spring:scalar", "dof_armature", "kp", "dampratio", "connect_unset", "weld_unset", "tendon_lengthspring_unset"):
    if k not in cov.get("change_kinds", []):
      unmet.append(f"change kind never applied: {k}")
  for n in DERIVED:
    if n not in cov.get("derived_fields_compared", []):
      unmet.append(f"derived field never compared: {n}")
  for k, n in (("entry:all", 10), ("entry:parts", 10), ("restore:True", 10), ("restore:False", 10), ("restore_checked_worlds", 30), ("dense", 5), ("sparse", 5)):
    if cov.get(k, 0) < n:
      unmet.append(f"coverage {k}={cov.get(k, 0)} < {n}")
  if agg["distinct"] < 50:
    unmet.append("fewer than 50 distinct non-trivial cases")
  return unmet
