"""C21 Inertia factorization solves the inertia system.

Invariant monitor with float64 linear algebra on MJWarp's own matrices (backward error, immune to conditioning):
  * the inertia matrix rebuilt dense from d.M (CSR lower triangle) is positive definite (symmetry is structural),
  * mjw.factor_m + mjw.solve_m, and smooth.factor_solve_i on M and on M + random diagonal, return x with
    ||A x - b||_inf / (||A||_inf ||x||_inf + ||b||_inf) <= C * eps32 for random right-hand sides,
  * mjw.mul_m equals the dense product,
  * every factor/solve call issued by the real pipeline (fwd_acceleration, euler with implicit damping, implicitfast,
    implicit/LU) is intercepted (wrappers on smooth.factor_solve_i / factor_solve_lu / solve_m) and its solution is checked
    by the same residual against the very matrix and right-hand side the call received.
Models are forests whose per-tree dof counts hit every block layout and its boundaries: compact (diagonal) blocks, scalar
Cholesky (<=6, triangular), tiled dense Cholesky (<=64, incl. small branched trees), sparse LDL (>64), mixed in one model.
Every residual is judged for the whole system AND for each tree's diagonal block on its own: the trees are decoupled systems
that are factored independently, and the whole-system norm is dominated by the largest tree (a 1-dof block solved as y/M^2
next to a 90-dof chain has a whole-system backward error inside the grey zone).
A second case family ("mix") puts ALL layouts into one model: one or two sparse trees (> 64 dofs, random recursive trees /
stars with armature, optionally free-rooted) + 1-3 compact diagonal blocks of 1..6 dofs (centred free bodies, axis-aligned
slides / hinge / ball on a centred body, single-dof trees) + tiled trees (sometimes two of one size) + scalar triangular
trees (sometimes of the same size as a compact block), with the sparse trees first / last / in the middle of the dof order,
stepped with Euler, implicitfast, implicit and RK4, either by step() (fused factor_solve_i) or by step1()+step2() (factor_m,
then solve_m on the stored factor), and in a quarter of the cases with a joint equality and the CG solver (solve_m on every
gradient update).
In 3 of 5 cases of both families the Model copy gets per-world (batched) dof_armature, body_mass and body_inertia (leading
size nworld or 2, each field on its own), so every world has its own M, also on the configuration-independent compact blocks,
and its own factor; every world's solution is judged against its own M (whole system and per block) on all the paths above.
"""

import mujoco
import numpy as np

from mon import core, mw

ID = "C21"
LEVEL = "exploration"
RULE = (
  "case=(seed, tree specs): forest of 1-4 trees, each a chain / branched star / free-body+chain / ball-chain / centred free "
  "sphere (diagonal block) with dof counts drawn from {1,2,3,5,6,7,8,16,31,32,33,63,64,65,90}, random link geometry, "
  "armature, damping and a velocity actuator; 3 worlds with different random qpos/qvel; 2 random right-hand sides per "
  "solve. Family 'mix' (case=(seed, order, nbig, integrator)): 1-2 sparse trees (65..130 dofs, branched, armature) + 1-3 "
  "compact diagonal blocks (1..6 dofs) + 0-3 tiled trees + 0-3 scalar trees in one model, sparse trees first/last/middle, "
  "integrators Euler/implicitfast/implicit/RK4. 3 of 5 cases of both families: per-world (batched) dof_armature, body_mass, "
  "body_inertia on the Model (leading size nworld or 2), world w judged against its own M. Non-trivial: nv>=2 and all direct oracles evaluated; distinct by hash(xml, states)."
)
ASSUMPTIONS = [
  "float64 numpy linear algebra on the float32 matrices MJWarp itself stores (d.M CSR, the matrices passed to the "
  "factor/solve routines) is the oracle: no reference engine, no conditioning dependence",
  "backward-error bound C*eps32 with C=24 (Cholesky/LDL backward error grows at most like n*eps; measured clean maximum is "
  "reported in worst_err_over_bound)",
  "positive definiteness is judged on the float64 eigenvalues of the float32 matrix: lambda_min > 0",
  "M (and the implicit system matrices) couple a dof only with dofs of its own kinematic tree, so each tree's diagonal block is "
  "an independent linear system; the per-block residual is judged only after verifying on the very matrix that the block has no "
  "entry outside itself",
  "the implicit-integration system matrices are the ones MJWarp builds (their correctness is C27's subject); here only "
  "'the returned x solves the system that was passed' is decided",
]
BUDGET = {"quick": 300, "thorough": 1500}

EPS32 = float(np.finfo(np.float32).eps)
C_BACK = 24.0
SIZES_QUICK = (1, 2, 3, 5, 6, 7, 8, 31, 32, 33, 63, 64, 65, 90)
SIZES_THOROUGH = (1, 2, 3, 4, 5, 6, 7, 8, 12, 16, 24, 31, 32, 33, 48, 63, 64, 65, 72, 90, 130)
M_DENSE_MAX = 64  # trees above this many dofs use the sparse LDL layout (types.M_BLOCK_DENSE_MAX; layout_classes() reads the real one)
RTREE_DEPTH = 9  # dof depth of the generated sparse random trees
MIX_NV = {1: (96, 128), 2: (160, 192)}  # total nv of a 'mix' model by number of sparse trees (kernels specialise on nv)


def _f(x):
  return " ".join(f"{float(v):.5g}" for v in np.atleast_1d(x))


def tree_xml(rng, kind, n, tid):
  """XML of one tree with exactly n dofs. Returns (xml, joint names)."""
  names = []

  def joint(k, typ=None, axis=None, arm_always=False):
    typ = typ or ("hinge", "hinge", "slide")[int(rng.integers(3))]
    nm = f"t{tid}_j{k}"
    if typ != "ball":
      names.append(nm)  # scalar joints only: targets of actuators / joint equalities
    if axis is None:
      ax = rng.normal(size=3)
      ax /= np.linalg.norm(ax)
    else:
      ax = np.asarray(axis, dtype=float)
    arm = f' armature="{rng.uniform(0.001, 0.2):.4g}"' if (arm_always or rng.random() < 0.5) else ""
    dmp = f' damping="{rng.uniform(0.05, 2):.4g}"' if rng.random() < 0.5 else ""
    axs = "" if typ == "ball" else f' axis="{_f(ax)}"'
    return f'<joint name="{nm}" type="{typ}"{axs}{arm}{dmp}/>'

  def centred_geom():
    # inertial frame = body frame (no offset, no rotation): MuJoCo marks such a root body "simple" and M gets a diagonal block
    dens = f'density="{rng.uniform(150, 4000):.4g}"'
    t = ("sphere", "box", "ellipsoid")[int(rng.integers(3))]
    if t == "sphere":
      return f'<geom type="sphere" size="{rng.uniform(0.05, 0.25):.3g}" {dens} contype="0" conaffinity="0"/>'
    return f'<geom type="{t}" size="{_f(rng.uniform(0.04, 0.3, size=3))}" {dens} contype="0" conaffinity="0"/>'

  def geom():
    t = ("capsule", "box", "ellipsoid")[int(rng.integers(3))]
    if t == "capsule":
      return f'<geom type="capsule" size="{rng.uniform(0.02, 0.05):.3g}" fromto="0 0 0 {_f(rng.normal(size=3) * 0.1 + [0.12, 0, 0])}" contype="0" conaffinity="0"/>'
    return f'<geom type="{t}" size="{_f(rng.uniform(0.03, 0.1, size=3))}" pos="{_f(rng.normal(size=3) * 0.05)}" contype="0" conaffinity="0"/>'

  base = f'pos="{_f([rng.normal() * 2, tid * 3.0, 1.5])}"'
  if kind == "diag":  # centred aligned body on a free joint: diagonal M block ("compact" layout), n must be 6
    q = rng.normal(size=4)
    return f'<body {base} quat="{_f(q / np.linalg.norm(q))}"><freejoint name="t{tid}_free"/>{centred_geom()}</body>', names
  if kind == "cjoint":
    # decoupled dofs on one centred root body (axis-aligned slides, one aligned hinge or a ball): diagonal block of n = 1..6 dofs
    eye = np.eye(3)[rng.permutation(3)]
    recipe = {
      1: (("s",), ("h",)),
      2: (("s", "s"), ("s", "h")),
      3: (("s", "s", "s"), ("b",)),
      4: (("s", "s", "s", "h"), ("s", "b")),
      5: (("s", "s", "b"),),
      6: (("s", "s", "s", "b"),),
    }[n]
    recipe = recipe[int(rng.integers(len(recipe)))]
    q = rng.normal(size=4)
    out = [f'<body {base} quat="{_f(q / np.linalg.norm(q))}">']
    ns = 0
    for k, c in enumerate(recipe):
      if c == "s":
        out.append(joint(k, "slide", axis=eye[ns]))
        ns += 1
      elif c == "h":
        out.append(joint(k, "hinge", axis=eye[int(rng.integers(3))]))
      else:
        out.append(joint(k, "ball"))
    out += [centred_geom(), "</body>"]
    return "".join(out), names
  if kind in ("rtree", "frtree"):
    # random recursive tree (every new link hangs off a random earlier link): branched, shallow, armature on every joint,
    # so that blocks of > 64 dofs stay well conditioned in float32; "frtree" has a free joint at the root
    # Trees of > 64 dofs get a dof depth of exactly RTREE_DEPTH (a spine first, then random parents that keep the depth):
    # the sparse solve kernel is specialised on (nv, number of depth levels), a fixed depth keeps the set of compiled kernels small.
    nodes = []  # (parent index, [joint xml], geom xml)
    depth = []  # dofs on the path root..this link
    cap = RTREE_DEPTH if n > M_DENSE_MAX else n
    left = n
    k = 0
    if kind == "frtree":
      nodes.append((-1, [f'<freejoint name="t{tid}_free"/>'], geom()))
      depth.append(6)
      left -= 6
    while left > 0:
      nj = int(min(left, 1 + (rng.random() < 0.2)))
      if not nodes:
        par = -1
      elif n > M_DENSE_MAX and max(depth) < cap:
        par = int(np.argmax(depth))  # spine
      else:
        ok = [i for i, dd in enumerate(depth) if dd < cap]
        par = ok[int(rng.integers(len(ok)))]
      nj = int(min(nj, cap - (depth[par] if par >= 0 else 0)))
      nodes.append((par, [joint(k + i, arm_always=True) for i in range(nj)], geom()))
      depth.append((depth[par] if par >= 0 else 0) + nj)
      k += nj
      left -= nj
    kids = {}
    for i, (par, _, _) in enumerate(nodes):
      kids.setdefault(par, []).append(i)
    out = []
    stack = [(kids[-1][0], False)]  # exactly one root (node 0)
    while stack:
      i, done = stack.pop()
      if done:
        out.append("</body>")
        continue
      pos = base if i == 0 else f'pos="{_f(rng.normal(size=3) * 0.08 + [0.1, 0, 0])}"'
      out += [f"<body {pos}>"] + nodes[i][1] + [nodes[i][2]]
      stack.append((i, True))
      for c in reversed(kids.get(i, [])):
        stack.append((c, False))
    return "".join(out), names
  if kind == "star":  # root joint + (n-1) single-joint children of the root: branched block, not triangular
    out = [f"<body {base}>", joint(0), geom()]
    for k in range(1, n):
      out += [f'<body pos="{_f(rng.normal(size=3) * 0.3)}">', joint(k), geom(), "</body>"]
    out.append("</body>")
    return "".join(out), names
  out = []
  closing = 0
  left = n
  if kind == "free":
    out += [f'<body {base}><freejoint name="t{tid}_free"/>', geom()]
    left -= 6
    closing += 1
  elif kind == "ball":
    out += [f'<body {base}><joint name="t{tid}_ball" type="ball"/>', geom()]
    left -= 3
    closing += 1
  first = closing == 0
  k = 0
  while left > 0:
    pos = base if first else f'pos="{_f(rng.normal(size=3) * 0.05 + [0.12, 0, 0])}"'
    first = False
    nj = int(min(left, 1 + (rng.random() < 0.25)))
    if kind == "ball" and left >= 3 and rng.random() < 0.3:
      out += [f"<body {pos}>", f'<joint name="t{tid}_b{k}" type="ball"/>', geom()]
      left -= 3
    else:
      out += [f"<body {pos}>"] + [joint(k + i) for i in range(nj)] + [geom()]
      left -= nj
    k += 2
    closing += 1
  out += ["</body>"] * closing
  return "".join(out), names


def build_xml(rng, specs, integrator, timestep, cg=False):
  bodies = []
  acts = []
  eqs = []
  for tid, (kind, n) in enumerate(specs):
    x, names = tree_xml(rng, kind, n, tid)
    bodies.append(x)
    if cg and len(names) > 1 and len(eqs) < 2 and rng.random() < 0.6:
      # a soft joint coupling inside one tree: gives the CG solver (which calls solve_m on every gradient update) something to do
      a, b = (names[int(i)] for i in rng.choice(len(names), size=2, replace=False))
      eqs.append(f'<joint joint1="{a}" joint2="{b}" polycoef="0 {rng.uniform(0.5, 1.5):.3g} 0 0 0" solref="0.05 1"/>')
    if names and rng.random() < 0.7:
      nm = names[int(rng.integers(len(names)))]
      acts.append(f'<velocity joint="{nm}" kv="{rng.uniform(0.5, 5):.3g}"/>')
      if rng.random() < 0.5 and len(names) > 1:
        acts.append(f'<general joint="{names[int(rng.integers(len(names)))]}" gaintype="affine" gainprm="2 0 -0.5" biastype="affine" biasprm="0 -1 -0.3"/>')
  act = f"<actuator>{''.join(acts)}</actuator>" if acts else ""
  eq = f"<equality>{''.join(eqs)}</equality>" if eqs else ""
  sol = ' solver="CG" iterations="3" tolerance="0"' if cg else ""
  return f'<mujoco><option timestep="{timestep}" integrator="{integrator}"{sol}><flag contact="disable"/></option><worldbody>{"".join(bodies)}</worldbody>{eq}{act}</mujoco>'


def draw_specs(rng, sizes, force=None):
  specs = []
  ntree = int(rng.integers(1, 5))
  for t in range(ntree):
    n = int(force) if (force and t == 0) else int(sizes[int(rng.integers(len(sizes)))])
    if t > 0 and n > 33 and rng.random() < 0.6:
      n = int(sizes[int(rng.integers(min(8, len(sizes))))])  # keep total nv moderate
    r = rng.random()
    if n == 6 and r < 0.35:
      kind = "diag"
    elif n >= 6 and r < 0.55:
      kind = "free"
    elif n >= 3 and r < 0.7:
      kind = "ball"
    elif n >= 3 and r < 0.85:
      kind = "star"
    else:
      kind = "chain"
    specs.append((kind, n))
  return specs


MIX_INTEGRATORS = ("Euler", "implicitfast", "implicit", "RK4")


def draw_mix_specs(rng, order, nbig=1):
  """One model that holds EVERY block layout at once: >=1 sparse tree (> 64 dofs, branched + armature), >=1 compact diagonal
  block, and usually tiled and scalar-triangular trees; `order` fixes where the sparse tree(s) sit among the others
  (0 first, 1 last, 2 in the middle; with two sparse trees and order 2 a compact block lies between them)."""
  big = []
  small = []
  for _ in range(int(rng.integers(1, 4))):  # compact diagonal blocks
    r = rng.random()
    if r < 0.35:
      small.append(("diag", 6))
    elif r < 0.6:
      small.append(("chain", 1))  # single-dof tree: any joint, any geometry
    else:
      small.append(("cjoint", int(rng.integers(1, 7))))
  for _ in range(int(rng.integers(0, 3))):  # tiled trees (7..64 dofs), sometimes twice the same size (several blocks per tile set)
    n = int((7, 8, 12, 16, 31, 33)[int(rng.integers(6))])
    small.append((("chain", "rtree", "free", "ball")[int(rng.integers(4))], n))
    if rng.random() < 0.25:
      small.append((("chain", "rtree")[int(rng.integers(2))], n))
  for _ in range(int(rng.integers(0, 3))):  # scalar trees (<= 6 dofs): triangular, or branched (goes to the tile path)
    n = int(rng.integers(2, 7))
    kinds = ["chain"] + (["ball", "star"] if n >= 3 else []) + (["free"] if n == 6 else [])
    small.append((kinds[int(rng.integers(len(kinds)))], n))
  if rng.random() < 0.3:  # a compact and a triangular block of the SAME size share one scalar tile set (the kernel branches per block)
    n = int(rng.integers(2, 7))
    small.append(("diag", 6) if (n == 6 and rng.random() < 0.5) else ("cjoint", n))
    small.append(("free", 6) if (n == 6 and rng.random() < 0.5) else ("chain", n))
  # total nv is one of a few fixed values (the sparse solve, LU and constraint-solver kernels are compiled per nv): the first
  # sparse tree takes whatever is left, so its size sweeps 65..~97 (a second one has 65 dofs)
  targets = MIX_NV[nbig]
  fixed = 65 * (nbig - 1)
  while len(small) > 1 and sum(n for _, n in small) + fixed + 65 > targets[-1]:
    small.pop(int(np.argmax([n for _, n in small])))  # never pops the last compact block: tiled trees are larger
  nsmall = sum(n for _, n in small)
  total = [t for t in targets if t - fixed - nsmall >= 65][0]
  for b in range(nbig):
    n = total - fixed - nsmall if b == 0 else 65
    big.append((("rtree", "rtree", "frtree", "star")[int(rng.integers(4))], int(n)))
  small = [small[i] for i in rng.permutation(len(small))]
  if order == 0:
    specs = big + small
  elif order == 1:
    specs = small + big
  else:
    cut = int(rng.integers(1, len(small))) if len(small) > 1 else int(rng.integers(2))
    if len(big) > 1:
      cut = min(cut, len(small) - 1)
      ci = [i for i, (k, n) in enumerate(small) if k in ("diag", "cjoint") or n == 1][0]
      small[cut], small[ci] = small[ci], small[cut]
    specs = small[:cut] + big[:1] + small[cut:] + big[1:]
  return specs


def cases(tier, seed):
  sizes = SIZES_QUICK if tier == "quick" else SIZES_THOROUGH
  n = 56 if tier == "quick" else 700
  out = []
  for i in range(n):
    force = sizes[i % len(sizes)]
    out.append({"id": f"f{seed}_{i}", "seed": seed * 100000 + i, "force": int(force), "integrator": ("Euler", "implicitfast", "implicit")[i % 3], "split": i % 4 == 3, "batch": i % 5 < 3, "tier": tier, "weight": 1 + force // 30})
  nmix = 36 if tier == "quick" else 300
  mix = []
  for i in range(nmix):
    # (order, integrator) walks all 12 combinations
    nbig = 2 if i % 12 in (2, 3, 10) else 1  # two sparse trees: once per order in every 12 cases
    mix.append({"id": f"x{seed}_{i}", "seed": seed * 100000 + 50000 + i, "family": "mix", "order": i % 3, "nbig": nbig, "integrator": MIX_INTEGRATORS[(i // 3) % 4], "split": (i + i // 12) % 2 == 1, "cg": i % 4 == 1, "batch": i % 5 < 3, "tier": tier, "weight": 3 + 2 * nbig})
  # interleave so that a budget cut-off drops both families evenly
  res = []
  step = max(1, len(out) // max(1, len(mix)))
  mi = 0
  for i, c in enumerate(out):
    if i % step == 0 and mi < len(mix):
      res.append(mix[mi])
      mi += 1
    res.append(c)
  return res + mix[mi:]


def layout_classes(mjm):
  """Per-tree layout class names following io.m_block_layout (recomputed independently from the MuJoCo model)."""
  from mujoco_warp._src import types

  out = []
  for adr, num in zip(mjm.tree_dofadr, mjm.tree_dofnum):
    if num <= 0:
      continue
    last = adr + num - 1
    nnz = int(mjm.M_rowadr[last] + mjm.M_rownnz[last] - mjm.M_rowadr[adr])
    compact = nnz == num
    tri = nnz == num * (num + 1) // 2
    if num <= types.M_BLOCK_SCALAR_MAX and (compact or tri):
      out.append(("compact" if compact else "scalar", int(num)))
    elif num <= types.M_BLOCK_DENSE_MAX:
      out.append(("tile" if tri else "tile_branched", int(num)))
    else:
      out.append(("sparse", int(num)))
  return out


def dense_D(mjm, vals):
  A = np.zeros((mjm.nv, mjm.nv))
  mujoco.mju_sparse2dense(A, np.asarray(vals, dtype=np.float64)[: mjm.nD], mjm.D_rownnz, mjm.D_rowadr, mjm.D_colind)
  return A


def backward_error(A, x, b):
  x = np.asarray(x, dtype=np.float64)
  b = np.asarray(b, dtype=np.float64)
  if not (np.all(np.isfinite(x)) and np.all(np.isfinite(A)) and np.all(np.isfinite(b))):
    return float("inf")
  r = np.abs(A @ x - b).max()
  den = np.abs(A).sum(axis=1).max() * np.abs(x).max() + np.abs(b).max()
  return float(r / den) if den > 0 else 0.0


def tree_blocks(mjm):
  """[(dofadr, dofnum, layout class)] of the diagonal blocks of M (one per kinematic tree)."""
  cls = layout_classes(mjm)
  adr = [(int(a), int(n)) for a, n in zip(mjm.tree_dofadr, mjm.tree_dofnum) if n > 0]
  return [(a, n, c) for (a, n), (c, _) in zip(adr, cls)]


def judge_solve(rec, name, A, x, b, ctx, data=None, blocks=None):
  """Backward error of the whole system and, because the trees are decoupled systems that are factored independently, of
  every diagonal block on its own (the whole-system norm is dominated by the largest tree and hides a wrong small block)."""
  rec.check()
  be = backward_error(A, x, b)
  ratio = be / (C_BACK * EPS32)
  rec.worst(name, ratio)
  ok = True
  if ratio > 30:
    rec.viol(name, f"{name}: backward error ||Ax-b||/(||A||||x||+||b||) = {be:.3g} > 30 x {C_BACK:g} eps32 {ctx}", n=A.shape[0], x=np.asarray(x)[:6], **(data or {}))
    ok = False
  elif ratio > 1:
    rec.inconcl(f"{name}: backward error in grey zone")
  if not blocks or len(blocks) < 2:
    return ok
  x = np.asarray(x, dtype=np.float64)
  b = np.asarray(b, dtype=np.float64)
  for adr, num, cls in blocks:
    s = slice(adr, adr + num)
    off = A[s].copy()
    off[:, s] = 0
    if np.any(off != 0):  # not a decoupled block of this matrix: only the whole-system residual applies
      rec.count("block_coupled_to_other_dofs")
      continue
    rec.check()
    bek = backward_error(A[s, s], x[s], b[s])
    rk = bek / (C_BACK * EPS32)
    nm = f"{name}:block[{cls}]"
    rec.worst(nm, rk)
    rec.cover("block_residuals:" + cls, 1)
    if rk > 30:
      rec.viol(nm, f"{nm}: dofs {adr}..{adr + num - 1} form a decoupled {cls} block but its own backward error is {bek:.3g} > 30 x {C_BACK:g} eps32 "
               f"(whole-system backward error {be:.3g}) {ctx}", n=num, dofadr=adr, x=x[s][:6], b=b[s][:6], diagA=np.diag(A[s, s])[:6], **(data or {}))
      ok = False
    elif rk > 1:
      rec.inconcl(f"{nm}: backward error in grey zone")
  return ok


def batch_inertia_fields(m, mjm, seed, nworld):
  """Per-world (batched) inertia parameters on the Model copy: dof_armature, body_mass, body_inertia (and the derived
  body_subtreemass) get a leading dimension > 1, so that every world has its own M, also on the configuration-independent
  compact diagonal blocks, and therefore its own factorisation. All values stay positive (M stays SPD). Own random stream:
  the draws of the un-batched case families do not move. Returns {field: leading size}."""
  import warp as wp

  rb = np.random.default_rng([int(seed), 2121])
  lead = {f: (nworld if rb.random() < 0.75 else 2) for f in ("dof_armature", "body_mass", "body_inertia")}
  arm = np.stack([np.asarray(mjm.dof_armature, dtype=np.float64)] * lead["dof_armature"])
  arm = arm * rb.uniform(0.3, 3.0, size=arm.shape) + rb.uniform(0.0, 0.3, size=arm.shape) * (rb.random(size=arm.shape) < 0.6)
  mass = np.stack([np.asarray(mjm.body_mass, dtype=np.float64)] * lead["body_mass"])
  mass = mass * rb.uniform(0.3, 3.0, size=mass.shape)
  inert = np.stack([np.asarray(mjm.body_inertia, dtype=np.float64)] * lead["body_inertia"])
  inert = inert * rb.uniform(0.3, 3.0, size=inert.shape[:2])[:, :, None]  # one factor per body: triangle inequality kept
  if nworld > 1:  # world 1 never repeats world 0 (every leading size is >= 2)
    arm[1] += 0.05 + 0.5 * arm[0]
    mass[1] *= 1.7
    inert[1] *= 1.7
  sub = np.stack([mass[w % mass.shape[0]] for w in range(nworld)])
  for w in range(nworld):
    for b in range(mjm.nbody - 1, 0, -1):
      sub[w, mjm.body_parentid[b]] += sub[w, b]
  m.dof_armature = wp.array(arm.astype(np.float32), dtype=float)
  m.body_mass = wp.array(mass.astype(np.float32), dtype=float)
  m.body_inertia = wp.array(inert.astype(np.float32), dtype=wp.vec3)
  m.body_subtreemass = wp.array(sub.astype(np.float32), dtype=float)
  return lead


class Hooks:
  """Wraps the factor/solve entry points of mujoco_warp._src.smooth so that calls made by the real pipeline are observed."""

  def __init__(self):
    from mujoco_warp._src import smooth

    self.smooth = smooth
    self.calls = []
    self.orig = {}

  def __enter__(self):
    sm = self.smooth
    for nm in ("factor_solve_i", "factor_solve_lu", "solve_m"):
      self.orig[nm] = getattr(sm, nm)
    calls = self.calls
    orig = self.orig

    def factor_solve_i(m, d, M, L, D, x, y):
      A = np.array(M.numpy())
      yy = np.array(y.numpy())
      orig["factor_solve_i"](m, d, M, L, D, x, y)
      calls.append(("factor_solve_i", A, yy, np.array(x.numpy()), M is d.M))

    def factor_solve_lu(m, d, qLU, qacc, qfrc):
      A = np.array(qLU.numpy())
      yy = np.array(qfrc.numpy())
      orig["factor_solve_lu"](m, d, qLU, qacc, qfrc)
      calls.append(("factor_solve_lu", A, yy, np.array(qacc.numpy()), False))

    def solve_m(m, d, x, y):
      A = np.array(d.M.numpy())
      yy = np.array(y.numpy())
      orig["solve_m"](m, d, x, y)
      calls.append(("solve_m", A, yy, np.array(x.numpy()), True))

    sm.factor_solve_i, sm.factor_solve_lu, sm.solve_m = factor_solve_i, factor_solve_lu, solve_m
    return self

  def __exit__(self, *a):
    for nm, f in self.orig.items():
      setattr(self.smooth, nm, f)


def run_case(case):
  import warp as wp

  import mujoco_warp as mjw
  from mujoco_warp._src import smooth

  rec = core.Rec(case)
  rng = np.random.default_rng(case["seed"])
  sizes = SIZES_QUICK if case.get("tier", "quick") == "quick" else SIZES_THOROUGH
  mix = case.get("family") == "mix"
  if mix:
    specs = draw_mix_specs(rng, case["order"], case.get("nbig", 1))
  else:
    specs = draw_specs(rng, sizes, case["force"])
  xml = build_xml(rng, specs, case["integrator"], 0.00390625, cg=bool(case.get("cg")))
  try:
    mjm = mujoco.MjModel.from_xml_string(xml)
  except Exception as e:
    rec.rejected = f"mujoco compile: {e}"[:200]
    return rec.result()
  try:
    m = mw.put_model(mjm)
  except (NotImplementedError, ValueError) as e:
    rec.rejected = f"put_model: {e}"[:200]
    return rec.result()
  nv = mjm.nv
  nworld = 3
  lead = batch_inertia_fields(m, mjm, case["seed"], nworld) if case.get("batch") else None
  states = []
  for w in range(nworld):
    qpos = np.array(mjm.qpos0, dtype=np.float64)
    for j in range(mjm.njnt):
      a = mjm.jnt_qposadr[j]
      t = mjm.jnt_type[j]
      if t == mujoco.mjtJoint.mjJNT_FREE:
        q = rng.normal(size=4)
        qpos[a + 3 : a + 7] = q / np.linalg.norm(q)
      elif t == mujoco.mjtJoint.mjJNT_BALL:
        q = rng.normal(size=4)
        qpos[a : a + 4] = q / np.linalg.norm(q)
      else:
        qpos[a] += rng.normal() * (1.0 if t == mujoco.mjtJoint.mjJNT_HINGE else 0.2)
    states.append({"qpos": qpos.astype(np.float32), "qvel": (rng.normal(size=nv) * 0.5).astype(np.float32), "ctrl": rng.normal(size=mjm.nu).astype(np.float32)})
  d = mw.make_data(mjm, m, states, njmax=16, nconmax=1)
  lay = layout_classes(mjm)
  blocks = tree_blocks(mjm)
  # cross-check the layout MJWarp chose against the independent classification
  adr = np.array(m.qLD_block_adr.numpy() if hasattr(m.qLD_block_adr, "numpy") else m.qLD_block_adr)
  for (cls, num), ta in zip(lay, [a for a, n_ in zip(mjm.tree_dofadr, mjm.tree_dofnum) if n_ > 0]):
    got = "compact" if adr[ta] == -2 else ("sparse" if adr[ta] == -1 else "dense")
    want = {"compact": "compact", "sparse": "sparse"}.get(cls, "dense")
    rec.check()
    if got != want:
      rec.viol("block_layout", f"tree of {num} dofs classified {cls} but qLD_block_adr says {got}")

  # ---- direct API: M, factor_m, solve_m, factor_solve_i, mul_m
  mjw.kinematics(m, d)
  mjw.com_pos(m, d)
  mjw.crb(m, d)
  smooth.tendon_armature(m, d)
  mjw.factor_m(m, d)
  Mcsr = np.array(mw.npy(d.M))
  B = rng.normal(size=(2, nworld, nv)).astype(np.float32) * np.float32(10.0)
  B[1] *= (rng.random(size=(nworld, nv)) < 0.3)  # sparse right-hand side
  xs = []
  for r in range(2):
    x = wp.zeros((nworld, nv), dtype=float)
    mjw.solve_m(m, d, x, wp.array(B[r], dtype=float))
    xs.append(np.array(x.numpy()))
  # factor_solve_i on M and on M + random positive diagonal, scratch factors
  Mmod = Mcsr.copy()
  diag_adr = np.asarray(mjm.M_rowadr) + np.asarray(mjm.M_rownnz) - 1
  Mmod[:, diag_adr] += rng.uniform(0, 0.5, size=(nworld, nv)).astype(np.float32)
  fs = []
  for A_csr in (Mcsr, Mmod):
    Aw = wp.array(A_csr, dtype=float)
    L = wp.empty_like(d.qLD)
    D = wp.empty((nworld, nv), dtype=float)
    x = wp.zeros((nworld, nv), dtype=float)
    smooth.factor_solve_i(m, d, Aw, L, D, x, wp.array(B[0], dtype=float))
    fs.append((np.array(Aw.numpy()), np.array(x.numpy())))
  v = rng.normal(size=(nworld, nv)).astype(np.float32)
  res = wp.zeros((nworld, nv), dtype=float)
  mjw.mul_m(m, d, res, wp.array(v, dtype=float))
  res = np.array(res.numpy())
  for w in range(nworld):
    Md = mw.dense_M(mjm, Mcsr[w])
    rec.check()
    if not np.all(np.isfinite(Md)):
      rec.viol("M:nonfinite", f"inertia matrix has non-finite entries world {w}")
      continue
    ev = np.linalg.eigvalsh(Md)
    rec.worst("M_not_PD(-lmin/lmax/eps32)", max(0.0, -ev[0] / ev[-1] / EPS32))
    if ev[0] <= 0:
      rec.viol("M_not_positive_definite", f"smallest eigenvalue {ev[0]:.3g} (largest {ev[-1]:.3g}) world {w}", trees=lay)
    rec.cover("cond_log10_max", [str(int(np.log10(max(1.0, ev[-1] / max(ev[0], 1e-300)))))])
    for r in range(2):
      judge_solve(rec, "solve_m", Md, xs[r][w], B[r][w], f"world {w} rhs {r} trees {lay}", blocks=blocks)
    for (A_csr, x), nm in zip(fs, ("factor_solve_i[M]", "factor_solve_i[M+diag]")):
      if not np.array_equal(A_csr, (Mcsr, Mmod)[nm.endswith("diag]")]):
        rec.viol("factor_solve_i:modifies_input_matrix", "factor_solve_i changed its input matrix M")
      judge_solve(rec, nm, mw.dense_M(mjm, A_csr[w]), x[w], B[0][w], f"world {w} trees {lay}", blocks=blocks)
    # mul_m forward error
    rec.check()
    ref = Md @ v[w].astype(np.float64)
    den = np.abs(Md).sum(axis=1).max() * np.abs(v[w]).max()
    ratio = float(np.abs(res[w] - ref).max() / (C_BACK * EPS32 * den)) if np.all(np.isfinite(res[w])) else float("inf")
    rec.worst("mul_m", ratio)
    if ratio > 30:
      rec.viol("mul_m", f"mul_m differs from dense product by {np.abs(res[w] - ref).max():.3g} (scale {den:.3g}) world {w} trees {lay}")
    elif ratio > 1:
      rec.inconcl("mul_m: grey zone")
  if lead:
    # batched family: did the per-world parameters reach M? (each world above was judged against its OWN M = Mcsr[w], per block)
    rec.cover("batched_model_cases", 1)
    rec.cover("batched_model:leading_sizes", [f"{k}={v}" for k, v in sorted(lead.items())])
    M0, M1 = mw.dense_M(mjm, Mcsr[0]), mw.dense_M(mjm, Mcsr[1])
    for a, num, cls in blocks:
      s = slice(a, a + num)
      d0, d1 = np.diag(M0[s, s]), np.diag(M1[s, s])
      if np.all(np.isfinite(d0)) and np.all(np.isfinite(d1)) and np.any(np.abs(d0 - d1) > 0.05 * np.abs(d0)):
        rec.cover(f"batched_model:{cls}_block_differs_between_worlds", 1)

  # ---- pipeline calls: one real step with interception (constraint-free: solver is a copy)
  with Hooks() as hk:
    # no constraint rows exist unless the model has a joint equality: with njmax=0 solve() is the documented copy
    # qacc = qacc_smooth and the Newton kernels (compiled per nv) are never built, which keeps a cold-cache run inside the budget
    d2 = mw.make_data(mjm, m, states, njmax=16 if mjm.neq else 0, nconmax=1)
    if case.get("split"):
      # step1 factors M with factor_m, step2 only back-substitutes (solve_m) on the stored factor
      mjw.step1(m, d2)
      mjw.step2(m, d2)
    else:
      mjw.step(m, d2)
  seen = set()
  nsolve_m = sum(1 for c in hk.calls if c[0] == "solve_m")
  if case.get("cg") and mjm.neq and nsolve_m > (1 if case.get("split") else 0):
    rec.cover("pipeline_calls:solve_m[M]:from_CG_solver", 1)
  if case.get("split") and nsolve_m:
    rec.cover("pipeline_calls:solve_m[M]:from_step2", 1)
  per_kind = {}
  for kind, A, y, x, is_M in hk.calls:
    tag = kind + ("[M]" if is_M else "[system]")
    per_kind[tag] = per_kind.get(tag, 0) + 1
    if per_kind[tag] > 8:
      continue
    seen.add(tag)
    for w in range(nworld):
      Ad = dense_D(mjm, A[w]) if kind == "factor_solve_lu" else mw.dense_M(mjm, A[w])
      if kind != "factor_solve_lu" and np.all(np.isfinite(Ad)):
        ev = np.linalg.eigvalsh(Ad)
        if ev[0] <= 1e-6 * ev[-1]:
          # the Cholesky/LDL routines document "assumed spd": a velocity-dependent actuator gain with negative damping made
          # M - h*qDeriv indefinite; nothing to decide about the solver here
          rec.count("pipeline_system_not_spd")
          continue
      judge_solve(rec, "pipeline:" + tag, Ad, x[w][:nv], y[w][:nv], f"world {w} integrator {case['integrator']} trees {lay}", blocks=blocks)
      if not is_M and w == 0:
        dev = float(np.abs(Ad - mw.dense_M(mjm, Mcsr[w])).max())
        if dev > 1e-6:
          rec.cover("pipeline_system_matrix_differs_from_M:" + kind, 1)
  for tag in seen:
    rec.cover("pipeline_calls:" + tag, 1)
    if lead:
      rec.cover("batched_model:pipeline_calls:" + tag, 1)
  for cls, num in lay:
    rec.cover("layout:" + cls, 1)
    rec.cover("tree_dofs", [str(num)])
    rec.cover(f"layout_size:{cls}:{num}", 1)
  if len({c for c, _ in lay}) > 1:
    rec.cover("mixed_layouts_in_one_model", 1)
  # which layouts share one model, and in which order of the trees (the kernels of one layout walk ALL dofs / all blocks of a
  # size and must skip the others by their qLD_block_adr sentinel)
  pos = {c: [i for i, (cc, _) in enumerate(lay) if cc == c] for c in ("compact", "scalar", "tile", "tile_branched", "sparse")}
  if pos["sparse"]:
    for other in ("compact", "scalar", "tile", "tile_branched"):
      if pos[other]:
        rec.cover(f"sparse+{other}_in_one_model", 1)
        if min(pos[other]) < min(pos["sparse"]):
          rec.cover(f"order:{other}_before_sparse", 1)
        if max(pos[other]) > max(pos["sparse"]):
          rec.cover(f"order:{other}_after_sparse", 1)
        if len(pos["sparse"]) > 1 and any(min(pos["sparse"]) < i < max(pos["sparse"]) for i in pos[other]):
          rec.cover(f"order:{other}_between_sparse_trees", 1)
    if len(pos["sparse"]) > 1:
      rec.cover("several_sparse_trees_in_one_model", 1)
    dense = pos["tile"] + pos["tile_branched"]  # both go through the tiled dense Cholesky kernels
    if dense and min(dense) < min(pos["sparse"]):
      rec.cover("order:dense_before_sparse", 1)
    if dense and max(dense) > max(pos["sparse"]):
      rec.cover("order:dense_after_sparse", 1)
    if pos["compact"] and pos["scalar"] and dense:
      rec.cover("all_layouts_in_one_model", 1)
  csz = {n for c, n in lay if c == "compact"}
  if csz & {n for c, n in lay if c == "scalar"}:
    rec.cover("same_size_compact_and_scalar_blocks_in_one_model", 1)
  tsz = [n for c, n in lay if c in ("tile", "tile_branched")]
  if len(tsz) != len(set(tsz)):
    rec.cover("several_blocks_in_one_tile_set", 1)
  if mix:
    rec.cover("mix_family_cases", 1)
    rec.cover(f"mix_family:order{case['order']}:{case['integrator']}", 1)
  rec.cover("integrator:" + case["integrator"], 1)
  if nv >= 2:
    rec.nontrivial(xml, *[s["qpos"] for s in states], "batched" if lead else "")
  rec.sample = {"batched_model_fields": lead, "trees": [list(x) for x in lay], "specs": [list(s) for s in specs], "nv": nv, "nC": int(mjm.nC), "integrator": case["integrator"], "pipeline_calls": sorted(seen), "qLD_block_total": int(m.qLD_block_total)}
  return rec.result()


def requirements(agg, tier):
  unmet = []
  cov = agg["cover"]
  import os

  if os.environ.get("C21_DUMP_COVER"):  # development aid: look at the counters of a --no-evidence run
    import json

    with open(os.environ["C21_DUMP_COVER"], "w") as f:
      json.dump({k: (sorted(v) if isinstance(v, (set, list)) else v) for k, v in cov.items()}, f, indent=1, sort_keys=True)
  for cls in ("compact", "scalar", "tile", "tile_branched", "sparse"):
    if cov.get("layout:" + cls, 0) < 3:
      unmet.append(f"block layout class observed fewer than 3 times: {cls}")
  sizes = set(cov.get("tree_dofs", []))
  for n in (1, 6, 7, 64, 65):
    if str(n) not in sizes:
      unmet.append(f"boundary tree size never generated: {n}")
  for tag in ("factor_solve_i[M]", "factor_solve_i[system]", "factor_solve_lu[system]"):
    if cov.get("pipeline_calls:" + tag, 0) < 3:
      unmet.append(f"pipeline call intercepted fewer than 3 times: {tag}")
  for k in ("pipeline_system_matrix_differs_from_M:factor_solve_i", "pipeline_system_matrix_differs_from_M:factor_solve_lu", "mixed_layouts_in_one_model"):
    if not cov.get(k):
      unmet.append(f"never observed: {k}")
  # the mixed-layout family: every layout next to a sparse tree, on both sides of it, and its blocks judged on their own
  need = 3 if tier == "quick" else 10
  keys = [f"sparse+{other}_in_one_model" for other in ("compact", "scalar", "tile", "tile_branched")]
  keys += [f"order:{other}_{side}_sparse" for other in ("compact", "scalar", "dense") for side in ("before", "after")]
  for k in keys:
    if cov.get(k, 0) < need:
      unmet.append(f"mixed-layout family observed fewer than {need} times: {k}")
  for k in ("all_layouts_in_one_model", "several_sparse_trees_in_one_model", "order:compact_between_sparse_trees", "same_size_compact_and_scalar_blocks_in_one_model", "several_blocks_in_one_tile_set"):
    if not cov.get(k):
      unmet.append(f"never observed: {k}")
  for cls in ("compact", "scalar", "tile", "tile_branched", "sparse"):
    if cov.get("block_residuals:" + cls, 0) < 30:
      unmet.append(f"fewer than 30 per-block residuals judged for layout {cls}")
  for n in (1, 2, 3, 6):
    if not cov.get(f"layout_size:compact:{n}"):
      unmet.append(f"compact diagonal block of {n} dofs never generated")
  for integ in MIX_INTEGRATORS:
    if not any(cov.get(f"mix_family:order{o}:{integ}") for o in range(3)):
      unmet.append(f"mixed-layout family never stepped with integrator {integ}")
  for k in ("pipeline_calls:solve_m[M]:from_step2", "pipeline_calls:solve_m[M]:from_CG_solver"):
    if cov.get(k, 0) < 3:
      unmet.append(f"pipeline call intercepted in fewer than 3 cases: {k}")
  # batched-model family: per-world dof_armature / body_mass / body_inertia must have made the worlds' M differ on every
  # layout (compact blocks included), and both the stored-factor path (solve_m) and the fused path must have run on such models
  for cls in ("compact", "scalar", "tile", "tile_branched", "sparse"):
    if cov.get(f"batched_model:{cls}_block_differs_between_worlds", 0) < 3:
      unmet.append(f"batched-model family: fewer than 3 {cls} blocks whose inertia differs between worlds")
  for tag in ("solve_m[M]", "factor_solve_i[M]", "factor_solve_i[system]", "factor_solve_lu[system]"):
    if cov.get("batched_model:pipeline_calls:" + tag, 0) < 2:
      unmet.append(f"batched-model family: pipeline call intercepted in fewer than 2 cases: {tag}")
  # a residual between 1x and 30x the bound is not decided; the clean tree sits ~20x below 1, so more than a stray
  # grey-zone case means something this monitor cannot call either way
  if agg["inconclusive"] > max(1, 0.02 * agg["evaluations"]):
    unmet.append(f"{agg['inconclusive']} cases had a backward error in the grey zone (1x..30x the bound)")
  if agg["distinct"] < 20:
    unmet.append("fewer than 20 distinct non-trivial cases")
  return unmet
