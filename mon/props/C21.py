"""C21 Inertia factorization solves the inertia system.

Invariant monitor with float64 linear algebra on MJWarp's own matrices (backward error, immune to conditioning):
  * the inertia matrix rebuilt dense from d.M (CSR lower triangle) is positive definite (symmetry is structural),
  * mjw.factor_m + mjw.solve_m, and smooth.factor_solve_i on M and on M + random diagonal, return x with
    ||A x - b||_inf / (||A||_inf ||x||_inf + ||b||_inf) <= C * eps32 for random right-hand sides,
  * mjw.mul_m equals the dense product,
  * every factor/solve call issued by the real pipeline (fwd_acceleration, euler with implicit damping, implicitfast,
    implicit/LU) is intercepted (wrappers on smooth.factor_solve_i / factor_solve_lu / solve_m) and its solution is checked
    by the same residual against the very matrix and right-hand side the call received.
Models are forests whose per-tree dof counts hit every block layout and its boundaries: compact (diagonal) blocks, scalar
Cholesky (<=6, triangular), tiled dense Cholesky (<=64, incl. small branched trees), sparse LDL (>64), mixed in one model.
"""

import mujoco
import numpy as np

from mon import core, mw

ID = "C21"
LEVEL = "exploration"
RULE = (
  "case=(seed, tree specs): forest of 1-4 trees, each a chain / branched star / free-body+chain / ball-chain / centred free "
  "sphere (diagonal block) with dof counts drawn from {1,2,3,5,6,7,8,16,31,32,33,63,64,65,90}, random link geometry, "
  "armature, damping and a velocity actuator; 3 worlds with different random qpos/qvel; 2 random right-hand sides per "
  "solve. Non-trivial: nv>=2 and all direct oracles evaluated; distinct by hash(xml, states)."
)
ASSUMPTIONS = [
  "float64 numpy linear algebra on the float32 matrices MJWarp itself stores (d.M CSR, the matrices passed to the "
  "factor/solve routines) is the oracle: no reference engine, no conditioning dependence",
  "backward-error bound C*eps32 with C=24 (Cholesky/LDL backward error grows at most like n*eps; measured clean maximum is "
  "reported in worst_err_over_bound)",
  "positive definiteness is judged on the float64 eigenvalues of the float32 matrix: lambda_min > 0",
  "the implicit-integration system matrices are the ones MJWarp builds (their correctness is C27's subject); here only "
  "'the returned x solves the system that was passed' is decided",
]
BUDGET = {"quick": 200, "thorough": 1500}

EPS32 = float(np.finfo(np.float32).eps)
C_BACK = 24.0
SIZES_QUICK = (1, 2, 3, 5, 6, 7, 8, 31, 32, 33, 63, 64, 65, 90)
SIZES_THOROUGH = (1, 2, 3, 4, 5, 6, 7, 8, 12, 16, 24, 31, 32, 33, 48, 63, 64, 65, 72, 90, 130)


def _f(x):
  return " ".join(f"{float(v):.5g}" for v in np.atleast_1d(x))


def tree_xml(rng, kind, n, tid):
  """XML of one tree with exactly n dofs. Returns (xml, joint names)."""
  names = []

  def joint(k, typ=None):
    typ = typ or ("hinge", "hinge", "slide")[int(rng.integers(3))]
    nm = f"t{tid}_j{k}"
    names.append(nm)
    ax = rng.normal(size=3)
    ax /= np.linalg.norm(ax)
    arm = f' armature="{rng.uniform(0.001, 0.2):.4g}"' if rng.random() < 0.5 else ""
    dmp = f' damping="{rng.uniform(0.05, 2):.4g}"' if rng.random() < 0.5 else ""
    return f'<joint name="{nm}" type="{typ}" axis="{_f(ax)}"{arm}{dmp}/>'

  def geom():
    t = ("capsule", "box", "ellipsoid")[int(rng.integers(3))]
    if t == "capsule":
      return f'<geom type="capsule" size="{rng.uniform(0.02, 0.05):.3g}" fromto="0 0 0 {_f(rng.normal(size=3) * 0.1 + [0.12, 0, 0])}" contype="0" conaffinity="0"/>'
    return f'<geom type="{t}" size="{_f(rng.uniform(0.03, 0.1, size=3))}" pos="{_f(rng.normal(size=3) * 0.05)}" contype="0" conaffinity="0"/>'

  base = f'pos="{_f([rng.normal() * 2, tid * 3.0, 1.5])}"'
  if kind == "diag":  # centred sphere on a free joint: diagonal M block ("compact" layout), n must be 6
    return f'<body {base}><freejoint name="t{tid}_free"/><geom type="sphere" size="{rng.uniform(0.05, 0.2):.3g}" contype="0" conaffinity="0"/></body>', names
  if kind == "star":  # root joint + (n-1) single-joint children of the root: branched block, not triangular
    out = [f"<body {base}>", joint(0), geom()]
    for k in range(1, n):
      out += [f'<body pos="{_f(rng.normal(size=3) * 0.3)}">', joint(k), geom(), "</body>"]
    out.append("</body>")
    return "".join(out), names
  out = []
  closing = 0
  left = n
  if kind == "free":
    out += [f'<body {base}><freejoint name="t{tid}_free"/>', geom()]
    left -= 6
    closing += 1
  elif kind == "ball":
    out += [f'<body {base}><joint name="t{tid}_ball" type="ball"/>', geom()]
    left -= 3
    closing += 1
  first = closing == 0
  k = 0
  while left > 0:
    pos = base if first else f'pos="{_f(rng.normal(size=3) * 0.05 + [0.12, 0, 0])}"'
    first = False
    nj = int(min(left, 1 + (rng.random() < 0.25)))
    if kind == "ball" and left >= 3 and rng.random() < 0.3:
      out += [f"<body {pos}>", f'<joint name="t{tid}_b{k}" type="ball"/>', geom()]
      left -= 3
    else:
      out += [f"<body {pos}>"] + [joint(k + i) for i in range(nj)] + [geom()]
      left -= nj
    k += 2
    closing += 1
  out += ["</body>"] * closing
  return "".join(out), names


def build_xml(rng, specs, integrator, timestep):
  bodies = []
  acts = []
  for tid, (kind, n) in enumerate(specs):
    x, names = tree_xml(rng, kind, n, tid)
    bodies.append(x)
    if names and rng.random() < 0.7:
      nm = names[int(rng.integers(len(names)))]
      acts.append(f'<velocity joint="{nm}" kv="{rng.uniform(0.5, 5):.3g}"/>')
      if rng.random() < 0.5 and len(names) > 1:
        acts.append(f'<general joint="{names[int(rng.integers(len(names)))]}" gaintype="affine" gainprm="2 0 -0.5" biastype="affine" biasprm="0 -1 -0.3"/>')
  act = f"<actuator>{''.join(acts)}</actuator>" if acts else ""
  return f'<mujoco><option timestep="{timestep}" integrator="{integrator}"><flag contact="disable"/></option><worldbody>{"".join(bodies)}</worldbody>{act}</mujoco>'


def draw_specs(rng, sizes, force=None):
  specs = []
  ntree = int(rng.integers(1, 5))
  for t in range(ntree):
    n = int(force) if (force and t == 0) else int(sizes[int(rng.integers(len(sizes)))])
    if t > 0 and n > 33 and rng.random() < 0.6:
      n = int(sizes[int(rng.integers(min(8, len(sizes))))])  # keep total nv moderate
    r = rng.random()
    if n == 6 and r < 0.35:
      kind = "diag"
    elif n >= 6 and r < 0.55:
      kind = "free"
    elif n >= 3 and r < 0.7:
      kind = "ball"
    elif n >= 3 and r < 0.85:
      kind = "star"
    else:
      kind = "chain"
    specs.append((kind, n))
  return specs


def cases(tier, seed):
  sizes = SIZES_QUICK if tier == "quick" else SIZES_THOROUGH
  n = 56 if tier == "quick" else 700
  out = []
  for i in range(n):
    force = sizes[i % len(sizes)]
    out.append({"id": f"f{seed}_{i}", "seed": seed * 100000 + i, "force": int(force), "integrator": ("Euler", "implicitfast", "implicit")[i % 3], "tier": tier, "weight": 1 + force // 30})
  return out


def layout_classes(mjm):
  """Per-tree layout class names following io.m_block_layout (recomputed independently from the MuJoCo model)."""
  from mujoco_warp._src import types

  out = []
  for adr, num in zip(mjm.tree_dofadr, mjm.tree_dofnum):
    if num <= 0:
      continue
    last = adr + num - 1
    nnz = int(mjm.M_rowadr[last] + mjm.M_rownnz[last] - mjm.M_rowadr[adr])
    compact = nnz == num
    tri = nnz == num * (num + 1) // 2
    if num <= types.M_BLOCK_SCALAR_MAX and (compact or tri):
      out.append(("compact" if compact else "scalar", int(num)))
    elif num <= types.M_BLOCK_DENSE_MAX:
      out.append(("tile" if tri else "tile_branched", int(num)))
    else:
      out.append(("sparse", int(num)))
  return out


def dense_D(mjm, vals):
  A = np.zeros((mjm.nv, mjm.nv))
  mujoco.mju_sparse2dense(A, np.asarray(vals, dtype=np.float64)[: mjm.nD], mjm.D_rownnz, mjm.D_rowadr, mjm.D_colind)
  return A


def backward_error(A, x, b):
  x = np.asarray(x, dtype=np.float64)
  b = np.asarray(b, dtype=np.float64)
  if not (np.all(np.isfinite(x)) and np.all(np.isfinite(A)) and np.all(np.isfinite(b))):
    return float("inf")
  r = np.abs(A @ x - b).max()
  den = np.abs(A).sum(axis=1).max() * np.abs(x).max() + np.abs(b).max()
  return float(r / den) if den > 0 else 0.0


def judge_solve(rec, name, A, x, b, ctx, data=None):
  rec.check()
  be = backward_error(A, x, b)
  ratio = be / (C_BACK * EPS32)
  rec.worst(name, ratio)
  if ratio > 30:
    rec.viol(name, f"{name}: backward error ||Ax-b||/(||A||||x||+||b||) = {be:.3g} > 30 x {C_BACK:g} eps32 {ctx}", n=A.shape[0], x=np.asarray(x)[:6], **(data or {}))
    return False
  if ratio > 1:
    rec.inconcl(f"{name}: backward error in grey zone")
  return True


class Hooks:
  """Wraps the factor/solve entry points of mujoco_warp._src.smooth so that calls made by the real pipeline are observed."""

  def __init__(self):
    from mujoco_warp._src import smooth

    self.smooth = smooth
    self.calls = []
    self.orig = {}

  def __enter__(self):
    sm = self.smooth
    for nm in ("factor_solve_i", "factor_solve_lu", "solve_m"):
      self.orig[nm] = getattr(sm, nm)
    calls = self.calls
    orig = self.orig

    def factor_solve_i(m, d, M, L, D, x, y):
      A = np.array(M.numpy())
      yy = np.array(y.numpy())
      orig["factor_solve_i"](m, d, M, L, D, x, y)
      calls.append(("factor_solve_i", A, yy, np.array(x.numpy()), M is d.M))

    def factor_solve_lu(m, d, qLU, qacc, qfrc):
      A = np.array(qLU.numpy())
      yy = np.array(qfrc.numpy())
      orig["factor_solve_lu"](m, d, qLU, qacc, qfrc)
      calls.append(("factor_solve_lu", A, yy, np.array(qacc.numpy()), False))

    def solve_m(m, d, x, y):
      A = np.array(d.M.numpy())
      yy = np.array(y.numpy())
      orig["solve_m"](m, d, x, y)
      calls.append(("solve_m", A, yy, np.array(x.numpy()), True))

    sm.factor_solve_i, sm.factor_solve_lu, sm.solve_m = factor_solve_i, factor_solve_lu, solve_m
    return self

  def __exit__(self, *a):
    for nm, f in self.orig.items():
      setattr(self.smooth, nm, f)


def run_case(case):
  import warp as wp

  import mujoco_warp as mjw
  from mujoco_warp._src import smooth

  rec = core.Rec(case)
  rng = np.random.default_rng(case["seed"])
  sizes = SIZES_QUICK if case.get("tier", "quick") == "quick" else SIZES_THOROUGH
  specs = draw_specs(rng, sizes, case["force"])
  xml = build_xml(rng, specs, case["integrator"], 0.00390625)
  try:
    mjm = mujoco.MjModel.from_xml_string(xml)
  except Exception as e:
    rec.rejected = f"mujoco compile: {e}"[:200]
    return rec.result()
  try:
    m = mw.put_model(mjm)
  except (NotImplementedError, ValueError) as e:
    rec.rejected = f"put_model: {e}"[:200]
    return rec.result()
  nv = mjm.nv
  nworld = 3
  states = []
  for w in range(nworld):
    qpos = np.array(mjm.qpos0, dtype=np.float64)
    for j in range(mjm.njnt):
      a = mjm.jnt_qposadr[j]
      t = mjm.jnt_type[j]
      if t == mujoco.mjtJoint.mjJNT_FREE:
        q = rng.normal(size=4)
        qpos[a + 3 : a + 7] = q / np.linalg.norm(q)
      elif t == mujoco.mjtJoint.mjJNT_BALL:
        q = rng.normal(size=4)
        qpos[a : a + 4] = q / np.linalg.norm(q)
      else:
        qpos[a] += rng.normal() * (1.0 if t == mujoco.mjtJoint.mjJNT_HINGE else 0.2)
    states.append({"qpos": qpos.astype(np.float32), "qvel": (rng.normal(size=nv) * 0.5).astype(np.float32), "ctrl": rng.normal(size=mjm.nu).astype(np.float32)})
  d = mw.make_data(mjm, m, states, njmax=16, nconmax=1)
  lay = layout_classes(mjm)
  # cross-check the layout MJWarp chose against the independent classification
  adr = np.array(m.qLD_block_adr.numpy() if hasattr(m.qLD_block_adr, "numpy") else m.qLD_block_adr)
  for (cls, num), ta in zip(lay, [a for a, n_ in zip(mjm.tree_dofadr, mjm.tree_dofnum) if n_ > 0]):
    got = "compact" if adr[ta] == -2 else ("sparse" if adr[ta] == -1 else "dense")
    want = {"compact": "compact", "sparse": "sparse"}.get(cls, "dense")
    rec.check()
    if got != want:
      rec.viol("block_layout", f"tree of {num} dofs classified {cls} but qLD_block_adr says {got}")

  # ---- direct API: M, factor_m, solve_m, factor_solve_i, mul_m
  mjw.kinematics(m, d)
  mjw.com_pos(m, d)
  mjw.crb(m, d)
  smooth.tendon_armature(m, d)
  mjw.factor_m(m, d)
  Mcsr = np.array(mw.npy(d.M))
  B = rng.normal(size=(2, nworld, nv)).astype(np.float32) * np.float32(10.0)
  B[1] *= (rng.random(size=(nworld, nv)) < 0.3)  # sparse right-hand side
  xs = []
  for r in range(2):
    x = wp.zeros((nworld, nv), dtype=float)
    mjw.solve_m(m, d, x, wp.array(B[r], dtype=float))
    xs.append(np.array(x.numpy()))
  # factor_solve_i on M and on M + random positive diagonal, scratch factors
  Mmod = Mcsr.copy()
  diag_adr = np.asarray(mjm.M_rowadr) + np.asarray(mjm.M_rownnz) - 1
  Mmod[:, diag_adr] += rng.uniform(0, 0.5, size=(nworld, nv)).astype(np.float32)
  fs = []
  for A_csr in (Mcsr, Mmod):
    Aw = wp.array(A_csr, dtype=float)
    L = wp.empty_like(d.qLD)
    D = wp.empty((nworld, nv), dtype=float)
    x = wp.zeros((nworld, nv), dtype=float)
    smooth.factor_solve_i(m, d, Aw, L, D, x, wp.array(B[0], dtype=float))
    fs.append((np.array(Aw.numpy()), np.array(x.numpy())))
  v = rng.normal(size=(nworld, nv)).astype(np.float32)
  res = wp.zeros((nworld, nv), dtype=float)
  mjw.mul_m(m, d, res, wp.array(v, dtype=float))
  res = np.array(res.numpy())
  for w in range(nworld):
    Md = mw.dense_M(mjm, Mcsr[w])
    rec.check()
    if not np.all(np.isfinite(Md)):
      rec.viol("M:nonfinite", f"inertia matrix has non-finite entries world {w}")
      continue
    ev = np.linalg.eigvalsh(Md)
    rec.worst("M_not_PD(-lmin/lmax/eps32)", max(0.0, -ev[0] / ev[-1] / EPS32))
    if ev[0] <= 0:
      rec.viol("M_not_positive_definite", f"smallest eigenvalue {ev[0]:.3g} (largest {ev[-1]:.3g}) world {w}", trees=lay)
    rec.cover("cond_log10_max", [str(int(np.log10(max(1.0, ev[-1] / max(ev[0], 1e-300)))))])
    for r in range(2):
      judge_solve(rec, "solve_m", Md, xs[r][w], B[r][w], f"world {w} rhs {r} trees {lay}")
    for (A_csr, x), nm in zip(fs, ("factor_solve_i[M]", "factor_solve_i[M+diag]")):
      if not np.array_equal(A_csr, (Mcsr, Mmod)[nm.endswith("diag]")]):
        rec.viol("factor_solve_i:modifies_input_matrix", "factor_solve_i changed its input matrix M")
      judge_solve(rec, nm, mw.dense_M(mjm, A_csr[w]), x[w], B[0][w], f"world {w} trees {lay}")
    # mul_m forward error
    rec.check()
    ref = Md @ v[w].astype(np.float64)
    den = np.abs(Md).sum(axis=1).max() * np.abs(v[w]).max()
    ratio = float(np.abs(res[w] - ref).max() / (C_BACK * EPS32 * den)) if np.all(np.isfinite(res[w])) else float("inf")
    rec.worst("mul_m", ratio)
    if ratio > 30:
      rec.viol("mul_m", f"mul_m differs from dense product by {np.abs(res[w] - ref).max():.3g} (scale {den:.3g}) world {w} trees {lay}")
    elif ratio > 1:
      rec.inconcl("mul_m: grey zone")

  # ---- pipeline calls: one real step with interception (constraint-free: solver is a copy)
  with Hooks() as hk:
    d2 = mw.make_data(mjm, m, states, njmax=16, nconmax=1)
    mjw.step(m, d2)
  seen = set()
  for kind, A, y, x, is_M in hk.calls:
    tag = kind + ("[M]" if is_M else "[system]")
    seen.add(tag)
    for w in range(nworld):
      Ad = dense_D(mjm, A[w]) if kind == "factor_solve_lu" else mw.dense_M(mjm, A[w])
      if kind != "factor_solve_lu" and np.all(np.isfinite(Ad)):
        ev = np.linalg.eigvalsh(Ad)
        if ev[0] <= 1e-6 * ev[-1]:
          # the Cholesky/LDL routines document "assumed spd": a velocity-dependent actuator gain with negative damping made
          # M - h*qDeriv indefinite; nothing to decide about the solver here
          rec.count("pipeline_system_not_spd")
          continue
      judge_solve(rec, "pipeline:" + tag, Ad, x[w][:nv], y[w][:nv], f"world {w} integrator {case['integrator']} trees {lay}")
      if not is_M and w == 0:
        dev = float(np.abs(Ad - mw.dense_M(mjm, Mcsr[w])).max())
        if dev > 1e-6:
          rec.cover("pipeline_system_matrix_differs_from_M:" + kind, 1)
  for tag in seen:
    rec.cover("pipeline_calls:" + tag, 1)
  for cls, num in lay:
    rec.cover("layout:" + cls, 1)
    rec.cover("tree_dofs", [str(num)])
    rec.cover(f"layout_size:{cls}:{num}", 1)
  if len({c for c, _ in lay}) > 1:
    rec.cover("mixed_layouts_in_one_model", 1)
  rec.cover("integrator:" + case["integrator"], 1)
  if nv >= 2:
    rec.nontrivial(xml, *[s["qpos"] for s in states])
  rec.sample = {"trees": [list(x) for x in lay], "specs": [list(s) for s in specs], "nv": nv, "nC": int(mjm.nC), "integrator": case["integrator"], "pipeline_calls": sorted(seen), "qLD_block_total": int(m.qLD_block_total)}
  return rec.result()


def requirements(agg, tier):
  unmet = []
  cov = agg["cover"]
  for cls in ("compact", "scalar", "tile", "tile_branched", "sparse"):
    if cov.get("layout:" + cls, 0) < 3:
      unmet.append(f"block layout class observed fewer than 3 times: {cls}")
  sizes = set(cov.get("tree_dofs", []))
  for n in (1, 6, 7, 64, 65):
    if str(n) not in sizes:
      unmet.append(f"boundary tree size never generated: {n}")
  for tag in ("factor_solve_i[M]", "factor_solve_i[system]", "factor_solve_lu[system]"):
    if cov.get("pipeline_calls:" + tag, 0) < 3:
      unmet.append(f"pipeline call intercepted fewer than 3 times: {tag}")
  for k in ("pipeline_system_matrix_differs_from_M:factor_solve_i", "pipeline_system_matrix_differs_from_M:factor_solve_lu", "mixed_layouts_in_one_model"):
    if not cov.get(k):
      unmet.append(f"never observed: {k}")
  if agg["distinct"] < 20:
    unmet.append("fewer than 20 distinct non-trivial cases")
  return unmet
