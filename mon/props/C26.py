"""C26 Forward and inverse dynamics are consistent.

Two oracles on generated models x 3 worlds:
  I  round trip (no reference engine): after mjw.forward(), mjw.inverse() on the same state returns
     qfrc_inverse == qfrc_applied + J^T xfrc_applied + qfrc_actuator  (= qfrc_smooth - qfrc_passive + qfrc_bias of the
     forward pass) up to float32 round-off (constraint-free) or the forward solver's convergence (constrained, judged only
     when the solver did not hit its iteration limit).  With INVDISCRETE the acceleration handed to inverse() is the discrete
     one the Euler / implicitfast step actually used, (qvel+ - qvel)/h from a real mjw.step() of the same state, and
     inverse() must restore d.qacc to it.
  II differential: qfrc_inverse vs mujoco.mj_inverse fed with the *same* float32 state and the same qacc (so the forward
     solvers' tolerances do not enter), gated on equal constraint row counts.
"""

import mujoco
import numpy as np

from mon import cmp, core, gen, mw
from mon.props import _step

ID = "C26"
LEVEL = "exploration"
RULE = (
  "case=(kind,seed,integrator,invdiscrete): kind 'free' = constraint-free generated tree with springs/dampers/gravcomp/fluid/"
  "tendons/actuators (ctrl inside and far outside ctrlrange, no muscles) and random qfrc_applied/xfrc_applied; 'soft' = plus limits, "
  "equalities, frictionloss; 'contact' = free bodies resting on a plane; 3 worlds with different random states. "
  "Non-trivial: nv>=2 and both oracles evaluated on >=1 world; distinct by hash(xml, flags, states)."
)
ASSUMPTIONS = [
  "round trip: bound a*S with S=max(||M||*||qacc||,|qfrc_smooth|,|qfrc_constraint|) (backward-error scale), a=1e-4 "
  "constraint-free, a=3e-3 constrained and converged (forward solver tolerance); violation above 30x; differential: 1e-4 / "
  "1e-3 of the scale of the cancelling terms",
  "INVDISCRETE: the discrete acceleration is formed in float32 as (qvel+ - qvel)/h, its cancellation error eps32*|qvel|/h "
  "times |M| is added to the bound",
  "differential: MuJoCo 3.13 mj_inverse on the same state and the same qacc; noise floor from +-2ulp probes of qpos/qvel",
  "INVDISCRETE with the implicit integrator is rejected by MJWarp (NotImplementedError) and with RK4 by both engines: "
  "counted as rejected, not as findings",
  "muscles are excluded (the open C08 finding implicit:actuator_vel_derivative_muscle_gain_missing would otherwise be "
  "re-reported through the discrete->continuous conversion); worlds where MuJoCo 3.13 applies its extra implicit treatment "
  "of free bodies are skipped for oracle II",
]
BUDGET = {"quick": 240, "thorough": 1200}

INT_ENUM = {"Euler": 0, "RK4": 1, "implicit": 2, "implicitfast": 3}

P_FREE = gen.profile(
  nbody=(2, 7),
  p_spring=0.5,
  p_damping=0.7,
  p_armature=0.5,
  p_gravcomp=0.3,
  fluid=0.3,
  tendon_fixed=0.4,
  tendon_spatial=0.3,
  p_mocap=0.1,
  actuators=3,
  act_kinds=("motor", "position", "velocity", "general", "damper", "cylinder", "intvelocity"),
  act_trn=("joint", "tendon", "site", "jointinparent", "slidercrank"),
  act_ball=False,
)
P_SOFT = gen.profile(
  nbody=(2, 7),
  p_spring=0.4,
  p_damping=0.6,
  p_armature=0.5,
  tendon_fixed=0.5,
  tendon_spatial=0.3,
  p_limit=0.6,
  p_frictionloss=0.3,
  equality=2,
  actuators=2,
  act_kinds=("motor", "position", "general"),
  act_ball=False,
  p_mocap=0.1,
)


def cases(tier, seed):
  nf, ns, nc = (64, 32, 16) if tier == "quick" else (1600, 800, 400)
  combos = [("Euler", 0), ("Euler", 1), ("implicitfast", 1), ("implicitfast", 0), ("Euler", 1), ("implicit", 0), ("implicitfast", 1), ("RK4", 0)]
  out = []
  for kind, cnt, off in (("free", nf, 0), ("soft", ns, 20000), ("contact", nc, 40000)):
    for i in range(cnt):
      integ, disc = combos[i % len(combos)]
      out.append({"id": f"{kind}{seed}_{i}", "kind": kind, "seed": seed * 100000 + off + i, "integrator": integ, "invdiscrete": disc, "eulerdamp": int(i % 16 >= 8), "weight": 1 if kind == "free" else 2})
  # expected rejections are exercised too
  out.append({"id": f"rej{seed}_0", "kind": "free", "seed": seed * 100000 + 90000, "integrator": "implicit", "invdiscrete": 1, "eulerdamp": 0, "weight": 1})
  out.append({"id": f"rej{seed}_1", "kind": "free", "seed": seed * 100000 + 90001, "integrator": "RK4", "invdiscrete": 1, "eulerdamp": 0, "weight": 1})
  return out


def build_model(case, rng):
  from mon.props import C08

  kind = case["kind"]
  if kind == "contact":
    xml = C08.contact_xml(rng)
    mjm = mujoco.MjModel.from_xml_string(xml)
    feat = ["contact_scene", "joint:free"]
  else:
    xml, mjm, feat, _ = gen.make_model(case["seed"], P_FREE if kind == "free" else P_SOFT, accept=_step.well_conditioned)
    if mjm is None:
      return None, None, None
  mjm.opt.integrator = INT_ENUM[case["integrator"]]
  if case["invdiscrete"]:
    mjm.opt.enableflags |= int(mujoco.mjtEnableBit.mjENBL_INVDISCRETE)
  if case["eulerdamp"]:
    mjm.opt.disableflags |= int(mujoco.mjtDisableBit.mjDSBL_EULERDAMP)
  if kind != "free":
    mjm.opt.iterations = 100
    mjm.opt.ls_iterations = 50
  return xml, mjm, list(feat)


def sample_states(mjm, rng, kind):
  states = []
  for w in range(3):
    st = gen.sample_state(mjm, rng, vel=float(rng.choice([0.3, 3.0])) if kind != "contact" else 0.5, quat_scale=(kind != "contact"))
    if kind == "contact":
      st["qpos"] = np.array(mjm.qpos0, dtype=np.float32)
      st["qpos"][2::7] -= rng.uniform(0, 0.005, size=st["qpos"][2::7].shape).astype(np.float32)
      st["xfrc_applied"] = (st["xfrc_applied"] * 0.2).astype(np.float32)
    st["qacc_warmstart"] = np.zeros(mjm.nv, np.float32)
    if int(mjm.opt.integrator) == int(mujoco.mjtIntegrator.mjINT_IMPLICITFAST):
      _step.neutralise_lone_free(mjm, st)
    states.append(st)
  return states


def run_case(case):
  import warp as wp

  import mujoco_warp as mjw

  rec = core.Rec(case)
  rng = np.random.default_rng(case["seed"])
  xml, mjm, feat = build_model(case, rng)
  if mjm is None:
    rec.rejected = "mujoco compile"
    return rec.result()
  try:
    m = mw.put_model(mjm)
  except (NotImplementedError, ValueError) as e:
    rec.rejected = f"put_model: {e}"[:200]
    return rec.result()
  integ, disc = case["integrator"], bool(case["invdiscrete"])
  h = float(mjm.opt.timestep)
  nv = mjm.nv
  states = sample_states(mjm, rng, case["kind"])
  nworld = len(states)
  need_j = need_c = 0
  for st in states:
    d0 = mujoco.MjData(mjm)
    mw.apply_state_mj(mjm, d0, st)
    mujoco.mj_forward(mjm, d0)
    need_j, need_c = max(need_j, int(d0.nefc)), max(need_c, int(d0.ncon))
  caps = dict(njmax=next(c for c in (64, 128, 256, 4096) if c >= 1.5 * need_j + 8), nconmax=next(c for c in (48, 96, 4096) if c >= 1.5 * need_c + 4))

  d = mw.make_data(mjm, m, states, **caps)
  d.overflow.zero_()
  mjw.forward(m, d)
  fwd = {k: np.array(mw.npy(getattr(d, k))) for k in ("qacc", "qfrc_smooth", "qfrc_passive", "qfrc_bias", "qfrc_constraint", "qfrc_actuator", "qfrc_applied", "nefc", "overflow", "M")}
  qacc_in = fwd["qacc"].copy()
  cancel = np.zeros(nworld)
  if disc:
    # the acceleration that the real step used: (qvel+ - qvel)/h in float32
    d1 = mw.make_data(mjm, m, states, **caps)
    try:
      mjw.step(m, d1)
    except NotImplementedError as e:
      rec.rejected = f"step: {e}"[:200]
      return rec.result()
    qv1 = np.array(mw.npy(d1.qvel))
    qv0 = np.stack([s["qvel"] for s in states]).astype(np.float32)
    qacc_in = ((qv1[:, :nv] - qv0) / np.float32(h)).astype(np.float32)
    cancel = np.finfo(np.float32).eps * np.maximum(np.abs(qv0).max(axis=1, initial=0), np.abs(qv1[:, :nv]).max(axis=1, initial=0)) / h
    wp.copy(d.qacc, wp.array(qacc_in, dtype=float))
  try:
    mjw.inverse(m, d)
  except NotImplementedError as e:
    rec.rejected = f"inverse: {e}"[:200]
    rec.count("rejected:" + ("invdiscrete+" + integ if disc else integ))
    rec.cover("rejections", "invdiscrete+" + integ if disc else integ)
    return rec.result()
  got = np.array(mw.npy(d.qfrc_inverse))
  qacc_after = np.array(mw.npy(d.qacc))
  nefc_inv = np.array(mw.npy(d.nefc))
  judged_I = judged_II = 0
  for w, st in enumerate(states):
    Md = mw.dense_M(mjm, fwd["M"][w])
    ovf = int(fwd["overflow"][w])
    constrained = int(fwd["nefc"][w]) > 0
    # inverse() must leave d.qacc as it found it
    rec.check()
    if qacc_after[w][:nv].tobytes() != qacc_in[w][:nv].tobytes():
      rec.viol("inverse_changes_qacc", f"inverse() did not restore d.qacc (invdiscrete={disc}, {integ}) world {w}")
    # ---- I round trip
    if not np.all(np.isfinite(fwd["qacc"][w])) or np.abs(fwd["qacc"][w]).max(initial=0) > 1e6 or not np.all(np.isfinite(qacc_in[w])) or np.abs(qacc_in[w]).max(initial=0) > 1e6:
      rec.inconcl("forward / step diverged")
      continue
    if ovf & (_step.OVF_CAP | _step.OVF_ITER):
      rec.count("worlds_ungated_overflow_or_iterations")
    else:
      expected = fwd["qfrc_smooth"][w].astype(np.float64) - fwd["qfrc_passive"][w] + fwd["qfrc_bias"][w]
      S = max(1.0, float(np.abs(Md @ fwd["qacc"][w][:nv].astype(np.float64)).max(initial=0)), float(np.abs(fwd["qfrc_smooth"][w]).max(initial=0)), float(np.abs(fwd["qfrc_constraint"][w]).max(initial=0)))
      S = max(S, float(np.abs(Md).sum(axis=1).max()) * float(np.abs(fwd["qacc"][w][:nv]).max(initial=0)))  # backward-error scale
      a = 3e-3 if constrained else 1e-4
      bound = a * S + 4 * cancel[w] * float(np.abs(Md).sum(axis=1).max())
      rec.check()
      g = got[w][:nv].astype(np.float64)
      err = float(np.abs(g - expected[:nv]).max()) if np.all(np.isfinite(g)) else float("inf")
      name = ("roundtrip_discrete" if disc else "roundtrip") + ("_constrained" if constrained else "")
      rec.worst(name, err / bound)
      judged_I += 1
      if err > 30 * bound:
        i = int(np.argmax(np.abs(g - expected[:nv]))) if np.isfinite(err) else 0
        rec.viol(f"{name}[{integ}]", f"qfrc_inverse differs from qfrc_applied+J'xfrc+qfrc_actuator by {err:.3g} (> 30 x bound {bound:.3g}, S={S:.3g}) at dof {i} world {w}; invdiscrete={disc} integrator={integ} nefc={int(fwd['nefc'][w])}", got=g[max(0, i - 2) : i + 3], expected=expected[max(0, i - 2) : i + 3])
      elif err > bound:
        rec.inconcl(f"{name}: between bound and violation line")
    # ---- II differential with the same qacc
    if disc and _step.mujoco_extra_treatment(mjm, st):
      rec.count("worlds_skew_mujoco313_implicit_extra_treatment")
      continue
    qa = qacc_in[w][:nv].astype(np.float64)

    def stage(mm, dd, qa=qa):
      mujoco.mj_forward(mm, dd)  # as in the observed flow: actuator forces / act_dot of the forward pass are in Data
      dd.qacc[:] = qa
      mujoco.mj_inverse(mm, dd)

    def extract(mm, dd):
      return {"qfrc_inverse": dd.qfrc_inverse, "struct": np.array([dd.ne, dd.nf, dd.nl, dd.nefc], dtype=np.float64), "terms": np.array([np.abs(dd.qfrc_bias).max(initial=0), np.abs(dd.qfrc_passive).max(initial=0), np.abs(dd.qfrc_constraint).max(initial=0), np.abs(dd.qfrc_inverse + dd.qfrc_passive + dd.qfrc_constraint - dd.qfrc_bias).max(initial=0)])}

    ref, noise, mjd = cmp.reference(mjm, st, stage, extract, seed=case["seed"] + w)
    if noise["struct"] != 0 or int(ref["struct"][3]) != int(nefc_inv[w]):
      rec.count("worlds_ungated_structure")
      continue
    # the natural scale of qfrc_inverse is that of its cancelling terms (M qacc, bias, passive, constraint): append it as
    # a sentinel element to both arrays so that cmp.judge uses it as the field scale
    terms = max(1.0, float(ref["terms"].max()))
    name = "qfrc_inverse_discrete" if disc else "qfrc_inverse"
    allow = 1e-3 if int(ref["struct"][3]) else 1e-4
    cmp.judge(rec, name, np.append(got[w][:nv].astype(np.float64), terms), np.append(ref["qfrc_inverse"], terms), allow, noise["qfrc_inverse"], sig_prefix=f"{integ}:", ctx=f"world {w} invdiscrete={disc} nefc={int(ref['struct'][3])}")
    judged_II += 1
  tag = f"{integ}:{'discrete' if disc else 'continuous'}"
  rec.cover("roundtrip_worlds:" + tag, judged_I)
  rec.cover("differential_worlds:" + tag, judged_II)
  rec.cover("kind:" + case["kind"], judged_I)
  if int(fwd["nefc"].max()) > 0:
    rec.cover("constrained:" + tag, 1)
  if disc and integ == "Euler":
    rec.cover("discrete_euler:eulerdamp_" + ("off" if case["eulerdamp"] else "on"), 1)
  for f in feat:
    rec.cover("features", f)
  if nv >= 2 and judged_I and judged_II:
    rec.nontrivial(xml, integ, disc, case["eulerdamp"], *[s["qpos"] for s in states], *[s["qvel"] for s in states])
  rec.sample = {"kind": case["kind"], "integrator": integ, "invdiscrete": disc, "nv": nv, "nu": mjm.nu, "nefc": fwd["nefc"].tolist(), "roundtrip_worlds": judged_I, "differential_worlds": judged_II}
  return rec.result()


def requirements(agg, tier):
  unmet = []
  cov = agg["cover"]
  for tag in ("Euler:continuous", "Euler:discrete", "implicitfast:discrete", "implicitfast:continuous"):
    if cov.get("roundtrip_worlds:" + tag, 0) < 15:
      unmet.append(f"fewer than 15 round-trip worlds for {tag}")
    if cov.get("differential_worlds:" + tag, 0) < 15:
      unmet.append(f"fewer than 15 differential worlds for {tag}")
    if cov.get("constrained:" + tag, 0) < 2:
      unmet.append(f"no constrained case for {tag}")
  for k in ("discrete_euler:eulerdamp_on", "discrete_euler:eulerdamp_off"):
    if not cov.get(k):
      unmet.append(f"never observed: {k}")
  if "invdiscrete+implicit" not in cov.get("rejections", []) and tier == "quick":
    unmet.append("expected rejection invdiscrete+implicit not observed (behaviour changed: extend the workload)")
  if agg["distinct"] < 30:
    unmet.append("fewer than 30 distinct non-trivial cases")
  return unmet
