"""C26 Forward and inverse dynamics are consistent.

Two oracles on generated models x 3 worlds:
  I  round trip (no reference engine): after mjw.forward(), mjw.inverse() on the same state returns
     qfrc_inverse == qfrc_applied + J^T xfrc_applied + qfrc_actuator  (= qfrc_smooth - qfrc_passive + qfrc_bias of the
     forward pass) up to float32 round-off (constraint-free) or the forward solver's convergence (constrained, judged only
     when the solver did not hit its iteration limit).  With INVDISCRETE the acceleration handed to inverse() is the discrete
     one the Euler / implicitfast step actually used, (qvel+ - qvel)/h from a real mjw.step() of the same state, and
     inverse() must restore d.qacc to it.
  II differential: qfrc_inverse vs mujoco.mj_inverse fed with the *same* float32 state and the same qacc (so the forward
     solvers' tolerances do not enter), gated on equal constraint row counts.

The 'nl' family drives the non-linear passive terms through both oracles: polynomial joint damping (MJCF
damping="b p0 p1" -> dof_dampingpoly, including joints whose linear coefficient is 0 and models where every linear
coefficient is 0), polynomial joint stiffness (jnt_stiffnesspoly), polynomial tendon damping / stiffness, tendon armature,
for every integrator x INVDISCRETE x EULERDAMP on/off, and with the DAMPER / SPRING disable flags.  With these terms the
integrators' implicit damping matrix (d force / d velocity) differs from the damping coefficient (force / velocity), so a
discrete->continuous conversion that is not the exact inverse of the step's update becomes visible.
"""

import mujoco
import numpy as np

from mon import cmp, core, gen, mw
from mon.props import _step

ID = "C26"
LEVEL = "exploration"
RULE = (
  "case=(kind,seed,integrator,invdiscrete): kind 'free' = constraint-free generated tree with springs/dampers/gravcomp/fluid/"
  "tendons/actuators (ctrl inside and far outside ctrlrange, no muscles) and random qfrc_applied/xfrc_applied; 'soft' = plus limits, "
  "equalities, frictionloss; 'contact' = free bodies resting on a plane; 3 worlds with different random states. "
  "nl=1 cases ('nlfree'/'nlsoft'/'nlflag' ids): the compiled model additionally gets random polynomial damping / stiffness "
  "coefficients on joints and tendons (what MJCF damping=\"b p0 p1\" / stiffness=\"k p0 p1\" compile to; linear part sometimes 0 "
  "on one joint or on all), more tendons with damping and armature; 'nlflag' also sets the DAMPER or SPRING disable flag. "
  "Non-trivial: nv>=2 and both oracles evaluated on >=1 world; distinct by hash(xml, coefficients, flags, states)."
)
ASSUMPTIONS = [
  "round trip: bound a*S with S=max(1, max_i sum_j|M_ij||qacc_j|, |qfrc_smooth|, |qfrc_constraint|, |qfrc_bias|, |qfrc_passive|) "
  "(row-wise backward-error scale; never below a tenth of the norm-wise a*max(||M||*||qacc||,...)), a=1e-4 "
  "constraint-free, a=3e-3 constrained and converged (forward solver tolerance); violation above 30x; differential: 1e-4 / "
  "1e-3 of the scale of the cancelling terms",
  "INVDISCRETE: the discrete acceleration is formed in float32 as (qvel+ - qvel)/h, its cancellation error eps32*|qvel_j|/h "
  "propagated through |M| is added to the bound",
  "differential: MuJoCo 3.13 mj_inverse on the same state and the same qacc; noise floor from +-2ulp probes of qpos/qvel",
  "INVDISCRETE with the implicit integrator is rejected by MJWarp (NotImplementedError) and with RK4 by both engines: "
  "counted as rejected, not as findings",
  "muscles are excluded (the open C08 finding implicit:actuator_vel_derivative_muscle_gain_missing would otherwise be "
  "re-reported through the discrete->continuous conversion); worlds where MuJoCo 3.13 applies its extra implicit treatment "
  "of free bodies are skipped for oracle II",
  "nl family: polynomial coefficients are written into the compiled MjModel (dof_dampingpoly, jnt_stiffnesspoly, "
  "tendon_dampingpoly, tendon_stiffnesspoly; all dofs of a joint get the same pair, as the MJCF compiler does); MuJoCo 3.13 "
  "implements the same polynomial terms and is the reference of oracle II; coefficients are non-negative",
  "a world counts as 'poly term observable' when h*(dF/dv - F/v)*|qacc| of the polynomial joint damping exceeds the violation "
  "line (30 x bound): only there can a wrong implicit-damping coefficient be seen; the requirement asks for such worlds",
]
BUDGET = {"quick": 240, "thorough": 1200}

INT_ENUM = {"Euler": 0, "RK4": 1, "implicit": 2, "implicitfast": 3}

P_FREE = gen.profile(
  nbody=(2, 7),
  p_spring=0.5,
  p_damping=0.7,
  p_armature=0.5,
  p_gravcomp=0.3,
  fluid=0.3,
  tendon_fixed=0.4,
  tendon_spatial=0.3,
  p_mocap=0.1,
  actuators=3,
  act_kinds=("motor", "position", "velocity", "general", "damper", "cylinder", "intvelocity"),
  act_trn=("joint", "tendon", "site", "jointinparent", "slidercrank"),
  act_ball=False,
)
P_SOFT = gen.profile(
  nbody=(2, 7),
  p_spring=0.4,
  p_damping=0.6,
  p_armature=0.5,
  tendon_fixed=0.5,
  tendon_spatial=0.3,
  p_limit=0.6,
  p_frictionloss=0.3,
  equality=2,
  actuators=2,
  act_kinds=("motor", "position", "general"),
  act_ball=False,
  p_mocap=0.1,
)


# non-linear passive family: more dampers and tendons (with armature) than the base profiles
P_NLFREE = dict(P_FREE, p_damping=0.8, p_spring=0.6, tendon_fixed=0.6, tendon_spatial=0.4, p_tendon_armature=0.5)
P_NLSOFT = dict(P_SOFT, p_damping=0.8, p_spring=0.6, tendon_fixed=0.6, tendon_spatial=0.4, p_tendon_armature=0.5)

# (integrator, invdiscrete, EULERDAMP disabled)
NL_COMBOS = [("Euler", 1, 0), ("implicitfast", 1, 0), ("Euler", 1, 1), ("Euler", 0, 0), ("Euler", 1, 0), ("implicitfast", 1, 0), ("implicitfast", 0, 0), ("implicit", 0, 0), ("Euler", 1, 0), ("implicitfast", 1, 0), ("Euler", 1, 1), ("RK4", 0, 0)]
# (integrator, invdiscrete, EULERDAMP disabled, disable flag)
NLFLAG_COMBOS = [("Euler", 1, 0, "DAMPER"), ("implicitfast", 1, 0, "DAMPER"), ("Euler", 1, 0, "SPRING"), ("implicitfast", 1, 0, "SPRING"), ("Euler", 1, 1, "DAMPER"), ("Euler", 0, 0, "DAMPER"), ("Euler", 1, 0, "DAMPER"), ("implicitfast", 0, 0, "DAMPER")]


def cases(tier, seed):
  nf, ns, nc = (64, 32, 16) if tier == "quick" else (1600, 800, 400)
  combos = [("Euler", 0), ("Euler", 1), ("implicitfast", 1), ("implicitfast", 0), ("Euler", 1), ("implicit", 0), ("implicitfast", 1), ("RK4", 0)]
  out = []
  for kind, cnt, off in (("free", nf, 0), ("soft", ns, 20000), ("contact", nc, 40000)):
    for i in range(cnt):
      integ, disc = combos[i % len(combos)]
      out.append({"id": f"{kind}{seed}_{i}", "kind": kind, "seed": seed * 100000 + off + i, "integrator": integ, "invdiscrete": disc, "eulerdamp": int(i % 16 >= 8), "weight": 1 if kind == "free" else 2})
  # expected rejections are exercised too
  out.append({"id": f"rej{seed}_0", "kind": "free", "seed": seed * 100000 + 90000, "integrator": "implicit", "invdiscrete": 1, "eulerdamp": 0, "weight": 1})
  out.append({"id": f"rej{seed}_1", "kind": "free", "seed": seed * 100000 + 90001, "integrator": "RK4", "invdiscrete": 1, "eulerdamp": 0, "weight": 1})
  # non-linear passive terms (polynomial damping / stiffness on joints and tendons, tendon armature)
  nnf, nns, nnd = (48, 12, 16) if tier == "quick" else (1200, 300, 160)
  for kind, cnt, off in (("free", nnf, 50000), ("soft", nns, 60000)):
    for i in range(cnt):
      integ, disc, ed = NL_COMBOS[i % len(NL_COMBOS)]
      out.append({"id": f"nl{kind}{seed}_{i}", "kind": kind, "nl": 1, "seed": seed * 100000 + off + i, "integrator": integ, "invdiscrete": disc, "eulerdamp": ed, "weight": 1 if kind == "free" else 2})
  for i in range(nnd):
    integ, disc, ed, flag = NLFLAG_COMBOS[i % len(NLFLAG_COMBOS)]
    out.append({"id": f"nlflag{seed}_{i}", "kind": "free", "nl": 1, "dsbl": flag, "seed": seed * 100000 + 70000 + i, "integrator": integ, "invdiscrete": disc, "eulerdamp": ed, "weight": 1})
  out.append({"id": f"rej{seed}_2", "kind": "free", "nl": 1, "seed": seed * 100000 + 90002, "integrator": "implicit", "invdiscrete": 1, "eulerdamp": 0, "weight": 1})
  return out


def add_nonlinear_passive(mjm, rng):
  """Random polynomial damping / stiffness coefficients on the compiled model (what MJCF damping="b p0 p1" and
  stiffness="k p0 p1" on <joint> and tendons compile to).  Returns the set of features switched on."""
  feat = set()

  def pair(lo0, hi0, lo1, hi1):
    p = np.array([rng.uniform(lo0, hi0), rng.uniform(lo1, hi1)])
    z = rng.random()
    if z < 0.15:
      p[0] = 0.0  # cubic term only
    elif z < 0.3:
      p[1] = 0.0  # quadratic term only
    return p

  for j in range(mjm.njnt):
    nd = {int(mujoco.mjtJoint.mjJNT_FREE): 6, int(mujoco.mjtJoint.mjJNT_BALL): 3}.get(int(mjm.jnt_type[j]), 1)
    a = int(mjm.jnt_dofadr[j])
    if rng.random() < 0.75:
      mjm.dof_dampingpoly[a : a + nd] = pair(0.05, 2.0, 0.02, 0.5)
      feat.add("nl:dof_dampingpoly")
      z = rng.random()
      if z < 0.25:
        mjm.dof_damping[a : a + nd] = 0.0
        feat.add("nl:dof_dampingpoly_linear0")
      elif mjm.dof_damping[a] == 0 and z < 0.6:
        mjm.dof_damping[a : a + nd] = rng.uniform(0.05, 3)
    if rng.random() < 0.5:
      mjm.jnt_stiffnesspoly[j] = pair(0.5, 10.0, 0.5, 10.0)
      feat.add("nl:jnt_stiffnesspoly")
      if mjm.jnt_stiffness[j] != 0 and rng.random() < 0.25:
        mjm.jnt_stiffness[j] = 0.0
        feat.add("nl:jnt_stiffnesspoly_linear0")
  if feat & {"nl:dof_dampingpoly"} and rng.random() < 0.2:
    mjm.dof_damping[:] = 0.0  # no linear joint damping anywhere: only the polynomial terms make the step implicit
    feat.add("nl:all_linear_dof_damping_0")
  for t in range(mjm.ntendon):
    if rng.random() < 0.7:
      mjm.tendon_dampingpoly[t] = pair(0.05, 2.0, 0.02, 0.5)
      feat.add("nl:tendon_dampingpoly")
      if rng.random() < 0.25:
        mjm.tendon_damping[t] = 0.0
        feat.add("nl:tendon_dampingpoly_linear0")
    if rng.random() < 0.5:
      mjm.tendon_stiffnesspoly[t] = pair(1.0, 20.0, 1.0, 20.0)
      feat.add("nl:tendon_stiffnesspoly")
  if mjm.ntendon and np.any(mjm.tendon_armature > 0):
    feat.add("nl:tendon_armature")
  return feat


def damping_terms(mjm, qvel):
  """Per-dof joint damping of the state: (F/v, dF/dv) = (b + p0|v| + p1 v^2, b + 2 p0|v| + 3 p1 v^2)."""
  v = np.abs(np.asarray(qvel, dtype=np.float64)[: mjm.nv])
  b, p = np.array(mjm.dof_damping, dtype=np.float64), np.array(mjm.dof_dampingpoly, dtype=np.float64).reshape(mjm.nv, 2)
  return b + p[:, 0] * v + p[:, 1] * v * v, b + 2 * p[:, 0] * v + 3 * p[:, 1] * v * v


def build_model(case, rng):
  from mon.props import C08

  kind = case["kind"]
  if kind == "contact":
    xml = C08.contact_xml(rng)
    mjm = mujoco.MjModel.from_xml_string(xml)
    feat = ["contact_scene", "joint:free"]
  else:
    if case.get("nl"):
      P = P_NLFREE if kind == "free" else P_NLSOFT
    else:
      P = P_FREE if kind == "free" else P_SOFT
    xml, mjm, feat, _ = gen.make_model(case["seed"], P, accept=_step.well_conditioned)
    if mjm is None:
      return None, None, None
  feat = list(feat)
  if case.get("nl"):
    feat += sorted(add_nonlinear_passive(mjm, rng))
  if case.get("dsbl"):
    mjm.opt.disableflags |= int(getattr(mujoco.mjtDisableBit, "mjDSBL_" + case["dsbl"]))
    feat.append("nl:disable_" + case["dsbl"])
  mjm.opt.integrator = INT_ENUM[case["integrator"]]
  if case["invdiscrete"]:
    mjm.opt.enableflags |= int(mujoco.mjtEnableBit.mjENBL_INVDISCRETE)
  if case["eulerdamp"]:
    mjm.opt.disableflags |= int(mujoco.mjtDisableBit.mjDSBL_EULERDAMP)
  if kind != "free":
    mjm.opt.iterations = 100
    mjm.opt.ls_iterations = 50
  return xml, mjm, list(feat)


def sample_states(mjm, rng, kind):
  states = []
  for w in range(3):
    st = gen.sample_state(mjm, rng, vel=float(rng.choice([0.3, 3.0])) if kind != "contact" else 0.5, quat_scale=(kind != "contact"))
    if kind == "contact":
      st["qpos"] = np.array(mjm.qpos0, dtype=np.float32)
      st["qpos"][2::7] -= rng.uniform(0, 0.005, size=st["qpos"][2::7].shape).astype(np.float32)
      st["xfrc_applied"] = (st["xfrc_applied"] * 0.2).astype(np.float32)
    st["qacc_warmstart"] = np.zeros(mjm.nv, np.float32)
    if int(mjm.opt.integrator) == int(mujoco.mjtIntegrator.mjINT_IMPLICITFAST):
      _step.neutralise_lone_free(mjm, st)
    states.append(st)
  return states


def run_case(case):
  import warp as wp

  import mujoco_warp as mjw

  rec = core.Rec(case)
  rng = np.random.default_rng(case["seed"])
  xml, mjm, feat = build_model(case, rng)
  if mjm is None:
    rec.rejected = "mujoco compile"
    return rec.result()
  try:
    m = mw.put_model(mjm)
  except (NotImplementedError, ValueError) as e:
    rec.rejected = f"put_model: {e}"[:200]
    return rec.result()
  integ, disc = case["integrator"], bool(case["invdiscrete"])
  h = float(mjm.opt.timestep)
  nv = mjm.nv
  states = sample_states(mjm, rng, case["kind"])
  nworld = len(states)
  need_j = need_c = 0
  for st in states:
    d0 = mujoco.MjData(mjm)
    mw.apply_state_mj(mjm, d0, st)
    mujoco.mj_forward(mjm, d0)
    need_j, need_c = max(need_j, int(d0.nefc)), max(need_c, int(d0.ncon))
  caps = dict(njmax=next(c for c in (64, 128, 256, 4096) if c >= 1.5 * need_j + 8), nconmax=next(c for c in (48, 96, 4096) if c >= 1.5 * need_c + 4))

  d = mw.make_data(mjm, m, states, **caps)
  d.overflow.zero_()
  mjw.forward(m, d)
  fwd = {k: np.array(mw.npy(getattr(d, k))) for k in ("qacc", "qfrc_smooth", "qfrc_passive", "qfrc_bias", "qfrc_constraint", "qfrc_actuator", "qfrc_applied", "nefc", "overflow", "M")}
  qacc_in = fwd["qacc"].copy()
  cancel = np.zeros(nworld)
  cancel_dof = np.zeros((nworld, nv))
  if disc:
    # the acceleration that the real step used: (qvel+ - qvel)/h in float32
    d1 = mw.make_data(mjm, m, states, **caps)
    try:
      mjw.step(m, d1)
    except NotImplementedError as e:
      rec.rejected = f"step: {e}"[:200]
      return rec.result()
    qv1 = np.array(mw.npy(d1.qvel))
    qv0 = np.stack([s["qvel"] for s in states]).astype(np.float32)
    qacc_in = ((qv1[:, :nv] - qv0) / np.float32(h)).astype(np.float32)
    cancel = np.finfo(np.float32).eps * np.maximum(np.abs(qv0).max(axis=1, initial=0), np.abs(qv1[:, :nv]).max(axis=1, initial=0)) / h
    cancel_dof = np.finfo(np.float32).eps * np.maximum(np.abs(qv0), np.abs(qv1[:, :nv])).astype(np.float64) / h
    wp.copy(d.qacc, wp.array(qacc_in, dtype=float))
  try:
    mjw.inverse(m, d)
  except NotImplementedError as e:
    rec.rejected = f"inverse: {e}"[:200]
    rec.count("rejected:" + ("invdiscrete+" + integ if disc else integ))
    rec.cover("rejections", "invdiscrete+" + integ if disc else integ)
    return rec.result()
  got = np.array(mw.npy(d.qfrc_inverse))
  qacc_after = np.array(mw.npy(d.qacc))
  nefc_inv = np.array(mw.npy(d.nefc))
  judged_I = judged_II = 0
  nl = bool(case.get("nl"))
  dsbl = case.get("dsbl")
  passive_observable = 0
  nlterm = np.zeros(nworld)  # non-linear part of the implicit joint-damping term, per world
  line = np.full(nworld, np.inf)  # lowest violation line among the oracles that judged the world
  line_I = np.full(nworld, np.inf)  # violation line of the round trip alone
  mjm_lin = None
  if nl:
    # the same model without the polynomial coefficients: measures how much of the passive force is non-linear
    import copy

    mjm_lin = copy.copy(mjm)
    for k in ("dof_dampingpoly", "jnt_stiffnesspoly", "tendon_dampingpoly", "tendon_stiffnesspoly"):
      getattr(mjm_lin, k)[:] = 0.0
  for w, st in enumerate(states):
    Md = mw.dense_M(mjm, fwd["M"][w])
    ovf = int(fwd["overflow"][w])
    constrained = int(fwd["nefc"][w]) > 0
    # inverse() must leave d.qacc as it found it
    rec.check()
    if qacc_after[w][:nv].tobytes() != qacc_in[w][:nv].tobytes():
      rec.viol("inverse_changes_qacc", f"inverse() did not restore d.qacc (invdiscrete={disc}, {integ}) world {w}")
    # ---- I round trip
    if not np.all(np.isfinite(fwd["qacc"][w])) or np.abs(fwd["qacc"][w]).max(initial=0) > 1e6 or not np.all(np.isfinite(qacc_in[w])) or np.abs(qacc_in[w]).max(initial=0) > 1e6:
      rec.inconcl("forward / step diverged")
      continue
    if ovf & (_step.OVF_CAP | _step.OVF_ITER):
      rec.count("worlds_ungated_overflow_or_iterations")
    else:
      expected = fwd["qfrc_smooth"][w].astype(np.float64) - fwd["qfrc_passive"][w] + fwd["qfrc_bias"][w]
      S = max(1.0, float(np.abs(Md @ fwd["qacc"][w][:nv].astype(np.float64)).max(initial=0)), float(np.abs(fwd["qfrc_smooth"][w]).max(initial=0)), float(np.abs(fwd["qfrc_constraint"][w]).max(initial=0)))
      S = max(S, float(np.abs(Md).sum(axis=1).max()) * float(np.abs(fwd["qacc"][w][:nv]).max(initial=0)))  # backward-error scale
      a = 3e-3 if constrained else 1e-4
      bound_norm = a * S + 4 * cancel[w] * float(np.abs(Md).sum(axis=1).max())
      # row-wise backward-error scale: max_i sum_j |M_ij| |qacc_j| instead of ||M|| * max|qacc| (a heavy dof next to a light,
      # strongly accelerated one inflates the norm product by orders of magnitude and would hide wrong terms on the light
      # dof), the largest force term, and the float32 cancellation of (qvel+ - qvel)/h propagated through |M| per dof.
      # Never less than a tenth of the norm-wise bound.
      absM = np.abs(Md)
      S_row = max(1.0, float((absM @ np.abs(fwd["qacc"][w][:nv].astype(np.float64))).max(initial=0)), float((absM @ np.abs(qacc_in[w][:nv].astype(np.float64))).max(initial=0)), *[float(np.abs(fwd[k][w]).max(initial=0)) for k in ("qfrc_smooth", "qfrc_constraint", "qfrc_bias", "qfrc_passive")])
      bound = max(a * S_row + 4 * float((absM @ cancel_dof[w]).max(initial=0)), 0.1 * bound_norm)
      rec.check()
      g = got[w][:nv].astype(np.float64)
      err = float(np.abs(g - expected[:nv]).max()) if np.all(np.isfinite(g)) else float("inf")
      name = ("roundtrip_discrete" if disc else "roundtrip") + ("_constrained" if constrained else "")
      rec.worst(name, err / bound)
      judged_I += 1
      coef, deriv = damping_terms(mjm, st["qvel"])
      if nl:
        # part of the step's implicit joint-damping term that exists only because the damping is non-linear
        nlterm[w] = float((h * (deriv - coef) * np.abs(qacc_in[w][:nv].astype(np.float64))).max(initial=0))
        line[w] = line_I[w] = 30 * bound
        dl = mujoco.MjData(mjm_lin)
        mw.apply_state_mj(mjm_lin, dl, st)
        mujoco.mj_forward(mjm_lin, dl)
        if float(np.abs(fwd["qfrc_passive"][w][:nv] - dl.qfrc_passive).max(initial=0)) > 30 * bound:
          passive_observable += 1
      if err > 30 * bound:
        i = int(np.argmax(np.abs(g - expected[:nv]))) if np.isfinite(err) else 0
        sig = f"{name}[{integ}]"
        if disc and integ == "Euler" and dsbl == "DAMPER" and not case["eulerdamp"] and np.isfinite(err):
          # mechanism test: discrete_acc() applied (M + h*D) qacc although euler() skipped the implicit damping because
          # the DAMPER disable flag is set => qfrc_inverse - expected = h * D * qacc_discrete
          r = g - expected[:nv]
          hyp = h * deriv * qacc_in[w][:nv].astype(np.float64)
          if float(np.abs(r - hyp).max()) <= 0.05 * float(np.abs(r).max()) + bound:
            sig = "discrete_acc[Euler]:implicit_damping_applied_although_DAMPER_disabled"
        rec.viol(sig, f"qfrc_inverse differs from qfrc_applied+J'xfrc+qfrc_actuator by {err:.3g} (> 30 x bound {bound:.3g}, S={S:.3g}) at dof {i} world {w}; invdiscrete={disc} integrator={integ} nefc={int(fwd['nefc'][w])}", got=g[max(0, i - 2) : i + 3], expected=expected[max(0, i - 2) : i + 3])
      elif err > bound:
        rec.inconcl(f"{name}: between bound and violation line")
    # ---- II differential with the same qacc
    if disc and _step.mujoco_extra_treatment(mjm, st):
      rec.count("worlds_skew_mujoco313_implicit_extra_treatment")
      continue
    if disc and integ == "Euler" and dsbl == "DAMPER" and not case["eulerdamp"]:
      # MuJoCo 3.13's mj_discreteAcc applies (M + h*D) here although mj_Euler skipped the implicit damping (measured: its own
      # step -> inverse round trip is off by h*D*qacc): not a reference for this configuration, the round trip judges it
      rec.count("worlds_reference_discreteAcc_ignores_DAMPER_flag")
      continue
    qa = qacc_in[w][:nv].astype(np.float64)

    def stage(mm, dd, qa=qa):
      mujoco.mj_forward(mm, dd)  # as in the observed flow: actuator forces / act_dot of the forward pass are in Data
      dd.qacc[:] = qa
      mujoco.mj_inverse(mm, dd)

    def extract(mm, dd):
      return {"qfrc_inverse": dd.qfrc_inverse, "struct": np.array([dd.ne, dd.nf, dd.nl, dd.nefc], dtype=np.float64), "terms": np.array([np.abs(dd.qfrc_bias).max(initial=0), np.abs(dd.qfrc_passive).max(initial=0), np.abs(dd.qfrc_constraint).max(initial=0), np.abs(dd.qfrc_inverse + dd.qfrc_passive + dd.qfrc_constraint - dd.qfrc_bias).max(initial=0)])}

    ref, noise, mjd = cmp.reference(mjm, st, stage, extract, seed=case["seed"] + w)
    if noise["struct"] != 0 or int(ref["struct"][3]) != int(nefc_inv[w]):
      rec.count("worlds_ungated_structure")
      continue
    # the natural scale of qfrc_inverse is that of its cancelling terms (M qacc, bias, passive, constraint): append it as
    # a sentinel element to both arrays so that cmp.judge uses it as the field scale
    terms = max(1.0, float(ref["terms"].max()))
    name = "qfrc_inverse_discrete" if disc else "qfrc_inverse"
    allow = 1e-3 if int(ref["struct"][3]) else 1e-4
    verdict = cmp.judge(rec, name, np.append(got[w][:nv].astype(np.float64), terms), np.append(ref["qfrc_inverse"], terms), allow, noise["qfrc_inverse"], sig_prefix=f"{integ}:", ctx=f"world {w} invdiscrete={disc} nefc={int(ref['struct'][3])}")
    judged_II += 1
    if nl and verdict != "incon" and np.isfinite(noise["qfrc_inverse"]):
      line[w] = min(line[w], cmp.VIOL_FACTOR * (allow * max(terms, float(np.abs(ref["qfrc_inverse"]).max(initial=0))) + cmp.C_NOISE * noise["qfrc_inverse"]))
  tag = f"{integ}:{'discrete' if disc else 'continuous'}"
  rec.cover("roundtrip_worlds:" + tag, judged_I)
  rec.cover("differential_worlds:" + tag, judged_II)
  rec.cover("kind:" + case["kind"], judged_I)
  if int(fwd["nefc"].max()) > 0:
    rec.cover("constrained:" + tag, 1)
  if disc and integ == "Euler":
    rec.cover("discrete_euler:eulerdamp_" + ("off" if case["eulerdamp"] else "on"), 1)
  for f in feat:
    rec.cover("features", f)
  if nl:
    ntag = tag + (":eulerdamp_" + ("off" if case["eulerdamp"] else "on") if disc and integ == "Euler" else "") + (":disable_" + dsbl if dsbl else "")
    rec.cover("nl:roundtrip_worlds:" + ntag, judged_I)
    rec.cover("nl:differential_worlds:" + ntag, judged_II)
    rec.cover("nl:nonlinear_passive_force_observable_worlds", passive_observable)
    if disc and dsbl != "DAMPER" and (integ == "implicitfast" or (integ == "Euler" and not case["eulerdamp"])):
      # worlds in which the step integrated polynomial joint damping implicitly and the non-linear part of that term is
      # above the violation line of an oracle that judged the world
      rec.cover(f"nl:poly_implicit_damping_term_observable_worlds:{integ}", int(np.sum(nlterm > line)))
      rec.cover(f"nl:poly_implicit_damping_term_observable_worlds_roundtrip_only:{integ}", int(np.sum(nlterm > line_I)))
    if judged_I or judged_II:
      for f in feat:
        if f.startswith("nl:") or f in ("tendon_damping", "tendon_spring"):
          rec.cover("nl:judged_cases_with:" + f.replace("nl:", ""), 1)
  if nv >= 2 and judged_I and judged_II:
    rec.nontrivial(xml, integ, disc, case["eulerdamp"], dsbl, mjm.dof_damping, mjm.dof_dampingpoly, mjm.jnt_stiffnesspoly, mjm.tendon_dampingpoly, mjm.tendon_stiffnesspoly, *[s["qpos"] for s in states], *[s["qvel"] for s in states])
  rec.sample = {"kind": case["kind"], "nl": nl, "disable": dsbl, "integrator": integ, "invdiscrete": disc, "nv": nv, "nu": mjm.nu, "nefc": fwd["nefc"].tolist(), "roundtrip_worlds": judged_I, "differential_worlds": judged_II}
  return rec.result()


def requirements(agg, tier):
  unmet = []
  cov = agg["cover"]
  for tag in ("Euler:continuous", "Euler:discrete", "implicitfast:discrete", "implicitfast:continuous"):
    if cov.get("roundtrip_worlds:" + tag, 0) < 15:
      unmet.append(f"fewer than 15 round-trip worlds for {tag}")
    if cov.get("differential_worlds:" + tag, 0) < 15:
      unmet.append(f"fewer than 15 differential worlds for {tag}")
    if cov.get("constrained:" + tag, 0) < 2:
      unmet.append(f"no constrained case for {tag}")
  for k in ("discrete_euler:eulerdamp_on", "discrete_euler:eulerdamp_off"):
    if not cov.get(k):
      unmet.append(f"never observed: {k}")
  # non-linear passive family: must have been judged in every configuration, with terms large enough to be seen
  for ntag in ("Euler:discrete:eulerdamp_on", "Euler:discrete:eulerdamp_off", "implicitfast:discrete", "Euler:continuous", "implicitfast:continuous", "Euler:discrete:eulerdamp_on:disable_DAMPER", "implicitfast:discrete:disable_DAMPER", "Euler:discrete:eulerdamp_on:disable_SPRING"):
    if cov.get("nl:roundtrip_worlds:" + ntag, 0) < 3:
      unmet.append(f"non-linear passive terms: fewer than 3 round-trip worlds for {ntag}")
    if cov.get("nl:differential_worlds:" + ntag, 0) < 3 and ntag != "Euler:discrete:eulerdamp_on:disable_DAMPER":  # no reference there
      unmet.append(f"non-linear passive terms: fewer than 3 differential worlds for {ntag}")
  for integ in ("Euler", "implicitfast"):
    if cov.get(f"nl:poly_implicit_damping_term_observable_worlds:{integ}", 0) < 6:
      unmet.append(f"polynomial joint damping: fewer than 6 {integ} INVDISCRETE worlds where the non-linear part of the implicit damping term exceeds the violation line")
  if cov.get("nl:nonlinear_passive_force_observable_worlds", 0) < 30:
    unmet.append("fewer than 30 worlds whose polynomial passive force exceeds the violation line")
  for f in ("dof_dampingpoly", "dof_dampingpoly_linear0", "all_linear_dof_damping_0", "jnt_stiffnesspoly", "tendon_dampingpoly", "tendon_stiffnesspoly", "tendon_armature", "tendon_damping"):
    if cov.get("nl:judged_cases_with:" + f, 0) < 2:
      unmet.append(f"non-linear passive terms: fewer than 2 judged cases with {f}")
  if "invdiscrete+implicit" not in cov.get("rejections", []) and tier == "quick":
    unmet.append("expected rejection invdiscrete+implicit not observed (behaviour changed: extend the workload)")
  if agg["distinct"] < 30:
    unmet.append("fewer than 30 distinct non-trivial cases")
  return unmet
