"""C20 Contacts are geometrically valid.

Engine-independent invariant monitor on the contacts mjw.collision reports (no MuJoCo collision code is consulted for
the verdicts; MuJoCo only supplies float64 geom poses through mj_kinematics and steers the generator):
 (a) frame is orthonormal and right-handed;
 (b) the normal points from geom1 to geom2 - metamorphic: moving geom2 by +eps along the normal of a pair's deepest contact
     and re-running collision must raise that pair's deepest distance by ~eps;
 (c) dist is the signed separation along the normal: it equals the float64 support-function gap
     min_{p2} n.p2 - max_{p1} n.p1 along the reported normal, no nearby direction has a larger gap (the signed distance of
     two convex shapes is the maximum gap over directions), and for pair types with a closed form it equals that value;
 (d) pos lies midway: pos -/+ n*dist/2 lie on the surfaces of geom1 / geom2 (float64 signed distance functions).
"""

import mujoco
import numpy as np

from mon import core, mw
from mon.props import _col, _colbatch

ID = "C20"
LEVEL = "exploration"
RULE = (
  "case=(pair type, flag set, seed): 5 independent pairs of one of the 33 collision-table types x 3 worlds, steered by "
  "bisection to penetrating / grazing / margin-band / gap-band distances, 25% axis-aligned orientations, random sizes, margins "
  "and gaps (flag sets: default, MULTICCD disabled, NATIVECCD+MULTICCD disabled for box-box primitive); plus 'crowd' scenes of "
  "8-14 mixed geoms over plane / height field for (a),(c),(d); plus 'batch' scenes (6 pair slots cycling through the table x 3 "
  "worlds) whose Model carries per-world rows: geom sizes, mesh assignment (geom_dataid), geom frame offsets (geom_pos / "
  "geom_quat, pose of the static plane), margins, gaps, pair margins / gaps and everything MuJoCo derives from them (rbound, "
  "aabb, mesh frames) differ between worlds, every batched Model field with its own random leading size (1..3, world w reads "
  "row w % size), each world judged against its own MuJoCo-compiled variant. Non-trivial: >=1 contact judged by (c) or (d); "
  "distinct by hash(xml, poses). Plus 'deep' scenes for the 13 closed-form primitive pair types: the same 5 pairs x 3 worlds with random "
  "(never axis-aligned) rotations and one geom's centre at an inner point of the other (under the plane for plane pairs), where (b),(c),(d) "
  "are judged at any depth."
)
ASSUMPTIONS = [
  "geom poses are taken from mj_kinematics (float64) at the same float32-representable qpos; MJWarp's own float32 poses differ by <=1e-6",
  "support functions / signed distance functions of plane, sphere, capsule, ellipsoid (first order), cylinder, box and convex mesh are written here in float64",
  "(c) and (d) are applied to the deepest contact of every pair; to every contact only for pair types handled by closed-form "
  "primitive functions (multi-contact manifolds of polytopes share one distance by construction and are not unique)",
  "height-field pairs: only (a) and (b) are decidable here (non-convex terrain has no support function)",
  "pairs whose centres coincide (normal undefined) and penetrations deeper than half the smaller geom are not judged by (b),(c) - "
  "except in the 'deep' scenes of the closed-form primitive pair types, whose functions have an explicit deep-penetration branch",
  "per-world Model cases: world w of a Model whose batched fields have leading sizes n_f means 'field f = row w % n_f'; the rows are "
  "put_model's own values for NWORLD MuJoCo-compiled MJCF variants (mon/props/_colbatch.py), geom_xpos/geom_xmat of static geoms "
  "(never written by kinematics()) are set per world from mj_kinematics, and Model fields that only describe the inertia "
  "structure follow world 0 (only kinematics + collision run)",
]
BUDGET = {"quick": 450, "thorough": 2400}

EPS = 1e-3
TOL = {"prim": dict(gap=3e-5, surf=3e-5, closed=2e-5, maxi=1e-4), "ccd": dict(gap=3e-4, surf=1e-3, closed=2e-4, maxi=2e-3)}


def cases(tier, seed):
  out = []
  reps = 1 if tier == "quick" else 12
  k = 0
  for r in range(reps):
    for t1, t2 in _col.PAIR_TABLE:
      for fs in ("nomulti", "default"):
        if tier == "quick" and fs == "default" and not (t1 in _col.FLAT and t2 in _col.FLAT):
          continue
        out.append({"id": f"pair{seed}_{r}_{t1}-{t2}_{fs}", "kind": "pair", "pair": [t1, t2], "flags": fs, "seed": seed * 1000003 + 300000 + k, "weight": 2})
        k += 1
    for t1, t2 in (("box", "box"), ("capsule", "capsule"), ("plane", "capsule")):
      out.append({"id": f"pair{seed}_{r}_{t1}-{t2}_nonative", "kind": "pair", "pair": [t1, t2], "flags": "nonative", "seed": seed * 1000003 + 300000 + k, "weight": 2})
      k += 1
  # deep penetrations of the closed-form primitive pair types (generic rotations, one geom's centre inside the other)
  for r in range(reps if tier == "quick" else 4):
    for t1, t2 in sorted(_col.PRIMITIVE_PAIRS) + [("box", "box")]:
      fs = "nonative" if (t1, t2) == ("box", "box") else "nomulti"
      out.append({"id": f"deep{seed}_{r}_{t1}-{t2}_{fs}", "kind": "deep", "pair": [t1, t2], "flags": fs, "seed": seed * 1000003 + 500000 + k, "weight": 2})
      k += 1
  ncrowd = 16 if tier == "quick" else 400
  for i in range(ncrowd):
    out.append({"id": f"crowd{seed}_{i}", "kind": "crowd", "flags": ("nomulti", "default", "nonative")[i % 3], "seed": seed * 1000003 + 800000 + i, "weight": 3})
  # per-world Model fields: 6 pair slots per scene cycling through the collision table (every type >= twice on quick)
  nbatch = 12 if tier == "quick" else 240
  T = _col.PAIR_TABLE
  for i in range(nbatch):
    slots = [list(T[(i * 6 + j + 5 * seed) % len(T)]) for j in range(6)]
    out.append({"id": f"batch{seed}_{i}", "kind": "batch", "pairs": slots, "flags": ("nomulti", "nonative", "nomulti", "default")[i % 4], "seed": seed * 1000003 + 900000 + i, "weight": 3})
  return out


def _numclass(t1, t2, flagset):
  return "prim" if ((t1, t2) in _col.PRIMITIVE_PAIRS or ((t1, t2) == ("box", "box") and flagset == "nonative")) else "ccd"


def local_max_gap(o1, o2, n, rng, rounds=3):
  """Largest support gap found near direction n (random local search, shrinking radius)."""
  best, bn = _col.support_gap(o1, o2, n), n
  rad = 0.3
  for _ in range(rounds):
    for _ in range(24):
      c = bn + rng.normal(size=3) * rad
      c /= np.linalg.norm(c)
      g = _col.support_gap(o1, o2, c)
      if g > best:
        best, bn = g, c
    rad *= 0.3
  return best, bn


def _other_world_row(mjm, mjd, qpos, bctx, g1, g2, o1, o2, n, dist, tol):
  """Names the mechanism of a violation in a per-world-Model case: does the reported dist fit the pair when one of the
  geoms (shape and frame offset) is taken from another world's row? Returns 'geom1' / 'geom2' / 'geom1+geom2' or None."""
  def fits(p1, p2):
    if abs(_col.support_gap(p1, p2, n) - dist) > tol["gap"]:
      return False
    cf = _col.closed_form_dist(p1, p2)
    return cf is None or abs(cf - dist) <= tol["closed"]

  if fits(o1, o2):
    return None  # dist is right for this world's own rows: the violation is about something else
  for w2, ma in enumerate(bctx["mjms"]):
    if w2 == bctx["w"]:
      continue
    d1, d2 = _geom_row_differs(mjm, ma, g1), _geom_row_differs(mjm, ma, g2)
    if not (d1 or d2):
      continue
    da = mujoco.MjData(ma)
    da.qpos[:] = qpos
    mujoco.mj_kinematics(ma, da)
    a1, a2 = _col.geo_of(ma, da, g1), _col.geo_of(ma, da, g2)  # the other world's shape and geom frame
    s1, s2 = _col.geo_of(ma, mjd, g1), _col.geo_of(ma, mjd, g2)  # the other world's shape in this world's geom frame
    for which, p1, p2, ok in (
      ("geom2", o1, s2, d2), ("geom1", s1, o2, d1), ("geom1+geom2", s1, s2, d1 and d2),
      ("geom2", o1, a2, d2), ("geom1", a1, o2, d1), ("geom1+geom2", a1, a2, d1 and d2),
    ):  # fmt: skip
      if ok and fits(p1, p2):
        return which
  return None


def _geom_row_differs(ma, mb, g):
  return not (
    np.array_equal(ma.geom_size[g], mb.geom_size[g])
    and ma.geom_dataid[g] == mb.geom_dataid[g]
    and np.array_equal(ma.geom_pos[g], mb.geom_pos[g])
    and np.array_equal(ma.geom_quat[g], mb.geom_quat[g])
  )


def check_world(rec, case, mjm, qpos, c, rng, bctx=None):
  """Static checks (a),(c),(d) on the contacts of one world. Returns {pair: (deepest index, dist, normal)}.

  bctx (per-world Model cases): {"w": world, "mjms": the MjModel of every world, "lead": leading sizes of Model fields}."""
  mjd = mujoco.MjData(mjm)
  mjd.qpos[:] = qpos
  mujoco.mj_kinematics(mjm, mjd)
  groups = _col.group_by_pair(c)
  mujoco.mj_collision(mjm, mjd)  # used only to name the mechanism of a violation (never for a verdict)
  refc = _col.mj_contacts(mjm, mjd)
  refg = _col.group_by_pair(refc)
  deepest = {}
  judged = 0
  for key, idx in groups.items():
    g1, g2 = key
    t1, t2 = _col.GEOM_NAMES[int(mjm.geom_type[g1])], _col.GEOM_NAMES[int(mjm.geom_type[g2])]
    pname = f"{t1}-{t2}"
    num = _numclass(t1, t2, case["flags"])
    tol = TOL[num]
    ctx = f"geoms ({g1},{g2}) {pname} flags={case['flags']}"
    rec.cover("contacts:" + pname, len(idx))
    # (a) frames
    for i in idx:
      rec.check()
      F = np.asarray(c["frame"][i], dtype=np.float64).reshape(3, 3)
      defect, det = _col.frame_defect(F)
      rec.worst("frame_orthonormality", defect / 1e-4)
      if not np.any(F):
        co = t1 not in ("plane", "hfield") and np.linalg.norm(mjd.geom_xpos[g1] - mjd.geom_xpos[g2]) < 1e-6
        rec.viol("frame-zero" + (":coincident-centres" if co else (":dist==0" if abs(float(c["dist"][i])) < 1e-7 else "")), f"contact frame is all zeros (dist {c['dist'][i]}) {ctx}")
      elif defect > 1e-4 or det < 0:
        fsig = f"frame-not-orthonormal:{pname}"
        if pname == "plane-capsule":
          pn = np.asarray(mjd.geom_xmat[g1], dtype=np.float64).reshape(3, 3)[:, 2]
          ax = np.asarray(mjd.geom_xmat[g2], dtype=np.float64).reshape(3, 3)[:, 2]
          if np.linalg.norm(ax - pn * (pn @ ax)) < 0.5 and (np.abs(F[1] - np.array([0.0, 1.0, 0.0])).max() < 1e-6 or np.abs(F[1] - np.array([0.0, 0.0, 1.0])).max() < 1e-6):
            fsig += ":fallback-tangent"  # plane_capsule's world-axis fallback tangent is not orthogonalised against the normal
        rec.viol(fsig, f"max|F F^T - I|={defect:.3g} det={det:.3g} frame={F.round(5).tolist()} {ctx}")
    b = idx[int(np.argmin(np.asarray(c["dist"])[idx]))]
    dist = float(c["dist"][b])
    n = np.asarray(c["frame"][b], dtype=np.float64).reshape(-1)[:3]
    ln = np.linalg.norm(n)
    coincident = t1 not in ("plane", "hfield") and np.linalg.norm(mjd.geom_xpos[g1] - mjd.geom_xpos[g2]) < 1e-6
    deepest[key] = [b, dist, n, coincident, ""]
    if t1 == "hfield":
      # a height field is the graph of a function: the direction from the terrain to the other geom never points downwards
      up = np.asarray(mjd.geom_xmat[g1], dtype=np.float64).reshape(3, 3)[:, 2]
      for i in idx:
        rec.check()
        ni = np.asarray(c["frame"][i], dtype=np.float64).reshape(-1)[:3]
        if float(ni @ up) < -0.05:
          di = float(c["dist"][i])
          rec.viol(
            "normal-into-terrain:hfield:" + ("dist>0" if di > 0 else "dist<=0"),
            f"height-field contact normal {ni} points into the terrain (n.up={float(ni @ up):.3g}), dist={di:.6g} {ctx}",
          )
      continue
    if ln < 0.5 or coincident:
      continue
    if abs(dist) < 2e-6 and num == "ccd":
      rec.count("unjudged:grazing")  # witness points coincide: the normal of an exactly touching convex pair is undefined
      deepest[key][3] = True
      continue
    n = n / ln
    o1, o2 = _col.geo_of(mjm, mjd, g1), _col.geo_of(mjm, mjd, g2)
    minsize = min(_minsize(mjm, g1), _minsize(mjm, g2))
    deep = dist < -0.5 * minsize
    if case["kind"] == "deep" and num == "prim":
      # deep family: a closed-form primitive function's answer is judged at any depth (the separation along the reported
      # normal and the two surface points are well defined as long as the centres do not coincide)
      inside = (_col.sdf(o1, o2.pos) < 0) or (t1 != "plane" and _col.sdf(o2, o1.pos) < 0)
      if inside:
        rec.cover("deep:judged_pairs_with_a_centre_inside_the_other_geom:" + pname, 1)
      deep = False
    # (c) signed separation along the normal
    if t1 == "plane":
      rec.check()
      dn = float(np.abs(n - o1.mat[:, 2]).max())
      rec.worst("plane_normal", dn / 1e-5)
      if dn > 3e-4:
        rec.viol(f"normal-not-plane-normal:{pname}", f"contact normal {n} vs plane normal {o1.mat[:, 2]} {ctx}")
    # mechanism tags for the signatures
    tag = ""
    if pname == "capsule-capsule" and np.linalg.norm(np.cross(o1.mat[:, 2], o2.mat[:, 2])) < 1e-4:
      tag = ":parallel-axes"
    dmj = None
    if t1 != "hfield":
      dmj = float(mujoco.mj_geomDistance(mjm, mjd, g1, g2, 1.0, None))
    ctx += f" mj_geomDistance={dmj}"
    deepest[key][4] = tag
    nv0 = len(rec.violations)
    gap = _col.support_gap(o1, o2, n)
    rec.check()
    judged += 1
    if bctx is not None:
      # what the per-world rows of this judged pair look like: a contact of world w is only informative about the row
      # a field is read from when the row some other world uses differs from its own
      for which, g in (("geom1", g1), ("geom2", g2)):
        if any(_geom_row_differs(mjm, mo, g) for mo in bctx["mjms"]):
          rec.cover(f"batch:judged_pairs:{which}_row_differs_between_worlds", 1)
          if bctx["w"] > 0 and not np.array_equal(mjm.geom_size[g], bctx["mjms"][0].geom_size[g]):
            rec.cover(f"batch:judged_pairs:world>0:{which}_size_differs_from_world0", 1)
            if bctx["lead"].get("geom_size", 1) != bctx["lead"].get("geom_dataid", 1):
              rec.cover(f"batch:judged_pairs:world>0:{which}_size_differs_from_world0:geom_size_rows!=geom_dataid_rows", 1)
          if bctx["w"] > 0 and mjm.geom_dataid[g] != bctx["mjms"][0].geom_dataid[g]:
            rec.cover(f"batch:judged_pairs:world>0:{which}_mesh_differs_from_world0", 1)
          if bctx["w"] > 0 and not (np.array_equal(mjm.geom_pos[g], bctx["mjms"][0].geom_pos[g]) and np.array_equal(mjm.geom_quat[g], bctx["mjms"][0].geom_quat[g])):
            rec.cover(f"batch:judged_pairs:world>0:{which}_frame_offset_differs_from_world0", 1)
    r = abs(gap - dist) / tol["gap"]
    if deep:
      rec.count("unjudged:deep_penetration")
      r = 0.0
    rec.worst(f"dist_vs_support_gap[{num}]", r / 30)
    gap_viol = r > 30
    if r > 30:
      rec.viol(f"dist-vs-support-gap:{pname}", f"dist={dist:.6g} but the float64 separation along the reported normal is {gap:.6g} (normal {n}) {ctx}")
    elif r > 1:
      rec.count("grey:dist_vs_support_gap")
    cf = _col.closed_form_dist(o1, o2)
    if cf is not None:
      rec.check()
      r = abs(cf - dist) / tol["closed"]
      rec.worst(f"dist_vs_closed_form[{num}]", r / 30)
      rec.cover("closed_form:" + pname, 1)
      if r > 30:
        rec.viol(f"dist-vs-closed-form:{pname}", f"dist={dist:.6g} but the closed-form signed distance is {cf:.6g} {ctx}")
      elif r > 1:
        rec.count("grey:dist_vs_closed_form")
    elif t1 != "plane" and not deep:
      rec.check()
      best, bn = local_max_gap(o1, o2, n, rng)
      r = (best - dist) / tol["maxi"]
      rec.worst(f"dist_maximality[{num}]", r / 30)
      rec.cover("maximality:" + pname, 1)
      if r > 30:
        rec.viol(f"dist-not-maximal:{pname}", f"dist={dist:.6g} along normal {n}, but direction {bn} separates the shapes by {best:.6g}: the reported normal is not the direction of signed distance {ctx}")
      elif r > 1:
        rec.count("grey:dist_maximality")
    # (d) pos midway between the surfaces
    # (only the deepest contact: e.g. the second plane-capsule contact is the far end sphere's lowest point, which by
    # MuJoCo's convention lies inside the capsule)
    for i in [] if deep else [b]:
      di = float(c["dist"][i])
      ni = np.asarray(c["frame"][i], dtype=np.float64).reshape(-1)[:3]
      pi = np.asarray(c["pos"][i], dtype=np.float64)
      for side, o, p in (("geom1", o1, pi - ni * di / 2), ("geom2", o2, pi + ni * di / 2)):
        rec.check()
        s = _col.sdf(o, p)
        if o.type == "mesh" and s > 0:
          s = max(s, 0.0)  # lower bound outside a mesh: only "too far outside" is decidable
        r = abs(s) / tol["surf"]
        rec.worst(f"point_on_surface[{num}]", r / 30)
        if r > 30 and not gap_viol:  # (with a wrong dist the surface points are wrong as a consequence)
          # convex-solver pairs whose dist and normal pass (c): only the witness points are off
          rec.viol("point-off-surface:ccd-witness-points" if num == "ccd" else f"point-off-surface:{pname}", f"pos {'-' if side == 'geom1' else '+'} n*dist/2 = {p} is {s:.6g} away from the surface of {side} ({o.type}); dist={di:.6g} {ctx}")
        elif r > 1:
          rec.count("grey:point_on_surface")
    if len(rec.violations) > nv0 and bctx is not None:
      which = _other_world_row(mjm, mjd, qpos, bctx, g1, g2, o1, o2, n, dist, tol)
      if which is not None:
        # one mechanism: the narrowphase evaluated this pair with a geom row (size / mesh / frame offset) of another world
        rec.violations[nv0]["sig"] = f"per-world-model-field:contact-fits-another-world's-row:{which}"
        rec.violations[nv0]["msg"] = f"world {bctx['w']}: the reported contact is exact for {which} taken from another world's row of the batched Model fields; " + rec.violations[nv0].get("msg", "")
        del rec.violations[nv0 + 1 :]
        continue
    if len(rec.violations) > nv0 and pname == "box-box" and num == "prim" and max(np.abs(o1.mat.T @ n).max(), np.abs(o2.mat.T @ n).max()) < 0.9999:
      # primitive box_box (NATIVECCD disabled), separating axis = edge x edge (normal is no face normal of either box)
      dd = np.asarray(c["dist"], dtype=np.float64)[idx]
      if gap_viol and gap > dist and np.any(np.abs(dd - gap) <= 30 * tol["gap"]):
        # the pair's true deepest contact (dist = overlap along the normal) is there, next to manifold points that lie deeper
        rec.violations[nv0]["sig"] = "box-box-primitive:edge-edge:extra-contact-deeper-than-overlap"
        del rec.violations[nv0 + 1 :]
        continue
      if dist > 0 and abs(gap - dist) > tol["gap"]:
        rec.violations[nv0]["sig"] = "box-box-primitive:edge-edge:separated-dist-not-separation"
        del rec.violations[nv0 + 1 :]
        continue
    if len(rec.violations) > nv0 and tag != ":parallel-axes" and num == "prim" and key in refg:
      ra = refg[key][int(np.argmin(refc["dist"][refg[key]]))]
      if abs(float(refc["dist"][ra]) - dist) < 1e-5 and np.abs(refc["frame"][ra][:3] - n).max() < 1e-3:
        # MJWarp's primitive function reproduces MuJoCo's own answer, which is itself not the exact signed distance
        rec.violations[nv0]["sig"] = "primitive-inexact:same-as-mujoco"
        del rec.violations[nv0 + 1 :]
    if tag == ":parallel-axes" and len(rec.violations) > nv0:
      # one mechanism (float32 determinant test sends exactly parallel capsules down the non-parallel branch)
      rec.violations[nv0]["sig"] = "capsule-capsule:parallel-axes"
      del rec.violations[nv0 + 1 :]
  return deepest, judged


def _minsize(mjm, g):
  t = int(mjm.geom_type[g])
  if t in (0, 1):
    return 1.0
  if t == 7:
    return 0.1
  n = {2: 1, 3: 1, 5: 2, 4: 3, 6: 3}[t]
  return float(np.min(mjm.geom_size[g][:n]))


def run_case(case):
  import mujoco_warp as mjw
  import warp as wp

  rec = core.Rec(case)
  rng = np.random.default_rng(case["seed"])
  lead = None
  if case["kind"] == "batch":
    # per-world Model: world w of the batched Model is the MuJoCo-compiled variant mjms[w] (see _colbatch)
    made = _colbatch.make_batch_case(case, rng)
    if made is None:
      rec.rejected = "mujoco compile"
      return rec.result()
    xml, mjms, qs, feats = made["xml"], made["mjms"], made["qs"], made["feats"]
    mjm = mjms[0]
    _col.pin_primitive_dispatch(mjm)
    try:
      m, lead, bad = _colbatch.batched_model(mjms, rng)
    except (NotImplementedError, ValueError) as e:
      rec.rejected = f"put_model: {e}"[:200]
      rec.count("rejected_put_model")
      return rec.result()
    if m is None:
      rec.rejected = f"variants differ in unbatchable Model fields {bad}"[:200]
      rec.count("rejected_unbatchable")
      return rec.result()
    for f in _colbatch.COLLISION_FIELDS:
      b, differs = lead.get(f, (1, False))
      rec.cover(f"batch:field:{f}:rows={b}:{'worlds_differ' if differs else 'worlds_equal'}", 1)
    lead = {f: b for f, (b, _) in lead.items()}
    if lead.get("geom_size", 1) != lead.get("geom_dataid", 1):
      rec.cover("batch:cases:geom_size_rows!=geom_dataid_rows", 1)
    rec.cover("batch:cases", 1)
  else:
    made = _col.make_case_model(case, rng)
    if made is None:
      rec.rejected = "mujoco compile"
      return rec.result()
    xml, mjm, qs, feats = made
    mjms = [mjm] * len(qs)
    _col.pin_primitive_dispatch(mjm)
    try:
      m = mw.put_model(mjm)
    except (NotImplementedError, ValueError) as e:
      rec.rejected = f"put_model: {e}"[:200]
      rec.count("rejected_put_model")
      return rec.result()
  d, cw = _col.mjw_collide(mjm, m, qs, d=_colbatch.make_data_per_world(mjms) if lead is not None else None)
  if np.any(mw.npy(d.overflow)) or int(mw.npy(d.nacon)[0]) > d.naconmax or int(mw.npy(d.ncollision)[0]) > d.naconmax:
    rec.inconcl("capacity overflow")
    return rec.result()
  judged = 0
  deep_all = []
  for w, q in enumerate(qs):
    bctx = {"w": w, "mjms": mjms, "lead": lead} if lead is not None else None
    dp, j = check_world(rec, case, mjms[w], q, cw[w], rng, bctx)
    deep_all.append(dp)
    judged += j
  # (b) metamorphic: move geom2 of every pair by +eps along the pair's deepest normal
  if case["kind"] in ("pair", "batch", "deep"):
    qs2 = []
    moved = []
    for w, q in enumerate(qs):
      q2 = np.array(q, dtype=np.float64)
      mv = {}
      for key, (b, dist, n, coincident, _tag) in deep_all[w].items():
        body = int(mjm.geom_bodyid[key[1]])
        if coincident or np.linalg.norm(n) < 0.5 or body in mv:
          continue
        if mjm.body_jntnum[body] != 1 or mjm.jnt_type[mjm.body_jntadr[body]] != mujoco.mjtJoint.mjJNT_FREE:
          continue
        a = int(mjm.jnt_qposadr[mjm.body_jntadr[body]])
        q2[a : a + 3] += EPS * n / np.linalg.norm(n)
        mv[body] = key
      qs2.append(q2.astype(np.float32).astype(np.float64))
      moved.append(mv)
    _, cw2 = _col.mjw_collide(mjm, m, qs2, d=d)
    for w in range(len(qs)):
      g2 = _col.group_by_pair(cw2[w])
      for body, key in moved[w].items():
        b, dist, n, _, mtag = deep_all[w][key]
        t1, t2 = _col.GEOM_NAMES[int(mjm.geom_type[key[0]])], _col.GEOM_NAMES[int(mjm.geom_type[key[1]])]
        pname = f"{t1}-{t2}"
        # the actual displacement after float32 rounding
        a = int(mjm.jnt_qposadr[mjm.body_jntadr[body]])
        step = float((qs2[w][a : a + 3] - qs[w][a : a + 3]) @ (n / np.linalg.norm(n)))
        if key not in g2:
          rec.count("metamorphic:pair_left_contact_range")
          continue
        d2 = float(np.min(np.asarray(cw2[w]["dist"])[g2[key]]))
        rec.check()
        rec.cover(("deep:metamorphic:" if case["kind"] == "deep" else "metamorphic:") + pname, 1)
        ratio = (d2 - dist) / step
        rec.worst("metamorphic_slope_error", abs(ratio - 1) / 0.3 / 30 * 30)
        minsize = min(_minsize(mjms[w], key[0]), _minsize(mjms[w], key[1]))
        if lead is not None:
          rec.cover("batch:metamorphic_pairs", 1)
        if abs(ratio - 1) <= 0.3:
          rec.count("metamorphic:ok")
        elif ratio < -0.5 and dist > -0.5 * minsize and t1 != "hfield" and mtag == "" and not (-1.3 <= ratio <= -0.7) and _numclass(t1, t2, case["flags"]) == "ccd":
          # not a reversed normal (that gives slope -1): the convex solver's distance jumps under a 1 mm move
          rec.viol("dist-discontinuous:ccd", f"world {w} geoms {key} {pname}: moving geom2 by {step:.4g} along the reported normal changed the deepest dist from {dist:.6g} to {d2:.6g} (slope {ratio:.3g})")
        elif ratio < -0.5 and (dist > -0.5 * minsize or (case["kind"] == "deep" and _numclass(t1, t2, case["flags"]) == "prim")):
          rec.viol(
            "capsule-capsule:parallel-axes" if mtag == ":parallel-axes" else f"normal-direction:{'hfield' if t1 == 'hfield' else pname}",
            f"world {w} geoms {key}: moving geom2 by {step:.4g} along the reported normal {n} changed the pair's deepest dist from {dist:.6g} to {d2:.6g} "
            f"(slope {ratio:.3g}, expected +1): the normal does not point from geom1 to geom2",
          )
        else:
          rec.count("metamorphic:inconclusive_slope")
  for f in feats:
    rec.cover("features", f)
  if judged:
    rec.nontrivial(xml, *qs)
  rec.sample = {"kind": case["kind"], "pair": case.get("pair") or case.get("pairs"), "flags": case["flags"], "contacts": int(mw.npy(d.nacon)[0]), "pairs_judged_by_support_gap": judged}
  if lead is not None:
    rec.sample["model_field_leading_sizes"] = {f: lead.get(f, 1) for f in _colbatch.COLLISION_FIELDS}
  return rec.result()


def requirements(agg, tier):
  unmet = []
  cov = agg["cover"]
  need = 10 if tier == "quick" else 100
  missing = [f"{a}-{b}" for a, b in _col.PAIR_TABLE if cov.get(f"contacts:{a}-{b}", 0) < need]
  if missing:
    unmet.append(f"fewer than {need} contacts checked for pair types: {missing}")
  nometa = [f"{a}-{b}" for a, b in _col.PAIR_TABLE if cov.get(f"metamorphic:{a}-{b}", 0) < (3 if tier == "quick" else 30)]
  if nometa:
    unmet.append(f"normal-direction (metamorphic) test ran on too few pairs of types: {nometa}")
  cf = ["plane-sphere", "plane-capsule", "plane-ellipsoid", "plane-cylinder", "plane-box", "plane-mesh", "sphere-sphere", "sphere-capsule", "sphere-cylinder", "sphere-box", "capsule-capsule"]
  nocf = [p for p in cf if cov.get("closed_form:" + p, 0) < 5]
  if nocf:
    unmet.append(f"closed-form distance compared on fewer than 5 pairs of types: {nocf}")
  dp = [f"{a}-{b}" for a, b in sorted(_col.PRIMITIVE_PAIRS) + [("box", "box")]]
  nodeep = [p for p in dp if cov.get("deep:judged_pairs_with_a_centre_inside_the_other_geom:" + p, 0) < (5 if tier == "quick" else 20)]
  if nodeep:
    unmet.append(f"deep-penetration family: too few judged pairs with one geom's centre inside the other for types: {nodeep}")
  nodeepm = [p for p in dp if cov.get("deep:metamorphic:" + p, 0) < 3]
  if nodeepm:
    unmet.append(f"deep-penetration family: normal-direction (metamorphic) test ran on too few pairs of types: {nodeepm}")
  if agg["distinct"] < 30:
    unmet.append("fewer than 30 distinct non-trivial cases")
  # per-world Model fields: the family says nothing unless pairs were judged in worlds whose rows differ from world 0
  nb = 10 if tier == "quick" else 100
  for name in (
    "batch:judged_pairs:world>0:geom1_size_differs_from_world0",
    "batch:judged_pairs:world>0:geom2_size_differs_from_world0",
    "batch:judged_pairs:world>0:geom2_size_differs_from_world0:geom_size_rows!=geom_dataid_rows",
    "batch:judged_pairs:world>0:geom2_frame_offset_differs_from_world0",
    "batch:metamorphic_pairs",
  ):
    if cov.get(name, 0) < nb:
      unmet.append(f"per-world Model fields: coverage counter '{name}' is {cov.get(name, 0)} < {nb}")
  if cov.get("batch:judged_pairs:world>0:geom2_mesh_differs_from_world0", 0) < (2 if tier == "quick" else 20):
    unmet.append("per-world Model fields: too few judged pairs whose geom2 has a per-world mesh (geom_dataid) differing from world 0")
  for f in ("geom_size", "geom_pos", "geom_quat", "geom_dataid", "geom_rbound", "geom_margin"):
    if not any(k.startswith(f"batch:field:{f}:rows=") and k.endswith("worlds_differ") and not k.startswith(f"batch:field:{f}:rows=1:") for k in cov):
      unmet.append(f"per-world Model fields: no case with differing rows in Model.{f}")
  return unmet
