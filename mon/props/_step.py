"""Shared one-step differential oracle (C08, C32): mjw.step vs mujoco.mj_step from the same float32 state.

Both engines start from the same float32-representable state (qpos qvel act ctrl mocap applied forces eq_active time
qacc_warmstart).  MuJoCo additionally runs on 3 copies perturbed by +-2 float32 ulps (cmp.reference): the spread is the
measured noise floor and a change of discrete structure (ne/nf/nl/nefc/ncon) under the probe makes the world 'ungated'.

Gating rule (DESIGN section 3) for the post-solver quantities qvel / qpos / qacc_warmstart of a world with constraints:
  (a) ne, nf, nl, nefc and the contact count agree between the engines,
  (b) neither engine hit the solver iteration limit (MuJoCo solver_niter < iterations; MJWarp ITERATIONS /
      LS_ITERATIONS overflow bits clear),
  (c) MuJoCo's own structure is stable under the ulp probe.
`act` and `time` never depend on the solver and are always judged.
"""

import mujoco
import numpy as np

from mon import cmp, mw

A_PRE = 1e-5  # float32 allowance for pre-solver quantities (act, and the h*qvel part of qpos)
A_ACC = 1e-3  # relative allowance on accelerations (post-solver / M^-1 conditioning), DESIGN section 3
A_TIME = 2.5e-7  # time: exact for dyadic timesteps, 1 float32 ulp otherwise

MAX_PENETRATION = 0.03  # contacts deeper than this are stiff: MJWarp's tolerance (>=1e-6) vs MuJoCo's 1e-8 dominates
MAX_EFC_D = 1e10  # a constraint whose inverse weight is ~0 gets D=1/mjMINVAL: forces ~1e17, meaningless in float32
OVF_ITER = (1 << 9) | (1 << 10)
OVF_CAP = (1 << 0) | (1 << 1) | (1 << 2) | (1 << 3) | (1 << 4) | (1 << 5) | (1 << 8)


def quat_slots(mjm):
  """(indices of quaternion starts in qpos, boolean mask of scalar qpos entries)."""
  qs = []
  scalar = np.ones(mjm.nq, dtype=bool)
  for j in range(mjm.njnt):
    a = int(mjm.jnt_qposadr[j])
    t = mjm.jnt_type[j]
    if t == mujoco.mjtJoint.mjJNT_FREE:
      qs.append(a + 3)
      scalar[a + 3 : a + 7] = False
    elif t == mujoco.mjtJoint.mjJNT_BALL:
      qs.append(a)
      scalar[a : a + 4] = False
  return qs, scalar


def _niter(mjd):
  n = max(1, int(mjd.nisland)) if hasattr(mjd, "nisland") else 1
  n = min(n, len(mjd.solver_niter))
  return int(np.max(mjd.solver_niter[:n]))


def mj_stage(mjm, mjd):
  mujoco.mj_step(mjm, mjd)


def mj_extract(mjm, mjd):
  return {
    "qpos": mjd.qpos,
    "qvel": mjd.qvel,
    "act": mjd.act,
    "time": np.array([mjd.time]),
    "qacc_warmstart": mjd.qacc_warmstart,
    "qacc": mjd.qacc,
    "struct": np.array([mjd.ne, mjd.nf, mjd.nl, mjd.nefc, mjd.ncon], dtype=np.float64),
    "mindist": np.array([float(mjd.contact.dist.min()) if mjd.ncon else 0.0]),
    "maxD": np.array([float(mjd.efc_D.max()) if mjd.nefc else 0.0]),
    "niter": np.array([_niter(mjd)], dtype=np.float64),
    "sensordata": mjd.sensordata,
    "energy": mjd.energy,
    "warn": np.array([sum(int(mjd.warning[i].number) for i in (int(mujoco.mjtWarning.mjWARN_INERTIA), int(mujoco.mjtWarning.mjWARN_BADQPOS), int(mujoco.mjtWarning.mjWARN_BADQVEL), int(mujoco.mjtWarning.mjWARN_BADQACC)))], dtype=np.float64),
  }


def mjw_read(d):
  out = {k: np.array(mw.npy(getattr(d, k))) for k in ("qpos", "qvel", "act", "time", "qacc_warmstart", "ne", "nf", "nl", "nefc", "overflow", "solver_niter", "sensordata", "energy")}
  nacon = int(mw.npy(d.nacon)[0])
  wid = mw.npy(d.contact.worldid)[: min(nacon, d.naconmax)]
  out["ncon"] = np.bincount(wid[(wid >= 0)], minlength=d.nworld)[: d.nworld] if wid.size else np.zeros(d.nworld, dtype=int)
  out["nacon_raw"] = nacon
  return out


def next_state(st, ref):
  """Resynchronised start of the next lock-step: MuJoCo's float64 result rounded to float32."""
  nx = dict(st)
  for k in ("qpos", "qvel", "act", "qacc_warmstart"):
    nx[k] = np.asarray(ref[k], dtype=np.float32)
  nx["time"] = np.float32(ref["time"][0])
  return nx


def _merge(rec, tmp):
  rec.checks += tmp.checks
  rec.violations.extend(tmp.violations[: max(0, 20 - len(rec.violations))])
  rec.inconclusive.extend(tmp.inconclusive)
  for k, v in tmp.worst_d.items():
    rec.worst(k, v)
  for k, v in tmp.tally.items():
    rec.count(k, v)


def lone_free_bodies(mjm):
  """Free-joint bodies whose descendants are all massless and jointless (MuJoCo 3.13 integrates their gyroscopic torque
  implicitly under implicitfast; MJWarp 3.12 does not: version skew, neutralised by the workloads)."""
  out = []
  for b in range(1, mjm.nbody):
    if mjm.body_jntnum[b] == 1 and mjm.jnt_type[mjm.body_jntadr[b]] == mujoco.mjtJoint.mjJNT_FREE:
      ok = True
      for c in range(b + 1, mjm.nbody):
        a = c
        while a > b:
          a = int(mjm.body_parentid[a])
        if a == b and (mjm.body_jntnum[c] > 0 or mjm.body_mass[c] > 0):
          ok = False
          break
      if ok:
        out.append(b)
  return out


def mujoco_extra_treatment(mjm, st, mjd=None):
  """True if MuJoCo's own implicit/implicitfast step from `st` is NOT the plain solve of (M - h*qDeriv) v' = rhs built
  from its own matrices (relative 1e-7), i.e. MuJoCo 3.13 applied a treatment that MuJoCo 3.12 / MJWarp do not have
  (measured: implicit gyroscopic integration of some free bodies under implicitfast). Decided from MuJoCo outputs only."""
  integ = int(mjm.opt.integrator)
  if integ not in (int(mujoco.mjtIntegrator.mjINT_IMPLICIT), int(mujoco.mjtIntegrator.mjINT_IMPLICITFAST)) or mjm.nv == 0:
    return False
  h = float(mjm.opt.timestep)
  d = mujoco.MjData(mjm)
  mw.apply_state_mj(mjm, d, st)
  mujoco.mj_step(mjm, d)
  M = mw.dense_M(mjm, d.M)
  D = _dense_D(mjm, d.qDeriv)
  if integ == int(mujoco.mjtIntegrator.mjINT_IMPLICITFAST):
    L = np.tril(D)
    D = L + L.T - np.diag(np.diag(D))
  rhs = d.qfrc_smooth + d.qfrc_constraint
  A = M - h * D
  if integ == int(mujoco.mjtIntegrator.mjINT_IMPLICITFAST):
    ev = np.linalg.eigvalsh(A)
    if ev[0] <= 1e-6 * ev[-1]:
      # velocity feedback with negative damping made M - h*qDeriv indefinite: the Cholesky-based implicitfast update is
      # undefined (MuJoCo's factorisation returns finite garbage, MJWarp's NaN) - nothing to compare
      return "indefinite"
  try:
    v = np.asarray(st["qvel"], dtype=np.float64) + h * np.linalg.solve(A, rhs)
  except np.linalg.LinAlgError:
    return True
  err = float(np.abs(v - d.qvel).max())
  return bool(err > 1e-7 * max(1.0, float(np.abs(d.qvel).max())))


def neutralise_lone_free(mjm, st):
  """Zero angular velocity of lone free bodies (only used when integrator == implicitfast)."""
  qv = np.array(st["qvel"], dtype=np.float32)
  for b in lone_free_bodies(mjm):
    a = int(mjm.jnt_dofadr[mjm.body_jntadr[b]])
    qv[a + 3 : a + 6] = 0
  st["qvel"] = qv
  return st


def _dense_D(mjm, vals):
  A = np.zeros((mjm.nv, mjm.nv))
  mujoco.mju_sparse2dense(A, np.asarray(vals, dtype=np.float64), mjm.D_rownnz, mjm.D_rowadr, mjm.D_colind)
  return A


def _actuator_moment_dense(mjm, d):
  mom = np.zeros((mjm.nu, mjm.nv))
  if mjm.nu:
    mujoco.mju_sparse2dense(mom, d.actuator_moment, d.moment_rownnz, d.moment_rowadr, d.moment_colind)
  return mom


HYPOTHESES = {
  # name -> (signature, explanation); each is a *specific* wrong system matrix built from MuJoCo's own float64 matrices
  "rne_derivative_sign": (
    "implicit:rne_derivative_sign",
    "the RNE velocity-derivative term is subtracted instead of added: A = M - h*qDeriv_smooth - h*dC/dv "
    "(forward.implicit -> deriv_rne_vel(flg_subtract=True))",
  ),
  "unclamped_ctrl": (
    "implicit:actuator_vel_derivative_unclamped_ctrl",
    "the actuator force derivative d(gain)/dv*ctrl uses the raw ctrl although the force uses ctrl clamped to ctrlrange "
    "(derivative._qderiv_actuator_passive_vel reads d.ctrl; MuJoCo's mjd_actuator_vel uses the clamped control)",
  ),
  "muscle_gain_vel": (
    "implicit:actuator_vel_derivative_muscle_gain_missing",
    "the velocity derivative of muscle actuator gains (force-velocity curve) is absent "
    "(derivative._qderiv_actuator_passive_vel handles AFFINE and DCMOTOR gains only; MuJoCo's mjd_actuator_vel includes "
    "d(muscle gain)/d(velocity) * activation)",
  ),
  "fluid_deriv_passive_disabled": (
    "implicit:fluid_vel_derivative_with_passive_forces_disabled",
    "the velocity derivative of the fluid forces is still included although the SPRING and DAMPER disable flags are both "
    "set, which switches all passive forces (fluid included, qfrc_fluid == 0) off (derivative.deriv_smooth_vel tests only "
    "m.has_fluid; MuJoCo's mjd_passive_vel returns early and qDeriv has no fluid term)",
  ),
}


def implicit_hypothesis(mjm, st, which):
  """State that MuJoCo's implicit / implicitfast step would produce with one specific modification of the system matrix.
  Returns None when the hypothesis does not apply to this model/state (alternative matrix == correct matrix)."""
  import copy

  h = float(mjm.opt.timestep)
  integ = int(mjm.opt.integrator)
  fast = integ == int(mujoco.mjtIntegrator.mjINT_IMPLICITFAST)
  d = mujoco.MjData(mjm)
  mw.apply_state_mj(mjm, d, st)
  mujoco.mj_step(mjm, d)
  M = mw.dense_M(mjm, d.M)
  D = _dense_D(mjm, d.qDeriv)
  if which == "rne_derivative_sign":
    if fast:
      return None
    mf = copy.copy(mjm)
    mf.opt.integrator = mujoco.mjtIntegrator.mjINT_IMPLICITFAST
    df = mujoco.MjData(mf)
    mw.apply_state_mj(mf, df, st)
    mujoco.mj_step(mf, df)
    Df = _dense_D(mjm, df.qDeriv)
    Dalt = 2.0 * Df - D  # qDeriv(implicit) = qDeriv(implicitfast) - dC/dv
  elif which == "unclamped_ctrl":
    if mjm.nu == 0 or (mjm.opt.disableflags & (int(mujoco.mjtDisableBit.mjDSBL_CLAMPCTRL) | int(mujoco.mjtDisableBit.mjDSBL_ACTUATION))):
      return None
    mom = _actuator_moment_dense(mjm, d)
    pattern = _dense_D(mjm, np.ones(mjm.nD))  # qDeriv only has dof-ancestor entries: cross-tree products are dropped
    Dalt = D.copy()
    ctrl = np.asarray(st["ctrl"], dtype=np.float64)
    for i in range(mjm.nu):
      if not mjm.actuator_ctrllimited[i] or mjm.actuator_gaintype[i] != mujoco.mjtGain.mjGAIN_AFFINE:
        continue
      if mjm.actuator_dyntype[i] != mujoco.mjtDyn.mjDYN_NONE:
        continue
      if mjm.actuator_forcelimited[i]:
        f = d.actuator_force[i]
        if f <= mjm.actuator_forcerange[i, 0] or f >= mjm.actuator_forcerange[i, 1]:
          continue
      delta = mjm.actuator_gainprm[i, 2] * (ctrl[i] - np.clip(ctrl[i], *mjm.actuator_ctrlrange[i]))
      Dalt += delta * np.outer(mom[i], mom[i]) * pattern
  elif which == "muscle_gain_vel":
    if mjm.nu == 0 or (mjm.opt.disableflags & int(mujoco.mjtDisableBit.mjDSBL_ACTUATION)):
      return None
    mom = _actuator_moment_dense(mjm, d)
    pattern = _dense_D(mjm, np.ones(mjm.nD))
    Dalt = D.copy()
    for i in range(mjm.nu):
      if mjm.actuator_gaintype[i] != mujoco.mjtGain.mjGAIN_MUSCLE:
        continue
      if mjm.actuator_forcelimited[i]:
        f = d.actuator_force[i]
        if f <= mjm.actuator_forcerange[i, 0] or f >= mjm.actuator_forcerange[i, 1]:
          continue
      ln, vl = float(d.actuator_length[i]), float(d.actuator_velocity[i])
      lr, a0, gp, bp = mjm.actuator_lengthrange[i], float(mjm.actuator_acc0[i]), mjm.actuator_gainprm[i, :9], mjm.actuator_biasprm[i, :9]
      gain = mujoco.mju_muscleGain(ln, vl, lr, a0, gp)
      if gain == 0:
        continue
      bias = mujoco.mju_muscleBias(ln, lr, a0, bp) if mjm.actuator_biastype[i] == mujoco.mjtBias.mjBIAS_MUSCLE else 0.0
      ctrl_act = (float(d.actuator_force[i]) - bias) / gain
      eps = 1e-6 * max(1.0, abs(vl))
      dgain = (mujoco.mju_muscleGain(ln, vl + eps, lr, a0, gp) - mujoco.mju_muscleGain(ln, vl - eps, lr, a0, gp)) / (2 * eps)
      Dalt -= dgain * ctrl_act * np.outer(mom[i], mom[i]) * pattern  # MJWarp has no muscle term: remove MuJoCo's
  elif which == "fluid_deriv_passive_disabled":
    both = int(mujoco.mjtDisableBit.mjDSBL_SPRING) | int(mujoco.mjtDisableBit.mjDSBL_DAMPER)
    if (int(mjm.opt.disableflags) & both) != both or (mjm.opt.density == 0 and mjm.opt.viscosity == 0):
      return None
    # the same model with passive forces on but every damper zero: its qDeriv = (actuator + RNE terms) + fluid term
    m2 = copy.copy(mjm)
    m2.opt.disableflags = int(mjm.opt.disableflags) & ~both
    m2.dof_damping[:] = 0
    m2.tendon_damping[:] = 0
    for name in ("dof_dampingpoly", "tendon_dampingpoly"):
      if hasattr(m2, name):
        getattr(m2, name)[:] = 0
    d2 = mujoco.MjData(m2)
    mw.apply_state_mj(m2, d2, st)
    mujoco.mj_step(m2, d2)
    Dalt = _dense_D(m2, d2.qDeriv)
  else:
    raise KeyError(which)
  if np.abs(Dalt - D).max(initial=0) <= 1e-12 * max(1.0, np.abs(D).max(initial=0)):
    return None
  if fast:
    L = np.tril(Dalt)
    Dalt = L + L.T - np.diag(np.diag(Dalt))
  rhs = d.qfrc_smooth + d.qfrc_constraint
  A = M - h * Dalt
  try:
    qacc = np.linalg.solve(A, rhs)
  except np.linalg.LinAlgError:
    return None
  qvel = np.asarray(st["qvel"], dtype=np.float64) + h * qacc
  qpos = np.asarray(st["qpos"], dtype=np.float64).copy()
  mujoco.mj_normalizeQuat(mjm, qpos)
  mujoco.mj_integratePos(mjm, qpos, qvel, h)
  # implicitfast factorises with Cholesky: an indefinite alternative matrix predicts NaN output
  pd = True if not fast else bool(np.linalg.eigvalsh(0.5 * (A + A.T)).min() > 1e-6 * np.abs(A).max())
  return {"qvel": qvel, "qpos": qpos, "pd": pd}


def _judge_post(rec, mjm, got, w, ref, noise, accscale, prefix, ctx, a_acc):
  h = float(mjm.opt.timestep)
  nv = mjm.nv
  qs, scalar = quat_slots(mjm)
  # qvel+: error budget = float32 on qvel + h * acceleration allowance
  vs = max(1.0, float(np.abs(ref["qvel"]).max())) if nv else 1.0
  allow_v = (A_PRE * vs + h * a_acc * accscale) / vs
  cmp.judge(rec, "qvel", got["qvel"][w][:nv], ref["qvel"], allow_v, noise["qvel"], sig_prefix=prefix, ctx=ctx)
  # qpos+: scalar part and quaternion part
  qp_g = np.asarray(got["qpos"][w][: mjm.nq], dtype=np.float64)
  qp_r = ref["qpos"]
  ps = max(1.0, float(np.abs(qp_r).max()))
  allow_p = (A_PRE * ps + h * (A_PRE * vs + h * a_acc * accscale)) / ps
  if scalar.any():
    s2 = max(1.0, float(np.abs(qp_r[scalar]).max()))
    cmp.judge(rec, "qpos", qp_g[scalar], qp_r[scalar], allow_p * ps / s2, noise["qpos"], sig_prefix=prefix, ctx=ctx)
  if qs:
    gq = np.stack([qp_g[a : a + 4] for a in qs])
    rq = np.stack([qp_r[a : a + 4] for a in qs])
    cmp.judge(rec, "qpos_quat", gq, rq, allow_p * ps, noise["qpos"], quat=True, sig_prefix=prefix, ctx=ctx)


def judge_world(rec, mjm, got, w, st, ref, noise, prefix="", ctx="", a_acc=A_ACC):
  """Compares world w of an MJWarp step result with the MuJoCo reference. Returns 'gated'|'ungated'|'free'."""
  from mon import core

  nv = mjm.nv
  rs = ref["struct"].astype(int)
  gs = np.array([got["ne"][w], got["nf"][w], got["nl"][w], got["nefc"][w], got["ncon"][w]], dtype=int)
  ovf = int(got["overflow"][w])
  constrained = bool(rs[3] > 0 or gs[3] > 0)
  if ref["warn"][0] > 0 or noise["warn"] > 0 or not np.all(np.isfinite(ref["qacc"])) or np.abs(ref["qacc"]).max(initial=0) > 1e6:
    # singular inertia / diverging reference (MuJoCo warns or auto-resets): nothing to compare against
    rec.inconcl("reference diverging or MuJoCo warning (singular inertia / bad qacc)")
    rec.count("worlds_reference_diverging")
    return "ungated"
  # time and act: never gated
  cmp.judge(rec, "time", got["time"][w : w + 1], ref["time"], A_TIME, noise["time"], sig_prefix=prefix, ctx=ctx)
  if mjm.na:
    ga = np.asarray(got["act"][w][: mjm.na], dtype=np.float64)
    fe = np.zeros(mjm.na, dtype=bool)
    if int(mjm.opt.integrator) == int(mujoco.mjtIntegrator.mjINT_RK4):
      # RK4 + exactly-integrated activations (FILTEREXACT, DCMOTOR) are judged under their own signature (intermediate stages)
      for i in range(mjm.nu):
        if int(mjm.actuator_dyntype[i]) in (int(mujoco.mjtDyn.mjDYN_FILTEREXACT), int(mujoco.mjtDyn.mjDYN_DCMOTOR)) and mjm.actuator_actadr[i] >= 0:
          fe[mjm.actuator_actadr[i] : mjm.actuator_actadr[i] + mjm.actuator_actnum[i]] = True
    if (~fe).any():
      cmp.judge(rec, "act", ga[~fe], ref["act"][~fe], A_PRE, noise["act"], sig_prefix=prefix, ctx=ctx)
    if fe.any():
      cmp.judge(rec, "act_exact_integration_in_stages", ga[fe], ref["act"][fe], A_PRE, noise["act"], sig_prefix=prefix, ctx=ctx + " (FILTEREXACT / DCMOTOR activations under RK4: MuJoCo advances activations with plain Euler increments in the intermediate stages, MJWarp applies the exact-integration formula of next_act there too)")
  verdict = "free"
  if constrained or rs[4] > 0 or gs[4] > 0:
    verdict = "gated"
    why = None
    if noise["struct"] != 0:
      why = "reference structure unstable under ulp probe"
    elif ovf & OVF_CAP:
      why = "mjwarp capacity overflow"
    elif not np.array_equal(rs, gs):
      why = f"structure differs (ne,nf,nl,nefc,ncon) mujoco={rs.tolist()} mjwarp={gs.tolist()}"
    elif ovf & OVF_ITER or int(ref["niter"][0]) >= int(mjm.opt.iterations):
      why = "iteration limit reached"
    elif ref["mindist"][0] < -MAX_PENETRATION:
      why = "deep penetration (stiff, solver-tolerance dominated)"
    elif ref["maxD"][0] > MAX_EFC_D:
      why = "degenerate constraint (efc_D beyond float32 reach: zero inverse weight)"
    if why is not None:
      rec.count("worlds_ungated")
      rec.count("ungated:" + why.split(" mujoco=")[0])
      return "ungated"
  ext = mujoco_extra_treatment(mjm, st)
  if ext == "indefinite":
    rec.count("worlds_implicitfast_system_indefinite(negative damping)")
    return "ungated"
  if ext:
    rec.count("worlds_skew_mujoco313_implicit_extra_treatment")
    return "ungated"
  accscale = max(1.0, float(np.abs(ref["qacc"]).max())) if nv else 1.0
  # qacc_warmstart == qacc of the step
  cmp.judge(rec, "qacc_warmstart", got["qacc_warmstart"][w][:nv], ref["qacc_warmstart"], a_acc, noise["qacc_warmstart"], sig_prefix=prefix, ctx=ctx)
  if int(mjm.opt.integrator) not in (int(mujoco.mjtIntegrator.mjINT_IMPLICIT), int(mujoco.mjtIntegrator.mjINT_IMPLICITFAST)):
    _judge_post(rec, mjm, got, w, ref, noise, accscale, prefix, ctx, a_acc)
  else:
    tmp = core.Rec({})
    _judge_post(tmp, mjm, got, w, ref, noise, accscale, prefix, ctx, a_acc)
    explained = False
    if tmp.violations:
      # mechanism tests: does MJWarp's result equal the solution of one specific wrong system matrix?
      for which, (sig, text) in HYPOTHESES.items():
        hyp = implicit_hypothesis(mjm, st, which)
        if hyp is None:
          continue
        tmp2 = core.Rec({})
        _judge_post(tmp2, mjm, got, w, hyp, noise, accscale, prefix, ctx, a_acc)
        nan_predicted = (not hyp["pd"]) and not np.all(np.isfinite(got["qvel"][w][:nv]))
        if nan_predicted or (not tmp2.violations and not tmp2.inconclusive):
          rec.check(tmp.checks)
          rec.count("reproduced:" + which)
          v = tmp.violations[0]
          rec.viol(sig, f"implicit-in-velocity integrator: next qvel/qpos differ from MuJoCo and equal (within the float32 bound) the solution of a system in which {text}; first field: {v['msg'][:300]}", **v.get("data", {}))
          explained = True
          break
    if not explained:
      _merge(rec, tmp)
  if verdict == "gated":
    rec.count("worlds_gated")
  else:
    rec.count("worlds_constraint_free")
  return verdict


def step_compare(rec, mjm, m, states, nsteps=1, seed=0, prefix="", entry=None, a_acc=A_ACC, extra=None, **caps):
  """Runs nsteps lock-steps (resynchronised on MuJoCo's float32-rounded result) for all worlds. Returns tallies."""
  import mujoco_warp as mjw

  entry = entry or mjw.step
  states = [dict(s) for s in states]
  for s in states:
    s.setdefault("qacc_warmstart", np.zeros(mjm.nv, np.float32))
  if "njmax" not in caps:
    # capacities with >=50% head room over MuJoCo's need at the initial states (an overflow inside an RK4 stage is not
    # reported by MJWarp, so the oracle must not rely on the overflow bits alone); bounded set of sizes
    need_j = need_c = 0
    for st in states:
      d0 = mujoco.MjData(mjm)
      mw.apply_state_mj(mjm, d0, st)
      mujoco.mj_forward(mjm, d0)
      need_j, need_c = max(need_j, int(d0.nefc)), max(need_c, int(d0.ncon))
    caps["njmax"] = next((c for c in (64, 128, 256, 512, 1024) if c >= 1.5 * need_j + 8), 2048)
    caps["nconmax"] = next((c for c in (48, 96, 192, 384) if c >= 1.5 * need_c + 4), 768)
  d = mw.make_data(mjm, m, states, **caps)
  out = {"gated": 0, "ungated": 0, "free": 0, "refs": []}
  for k in range(nsteps):
    if k:
      mw.set_world_states(m, d, states)
    d.overflow.zero_()
    entry(m, d)
    got = mjw_read(d)
    nxt = []
    for w, st in enumerate(states):
      ref, noise, mjd = cmp.reference(mjm, st, mj_stage, mj_extract, seed=seed + 17 * w + 1009 * k)
      v = judge_world(rec, mjm, got, w, st, ref, noise, prefix=prefix, ctx=f"world {w} step {k}", a_acc=a_acc)
      if extra is not None:
        extra(rec, got, w, st, ref, noise, v)
      out[v] += 1
      if k == 0:
        out["refs"].append(ref)
      nxt.append(next_state(st, ref))
    states = nxt
    if not all(np.all(np.isfinite(s["qpos"])) and np.all(np.isfinite(s["qvel"])) and np.abs(s["qvel"]).max(initial=0) < 1e4 for s in states):
      break
  return out


def well_conditioned(mjm, limit=1e5):
  """accept() filter for gen.make_model: inertia matrix at qpos0 has condition number below `limit`."""
  d = mujoco.MjData(mjm)
  mujoco.mj_forward(mjm, d)
  if mjm.nv == 0:
    return False
  M = mw.dense_M(mjm, d.M)
  if not np.all(np.isfinite(M)):
    return False
  return bool(np.linalg.cond(M) < limit)
