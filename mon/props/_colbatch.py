"""Per-world (batched) Model fields for the collision monitors (not a property module).

A mujoco_warp Model may carry a different value per world in every field whose spec starts with "*"
(put_model(mjm, batch_sizes={field: n}); world w reads row w % n, and every field has its own n). This module builds
such a domain-randomised Model without trusting any indexing code of the engine:

* one pair scene (as _col.build_scene) is written out as NWORLD MJCF variants that differ in geom sizes, mesh
  assignment, geom frame offsets (geom pos / quat inside the body, pose of the static plane), geom margins / gaps
  and explicit-pair margins / gaps.  Every group of attributes has its own number of distinct rows b (1..NWORLD) and
  world w takes row w % b, so the variants are exactly the worlds a Model with per-field leading sizes describes;
* MuJoCo compiles every variant (so derived quantities - rbound, aabb, mesh frames, inertias - are MuJoCo's own) and
  put_model is called on each; for every batched Model field the per-world values are compared, the leading sizes
  that reproduce all worlds under the `w % n` rule are computed, one of them is drawn at random, and the rows are
  written into the Model.  Fields without a "*" spec that differ between the variants make the case unusable;
* the oracle of world w is the compiled MjModel of variant w.
"""

import dataclasses
import xml.etree.ElementTree as ET

import numpy as np

from mon import gen, mw
from mon.props import _col

NWORLD = 3

# batched Model fields the collision pipeline reads (broadphase, narrowphase, contact geometry)
COLLISION_FIELDS = (
  "geom_size", "geom_rbound", "geom_aabb", "geom_pos", "geom_quat", "geom_margin", "geom_gap", "geom_dataid",
  "pair_margin", "pair_gap", "body_pos", "body_quat",
)  # fmt: skip


def _f(x):
  return " ".join(f"{float(v):.6g}" for v in np.atleast_1d(x))


def slots_to_scene(slots):
  """slots: list of (t1, t2) pair types. Returns (body_types, pairs for _col.place_pairs, needs_plane, needs_hfield)."""
  bt, pairs = [], []
  for t1, t2 in slots:
    if t1 in ("plane", "hfield"):
      bt.append(t2)
      pairs.append((t1, len(bt) - 1))
    else:
      bt += [t1, t2]
      pairs.append((len(bt) - 2, len(bt) - 1))
  return bt, pairs, any(s[0] == "plane" for s in slots), any(s[0] == "hfield" for s in slots)


def variant_xmls(xml, rng, polytope_margin):
  """NWORLD MJCF strings derived from xml (+ the number of distinct rows drawn per attribute group)."""
  root = ET.fromstring(xml)
  geoms = [g for g in root.iter("geom")]
  prs = [p for p in root.iter("pair")]
  groups = ("size", "mesh", "offset", "margin", "gap", "pair")
  # distinct rows per attribute group (independent, so that the Model fields end up with different leading sizes)
  P = {"size": [0.1, 0.45, 0.45], "mesh": [0.3, 0.35, 0.35], "offset": [0.2, 0.4, 0.4]}
  mesh_walk = {}
  nrow = {k: int(rng.choice([1, 2, 3], p=P.get(k, [0.3, 0.35, 0.35]))) for k in groups}
  rows = {k: [] for k in groups}
  mesh_names = sorted(_col.MESHES)
  for r in range(NWORLD):  # always draw NWORLD rows (only the first nrow[k] are used)
    size, mesh, off, mar, gap, pr = {}, {}, {}, {}, {}, {}
    for g in geoms:
      name, t = g.get("name"), g.get("type")
      if t in ("sphere", "capsule", "cylinder", "ellipsoid", "box"):
        s0 = np.array([float(v) for v in g.get("size").split()])
        size[name] = _f(s0 * rng.uniform(0.6, 1.5, size=s0.shape))
      if t == "mesh":
        if r == 0:
          mesh_walk[name] = (int(rng.integers(len(mesh_names))), int(rng.choice([1, 3])))
        mesh[name] = mesh_names[(mesh_walk[name][0] + r * mesh_walk[name][1]) % len(mesh_names)]  # a different mesh in every row
      if t == "plane":
        if rng.random() < 0.7:
          off[name] = (_f([0, 0, rng.uniform(-0.05, 0.05)]), _f(_col.rquat(rng) * 0.15 + np.array([1.0, 0, 0, 0])))
      elif t != "hfield" and rng.random() < 0.7:
        off[name] = (_f(rng.uniform(-0.04, 0.04, size=3)), _f(_col.rquat(rng)))
      if t != "hfield" and (t not in _col.POLYTOPE or polytope_margin):
        mar[name] = _f(0.0 if rng.random() < 0.4 else rng.uniform(0, 0.03))
        gap[name] = _f(0.0 if rng.random() < 0.5 else rng.uniform(0, 0.02))
    for i, p in enumerate(prs):
      if p.get("margin") is not None:
        pr[i] = (_f(rng.uniform(0, 0.03)), _f(rng.uniform(0, 0.02)))
    for k, v in zip(groups, (size, mesh, off, mar, gap, pr)):
      rows[k].append(v)
  # all variants list every mesh asset in the same order, so mesh ids agree
  asset = root.find("asset")
  if any(g.get("type") == "mesh" for g in geoms):
    for e in list(asset):
      if e.tag == "mesh":
        asset.remove(e)
    for i, mn in enumerate(mesh_names):
      asset.insert(i, ET.Element("mesh", {"name": mn, "vertex": _col.MESHES[mn]}))
  out = []
  base_attr = [dict(g.attrib) for g in geoms]
  base_pair = [dict(p.attrib) for p in prs]
  for w in range(NWORLD):
    row = {k: rows[k][w % nrow[k]] for k in groups}
    for g, a0 in zip(geoms, base_attr):
      g.attrib.clear()
      g.attrib.update(a0)
      name = g.get("name")
      if name in row["size"]:
        g.set("size", row["size"][name])
      if name in row["mesh"]:
        g.set("mesh", row["mesh"][name])
      if name in row["offset"]:
        if g.get("type") == "plane" or g.get("pos") is None:
          g.set("pos", row["offset"][name][0])
          g.set("quat", row["offset"][name][1])
      if name in row["margin"]:
        g.set("margin", row["margin"][name])
      if name in row["gap"]:
        g.set("gap", row["gap"][name])
    for i, (p, a0) in enumerate(zip(prs, base_pair)):
      p.attrib.clear()
      p.attrib.update(a0)
      if i in row["pair"]:
        p.set("margin", row["pair"][i][0])
        p.set("gap", row["pair"][i][1])
    out.append(ET.tostring(root, encoding="unicode"))
  return out, nrow


def _model_fields():
  from mujoco_warp._src import types, warp_util

  batched, other = [], []
  for f in dataclasses.fields(types.Model):
    if warp_util.is_array_spec(f.type):
      shp = getattr(f.type, "shape", ())
      (batched if shp and shp[0] == "*" else other).append(f.name)
    else:
      other.append(f.name)
  return batched, other


def _same(a, b):
  import warp as wp

  if isinstance(a, wp.array) or isinstance(b, wp.array):
    if not (isinstance(a, wp.array) and isinstance(b, wp.array)):
      return False
    x, y = a.numpy(), b.numpy()
    return x.shape == y.shape and np.array_equal(x, y, equal_nan=(x.dtype.kind == "f"))
  if dataclasses.is_dataclass(a):
    return True  # nested structs (opt, stat): not varied here
  if isinstance(a, np.ndarray) or isinstance(b, np.ndarray):
    return np.array_equal(np.asarray(a), np.asarray(b))
  if isinstance(a, (list, tuple)):
    if not isinstance(b, (list, tuple)) or len(a) != len(b):
      return False
    return all(_same(x, y) for x, y in zip(a, b))
  try:
    return bool(a == b)
  except Exception:
    return True


def batched_model(mjms, rng):
  """Model whose world w equals put_model(mjms[w]) under the per-field `w % leading size` rule.

  Returns (m, leading sizes of the fields that differ between worlds or were batched, names of unbatchable fields
  that differ). The Model is built from put_model(mjms[0], batch_sizes=...) and the rows are copied in."""
  import warp as wp

  nworld = len(mjms)
  ms = [mw.put_model(x) for x in mjms]
  batched, other = _model_fields()
  # the Model is used for kinematics + collision only: fields describing the inertia structure (body_simple, the
  # sparsity maps of M, ...) follow world 0; a difference in any unbatchable field the collision pipeline could read
  # makes the case unusable
  rel = ("geom", "pair", "mesh", "hfield", "nxn", "plugin", "oct", "sdf", "exclude", "collision")
  other = [f for f in other if any(k in f for k in rel)]
  bad = [f for f in other if any(not _same(getattr(ms[0], f, None), getattr(ms[w], f, None)) for w in range(1, nworld))]
  sizes, vals, differs = {}, {}, {}
  for f in batched:
    a = [getattr(ms[w], f, None) for w in range(nworld)]
    if any(not isinstance(x, wp.array) for x in a):
      continue
    v = [x.numpy() for x in a]
    if any(x.shape != v[0].shape or x.shape[0] != 1 for x in v):
      bad.append(f)
      continue
    eq = lambda p, q: np.array_equal(p, q, equal_nan=(p.dtype.kind == "f"))
    valid = [b for b in range(1, nworld + 1) if all(eq(v[w], v[w % b]) for w in range(nworld))]
    differs[f] = 1 not in valid
    if differs[f]:
      b = valid[0] if rng.random() < 0.6 else valid[int(rng.integers(len(valid)))]
    elif f in COLLISION_FIELDS and rng.random() < 0.5:
      b = int(rng.integers(2, nworld + 1))
    else:
      b = 1
    if b > 1:
      sizes[f] = b
      vals[f] = np.concatenate([v[r] for r in range(b)], axis=0)
  if bad:
    return None, sizes, bad
  m = mw.put_model(mjms[0], batch_sizes=dict(sizes))
  for f, b in sizes.items():
    arr = getattr(m, f)
    assert arr.shape[0] == b, (f, arr.shape, b)
    wp.copy(arr, wp.array(vals[f], dtype=arr.dtype, shape=arr.shape))
  return m, {f: (b, differs[f]) for f, b in sizes.items()}, []


def make_data_per_world(mjms, nconmax=None):
  """mjw.make_data for the batched Model (capacities as _col.mjw_collide) with the poses of static geoms set per world.

  kinematics() never writes geom_xpos / geom_xmat of geoms attached to the world body ("computed only once during
  make_data", from the MjModel handed to make_data), so whoever randomises the pose of a static geom per world has
  to write these Data rows himself; here they are MuJoCo's own (mj_kinematics of variant w)."""
  import mujoco
  import mujoco_warp as mjw
  import warp as wp

  mjm = mjms[0]
  npair = mjm.ngeom * (mjm.ngeom - 1) // 2
  ncon = nconmax or max(64, 2 * npair + 16, 12 * mjm.ngeom)
  d = mjw.make_data(mjm, nworld=len(mjms), nconmax=ncon, njmax=8)
  static = [g for g in range(mjm.ngeom) if mjm.body_weldid[mjm.geom_bodyid[g]] == 0]
  if static:
    xpos, xmat = d.geom_xpos.numpy(), d.geom_xmat.numpy()
    for w, x in enumerate(mjms):
      dx = mujoco.MjData(x)
      mujoco.mj_kinematics(x, dx)
      for g in static:
        xpos[w, g] = dx.geom_xpos[g]
        xmat[w, g] = dx.geom_xmat[g].reshape(3, 3)
    wp.copy(d.geom_xpos, wp.array(xpos, dtype=d.geom_xpos.dtype, shape=d.geom_xpos.shape))
    wp.copy(d.geom_xmat, wp.array(xmat, dtype=d.geom_xmat.dtype, shape=d.geom_xmat.shape))
  return d


def make_batch_case(case, rng):
  """Returns None (MuJoCo rejected a variant) or a dict: xml (all variants joined), mjms (per world), qs, feats, nrow."""
  flags = dict(_col.FLAGSETS[case["flags"]])
  slots = [tuple(s) for s in case["pairs"]]
  bt, pairs, plane, hfield = slots_to_scene(slots)
  opts = {"flags": flags, "cone": ("pyramidal", "elliptic")[int(rng.integers(2))], "p_margin": 0.35, "p_params": 0.3}
  opts["polytope_margin"] = case["flags"] == "nonative"
  opts["plane"], opts["hfield"] = plane, hfield
  opts["plane_tilt"] = rng.random() < 0.5
  opts["pairs"] = [p for p in pairs if not isinstance(p[0], str) and rng.random() < 0.25]
  xml, info = _col.build_scene(rng, bt, opts)
  xmls, nrow = variant_xmls(xml, rng, opts["polytope_margin"])
  mjms = [gen.compile_xml(x) for x in xmls]
  if any(x is None for x in mjms):
    return None
  m0 = mjms[0]
  for x in mjms[1:]:
    if x.ngeom != m0.ngeom or x.nmesh != m0.nmesh or x.nq != m0.nq or not np.array_equal(x.geom_type, m0.geom_type) or not np.array_equal(x.geom_bodyid, m0.geom_bodyid):
      raise AssertionError("variants differ in structure")
  # search range of the placement: the largest bounding radius over the worlds (+ the geom frame offset)
  import mujoco

  rb = []
  for name in info["body_geom"]:
    g = mujoco.mj_name2id(m0, mujoco.mjtObj.mjOBJ_GEOM, name)
    rb.append(max(float(x.geom_rbound[g] + np.linalg.norm(x.geom_pos[g])) for x in mjms))
  info = dict(info, rbound=rb)
  qs = [_col.place_pairs(mjms[w], info, pairs, rng)[0] for w in range(NWORLD)]
  feats = ["batchscene", "flags:" + case["flags"], "cone:" + opts["cone"]] + [f"batch:rows:{k}={v}" for k, v in nrow.items()]
  return {"xml": "\n".join(xmls), "mjms": mjms, "qs": qs, "feats": feats, "nrow": nrow, "pairs": pairs, "info": info}
