"""C40 Flex deformables agree with MuJoCo C.

Differential monitor: mjw.forward on generated flexcomp models (1D cables, 2D cloth, 3D soft bodies; vertex dofs and
interpolated 'trilinear' / '2d' / 'radial' dofs; pins; edge stiffness / damping; elasticity; edge / strain equality; self,
flex-flex and flex-geom collision) in several worlds with random vertex displacements and velocities, versus mj_forward
(MuJoCo 3.13 C, float64) on the same float32 state: flexvert_xpos, flexedge_length / velocity / J, qfrc_spring / damper /
passive with cmp.judge and a measured noise floor; flex contacts and constraint rows as multisets; qacc only under the
gating rule of DESIGN section 3.

Second family ("mix" cases): contact-parameter mixing of flex-geom and flex-flex contacts.  Every collidable object of the
scene (plane, primitive / mesh geoms, one or two flexes) carries its own, unequal priority / solmix / solref (standard and
direct form) / solimp / friction / margin / gap / condim, every third case additionally with per-world rows of the batched
geom_* parameter fields.  Oracle: contact.solref / solimp / friction per colliding pair (they depend on the two objects
only, so they are compared whether or not the contact sets of the two engines agree), contact.dim / includemargin per pair
and primitive kind, and efc D / aref of the contact rows where the contact multisets match.
"""

import mujoco
import numpy as np

from mon import cmp, core, mw

ID = "C40"
LEVEL = "exploration"
RULE = (
  "case=seed: one or two flexcomp grids (dim 1: 3..8 vertices; dim 2: 2..5 x 2..5; dim 3: 2..3 per axis) with random "
  "spacing / radius / mass / pose, attached to the world or to a sliding / hinged / free body, dof in {full, 2d, radial, "
  "trilinear}, pinned vertices, one passive mechanism (edge stiffness+damping for cables, elasticity young/poisson/damping/"
  "thickness/elastic2d for cloth and solids) or one constraint mechanism (edge equality, strain equality), selfcollide in "
  "{none,narrow,bvh,sap,auto}, 0..3 primitive / mesh geoms or a plane placed at contact distance; Euler or RK4; both cones; "
  "dense / sparse Jacobian; 2-3 worlds with different qpos / qvel noise. Mixing family (case kind 'mix'): flex f0 (dim 1/2/3) "
  "resting on a plane and / or under 1-2 primitive or mesh geoms and / or under a second flex, at penetration or inside the "
  "summed margin; each side draws priority (all equal in 60% of the cases, else per side from {-1,0,1,2}), solmix from "
  "{0, 1e-16, 0.2, 1, 3, 10}, solref standard (timeconst down to below 2*timestep) or direct, solimp (incl. values the "
  "impedance has to clip), friction, margin, gap (12%), condim; 3 worlds; every third case gives the geoms different "
  "solmix / solref / solimp / friction / margin / gap per world through Model fields with 2 or 3 rows. Rigid-body family (case "
  "kind 'rigid'): a dim 1/2 <deformable><flex body=...> with edge equality whose 3-4 vertices sit with non-zero offsets on rigid "
  "bodies of different kinematic trees with free / ball / hinge joints (off-centre anchors and masses), random orientations and "
  "angular velocities; flexvert_xpos, flexedge_length / velocity / J vs MuJoCo and flexedge_velocity vs flexedge_J @ qvel. Non-trivial: flex with "
  ">=3 vertices displaced from qpos0 and at least one active flex mechanism; distinct by hash(xml, qpos, qvel)."
)
ASSUMPTIONS = [
  "MuJoCo 3.13 C (float64) mj_forward is the reference at the same float32-representable state; MuJoCo 3.13 refuses flex + implicit integrators, so only Euler / RK4 models are generated",
  "models that put_model refuses (quadratic interpolation, internal collisions, flex with hfield / SDF geoms, flex equality + sleeping) are counted as rejected, not as findings",
  "pre-solver fields use allowance 2e-5*scale + 50*measured reference noise (violation above 30x); contacts and constraint rows are compared as multisets keyed by (geom, flex, elem, vert) and (type, id); a contact whose reference distance is within 1e-5 of its activation margin, or whose key set changes under the ulp probe, is inconclusive",
  "contact.solref / solimp / friction are functions of the two colliding objects alone (mj_contactParam), so one MuJoCo contact of a (geom, flex) / (flex, flex) pair is the reference for every MJWarp contact of that pair (allowance 1e-6*scale, no noise term); contact.dim and includemargin are compared per pair and primitive kind (vertex / element); efc.aref of a row is judged only where the row's J and pos agree (it is downstream of both), with the per-row spread of MuJoCo's aref / D under the Cartesian float32 probe as noise",
  "per-world geom parameters: world w of a Model whose batched geom_* fields have n rows reads row w % n (documented batching rule); the reference of world w is a copy of the MjModel with that row written into it",
  "qacc is not part of the property statement: under the gating rule (contact and row multisets matched, no iteration limit, stable reference) its agreement is only tallied (gated_qacc_agrees / greyzone / differs); the single exception is FLEXSTRAIN + sparse Jacobian + Newton, where matched rows with a non-optimal result are reported",
]
BUDGET = {"quick": 300, "thorough": 1500}
CRASH_IS_VIOLATION = True  # a model accepted by put_model that kills the process inside mjw.forward cannot "agree with MuJoCo"

A = 2e-5
SHAPES2 = ((3, 3), (3, 4), (4, 4), (2, 5))
SHAPES3 = ((2, 2, 2), (3, 2, 2), (2, 3, 3), (3, 3, 3))
PRE = ("flexvert_xpos", "flexedge_length", "flexedge_velocity", "qfrc_spring", "qfrc_damper", "qfrc_passive")


def cases(tier, seed):
  n = 80 if tier == "quick" else 1200
  out = [{"id": f"crash_{k}", "kind": "crash", "probe": k, "seed": 0, "weight": 3} for k in CRASH_PROBES]
  nmix = 40 if tier == "quick" else 500
  # contact-parameter mixing family (every third case with per-world geom parameters); interleaved so that a run cut short by the budget sees both
  mixc = [{"id": f"mix{seed}_{i}", "kind": "mix", "seed": 7000000 + seed * 100000 + i, "perworld": i % 3 == 2} for i in range(nmix)]
  gen_ = [{"id": f"s{seed}_{i}", "seed": seed * 100000 + i} for i in range(n)]
  step = max(1, n // nmix)
  inter = []
  for i, c in enumerate(gen_):
    inter.append(c)
    if i % step == step - 1 and mixc:
      inter.append(mixc.pop(0))
  # flexes defined directly over rigid bodies of different kinematic trees (vertex bodies with rotational dofs); cheap, run first
  nrig = 24 if tier == "quick" else 200
  rig = [{"id": f"rig{seed}_{i}", "kind": "rigid", "seed": 9000000 + seed * 100000 + i} for i in range(nrig)]
  return out + rig + inter + mixc


# ------------------------------------------------------------------------------------ flex over rigid bodies
# <deformable><flex body="a b c" vertex=... element=...>: every vertex sits, with a non-zero local offset, on a rigid body
# that is the root of its own kinematic tree and has rotational dofs (free / ball / hinge joint with an off-centre anchor).
# The edge Jacobian column of such a dof is cdof_lin + cdof_ang x (vertex - subtree_com[root of THAT body]), so the lever arm
# of each end of an edge refers to a different tree.  flexcomp flexes (slide joints only, cdof_ang = 0) never exercise this.
# The joint patterns are a small fixed set (MJWarp kernels specialise on nv).

RIGID_PATTERNS = (("free", "free", "free"), ("free", "ball", "hinge"), ("ball", "free", "hinge", "free"), ("hinge", "ball", "ball", "free"))


def make_rigid_xml(seed):
  rng = np.random.default_rng(seed + 11)
  pat = list(RIGID_PATTERNS[int(rng.integers(len(RIGID_PATTERNS)))])
  rng.shuffle(pat)
  nb = len(pat)
  dim = int(rng.choice([1, 2]))
  bodies = []
  for i, jt in enumerate(pat):
    pos = np.array([0.4 * i, 0.0, 1.0]) + rng.uniform(-0.15, 0.15, size=3)
    if jt == "free":
      j = "<freejoint/>"
    elif jt == "ball":
      j = f'<joint type="ball" pos="{_f(rng.uniform(-0.1, 0.1, size=3))}"/>'
    else:
      ax = rng.normal(size=3)
      j = f'<joint type="hinge" axis="{_f(ax / np.linalg.norm(ax))}" pos="{_f(rng.uniform(-0.1, 0.1, size=3))}"/>'
    # off-centre geom: the subtree COM differs from the body frame origin
    bodies.append(f'<body name="b{i}" pos="{_f(pos)}" euler="{_f(rng.uniform(-60, 60, size=3))}">{j}<geom type="box" size=".1 .05 .02" pos="{_f(rng.uniform(-0.05, 0.05, size=3))}" mass="{_f(rng.uniform(0.3, 2.0))}" contype="0" conaffinity="0"/></body>')
  order = list(range(nb))
  if rng.random() < 0.3:
    rng.shuffle(order)  # vertex order != body order: the listed flexedge_J deviation (sequential writes, colind ignored)
  verts = rng.uniform(0.03, 0.12, size=(nb, 3)) * rng.choice([-1.0, 1.0], size=(nb, 3))
  if dim == 1:
    elem = [x for i in range(nb - 1) for x in (i, i + 1)]
  else:
    elem = [0, 1, 2] if nb == 3 else [0, 1, 2, 1, 3, 2]
  integ = str(rng.choice(["Euler", "RK4"]))
  jac = str(rng.choice(["dense", "sparse"]))
  xml = f"""<mujoco model="flexrigid{seed}">
  <option timestep="0.002" gravity="0 0 {_f(rng.choice([0.0, -9.81]))}" integrator="{integ}" jacobian="{jac}"/>
  <worldbody>{"".join(bodies)}</worldbody>
  <deformable><flex name="fr" dim="{dim}" radius="0.01" body="{" ".join(f"b{i}" for i in order)}" vertex="{_f(verts.reshape(-1))}" element="{" ".join(map(str, elem))}"><contact selfcollide="none" contype="0" conaffinity="0"/></flex></deformable>
  <equality><flex flex="fr"/></equality>
</mujoco>"""
  return xml, pat, dim


def run_rigid(case):
  import mujoco_warp as mjw

  rec = core.Rec(case)
  seed = case["seed"]
  rng = np.random.default_rng(seed + 5)
  xml, pat, dim = make_rigid_xml(seed)
  try:
    mjm = mujoco.MjModel.from_xml_string(xml)
  except Exception as e:  # noqa
    rec.rejected = f"mujoco compile: {e}"[:200]
    rec.count("rejected_mujoco:" + str(e).split("\n")[0][:60])
    return rec.result()
  try:
    m = mw.put_model(mjm)
  except (NotImplementedError, ValueError) as e:
    rec.rejected = f"put_model: {e}"[:200]
    rec.count("rejected_put_model:" + str(e)[:60])
    return rec.result()
  vb = np.array(mjm.flex_vertbodyid)
  eb = vb[np.array(mjm.flex_edge).reshape(-1, 2)]  # the two vertex bodies of every edge
  # listed deviation flexedge_J:jointed-parent-or-second-flex (own dofs of body 1, then of body 2, written sequentially whatever colind says)
  misordered = bool(np.any(mjm.body_dofadr[eb[:, 0]] >= mjm.body_dofadr[eb[:, 1]]))
  cross_tree = int(np.sum(mjm.body_rootid[eb[:, 0]] != mjm.body_rootid[eb[:, 1]]))
  nworld = 2 + int(seed % 2)
  states = []
  vamp = float(rng.choice([0.3, 1.0, 3.0]))
  for _ in range(nworld):
    st = sample_state(mjm, rng, [{"spacing": 0.1}])
    qpos = np.array(mjm.qpos0) + rng.normal(size=mjm.nq) * 0.1
    for j in range(mjm.njnt):
      a = int(mjm.jnt_qposadr[j])
      if mjm.jnt_type[j] == mujoco.mjtJoint.mjJNT_FREE:
        a += 3
      if mjm.jnt_type[j] in (mujoco.mjtJoint.mjJNT_FREE, mujoco.mjtJoint.mjJNT_BALL):
        q = rng.normal(size=4)
        qpos[a : a + 4] = q / np.linalg.norm(q)
    st["qpos"] = qpos.astype(np.float32)
    st["qvel"] = (rng.normal(size=mjm.nv) * vamp).astype(np.float32)
    states.append(st)
  d = mw.make_data(mjm, m, states, nconmax=16, njmax=64)
  mjw.forward(m, d)
  got = {k: mw.npy(getattr(d, k)) for k in ("flexvert_xpos", "flexedge_length", "flexedge_velocity")}
  eJ = mw.npy(d.flexedge_J)
  rn, ra, ci = mw.npy(m.flexedge_J_rownnz), mw.npy(m.flexedge_J_rowadr), mw.npy(m.flexedge_J_colind)

  def ext(mjm_, mjd_):
    o = {k: np.array(getattr(mjd_, k)) for k in ("flexvert_xpos", "flexedge_length", "flexedge_velocity")}
    o["flexedge_J"] = dense_edge_J(mjm_, mjd_.flexedge_J, mjm_.flexedge_J_rownnz, mjm_.flexedge_J_rowadr, mjm_.flexedge_J_colind)
    return o

  for w in range(nworld):
    ctx = f"world {w} (flex over rigid bodies {'/'.join(pat)}, dim {dim})"
    ref, noise, _ = cmp.reference(mjm, states[w], stage, ext, seed=seed + w)
    for k in ("flexvert_xpos", "flexedge_length", "flexedge_velocity"):
      r = ref[k]
      judge(rec, k, np.asarray(got[k][w]).reshape(-1)[: r.size].reshape(r.shape), r, A, noise[k], suffix=":rigid-bodies", ctx=ctx)
    gJ = dense_edge_J(mjm, eJ[w], rn, ra, ci)
    judge(rec, "flexedge_J", gJ, ref["flexedge_J"], A, noise["flexedge_J"], suffix=(":jointed-parent-or-second-flex" if misordered else ":rigid-bodies"), ctx=ctx)
    # the VALUES of the stored Jacobian, read in the layout _flex_edges writes them (own dofs of vertex body 1, then of vertex
    # body 2, from rowadr on; every vertex body here is a tree root with its own dofs only), so that they are judged also where
    # that layout differs from colind (the listed deviation above)
    gJs = np.zeros((mjm.nflexedge, mjm.nv))
    for e in range(mjm.nflexedge):
      p = int(ra[e])
      for b in eb[e]:
        n_, a_ = int(mjm.body_dofnum[b]), int(mjm.body_dofadr[b])
        gJs[e, a_ : a_ + n_] = np.asarray(eJ[w]).reshape(-1)[p : p + n_]
        p += n_
    if misordered:
      judge(rec, "flexedge_J", gJs, ref["flexedge_J"], A, noise["flexedge_J"], suffix=":rigid-bodies", ctx=ctx + " [values in write order]")
    # internal consistency: the stored edge velocity is the stored edge Jacobian times qvel (float32 accumulation as noise)
    qv = states[w]["qvel"].astype(np.float64)
    acc = float((np.abs(gJs) @ np.abs(qv)).max()) * 1.2e-7
    judge(rec, "flexedge_velocity", np.asarray(got["flexedge_velocity"][w])[: mjm.nflexedge], gJs @ qv, A, acc, suffix=":rigid-bodies:vs-J-qvel", ctx=ctx)
    rec.cover("rigid:edges_velocity_vs_J_qvel", int(mjm.nflexedge))
    spin = np.zeros(mjm.nbody, bool)  # bodies with an own rotational dof that is moving
    for j in range(mjm.njnt):
      da = int(mjm.jnt_dofadr[j])
      rot = {int(mujoco.mjtJoint.mjJNT_FREE): slice(da + 3, da + 6), int(mujoco.mjtJoint.mjJNT_BALL): slice(da, da + 3), int(mujoco.mjtJoint.mjJNT_HINGE): slice(da, da + 1)}.get(int(mjm.jnt_type[j]))
      if rot is not None and np.any(np.abs(states[w]["qvel"][rot]) > 1e-3):
        spin[mjm.jnt_bodyid[j]] = True
    rec.cover("rigid:edges_across_trees_second_body_spinning", int(np.sum((mjm.body_rootid[eb[:, 0]] != mjm.body_rootid[eb[:, 1]]) & spin[eb[:, 1]])))
    rec.cover("rigid:edges_compared", int(mjm.nflexedge))
  rec.cover("rigid:cases_run", 1)
  rec.cover("rigid:cases_vertex_order_differs_from_dof_order", int(misordered))
  rec.cover("features", "family:rigid-bodies")
  rec.cover("features", f"rigid_dim{dim}")
  for jt in set(pat):
    rec.cover("features", "rigid_joint:" + jt)
  if cross_tree:
    rec.nontrivial(xml, *[s["qpos"] for s in states], *[s["qvel"] for s in states])
  rec.sample = {"family": "rigid", "scene_seed": seed, "joints": pat, "dim": dim, "nv": mjm.nv, "nflexvert": mjm.nflexvert, "nflexedge": mjm.nflexedge, "worlds": nworld, "misordered": misordered}
  return rec.result()


# ------------------------------------------------------------------------------------ directed crash probes
# Two accepted models that kill the process inside mjw.forward.  They run in a child process so that the crash becomes a
# verdict with a mechanism signature instead of a dead worker.  The second one is not deterministic (about one run in two),
# it is therefore repeated.

_WEDGE = '<asset><mesh name="wedge" vertex="-0.1 -0.1 -0.1  0.1 -0.1 -0.1  0.1 0.1 -0.1  -0.1 0.1 -0.1  0 -0.1 0.1  0 0.1 0.1"/></asset>'
CRASH_PROBES = {
  "tactile-contacts-flex-geom-1": {
    "sig": "crash:tactile-contacts-flex-geom-1",
    "repeat": 1,
    "noise": 0.0,
    "xml": """<mujoco><option timestep="0.002"/><worldbody>
<flexcomp name="a" type="grid" count="3 3 1" spacing="0.1 0.1 0.1" dim="2" mass="1" radius="0.01" pos="0 0 0.4"><edge equality="true"/><contact selfcollide="none" internal="false" condim="3"/></flexcomp>
<flexcomp name="b" type="grid" count="4 1 1" spacing="0.08 0.08 0.08" dim="1" mass="1" radius="0.01" pos="0.02 0.03 0.415"><edge equality="true"/><contact selfcollide="none" internal="false" condim="3"/></flexcomp>
</worldbody></mujoco>""",
    "what": "model without geoms whose flexes touch: sensor._preprocess_tactile_contacts reads geom_bodyid[contact.geom] with geom = -1",
  },
  "efc_contact_init_flex": {
    "sig": "crash:efc_contact_init_flex",
    "repeat": 5,
    "noise": 0.01,
    "xml": '<mujoco><option timestep="0.002" integrator="Euler" cone="elliptic" jacobian="auto" solver="Newton" tolerance="1e-10" iterations="200"/>'
    + _WEDGE
    + """<worldbody><geom name="inert" type="sphere" size="0.01" pos="3 3 3" contype="0" conaffinity="0"/>
<geom name="g0" type="ellipsoid" condim="3" size="0.0818497 0.0479446 0.0387793" pos="0.129748 0.249578 0.361626"/><geom name="g1" type="mesh" condim="3" mesh="wedge" pos="0.230648 0.00965404 0.200363"/><geom name="g2" type="cylinder" condim="4" priority="-1" size="0.0695741 0.115957" pos="0.0789968 0.160741 0.181785"/>
<body name="carrier" pos="0 0 0.3117"><joint type="slide" axis="0 0 1" damping="1"/><geom name="cg" type="box" size="0.03 0.03 0.01" pos="0 0 -0.05" contype="0" conaffinity="0"/>
<flexcomp name="f0" type="grid" count="3 4 1" spacing="0.08 0.08 0.08" dim="2" mass="0.783454" radius="0.01" pos="0 0 0" dof="2d"><edge equality="true" damping="0.131647"/><contact selfcollide="sap" internal="false" condim="6" solref="0.05 0.5"/></flexcomp></body>
<flexcomp name="f1" type="grid" count="2 3 2" spacing="0.08 0.08 0.08" dim="3" mass="1.06637" radius="0.03" pos="-0.00404417 0.0260488 0.3417" dof="trilinear"><elasticity young="63161.6" poisson="0.182782" damping="0.001"/><contact selfcollide="none" internal="false" condim="6"/></flexcomp>
</worldbody></mujoco>""",
    "what": "cloth with 2d dofs on a sliding body + trilinear soft body + geoms, ~110 contacts: make_constraint's _efc_contact_init_flex launch",
  },
}

_CHILD = """
import sys, numpy as np, mujoco, warp as wp
wp.config.quiet = True
wp.config.kernel_cache_dir = sys.argv[1]
import mujoco_warp as mjw
xml = open(sys.argv[2]).read()
noise = float(sys.argv[3])
mjm = mujoco.MjModel.from_xml_string(xml)
m = mjw.put_model(mjm)
d = mjw.make_data(mjm, nworld=2, nconmax=400, njmax=1600)
if noise > 0:  # the state of the generated case that first showed the crash (old generator, case seed 78)
  sys.path.insert(0, sys.argv[4])
  from mon.props import C40
  rng = np.random.default_rng(78 + 5)
  st = [C40.sample_state(mjm, rng, [{"spacing": 0.08}]) for _ in range(2)]
  wp.copy(d.qpos, wp.array(np.stack([x["qpos"] for x in st]), dtype=float))
  wp.copy(d.qvel, wp.array(np.stack([x["qvel"] for x in st]), dtype=float))
mjw.forward(m, d)
wp.synchronize()
print("SURVIVED", int(d.nacon.numpy()[0]), flush=True)
"""


def run_crash_probe(case):
  import os
  import subprocess
  import tempfile

  rec = core.Rec(case)
  P = CRASH_PROBES[case["probe"]]
  try:
    mujoco.MjModel.from_xml_string(P["xml"])
  except Exception as e:  # noqa
    rec.rejected = f"mujoco compile: {e}"[:200]
    return rec.result()
  tmp = tempfile.mkdtemp(prefix="c40crash_")
  xp = os.path.join(tmp, "model.xml")
  sp = os.path.join(tmp, "child.py")
  open(xp, "w").write(P["xml"])
  open(sp, "w").write(_CHILD)
  env = dict(os.environ)
  env["PYTHONPATH"] = (core.REPO + ":" if core.REPO != "/repo" else "") + env.get("PYTHONPATH", "")
  cache = os.path.join(core.VERIF, ".cache", "release")
  died, survived, other, ran = 0, 0, [], P["repeat"]
  for k in range(P["repeat"]):
    try:
      p = subprocess.run(["/venv/bin/python", sp, cache, xp, str(P["noise"]), core.VERIF], capture_output=True, text=True, timeout=600, env=env)
    except subprocess.TimeoutExpired:
      other.append("timeout")
      continue
    rec.check()
    if p.returncode < 0 or p.returncode in (134, 139):
      died += 1
      tail = p.stderr[-600:]
      ran = k + 1
      break
    elif "SURVIVED" in p.stdout:
      survived += 1
    else:
      other.append((p.returncode, p.stderr[-300:]))
  rec.cover(f"crash_probe_runs:{case['probe']}", ran)
  rec.cover(f"crash_probe_died:{case['probe']}", died)
  if died:
    rec.viol(P["sig"], f"child process running mjw.forward on an accepted model died from a signal in run {ran} of at most {P['repeat']} ({P['what']})", stderr_tail=tail, runs=ran, died=died)
  if other and not died:
    rec.inconcl(f"crash probe ended abnormally without a signal: {other[:2]}"[:200])
  rec.nontrivial("crash", case["probe"])
  rec.sample = {"probe": case["probe"], "runs": ran, "died": died, "survived": survived}
  return rec.result()


# ------------------------------------------------------------------------------------ generator


def _f(x):
  return " ".join(f"{float(v):.6g}" for v in np.atleast_1d(x))


def flex_xml(rng, name, dim, origin, feat, collide_geoms, nocollide=False):
  """One <flexcomp>; returns (xml, info)."""
  # sizes come from a small set of shape classes: MJWarp kernels specialise on nv, every new nv costs ~10 s of compilation
  if dim == 1:
    count = [int(rng.choice([4, 6, 8])), 1, 1]
  elif dim == 2:
    count = list(SHAPES2[int(rng.integers(len(SHAPES2)))]) + [1]
  else:
    count = list(SHAPES3[int(rng.integers(len(SHAPES3)))])
  sp = float(rng.choice([0.05, 0.08, 0.1, 0.15]))
  radius = float(rng.choice([r for r in (0.005, 0.01, 0.02, 0.03) if 2.2 * r < sp]))  # MuJoCo: spacing must exceed the geometry size
  a = {"name": name, "type": "grid", "count": _f(count).replace(".0", ""), "spacing": _f([sp] * 3), "dim": str(dim), "mass": _f(rng.uniform(0.2, 2.0)), "radius": _f(radius), "pos": _f(origin)}
  a["count"] = " ".join(str(c) for c in count)
  if rng.random() < 0.4:
    a["euler"] = _f(rng.uniform(-0.6, 0.6, size=3))
  dof = "full"
  if dim == 3:
    dof = str(rng.choice(["full", "full", "trilinear", "trilinear", "radial"]))
  elif dim == 2:
    dof = str(rng.choice(["full", "full", "2d", "trilinear"]))
  if dof != "full":
    a["dof"] = dof
  feat.add(f"dim{dim}")
  feat.add("dof:" + dof)
  inner = []
  # one passive or constraint mechanism
  if dim == 1:
    mech = str(rng.choice(["edge-spring", "edge-equality", "edge-equality+damping", "none"], p=[0.2, 0.6, 0.1, 0.1]))
  elif dof == "trilinear":
    mech = str(rng.choice(["elasticity", "strain-equality", "none"], p=[0.5, 0.4, 0.1]))
  else:
    mech = str(rng.choice(["elasticity", "edge-equality", "edge-equality+damping", "none"], p=[0.55, 0.3, 0.05, 0.1]))
  feat.add("mech:" + mech)
  if mech == "edge-spring":
    inner.append(f'<edge stiffness="{_f(rng.uniform(5, 200))}" damping="{_f(rng.uniform(0.01, 1.0))}"/>')
  elif mech == "edge-equality":
    inner.append('<edge equality="true"/>')
  elif mech == "edge-equality+damping":
    inner.append(f'<edge equality="true" damping="{_f(rng.uniform(0.01, 0.5))}"/>')
  elif mech == "strain-equality":
    inner.append('<edge equality="strain"/>')
  elif mech == "elasticity":
    e = {"young": _f(10 ** rng.uniform(3, 5)), "poisson": _f(rng.uniform(0, 0.45)), "damping": _f(rng.choice([0, 0.001, 0.01, 0.05]))}
    if dim == 2:
      e["thickness"] = _f(rng.choice([0.002, 0.01, 0.03]))
      e["elastic2d"] = str(rng.choice(["none", "bend", "stretch", "both"]))
      feat.add("elastic2d:" + e["elastic2d"])
    inner.append("<elasticity " + " ".join(f'{k}="{v}"' for k, v in e.items()) + "/>")
  # pins
  nvert = count[0] * count[1] * count[2]
  if dof == "full" and rng.random() < 0.45:
    npin = 1
    ids = sorted(set(int(x) for x in rng.choice(nvert, size=npin, replace=False)))
    inner.append(f'<pin id="{" ".join(map(str, ids))}"/>')
    feat.add("pin")
  # contact
  c = {}
  sc = str(rng.choice(["none", "none", "narrow", "bvh", "sap", "auto"]))
  if dof == "trilinear" or nocollide:
    sc = "none"  # MuJoCo: trilinear interpolation cannot do self-collision
  c["selfcollide"] = sc
  feat.add("selfcollide:" + sc)
  c["internal"] = "false"
  if nocollide or (not collide_geoms and rng.random() < 0.5):
    c["contype"] = "0"
    c["conaffinity"] = "0"
  else:
    c["condim"] = str(rng.choice([1, 3, 3, 4, 6]))
    feat.add("flex_condim:" + c["condim"])
    if rng.random() < 0.4:
      c["margin"] = _f(rng.choice([0.005, 0.02]))
      if rng.random() < 0.5:
        c["gap"] = _f(0.002)
      feat.add("flex_margin")
    if rng.random() < 0.3:
      c["friction"] = _f([rng.uniform(0.2, 1.5), 0.01, 0.001])
    if rng.random() < 0.3:
      c["solref"] = _f([rng.choice([0.01, 0.02, 0.05]), rng.choice([0.5, 1.0, 1.5])])
  inner.append("<contact " + " ".join(f'{k}="{v}"' for k, v in c.items()) + "/>")
  xml = "<flexcomp " + " ".join(f'{k}="{v}"' for k, v in a.items()) + ">" + "".join(inner) + "</flexcomp>"
  ext = np.array(count) * sp
  e2d = e.get("elastic2d") if mech == "elasticity" and dim == 2 else None
  return xml, {"count": count, "spacing": sp, "radius": radius, "extent": ext, "dim": dim, "dof": dof, "mech": mech, "e2d": e2d}


def make_xml(seed):
  rng = np.random.default_rng(seed)
  feat = set()
  dim = int(rng.choice([1, 2, 3], p=[0.3, 0.4, 0.3]))
  nocollide = rng.random() < 0.62  # collision-free models keep the passive / equality / solver comparison gated
  with_geoms = (not nocollide) and rng.random() < 0.75
  feat.add("collision:" + ("off" if nocollide else "on"))
  parent = str(rng.choice(["world", "slide", "hinge", "free"], p=[0.88, 0.04, 0.04, 0.04]))
  feat.add("parent:" + parent)
  origin = np.array([0.0, 0.0, float(rng.uniform(0.2, 0.5))])
  fx, info = flex_xml(rng, "f0", dim, [0, 0, 0] if parent != "world" else origin, feat, with_geoms, nocollide)
  flexes = [fx]
  infos = [info]
  second = ""
  if rng.random() < 0.2:
    d2 = int(rng.choice([1, 2, 3]))
    off = origin + np.array([0, 0, info["radius"] * 2 + 0.01]) + np.array([rng.uniform(-0.03, 0.03), rng.uniform(-0.03, 0.03), info["extent"][2] * (dim == 3)])
    f2, info2 = flex_xml(rng, "f1", d2, off, feat, True, nocollide)
    second = f2
    infos.append(info2)
    feat.add("two_flexes")
  geoms = []
  if with_geoms:
    ng = int(rng.integers(1, 4))
    ext = info["extent"]
    for k in range(ng):
      t = str(rng.choice(["plane", "sphere", "capsule", "cylinder", "box", "ellipsoid", "mesh"]))
      feat.add("geom:" + t)
      # a point on / near the flex, geom surface at about radius distance below or above it
      px = rng.uniform(0, ext[0]) if info["count"][0] > 1 else 0.0
      py = rng.uniform(0, ext[1]) if info["count"][1] > 1 else 0.0
      side = -1.0 if rng.random() < 0.7 else 1.0
      gap = info["radius"] + rng.normal() * 0.004
      zsurf = origin[2] + (side * gap if side < 0 else ext[2] * (dim == 3) + gap)
      g = {"name": f"g{k}", "type": t, "condim": str(rng.choice([1, 3, 3, 4, 6]))}
      if rng.random() < 0.3:
        g["margin"] = _f(rng.choice([0.002, 0.01]))
      if rng.random() < 0.3:
        g["priority"] = str(int(rng.integers(-1, 2)))
      if t == "plane":
        g["size"] = "1 1 0.1"
        g["pos"] = _f([0, 0, origin[2] - gap])
        if rng.random() < 0.4:
          g["euler"] = _f([rng.uniform(-0.1, 0.1), rng.uniform(-0.1, 0.1), 0])
      else:
        r = float(rng.uniform(0.03, 0.12))
        if t == "sphere":
          g["size"] = _f(r)
          hz = r
        elif t in ("capsule", "cylinder"):
          g["size"] = _f([r * 0.6, r])
          hz = r + (r * 0.6 if t == "capsule" else 0)
        elif t in ("box", "ellipsoid"):
          s3 = rng.uniform(0.03, 0.1, size=3)
          g["size"] = _f(s3)
          hz = s3[2]
        else:
          g["mesh"] = "wedge"
          hz = 0.1
        g["pos"] = _f([origin[0] + px, origin[1] + py, zsurf + side * hz])
        if t in ("capsule", "cylinder", "box", "ellipsoid") and rng.random() < 0.4:
          g["euler"] = _f([rng.uniform(-0.3, 0.3), rng.uniform(-0.3, 0.3), rng.uniform(-1, 1)])
      geoms.append("<geom " + " ".join(f'{k}="{v}"' for k, v in g.items()) + "/>")
  integ = str(rng.choice(["Euler", "Euler", "RK4"]))
  cone = str(rng.choice(["pyramidal", "elliptic"]))
  jac = str(rng.choice(["dense", "sparse", "auto"]))
  nvert_total = sum(int(np.prod(i["count"])) for i in infos)
  if 3 * nvert_total + 6 > 60 and jac == "dense":
    jac = "sparse"  # put_model refuses dense Jacobians for nv > 60
  solver = str(rng.choice(["Newton", "Newton", "CG"]))
  feat.update({"integrator:" + integ, "cone:" + cone, "jacobian:" + jac, "solver:" + solver})
  if parent == "world":
    body = fx
  else:
    j = {"slide": '<joint type="slide" axis="0 0 1" damping="1"/>', "hinge": '<joint type="hinge" axis="0 1 0" damping="1"/>', "free": "<freejoint/>"}[parent]
    body = f'<body name="carrier" pos="{_f(origin)}">{j}<geom name="cg" type="box" size="0.03 0.03 0.01" pos="0 0 -0.05" contype="0" conaffinity="0"/>{fx}</body>'
  xml = f"""<mujoco model="flex{seed}">
  <option timestep="0.002" integrator="{integ}" cone="{cone}" jacobian="{jac}" solver="{solver}" tolerance="1e-10" iterations="200"/>
  <size memory="50M"/>
  <asset><mesh name="wedge" vertex="-0.1 -0.1 -0.1  0.1 -0.1 -0.1  0.1 0.1 -0.1  -0.1 0.1 -0.1  0 -0.1 0.1  0 0.1 0.1"/></asset>
  <worldbody>
    <geom name="inert" type="sphere" size="0.01" pos="3 3 3" contype="0" conaffinity="0"/>
    {"".join(geoms)}
    {body}
    {second}
  </worldbody>
</mujoco>"""
  return xml, sorted(feat), infos


# ------------------------------------------------------------------------------------ contact-parameter mixing family
# Every collidable object (each geom, each flex) gets its own, UNEQUAL contact attributes, so that the parameters of a
# flex-geom / flex-flex contact depend on how the two sides are combined (mj_contactParam): priority decides or, at equal
# priority, solmix weights (either / both below mjMINVAL, unequal weights) blend solref (standard form; direct = negative
# form takes the minimum) and solimp, friction takes the maximum, condim the maximum, margin and gap are summed.

MIX_SHAPES = {1: ((4, 1, 1), (6, 1, 1)), 2: ((3, 3, 1), (3, 4, 1)), 3: ((2, 2, 2), (3, 2, 2))}
MIX_GEOMS = ("sphere", "capsule", "cylinder", "box", "ellipsoid", "mesh")


def mix_side(rng, prio, extreme_ok=True):
  """Random contact attributes of one collision side (dict of MJCF attribute strings)."""
  a = {"priority": str(int(prio))}
  a["solmix"] = _f(rng.choice([0.0, 1e-16, 0.2, 1.0, 1.0, 3.0, 10.0], p=[0.08, 0.08, 0.2, 0.12, 0.12, 0.2, 0.2]))
  if rng.random() < 0.75:
    a["solref"] = _f([rng.choice([0.003, 0.01, 0.02, 0.05], p=[0.1, 0.3, 0.3, 0.3]), rng.choice([0.3, 0.7, 1.0, 1.5])])
  else:
    a["solref"] = _f([-float(rng.choice([200.0, 1000.0, 5000.0])), -float(rng.choice([5.0, 20.0, 100.0]))])
  dmin = float(rng.uniform(0.5, 0.93))
  imp = [dmin, float(rng.uniform(dmin, 0.99)), float(rng.choice([0.001, 0.005, 0.02])), float(rng.uniform(0.2, 0.8)), float(rng.choice([1, 2, 3]))]
  if extreme_ok and rng.random() < 0.12:  # values getimpedance has to clip (dmin / mid / power below their floors, zero width)
    k = int(rng.integers(4))
    if k == 0:
      imp[0] = 0.0
    elif k == 1:
      imp[2] = 0.0
    elif k == 2:
      imp[3] = float(rng.choice([0.0, 1.0]))
    else:
      imp[4] = 0.5
  a["solimp"] = _f(imp)
  a["friction"] = _f([rng.uniform(0.1, 1.5), rng.uniform(0.001, 0.05), rng.uniform(0.0001, 0.005)])
  a["margin"] = _f(rng.choice([0.0, 0.0, 0.002, 0.005, 0.01]))
  if rng.random() < 0.12:
    a["gap"] = _f(rng.choice([0.001, 0.002]))
  a["condim"] = str(rng.choice([1, 3, 3, 4, 6]))
  return a


def mix_flex(rng, name, dim, center, radius, sp, mech, side):
  count = MIX_SHAPES[dim][int(rng.integers(2))]
  a = {"name": name, "type": "grid", "count": " ".join(str(c) for c in count), "spacing": _f([sp] * 3), "dim": str(dim), "mass": _f(rng.uniform(0.2, 2.0)), "radius": _f(radius), "pos": _f(center)}
  inner = []
  if mech == "edge-equality" or dim == 1:
    mech = "edge-equality"
    inner.append('<edge equality="true"/>')
  else:
    e = {"young": _f(10 ** rng.uniform(3, 5)), "poisson": _f(rng.uniform(0, 0.45)), "damping": _f(rng.choice([0.001, 0.01]))}
    if dim == 2:
      e["thickness"] = _f(rng.choice([0.002, 0.01]))
      e["elastic2d"] = str(rng.choice(["none", "stretch"]))
    inner.append("<elasticity " + " ".join(f'{k}="{v}"' for k, v in e.items()) + "/>")
  c = {"selfcollide": "none", "internal": "false"}
  c.update(side)
  inner.append("<contact " + " ".join(f'{k}="{v}"' for k, v in c.items()) + "/>")
  xml = "<flexcomp " + " ".join(f'{k}="{v}"' for k, v in a.items()) + ">" + "".join(inner) + "</flexcomp>"
  half = (np.array(count) - 1) * sp / 2
  return xml, {"count": list(count), "spacing": sp, "radius": radius, "extent": np.array(count) * sp, "half": half, "dim": dim, "dof": "full", "mech": mech, "e2d": None}


def make_mix_xml(seed):
  """Scene of the mixing family: flex f0 over a plane and / or under primitive geoms and / or under a second flex."""
  rng = np.random.default_rng(seed + 77)
  feat = {"family:mix", "collision:on"}
  layout = str(rng.choice(["plane", "plane+geoms", "geoms", "flex-flex", "flex-flex+plane"], p=[0.35, 0.2, 0.1, 0.2, 0.15]))
  feat.add("mix_layout:" + layout)
  # priorities: all equal (the blending branch) or drawn per side (the priority branch)
  equal_prio = rng.random() < 0.6
  p0 = int(rng.choice([-1, 0, 0, 2]))
  prio = lambda: p0 if equal_prio else int(rng.choice([-1, 0, 0, 1, 2]))  # noqa: E731
  feat.add("mix_priorities:" + ("equal" if equal_prio else "per-side"))
  mech = str(rng.choice(["edge-equality", "elasticity"], p=[0.6, 0.4]))
  dim = int(rng.choice([1, 2, 3], p=[0.25, 0.45, 0.3]))
  sp = float(rng.choice([0.08, 0.1]))
  radius = float(rng.choice([0.005, 0.01, 0.02]))
  z0 = float(rng.uniform(0.2, 0.5))
  sides = {"f0": mix_side(rng, prio())}
  fx, info = mix_flex(rng, "f0", dim, [0, 0, z0], radius, sp, mech, sides["f0"])
  infos = [info]
  feat.update({f"dim{dim}", "dof:full", "mech:" + info["mech"], "selfcollide:none"})
  m0 = float(sides["f0"]["margin"])
  zbot = z0 - info["half"][2] - radius
  ztop = z0 + info["half"][2] + radius
  geoms, second = [], ""

  def depth(margin):
    # signed distance of the touching surfaces: penetrating, or inside the activation margin
    return float(rng.uniform(-0.004, -0.0005)) if (margin <= 0 or rng.random() < 0.5) else float(rng.uniform(0.1, 0.8) * margin)

  if "plane" in layout:
    s = mix_side(rng, prio())
    sides["g_plane"] = s
    g = {"name": "g_plane", "type": "plane", "size": "1 1 0.1", "pos": _f([0, 0, zbot - depth(m0 + float(s["margin"]))])}
    if rng.random() < 0.3:
      g["euler"] = _f([rng.uniform(-0.05, 0.05), rng.uniform(-0.05, 0.05), 0])
    g.update(s)
    geoms.append(g)
    feat.add("geom:plane")
  if "geoms" in layout:
    for k in range(int(rng.integers(1, 3))):
      t = str(rng.choice(MIX_GEOMS))
      feat.add("geom:" + t)
      s = mix_side(rng, prio())
      sides[f"g{k}"] = s
      g = {"name": f"g{k}", "type": t}
      r = float(rng.uniform(0.03, 0.08))
      if t == "sphere":
        g["size"], hz = _f(r), r
      elif t in ("capsule", "cylinder"):
        g["size"], hz = _f([r * 0.6, r]), r + (r * 0.6 if t == "capsule" else 0)
      elif t in ("box", "ellipsoid"):
        s3 = rng.uniform(0.03, 0.08, size=3)
        g["size"], hz = _f(s3), float(s3[2])
      else:
        g["mesh"], hz = "wedge", 0.1
      px = rng.uniform(-1, 1) * info["half"][0] * 0.8
      py = rng.uniform(-1, 1) * info["half"][1] * 0.8
      g["pos"] = _f([px, py, ztop + depth(m0 + float(s["margin"])) + hz])
      g.update(s)
      geoms.append(g)
  if "flex-flex" in layout:
    d2 = int(rng.choice([1, 2, 3], p=[0.2, 0.5, 0.3]))
    r2 = float(rng.choice([0.005, 0.01, 0.02]))
    s = mix_side(rng, prio())
    sides["f1"] = s
    half2z = sp / 2 if d2 == 3 else 0.0
    c2 = [float(rng.uniform(-0.03, 0.03)), float(rng.uniform(-0.03, 0.03)), ztop + depth(m0 + float(s["margin"])) + r2 + half2z]
    second, info2 = mix_flex(rng, "f1", d2, c2, r2, sp, mech, s)
    infos.append(info2)
    feat.update({"two_flexes", f"dim{d2}", "mech:" + info2["mech"]})
  integ = str(rng.choice(["Euler", "Euler", "RK4"]))
  cone = str(rng.choice(["pyramidal", "elliptic"]))
  jac = str(rng.choice(["dense", "sparse", "auto"]))
  nvert_total = sum(int(np.prod(i["count"])) for i in infos)
  if 3 * nvert_total + 6 > 60 and jac == "dense":
    jac = "sparse"
  solver = str(rng.choice(["Newton", "Newton", "CG"]))
  feat.update({"integrator:" + integ, "cone:" + cone, "jacobian:" + jac, "solver:" + solver, "parent:world"})
  gx = "".join("<geom " + " ".join(f'{k}="{v}"' for k, v in g.items()) + "/>" for g in geoms)
  xml = f"""<mujoco model="flexmix{seed}">
  <option timestep="0.002" integrator="{integ}" cone="{cone}" jacobian="{jac}" solver="{solver}" tolerance="1e-10" iterations="200"/>
  <size memory="50M"/>
  <asset><mesh name="wedge" vertex="-0.1 -0.1 -0.1  0.1 -0.1 -0.1  0.1 0.1 -0.1  -0.1 0.1 -0.1  0 -0.1 0.1  0 0.1 0.1"/></asset>
  <worldbody>
    <geom name="inert" type="sphere" size="0.01" pos="3 3 3" contype="0" conaffinity="0"/>
    {gx}
    {fx}
    {second}
  </worldbody>
</mujoco>"""
  return xml, sorted(feat), infos, rng


# batched Model fields read by the flex contact-parameter code (collision_flex._write_filtered_contacts: row worldid % leading size)
GEOM_BATCHED = ("geom_solmix", "geom_solref", "geom_solimp", "geom_friction", "geom_margin", "geom_gap")


def per_world_geom_params(mjm, m, rng, nworld):
  """Gives the collidable geoms different contact parameters per world (domain randomisation of batched Model fields).

  Returns the per-world reference models: world w of `m` is mjms[w] by the documented rule 'world w reads row w % leading size'.
  """
  import copy

  import warp as wp

  gsel = [g for g in range(mjm.ngeom) if mjm.geom_contype[g] or mjm.geom_conaffinity[g]]
  rows_of = {}
  for f in GEOM_BATCHED:
    if rng.random() < 0.25:
      continue
    b = int(rng.choice([2, nworld]))
    base = np.array(getattr(mjm, f), dtype=np.float64)
    rows = [base.copy() for _ in range(b)]
    for r in range(1, b):
      for g in gsel:
        if f == "geom_solmix":
          rows[r][g] = float(rng.choice([0.0, 0.3, 2.0, 7.0]))
        elif f == "geom_solref":
          rows[r][g] = [float(rng.choice([0.008, 0.03, 0.06])), float(rng.choice([0.4, 0.9, 1.3]))] if rng.random() < 0.7 else [-float(rng.choice([300.0, 2000.0])), -float(rng.choice([10.0, 50.0]))]
        elif f == "geom_solimp":
          lo = float(rng.uniform(0.5, 0.9))
          rows[r][g] = [lo, float(rng.uniform(lo, 0.99)), float(rng.choice([0.002, 0.01])), float(rng.uniform(0.2, 0.8)), float(rng.choice([1, 2]))]
        elif f == "geom_friction":
          rows[r][g] = [float(rng.uniform(0.1, 1.5)), float(rng.uniform(0.001, 0.05)), float(rng.uniform(0.0001, 0.005))]
        elif f == "geom_margin":
          rows[r][g] = float(rng.choice([0.0, 0.003, 0.008]))
        else:
          rows[r][g] = float(rng.choice([0.0, 0.0, 0.001]))
    rows_of[f] = [x.astype(np.float32) for x in rows]
  mjms = []
  for w in range(nworld):
    mw_ = copy.copy(mjm)
    for f, rows in rows_of.items():
      getattr(mw_, f)[:] = rows[w % len(rows)].astype(np.float64)
    mjms.append(mw_)
  for f, rows in rows_of.items():
    old = getattr(m, f)
    setattr(m, f, wp.array(np.stack(rows), dtype=old.dtype))
  return mjms, {f: len(r) for f, r in rows_of.items()}


def sample_state(mjm, rng, infos, amps=(0.002, 0.01, 0.03)):
  amp = float(rng.choice(list(amps))) * (infos[0]["spacing"] / 0.1)
  qpos = np.array(mjm.qpos0)
  qpos += rng.normal(size=mjm.nq) * amp
  for j in range(mjm.njnt):
    if mjm.jnt_type[j] == mujoco.mjtJoint.mjJNT_FREE:
      adr = mjm.jnt_qposadr[j]
      q = np.array([1.0, 0, 0, 0]) + rng.normal(size=4) * 0.2
      qpos[adr + 3 : adr + 7] = q / np.linalg.norm(q)
  z = np.zeros
  return {
    "qpos": qpos.astype(np.float32),
    "qvel": (rng.normal(size=mjm.nv) * float(rng.choice([0.0, 0.1, 1.0]))).astype(np.float32),
    "act": z(mjm.na, np.float32),
    "ctrl": z(mjm.nu, np.float32),
    "mocap_pos": z((mjm.nmocap, 3), np.float32),
    "mocap_quat": z((mjm.nmocap, 4), np.float32),
    "qfrc_applied": z(mjm.nv, np.float32),
    "xfrc_applied": z((mjm.nbody, 6), np.float32),
    "eq_active": np.array(mjm.eq_active0, dtype=bool),
    "time": np.float32(0),
  }


# ------------------------------------------------------------------------------------ reference


def judge(rec, name, got, ref, allow, noise=0.0, suffix="", ctx=""):
  """cmp.judge with a closed signature vocabulary: signature = observable + mechanism suffix (both from fixed sets).

  A non-finite MJWarp value carries the same signature as a wrong finite one (NaN vs garbage is not reproducible).
  """
  sig = name + suffix
  g = np.asarray(got, dtype=np.float64)
  r = np.asarray(ref, dtype=np.float64)
  if g.size == r.size and r.size and np.all(np.isfinite(r)) and not np.all(np.isfinite(g)):
    rec.check()
    rec.viol(sig, f"{name}: MJWarp value not finite where MuJoCo's is {ctx}")
    return "viol"
  if g.size != r.size:
    rec.check()
    rec.viol(sig, f"{name}: size {g.size} vs reference {r.size} {ctx}")
    return "viol"
  return cmp.judge(rec, sig, got, ref, allow, noise, ctx=ctx)


def stage(mjm, mjd):
  mujoco.mj_forward(mjm, mjd)


def dense_edge_J(mjm, vals, rownnz, rowadr, colind):
  J = np.zeros((mjm.nflexedge, mjm.nv))
  if mjm.nflexedge:
    mujoco.mju_sparse2dense(J, np.asarray(vals, dtype=np.float64).reshape(-1), np.asarray(rownnz, dtype=np.int32), np.asarray(rowadr, dtype=np.int32), np.asarray(colind, dtype=np.int32))
  return J


def mj_rows(mjm, mjd):
  nefc = mjd.nefc
  if mujoco.mj_isSparse(mjm):
    J = np.zeros((nefc, mjm.nv))
    if nefc:
      mujoco.mju_sparse2dense(J, mjd.efc_J, mjd.efc_J_rownnz, mjd.efc_J_rowadr, mjd.efc_J_colind)
  else:
    J = np.array(mjd.efc_J).reshape(nefc, mjm.nv)
  return {"type": np.array(mjd.efc_type), "id": np.array(mjd.efc_id), "pos": np.array(mjd.efc_pos), "margin": np.array(mjd.efc_margin), "D": np.array(mjd.efc_D), "aref": np.array(mjd.efc_aref), "J": J}


def contact_key(geom, flex, elem, vert):
  return tuple(int(x) for x in (*geom, *flex, *elem, *vert))


def extract(mjm, mjd):
  out = {k: np.array(getattr(mjd, k)) for k in PRE}
  out["flexedge_J"] = dense_edge_J(mjm, mjd.flexedge_J, mjm.flexedge_J_rownnz, mjm.flexedge_J_rowadr, mjm.flexedge_J_colind)
  out["qacc"] = np.array(mjd.qacc)
  # discrete structure, encoded as float arrays so that cmp.reference's probe can compare shapes / values
  keys = sorted(contact_key(c.geom, c.flex, c.elem, c.vert) for c in mjd.contact)
  out["_contact_keys"] = np.array(keys, dtype=np.float64).reshape(len(keys), 8)
  out["_nefc"] = np.array([mjd.nefc, mjd.ne, mjd.nf, mjd.nl], dtype=np.float64)
  # conditioning of the constraint rows' reference acceleration and (relative) regulariser under the ulp probes
  out["_efc_aref"] = np.array(mjd.efc_aref)
  out["_efc_lnD"] = np.log(np.maximum(np.array(mjd.efc_D), 1e-300))
  return out


MJ_MINVAL = 1e-15


def pair_cover(rec, mjm, pk):
  """Coverage counters: which branch of the parameter mixing a compared pair exercises (values read from the MjModel)."""
  g0, g1, f0, f1 = pk
  side = []
  for g in (g0, g1):
    if g >= 0:
      side.append((int(mjm.geom_priority[g]), float(mjm.geom_solmix[g]), np.array(mjm.geom_solref[g]), np.array(mjm.geom_solimp[g]), np.array(mjm.geom_friction[g]), float(mjm.geom_margin[g]), float(mjm.geom_gap[g]), int(mjm.geom_condim[g])))
  for f in (f0, f1):
    if f >= 0:
      side.append((int(mjm.flex_priority[f]), float(mjm.flex_solmix[f]), np.array(mjm.flex_solref[f]), np.array(mjm.flex_solimp[f]), np.array(mjm.flex_friction[f]), float(mjm.flex_margin[f]), float(mjm.flex_gap[f]), int(mjm.flex_condim[f])))
  if len(side) != 2 or (f0 == f1 and g0 < 0 and g1 < 0):
    return
  a, b = side
  if a[0] != b[0]:
    rec.cover("mix:pairs_priority_decides", 1)
  else:
    rec.cover("mix:pairs_equal_priority", 1)
    lo = (a[1] < MJ_MINVAL) + (b[1] < MJ_MINVAL)
    direct = (a[2][0] <= 0) + (b[2][0] <= 0)
    differ = bool(np.any(a[3] != b[3]) or (direct == 0 and np.any(a[2] != b[2])))
    if lo == 0 and a[1] != b[1] and differ:
      rec.cover("mix:pairs_blend_with_unequal_solmix", 1)
    elif lo == 0 and differ:
      rec.cover("mix:pairs_blend_with_equal_solmix", 1)
    elif lo == 1 and differ:
      rec.cover("mix:pairs_solmix_one_side_below_minval", 1)
    elif lo == 2 and differ:
      rec.cover("mix:pairs_solmix_both_sides_below_minval", 1)
    if direct:
      rec.cover("mix:pairs_solref_direct_" + ("one_side" if direct == 1 else "both_sides"), 1)
    if np.any(a[4] != b[4]):
      rec.cover("mix:pairs_unequal_friction", 1)
    if a[7] != b[7]:
      rec.cover("mix:pairs_unequal_condim", 1)
  if a[5] > 0 and b[5] > 0:
    rec.cover("mix:pairs_margin_on_both_sides", 1)
  if a[6] > 0 or b[6] > 0:
    rec.cover("mix:pairs_with_gap", 1)


def run_case(case):
  import mujoco_warp as mjw

  if case.get("kind") == "crash":
    return run_crash_probe(case)
  if case.get("kind") == "rigid":
    return run_rigid(case)
  rec = core.Rec(case)
  seed = case["seed"]
  rng = np.random.default_rng(seed + 5)
  mix = case.get("kind") == "mix"
  if mix:
    xml, feat, infos, mrng = make_mix_xml(seed)
  else:
    xml, feat, infos = make_xml(seed)
  try:
    mjm = mujoco.MjModel.from_xml_string(xml)
  except Exception as e:  # noqa
    rec.rejected = f"mujoco compile: {e}"[:200]
    rec.count("rejected_mujoco:" + str(e).split("\n")[0][:60])
    return rec.result()
  try:
    m = mw.put_model(mjm)
  except (NotImplementedError, ValueError) as e:
    rec.rejected = f"put_model: {e}"[:200]
    rec.count("rejected_put_model:" + str(e)[:60])
    return rec.result()
  # mechanism predicates of known deviations (each gets exactly one signature; fields downstream of it are not judged)
  anc = False
  for b in set(int(x) for x in mjm.flex_vertbodyid if x >= 0):
    p = mjm.body_parentid[b] if mjm.body_dofnum[b] else b
    while p > 0:
      if mjm.body_dofnum[p] and p != b:
        anc = True
      p = mjm.body_parentid[p]
  # a pinned vertex lives on the parent body itself: its own dofs are then shared with other vertices' ancestors
  jointed_parent = bool(anc)
  edge_spring = bool(np.any(mjm.flex_edgestiffness != 0))
  edge_damp = bool(np.any(mjm.flex_edgedamping != 0))
  if jointed_parent:
    rec.cover("models_flex_on_jointed_parent", 1)
  # MuJoCo's mj_flex leaves edge quantities untouched where they cannot matter: no lengths for rigid / interpolated flexes,
  # no Jacobian / velocity when the flex has no edge equality, edge stiffness / damping or elasticity damping
  e_len = np.zeros(mjm.nflexedge, bool)
  e_jac = np.zeros(mjm.nflexedge, bool)
  for f in range(mjm.nflex):
    a0, n0 = int(mjm.flex_edgeadr[f]), int(mjm.flex_edgenum[f])
    live = not mjm.flex_rigid[f] and mjm.flex_interp[f] == 0
    needj = bool(mjm.flex_edgeequality[f] or mjm.flex_edgedamping[f] or mjm.flex_edgestiffness[f] or mjm.flex_damping[f])
    e_len[a0 : a0 + n0] = live
    e_jac[a0 : a0 + n0] = live and needj
  # ---- closed signature vocabulary: observable + mechanism, both decided by model predicates (never by seed / sizes)
  needj_f = [bool(mjm.flex_edgeequality[f] or mjm.flex_edgedamping[f] or mjm.flex_edgestiffness[f] or mjm.flex_damping[f]) for f in range(mjm.nflex)]
  live_f = [bool(not mjm.flex_rigid[f] and mjm.flex_interp[f] == 0) for f in range(mjm.nflex)]
  # a live flex without Jacobian storage (rownnz = 0, rowadr = 0) next to one with storage: _flex_edges writes it anyway
  nojac_second = any(live_f[f] and not needj_f[f] for f in range(mjm.nflex)) and any(live_f[f] and needj_f[f] for f in range(mjm.nflex))
  jstruct = bool(jointed_parent or nojac_second)
  interp_elastic = any(mjm.flex_interp[f] != 0 and infos[f]["mech"] == "elasticity" for f in range(min(mjm.nflex, len(infos))))
  radial_elastic = any(infos[f]["dof"] == "radial" and infos[f]["mech"] == "elasticity" for f in range(min(mjm.nflex, len(infos))))
  flexstrain = bool(np.any(mjm.eq_type == int(mujoco.mjtEq.mjEQ_FLEXSTRAIN))) if mjm.neq else False
  sparse_newton = bool(m.is_sparse and mjm.opt.solver == mujoco.mjtSolver.mjSOL_NEWTON)
  # put_model warns "Bending damping is not yet supported for interpolated flex shells": documented, not judged
  bend_damp_doc = False
  for f in range(mjm.nflex):
    if mjm.flex_interp[f] < 0 and mjm.flex_bendingadr[f] >= 0 and int(mjm.flex_bending[mjm.flex_bendingadr[f]]) > 0 and mjm.flex_damping[f] > 0:
      bend_damp_doc = True
  any_gap = bool(np.any(mjm.flex_gap != 0) or np.any(mjm.geom_gap != 0))

  def passive_suffix():
    if interp_elastic:
      return ":interpolated-elasticity"
    if radial_elastic:
      return ":radial-elasticity"
    return ""

  def path(key):
    """Collision path of a contact key (one MJWarp kernel family each)."""
    g0_, g1_, f0_, f1_ = key[:4]
    if g0_ >= 0 or g1_ >= 0:
      g = g0_ if g0_ >= 0 else g1_
      return "plane-flex" if mjm.geom_type[g] == mujoco.mjtGeom.mjGEOM_PLANE else "geom-flex"
    return "self-flex" if f0_ == f1_ else "flex-flex"

  SETSIG = {"geom-flex": "contacts:geom-flex:vertex-vs-element-contacts", "plane-flex": "contacts:plane-flex", "self-flex": "contacts:self-flex", "flex-flex": "contacts:flex-flex"}

  def combo(key):
    """Primitive pair of a contact key (coverage counters only)."""
    g0_, g1_, f0_, f1_, e0_, e1_, v0_, v1_ = key
    if g0_ >= 0 or g1_ >= 0:
      g = g0_ if g0_ >= 0 else g1_
      f = f1_ if f1_ >= 0 else f0_
      gt = mujoco.mjtGeom(int(mjm.geom_type[g])).name[7:].lower()
      prim = "elem" if max(e0_, e1_) >= 0 else "vert"
      return f"{gt}-vs-{prim}(dim{int(mjm.flex_dim[f])})"
    prim = ("elem" if e0_ >= 0 else "vert") + "-" + ("elem" if e1_ >= 0 else "vert")
    same = "self" if f0_ == f1_ else "flex-flex"
    return f"{same}:{prim}(dim{int(mjm.flex_dim[f0_])},dim{int(mjm.flex_dim[f1_])})"

  nworld = 2 + int(seed % 2)
  mjms = [mjm] * nworld
  if mix:
    nworld = 3
    mjms = [mjm] * nworld
    if case.get("perworld"):
      mjms, lead = per_world_geom_params(mjm, m, mrng, nworld)
      for f_, b_ in lead.items():
        rec.cover(f"mix:batched_field_rows:{f_}", b_)
      feat = sorted(set(feat) | {"mix_per_world_geom_params"})
      any_gap = bool(any_gap or any(np.any(x.geom_gap != 0) for x in mjms))
    states = [sample_state(mjm, rng, infos, amps=(0.001, 0.003, 0.01)) for _ in range(nworld)]
  else:
    states = [sample_state(mjm, rng, infos) for _ in range(nworld)]
  d = mw.make_data(mjm, m, states, nconmax=400, njmax=1600)
  mw.zero_overflow(d)
  mjw.forward(m, d)
  if int(mw.overflow(d).max()) != 0:
    rec.inconcl("capacity overflow reported by mjw (nconmax / njmax too small for this case)")
    return rec.result()
  got = {k: mw.npy(getattr(d, k)) for k in PRE + ("qacc",)}
  eJ = mw.npy(d.flexedge_J)
  rn, ra, ci = mw.npy(m.flexedge_J_rownnz), mw.npy(m.flexedge_J_rowadr), mw.npy(m.flexedge_J_colind)
  con = {k: mw.npy(getattr(d.contact, k)) for k in ("geom", "flex", "elem", "vert", "dist", "pos", "frame", "includemargin", "dim", "worldid", "friction", "solref", "solimp")}
  nacon = min(int(mw.npy(d.nacon)[0]), d.naconmax)
  niter = mw.npy(d.solver_niter)
  displaced = False
  for w in range(nworld):
    mjm_w = mjms[w]  # same structure as mjm; differs only in per-world geom contact parameters (mixing family)
    try:
      ref, noise, mjd = cmp.reference(mjm_w, states[w], stage, extract, seed=seed + w)
    except mujoco.FatalError as e:
      rec.inconcl(f"reference engine failed: {e}"[:120])
      rec.count("worlds_reference_engine_error")
      continue
    # extra conditioning probes: float32 resolution of the *Cartesian* vertex positions (qpos of a flex vertex is a small
    # displacement, its ulp is far below the rounding of body_pos + qpos in float32)
    prng = np.random.default_rng(seed * 31 + w)
    amp = 1.2e-7 * max(1.0, float(np.abs(ref["flexvert_xpos"]).max()) if ref["flexvert_xpos"].size else 1.0)
    rownoise = {k: np.zeros(ref[k].shape) for k in ("_efc_aref", "_efc_lnD")}
    for _ in range(2):
      st2 = dict(states[w])
      st2["qpos"] = states[w]["qpos"].astype(np.float64) + prng.uniform(-1, 1, size=mjm.nq) * amp
      mjd2 = mujoco.MjData(mjm)
      mw.apply_state_mj(mjm, mjd2, st2)
      try:
        mujoco.mj_forward(mjm_w, mjd2)
      except mujoco.FatalError:
        continue
      alt = extract(mjm, mjd2)
      for k in ("_efc_aref", "_efc_lnD"):  # per-row conditioning (the scalar noise[k] is the maximum over all rows)
        if np.asarray(alt[k]).shape == ref[k].shape:
          rownoise[k] = np.maximum(rownoise[k], np.abs(np.asarray(alt[k]) - ref[k]))
      for k in ref:
        a_ = np.asarray(alt[k], dtype=np.float64)
        noise[k] = float("inf") if a_.shape != ref[k].shape else max(noise[k], float(np.abs(a_ - ref[k]).max()) if a_.size else 0.0)
    ctx = f"world {w}"
    # ---- pre-solver fields
    cok = rok = True
    skip = set()
    if jstruct:
      skip |= {"flexedge_velocity", "qfrc_damper", "qfrc_passive", "rows", "qacc"}
      if jointed_parent:
        skip |= {"qfrc_spring"}
    if bend_damp_doc:
      skip |= {"qfrc_damper", "qfrc_passive", "qacc"}
      rec.count("worlds_documented_unsupported_bending_damping")
    if interp_elastic or radial_elastic:
      skip |= {"qfrc_passive", "qacc"}  # sums / consequences of qfrc_spring + qfrc_damper, which are judged
    if edge_spring:
      skip |= {"qfrc_spring", "qfrc_passive", "qacc"}
    if edge_damp:
      skip |= {"qfrc_damper", "qfrc_passive", "qacc"}
    for k in PRE:
      r = ref[k]
      g = np.asarray(got[k][w]).reshape(-1)[: r.size].reshape(r.shape)
      if k in skip:
        rec.count("fields_skipped_downstream_of_known_deviation")
        continue
      if k == "flexedge_length":
        g, r = g[e_len], r[e_len]
      elif k == "flexedge_velocity":
        g, r = g[e_jac], r[e_jac]
      judge(rec, k, g, r, A, noise[k], suffix=(passive_suffix() if k in ("qfrc_spring", "qfrc_damper") else ""), ctx=ctx)
    gJ = dense_edge_J(mjm, eJ[w], rn, ra, ci)
    rec.cover("flex_edges_with_reference_jacobian", int(e_jac.sum()))
    judge(rec, "flexedge_J", gJ[e_jac], ref["flexedge_J"][e_jac], A, noise["flexedge_J"], suffix=(":jointed-parent-or-second-flex" if jstruct else ""), ctx=ctx)
    # the two silently ignored passive mechanisms: exactly one signature each, decided on the mechanism itself
    for flag_, name, fld in ((edge_spring, "flex_edgestiffness", "qfrc_spring"), (edge_damp, "flex_edgedamping", "qfrc_damper")):
      if flag_ and not jstruct:
        mjm2 = mujoco.MjModel.from_xml_string(xml)
        getattr(mjm2, name)[:] = 0
        mjd2 = mujoco.MjData(mjm2)
        mw.apply_state_mj(mjm2, mjd2, states[w])
        mujoco.mj_forward(mjm2, mjd2)
        contrib = getattr(mjd, fld) - getattr(mjd2, fld)  # what the mechanism adds in MuJoCo
        g = np.asarray(got[fld][w])[: mjm.nv]
        rec.check()
        sc = max(1e-9, float(np.abs(contrib).max()))
        if sc > 1e-6:
          if np.abs(g - getattr(mjd2, fld)).max() < 1e-3 * sc + 1e-5:
            rec.viol(f"passive:{name}-ignored", f"{ctx}: {fld} equals MuJoCo's value with {name}=0 (max contribution of the mechanism in MuJoCo {sc:.4g}); put_model accepted the model", got=g[:6], ref=getattr(mjd, fld)[:6])
          elif np.abs(g - getattr(mjd, fld)).max() > 30 * (A * max(1.0, float(np.abs(getattr(mjd, fld)).max())) + 50 * noise[fld]):
            rec.viol(f"passive:{fld}:with-{name}", f"{ctx}: {fld} matches neither MuJoCo with nor without {name}")
    if mjm.nflexvert and np.abs(ref["flexvert_xpos"] - ref["flexvert_xpos"].mean(axis=0)).max() > 0:
      displaced = True
    rec.cover("flex_vertices_compared", int(mjm.nflexvert))
    rec.cover("flex_edges_compared", int(mjm.nflexedge))
    if np.abs(ref["qfrc_spring"]).max() > 1e-6:
      rec.cover("worlds_with_nonzero_flex_spring_force", 1)
    if np.abs(ref["qfrc_damper"]).max() > 1e-6:
      rec.cover("worlds_with_nonzero_flex_damper_force", 1)

    # ---- contacts (multiset keyed by geom/flex/elem/vert ids)
    struct_stable = noise["_contact_keys"] == 0 and noise["_nefc"] == 0
    sel = np.nonzero(con["worldid"][:nacon] == w)[0]
    gkeys = {}
    for i in sel:
      gkeys.setdefault(contact_key(con["geom"][i], con["flex"][i], con["elem"][i], con["vert"][i]), []).append(int(i))
    rkeys = {}
    for i, c in enumerate(mjd.contact):
      rkeys.setdefault(contact_key(c.geom, c.flex, c.elem, c.vert), []).append(i)
    # contacts sitting on the activation boundary are not decidable in float32
    boundary = any(abs(c.dist - c.includemargin) < 1e-5 for c in mjd.contact)
    contacts_match = True
    if not struct_stable or boundary:
      rec.count("worlds_contact_structure_unstable")
      contacts_match = False
    else:
      rec.check()
      rec.cover("contacts_reference", len(mjd.contact))

      missing = [k for k in rkeys if len(gkeys.get(k, [])) < len(rkeys[k])]
      extra = [k for k in gkeys if len(rkeys.get(k, [])) < len(gkeys[k])]
      for key in rkeys:
        rec.cover(("contact_missing:" if key in missing else "contact_matched:") + combo(key), len(rkeys[key]))
      for key in extra:
        rec.cover("contact_extra:" + combo(key), len(gkeys[key]))
      if missing or extra:
        contacts_match = False
        seen = set()
        for what, lst in (("missing", missing), ("extra", extra)):
          for k0 in lst:
            sg = SETSIG[path(k0)]
            if sg in seen:
              continue
            seen.add(sg)
            cinfo = ""
            if what == "missing":
              c = mjd.contact[rkeys[k0][0]]
              cinfo = f" reference dist {c.dist:.5g} includemargin {c.includemargin:.4g} pos {np.round(c.pos, 4).tolist()}"
            rec.viol(sg, f"{ctx}: MuJoCo has {len(mjd.contact)} contacts, MJWarp {len(sel)}; {len(missing)} keys missing, {len(extra)} extra; {what} (geom,geom,flex,flex,elem,elem,vert,vert)={k0}{cinfo}", missing=missing[:6], extra=extra[:6])
      else:
        cok = True
        for key, ris in rkeys.items():
          gis = gkeys[key]
          for ri in ris:
            c = mjd.contact[ri]
            # nearest position among same-key contacts
            gi = min(gis, key=lambda i: np.abs(con["pos"][i] - c.pos).max())
            nz = max(noise["flexvert_xpos"], 1e-9)
            cok &= "ok" == judge(rec, "contact.dist", con["dist"][gi], c.dist, 1e-5, 10 * nz, suffix=":" + path(key), ctx=f"{ctx} key {key}")
            cok &= "ok" == judge(rec, "contact.pos", con["pos"][gi], c.pos, 1e-5, 10 * nz, suffix=":" + path(key), ctx=f"{ctx} key {key}")
            cok &= "ok" == judge(rec, "contact.normal", np.asarray(con["frame"][gi]).reshape(3, 3)[0], np.asarray(c.frame)[:3], 1e-4, 1e3 * nz, suffix=":" + path(key), ctx=f"{ctx} key {key}")
            cok &= "ok" == judge(rec, "contact.includemargin", con["includemargin"][gi], c.includemargin, 1e-6, 0, suffix=":" + path(key) + (":flex-gap" if any_gap else ""), ctx=f"{ctx} key {key}")
            cok &= "ok" == judge(rec, "contact.friction", con["friction"][gi], c.friction, 1e-6, 0, suffix=":" + path(key), ctx=f"{ctx} key {key}")
            cok &= "ok" == judge(rec, "contact.solref", con["solref"][gi], c.solref, 1e-6, 0, suffix=":" + path(key), ctx=f"{ctx} key {key}")
            cok &= "ok" == judge(rec, "contact.solimp", con["solimp"][gi], c.solimp, 1e-6, 0, suffix=":" + path(key), ctx=f"{ctx} key {key}")
            rec.check()
            if int(con["dim"][gi]) != int(c.dim):
              rec.viol("contact.dim:" + path(key), f"{ctx}: contact dim {int(con['dim'][gi])} vs {int(c.dim)} key {key}")

    # ---- contact parameters per colliding pair.  solref / solimp / friction of a contact are a function of the two
    # colliding objects alone (mj_contactParam: priority, solmix blend, direct-solref minimum, friction maximum), so they are
    # compared for every (geom, flex) / (flex, flex) pair that has contacts in both engines, whether or not the contact
    # sets agree; dim and includemargin per pair and primitive kind (vertex / element contact)
    pok = True
    rp, gp, rq, gq = {}, {}, {}, {}
    for src, pp, qq in ((rkeys, rp, rq), (gkeys, gp, gq)):
      for k_, idx in src.items():
        pp.setdefault(k_[:4], []).extend(idx)
        qq.setdefault(k_[:4] + tuple(x >= 0 for x in k_[4:]), []).extend(idx)
    for pk in sorted(set(rp) & set(gp)):
      pth = path(pk)
      pair_cover(rec, mjm_w, pk)
      for fld in ("solref", "solimp", "friction"):
        Rv = np.array([np.array(getattr(mjd.contact[i], fld)) for i in rp[pk]])
        if np.abs(Rv - Rv[0]).max() > 0:
          rec.count("pairs_reference_parameters_not_uniform")
          continue
        Gv = np.array([con[fld][i] for i in gp[pk]], dtype=np.float64)
        pok &= "ok" == judge(rec, "contact." + fld, Gv, np.broadcast_to(Rv[0], Gv.shape), 1e-6, 0, suffix=":" + pth, ctx=f"{ctx} pair (geom,geom,flex,flex)={pk}, {len(gp[pk])} MJWarp / {len(rp[pk])} MuJoCo contacts")
      rec.cover("contact_pairs_parameters_compared:" + pth, 1)
    for qk in sorted(set(rq) & set(gq)):
      pth = path(qk)
      Rd = sorted(set(int(mjd.contact[i].dim) for i in rq[qk]))
      Gd = sorted(set(int(con["dim"][i]) for i in gq[qk]))
      if len(Rd) == 1:
        rec.check()
        if Gd != Rd:
          pok = False
          rec.viol("contact.dim:" + pth, f"{ctx}: contact dim {Gd} vs MuJoCo {Rd} for pair / primitive kind {qk}")
      Rm = np.array([mjd.contact[i].includemargin for i in rq[qk]])
      if np.abs(Rm - Rm[0]).max() == 0:
        Gm = np.array([con["includemargin"][i] for i in gq[qk]], dtype=np.float64)
        pok &= "ok" == judge(rec, "contact.includemargin", Gm, np.broadcast_to(Rm[0], Gm.shape), 1e-6, 0, suffix=":" + pth + (":flex-gap" if any_gap else ""), ctx=f"{ctx} pair / primitive kind {qk}")
    if not pok:
      contacts_match = False
    if contacts_match and struct_stable and not boundary and len(mjd.contact) and not cok:
      contacts_match = False
    # ---- constraint rows (multiset per (type, id))
    rows_match = False
    if struct_stable and contacts_match and "rows" not in skip:
      R = mj_rows(mjm, mjd)
      G = mw.efc_rows(mjm, m, d, w)
      rec.check()
      rows_match = True
      if G["nefc"] != len(R["type"]):
        rows_match = False
        rec.viol("efc:nefc", f"{ctx}: nefc {G['nefc']} vs MuJoCo {len(R['type'])} (ne {G['ne']} vs {mjd.ne})")
      else:
        # contact ids differ between engines: contact rows are grouped by the contact key instead
        def rowkey(types, ids, i, which):
          t = int(types[i])
          if t in (int(mujoco.mjtConstraint.mjCNSTR_CONTACT_FRICTIONLESS), int(mujoco.mjtConstraint.mjCNSTR_CONTACT_PYRAMIDAL), int(mujoco.mjtConstraint.mjCNSTR_CONTACT_ELLIPTIC)):
            cid = int(ids[i])
            if which == "ref":
              c = mjd.contact[cid]
              return (t, contact_key(c.geom, c.flex, c.elem, c.vert))
            return (t, contact_key(con["geom"][cid], con["flex"][cid], con["elem"][cid], con["vert"][cid]))
          return (t, int(ids[i]))

        rg, gg = {}, {}
        for i in range(len(R["type"])):
          rg.setdefault(rowkey(R["type"], R["id"], i, "ref"), []).append(i)
        for i in range(G["nefc"]):
          gg.setdefault(rowkey(G["type"], G["id"], i, "got"), []).append(i)
        if set(rg) != set(gg) or any(len(rg[k]) != len(gg[k]) for k in rg):
          rows_match = False
          bad = [k for k in set(rg) | set(gg) if len(rg.get(k, [])) != len(gg.get(k, []))][:4]
          rec.viol("efc:row-groups", f"{ctx}: constraint row groups differ, e.g. (type,id)->(#mujoco,#mjwarp): " + ", ".join(f"{k}->({len(rg.get(k, []))},{len(gg.get(k, []))})" for k in bad))
        else:
          nzJ = max(noise["flexedge_J"], noise["flexvert_xpos"], 1e-9)

          def rowcls(key):
            if isinstance(key[1], tuple):
              return ":" + path(key[1])
            if key[0] == int(mujoco.mjtConstraint.mjCNSTR_EQUALITY):
              return ":flex-equality"
            return ":other"

          rok = True
          for key, ris in rg.items():
            gis = list(gg[key])
            is_eq = key[0] == int(mujoco.mjtConstraint.mjCNSTR_EQUALITY)
            rec.cover("rows:" + ("flex-equality" if is_eq else "contact" if isinstance(key[1], tuple) else "other"), len(ris))
            for ri in ris:
              # greedy nearest row inside the group (contact rows keep their order; equality rows may be permuted)
              gi = min(gis, key=lambda i: np.abs(G["J"][i] - R["J"][ri]).max() + abs(G["pos"][i] - R["pos"][ri]))
              gis.remove(gi)
              jscale = 100 if not is_eq else 10
              is_con = isinstance(key[1], tuple)
              # mechanism predicates of two deviations of the contact rows (one signature each, fields downstream are not judged):
              # an element of a dim=1 flex (capsule element) gets no Jacobian entries; solimp width <= mjMINVAL is a flat impedance in MuJoCo
              dim1el = is_con and any(key[1][2 + s_] >= 0 and key[1][4 + s_] >= 0 and int(mjm.flex_dim[key[1][2 + s_]]) == 1 for s_ in (0, 1))
              zerow = is_con and float(mjd.contact[int(R["id"][ri])].solimp[2]) <= MJ_MINVAL
              okJ = "ok" == judge(rec, "efc.J", G["J"][gi], R["J"][ri], 1e-4, jscale * nzJ, suffix=rowcls(key) + (":dim1-element" if dim1el else ""), ctx=f"{ctx} row {ri} key {key}")
              # friction rows of an elliptic contact carry pos = 0, margin = 0 in MuJoCo (MJWarp: pos = margin; the listed deviation
              # efc.pos:plane-flex); the normal / pyramidal rows carry pos = dist: their own signature, so that a wrong distance or
              # margin in the row that enters aref is not taken for the listed one
              frow = is_con and key[0] == int(mujoco.mjtConstraint.mjCNSTR_CONTACT_ELLIPTIC) and R["pos"][ri] == 0.0 and R["margin"][ri] == 0.0
              # pos of a contact row is the contact distance: same noise term as contact.dist above (vertex position spread)
              nzP = max(noise["flexvert_xpos"], 1e-9) if is_con else nzJ
              okP = "ok" == judge(rec, "efc.pos", G["pos"][gi], R["pos"][ri], 1e-5, 10 * nzP, suffix=rowcls(key) + ("" if (frow or not is_con) else (":flex-gap" if any_gap else "") + ":normal-row"), ctx=f"{ctx} row {ri} key {key}")
              rok &= okJ and okP
              if dim1el:
                rok = False
                rec.count("rows_skipped_downstream_of_dim1_element_jacobian")
                continue
              # contact rows: impedance from solimp at (pos - margin) can be steep (narrow width, dmax near 1): relative noise of D measured
              nzD = 0 if is_eq else float(rownoise["_efc_lnD"][ri])
              okD = "ok" == judge(rec, "efc.D", G["D"][gi] / max(1.0, abs(R["D"][ri])), R["D"][ri] / max(1.0, abs(R["D"][ri])), 1e-4, nzD, suffix=(":solimp-zero-width" if zerow else rowcls(key)), ctx=f"{ctx} row {ri} key {key}")
              rok &= okD
              if zerow and not okD:
                rec.count("rows_skipped_downstream_of_zero_width_impedance")
                continue
              # aref = -b * (J qvel) - k * imp * (pos - margin) is downstream of the row's J and pos: judged when those agree
              # (friction rows of an elliptic contact have pos = 0 in MuJoCo and no position term)
              if not (okJ and (okP or frow)):
                rec.count("rows_aref_skipped_downstream_of_J_or_pos")
                continue
              # the accepted (within-allowance) differences of J and pos propagate into aref with the row's own stiffness / damping
              # (MuJoCo's efc_KBIP): |d aref| <= B |dJ|.|qvel| + K (I + |pos - margin| dI/dpos) |d(pos - margin)|; added to the bound
              K_, B_, I_ = (float(x) for x in np.array(mjd.efc_KBIP).reshape(-1, 4)[ri][:3])
              simp = np.array(mjd.contact[int(R["id"][ri])].solimp) if is_con else (np.array(mjm.eq_solimp[int(R["id"][ri])]) if is_eq else None)
              slope = 0.0 if simp is None or simp[2] <= MJ_MINVAL else max(1.0, simp[4]) * abs(simp[1] - simp[0]) / simp[2]
              pm_r = float(R["pos"][ri] - R["margin"][ri])
              dpm = abs(float(G["pos"][gi] - G["margin"][gi]) - pm_r)
              explained = B_ * float(np.abs(G["J"][gi] - R["J"][ri]) @ np.abs(states[w]["qvel"].astype(np.float64))) + K_ * (I_ + abs(pm_r) * slope) * dpm
              rok &= "ok" == judge(rec, "efc.aref", G["aref"][gi], R["aref"][ri], 1e-4, float(rownoise["_efc_aref"][ri]) + explained / cmp.C_NOISE, suffix=rowcls(key), ctx=f"{ctx} row {ri} key {key}")
              if is_con:
                rec.cover("rows_contact_D_aref_compared:" + path(key[1]), 1)
    if rows_match and not rok:
      rows_match = False
    # ---- gated post-solver comparison
    gated = "qacc" not in skip and struct_stable and contacts_match and rows_match and int(niter[w]) < mjm.opt.iterations and mjd.solver_niter[0] < mjm.opt.iterations
    if gated:
      rec.count("worlds_gated")
      sc = max(1.0, float(np.abs(ref["qacc"]).max()))
      if flexstrain and sparse_newton:
        # the one post-solver deviation attributed to a mechanism (rows agree, result is not their optimum)
        judge(rec, "qacc", got["qacc"][w][: mjm.nv] / sc, ref["qacc"] / sc, 1e-3, noise["qacc"] / sc, suffix=":flexstrain:sparse-newton", ctx=ctx)
      else:
        # qacc is outside the property statement: agreement under the gate is tallied as evidence, never a verdict
        errq = float(np.abs(got["qacc"][w][: mjm.nv] / sc - ref["qacc"] / sc).max()) if np.all(np.isfinite(got["qacc"][w][: mjm.nv])) else float("inf")
        bq = 1e-3 + 50 * noise["qacc"] / sc
        rec.count("gated_qacc_agrees" if errq <= bq else ("gated_qacc_greyzone" if errq <= 30 * bq else "gated_qacc_differs"))
    else:
      rec.count("worlds_ungated")
  for f in feat:
    rec.cover("features", f)
  rec.cover("sparse" if m.is_sparse else "dense", 1)
  active = any(i["mech"] != "none" for i in infos) or mjm.nflex > 0
  if mjm.nflexvert >= 3 and displaced and active:
    rec.nontrivial(xml, *[s["qpos"] for s in states], *[s["qvel"] for s in states])
  if mix:
    rec.cover("mix:cases_run", 1)
  rec.sample = {"family": "mix" if mix else "general", "scene_seed": seed, "flexes": [{k: (v if not isinstance(v, np.ndarray) else v.tolist()) for k, v in i.items() if k not in ("extent", "half")} for i in infos], "nv": mjm.nv, "nflexvert": mjm.nflexvert, "nflexedge": mjm.nflexedge, "neq": mjm.neq, "ngeom": mjm.ngeom, "worlds": nworld, "features": feat}
  return rec.result()


def requirements(agg, tier):
  unmet = []
  feats = set(agg["cover"].get("features", []))
  need = ["dim1", "dim2", "dim3", "dof:full", "dof:trilinear", "dof:2d", "dof:radial", "mech:elasticity", "mech:edge-equality", "mech:strain-equality", "mech:edge-spring", "pin", "selfcollide:narrow", "integrator:RK4", "cone:elliptic", "jacobian:sparse", "collision:on", "collision:off"]
  for f in need:
    if f not in feats:
      unmet.append(f"feature never generated: {f}")
  cov = agg["cover"]
  ncont = sum(v for k, v in cov.items() if k.startswith(("contact_matched:", "contact_missing:")) and isinstance(v, int))
  if ncont < 100:
    unmet.append("fewer than 100 reference flex contacts compared")
  if cov.get("rows:flex-equality", 0) < 50:
    unmet.append("fewer than 50 flex equality rows compared")
  if cov.get("flex_edges_with_reference_jacobian", 0) < 500:
    unmet.append("fewer than 500 flex edges with a reference Jacobian compared")
  if cov.get("worlds_with_nonzero_flex_spring_force", 0) < 20:
    unmet.append("fewer than 20 worlds with non-zero flex spring forces")
  if agg["distinct"] < 30:
    unmet.append("fewer than 30 distinct non-trivial cases")
  if cov.get("rows:flex-equality", 0) + cov.get("rows:contact", 0) < 100:
    unmet.append("fewer than 100 constraint rows compared")
  # contact-parameter mixing family: every branch of the mixing rule must have been compared on pairs with contacts in both engines
  for name, least in (
    ("mix:pairs_blend_with_unequal_solmix", 20),
    ("mix:pairs_priority_decides", 10),
    ("mix:pairs_solmix_one_side_below_minval", 3),
    ("mix:pairs_solref_direct_one_side", 5),
    ("mix:pairs_unequal_friction", 20),
    ("mix:pairs_unequal_condim", 10),
    ("mix:pairs_margin_on_both_sides", 5),
  ):
    if cov.get(name, 0) < least:
      unmet.append(f"contact-parameter mixing: {name} = {cov.get(name, 0)} < {least} (world, pair) comparisons")
  npair = {p: cov.get("contact_pairs_parameters_compared:" + p, 0) for p in ("plane-flex", "geom-flex", "flex-flex")}
  for p, v in npair.items():
    if v < 5:
      unmet.append(f"contact-parameter mixing: fewer than 5 {p} pairs with contacts in both engines")
  if cov.get("rows:contact", 0) < 100:
    unmet.append("fewer than 100 flex contact rows (efc D / aref) compared")
  # flex over rigid bodies: edges whose two ends sit on different kinematic trees, second body with a moving rotational dof
  if cov.get("rigid:edges_across_trees_second_body_spinning", 0) < 50:
    unmet.append(f"flex over rigid bodies: rigid:edges_across_trees_second_body_spinning = {cov.get('rigid:edges_across_trees_second_body_spinning', 0)} < 50 (world, edge) comparisons")
  if cov.get("rigid:edges_velocity_vs_J_qvel", 0) < 30:
    unmet.append("flex over rigid bodies: fewer than 30 edges with flexedge_velocity compared to flexedge_J @ qvel")
  if not any(k.startswith("mix:batched_field_rows:") for k in cov):
    unmet.append("no case with per-world (batched) geom contact parameters ran")
  return unmet
