"""C01 Kinematics agree with MuJoCo C.

Differential monitor: MJWarp kinematics/com_pos/camlight/tendon on generated models x several worlds with
different qpos/mocap, versus mj_kinematics+mj_comPos+mj_camlight+mj_tendon on the same float32 state.
"""

import mujoco
import numpy as np

from mon import cmp, core, gen, mw

ID = "C01"
LEVEL = "exploration"
RULE = (
  "case=(profile,seed): generated kinematic tree (free/ball/hinge/slide, several joints per body, welded, mocap, massless "
  "bodies, cameras/lights in all 5 modes, fixed+spatial tendons with wraps/pulleys) or a repository test model, 3 worlds with "
  "different random qpos (unnormalised quaternions) and mocap poses. Non-trivial: nv>=3 and >=1 non-identity body rotation; "
  "distinct by hash(model xml, qpos of all worlds)."
)
ASSUMPTIONS = [
  "MuJoCo 3.13 C (float64) is the reference; inputs are float32-representable so both engines see identical numbers",
  "per-field float32 allowances in ALLOW; reference noise floor measured per case by +-2ulp input perturbation",
]
BUDGET = {"quick": 150, "thorough": 1500}

ALLOW = dict(default=5e-6)

PROFILE = gen.profile(
  nbody=(3, 10),
  p_camlight=0.5,
  tendon_fixed=0.5,
  tendon_spatial=0.6,
  p_massless=0.3,
  p_mesh=0.1,
  p_limit=0.2,
  p_mocap=0.25,
  p_weld=0.2,
)

REPO_MODELS = [
  "humanoid/humanoid.xml",
  "pendula.xml",
  "constraints.xml",
  "collision.xml",
  "primitives.xml",
  "tendon/wrap.xml",
  "tendon/fixed.xml",
  "tendon/site.xml",
  "tendon/pulley_wrap.xml",
  "actuation/site.xml",
  "actuation/slidercrank.xml",
]


def cases(tier, seed):
  n = 160 if tier == "quick" else 3000
  out = []
  for i in range(n):
    out.append({"id": f"gen{seed}_{i}", "kind": "gen", "seed": seed * 100000 + i, "entry": ("split", "fwd")[i % 2]})
  for k, p in enumerate(REPO_MODELS):
    for r in range(1 if tier == "quick" else 6):
      out.append({"id": f"repo{seed}_{k}_{r}", "kind": "repo", "path": p, "seed": seed * 100000 + 777 + r, "entry": "fwd"})
  return out


def stage(mjm, mjd):
  mujoco.mj_kinematics(mjm, mjd)
  mujoco.mj_comPos(mjm, mjd)
  mujoco.mj_camlight(mjm, mjd)
  mujoco.mj_flex(mjm, mjd)
  mujoco.mj_tendon(mjm, mjd)


NAMES = (
  "xpos xquat xmat xipos ximat xanchor xaxis geom_xpos geom_xmat site_xpos site_xmat cam_xpos cam_xmat light_xpos light_xdir "
  "subtree_com cdof cinert ten_length"
).split()


def extract(mjm, mjd):
  out = {k: getattr(mjd, k) for k in NAMES}
  return out


def run_case(case):
  import os

  import mujoco_warp as mjw

  rec = core.Rec(case)
  rng = np.random.default_rng(case["seed"])
  if case["kind"] == "gen":
    xml, mjm, feat, s = gen.make_model(case["seed"], PROFILE)
    if mjm is None:
      rec.rejected = "mujoco compile"
      return rec.result()
  else:
    path = os.path.join(core.TEST_DATA, case["path"])
    if not os.path.exists(path):
      rec.rejected = "missing file"
      return rec.result()
    mjm = mujoco.MjModel.from_xml_path(path)
    xml, feat = case["path"], ["repo:" + case["path"]]
  try:
    m = mw.put_model(mjm)
  except (NotImplementedError, ValueError) as e:
    rec.rejected = f"put_model: {e}"[:200]
    rec.count("rejected_put_model")
    return rec.result()
  nworld = 3
  states = [gen.sample_state(mjm, rng) for _ in range(nworld)]
  d = mw.make_data(mjm, m, states)
  if case["entry"] == "split":
    mjw.kinematics(m, d)
    mjw.com_pos(m, d)
    mjw.camlight(m, d)
    mjw.flex(m, d)
    mjw.tendon(m, d)
  else:
    mjw.fwd_kinematics(m, d)
  got = {k: mw.npy(getattr(d, k)) for k in NAMES}
  wrap_obj = mw.npy(d.wrap_obj)
  wrap_xpos = mw.npy(d.wrap_xpos)
  ten_wrapnum = mw.npy(d.ten_wrapnum)
  ten_wrapadr = mw.npy(d.ten_wrapadr)
  rot = False
  for w in range(nworld):
    ref, noise, mjd = cmp.reference(mjm, states[w], stage, extract, seed=case["seed"] + w)
    for k in NAMES:
      g = got[k][w]
      r = ref[k]
      if k == "cdof":
        pass
      cmp.judge(rec, k, np.asarray(g).reshape(r.shape), r, ALLOW["default"], noise[k], quat=(k == "xquat"), ctx=f"world {w}")
    # tendon wrap structure (discrete): only when stable under the probe
    if mjm.ntendon:
      if noise["ten_length"] < 1e-4:
        rec.check()
        if not np.array_equal(ten_wrapnum[w], mjd.ten_wrapnum):
          rec.viol("ten_wrapnum", f"ten_wrapnum {ten_wrapnum[w]} vs {mjd.ten_wrapnum} world {w}")
        else:
          # compare wrap points tendon by tendon
          for t in range(mjm.ntendon):
            n = int(mjd.ten_wrapnum[t])
            a0, a1 = int(ten_wrapadr[w][t]), int(mjd.ten_wrapadr[t])
            gx = np.asarray(wrap_xpos[w]).reshape(-1)[3 * a0 : 3 * (a0 + n)]
            rx = np.asarray(mjd.wrap_xpos).reshape(-1)[3 * a1 : 3 * (a1 + n)]
            cmp.judge(rec, "wrap_xpos", gx, rx, 1e-4, noise["ten_length"], ctx=f"world {w} tendon {t}")
            go = np.asarray(wrap_obj[w]).reshape(-1)[a0 : a0 + n]
            ro = np.asarray(mjd.wrap_obj).reshape(-1)[a1 : a1 + n]
            rec.check()
            if not np.array_equal(go, ro):
              rec.viol("wrap_obj", f"wrap_obj {go} vs {ro} world {w} tendon {t}")
    xq = ref["xquat"]
    if np.any(np.abs(np.abs(xq[1:, 0]) - 1) > 1e-3):
      rot = True
  for f in feat:
    rec.cover("features", f)
  rec.cover("worlds_compared", nworld)
  rec.cover("entry:" + case["entry"], 1)
  if mjm.nv >= 3 and rot:
    rec.nontrivial(xml, *[s["qpos"] for s in states])
  rec.sample = {"model": case.get("path", f"generated seed {case['seed']}"), "nbody": mjm.nbody, "nv": mjm.nv, "ntendon": mjm.ntendon, "ncam": mjm.ncam, "nlight": mjm.nlight, "nmocap": mjm.nmocap, "qpos_world0": states[0]["qpos"][:8]}
  return rec.result()


def requirements(agg, tier):
  unmet = []
  feats = set(agg["cover"].get("features", []))
  need = ["joint:free", "joint:ball", "joint:hinge", "joint:slide", "mocap", "tendon:fixed", "tendon:spatial", "camlight:trackcom", "camlight:targetbodycom"]
  for f in need:
    if f not in feats:
      unmet.append(f"feature never generated: {f}")
  if agg["distinct"] < 30:
    unmet.append("fewer than 30 distinct non-trivial cases")
  return unmet
