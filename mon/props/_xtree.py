"""Hand-written MJCF family for C22: spatial tendons whose path objects live in DIFFERENT kinematic trees.

Several independent kinematic trees (root joint free / ball / hinge / hinge+slide / slide, optional child and grandchild
bodies, random body frames, off-centre masses so that every tree's subtree_com is far from its bodies' origins) carry
wrapping spheres / cylinders (with an outside sidesite, an inside sidesite, or none).  Tendon paths run
site -> [geom] -> site -> [geom | pulley] -> site ... where every site is created on a randomly chosen body of ANY tree or of
the world, placed in world coordinates so that at qpos0 the straight segment passes through the wrapping geom (the tendon
actually wraps in states near qpos0).  Tendons carry limits (range placed around the length at qpos0 so the limit row is
active), friction loss, springs, tendon equalities and tendon-transmission actuators, so that everything copied from ten_J
(actuator_moment, efc.J rows) is observed too.  No contacts (contype=conaffinity=0).
"""

import mujoco
import numpy as np

ROT = ("free", "ball", "hinge")


def _f(x):
  if np.ndim(x) == 0:
    return f"{float(x):.5g}"
  return " ".join(f"{float(v):.5g}" for v in np.asarray(x).ravel())


def _unit(rng):
  v = rng.normal(size=3)
  return v / np.linalg.norm(v)


def _perp(rng, a):
  v = _unit(rng)
  v = v - a * (v @ a)
  n = np.linalg.norm(v)
  return v / n if n > 1e-3 else _perp(rng, a)


def _quat2mat(q):
  R = np.zeros(9)
  mujoco.mju_quat2Mat(R, np.asarray(q, dtype=np.float64))
  return R.reshape(3, 3)


class _Body:
  def __init__(self, name, tree, wpos, wR, lpos, quat, joints, parent):
    self.name, self.tree, self.wpos, self.wR, self.lpos, self.quat, self.joints, self.parent = name, tree, wpos, wR, lpos, quat, joints, parent
    self.children, self.items = [], []

  def local(self, p):
    return self.wR.T @ (np.asarray(p) - self.wpos)


def _joint_xml(rng, name, kind):
  if kind == "free":
    return [f'<freejoint name="{name}"/>']
  if kind == "ball":
    return [f'<joint name="{name}" type="ball" pos="{_f(rng.uniform(-0.1, 0.1, 3))}"/>']
  if kind in ("hinge", "slide"):
    return [f'<joint name="{name}" type="{kind}" axis="{_f(_unit(rng))}" pos="{_f(rng.uniform(-0.1, 0.1, 3))}"/>']
  if kind == "hinge_slide":
    return _joint_xml(rng, name + "a", "slide") + _joint_xml(rng, name + "b", "hinge")
  if kind == "hinge2":
    return _joint_xml(rng, name + "a", "hinge") + _joint_xml(rng, name + "b", "hinge")
  raise ValueError(kind)


def _generate(seed):
  rng = np.random.default_rng(seed)
  feat = set()
  world = _Body("world", -1, np.zeros(3), np.eye(3), None, None, [], None)
  bodies = [world]
  ntree = int(rng.integers(2, 5))
  nb = 0

  def new_body(tree, parent, wpos, kinds):
    nonlocal nb
    quat = None
    wR = parent.wR
    if rng.random() < 0.5:
      quat = rng.normal(size=4)
      quat /= np.linalg.norm(quat)
      wR = parent.wR @ _quat2mat(quat)
    b = _Body(f"b{nb}", tree, wpos, wR, parent.local(wpos), quat, [], parent)
    for k, kind in enumerate(kinds):
      b.joints += _joint_xml(rng, f"j{nb}_{k}", kind)
      feat.add("xtree:joint:" + kind)
    nb += 1
    parent.children.append(b)
    bodies.append(b)
    # off-centre mass: the tree's subtree_com is not at any body origin
    b.items.append(f'<geom type="box" size="0.05 0.04 0.03" pos="{_f(rng.uniform(-0.4, 0.4, 3))}" mass="{_f(rng.uniform(0.5, 3))}" contype="0" conaffinity="0"/>')
    return b

  for t in range(ntree):
    base = np.array([1.1 * t, 0.0, 0.0]) + rng.uniform(-0.35, 0.35, 3)
    rk = str(rng.choice(["free", "ball", "hinge", "hinge_slide", "slide", "hinge2"], p=[0.3, 0.2, 0.2, 0.1, 0.1, 0.1]))
    root = new_body(t, world, base, [rk])
    if rng.random() < 0.6:
      off = _unit(rng) * rng.uniform(0.15, 0.45)
      ck = str(rng.choice(["hinge", "ball", "slide", "hinge2"], p=[0.45, 0.25, 0.15, 0.15]))
      child = new_body(t, root, base + off, [ck])
      if rng.random() < 0.3:
        new_body(t, child, base + off + _unit(rng) * rng.uniform(0.15, 0.35), ["hinge"])
  tree_bodies = bodies[1:]

  # wrapping geoms
  geoms = []  # dict(name, type, body, c, radius, axis)
  ng = 0

  def new_geom(b):
    nonlocal ng
    typ = "sphere" if rng.random() < 0.5 else "cylinder"
    radius = float(rng.uniform(0.07, 0.18))
    c = b.wpos + rng.uniform(-0.25, 0.25, 3)
    name = f"wg{ng}"
    ng += 1
    if typ == "sphere":
      b.items.append(f'<geom name="{name}" type="sphere" size="{_f(radius)}" pos="{_f(b.local(c))}" mass="{_f(rng.uniform(0.1, 1))}" contype="0" conaffinity="0"/>')
      axis = None
    else:
      q = rng.normal(size=4)
      q /= np.linalg.norm(q)
      axis = b.wR @ _quat2mat(q)[:, 2]
      b.items.append(f'<geom name="{name}" type="cylinder" size="{_f(radius)} 0.4" pos="{_f(b.local(c))}" quat="{_f(q)}" mass="{_f(rng.uniform(0.1, 1))}" contype="0" conaffinity="0"/>')
    geoms.append(dict(name=name, type=typ, body=b, c=c, radius=radius, axis=axis))

  for t in range(ntree):
    if rng.random() < 0.8:
      new_geom(tree_bodies[int(rng.choice([i for i, b in enumerate(tree_bodies) if b.tree == t]))])
  if not geoms:
    new_geom(tree_bodies[int(rng.integers(len(tree_bodies)))])
  if rng.random() < 0.25:
    new_geom(world)

  ns = 0

  def new_site(b, p):
    nonlocal ns
    name = f"s{ns}"
    ns += 1
    b.items.append(f'<site name="{name}" pos="{_f(b.local(p))}" size="0.01"/>')
    return name

  def pick_body(exclude_tree=None):
    if rng.random() < 0.2:
      return world
    cand = [b for b in tree_bodies if b.tree != exclude_tree] or tree_bodies
    return cand[int(rng.integers(len(cand)))]

  tend = []
  ntend = int(rng.integers(1, 4))
  for ti in range(ntend):
    b0 = pick_body()
    p = b0.wpos + rng.uniform(-0.3, 0.3, 3)
    path = [f'<site site="{new_site(b0, p)}"/>']
    if rng.random() < 0.3:
      # a leading pulley scales the first branch too
      path.insert(0, f'<pulley divisor="{_f(rng.choice([2, 3]))}"/>')
      feat.add("xtree:pulley")
    nseg = int(rng.integers(1, 4))
    s = 0
    after_pulley = False
    while s < nseg:
      r = rng.random()
      g = None
      if r < 0.7:
        cand = [g_ for g_ in geoms if np.linalg.norm(g_["c"] - p) > 2.5 * g_["radius"] + 0.05]
        if cand:
          g = cand[int(rng.integers(len(cand)))]
      if g is not None:
        u = g["c"] - p
        u /= np.linalg.norm(u)
        if g["axis"] is not None and abs(u @ g["axis"]) > 0.9:
          g = None
      if g is not None:
        c, rad = g["c"], g["radius"]
        j = _perp(rng, u) * rad * rng.uniform(0.0, 1.6)
        q = c + u * rng.uniform(0.35, 0.9) + j
        side = ""
        rs = rng.random()
        if rs < 0.55:
          dd = _perp(rng, g["axis"]) if g["axis"] is not None else _unit(rng)
          inside = rs < 0.07
          sp = c + dd * rad * (rng.uniform(0.2, 0.5) if inside else rng.uniform(1.4, 2.5))
          sb = g["body"] if rng.random() < 0.85 else pick_body()
          side = f' sidesite="{new_site(sb, sp)}"'
          feat.add("xtree:sidesite:" + ("inside" if inside else "outside"))
        # the following site: most often on another tree than the geom's
        b1 = pick_body(exclude_tree=g["body"].tree if rng.random() < 0.7 else None)
        path.append(f'<geom geom="{g["name"]}"{side}/>')
        path.append(f'<site site="{new_site(b1, q)}"/>')
        feat.add("xtree:wrap:" + g["type"])
        p = q
        after_pulley = False
      elif r > 0.82 and s > 0 and not after_pulley:
        path.append(f'<pulley divisor="{_f(rng.choice([1, 2, 3]))}"/>')
        b1 = pick_body()
        p = b1.wpos + rng.uniform(-0.3, 0.3, 3)
        path.append(f'<site site="{new_site(b1, p)}"/>')
        feat.add("xtree:pulley")
        after_pulley = True
        nseg = max(nseg, s + 2)
      else:
        b1 = pick_body()
        p = p + _unit(rng) * rng.uniform(0.3, 0.8)
        path.append(f'<site site="{new_site(b1, p)}"/>')
        after_pulley = False
      s += 1
    attrs = {"name": f"xt{ti}", "width": "0.005"}
    r = rng.random()
    lim = "none" if r < 0.35 else ("lower" if r < 0.7 else "upper")
    if lim != "none":
      attrs["limited"] = "true"
      attrs["range"] = "@R%d@" % ti
    if rng.random() < 0.4:
      attrs["frictionloss"] = _f(rng.uniform(0.05, 1))
    if rng.random() < 0.4:
      attrs["stiffness"] = _f(rng.uniform(1, 50))
    if rng.random() < 0.4:
      attrs["damping"] = _f(rng.uniform(0.1, 3))
    tend.append((attrs, path, lim))

  eq = []
  if ntend >= 2 and rng.random() < 0.4:
    a, b = rng.choice(ntend, size=2, replace=False)
    eq.append(f'<tendon tendon1="xt{a}" tendon2="xt{b}" polycoef="@E@ {_f(rng.uniform(0.5, 1.5))} 0 0 0"/>')
    feat.add("xtree:equality:tendon2")
  elif rng.random() < 0.25:
    eq.append(f'<tendon tendon1="xt{int(rng.integers(ntend))}" polycoef="{_f(rng.uniform(-0.1, 0.1))} 1 0 0 0"/>')
    feat.add("xtree:equality:tendon1")
  act = []
  for ti in range(ntend):
    if rng.random() < 0.6:
      kind = "motor" if rng.random() < 0.6 else "position"
      extra = f' kp="{_f(rng.uniform(5, 50))}"' if kind == "position" else ""
      act.append(f'<{kind} name="a{ti}" tendon="xt{ti}" gear="{_f(rng.choice([-1, 1]) * rng.uniform(0.5, 3))}"{extra}/>')
      feat.add("xtree:actuator:tendon")

  def emit(b, ind):
    out = []
    pad = " " * ind
    if b is world:
      for it in b.items:
        out.append(pad + it)
      for ch in b.children:
        out += emit(ch, ind)
      return out
    q = f' quat="{_f(b.quat)}"' if b.quat is not None else ""
    out.append(f'{pad}<body name="{b.name}" pos="{_f(b.lpos)}"{q}>')
    for it in b.joints + b.items:
      out.append(pad + "  " + it)
    for ch in b.children:
      out += emit(ch, ind + 2)
    out.append(pad + "</body>")
    return out

  jac = str(rng.choice(["dense", "sparse"]))
  cone = str(rng.choice(["pyramidal", "elliptic"]))
  lines = ["<mujoco>", f'  <option jacobian="{jac}" cone="{cone}"/>', "  <worldbody>"] + emit(world, 4) + ["  </worldbody>", "  <tendon>"]
  for attrs, path, _ in tend:
    lines.append("    <spatial " + " ".join(f'{k}="{v}"' for k, v in attrs.items()) + ">")
    lines += ["      " + x for x in path]
    lines.append("    </spatial>")
  lines.append("  </tendon>")
  if eq:
    lines += ["  <equality>"] + ["    " + x for x in eq] + ["  </equality>"]
  if act:
    lines += ["  <actuator>"] + ["    " + x for x in act] + ["  </actuator>"]
  lines.append("</mujoco>")
  feat.add("xtree:jacobian:" + jac)
  return "\n".join(lines), [t[2] for t in tend], feat, rng


def _fill(xml, lims, L0, rng):
  for ti, lim in enumerate(lims):
    if lim == "lower":  # length below the lower limit
      lo = L0[ti] + rng.uniform(0.02, 0.2)
      xml = xml.replace("@R%d@" % ti, f"{_f(lo)} {_f(lo + rng.uniform(0.5, 2))}")
    elif lim == "upper":
      hi = max(0.01, L0[ti] - rng.uniform(0.02, 0.2))
      xml = xml.replace("@R%d@" % ti, f"0 {_f(hi)}")
  return xml.replace("@E@", _f(rng.uniform(-0.1, 0.1)))


def make_model(seed, tries=8):
  """-> (xml, mjm, feats) ; (None, None, feats) if MuJoCo refuses every attempt."""
  for k in range(tries):
    xml, lims, feat, rng = _generate(seed + 7919 * k)
    try:
      probe = xml
      for ti in range(len(lims)):
        probe = probe.replace("@R%d@" % ti, "0 100")
      probe = probe.replace("@E@", "0")
      mjm = mujoco.MjModel.from_xml_string(probe)
      mjd = mujoco.MjData(mjm)
      mujoco.mj_forward(mjm, mjd)
      xml = _fill(xml, lims, np.array(mjd.ten_length), rng)
      mjm = mujoco.MjModel.from_xml_string(xml)
    except (ValueError, mujoco.FatalError):
      continue
    return xml, mjm, sorted(feat)
  return None, None, []


def near_qpos(mjm, rng, spread):
  """qpos0 displaced by a random tangent vector of the given spread (the tendons keep wrapping for small spreads)."""
  q = np.array(mjm.qpos0, dtype=np.float64)
  mujoco.mj_integratePos(mjm, q, rng.normal(size=mjm.nv) * spread, 1.0)
  return q.astype(np.float32)


def has_rot_ancestor(mjm, b):
  while b > 0:
    for j in range(mjm.body_jntadr[b], mjm.body_jntadr[b] + mjm.body_jntnum[b]):
      if int(mjm.jnt_type[j]) != int(mujoco.mjtJoint.mjJNT_SLIDE):
        return True
    b = int(mjm.body_parentid[b])
  return False


def classify(mjm, mjd):
  """Which wrapping geoms are actually wrapped in this state, and where their neighbours live.

  -> list of dict(tendon, type, sidesite, wrapped, next_other_tree, prev_other_tree, rot, pulley_scaled)
  """
  out = []
  wobj = np.asarray(mjd.wrap_obj).ravel()
  for t in range(mjm.ntendon):
    a, n = int(mjm.tendon_adr[t]), int(mjm.tendon_num[t])
    if n == 0 or int(mjm.wrap_type[a]) == int(mujoco.mjtWrap.mjWRAP_JOINT):
      continue
    j = int(mjd.ten_wrapadr[t])
    jend = j + int(mjd.ten_wrapnum[t])
    divisor = 1.0
    for i in range(a, a + n):
      wt = int(mjm.wrap_type[i])
      if wt == int(mujoco.mjtWrap.mjWRAP_PULLEY):
        divisor = float(mjm.wrap_prm[i])
        j += 1
      elif wt == int(mujoco.mjtWrap.mjWRAP_SITE):
        j += 1
      elif wt in (int(mujoco.mjtWrap.mjWRAP_SPHERE), int(mujoco.mjtWrap.mjWRAP_CYLINDER)):
        g = int(mjm.wrap_objid[i])
        wrapped = j + 1 < jend and int(wobj[j]) == g and int(wobj[j + 1]) == g
        if wrapped:
          j += 2
        gb = int(mjm.geom_bodyid[g])
        b0 = int(mjm.site_bodyid[mjm.wrap_objid[i - 1]])
        b1 = int(mjm.site_bodyid[mjm.wrap_objid[i + 1]])
        side = int(round(float(mjm.wrap_prm[i])))
        inside = side >= 0 and float(np.linalg.norm(mjd.site_xpos[side] - mjd.geom_xpos[g])) < float(mjm.geom_size[g, 0])
        out.append(
          dict(
            tendon=t,
            inside=bool(inside),
            type="sphere" if wt == int(mujoco.mjtWrap.mjWRAP_SPHERE) else "cylinder",
            sidesite=side >= 0,
            wrapped=bool(wrapped),
            next_other_tree=int(mjm.body_rootid[gb]) != int(mjm.body_rootid[b1]),
            prev_other_tree=int(mjm.body_rootid[gb]) != int(mjm.body_rootid[b0]),
            rot=has_rot_ancestor(mjm, gb),
            geom_on_world=gb == 0,
            pulley_scaled=divisor != 1.0,
          )
        )
  return out
