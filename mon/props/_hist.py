"""Multi-world HISTORIES for the constraint monitors: scenes whose worlds can have zero constraint rows, and per-world
events that make a world's row count change between calls (rows -> none -> rows) while other worlds keep theirs.

A scene is a few free bodies over a plane (contacts of condim 1/3/4/6, optional margins), a short non-colliding arm
with limited hinge/slide joints, optional equalities (connect / joint coupling / weld, toggled per world through
eq_active) and an optional limited fixed tendon. There is no dry friction, so a world whose bodies are lifted, whose
joints are inside their ranges and whose equalities are inactive has nefc == 0.

  scene(rng, cone, solver, jac)        -> (xml, info)
  state(mjm, info, rng, kind)          -> per-world state dict (kinds: rest, free, eqonly, bounce)
  classify(mjm, st)                    -> (nefc, ncon, ok) of MuJoCo on that state
  write_worlds(d, which, states)       -> per-world rewrite of qpos/qvel/eq_active through the public arrays
  toggle_eq(d, which, values)          -> eq_active of single worlds only
  reset_worlds(m, d, which)            -> mjw.reset_data with a per-world mask
  reset_key_worlds(m, d, which)        -> mjw.reset_data_keyframe with a per-world key array (keyframe 0 of a scene is the
                                          opposite placement of qpos0: bodies on the floor if qpos0 has them lifted, and
                                          vice versa)
"""

import mujoco
import numpy as np

from mon import mw

KINDS = ("sphere", "capsule", "box", "ellipsoid", "cylinder")


def _f(x):
  return " ".join(f"{float(v):.6g}" for v in np.atleast_1d(x))


def scene(rng, cone, solver, jac, condims=(1, 3, 4, 6)):
  """Returns (xml, info). info: nb, half (half heights), lifted0 (bool: qpos0 has the bodies in the air), njnt_arm,
  eq (list of kinds in model order), weld (index of the weld equality or -1)."""
  # nv in {6, 8, 12, 14}: kernels specialise on nv, so the family keeps the set small
  nb = int(rng.integers(1, 3))
  narm = int(rng.choice([0, 2, 2]))
  lifted0 = bool(rng.random() < 0.5)
  ts = rng.choice([0.002, 0.004, 0.005])
  imp = f' impratio="{_f(rng.choice([0.5, 1, 3, 10]))}"' if cone == "elliptic" and rng.random() < 0.6 else ""
  flag = '<flag warmstart="disable"/>' if rng.random() < 0.25 else ""
  out = ["<mujoco>", f'  <option timestep="{ts}" cone="{cone}" solver="{solver}" jacobian="{jac}"{imp}>{flag}</option>', '  <compiler angle="radian"/>', "  <worldbody>"]
  out.append(f'    <geom name="floor" type="plane" size="0 0 1" condim="{condims[rng.integers(len(condims))]}" friction="{_f([rng.uniform(0.3, 1.2), 0.01, 0.002])}"/>')
  half, rest_xy, key_qpos = [], [], []
  for i in range(nb):
    k = KINDS[rng.integers(len(KINDS))]
    r = rng.uniform(0.06, 0.12)
    if k == "sphere":
      size, h = _f(r), r
    elif k == "capsule":
      size, h = _f([r * 0.7, r]), r * 0.7 + r  # upright capsule: radius + half length
    elif k == "cylinder":
      size, h = _f([r, r * 0.8]), r * 0.8
    else:
      size, h = _f([r, r * rng.uniform(0.6, 1.2), r * 0.8]), r * 0.8
    half.append(h)
    xy = np.array([i * rng.uniform(0.12, 0.3), rng.normal() * 0.03])
    rest_xy.append(xy)
    z = (1.0 + 0.5 * i) if lifted0 else h * rng.uniform(0.97, 1.0)
    # keyframe 0 is the opposite placement of qpos0: on the floor if qpos0 is lifted, lifted and apart if qpos0 rests
    key_qpos += [xy[0], xy[1], h * 0.985, 1, 0, 0, 0] if lifted0 else [i * 0.6, 0.0, 1.0 + 0.5 * i, 1, 0, 0, 0]
    cd = condims[rng.integers(len(condims))]
    fr = _f([rng.uniform(0.2, 1.5), rng.uniform(0.002, 0.02), rng.uniform(0.0005, 0.01)])
    mg = f' margin="{_f(rng.uniform(0.001, 0.02))}"' if rng.random() < 0.3 else ""
    sol = f' solref="{_f([rng.uniform(0.005, 0.04), rng.uniform(0.7, 1.3)])}"' if rng.random() < 0.4 else ""
    out.append(f'    <body name="b{i}" pos="{_f([xy[0], xy[1], z])}"><freejoint/>')
    out.append(f'      <geom type="{k}" size="{size}" condim="{cd}" friction="{fr}" density="{_f(rng.uniform(300, 3000))}"{mg}{sol}/>')
    out.append("    </body>")
  ind = "    "
  for k in range(narm):
    jt = "slide" if rng.random() < 0.3 else "hinge"
    lo, hi = -rng.uniform(0.04, 0.3), rng.uniform(0.04, 0.3)
    axis = "0 0 1" if jt == "slide" else ("0 1 0", "1 0 0")[int(rng.integers(2))]
    pos = "1.5 0 1.5" if k == 0 else "0.3 0 0"
    out.append(f'{ind}<body name="a{k}" pos="{pos}">')
    out.append(f'{ind}  <joint name="a{k}" type="{jt}" axis="{axis}" limited="true" range="{_f([lo, hi])}" damping="{_f(rng.uniform(0.0, 0.3))}" armature="{_f(rng.uniform(0.001, 0.02))}"/>')
    out.append(f'{ind}  <geom type="capsule" fromto="0 0 0 0.3 0 0" size="0.03" mass="{_f(rng.uniform(0.3, 2))}" contype="0" conaffinity="0"/>')
    ind += "  "
  for k in range(narm):
    ind = ind[:-2]
    out.append(f"{ind}</body>")
  out.append("  </worldbody>")
  eq = []
  eqx = []
  sol = f' solref="{_f([rng.uniform(0.005, 0.04), rng.uniform(0.7, 1.3)])}"' if rng.random() < 0.5 else ""
  if narm and rng.random() < 0.6:
    eqx.append(f'    <connect body1="a{narm - 1}" anchor="0.3 0 0" active="{"false" if lifted0 or rng.random() < 0.5 else "true"}"{sol}/>')
    eq.append("connect")
  if narm == 2 and rng.random() < 0.4:
    eqx.append(f'    <joint joint1="a1" joint2="a0" polycoef="0 {_f(rng.uniform(-1.5, 1.5))} 0 0 0" active="false"/>')
    eq.append("joint")
  weld = -1
  if rng.random() < 0.4:
    weld = len(eq)
    eqx.append(f'    <weld body1="b0" active="false" torquescale="{_f(rng.uniform(0.3, 2))}"{sol}/>')
    eq.append("weld")
  if lifted0:
    # reset_data must reach a world without rows: nothing is active by default
    eqx = [e.replace('active="true"', 'active="false"') for e in eqx]
  if eqx:
    out += ["  <equality>"] + eqx + ["  </equality>"]
  if narm and rng.random() < 0.4:
    out.append("  <tendon>")
    c = " ".join(f'<joint joint="a{k}" coef="{_f(rng.uniform(0.5, 1.5) * rng.choice([-1, 1]))}"/>' for k in range(narm))
    out.append(f'    <fixed name="t0" limited="true" range="{_f([-rng.uniform(0.05, 0.3), rng.uniform(0.05, 0.3)])}">{c}</fixed>')
    out.append("  </tendon>")
  out.append(f'  <keyframe><key name="other" qpos="{_f(key_qpos + [0.0] * narm)}"/></keyframe>')
  out.append("</mujoco>")
  info = {"nb": nb, "half": half, "rest_xy": [v.tolist() for v in rest_xy], "lifted0": lifted0, "narm": narm, "eq": eq, "weld": weld}
  return "\n".join(out), info


def cut_scene(rng, cone, solver, jac):
  """Returns (xml, info) of a CUT-OFF-solve scene: a short non-colliding serial chain (nv in {2, 4}) whose joints (and
  optionally a fixed tendon) carry dry friction, solved with a small iteration limit and warm start enabled. info: nv,
  iterations, fl (per-dof frictionloss), tendon (bool), limits (bool), gravity (bool)."""
  nv = int(rng.choice([2, 2, 4]))
  iters = int(rng.choice([1, 1, 1, 2, 2, 2, 3, 3, 5, 50]))
  ts = rng.choice([0.001, 0.002, 0.005])
  gravity = bool(rng.random() < 0.5)
  limits = bool(rng.random() < 0.25)
  tol = ' tolerance="1e-10"' if rng.random() < 0.5 else ""
  flag = "" if gravity else '<flag gravity="disable"/>'
  out = ["<mujoco>", f'  <option timestep="{ts}" cone="{cone}" solver="{solver}" jacobian="{jac}" iterations="{iters}"{tol}>{flag}</option>', '  <compiler angle="radian"/>', "  <worldbody>"]
  ind = "    "
  fl = []
  for k in range(nv):
    jt = "slide" if rng.random() < 0.25 else "hinge"
    axis = ("0 1 0", "1 0 0", "0 0 1")[int(rng.integers(3))]
    f = float(rng.uniform(0.2, 3.0)) if (rng.random() < 0.85 or (k == nv - 1 and not any(fl))) else 0.0
    fl.append(f)
    lim = ' limited="true" range="-2.5 2.5"' if limits and rng.random() < 0.5 else ""
    out.append(f'{ind}<body name="c{k}" pos="{"0 0 1" if k == 0 else "0.4 0 0"}">')
    out.append(f'{ind}  <joint name="c{k}" type="{jt}" axis="{axis}" frictionloss="{_f(f)}" damping="{_f(rng.uniform(0.0, 0.2))}" armature="{_f(rng.uniform(0.0, 0.05))}"{lim}/>')
    out.append(f'{ind}  <geom type="capsule" fromto="0 0 0 0.4 0 0" size="0.04" mass="{_f(rng.uniform(0.3, 2))}" contype="0" conaffinity="0"/>')
    ind += "  "
  for k in range(nv):
    ind = ind[:-2]
    out.append(f"{ind}</body>")
  out.append("  </worldbody>")
  tendon = bool(rng.random() < 0.4)
  if tendon:
    c = " ".join(f'<joint joint="c{k}" coef="{_f(rng.uniform(0.5, 1.5) * rng.choice([-1, 1]))}"/>' for k in range(nv) if k < 2 or rng.random() < 0.5)
    out += ["  <tendon>", f'    <fixed name="t0" frictionloss="{_f(rng.uniform(0.2, 2.0))}">{c}</fixed>', "  </tendon>"]
  out.append("</mujoco>")
  return "\n".join(out), {"nv": nv, "iterations": iters, "fl": fl, "tendon": tendon, "limits": limits, "gravity": gravity}


def _arm_adr(mjm, info):
  """qpos / dof addresses of the arm joints (they follow the nb free joints)."""
  return [int(mjm.jnt_qposadr[info["nb"] + k]) for k in range(info["narm"])], [int(mjm.jnt_dofadr[info["nb"] + k]) for k in range(info["narm"])]


def state(mjm, info, rng, kind):
  """One world's state of the named kind.

  rest    bodies resting on (slightly inside) the floor, some arm joints beyond their range, equalities random
  free    bodies lifted and apart, arm joints inside their ranges, all equalities inactive          -> no rows
  eqonly  like free, but the equalities are active                                                   -> equality rows only
  bounce  bodies just touching the floor with a small upward velocity, arm inside ranges, eq off     -> leave contact soon
  """
  nb = info["nb"]
  qpos = np.array(mjm.qpos0, dtype=np.float64)
  qvel = np.zeros(mjm.nv)
  ea = np.zeros(mjm.neq, dtype=bool)
  qa, da = _arm_adr(mjm, info)
  lifted = kind in ("free", "eqonly")
  for i in range(nb):
    adr = int(mjm.jnt_qposadr[i])
    h = info["half"][i]
    if lifted:
      if info["lifted0"] and kind == "eqonly" and i == 0 and info["weld"] >= 0:
        pass  # stays at its weld pose (qpos0)
      else:
        qpos[adr : adr + 3] = [i * 0.6 + rng.normal() * 0.05, rng.normal() * 0.05, 1.0 + 0.5 * i + rng.uniform(0, 0.2)]
    elif kind == "bounce":
      # apart from each other, barely touching the floor: the only rows are floor contacts, which the velocity ends
      qpos[adr : adr + 3] = [i * 0.6 + rng.normal() * 0.05, rng.normal() * 0.05, h * rng.uniform(0.995, 1.0)]
    else:
      xy = np.array(info["rest_xy"][i]) + rng.normal(size=2) * (0.002 if (i == 0 and info["weld"] >= 0 and not info["lifted0"]) else 0.03)
      qpos[adr : adr + 3] = [xy[0], xy[1], h * rng.uniform(0.97, 1.0)]
    # orientation stays at the model's (upright) one so that `half` is the resting height
  for k in range(info["narm"]):
    lo, hi = mjm.jnt_range[nb + k]
    if kind == "rest" and rng.random() < 0.5:
      qpos[qa[k]] = (hi + rng.uniform(0.01, 0.15)) if rng.random() < 0.5 else (lo - rng.uniform(0.01, 0.15))
    else:
      c = 0.15 if kind == "bounce" else 0.6  # bounce: centred, so that the falling arm needs a while to reach a limit
      qpos[qa[k]] = rng.uniform(c * lo, c * hi) * (0.0 if mjm.ntendon else 1.0)
      qvel[da[k]] = rng.normal() * (0.0 if kind == "bounce" else 0.05)
  if kind == "bounce":
    for i in range(nb):
      d = int(mjm.jnt_dofadr[i])
      qvel[d + 2] = rng.uniform(0.4, 1.0)
  elif kind == "rest":
    qvel[: 6 * nb] = rng.normal(size=6 * nb) * 0.02
  if kind in ("rest", "eqonly"):
    for e, name in enumerate(info["eq"]):
      if name == "weld":
        # only meaningful while b0 sits at its reference pose
        ea[e] = (kind == "eqonly" and info["lifted0"]) or (kind == "rest" and not info["lifted0"] and rng.random() < 0.5)
      else:
        ea[e] = kind == "eqonly" or rng.random() < 0.5
    if kind == "eqonly" and not ea.any():
      return None
  st = {
    "qpos": qpos.astype(np.float32),
    "qvel": qvel.astype(np.float32),
    "act": np.zeros(mjm.na, np.float32),
    "ctrl": np.zeros(mjm.nu, np.float32),
    "mocap_pos": np.zeros((mjm.nmocap, 3), np.float32),
    "mocap_quat": np.zeros((mjm.nmocap, 4), np.float32),
    "qfrc_applied": np.zeros(mjm.nv, np.float32),
    "xfrc_applied": np.zeros((mjm.nbody, 6), np.float32),
    "eq_active": ea,
    "time": np.float32(0.0),
    "kind": kind,
  }
  return st


def classify(mjm, st):
  """(nefc, ncon, usable) of MuJoCo's forward on the state (usable: finite, moderate accelerations, no warning)."""
  mjd = mujoco.MjData(mjm)
  mw.apply_state_mj(mjm, mjd, st)
  try:
    mujoco.mj_forward(mjm, mjd)
  except mujoco.FatalError:
    return 0, 0, False
  ok = bool(np.all(np.isfinite(mjd.qacc))) and float(np.abs(mjd.qacc).max(initial=0.0)) < 1e5 and not np.any(np.array(mjd.warning.number) > 0)
  return int(mjd.nefc), int(mjd.ncon), ok


def write_worlds(d, which, states):
  """Rewrites qpos / qvel / eq_active of the listed worlds (a batched environment's per-world state write)."""
  import warp as wp

  if not which:
    return
  qpos, qvel = mw.npy(d.qpos).copy(), mw.npy(d.qvel).copy()
  ea = mw.npy(d.eq_active).copy() if d.eq_active.shape[1] else None
  for w, st in zip(which, states):
    qpos[w, : len(st["qpos"])] = st["qpos"]
    qvel[w, : len(st["qvel"])] = st["qvel"]
    if ea is not None:
      ea[w] = st["eq_active"]
  wp.copy(d.qpos, wp.array(qpos, dtype=float))
  wp.copy(d.qvel, wp.array(qvel, dtype=float))
  if ea is not None:
    wp.copy(d.eq_active, wp.array(ea, dtype=bool))


def toggle_eq(d, which, values):
  """Sets eq_active rows of the listed worlds (nothing else is touched)."""
  import warp as wp

  if not which or not d.eq_active.shape[1]:
    return
  ea = mw.npy(d.eq_active).copy()
  for w, v in zip(which, values):
    ea[w] = v
  wp.copy(d.eq_active, wp.array(ea, dtype=bool))


def reset_key_worlds(m, d, which, key=0):
  """mjw.reset_data_keyframe with a per-world key array (-1 = leave that world alone)."""
  import warp as wp

  import mujoco_warp as mjw

  if not which:
    return
  keys = -np.ones(d.nworld, dtype=np.int32)
  keys[list(which)] = key
  mjw.reset_data_keyframe(m, d, wp.array(keys, dtype=int))


def reset_worlds(m, d, which):
  import warp as wp

  import mujoco_warp as mjw

  if not which:
    return
  mask = np.zeros(d.nworld, dtype=bool)
  mask[list(which)] = True
  mjw.reset_data(m, d, reset=wp.array(mask, dtype=bool))
