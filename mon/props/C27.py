"""C27 Velocity derivatives are correct.

Differential monitor of the derivative D = d(qfrc_smooth)/d(qvel) that MJWarp folds into the implicit integrators:
  (i)  implicitfast: mjw.deriv_smooth_vel output (M - dt*D, M-structure) versus MuJoCo's analytic qDeriv (mj_implicit);
  (ii) implicit: the matrix mjw.implicit factorises (deriv_smooth_vel mapped to D-structure plus deriv_rne_vel) versus
       MuJoCo's qDeriv with the RNE term, and versus central finite differences of MuJoCo's own qfrc_smooth;
  (iii) one mjw.step with each implicit integrator versus mj_step (velocity after the step), on constraint-free models.
"""

import copy
import re

import mujoco
import numpy as np

from mon import cmp, core, gen, mw
from mon.props.C03 import dense_moment_mj, judge_el, reference_el

ID = "C27"
LEVEL = "exploration"
RULE = (
  "case=(seed): generated tree without constraints (free/ball/hinge/slide, several joints per body) with joint damping + "
  "polynomial damping, fixed/spatial tendons with (polynomial) damping, velocity-dependent actuators (velocity, damper, "
  "position+kv, general affine gain/bias with velocity terms, muscle; joint/tendon/site/slider-crank transmissions; "
  "force-limited, actearly, filter dynamics), fluid forces (density/viscosity/wind; inertia-box and ellipsoid models), dense "
  "and sparse, optional 33..70-dof chain; 2 worlds with different random qpos/qvel/ctrl/act. Non-trivial: D has >=3 non-zero "
  "entries; distinct by hash(model xml, qpos, qvel)."
)
ASSUMPTIONS = [
  "MuJoCo 3.13 mj_implicit's qDeriv (float64) is the analytic reference; the finite-difference oracle differentiates MuJoCo's "
  "own qfrc_smooth (central differences, h=1e-5*max(1,|v|)) and is consulted only where it agrees with MuJoCo's analytic value",
  "MJWarp's D is recovered as (M - out)/dt from its own M, so the allowance is 3e-5*max(1,|D_ij|,sqrt(D_ii*D_jj)) + 2e-6*|M_ij|/dt (about 30 float32 ulps of the M entry the term is accumulated into)",
  "the implicit system matrix is assembled with the same internal calls as forward.implicit (deriv_smooth_vel, _map_m2d, "
  "deriv_rne_vel) because implicit() factorises d.qLU in place",
  "velocity after one step: allowance max(1e-4, 3e-7*cond(M - dt*D)) * max(1,|qvel|,dt*|qacc|) + 50*noise(ulp probe of mj_step)",
  "dcmotor actuators are excluded (MuJoCo 3.13 redesigned its controller; the repository's own dcmotor derivative tests are skipped)",
]
BUDGET = {"quick": 150, "thorough": 1500}

A = 3e-5  # qDeriv entries: float32 tendon-wrap moments enter quadratically (clean-tree worst ~1e-3 of the violation line x30)

PROFILE = gen.profile(
  nbody=(2, 7),
  p_ball=0.25,
  p_free=0.25,
  p_damping=0.7,
  p_spring=0.3,
  p_armature=0.4,
  tendon_fixed=0.5,
  tendon_spatial=0.5,
  fluid=0.6,
  p_limit=0.0,
  p_mocap=0.1,
  p_site=0.9,
  actuators=5,
  act_kinds=("velocity", "velocity", "damper", "position", "general", "general", "muscle", "motor", "intvelocity"),
  act_dyn=("none", "filter", "integrator", "filterexact"),
  act_trn=("joint", "joint", "jointinparent", "tendon", "site", "slidercrank"),
  jacobians=("dense", "sparse"),
  p_poly=0.6,  # polynomial joint / tendon damping: dF/dv = b + 2 p0 |v| + 3 p1 v^2 (extras stream)
  timestep=(0.002, 0.005, 0.00390625),
  act_ball=False,  # servos on ball joints are C03's subject (MuJoCo 3.13 wraps their position error: forces differ)
)


def cases(tier, seed):
  n = 150 if tier == "quick" else 2600
  out = []
  for i in range(n):
    big = 0
    if i % 15 == 7:
      big = (33, 40, 64, 65, 70)[(i // 15) % 5]
    out.append({"id": f"gen{seed}_{i}", "seed": seed * 100000 + i, "big": big, "weight": 4 if big else 1})
  return out


def add_fluidshape(xml, rng):
  """Switches some geoms to the ellipsoid fluid model (the generator only emits the inertia-box model)."""

  def repl(mo):
    return mo.group(0) + ' fluidshape="ellipsoid"' if rng.random() < 0.5 else mo.group(0)

  return re.sub(r'<geom name="g_b\d+_\d+" type="(sphere|capsule|ellipsoid|cylinder|box)"', repl, xml)


def build(case, rec):
  rng = np.random.default_rng(case["seed"] + 5)
  P = dict(PROFILE)
  if case["big"]:
    P["big_tree"] = case["big"]
    P["nbody"] = (1, 3)
    P["jacobians"] = ("sparse",)
  feats = set()
  for k in range(30):
    x0, f0 = gen.gen(case["seed"] * 1000003 + k, P)
    if "density=" in x0.split("</option>")[0] and rng.random() < 0.35:
      x1 = add_fluidshape(x0, rng)
    else:
      x1 = x0
    mjm = gen.compile_xml(x1)
    if mjm is None or mjm.nv == 0:
      continue
    feats = set(f0)
    if x1 != x0:
      feats.add("fluid:ellipsoid")
    break
  else:
    rec.rejected = "mujoco compile"
    return None
  # polynomial damping written into the compiled model
  for j in range(mjm.njnt):
    a, n = int(mjm.jnt_dofadr[j]), {0: 6, 1: 3, 2: 1, 3: 1}[int(mjm.jnt_type[j])]
    if mjm.dof_damping[a] > 0 and rng.random() < 0.5:
      mjm.dof_dampingpoly[a : a + n] = [rng.uniform(0, 1.5), rng.uniform(0, 0.5)]  # one polynomial per joint, as the compiler does
      feats.add("dof_dampingpoly")
      feats.add("dof_dampingpoly:" + ("free", "ball", "slide", "hinge")[int(mjm.jnt_type[j])])
  for t in range(mjm.ntendon):
    if mjm.tendon_damping[t] > 0 and rng.random() < 0.5:
      mjm.tendon_dampingpoly[t] = [rng.uniform(0, 1.5), rng.uniform(0, 0.5)]
      feats.add("tendon_dampingpoly")
  mjm.opt.disableflags |= mujoco.mjtDisableBit.mjDSBL_CONTACT
  return x1, mjm, feats


def dense_from_D(mjm, qDeriv):
  out = np.zeros((mjm.nv, mjm.nv))
  mujoco.mju_sparse2dense(out, np.array(qDeriv, dtype=np.float64), mjm.D_rownnz, mjm.D_rowadr, mjm.D_colind)
  return out


def mj_qderiv(mjm, st, integrator):
  import copy

  m2 = copy.copy(mjm)
  m2.opt.integrator = integrator
  d2 = mujoco.MjData(m2)
  mw.apply_state_mj(m2, d2, st)
  mujoco.mj_forward(m2, d2)
  M = mw.dense_M(m2, d2.M)
  qacc0 = np.array(d2.qacc)
  mujoco.mj_implicit(m2, d2)
  warn = sum(int(x.number) for x in d2.warning)
  return dense_from_D(m2, d2.qDeriv), M, np.array(qacc0), warn


def fd_qderiv(mjm, st):
  """Central finite differences of MuJoCo's qfrc_smooth w.r.t. qvel."""
  d = mujoco.MjData(mjm)
  mw.apply_state_mj(mjm, d, st)
  mujoco.mj_fwdPosition(mjm, d)
  v0 = np.array(d.qvel)
  out = np.zeros((mjm.nv, mjm.nv))

  def f(v):
    d.qvel[:] = v
    mujoco.mj_fwdVelocity(mjm, d)
    mujoco.mj_fwdActuation(mjm, d)
    mujoco.mj_fwdAcceleration(mjm, d)
    return np.array(d.qfrc_smooth)

  for j in range(mjm.nv):
    h = 1e-5 * max(1.0, abs(v0[j]))
    vp, vm = v0.copy(), v0.copy()
    vp[j] += h
    vm[j] -= h
    out[:, j] = (f(vp) - f(vm)) / (2 * h)
  return out


def run_case(case):
  import mujoco_warp as mjw
  import warp as wp
  from mujoco_warp._src import derivative as mjw_derivative
  from mujoco_warp._src import forward as mjw_forward

  rec = core.Rec(case)
  b = build(case, rec)
  if b is None:
    return rec.result()
  xml, mjm, feats = b
  rng = np.random.default_rng(case["seed"])
  mjm.opt.integrator = mujoco.mjtIntegrator.mjINT_IMPLICITFAST
  try:
    m = mw.put_model(mjm)
  except (NotImplementedError, ValueError) as e:
    rec.rejected = f"put_model: {e}"[:200]
    rec.count("rejected_put_model")
    return rec.result()
  nworld = 2
  nv = mjm.nv
  dt = float(mjm.opt.timestep)
  states = [gen.sample_state(mjm, rng, vel=rng.choice([0.5, 3.0, 10.0])) for _ in range(nworld)]
  d = mw.make_data(mjm, m, states)

  def prepare():
    mw.set_world_states(m, d, states)
    mjw.fwd_position(m, d, factorize=False)
    mjw.fwd_velocity(m, d)
    mjw.fwd_actuation(m, d)

  # (i) implicitfast
  prepare()
  out_fast = wp.zeros((nworld, m.nC), dtype=float)
  mjw.deriv_smooth_vel(m, d, out_fast)
  out_fast = mw.npy(out_fast).astype(np.float64)
  Mw = mw.npy(d.M).astype(np.float64)
  # (ii) implicit: same assembly as forward.implicit
  m.opt.integrator = int(mujoco.mjtIntegrator.mjINT_IMPLICIT)
  prepare()
  qH = wp.zeros(d.M.shape, dtype=float)
  mjw.deriv_smooth_vel(m, d, qH)
  qLU = wp.zeros((nworld, m.nD), dtype=float)
  wp.launch(mjw_forward._map_m2d, dim=(nworld, m.nD), inputs=[m.mapM2D, qH], outputs=[qLU])
  mjw_derivative.deriv_rne_vel(m, d, qLU, flg_subtract=False)
  qLU = mw.npy(qLU).astype(np.float64)
  qRNE = wp.zeros((nworld, m.nD), dtype=float)  # the RNE term alone (used to characterise the mirrored-smooth-part mechanism)
  mjw_derivative.deriv_rne_vel(m, d, qRNE, flg_subtract=False)
  qRNE = mw.npy(qRNE).astype(np.float64)
  Di, Dj = mw.npy(m.qD_fullm_i), mw.npy(m.qD_fullm_j)
  # (iii) one step with each integrator
  qvel_next = {}
  for name, integ in (("implicitfast", mujoco.mjtIntegrator.mjINT_IMPLICITFAST), ("implicit", mujoco.mjtIntegrator.mjINT_IMPLICIT)):
    m.opt.integrator = int(integ)
    mw.set_world_states(m, d, states)
    mjw.step(m, d)
    qvel_next[name] = mw.npy(d.qvel).astype(np.float64)

  tril = np.tril(np.ones((nv, nv), dtype=bool))
  has_fluid = bool(mjm.opt.density > 0 or mjm.opt.viscosity > 0)
  # root cause outside the derivative (passive.py): ellipsoid-model geoms whose centre is not the body's centre of mass
  offset_ellipsoid = False
  if has_fluid:
    for g in range(mjm.ngeom):
      if mjm.geom_fluid[g, 0] > 0:
        bdy = mjm.geom_bodyid[g]
        if np.abs(mjm.geom_pos[g] - mjm.body_ipos[bdy]).max() > 1e-6:
          offset_ellipsoid = True
  has_ellipsoid = has_fluid and bool(np.any(mjm.geom_fluid[:, 0] > 0))
  # One mechanism signature per judged group:
  #  B qDeriv:muscle-gain-velocity-term                entries touched by a muscle-gain actuator (and the step of such models)
  #  C qDeriv:implicit:fluid-derivative-mirrored...    upper triangle of the implicit matrix in fluid models (and their implicit step)
  #  D qDeriv:implicitfast:ellipsoid-fluid-derivative-symmetrized   (and the implicitfast step of ellipsoid-fluid models)
  # (the former class "ellipsoid-model geom offset from the body COM" was a defect of passive.py, repaired in 2edca26;
  #  if it returns, the affected entries fire under the plain qDeriv:* signatures)
  SIG_B = "qDeriv:muscle-gain-velocity-term"
  SIG_C = "qDeriv:implicit:fluid-derivative-mirrored-into-upper-triangle"
  SIG_D = "qDeriv:implicitfast:ellipsoid-fluid-derivative-symmetrized"
  muscle_ids = [i for i in range(mjm.nu) if int(mjm.actuator_gaintype[i]) == int(mujoco.mjtGain.mjGAIN_MUSCLE)]
  if offset_ellipsoid:
    rec.cover("models_with_offset_ellipsoid_fluid_geom", 1)
  if muscle_ids:
    rec.cover("models_with_muscle", 1)

  def scale_of(ref):
    dg = np.sqrt(np.abs(np.diag(ref)))
    return np.maximum(1.0, np.maximum(np.abs(ref), np.outer(dg, dg)))  # terms entering D_ij are bounded by sqrt(D_ii D_jj)

  def judge_split(name, got, ref, sel, allow, noise, base_sig, groups, allow_abs, ctx):
    """Judges the selected entries; `groups` = [(tag, mask, sig)] carve out entries of a classified mechanism."""
    rest = sel.copy()
    todo = []
    for tag, msk, sig in groups:
      todo.append((tag, rest & msk, sig))
      rest = rest & ~msk
    todo.append(("", rest, base_sig))
    scl = scale_of(ref)
    for tag, msk, sig in todo:
      if msk.any():
        nz = noise[msk] if np.ndim(noise) else noise
        judge_el(rec, name + tag, got[msk], ref[msk], allow, nz, scale=scl[msk], sig=sig, ctx=ctx, allow_abs=allow_abs[msk])

  nontrivial = False
  for w in range(nworld):
    st = states[w]
    ctx = f"world {w}"
    Df_ref, M_ref, qacc_ref, warn1 = mj_qderiv(mjm, st, mujoco.mjtIntegrator.mjINT_IMPLICITFAST)
    Di_ref, _, _, warn2 = mj_qderiv(mjm, st, mujoco.mjtIntegrator.mjINT_IMPLICIT)
    evM = np.linalg.eigvalsh(M_ref)
    if warn1 or warn2 or not np.all(np.isfinite(Di_ref)) or evM[0] <= 1e-9 * evM[-1]:
      rec.inconcl("MuJoCo raised a warning on this state or the inertia matrix is singular")
      rec.count("worlds_without_reference")
      continue
    # entries that a muscle actuator's moment arm touches
    mus = np.zeros((nv, nv), dtype=bool)
    if muscle_ids:
      md = mujoco.MjData(mjm)
      mw.apply_state_mj(mjm, md, st)
      mujoco.mj_fwdPosition(mjm, md)
      mom = dense_moment_mj(mjm, md)
      for i in muscle_ids:
        sup = np.abs(mom[i]) > 0
        mus |= np.outer(sup, sup)
    qacc_max = float(np.abs(qacc_ref).max()) if qacc_ref.size else 0.0
    # MJWarp's D from its own M
    Hf = np.zeros((nv, nv))
    mujoco.mju_sym2dense(Hf, out_fast[w][: mjm.nC], mjm.M_rownnz, mjm.M_rowadr, mjm.M_colind)
    Mw_d = mw.dense_M(mjm, Mw[w])
    Df_got = (Mw_d - Hf) / dt
    allow_abs = 2e-6 * np.abs(M_ref) / dt
    scl = scale_of(Di_ref)
    line = cmp.VIOL_FACTOR * (A * scl + allow_abs)  # violation line per entry
    # mechanism D: MJWarp's implicitfast matrix holds the symmetrised ellipsoid-fluid derivative
    Df_sym = 0.5 * (Df_ref + Df_ref.T)
    mask_D = np.zeros((nv, nv), dtype=bool)
    if has_ellipsoid:
      mask_D = tril & (np.abs(Df_sym - Df_ref) > line / cmp.VIOL_FACTOR) & (np.abs(Df_got - Df_sym) <= line)
    # (i) lower triangle in M-structure
    sel = tril & ((Df_ref != 0) | (Hf != 0) | (M_ref != 0))
    judge_split("qDeriv_implicitfast", Df_got, Df_ref, sel, A, 0.0, "qDeriv:implicitfast", [("_muscle", mus, SIG_B), ("_symmetrized", mask_D, SIG_D)], allow_abs, ctx)
    # (ii) full matrix in D-structure
    Hi = np.zeros((nv, nv))
    mask = np.zeros((nv, nv), dtype=bool)
    Hi[Di, Dj] = qLU[w][: len(Di)]
    mask[Di, Dj] = True
    Di_got = (Mw_d - Hi) / dt
    rec.check()
    outside = (~mask) & (np.abs(Di_ref) > 1e-9)
    if outside.any():
      rec.viol("qDeriv:implicit:structure", f"MuJoCo's qDeriv has {int(outside.sum())} non-zero entries outside MJWarp's D-structure {ctx}")
    # mechanism C: the upper triangle holds the mirror image of the lower-triangle smooth (non-RNE) part although the true
    # smooth part (MuJoCo's qDeriv minus the RNE term) is not symmetric there
    mask_C = np.zeros((nv, nv), dtype=bool)
    if has_fluid:
      R = np.zeros((nv, nv))
      R[Di, Dj] = -qRNE[w][: len(Di)] / dt  # MJWarp's RNE contribution to D
      S_true = Di_ref - R  # smooth (non-RNE) part according to MuJoCo
      pred = S_true.T + R  # what MJWarp assembles: lower-triangle smooth part mirrored, plus the RNE term
      mask_C = mask & ~tril & (np.abs(S_true - S_true.T) > line / cmp.VIOL_FACTOR) & (np.abs(Di_got - pred) <= line)
    grp = [("_muscle", mus, SIG_B), ("_mirrored", mask_C, SIG_C)]
    judge_split("qDeriv_implicit_lower", Di_got, Di_ref, mask & tril, A, 0.0, "qDeriv:implicit", grp, allow_abs, ctx)
    judge_split("qDeriv_implicit_upper", Di_got, Di_ref, mask & ~tril, A, 0.0, "qDeriv:implicit", grp, allow_abs, ctx)
    # finite-difference oracle: consulted where it agrees with MuJoCo's analytic derivative
    Dfd = fd_qderiv(mjm, st)
    sc = np.maximum(1.0, np.abs(Di_ref))
    fd_tol = 1e-4 * sc + 1e-6 * np.abs(Dfd).max()
    trusted = mask & (np.abs(Dfd - Di_ref) <= fd_tol)
    rec.cover("fd_entries_trusted", int(trusted.sum()))
    rec.cover("fd_entries_untrusted", int((mask & ~trusted).sum()))
    judge_split("qDeriv_vs_fd", Di_got, Dfd, trusted, 1e-4, fd_tol / cmp.C_NOISE, "qDeriv:implicit:finite-difference", grp, allow_abs, ctx)
    b_hit = bool(mus.any()) and bool((np.abs(Df_got - Df_ref)[sel & mus] > line[sel & mus]).any() or (np.abs(Di_got - Di_ref)[mask & mus] > line[mask & mus]).any())
    c_hit, d_hit = bool(mask_C.any()), bool(mask_D.any())
    rec.cover("worlds_mechanism_muscle", int(b_hit))
    rec.cover("worlds_mechanism_mirrored_upper", int(c_hit))
    rec.cover("worlds_mechanism_symmetrized", int(d_hit))
    # (iii) step
    for name in ("implicitfast", "implicit"):
      integ = mujoco.mjtIntegrator.mjINT_IMPLICITFAST if name == "implicitfast" else mujoco.mjtIntegrator.mjINT_IMPLICIT
      m2 = copy.copy(mjm)
      m2.opt.integrator = integ
      sref, snoise, _ = reference_el(m2, st, mujoco.mj_step, lambda mm, dd: {"qvel": dd.qvel, "warn": [sum(int(x.number) for x in dd.warning)]}, seed=case["seed"] + w)
      if sref["warn"][0] > 0 or snoise["warn"][0] > 0:
        rec.inconcl("mj_step raised a warning (auto-reset): no reference")
        continue
      vref = sref["qvel"]
      sig = "step:" + name + ":qvel"
      if b_hit:
        sig = SIG_B  # the step inherits the error of the matrix it factorises
      elif name == "implicit" and c_hit:
        sig = SIG_C
      elif name == "implicitfast" and d_hit:
        sig = SIG_D
      Aref = M_ref - dt * (Df_ref if name == "implicitfast" else Di_ref)
      if name == "implicitfast":
        Aref = np.tril(Aref) + np.tril(Aref, -1).T
        ev = np.linalg.eigvalsh(Aref)
        if ev[0] <= 1e-6 * ev[-1]:
          rec.inconcl("implicitfast system matrix M - dt*D is not positive definite at this state (reference step is meaningless)")
          rec.count("step_reference_matrix_not_pd")
          continue
      cnd = float(np.linalg.cond(Aref))
      if cnd > 1e7:
        rec.inconcl("implicit system matrix is ill-conditioned at this state")
        rec.count("step_reference_matrix_illconditioned")
        continue
      vsc = max(1.0, float(np.abs(vref).max()), dt * qacc_max)
      allow_v = max(1e-4, 3e-7 * cnd)
      # MuJoCo 3.13's own step compared with the textbook update v + dt*(M - dt*D)^-1 M qacc built from MuJoCo's M, qDeriv, qacc
      v0 = np.asarray(st["qvel"], dtype=np.float64)
      classic = v0 + dt * np.linalg.solve(Aref, M_ref @ qacc_ref)
      vline = cmp.VIOL_FACTOR * (allow_v * vsc + cmp.C_NOISE * snoise["qvel"])
      if sig.startswith("step:") and np.any(np.abs(vref - classic) > vline) and np.all(np.abs(qvel_next[name][w] - classic) <= vline):
        sig = "step:" + name + ":mujoco-step-differs-from-its-own-qDeriv-solve"
      if not sig.startswith("step:") and not np.all(np.isfinite(qvel_next[name][w])):
        # the matrix MJWarp factorises differs from MuJoCo's by a classified mechanism and is not positive definite here
        rec.check()
        rec.viol(sig, f"qvel after one {name} step is not finite (system matrix differs from MuJoCo's by the classified mechanism) {ctx}")
        continue
      judge_el(rec, "qvel_after_step_" + name, qvel_next[name][w], vref, allow_v, snoise["qvel"], scale=vsc, sig=sig, ctx=ctx)
    nz = int((np.abs(Di_ref) > 1e-9).sum())
    if nz >= 3:
      nontrivial = True
    rec.cover("nonzero_D_entries", nz)
    rec.cover("offdiag_nonzero_D_entries", int((np.abs(Di_ref - np.diag(np.diag(Di_ref))) > 1e-9).sum()))
    rec.cover("asymmetric_D_entries", int((np.abs(Di_ref - Di_ref.T) > 1e-7).sum()))
    rec.cover("worlds", 1)

  # ---- coverage of velocity-dependent features (static, from the compiled model)
  for i in range(mjm.nu):
    g, bprm = mjm.actuator_gainprm[i], mjm.actuator_biasprm[i]
    gt, bt = int(mjm.actuator_gaintype[i]), int(mjm.actuator_biastype[i])
    trn = {0: "joint", 1: "jointinparent", 2: "slidercrank", 3: "tendon", 4: "site", 5: "body"}.get(int(mjm.actuator_trntype[i]), "?")
    if (gt == 1 and g[2] != 0) or (bt == 1 and bprm[2] != 0) or gt == 2:
      rec.cover("veldep_actuator_trn", trn)
      rec.cover("veldep_actuator_kind", ("affine_gain" if gt == 1 and g[2] != 0 else "") + ("affine_bias" if bt == 1 and bprm[2] != 0 else "") + ("muscle" if gt == 2 else ""))
      if mjm.actuator_forcelimited[i]:
        rec.cover("veldep_actuator_forcelimited", 1)
      if mjm.actuator_actearly[i]:
        rec.cover("veldep_actuator_actearly", 1)
  for ft in feats:
    rec.cover("features", ft)
  if np.any(mjm.dof_damping > 0):
    rec.cover("features", "dof_damping")
  if mjm.ntendon and np.any(mjm.tendon_damping > 0):
    rec.cover("features", "tendon_damping_model")
  rec.cover("sparse" if m.is_sparse else "dense", 1)
  rec.cover("nv_class", "nv<=6" if nv <= 6 else ("nv<=32" if nv <= 32 else ("nv<=64" if nv <= 64 else "nv>64")))
  if nontrivial:
    rec.nontrivial(xml, *[s["qpos"] for s in states], *[s["qvel"] for s in states])
  rec.sample = {"model": f"generated seed {case['seed']} big_tree={case['big']}", "nv": nv, "nu": mjm.nu, "ntendon": mjm.ntendon, "sparse": bool(m.is_sparse), "dt": dt, "qvel_world0": states[0]["qvel"][:6]}
  return rec.result()


def requirements(agg, tier):
  unmet = []
  cov = agg["cover"]
  feats = set(cov.get("features", []))
  for f in ("dof_damping", "dof_dampingpoly", "tendon_damping_model", "tendon_dampingpoly", "fluid", "fluid:ellipsoid", "joint:free", "joint:ball"):
    if f not in feats:
      unmet.append(f"feature never generated: {f}")
  for t in ("joint", "tendon", "site"):
    if t not in cov.get("veldep_actuator_trn", []):
      unmet.append(f"velocity-dependent actuator never seen on transmission: {t}")
  for k in ("affine_gain", "affine_bias", "muscle"):
    if not any(k in x for x in cov.get("veldep_actuator_kind", [])):
      unmet.append(f"velocity-dependent actuator kind never seen: {k}")
  for k, n in (("dense", 10), ("sparse", 10), ("fd_entries_trusted", 1000), ("asymmetric_D_entries", 100), ("offdiag_nonzero_D_entries", 500), ("veldep_actuator_forcelimited", 3)):
    if cov.get(k, 0) < n:
      unmet.append(f"coverage {k}={cov.get(k, 0)} < {n}")
  for c in ("nv<=6", "nv<=32", "nv<=64", "nv>64"):
    if c not in cov.get("nv_class", []):
      unmet.append(f"nv class never reached: {c}")
  if agg["distinct"] < 50:
    unmet.append("fewer than 50 distinct non-trivial cases")
  return unmet
