"""C09 Worlds in a batch do not influence each other.

Metamorphic monitor (no reference engine): a world's multi-step trajectory inside a batch is compared,
step by step, with the same world simulated alone, at another batch position (random permutation of the
worlds) and next to different / hostile neighbours.  Verdict by the first-divergence rule over all
per-world observables, the world's contact multiset and its constraint-row multiset.
"""

import numpy as np

from mon import core, meta, mw, scenes

ID = "C09"
LEVEL = "exploration"
TECHNIQUE = "runtime monitoring: metamorphic comparison of batched vs alone / permuted / re-neighboured executions"
RULE = (
  "case=(scene, batch of 2..33 worlds in different MuJoCo-settled states with different ctrl/applied forces/mocap/eq_active, T steps): "
  "target worlds are re-simulated alone, in a permuted batch and next to replaced (incl. deeply penetrating 'hostile') neighbours. "
  "Non-trivial: the target world has >=1 contact or constraint row at some step and the worlds' states differ; distinct by hash(scene, states)."
)
ASSUMPTIONS = [
  "comparison is gated on no capacity-overflow bit in any world of either execution (as the property states); iteration-limit bits do not gate",
  "first-divergence rule: executions are compared after every step until the first non-bit-identical observable; that step decides "
  "(<=1e-4 relative = round-off, >=1e-2 = violation); later steps are not judged (chaotic amplification)",
]
BUDGET = {"quick": 200, "thorough": 2400}

CAP_BITS = 1 | 2 | 4 | 8 | 16 | 32 | 64 | 128 | 256  # every OverflowType bit except ITERATIONS / LS_ITERATIONS


def cases(tier, seed):
  import mujoco

  out = []
  T = 5 if tier == "quick" else 20
  nrep = 1 if tier == "quick" else 5
  sizes = (2, 3, 5, 4, 6, 3, 2, 17, 4, 3, 33, 2, 5)
  for r in range(nrep):
    for k, (p, opt) in enumerate(scenes.REPO):
      out.append({"id": f"repo{seed}_{k}_{r}", "scene": {"kind": "repo", "path": p, "opt": opt}, "seed": seed * 1000 + 53 * r + k, "T": T, "nworld": sizes[(k + r) % len(sizes)], "weight": 3})
  n = 30 if tier == "quick" else 700
  for i in range(n):
    prof = ("full", "free", "joints")[i % 3]
    nw = sizes[i % len(sizes)] if i % 7 else (257 if tier == "thorough" and i % 49 == 0 else 9)
    out.append({"id": f"gen{seed}_{i}", "scene": {"kind": "gen", "seed": seed * 100000 + i, "profile": prof}, "seed": seed * 100000 + i, "T": T, "nworld": nw, "weight": 1})
  for i in range(1 if tier == "quick" else 10):
    out.append({"id": f"big{seed}_{i}", "scene": {"kind": "gen", "seed": seed * 100000 + 8000 + i, "profile": "bigtree"}, "seed": seed * 100000 + 8000 + i, "T": 3, "nworld": 3, "weight": 4})
  for i in range(6 if tier == "quick" else 60):
    out.append(
      {
        "id": f"sleep{seed}_{i}",
        "scene": {"kind": "gen", "seed": seed * 100000 + 7000 + i, "profile": "free", "override": {"solvers": ("Newton",)}, "opt": {"enable": int(mujoco.mjtEnableBit.mjENBL_SLEEP)}},
        "seed": seed * 100000 + 7000 + i,
        "T": T + 4,
        "nworld": 4,
        "weight": 1,
      }
    )
  return out


def _run(mjw, mjm, m, states, T):
  d = mw.make_data(mjm, m, states)
  snaps = []
  nw = len(states)
  for t in range(T):
    mjw.step(m, d)
    snaps.append({"obs": meta.snap_obs(d), "con": [mw.contacts(d, w) for w in range(nw)], "rows": [mw.efc_rows(mjm, m, d, w) for w in range(nw)]})
  return snaps


SV = {"v": 1e-2}


def _compare_traj(rec, tag, A, wa, B, wb, T):
  """first-divergence comparison of world wa of run A with world wb of run B; returns (steps judged, class)."""
  for t in range(T):
    oa, ob = A[t]["obs"], B[t]["obs"]
    why = meta.gate(oa["overflow"], wa, ob["overflow"], wb)
    if why:
      rec.count("ungated_" + why)
      return t, "ungated"
    if meta.diverged(oa, wa, ob, wb):
      rec.count("ungated_diverged_world")
      return t, "ungated"
    ctx = f"{tag} step {t}"
    c1 = meta.compare_obs(rec, ctx, oa, ob, wa, wb, tol_viol=SV["v"])
    c2 = meta.compare_contacts(rec, ctx, A[t]["con"][wa], B[t]["con"][wb], tol_viol=SV["v"])
    c3 = meta.compare_rows(rec, ctx, A[t]["rows"][wa], B[t]["rows"][wb], with_force=True, tol_viol=SV["v"])
    cls = max((c1, c2, c3), key=lambda c: {"bit": 0, "round": 1, "incon": 2, "viol": 3}[c])
    if cls != "bit":
      return t + 1, cls
  return T, "bit"


def run_case(case):
  import mujoco_warp as mjw

  rec = core.Rec(case)
  rng = np.random.default_rng(case["seed"])
  label, mjm, feats = scenes.scene(case["scene"])
  if mjm is None:
    rec.rejected = "mujoco compile"
    return rec.result()
  try:
    m = mw.put_model(mjm)
  except (NotImplementedError, ValueError) as e:
    rec.rejected = f"put_model: {e}"[:200]
    return rec.result()
  nworld, T = case["nworld"], case["T"]
  SV["v"] = meta.step_viol(mjm)
  states = scenes.settle_states(mjm, rng, nworld, steps=(0, 5, 30, 12))
  # hostile neighbour: world 1 starts at qpos0 with large velocities (deep overlaps, many solver iterations)
  if nworld >= 3:
    from mon import gen

    h = gen.sample_state(mjm, rng, vel=5.0, quat_scale=False)
    h["qpos"] = np.array(mjm.qpos0, dtype=np.float32)
    states[1] = h
  B = _run(mjw, mjm, m, states, T)
  ncon = [sum(len(s["con"][w]["dist"]) for s in B) for w in range(nworld)]
  nrow = [sum(s["rows"][w]["nefc"] for s in B) for w in range(nworld)]
  targets = [0] + ([2] if nworld >= 3 else [1])
  # (a) alone
  for w in targets:
    A = _run(mjw, mjm, m, [states[w]], T)
    n, cls = _compare_traj(rec, f"alone vs batch world {w}", A, 0, B, w, T)
    rec.count("alone_" + cls)
    rec.count("steps_judged", n)
  # (b) permuted batch
  perm = rng.permutation(nworld)
  P = _run(mjw, mjm, m, [states[j] for j in perm], T)
  for i in list(range(min(nworld, 4))):
    n, cls = _compare_traj(rec, f"permuted batch position {i} (was world {int(perm[i])})", P, i, B, int(perm[i]), T)
    rec.count("permuted_" + cls)
    rec.count("steps_judged", n)
  # (c) different neighbours for target 0
  st2 = scenes.settle_states(mjm, rng, nworld, steps=(3, 0, 17))
  st2[0] = states[0]
  N = _run(mjw, mjm, m, st2, T)
  n, cls = _compare_traj(rec, "target world 0 with replaced neighbours", N, 0, B, 0, T)
  rec.count("neighbours_" + cls)
  rec.count("steps_judged", n)
  for f in feats:
    rec.cover("features", f)
  rec.cover("batch_sizes", str(nworld))
  rec.cover("contacts_seen", int(sum(ncon)))
  rec.cover("rows_seen", int(sum(nrow)))
  differ = any(not np.array_equal(states[0]["qpos"], s["qpos"]) for s in states[1:])
  if (ncon[0] + nrow[0]) > 0 and differ:
    rec.nontrivial(label, *[s["qpos"] for s in states])
  rec.sample = {"scene": case["scene"], "nworld": nworld, "steps": T, "contacts_per_world": ncon[:6], "rows_per_world": nrow[:6], "perm": perm[:8]}
  return rec.result()


def requirements(agg, tier):
  unmet = []
  t = agg["tally"]
  judged = sum(v for k, v in t.items() if k.startswith(("alone_", "permuted_", "neighbours_")) and not k.endswith("ungated"))
  if judged < 80:
    unmet.append(f"only {judged} gated trajectory comparisons (<80)")
  if agg["cover"].get("contacts_seen", 0) < 500:
    unmet.append("fewer than 500 contacts observed")
  return unmet
