"""C16 Capacity overflow is never silent.

Capacity-sweep monitor: for each capacity (naconmax, njmax, njmax_nnz, nvmax) the same state is stepped once
with that capacity at 0, 1, need-1, need, need+1 and random values below need (all other capacities ample);
need is measured on the ample run.  Violations: (strict) a count exceeds the capacity and the corresponding
overflow bit of that world is not set; (robust) no capacity bit is set in a world although its step result,
contact multiset or row multiset differs from the ample-capacity run beyond round-off.
"""

import numpy as np

from mon import cmp, core, meta, mw, scenes

ID = "C16"
LEVEL = "fault_enumeration"
TECHNIQUE = "runtime monitoring: capacity starvation sweep through the exact-fit boundary with metamorphic comparison against the ample-capacity run"
RULE = (
  "case=(scene, states of 1-3 worlds with unequal needs): capacities swept one at a time over {0,1,need-1,need,need+1, 2 random below need}; "
  "scenes include 3-row connect / 6-row weld / multi-row contact blocks ending exactly at njmax. Non-trivial: need>=2 for the swept "
  "capacity (so that below/exact/above are distinct); distinct by hash(scene, states, capacity name)."
)
ASSUMPTIONS = [
  "need = counts observed on a run with ample capacities from the same state (nacon, ncollision, per-world nefc, per-world Jacobian non-zeros, awake dofs)",
  "iteration-limit bits are not capacity bits; a capacity bit that is set although the capacity sufficed is tallied, not a violation",
]
BUDGET = {"quick": 220, "thorough": 2400}

NEFC, NJMAX_NNZ, BROADPHASE, NARROWPHASE, CCD, HFIELD, CONTACT_MATCH, NVMAX, EPA = 1, 2, 4, 8, 16, 32, 64, 128, 256
CAP_BITS = 511

EQ_XML = """
<mujoco>
  <option timestep="0.00390625" jacobian="{jac}" solver="{solver}"/>
  <worldbody>
    <body name="a" pos="0 0 1"><freejoint/><geom type="sphere" size=".1" contype="0" conaffinity="0"/></body>
    <body name="b" pos=".5 0 1"><freejoint/><geom type="sphere" size=".1" contype="0" conaffinity="0"/></body>
    <body name="c" pos="1 0 1"><joint type="hinge" axis="0 1 0"/><geom type="capsule" size=".05 .2" contype="0" conaffinity="0"/></body>
  </worldbody>
  <equality>{eqs}</equality>
</mujoco>
"""
EQ_VARIANTS = [
  '<connect body1="a" anchor="0 0 0"/>',
  '<weld body1="a"/>',
  '<connect body1="a" body2="b" anchor="0.1 0 0"/><connect body1="b" anchor="0 0 0.1"/>',
  '<weld body1="a" body2="b"/><connect body1="b" anchor="0 0 0.1"/>',
  '<connect body1="a" anchor="0 0 0"/><weld body1="b"/>',
  '<joint joint1="hj"/><connect body1="a" anchor="0 0 0"/>'.replace("hj", "hjx"),
]


def cases(tier, seed):
  import mujoco

  out = []
  nrep = 1 if tier == "quick" else 4
  k = 0
  for r in range(nrep):
    for v, eqs in enumerate(EQ_VARIANTS[:5]):
      for jac in ("dense", "sparse"):
        out.append({"id": f"eq{seed}_{v}_{jac}_{r}", "scene": {"kind": "xml", "xml": EQ_XML.format(jac=jac, solver=("Newton", "CG")[(v + r) % 2], eqs=eqs)}, "seed": seed * 1000 + 17 * r + v, "nworld": 1 + (v + r) % 2, "weight": 1})
    for k, (p, opt) in enumerate(scenes.REPO[:9] if tier != "quick" else [scenes.REPO[i] for i in (1, 2, 3, 6, 7, 8)]):
      out.append({"id": f"repo{seed}_{k}_{r}", "scene": {"kind": "repo", "path": p, "opt": opt}, "seed": seed * 1000 + 61 * r + k, "nworld": 1 + (k + r) % 3, "weight": 4})
    for k, (p, opt) in enumerate([("constraints.xml", {"integrator": "RK4"}), ("collision.xml", {"integrator": "RK4"})]):
      out.append({"id": f"rk4_{seed}_{k}_{r}", "scene": {"kind": "repo", "path": p, "opt": opt}, "seed": seed * 1000 + 67 * r + k, "nworld": 1 + (k + r) % 2, "weight": 4})
  # rows that are needed by an early forward evaluation of the step only (RK4 stages): limits / contacts that are active
  # at t and released before t+h
  for i in range(8 if tier == "quick" else 120):
    out.append({"id": f"release{seed}_{i}", "scene": {"kind": "release", "jac": ("dense", "sparse")[i % 2], "integrator": ("RK4", "RK4", "RK4", "Euler")[(i // 2) % 4], "seed": seed * 100000 + 4000 + i}, "seed": seed * 100000 + 4000 + i, "nworld": 2 + i % 2, "weight": 1})
  n = 21 if tier == "quick" else 500
  for i in range(n):
    prof = ("full", "free", "joints")[i % 3]
    ov = {"jacobians": ("sparse",)} if i % 4 == 1 else {}
    out.append({"id": f"gen{seed}_{i}", "scene": {"kind": "gen", "seed": seed * 100000 + i, "profile": prof, "override": ov}, "seed": seed * 100000 + i, "nworld": 1 + i % 3, "weight": 2})
  for i in range(4 if tier == "quick" else 40):
    out.append(
      {
        "id": f"sleep{seed}_{i}",
        "scene": {"kind": "gen", "seed": seed * 100000 + 9000 + i, "profile": "free", "override": {"solvers": ("Newton",)}, "opt": {"enable": int(mujoco.mjtEnableBit.mjENBL_SLEEP)}},
        "seed": seed * 100000 + 9000 + i,
        "nworld": 2,
        "nvmax": True,
        "weight": 2,
      }
    )
  return out


def _release_scene(spec):
  """Limited hinges / slides and spheres over a plane; the per-world states put some of them just inside the active
  region of their limit / contact margin with a velocity that releases them within half a time step."""
  import mujoco

  rng = np.random.default_rng(spec["seed"])
  h = 0.005
  nj = int(rng.integers(2, 6))
  ns = int(rng.integers(0, 3))
  b = [f'<mujoco><option timestep="{h}" integrator="{spec["integrator"]}" jacobian="{spec["jac"]}" gravity="0 0 -9.81"/><worldbody>', '<geom type="plane" size="5 5 .1"/>']
  for k in range(nj):
    jt = "hinge" if rng.random() < 0.7 else "slide"
    b.append(
      f'<body pos="{k * 0.6} 2 1"><joint name="lj{k}" type="{jt}" axis="0 1 0" limited="true" range="-0.5 0.5" damping="0.1"/>'
      f'<geom type="capsule" size="0.04 0.15" contype="0" conaffinity="0" mass="{rng.uniform(0.3, 2):.3g}"/></body>'
    )
  for k in range(ns):
    b.append(f'<body pos="{k * 0.5} 0 0.1"><freejoint name="fs{k}"/><geom type="sphere" size="0.1" condim="{int(rng.choice([1, 3]))}"/></body>')
  b.append("</worldbody></mujoco>")
  xml = "".join(b)
  return xml, mujoco.MjModel.from_xml_string(xml), ["xml:release", "integrator:" + spec["integrator"]]


def _release_states(mjm, rng, nworld):
  import mujoco

  from mon import gen

  h = float(mjm.opt.timestep)
  out = []
  for w in range(nworld):
    st = gen.sample_state(mjm, rng, vel=0.0, quat_scale=False, applied=False)
    q = np.array(mjm.qpos0, dtype=np.float64)
    v = np.zeros(mjm.nv)
    for j in range(mjm.njnt):
      qa, da = int(mjm.jnt_qposadr[j]), int(mjm.jnt_dofadr[j])
      if mjm.jnt_type[j] == mujoco.mjtJoint.mjJNT_FREE:
        mode = rng.integers(3)
        if mode == 0:  # penetrating by less than v*h/2, moving up: contact at t, none at t+h/2
          vz = rng.uniform(0.5, 3.0)
          q[qa + 2] = 0.1 - rng.uniform(0.05, 0.45) * vz * h
          v[da + 2] = vz
        elif mode == 1:  # resting / pressing
          q[qa + 2] = 0.1 - 0.002
        else:
          q[qa + 2] = 0.5
      else:
        lo, hi = mjm.jnt_range[j]
        mode = rng.integers(4)
        sp = rng.uniform(0.5, 4.0)
        if mode == 0:  # beyond the upper limit by less than sp*h/2, moving back into range
          q[qa] = hi + rng.uniform(0.05, 0.45) * sp * h
          v[da] = -sp
        elif mode == 1:
          q[qa] = lo - rng.uniform(0.05, 0.45) * sp * h
          v[da] = sp
        elif mode == 2:  # stays violated
          q[qa] = hi + 0.05
        else:
          q[qa] = rng.uniform(lo * 0.8, hi * 0.8)
    st["qpos"] = q.astype(np.float32)
    st["qvel"] = v.astype(np.float32)
    out.append(st)
  return out


def _scene(spec):
  import mujoco

  if spec["kind"] == "release":
    return _release_scene(spec)
  if spec["kind"] == "xml":
    mjm = mujoco.MjModel.from_xml_string(spec["xml"])
    return spec["xml"], mjm, ["xml:equality-block-boundary"]
  return scenes.scene(spec)


def _step_obs(mjw, mjm, m, states, spy=False, **caps):
  d = mw.make_data(mjm, m, states, **caps)
  d.overflow.zero_()
  calls = {"nefc": [], "nacon": []}
  if spy:
    # what every forward evaluation inside the step asked for (RK4 has four): the capacity a step needs is the largest
    # request of any of them, not the one left in Data at the end
    from mujoco_warp._src import collision_driver as _cd
    from mujoco_warp._src import constraint as _cs

    o_mc, o_col = _cs.make_constraint, _cd.collision

    def mc(m_, d_, *a, **k):
      r = o_mc(m_, d_, *a, **k)
      calls["nefc"].append(np.array(d_.nefc.numpy()))
      return r

    def col(m_, d_, *a, **k):
      r = o_col(m_, d_, *a, **k)
      calls["nacon"].append(max(int(d_.nacon.numpy()[0]), int(d_.ncollision.numpy()[0])))
      return r

    _cs.make_constraint, _cd.collision = mc, col
    try:
      mjw.step(m, d)
    finally:
      _cs.make_constraint, _cd.collision = o_mc, o_col
  else:
    mjw.step(m, d)
  nw = d.nworld
  return d, {
    "calls": calls,
    "obs": meta.snap_obs(d, fields=("qpos", "qvel", "qacc", "qfrc_constraint", "nefc", "ne", "nf", "nl")),
    "con": [mw.contacts(d, w) for w in range(nw)],
    "rows": [mw.efc_rows(mjm, m, d, w) for w in range(nw)],
    "nacon": int(mw.npy(d.nacon)[0]),
    "ncollision": int(mw.npy(d.ncollision)[0]),
    "nefc": mw.npy(d.nefc).copy(),
  }


def _sweep(need, rng):
  vals = {0, 1, max(need - 1, 0), need, need + 1}
  for _ in range(2):
    if need > 3:
      vals.add(int(rng.integers(2, need - 1)))
  return sorted(vals)


def run_case(case):
  import mujoco_warp as mjw

  rec = core.Rec(case)
  rng = np.random.default_rng(case["seed"])
  label, mjm, feats = _scene(case["scene"])
  if mjm is None:
    rec.rejected = "mujoco compile"
    return rec.result()
  try:
    m = mw.put_model(mjm)
  except (NotImplementedError, ValueError) as e:
    rec.rejected = f"put_model: {e}"[:200]
    return rec.result()
  nworld = case["nworld"]
  if case["scene"]["kind"] == "release":
    states = _release_states(mjm, rng, nworld)
  else:
    states = scenes.settle_states(mjm, rng, nworld, steps=(8, 0, 25))
  BIG = dict(nconmax=400, njmax=600)
  if m.is_sparse:
    BIG["njmax_nnz"] = 600 * min(mjm.nv, 60)
  try:
    d_big, A = _step_obs(mjw, mjm, m, states, spy=True, **BIG)
  except Exception as e:  # noqa
    raise
  if (A["obs"]["overflow"] & CAP_BITS).any():
    rec.inconcl("ample run itself reports a capacity overflow")
    return rec.result()
  # per-world row request of every make_constraint call of the step (the end-of-step count is the last call's)
  call_nefc = np.stack(A["calls"]["nefc"] + [A["nefc"]]) if A["calls"]["nefc"] else np.stack([A["nefc"]])
  nefc_need = call_nefc.max(axis=0)
  rec.cover("forward_evaluations_per_step", str(len(A["calls"]["nefc"])))
  if (nefc_need > A["nefc"]).any():
    rec.cover("worlds_needing_more_rows_in_an_early_evaluation_than_at_the_end", int((nefc_need > A["nefc"]).sum()))
  need = {
    "naconmax": max([A["nacon"], A["ncollision"]] + A["calls"]["nacon"]),
    "njmax": int(nefc_need.max()),
  }
  if m.is_sparse:
    need["njmax_nnz"] = int(max(r.get("nnz", 0) for r in A["rows"]))
  if case.get("nvmax"):
    need["nvmax"] = int(mw.npy(d_big.nv_awake).max()) if hasattr(d_big, "nv_awake") else mjm.nv
  per_world_need = {
    "njmax": [int(x) for x in nefc_need],
    "njmax_nnz": [int(r.get("nnz", 0)) for r in A["rows"]],
  }
  capbit = {"naconmax": BROADPHASE | NARROWPHASE | CCD | HFIELD | EPA, "njmax": NEFC, "njmax_nnz": NJMAX_NNZ, "nvmax": NVMAX}
  any_nontrivial = False
  for cap, nd in need.items():
    if nd < 1:
      rec.count(f"{cap}:need0_skipped")
      continue
    if nd >= 2:
      any_nontrivial = True
    pts = _sweep(nd, rng)
    if cap == "njmax" and (nefc_need > A["nefc"]).any():
      # capacities between the end-of-step count and the largest request
      pts = sorted(set(pts) | {int(x) for x in A["nefc"]} | {int(x) + 1 for x in A["nefc"] if x + 1 < nd})
    for c in pts:
      caps = dict(BIG)
      if cap == "naconmax":
        caps.pop("nconmax")
        caps["naconmax"] = c
      elif cap == "nvmax":
        if c > mjm.nv:
          continue
        caps["nvmax"] = c
      else:
        caps[cap] = c
      try:
        _, B = _step_obs(mjw, mjm, m, states, **caps)
      except ValueError as e:
        rec.count(f"{cap}:rejected_by_make_data")
        continue
      except Exception as e:  # noqa: an exception is not silent (C17 judges whether it is acceptable)
        rec.count(f"{cap}:exception:{type(e).__name__}")
        continue
      rel = "zero" if c == 0 else ("below" if c < nd else ("exact" if c == nd else "above"))
      rec.count(f"{cap}:{rel}")
      rec.cover("sweep_points", 1)
      bits = B["obs"]["overflow"]
      for w in range(nworld):
        rec.check()
        capset = bool(bits[w] & capbit[cap])
        anycap = bool(bits[w] & CAP_BITS)
        # strict form (per-world need is well defined)
        if cap in per_world_need and per_world_need[cap][w] > c and not capset:
          rec.viol(f"bit-missing:{cap}:{rel}", f"{cap}={c} < need {per_world_need[cap][w]} in world {w} but overflow={int(bits[w])} lacks the {cap} bit", cap=cap, c=c, need=per_world_need[cap][w])
        if cap == "naconmax" and nd > c and len(A["con"][w]["dist"]) > 0 and not capset:
          rec.viol(f"bit-missing:{cap}:{rel}", f"naconmax={c} < need {nd} (nacon {A['nacon']}, ncollision {A['ncollision']}) but world {w} overflow={int(bits[w])} has no contact-capacity bit", cap=cap, c=c, need=nd)
        if cap == "nvmax" and nd > c and not capset:
          rec.viol(f"bit-missing:{cap}:{rel}", f"nvmax={c} < awake dofs {nd} but world {w} overflow={int(bits[w])} lacks NVMAX")
        if anycap:
          if c >= nd and cap != "nvmax":
            rec.count(f"{cap}:bit_set_although_sufficient")
          continue
        if (bits[w] | A["obs"]["overflow"][w]) & meta.ITER_BITS:
          rec.count("ungated_iteration_limit")  # the property only speaks about steps without any overflow bit
          continue
        if meta.diverged(A["obs"], w, B["obs"], w):
          rec.count("ungated_diverged_world")
          continue
        # robust form: no capacity bit in this world => result must equal the ample run
        tmp = core.Rec(case)
        c1 = meta.compare_obs(tmp, "", A["obs"], B["obs"], w, w)
        c2 = meta.compare_contacts(tmp, "", A["con"][w], B["con"][w])
        c3 = meta.compare_rows(tmp, "", A["rows"][w], B["rows"][w])
        if "viol" in (c1, c2, c3):
          what = "; ".join(v["msg"][:160] for v in tmp.violations[:3])
          rec.viol(f"silent:{cap}:{rel}", f"{cap}={c} (need {nd}, {rel}) world {w}: no overflow bit but result differs from ample run: {what}", cap=cap, c=c, need=nd)
        elif "incon" in (c1, c2, c3):
          rec.inconcl(f"{cap}: difference to ample run in grey zone")
        else:
          rec.count(f"{cap}:{rel}:equal_to_ample")
  for f in feats:
    rec.cover("features", f)
  rec.cover("needs:naconmax", str(min(need.get("naconmax", 0), 50)))
  if any_nontrivial:
    rec.nontrivial(label, *[s["qpos"] for s in states])
  rec.sample = {"scene": (case["scene"] if case["scene"]["kind"] != "xml" else "equality block-boundary model"), "nworld": nworld, "need": need, "per_world_nefc": per_world_need["njmax"], "sparse": bool(m.is_sparse)}
  return rec.result()


def requirements(agg, tier):
  unmet = []
  t = agg["tally"]
  for cap in ("naconmax", "njmax", "njmax_nnz"):
    for rel in ("below", "exact", "above"):
      if t.get(f"{cap}:{rel}", 0) < 5:
        unmet.append(f"fewer than 5 sweep points {cap}:{rel}")
  if agg["cover"].get("worlds_needing_more_rows_in_an_early_evaluation_than_at_the_end", 0) < 3:
    unmet.append("fewer than 3 worlds whose early forward evaluation (RK4 stage) needs more rows than the end of the step")
  return unmet
