"""C39 contact_force reports the contact wrench.

Differential monitor that isolates decoding from solving: after mjw.forward()/step() the reported efc.force, contact
dim/friction/adhesion and per-contact row addresses of each world are written into a MuJoCo MjData (contacts laid out as
consecutive row blocks, exactly what mj_contactForce expects) and mujoco.mj_contactForce is evaluated for every contact;
mjw.contact_force is called once for ALL worlds' contacts in random order (with repeats and inactive contacts) and must
return the same 6-vectors; the to_world_frame=True output must equal frame^T applied to the local force and torque.
An independent numpy decode (documented pyramid/elliptic formulas) cross-checks the MjData filling.

Exact-fit capacities: every scene is evaluated a second time on a Data whose njmax equals the largest number of rows any
of its worlds needs and whose naconmax equals the number of contacts (nothing overflows; the last pyramid edge / last
elliptic row of some contact sits at row njmax-1, the last contact at slot naconmax-1). A dedicated 'fit' family (bodies
spinning, rolling and sliding on a plane and against each other, one target condim per case, worlds with different row
counts) makes those last rows carry non-zero force in every cone x condim combination.
"""

import copy

import mujoco
import numpy as np

from mon import core, gen, mw
from mon.props import C06, C24
from mon.props import _efc as E
from mon.props import _scenes as S

ID = "C39"
LEVEL = "exploration"
RULE = (
  "case=(kind,seed): generated contact scene (condim 1/3/4/6, margins -> inactive contacts, geom adhesion), pile or repo "
  "model under pyramidal/elliptic cones, or a 'fit' scene (2-5 spinning/rolling/sliding bodies of one target condim on a "
  "plane), 3 worlds; after forward() and after one step() contact_force is requested for all pool contacts of all worlds in "
  "one call, ids shuffled with repeats, both to_world_frame values; then the same states are evaluated again on a Data with "
  "exact-fit capacities (njmax = rows needed by the fullest world, naconmax = number of contacts). Non-trivial: >=2 "
  "contacts with non-zero decoded force; distinct by hash(xml, qpos)."
)
ASSUMPTIONS = [
  "mujoco.mj_contactForce (MuJoCo 3.13) on an MjData whose contact dim/friction/adhesion/efc_address and efc_force were "
  "filled by the harness from MJWarp's arrays is the reference decoder; the filling is cross-checked by a numpy decode",
  "float32 allowance 8*eps32*(sum|row forces|*(1+max friction)+|adhesion|): the decode is a handful of adds/multiplies",
  "contact ids >= nacon are not requested (behaviour for invalid ids is C17's subject)",
  "exact-fit pass: the capacities are the row/contact counts MJWarp itself reported with spare capacity; a pass in which "
  "any overflow bit is raised or no world is exactly full is not counted as exact-fit coverage",
]
BUDGET = {"quick": 300, "thorough": 1200}

CONDIMS = (1, 3, 4, 6)


def cases(tier, seed):
  out = []
  ngen = 60 if tier == "quick" else 1200
  npile = 16 if tier == "quick" else 300
  nfit = 64 if tier == "quick" else 960
  combos = [(c, s, j) for c in ("pyramidal", "elliptic") for s in ("Newton", "CG") for j in ("dense", "sparse")]
  for i in range(ngen):
    out.append({"id": f"gen{seed}_{i}", "kind": "gen", "seed": seed * 100000 + i, "settle": (0, 20)[i % 2], "exact_geoms": 0, "fit": int(i % 3 == 0)})
  for i in range(npile):
    c, s, j = combos[i % 8]
    out.append({"id": f"pile{seed}_{i}", "kind": "pile", "seed": seed * 100000 + 50000 + i, "n": (3, 4, 5, 8)[(i // 8) % 4], "cone": c, "solver": s, "jac": j, "settle": (60, 0)[i % 2], "exact_geoms": 0, "weight": 2, "fit": int(i % 4 == 1)})
  for r in range(4 if tier == "quick" else 24):
    c, s, j = combos[r % 8]
    out.append({"id": f"repo{seed}_{r}", "kind": "repo", "path": ("collision.xml", "humanoid/humanoid.xml")[r % 2], "seed": seed * 100000 + 90000 + r, "cone": c, "solver": s, "jac": j, "settle": 20, "exact_geoms": 0, "weight": 2, "fit": 0})
  for i in range(nfit):
    c, s, j = combos[i % 8]
    out.append({"id": f"fit{seed}_{i}", "kind": "fit", "seed": seed * 100000 + 70000 + i, "cone": c, "solver": s, "jac": j, "condim": CONDIMS[(i // 8) % 4], "n": (2, 3, 5, 4)[(i // 32) % 4], "mixed": int((i // 2) % 4 == 3), "settle": (0, 0, 2, 0)[i % 4], "fit": 1})
  return out


def numpy_decode(cone_elliptic, dim, fr, forces, adhesion):
  out = np.zeros(6)
  if cone_elliptic or dim == 1:
    out[:dim] = forces[:dim]
  else:
    for i in range(dim - 1):
      out[0] += forces[2 * i] + forces[2 * i + 1]
      out[i + 1] = (forces[2 * i] - forces[2 * i + 1]) * fr[i]
  out[0] -= adhesion
  return out


# ------------------------------------------------------------------------------------------------ 'fit' scenes


def fit_scene(case, rng):
  """Bodies of one target condim resting on / pressed into a plane (some also touching their neighbour), with linear
  and angular velocities so that sliding, torsional and rolling rows all carry force. Returns the MJCF text."""
  n = case["n"]
  tgt = case["condim"]
  bodies = ""
  x = 0.0
  for i in range(n):
    kind = ("sphere", "capsule", "ellipsoid", "box", "cylinder")[int(rng.integers(5))]
    cd = tgt if not case["mixed"] or i == 0 else int(rng.choice(CONDIMS))
    r = float(rng.uniform(0.07, 0.12))
    pen = float(rng.uniform(0.001, 0.01))
    if kind == "sphere":
      size, hz = f"{r:.4g}", r
    elif kind == "capsule":
      h = float(rng.uniform(0.03, 0.1))
      size, hz = f"{r:.4g} {h:.4g}", r + h
    elif kind == "cylinder":
      h = float(rng.uniform(0.05, 0.1))
      size, hz = f"{r:.4g} {h:.4g}", h
    elif kind == "ellipsoid":
      rz = float(rng.uniform(0.06, 0.1))
      size, hz = f"{r:.4g} {float(rng.uniform(0.07, 0.12)):.4g} {rz:.4g}", rz
    else:
      hz = float(rng.uniform(0.05, 0.1))
      size = f"{r:.4g} {float(rng.uniform(0.07, 0.12)):.4g} {hz:.4g}"
    fr = f"{rng.uniform(0.3, 1.2):.3g} {rng.uniform(0.005, 0.05):.3g} {rng.uniform(0.002, 0.02):.3g}"
    extra = ""
    if rng.random() < 0.2:
      extra += f' solimp="{rng.uniform(0.8, 0.95):.3g} 0.99 0.001"'
    bodies += (
      f'<body pos="{x:.4g} {rng.uniform(-0.03, 0.03):.3g} {hz - pen:.5g}"><freejoint/>'
      f'<geom type="{kind}" size="{size}" condim="{cd}" friction="{fr}" mass="{rng.uniform(0.3, 3):.3g}"{extra}/></body>'
    )
    # spacing: sometimes close enough that neighbours touch as well (body-body contact, condim = max of the two)
    x += float(rng.uniform(0.15, 0.23)) if rng.random() < 0.4 else float(rng.uniform(0.3, 0.45))
  pfr = f"{rng.uniform(0.3, 1.2):.3g} {rng.uniform(0.005, 0.05):.3g} {rng.uniform(0.002, 0.02):.3g}"
  imp = ' impratio="{:.3g}"'.format(rng.uniform(1, 5)) if rng.random() < 0.3 else ""
  # margin only on the plane (plane pairs are primitive; put_model rejects a margin on convex-convex pairs)
  pmargin = f' margin="{rng.uniform(0.0, 0.02):.3g}"' if rng.random() < 0.4 else ""
  xml = (
    f'<mujoco><option cone="{case["cone"]}" solver="{case["solver"]}" jacobian="{case["jac"]}"{imp}/>'
    f'<worldbody><geom type="plane" size="5 5 .01" condim="1" friction="{pfr}"{pmargin}/>{bodies}</worldbody></mujoco>'
  )
  return xml


def fit_states(mjm, case, rng, nworld):
  """World 0: every body in contact; other worlds: random subsets lifted clear of the plane (fewer rows than world 0,
  so exactly-full and partly-filled worlds share one Data)."""
  states = []
  nb = mjm.nbody - 1
  for w in range(nworld):
    st = gen.sample_state(mjm, rng, vel=0.0, quat_scale=False)
    qpos = np.array(mjm.qpos0, dtype=np.float64)
    qvel = np.zeros(mjm.nv)
    for b in range(nb):
      qvel[6 * b : 6 * b + 3] = rng.normal(size=3) * (0.5, 0.5, 0.1)
      qvel[6 * b + 3 : 6 * b + 6] = rng.normal(size=3) * 4.0
      if rng.random() < 0.3:
        qvel[6 * b : 6 * b + 6] = 0.0  # a resting body: all pyramid edges share the load
      if w and rng.random() < 0.35:
        qpos[7 * b + 2] += 0.5
    st["qpos"] = qpos.astype(np.float32)
    st["qvel"] = qvel.astype(np.float32)
    states.append(S.settle(mjm, st, case["settle"]))
  return states


# ------------------------------------------------------------------------------------------------ evaluation


def evaluate(rec, mjw, wp, mjm, m, d, rng, fit):
  """One oracle evaluation on the current Data; returns the number of non-zero decoded contacts, None when skipped."""
  ell = mjm.opt.cone == mujoco.mjtCone.mjCONE_ELLIPTIC
  cone = "elliptic" if ell else "pyramidal"
  nworld = d.nworld
  nacon = int(mw.npy(d.nacon)[0])
  nefc_all = mw.npy(d.nefc)
  if nacon > d.naconmax or np.any(nefc_all > d.njmax) or nacon == 0 or not np.all(np.isfinite(mw.npy(d.qacc))) or np.any(mw.overflow(d) & (E.OVF_NEFC | E.OVF_NNZ | E.OVF_CONTACT)):
    rec.count("fit:evaluations_skipped(capacity/no contacts/diverged)" if fit else "evaluations_skipped(capacity/no contacts/diverged)")
    return None
  cw = mw.contacts(d, None)
  wid = cw["worldid"]
  force_all = np.asarray(mw.npy(d.efc.force), dtype=np.float64)
  adh = np.asarray(mw.npy(d.contact.adhesion), dtype=np.float64)[:nacon]
  # ---- reference: mj_contactForce on hand-filled MjData, world by world
  ref = np.zeros((nacon, 6))
  mag = np.zeros(nacon)
  active = np.zeros(nacon, dtype=bool)
  at_cap = np.zeros(nacon, dtype=bool)  # contact whose last row is row njmax-1
  at_cap_nz = np.zeros(nacon, dtype=bool)
  bad_world = set()
  for w in range(nworld):
    sel = np.nonzero(wid == w)[0]
    if not len(sel):
      continue
    blocks, fvec = [], []
    for c in sel:
      dim = int(cw["dim"][c])
      nd = dim if (ell or dim == 1) else 2 * (dim - 1)
      a = cw["efc_address"][c][:nd]
      if a[0] < 0:
        blocks.append(-1)
        continue
      if np.any(a < 0) or np.any(a >= nefc_all[w]):
        bad_world.add(w)  # partially addressed contact: C05 reports that; not decodable
        blocks.append(-1)
        continue
      blocks.append(len(fvec))
      fvec.extend(force_all[w][a].tolist())
      active[c] = True
      mag[c] = float(np.abs(force_all[w][a]).sum()) * (1.0 + float(np.max(cw["friction"][c]))) + abs(adh[c])
      if int(np.max(a)) == d.njmax - 1:
        at_cap[c] = True
        at_cap_nz[c] = force_all[w][d.njmax - 1] != 0
    md = mujoco.MjData(mjm)
    mujoco._functions._realloc_con_efc(md, ncon=len(sel), nefc=max(1, len(fvec)), nJ=max(1, len(fvec)) * mjm.nv)
    md.ncon = len(sel)
    md.efc_force[: len(fvec)] = np.array(fvec)
    for i, c in enumerate(sel):
      md.contact.dim[i] = int(cw["dim"][c])
      md.contact.friction[i] = np.asarray(cw["friction"][c], dtype=np.float64)
      md.contact.frame[i] = np.asarray(cw["frame"][c], dtype=np.float64).reshape(9)
      md.contact.adhesion[i] = adh[c]
      md.contact.efc_address[i] = blocks[i]
      md.contact.geom[i] = cw["geom"][c]
    for i, c in enumerate(sel):
      out = np.zeros(6)
      mujoco.mj_contactForce(mjm, md, i, out)
      ref[c] = out
      if blocks[i] >= 0:
        dim = int(cw["dim"][c])
        nd = dim if (ell or dim == 1) else 2 * (dim - 1)
        mine = numpy_decode(ell, dim, np.asarray(cw["friction"][c], dtype=np.float64), np.array(fvec[blocks[i] : blocks[i] + nd]), adh[c])
        rec.check()
        if np.abs(mine - out).max() > 1e-9 * max(1.0, mag[c]):
          rec.inconcl("reference self-check failed: numpy decode != mj_contactForce on the filled MjData")
          rec.count("ORACLE_SELFTEST_FAILED")
          bad_world.add(w)
  # ---- observed: one call for all worlds, shuffled ids with repeats
  ids = np.concatenate([np.arange(nacon), rng.integers(0, nacon, size=max(2, nacon // 3))]).astype(np.int32)
  rng.shuffle(ids)
  got = {}
  for flag in (False, True):
    out = wp.zeros(len(ids), dtype=wp.spatial_vector)
    mjw.contact_force(m, d, wp.array(ids, dtype=int), flag, out)
    got[flag] = out.numpy().astype(np.float64)
  frames = np.asarray(cw["frame"], dtype=np.float64).reshape(-1, 3, 3)
  worst_l, worst_w = 0.0, 0.0
  nonzero = 0
  for j, c in enumerate(ids):
    if int(wid[c]) in bad_world:
      continue
    bound = 8 * E.EPS32 * mag[c] + 1e-12
    loc = got[False][j]
    rec.check()
    err = float(np.abs(loc - ref[c]).max())
    worst_l = max(worst_l, err / bound)
    dim = int(cw["dim"][c])
    where = ":contact-row-at-njmax-1" if at_cap[c] else (":last-slot-naconmax-1" if (fit and c == d.naconmax - 1) else "")
    if not np.all(np.isfinite(loc)):
      rec.viol("contact_force:nonfinite" + where, f"contact_force returned non-finite values for contact {c} (world {wid[c]}, condim {dim}, {cone})")
    elif err > 30 * bound:
      comp = int(np.argmax(np.abs(loc - ref[c])))
      rec.viol(
        f"contact_force!=mj_contactForce:{cone}:condim{dim}:component{comp}{where}",
        f"contact {c} (world {wid[c]}, condim {dim}, {cone}, adhesion {adh[c]:.3g}, active {bool(active[c])}, njmax {d.njmax}, nefc {int(nefc_all[wid[c]])}, "
        f"naconmax {d.naconmax}, rows {cw['efc_address'][c][: max(1, dim if ell else 2 * (dim - 1))].tolist()}): contact_force={loc.tolist()} mj_contactForce={ref[c].tolist()}",
        friction=np.asarray(cw["friction"][c]),
      )
    elif err > bound:
      rec.inconcl("contact_force vs mj_contactForce in grey zone")
    # world frame = frame^T applied to force and torque
    wv = got[True][j]
    want = np.concatenate([frames[c].T @ loc[:3], frames[c].T @ loc[3:]])
    errw = float(np.abs(wv - want).max())
    wb = 8 * E.EPS32 * float(np.abs(loc).sum()) + 1e-12
    worst_w = max(worst_w, errw / wb)
    rec.check()
    if errw > 30 * wb:
      rec.viol(f"contact_force:to_world_frame:{cone}" + where, f"contact {c}: world-frame output {wv.tolist()} != frame^T local {want.tolist()}")
    if active[c]:
      rec.cover(f"decoded:{cone}:condim{dim}", 1)
      if np.any(ref[c] != 0):
        rec.cover(f"decoded_nonzero:{cone}:condim{dim}", 1)
        nonzero += 1
      if adh[c] != 0:
        rec.cover("decoded_with_adhesion", 1)
      if dim > 1 and np.any(ref[c][1:dim] != 0):
        rec.cover(f"decoded_tangential_nonzero:{cone}", 1)
      if dim > 3 and np.any(ref[c][3:dim] != 0):
        rec.cover(f"decoded_torsion_rolling_nonzero:{cone}", 1)
      if fit and at_cap[c]:
        rec.cover(f"fit:contact_row_at_njmax-1:{cone}:condim{dim}", 1)
        if at_cap_nz[c]:
          rec.cover(f"fit:contact_row_at_njmax-1_nonzero_force:{cone}:condim{dim}", 1)
          if adh[c] != 0:
            rec.cover("fit:contact_row_at_njmax-1_with_adhesion", 1)
      if fit and c == d.naconmax - 1:
        rec.cover("fit:decoded_contact_in_last_slot(naconmax-1)", 1)
    else:
      rec.cover("requested_inactive_contacts", 1)
  rec.worst("contact_force_local", worst_l)
  rec.worst("contact_force_world", worst_w)
  rec.cover("calls", 2)
  rec.cover("ids_requested", int(len(ids)))
  rec.cover("calls_mixing_worlds", int(len(set(wid[ids].tolist())) > 1))
  if fit:
    full = int(np.sum(nefc_all == d.njmax))
    rec.cover("fit:evaluations", 1)
    rec.cover("fit:worlds_exactly_full(nefc==njmax)", full)
    rec.cover("fit:worlds_partly_filled", int(nworld - full))
    rec.cover("fit:evaluations_nacon==naconmax", int(nacon == d.naconmax))
    rec.cover("fit:evaluations_mixing_full_and_partly_filled_worlds", int(0 < full < nworld))
  return nonzero


def run_case(case):
  import warp as wp

  import mujoco_warp as mjw

  rec = core.Rec(case)
  rng = np.random.default_rng(case["seed"] + 23)
  if case["kind"] == "gen":
    xml, mjm, feat, _ = gen.make_model(case["seed"], C24.PROFILE)
    feat = feat or []
  elif case["kind"] == "fit":
    xml = fit_scene(case, rng)
    mjm, feat = gen.compile_xml(xml), ["scene:fit"]
  else:
    xml, mjm, feat = C06.build(case, rng)
  if mjm is None:
    rec.rejected = "mujoco compile"
    return rec.result()
  try:
    m = mw.put_model(mjm)
  except (NotImplementedError, ValueError) as e:
    rec.rejected = f"put_model: {e}"[:200]
    rec.count("rejected_put_model")
    return rec.result()
  cone = "elliptic" if mjm.opt.cone == mujoco.mjtCone.mjCONE_ELLIPTIC else "pyramidal"
  nworld = 3
  if case["kind"] == "fit":
    states = fit_states(mjm, case, rng, nworld)
  else:
    states = []
    for w in range(nworld):
      st = gen.sample_state(mjm, rng, vel=float(rng.choice([0.0, 0.5])), quat_scale=False)
      if case["kind"] in ("pile", "repo") and w < 2:
        st["qpos"] = (np.array(mjm.qpos0) + (rng.normal(size=mjm.nq) * 0.01 if w else 0)).astype(np.float32)
        st["qvel"] = (st["qvel"] * 0.1).astype(np.float32)
      states.append(S.settle(mjm, st, case["settle"]))
  need, ncon = 0, 0
  try:
    for st in states:
      mjd = mujoco.MjData(mjm)
      mw.apply_state_mj(mjm, mjd, st)
      mujoco.mj_forward(mjm, mjd)
      need, ncon = max(need, int(mjd.nefc)), max(ncon, int(mjd.ncon))
  except mujoco.FatalError:
    rec.rejected = "mujoco fatal error on this state"
    return rec.result()
  njmax = next((c for c in C06.NJMAX if c >= 2 * need + 16), None)
  if njmax is None or ncon == 0:
    rec.rejected = f"scene needs {need} rows / has {ncon} contacts"
    rec.count("rejected_rows_or_no_contacts")
    return rec.result()
  d = mw.make_data(mjm, m, states, njmax=njmax, nconmax=max(64, 3 * ncon + 16))
  nonzero_total = 0
  fitcap = None
  for k in range(2):
    if k == 0:
      mjw.forward(m, d)
      if not np.any(mw.overflow(d)):
        fitcap = (int(mw.npy(d.nefc).max()), int(mw.npy(d.nacon)[0]))
    else:
      mjw.step(m, d)
    nonzero_total += evaluate(rec, mjw, wp, mjm, m, d, rng, False) or 0
  # ---- exact-fit capacities: the same states on a Data that has exactly the rows / contact slots MJWarp needed
  if case.get("fit") and fitcap is not None and fitcap[0] > 0 and fitcap[1] > 0:
    m2, mjm2 = m, mjm
    if mjm.opt.solver == mujoco.mjtSolver.mjSOL_NEWTON and not mujoco.mj_isSparse(mjm):
      # the dense Newton Hessian kernel is compiled per njmax value; decoding does not depend on the solver, so the
      # exact-fit pass uses the sparse Jacobian there (keeps the set of compiled kernels small)
      mjm2 = copy.copy(mjm)
      mjm2.opt.jacobian = mujoco.mjtJacobian.mjJAC_SPARSE
      m2 = mw.put_model(mjm2)
    # naconmax also bounds the broadphase candidate list, so naconmax == nacon can legitimately overflow when there are
    # more candidate pairs than contacts: then the contact pool keeps its spare slots and only njmax is exact
    for attempt, caps in enumerate(({"naconmax": fitcap[1]}, {"nconmax": max(64, 3 * ncon + 16)})):
      d2 = None
      try:
        d2 = mw.make_data(mjm2, m2, states, njmax=fitcap[0], **caps)
      except ValueError as e:
        rec.count("fit:make_data_rejected")
        rec.inconcl(f"make_data rejected exact-fit capacities: {e}"[:160])
        break
      judged = False
      for k in range(2):
        if k == 0:
          mjw.forward(m2, d2)
        else:
          mjw.step(m2, d2)
        nz = evaluate(rec, mjw, wp, mjm, m2, d2, rng, True)
        if k == 0 and nz is None:
          rec.count(("fit:exact_naconmax_overflowed(candidate pairs > contacts)->retry_with_spare_contact_slots", "fit:first_forward_not_judged_with_exact_njmax")[attempt])
          break
        judged = True
        nonzero_total += nz or 0
      if judged:
        break
  for f in feat:
    rec.cover("features", f)
  if nonzero_total >= 2:
    rec.nontrivial(xml, *[s["qpos"] for s in states])
  rec.sample = {"kind": case["kind"], "model": case.get("path", f"seed {case['seed']}"), "nv": mjm.nv, "cone": cone, "nacon": int(mw.npy(d.nacon)[0]), "nonzero_decoded": nonzero_total, "fitcap": fitcap if case.get("fit") else None}
  return rec.result()


def requirements(agg, tier):
  unmet = []
  cov = agg["cover"]
  big = tier != "quick"
  for cone in ("pyramidal", "elliptic"):
    for dim in (1, 3, 4, 6):
      if cov.get(f"decoded_nonzero:{cone}:condim{dim}", 0) < (100 if big else 10):
        unmet.append(f"fewer than 10 non-zero decoded contacts for {cone} condim {dim}: {cov.get(f'decoded_nonzero:{cone}:condim{dim}', 0)}")
      k = f"fit:contact_row_at_njmax-1_nonzero_force:{cone}:condim{dim}"
      if cov.get(k, 0) < (20 if big else 3):
        unmet.append(f"exact-fit capacity: fewer than {20 if big else 3} contacts whose last row is row njmax-1 with non-zero force for {cone} condim {dim}: {cov.get(k, 0)}")
    if cov.get(f"decoded_torsion_rolling_nonzero:{cone}", 0) < 10:
      unmet.append(f"fewer than 10 contacts with non-zero torsional/rolling components under {cone}")
  for k, v in {
    "decoded_with_adhesion": 20,
    "calls_mixing_worlds": 10,
    "fit:worlds_exactly_full(nefc==njmax)": 30,
    "fit:evaluations_nacon==naconmax": 30,
    "fit:decoded_contact_in_last_slot(naconmax-1)": 20,
    "fit:evaluations_mixing_full_and_partly_filled_worlds": 5,
  }.items():
    if cov.get(k, 0) < v:
      unmet.append(f"{k}: {cov.get(k, 0)} < {v}")
  if agg["tally"].get("ORACLE_SELFTEST_FAILED", 0):
    unmet.append("reference self-check failed in some case")
  if agg["distinct"] < 30:
    unmet.append("fewer than 30 distinct non-trivial cases")
  return unmet
