"""Shared helpers of the state / reset / conversion monitors (C13, C14, C15, C30, C31).

Model construction: a generated model (mon.gen) gets extra MJCF sections appended (MJCF merges repeated top-level
sections): actuators whose activation dimension exceeds 1 (dyntype=user actdim>1, so na>nu), delayed actuators and
sensors, keyframes.  Nothing here looks at mujoco_warp internals.
"""

import mujoco
import numpy as np

from mon import gen, mw

HINGE = int(mujoco.mjtJoint.mjJNT_HINGE)
SLIDE = int(mujoco.mjtJoint.mjJNT_SLIDE)


def _f(x):
  return " ".join(f"{float(v):.9g}" for v in np.atleast_1d(x))


def names(mjm, objtype, n):
  return [mujoco.mj_id2name(mjm, objtype, i) for i in range(n)]


def scalar_joints(mjm):
  out = []
  for j in range(mjm.njnt):
    if int(mjm.jnt_type[j]) in (HINGE, SLIDE):
      nm = mujoco.mj_id2name(mjm, mujoco.mjtObj.mjOBJ_JOINT, j)
      if nm:
        out.append(nm)
  return out


def mocap_bodies(mjm):
  return [mujoco.mj_id2name(mjm, mujoco.mjtObj.mjOBJ_BODY, b) for b in range(mjm.nbody) if mjm.body_mocapid[b] >= 0]


def add_sections(xml, sections):
  body = "\n".join(s for s in sections if s)
  i = xml.rindex("</mujoco>")
  return xml[:i] + body + "\n</mujoco>"


DELAY_MULT = (1.0, 2.0, 3.0, 1.5, 2.25, 0.75, 4.0)
INTERP = ("zoh", "linear", "cubic")


def extra_sections(mjm, rng, user_act=0, delay_act=0, delay_sens=0, plain_motor=0, tag="x"):
  """MJCF text for extra actuators / sensors on the scalar joints of an already compiled model."""
  sj = scalar_joints(mjm)
  h = float(mjm.opt.timestep)
  feats = []
  act, sens = [], []
  if sj:
    for i in range(user_act):
      j = sj[rng.integers(len(sj))]
      dim = int(rng.integers(2, 4))
      act.append(f'<general name="{tag}u{i}" joint="{j}" dyntype="user" actdim="{dim}" gainprm="{_f(rng.uniform(0.5, 3))}" biastype="none"/>')
      feats.append("na>nu:user_actdim")
    for i in range(plain_motor):
      j = sj[rng.integers(len(sj))]
      act.append(f'<motor name="{tag}m{i}" joint="{j}" gear="{_f(rng.uniform(0.5, 2))}"/>')
    for i in range(delay_act):
      j = sj[rng.integers(len(sj))]
      ns = int(rng.integers(1, 7))
      dl = DELAY_MULT[rng.integers(len(DELAY_MULT))] * h
      ip = INTERP[rng.integers(3)]
      kind = rng.integers(3)
      if kind == 0:
        act.append(f'<motor name="{tag}d{i}" joint="{j}" delay="{_f(dl)}" nsample="{ns}" interp="{ip}"/>')
      elif kind == 1:
        act.append(
          f'<general name="{tag}d{i}" joint="{j}" dyntype="filter" dynprm="{_f(rng.uniform(0.02, 0.2))}" gainprm="{_f(rng.uniform(0.5, 3))}" '
          f'biastype="none" delay="{_f(dl)}" nsample="{ns}" interp="{ip}"/>'
        )
      else:
        act.append(f'<position name="{tag}d{i}" joint="{j}" kp="{_f(rng.uniform(1, 20))}" delay="{_f(dl)}" nsample="{ns}" interp="{ip}"/>')
      feats.append("act_delay")
    for i in range(delay_sens):
      j = sj[rng.integers(len(sj))]
      ns = int(rng.integers(1, 6))
      dl = DELAY_MULT[rng.integers(len(DELAY_MULT))] * h
      ip = INTERP[rng.integers(3)]
      k = rng.integers(4)
      if k == 0:
        sens.append(f'<jointpos name="{tag}s{i}" joint="{j}" delay="{_f(dl)}" nsample="{ns}" interp="{ip}"/>')
        feats.append("sensor_delay")
      elif k == 1:
        sens.append(f'<jointvel name="{tag}s{i}" joint="{j}" delay="{_f(dl)}" nsample="{ns}" interp="{ip}"/>')
        feats.append("sensor_delay")
      elif k == 2:
        sens.append(f'<jointpos name="{tag}s{i}" joint="{j}" interval="{_f(rng.choice([2.0, 3.0, 2.5]) * h)} 0" nsample="{ns}"/>')
        feats.append("sensor_interval")
      else:
        sens.append(f'<clock name="{tag}s{i}" delay="{_f(dl)}" interval="{_f(2 * h)} {_f(-rng.integers(0, 2) * h)}" nsample="{max(ns, 2)}" interp="{ip}"/>')
        feats.append("sensor_delay+interval")
  out = []
  if act:
    out.append("  <actuator>\n    " + "\n    ".join(act) + "\n  </actuator>")
  if sens:
    out.append("  <sensor>\n    " + "\n    ".join(sens) + "\n  </sensor>")
  return out, feats


def keyframe_section(mjm, rng, nkey):
  """<keyframe> section with nkey random keyframes for an already compiled model (sizes taken from it)."""
  lines = []
  for k in range(nkey):
    st = gen.sample_state(mjm, rng, vel=1.0, quat_scale=False, applied=False)
    a = [f'name="k{k}"', f'time="{_f(rng.choice([0.0, 0.5, 1.25, 3.0]))}"']
    # a keyframe may leave components at their defaults
    if rng.random() < 0.85:
      a.append(f'qpos="{_f(st["qpos"])}"')
    if rng.random() < 0.85 and mjm.nv:
      a.append(f'qvel="{_f(st["qvel"])}"')
    if mjm.na and rng.random() < 0.85:
      a.append(f'act="{_f(st["act"])}"')
    if mjm.nu and rng.random() < 0.85:
      a.append(f'ctrl="{_f(st["ctrl"])}"')
    if mjm.nmocap and rng.random() < 0.85:
      a.append(f'mpos="{_f(st["mocap_pos"].reshape(-1))}"')
      a.append(f'mquat="{_f(st["mocap_quat"].reshape(-1))}"')
    lines.append("    <key " + " ".join(a) + "/>")
  return "  <keyframe>\n" + "\n".join(lines) + "\n  </keyframe>"


def build(seed, P, user_act=0, delay_act=0, delay_sens=0, plain_motor=0, nkey=0, accept=None, mutate_xml=None):
  """Generated model + extras.  Returns (xml, mjm, feats) or (None, None, None) if MuJoCo refuses it."""
  xml, mjm, feat, s = gen.make_model(seed, P, accept=accept)
  if mjm is None:
    return None, None, None
  feat = list(feat)
  rng = np.random.default_rng(seed * 7919 + 13)
  if mutate_xml is not None:
    xml = mutate_xml(xml)
  if user_act or delay_act or delay_sens or plain_motor:
    sec, f2 = extra_sections(mjm, rng, user_act, delay_act, delay_sens, plain_motor)
    if sec:
      xml2 = add_sections(xml, sec)
      mjm2 = gen.compile_xml(xml2)
      if mjm2 is not None:
        xml, mjm = xml2, mjm2
        feat += f2
  elif mutate_xml is not None:
    mjm = gen.compile_xml(xml)
    if mjm is None:
      return None, None, None
  if nkey:
    xml2 = add_sections(xml, [keyframe_section(mjm, rng, nkey)])
    mjm2 = gen.compile_xml(xml2)
    if mjm2 is None:
      return None, None, None
    xml, mjm = xml2, mjm2
    feat.append("keyframes")
  if mjm.na > mjm.nu:
    feat.append("na>nu")
  if mjm.nhistory:
    feat.append("history")
  return xml, mjm, sorted(set(feat))


# ------------------------------------------------------------------------------------ inputs / stepping


def sample_inputs(mjm, rng, nworld):
  """Per-step user inputs for every world (float32): ctrl, mocap poses."""
  out = []
  for _ in range(nworld):
    d = {"ctrl": (rng.normal(size=mjm.nu) * 1.0).astype(np.float32)}
    if mjm.nmocap:
      st = gen.sample_state(mjm, rng, quat_scale=False)
      d["mocap_pos"] = st["mocap_pos"]
      d["mocap_quat"] = st["mocap_quat"]
    out.append(d)
  return out


def apply_inputs(d, inputs):
  import warp as wp

  for k in ("ctrl", "mocap_pos", "mocap_quat"):
    if k in inputs[0]:
      arr = np.stack([np.asarray(i[k], dtype=np.float32) for i in inputs])
      if arr.size:
        dst = getattr(d, k)
        wp.copy(dst, wp.array(arr, dtype=dst.dtype))


def set_field(d, name, arr):
  """Overwrites a whole Data array from numpy."""
  import warp as wp

  dst = getattr(d, name)
  wp.copy(dst, wp.array(np.ascontiguousarray(arr), dtype=dst.dtype, shape=dst.shape))


def mj_initial_history(mjm):
  mjd = mujoco.MjData(mjm)
  mujoco.mj_resetData(mjm, mjd)
  return np.array(mjd.history, dtype=np.float64)


def world_contacts(d, w):
  """Canonically ordered contact record of world w as the public arrays report it."""
  c = mw.sorted_contacts(mw.contacts(d, w))
  return c


CONTACT_CMP = ("dist", "pos", "frame", "includemargin", "friction", "solref", "solimp", "dim", "geom")


def contacts_equal(a, b):
  """Exact multiset comparison of two contact records (same engine, should be bit-equal)."""
  if len(a["dist"]) != len(b["dist"]):
    return False, f"count {len(a['dist'])} vs {len(b['dist'])}"
  for k in CONTACT_CMP:
    if a[k].tobytes() != b[k].tobytes():
      return False, f"contact.{k} differs"
  return True, ""


def clone_into(dst, src):
  """Copies every array of Data `src` (incl. efc and contact) into the equally shaped Data `dst`."""
  import dataclasses

  import warp as wp

  def cp(a, b):
    for f in dataclasses.fields(type(a)):
      va, vb = getattr(a, f.name), getattr(b, f.name)
      if isinstance(va, wp.array) and isinstance(vb, wp.array):
        if va.shape == vb.shape and va.size:
          wp.copy(va, vb)
      elif dataclasses.is_dataclass(va) and dataclasses.is_dataclass(vb) and not isinstance(va, type):
        cp(va, vb)

  cp(dst, src)
  return dst


def max_rel_diff(a, b, names, w):
  """max over float fields of |a-b|/max(1,|a|,|b|) for world w; inf if an integer field differs."""
  worst = 0.0
  for k in names:
    x, y = np.asarray(a[k][w]), np.asarray(b[k][w])
    if x.tobytes() == y.tobytes():
      continue
    if x.dtype.kind in "iub":
      return float("inf")
    x64, y64 = x.astype(np.float64), y.astype(np.float64)
    if not (np.all(np.isfinite(x64)) and np.all(np.isfinite(y64))):
      return float("inf")
    scale = max(1.0, float(np.abs(x64).max()), float(np.abs(y64).max()))
    worst = max(worst, float(np.abs(x64 - y64).max()) / scale)
  return worst
