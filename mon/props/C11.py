"""C11 Results are independent of parallel thread order.

Schedule-exploration monitor: every kernel launch of mjw.step (and forward / collision entry points) is
executed with its tasks in identity, reverse, rotated and keyed pseudo-random order by the launch-order
permuter (mon/sched.py, Warp CPU device); each permuted step starts from the identity run's integration
state (lock-step with resynchronisation) and its outputs are compared with the identity schedule's:
per-world observables by the first-divergence thresholds, contacts and constraint rows as multisets.
"""

import numpy as np

from mon import core, meta, mw, scenes

ID = "C11"
LEVEL = "exploration"
TECHNIQUE = "runtime monitoring: launch-order permutation (schedule fuzzing of whole-task serial orders) with metamorphic comparison"
RULE = (
  "case=(scene, nworld, schedule set): repository or generated contact/constraint scene, 2-5 worlds in MuJoCo-settled random "
  "states, T lock-step steps under identity order and under reverse / rotate / K keyed-random per-launch permutations. "
  "Non-trivial: >=1 contact or constraint row present and >=20 launches with >=2 tasks were permuted; distinct by hash(scene, states)."
)
ASSUMPTIONS = [
  "Warp CPU device: a launch is a serial loop over tasks; all whole-task serial orders are explorable, finer GPU interleavings are not",
  "comparisons are gated on no overflow bit (incl. ITERATIONS / LS_ITERATIONS) in either execution, as the property states",
  "solver outputs may differ by reordered float32 sums: relative 1e-4 of field scale is round-off, >=1e-2 a violation",
]
BUDGET = {"quick": 220, "thorough": 2400}


def cases(tier, seed):
  out = []
  K = 2 if tier == "quick" else 8
  T = 3 if tier == "quick" else 6
  nrep = 1 if tier == "quick" else 6
  for r in range(nrep):
    for k, (p, opt) in enumerate(scenes.REPO):
      out.append({"id": f"repo{seed}_{k}_{r}", "mode": "perm", "scene": {"kind": "repo", "path": p, "opt": opt}, "seed": seed * 1000 + 50 * r + k, "K": K, "T": T, "nworld": 2 + (k + r) % 3, "weight": 3})
  n = 40 if tier == "quick" else 600
  for i in range(n):
    prof = ("full", "free", "joints")[i % 3]
    out.append({"id": f"gen{seed}_{i}", "mode": "perm", "scene": {"kind": "gen", "seed": seed * 100000 + i, "profile": prof}, "seed": seed * 100000 + i, "K": K, "T": T, "nworld": 2 + i % 4, "weight": 1})
  for i in range(2 if tier == "quick" else 20):
    out.append({"id": f"big{seed}_{i}", "mode": "perm", "scene": {"kind": "gen", "seed": seed * 100000 + 8000 + i, "profile": "bigtree"}, "seed": seed * 100000 + 8000 + i, "K": K, "T": 2, "nworld": 2, "weight": 4})
  # sleeping / islands scenes (wake kernels)
  sl = 6 if tier == "quick" else 60
  import mujoco

  for i in range(sl):
    out.append(
      {
        "id": f"sleep{seed}_{i}",
        "mode": "perm",
        "scene": {"kind": "gen", "seed": seed * 100000 + 5000 + i, "profile": "free", "override": {"solvers": ("Newton",)}, "opt": {"enable": int(mujoco.mjtEnableBit.mjENBL_SLEEP)}},
        "seed": seed * 100000 + 5000 + i,
        "K": K,
        "T": T + 2,
        "nworld": 3,
        "weight": 1,
      }
    )
  # concurrent waking of one sleeping cycle by several awake trees with different wake counters (free-running)
  for i in range(6 if tier == "quick" else 80):
    out.append({"id": f"wake{seed}_{i}", "mode": "perm", "kind": "wake", "seed": seed * 100000 + 6000 + i, "ncycle": 1 + i % 3, "K": K, "T": 48, "nworld": 32 if tier == "quick" else 64, "weight": 3})
  return out


def _run_steps(mjw, m, d, T, pre_states, sched_mode, key, sched):
  """Runs T steps; before step t the integration state is set to pre_states[t] (if given). Returns list of dict."""
  snaps = []
  for t in range(T):
    if pre_states is not None:
      meta.copy_state(d, pre_states[t])
    pre = meta.snap_state(d)
    d.overflow.zero_()
    sched.set_schedule(sched_mode, key * 7919 + t)
    mjw.step(m, d)
    sched.set_schedule(0)
    snaps.append({"pre": pre, "obs": meta.snap_obs(d), "d": None})
  return snaps


def _run_wake(case):
  """Free-running comparison of the discrete sleep state under task-order permutations (see _wake.py)."""
  import mujoco_warp as mjw

  from mon import sched
  from mon.props import _wake

  rec = core.Rec(case)
  rng = np.random.default_rng(case["seed"])
  xml, mjm, lay = _wake.build(rng, case["ncycle"])
  m = mw.put_model(mjm)
  nworld, T, K = case["nworld"], case["T"], case["K"]
  states = _wake.states(mjm, rng, nworld, lay)
  body_tree = np.array(mjm.body_treeid)
  geom_tree = body_tree[np.array(mjm.geom_bodyid)]

  def run(mode, key):
    d = mw.make_data(mjm, m, states)
    tr = []
    for t in range(T):
      pre_asleep = np.array(d.tree_asleep.numpy())
      sched.set_schedule(mode, (case["seed"] * 31 + key) * 64 + t)
      mjw.step(m, d)
      sched.set_schedule(0)
      e = {"asleep": np.array(d.tree_asleep.numpy()), "qpos": np.array(d.qpos.numpy()), "qvel": np.array(d.qvel.numpy()), "ovf": np.array(d.overflow.numpy())}
      if mode == 0:
        e["pre_asleep"] = pre_asleep
        e["con"] = [mw.contacts(d, w) for w in range(nworld)]
      tr.append(e)
    return tr

  sched.set_schedule(0)
  sched.reset_counters()
  sched.start_log()
  ref = run(0, 0)
  # what the identity execution went through: sleeping trees, wake events, and wake events in which one sleeping cycle
  # was touched in the same step by >=2 awake trees holding different counters (the order-sensitive situation)
  slept = woke = merges = 0
  for w in range(nworld):
    for t in range(T):
      pre, post = ref[t]["pre_asleep"][w], ref[t]["asleep"][w]
      slept += int(np.sum((pre < 0) & (post >= 0)))
      wk = np.nonzero((pre >= 0) & (post < 0))[0]
      woke += len(wk)
      if len(wk):
        g = np.asarray(ref[t]["con"][w]["geom"]).reshape(-1, 2)
        vals = set()
        for g1, g2 in g:
          t1, t2 = int(geom_tree[g1]), int(geom_tree[g2])
          for a, b in ((t1, t2), (t2, t1)):
            if a in wk and pre[b] < 0:
              vals.add(int(pre[b]))
        merges += int(len(vals) >= 2)
  rec.cover("wake:trees_fell_asleep", slept)
  rec.cover("wake:trees_woken", woke)
  rec.cover("wake:world_steps_with_concurrent_wakers_of_different_counter", merges)
  schedules = [(1, 0), (3, 5)] + [(2, 100 + k) for k in range(K)]
  for mode, key in schedules:
    got = run(mode, key)
    for w in range(nworld):
      for t in range(T):
        a, b = ref[t], got[t]
        if a["ovf"][w] or b["ovf"][w]:
          rec.count("wake_worlds_ungated_overflow")
          break
        rec.check()
        same_float = np.array_equal(a["qpos"][w], b["qpos"][w]) and np.array_equal(a["qvel"][w], b["qvel"][w])
        if not np.array_equal(a["asleep"][w], b["asleep"][w]):
          if same_float:
            # identical float state after this step (and identical everything before): the discrete sleep state had
            # identical inputs, so it may only differ through the order in which the wake/sleep tasks ran
            pre = ref[t]["pre_asleep"][w]
            diff = np.nonzero(a["asleep"][w] != b["asleep"][w])[0]
            # mechanism class by what the differing trees were before the step: a self-cycle (woken directly), a member of
            # a multi-tree sleep cycle (reached through the cycle walk of another member), or an awake tree
            kinds = {("awake-tree" if pre[x] < 0 else ("single-tree-cycle" if pre[x] == x else "multi-tree-cycle")) for x in diff}
            kind = "single-tree-cycle" if "single-tree-cycle" in kinds else ("awake-tree" if "awake-tree" in kinds else "multi-tree-cycle")
            rec.viol(
              "sleep:tree_asleep-depends-on-task-order:" + kind,
              f"tree_asleep after step {t} world {w}: identity order {a['asleep'][w].tolist()} vs schedule(mode={mode},key={key}) {b['asleep'][w].tolist()} "
              f"with bit-identical qpos/qvel (before the step: {ref[t]['pre_asleep'][w].tolist()}); ncycle={lay['ncycle']}",
            )
            rec.count("wake_world_divergent_sleep_state")
          else:
            rec.inconcl("sleep state and float state differ in the same step (threshold flip possible)")
            rec.count("wake_world_inconclusive")
          break
        if not same_float:
          err = max(float(np.abs(a["qpos"][w] - b["qpos"][w]).max()), float(np.abs(a["qvel"][w] - b["qvel"][w]).max()))
          if err > 1e-2:
            rec.viol("sleep:state-depends-on-task-order", f"qpos/qvel after step {t} world {w} differ by {err:.3g} under schedule(mode={mode},key={key}) with identical sleep state so far")
          else:
            rec.count("wake_world_roundoff_first")
          break
      else:
        rec.count("wake_worlds_bit_identical")
  log, names = sched.stop_log()
  ctr = sched.counters()
  rec.cover("launches", ctr["launches"])
  rec.cover("tasks", ctr["tasks"])
  rec.cover("launches_permuted_ge2", ctr["launches_permuted_ge2"])
  rec.cover("kernels_permuted", sorted(names))
  rec.cover("features", "scene:wake")
  if woke and ctr["launches_permuted_ge2"] >= 20:
    rec.nontrivial(xml, *[s["qpos"] for s in states])
  rec.sample = {"scene": "wake", "ncycle": lay["ncycle"], "nworld": nworld, "steps": T, "fell_asleep": slept, "woken": woke, "concurrent_wakers": merges}
  return rec.result()


def run_case(case):
  import mujoco_warp as mjw

  from mon import sched

  if case.get("kind") == "wake":
    return _run_wake(case)
  rec = core.Rec(case)
  rng = np.random.default_rng(case["seed"])
  label, mjm, feats = scenes.scene(case["scene"])
  if mjm is None:
    rec.rejected = "mujoco compile"
    return rec.result()
  try:
    m = mw.put_model(mjm)
  except (NotImplementedError, ValueError) as e:
    rec.rejected = f"put_model: {e}"[:200]
    return rec.result()
  nworld, T, K = case["nworld"], case["T"], case["K"]
  states = scenes.settle_states(mjm, rng, nworld)
  sched.set_schedule(0)

  def fresh():
    return mw.make_data(mjm, m, states)

  # identity run, keeping contacts/rows of every step
  d0 = fresh()
  ref = []
  for t in range(T):
    pre = meta.snap_state(d0)
    d0.overflow.zero_()
    mjw.step(m, d0)
    ref.append({"pre": pre, "obs": meta.snap_obs(d0), "con": [mw.contacts(d0, w) for w in range(nworld)], "rows": [mw.efc_rows(mjm, m, d0, w) for w in range(nworld)]})
  ncon = sum(len(c["dist"]) for s in ref for c in s["con"])
  nrow = sum(r["nefc"] for s in ref for r in s["rows"])
  schedules = [(1, 0), (3, 5)] + [(2, 100 + k) for k in range(K)]
  # conditioning probe: the identity schedule again, from pre-states whose qpos / qvel are perturbed by 1-2 float32 ulps.
  # amp[t][w] = largest relative change of the solver outputs; a reordered sum is a perturbation of that size of an
  # intermediate, so a schedule difference below 30 x amp is what an ill-conditioned (nearly flat) solve does to round-off
  # (measured: generated scene, 2 % in qacc between schedules with no overflow bit in that world, amp 1 %)
  prng = np.random.default_rng(case["seed"] + 77)
  dp = fresh()
  amp = np.zeros((T, nworld))
  for t in range(T):
    pre = {k: np.array(v) for k, v in ref[t]["pre"].items()}
    for k in ("qpos", "qvel"):
      if k in pre and pre[k].size:
        x = pre[k].astype(np.float32)
        up = np.nextafter(x, np.float32(np.inf), dtype=np.float32)
        dn = np.nextafter(x, np.float32(-np.inf), dtype=np.float32)
        pre[k] = np.where(prng.random(x.shape) < 0.5, up, dn).astype(np.float32)
    meta.copy_state(dp, pre)
    dp.overflow.zero_()
    mjw.step(m, dp)
    po = meta.snap_obs(dp, fields=("qacc", "qfrc_constraint", "qvel"))
    for w in range(nworld):
      for k in ("qacc", "qfrc_constraint", "qvel"):
        a, b = np.asarray(ref[t]["obs"][k][w], dtype=np.float64), np.asarray(po[k][w], dtype=np.float64)
        if a.size and np.all(np.isfinite(a)) and np.all(np.isfinite(b)):
          amp[t, w] = max(amp[t, w], float(np.abs(a - b).max()) / max(1.0, float(np.abs(a).max())))
  rec.worst("info:conditioning_probe_amplification/1e-3", float(amp.max(initial=0)) / 1e-3)
  sched.reset_counters()
  sched.start_log()
  permuted_total = 0
  # RK4 evaluates forward() four times per step at states that depend on the previous stage's solver output:
  # round-off level schedule differences are amplified by contact-manifold changes between stages (measured:
  # generated RK4+CG scenes, identical forward() under every schedule, 1-3 % after the step; Euler / implicit
  # steps of the same scenes stay bit-close).  The step of an RK4 model is therefore only judged for gross
  # differences; the single-evaluation forward() below is judged strictly for every model.
  import mujoco as _mj

  rk4 = mjm.opt.integrator == _mj.mjtIntegrator.mjINT_RK4
  step_viol = 0.3 if rk4 else 1e-2
  d0f = fresh()
  d0f.overflow.zero_()
  mjw.forward(m, d0f)
  fref = {"obs": meta.snap_obs(d0f), "con": [mw.contacts(d0f, w) for w in range(nworld)], "rows": [mw.efc_rows(mjm, m, d0f, w) for w in range(nworld)]}
  # conditioning probe for the single forward evaluation (same idea as for the steps above)
  import warp as wp

  dpf = fresh()
  for k in ("qpos", "qvel"):
    x = np.array(getattr(dpf, k).numpy(), dtype=np.float32)
    if x.size:
      up, dn = np.nextafter(x, np.float32(np.inf), dtype=np.float32), np.nextafter(x, np.float32(-np.inf), dtype=np.float32)
      wp.copy(getattr(dpf, k), wp.array(np.where(prng.random(x.shape) < 0.5, up, dn).astype(np.float32), dtype=float))
  dpf.overflow.zero_()
  mjw.forward(m, dpf)
  pfo = meta.snap_obs(dpf, fields=("qacc", "qfrc_constraint", "qacc_smooth"))
  amp_f = np.zeros(nworld)
  for w in range(nworld):
    for k in ("qacc", "qfrc_constraint", "qacc_smooth"):
      a, b = np.asarray(fref["obs"][k][w], dtype=np.float64), np.asarray(pfo[k][w], dtype=np.float64)
      if a.size and np.all(np.isfinite(a)) and np.all(np.isfinite(b)):
        amp_f[w] = max(amp_f[w], float(np.abs(a - b).max()) / max(1.0, float(np.abs(a).max())))
      elif a.size:
        amp_f[w] = np.inf
  for mode, key in schedules[: 2 + min(K, 2)]:
    df = fresh()
    df.overflow.zero_()
    sched.set_schedule(mode, (case["seed"] * 17 + key) * 64 + 63)
    mjw.forward(m, df)
    sched.set_schedule(0)
    fobs = meta.snap_obs(df)
    for w in range(nworld):
      if fref["obs"]["overflow"][w] != 0 or fobs["overflow"][w] != 0:
        rec.count("forward_worlds_ungated_overflow")
        continue
      if meta.diverged(fref["obs"], w, fobs, w) or not np.isfinite(amp_f[w]):
        rec.count("forward_worlds_ungated_diverged")
        continue
      tvf = max(1e-2, 30.0 * float(amp_f[w]))
      if tvf > 1e-2:
        rec.count("forward_worlds_judged_with_widened_bound(ill-conditioned solve)")
      tag = f"forward() schedule(mode={mode},key={key}) world {w}"
      rec.count("forward_worlds_compared")
      rec.count("fobs_" + meta.compare_obs(rec, tag, fref["obs"], fobs, w, w, sig_prefix="forward:", tol_viol=tvf))
      rec.count("fcontacts_" + meta.compare_contacts(rec, tag, fref["con"][w], mw.contacts(df, w), sig_prefix="forward:", tol_viol=tvf))
      rec.count("frows_" + meta.compare_rows(rec, tag, fref["rows"][w], mw.efc_rows(mjm, m, df, w), sig_prefix="forward:", with_force=False, tol_viol=tvf))  # row forces are judged through qfrc_constraint (individual multipliers of redundant rows are poorly determined)
  for mode, key in schedules:
    d = fresh()
    for t in range(T):
      meta.copy_state(d, ref[t]["pre"])
      d.overflow.zero_()
      sched.set_schedule(mode, (case["seed"] * 31 + key) * 64 + t)
      mjw.step(m, d)
      sched.set_schedule(0)
      obs = meta.snap_obs(d)
      tag = f"schedule(mode={mode},key={key}) step {t}"
      for w in range(nworld):
        if ref[t]["obs"]["overflow"][w] != 0 or obs["overflow"][w] != 0:
          rec.count("worlds_ungated_overflow")
          continue
        if meta.diverged(ref[t]["obs"], w, obs, w):
          rec.count("worlds_ungated_diverged")
          continue
        rec.count("world_steps_compared")
        tv = max(step_viol, 30.0 * float(amp[t, w]))
        if tv > step_viol:
          rec.count("world_steps_judged_with_widened_bound(ill-conditioned solve)")
        cls = meta.compare_obs(rec, f"{tag} world {w}", ref[t]["obs"], obs, w, w, tol_viol=tv)
        rec.count("obs_" + cls)
        c = meta.compare_contacts(rec, f"{tag} world {w}", ref[t]["con"][w], mw.contacts(d, w), tol_viol=tv)
        rec.count("contacts_" + c)
        r = meta.compare_rows(rec, f"{tag} world {w}", ref[t]["rows"][w], mw.efc_rows(mjm, m, d, w), tol_viol=tv)
        rec.count("rows_" + r)
  log, names = sched.stop_log()
  ctr = sched.counters()
  rec.cover("launches", ctr["launches"])
  rec.cover("tasks", ctr["tasks"])
  rec.cover("launches_permuted_ge2", ctr["launches_permuted_ge2"])
  rec.cover("kernels_permuted", sorted(names))
  rec.cover("schedules_run", len(schedules))
  for f in feats:
    rec.cover("features", f)
  if (ncon + nrow) > 0 and ctr["launches_permuted_ge2"] >= 20:
    rec.nontrivial(label, *[s["qpos"] for s in states])
  rec.sample = {"scene": case["scene"], "nworld": nworld, "steps": T, "schedules": schedules, "contacts_seen": ncon, "rows_seen": nrow, "launches_permuted": ctr["launches_permuted_ge2"]}
  return rec.result()


def requirements(agg, tier):
  unmet = []
  if agg["cover"].get("launches_permuted_ge2", 0) < 2000:
    unmet.append("fewer than 2000 permuted launches with >=2 tasks")
  if len(agg["cover"].get("kernels_permuted", [])) < 60:
    unmet.append(f"only {len(agg['cover'].get('kernels_permuted', []))} distinct kernels had their tasks permuted (<60)")
  if agg["tally"].get("world_steps_compared", 0) < 200:
    unmet.append("fewer than 200 gated world-steps compared")
  if agg["cover"].get("wake:world_steps_with_concurrent_wakers_of_different_counter", 0) < 3:
    unmet.append("fewer than 3 observed steps in which one sleeping cycle was woken by >=2 trees with different counters")
  return unmet
