"""C11 Results are independent of parallel thread order.

Schedule-exploration monitor: every kernel launch of mjw.step (and forward / collision entry points) is
executed with its tasks in identity, reverse, rotated and keyed pseudo-random order by the launch-order
permuter (mon/sched.py, Warp CPU device); each permuted step starts from the identity run's integration
state (lock-step with resynchronisation) and its outputs are compared with the identity schedule's:
per-world observables by the first-divergence thresholds, contacts and constraint rows as multisets.
"""

import numpy as np

from mon import core, meta, mw, scenes

ID = "C11"
LEVEL = "exploration"
TECHNIQUE = "runtime monitoring: launch-order permutation (schedule fuzzing of whole-task serial orders) with metamorphic comparison"
RULE = (
  "case=(scene, nworld, schedule set): repository or generated contact/constraint scene, 2-5 worlds in MuJoCo-settled random "
  "states, T lock-step steps under identity order and under reverse / rotate / K keyed-random per-launch permutations. "
  "Non-trivial: >=1 contact or constraint row present and >=20 launches with >=2 tasks were permuted; distinct by hash(scene, states)."
)
ASSUMPTIONS = [
  "Warp CPU device: a launch is a serial loop over tasks; all whole-task serial orders are explorable, finer GPU interleavings are not",
  "comparisons are gated on no overflow bit (incl. ITERATIONS / LS_ITERATIONS) in either execution, as the property states",
  "solver outputs may differ by reordered float32 sums: relative 1e-4 of field scale is round-off, >=1e-2 a violation",
]
BUDGET = {"quick": 220, "thorough": 2400}


def cases(tier, seed):
  out = []
  K = 2 if tier == "quick" else 8
  T = 3 if tier == "quick" else 6
  nrep = 1 if tier == "quick" else 6
  for r in range(nrep):
    for k, (p, opt) in enumerate(scenes.REPO):
      out.append({"id": f"repo{seed}_{k}_{r}", "mode": "perm", "scene": {"kind": "repo", "path": p, "opt": opt}, "seed": seed * 1000 + 50 * r + k, "K": K, "T": T, "nworld": 2 + (k + r) % 3, "weight": 3})
  n = 40 if tier == "quick" else 600
  for i in range(n):
    prof = ("full", "free", "joints")[i % 3]
    out.append({"id": f"gen{seed}_{i}", "mode": "perm", "scene": {"kind": "gen", "seed": seed * 100000 + i, "profile": prof}, "seed": seed * 100000 + i, "K": K, "T": T, "nworld": 2 + i % 4, "weight": 1})
  for i in range(2 if tier == "quick" else 20):
    out.append({"id": f"big{seed}_{i}", "mode": "perm", "scene": {"kind": "gen", "seed": seed * 100000 + 8000 + i, "profile": "bigtree"}, "seed": seed * 100000 + 8000 + i, "K": K, "T": 2, "nworld": 2, "weight": 4})
  # sleeping / islands scenes (wake kernels)
  sl = 6 if tier == "quick" else 60
  import mujoco

  for i in range(sl):
    out.append(
      {
        "id": f"sleep{seed}_{i}",
        "mode": "perm",
        "scene": {"kind": "gen", "seed": seed * 100000 + 5000 + i, "profile": "free", "override": {"solvers": ("Newton",)}, "opt": {"enable": int(mujoco.mjtEnableBit.mjENBL_SLEEP)}},
        "seed": seed * 100000 + 5000 + i,
        "K": K,
        "T": T + 2,
        "nworld": 3,
        "weight": 1,
      }
    )
  return out


def _run_steps(mjw, m, d, T, pre_states, sched_mode, key, sched):
  """Runs T steps; before step t the integration state is set to pre_states[t] (if given). Returns list of dict."""
  snaps = []
  for t in range(T):
    if pre_states is not None:
      meta.copy_state(d, pre_states[t])
    pre = meta.snap_state(d)
    d.overflow.zero_()
    sched.set_schedule(sched_mode, key * 7919 + t)
    mjw.step(m, d)
    sched.set_schedule(0)
    snaps.append({"pre": pre, "obs": meta.snap_obs(d), "d": None})
  return snaps


def run_case(case):
  import mujoco_warp as mjw

  from mon import sched

  rec = core.Rec(case)
  rng = np.random.default_rng(case["seed"])
  label, mjm, feats = scenes.scene(case["scene"])
  if mjm is None:
    rec.rejected = "mujoco compile"
    return rec.result()
  try:
    m = mw.put_model(mjm)
  except (NotImplementedError, ValueError) as e:
    rec.rejected = f"put_model: {e}"[:200]
    return rec.result()
  nworld, T, K = case["nworld"], case["T"], case["K"]
  states = scenes.settle_states(mjm, rng, nworld)
  sched.set_schedule(0)

  def fresh():
    return mw.make_data(mjm, m, states)

  # identity run, keeping contacts/rows of every step
  d0 = fresh()
  ref = []
  for t in range(T):
    pre = meta.snap_state(d0)
    d0.overflow.zero_()
    mjw.step(m, d0)
    ref.append({"pre": pre, "obs": meta.snap_obs(d0), "con": [mw.contacts(d0, w) for w in range(nworld)], "rows": [mw.efc_rows(mjm, m, d0, w) for w in range(nworld)]})
  ncon = sum(len(c["dist"]) for s in ref for c in s["con"])
  nrow = sum(r["nefc"] for s in ref for r in s["rows"])
  schedules = [(1, 0), (3, 5)] + [(2, 100 + k) for k in range(K)]
  sched.reset_counters()
  sched.start_log()
  permuted_total = 0
  # RK4 evaluates forward() four times per step at states that depend on the previous stage's solver output:
  # round-off level schedule differences are amplified by contact-manifold changes between stages (measured:
  # generated RK4+CG scenes, identical forward() under every schedule, 1-3 % after the step; Euler / implicit
  # steps of the same scenes stay bit-close).  The step of an RK4 model is therefore only judged for gross
  # differences; the single-evaluation forward() below is judged strictly for every model.
  import mujoco as _mj

  rk4 = mjm.opt.integrator == _mj.mjtIntegrator.mjINT_RK4
  step_viol = 0.3 if rk4 else 1e-2
  d0f = fresh()
  d0f.overflow.zero_()
  mjw.forward(m, d0f)
  fref = {"obs": meta.snap_obs(d0f), "con": [mw.contacts(d0f, w) for w in range(nworld)], "rows": [mw.efc_rows(mjm, m, d0f, w) for w in range(nworld)]}
  for mode, key in schedules[: 2 + min(K, 2)]:
    df = fresh()
    df.overflow.zero_()
    sched.set_schedule(mode, (case["seed"] * 17 + key) * 64 + 63)
    mjw.forward(m, df)
    sched.set_schedule(0)
    fobs = meta.snap_obs(df)
    for w in range(nworld):
      if fref["obs"]["overflow"][w] != 0 or fobs["overflow"][w] != 0:
        rec.count("forward_worlds_ungated_overflow")
        continue
      tag = f"forward() schedule(mode={mode},key={key}) world {w}"
      rec.count("forward_worlds_compared")
      rec.count("fobs_" + meta.compare_obs(rec, tag, fref["obs"], fobs, w, w, sig_prefix="forward:"))
      rec.count("fcontacts_" + meta.compare_contacts(rec, tag, fref["con"][w], mw.contacts(df, w), sig_prefix="forward:"))
      rec.count("frows_" + meta.compare_rows(rec, tag, fref["rows"][w], mw.efc_rows(mjm, m, df, w), sig_prefix="forward:", with_force=True))
  for mode, key in schedules:
    d = fresh()
    for t in range(T):
      meta.copy_state(d, ref[t]["pre"])
      d.overflow.zero_()
      sched.set_schedule(mode, (case["seed"] * 31 + key) * 64 + t)
      mjw.step(m, d)
      sched.set_schedule(0)
      obs = meta.snap_obs(d)
      tag = f"schedule(mode={mode},key={key}) step {t}"
      for w in range(nworld):
        if ref[t]["obs"]["overflow"][w] != 0 or obs["overflow"][w] != 0:
          rec.count("worlds_ungated_overflow")
          continue
        rec.count("world_steps_compared")
        cls = meta.compare_obs(rec, f"{tag} world {w}", ref[t]["obs"], obs, w, w, tol_viol=step_viol)
        rec.count("obs_" + cls)
        c = meta.compare_contacts(rec, f"{tag} world {w}", ref[t]["con"][w], mw.contacts(d, w), tol_viol=step_viol)
        rec.count("contacts_" + c)
        r = meta.compare_rows(rec, f"{tag} world {w}", ref[t]["rows"][w], mw.efc_rows(mjm, m, d, w), tol_viol=step_viol)
        rec.count("rows_" + r)
  log, names = sched.stop_log()
  ctr = sched.counters()
  rec.cover("launches", ctr["launches"])
  rec.cover("tasks", ctr["tasks"])
  rec.cover("launches_permuted_ge2", ctr["launches_permuted_ge2"])
  rec.cover("kernels_permuted", sorted(names))
  rec.cover("schedules_run", len(schedules))
  for f in feats:
    rec.cover("features", f)
  if (ncon + nrow) > 0 and ctr["launches_permuted_ge2"] >= 20:
    rec.nontrivial(label, *[s["qpos"] for s in states])
  rec.sample = {"scene": case["scene"], "nworld": nworld, "steps": T, "schedules": schedules, "contacts_seen": ncon, "rows_seen": nrow, "launches_permuted": ctr["launches_permuted_ge2"]}
  return rec.result()


def requirements(agg, tier):
  unmet = []
  if agg["cover"].get("launches_permuted_ge2", 0) < 2000:
    unmet.append("fewer than 2000 permuted launches with >=2 tasks")
  if len(agg["cover"].get("kernels_permuted", [])) < 60:
    unmet.append(f"only {len(agg['cover'].get('kernels_permuted', []))} distinct kernels had their tasks permuted (<60)")
  if agg["tally"].get("world_steps_compared", 0) < 200:
    unmet.append("fewer than 200 gated world-steps compared")
  return unmet
