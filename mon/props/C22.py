"""C22 Jacobians are consistent with positions and velocities.

Four monitors on generated models (all constraint kinds, tendons with wraps/pulleys, actuators of every transmission):
 (a) self-consistency: efc.vel[i] == J_i . qvel for every constraint row after forward() (float64 recomputation);
 (b) mjw.jac() for every body x random world points versus mujoco.mj_jac (with the +-2ulp conditioning probe) AND versus the
     central finite difference of the point's position / the body's orientation along qvel (mj_integratePos, float64);
 (c) ten_J and actuator_moment versus MuJoCo's, and ten_J.qvel / actuator_moment.qvel versus the central finite
     difference of ten_length / actuator_length along qvel (two step sizes; disagreement = wrap switch = not judged);
 (d) metamorphic: the same model and states with jacobian=dense and jacobian=sparse give the same rows, a qacc that is
     optimal for the same problem (C06 cost certificate, evaluated across the two runs) and the same next state.

A second case family (mon/props/_xtree.py, every fourth case) drives all four monitors on hand-written models in which the
objects of a spatial tendon path live in DIFFERENT kinematic trees: wrapping spheres / cylinders (outside sidesite, inside
sidesite, none) on bodies below free / ball / hinge / slide joints of one tree, the sites before and after them on bodies of
other trees or of the world, pulleys, tendon limits / friction / equalities / actuators, and states near qpos0 in which the
tendons really wrap (MuJoCo's wrap_obj is the witness).  For every tendon, ten_J.qvel is additionally compared with the
central difference of mujoco_warp's OWN ten_length (extra worlds at qpos +- eps.qvel, position stage only).
"""

import mujoco
import numpy as np

from mon import cmp, core, gen, mw
from mon.props import _efc as E
from mon.props import _xtree as X

ID = "C22"
LEVEL = "exploration"
RULE = (
  "case=(profile,seed): generated tree (free/ball/hinge/slide, several joints per body, welded and mocap bodies) with "
  "connect/weld/joint/tendon equalities, friction loss, limits, contacts condim 1/3/4/6, fixed+spatial tendons (sphere/cylinder "
  "wraps, pulleys), actuators with joint/jointinparent/tendon/site(+refsite)/slidercrank/body transmissions; 3 worlds with "
  "different random qpos/qvel. Every fourth case instead: 2-4 separate kinematic trees (root free/ball/hinge/slide/hinge+slide, "
  "children ball/hinge/slide, random body frames, off-centre masses), wrapping spheres/cylinders on tree bodies and the world, "
  "1-3 spatial tendons whose sites are placed (on random bodies of any tree or the world) so that the segment crosses the geom "
  "at qpos0, sidesites outside/inside/none, pulleys, tendon limits active at qpos0, friction, tendon equalities and actuators; "
  "two worlds near qpos0 (wrapping) and one anywhere. Non-trivial: nv>=3, |qvel|>0 and >=1 constraint row; distinct by "
  "hash(xml, qpos, qvel)."
)
ASSUMPTIONS = [
  "MuJoCo 3.13 (float64) provides mj_jac, ten_J, actuator_moment and the positions/lengths that are finite-differenced",
  "finite differences: central, h=1e-6 and 3e-6 along qvel through mj_integratePos; the two must agree to 1e-6 relative or "
  "the quantity is not judged (tendon wrap switching)",
  "own-length differences: float32 ten_length at qpos +- eps.qvel/max|qvel|, eps=4e-3 and 8e-3; judged to 1e-3.max|qvel|.max(1,L) "
  "when the two step sizes agree to that amount",
  "inside wraps (sidesite inside the geom): MuJoCo's Newton solver may return its fallback point, where MuJoCo's own ten_J is not "
  "the derivative of its length; such tendons are compared with MuJoCo's ten_length / wrap points / ten_J only",
  "dense/sparse equivalence of qacc is judged through the cost certificate of C06 (cost of the sparse run's qacc in the dense "
  "run's problem), elementwise only on rows and on the state after one step (first-divergence thresholds 1e-4 / 1e-2)",
]
BUDGET = {"quick": 300, "thorough": 1300}

A_JAC = 1e-5
PROFILE = gen.profile(
  nbody=(3, 8),
  collide=True,
  contact_rich=True,
  p_plane=0.6,
  equality=3,
  p_limit=0.4,
  p_frictionloss=0.3,
  tendon_fixed=0.6,
  tendon_spatial=0.7,
  condims=(1, 3, 4, 6),
  cones=("pyramidal", "elliptic"),
  solvers=("Newton", "CG"),
  jacobians=("dense", "sparse"),
  p_margin=0.2,
  p_mocap=0.1,
  actuators=3,
  act_trn=("joint", "jointinparent", "tendon", "site", "slidercrank", "body"),
  act_kinds=("motor", "position", "general"),
  geoms=("sphere", "capsule", "ellipsoid", "box", "cylinder"),
)
NJMAX = (64, 192, 448)


def cases(tier, seed):
  n = 72 if tier == "quick" else 1500
  out = []
  for i in range(n):
    out.append({"id": f"gen{seed}_{i}", "seed": seed * 100000 + i, "metamorphic": int(i % 2 == 0), "big": 36 if i % 23 == 5 else 0, "weight": 3 if i % 23 == 5 else 1})
    if i % 3 == 0:
      # cross-tree wrapping family (mon/props/_xtree.py): one case after every third generated one
      k = i // 3
      out.append({"id": f"xtree{seed}_{k}", "family": "xtree", "seed": seed * 100000 + 50000 + k, "metamorphic": int(k % 2 == 0), "big": 0, "weight": 1})
  return out


def dense_tenJ(mjm, vals):
  out = np.zeros((mjm.ntendon, mjm.nv))
  vals = np.asarray(vals, dtype=np.float64).reshape(-1)
  for t in range(mjm.ntendon):
    a, n = int(mjm.ten_J_rowadr[t]), int(mjm.ten_J_rownnz[t])
    out[t, mjm.ten_J_colind[a : a + n]] = vals[a : a + n]
  return out


def dense_moment(nu, nv, vals, rownnz, rowadr, colind):
  out = np.zeros((nu, nv))
  vals = np.asarray(vals, dtype=np.float64).reshape(-1)
  for i in range(nu):
    a, n = int(rowadr[i]), int(rownnz[i])
    if n:
      np.add.at(out[i], np.asarray(colind[a : a + n], dtype=int), vals[a : a + n])
  return out


def mj_position_stage(mjm, mjd):
  mujoco.mj_kinematics(mjm, mjd)
  mujoco.mj_comPos(mjm, mjd)
  mujoco.mj_tendon(mjm, mjd)
  mujoco.mj_transmission(mjm, mjd)


def reference(mjm, st, points):
  """mj_jac for all (body, point) pairs + dense ten_J / actuator_moment at the state."""
  mjd = mujoco.MjData(mjm)
  mw.apply_state_mj(mjm, mjd, st)
  mj_position_stage(mjm, mjd)
  out = {}
  jp, jr = np.zeros((3, mjm.nv)), np.zeros((3, mjm.nv))
  for k, (b, p) in enumerate(points):
    mujoco.mj_jac(mjm, mjd, jp, jr, np.asarray(p, dtype=np.float64), b)
    out[f"jacp{k}"] = jp.copy()
    out[f"jacr{k}"] = jr.copy()
  out["ten_J"] = dense_tenJ(mjm, mjd.ten_J) if mjm.ntendon else np.zeros((0, mjm.nv))
  out["actuator_moment"] = dense_moment(mjm.nu, mjm.nv, mjd.actuator_moment, mjd.moment_rownnz, mjd.moment_rowadr, mjd.moment_colind) if mjm.nu else np.zeros((0, mjm.nv))
  return out, mjd


def fd_along(mjm, st, v, h, points_local):
  """Central differences along v (tangent space) of point positions, body orientations, tendon and actuator lengths."""
  res = []
  for sgn in (+1, -1):
    mjd = mujoco.MjData(mjm)
    mw.apply_state_mj(mjm, mjd, st)
    q = np.array(mjd.qpos)
    mujoco.mj_integratePos(mjm, q, np.asarray(v, dtype=np.float64), sgn * h)
    mjd.qpos[:] = q
    mj_position_stage(mjm, mjd)
    pts = np.array([mjd.xpos[b] + mjd.xmat[b].reshape(3, 3) @ loc for b, loc in points_local]) if points_local else np.zeros((0, 3))
    rots = np.array([mjd.xmat[b].reshape(3, 3) for b, _ in points_local]) if points_local else np.zeros((0, 3, 3))
    res.append((pts, rots, np.array(mjd.ten_length), np.array(mjd.actuator_length)))
  (p1, r1, t1, a1), (p0, r0, t0, a0) = res
  dp = (p1 - p0) / (2 * h)
  om = []
  for k in range(len(r1)):
    dR = r1[k] @ r0[k].T
    om.append(np.array([dR[2, 1] - dR[1, 2], dR[0, 2] - dR[2, 0], dR[1, 0] - dR[0, 1]]) / (4 * h))
  return dp, np.array(om).reshape(-1, 3), (t1 - t0) / (2 * h), (a1 - a0) / (2 * h)


OWN_EPS = (4e-3, 8e-3)  # float32 lengths: round-off/(2 eps) ~ 1e-4 L, truncation ~ eps^2 L'''/6


SIG_INSIDE = "ten_length:inside_wrap:float32_newton_fallback_point"


def own_length_fd(rec, mjw, mjm, m, states, tenJ, caps, inside_w):
  """ten_J.qvel against the central difference of mujoco_warp's OWN (float32) ten_length along qvel.

  One extra Data with 4 worlds per state (qpos moved by +-eps along qvel/max|qvel| for two step sizes), position stage only.
  The two step sizes must agree (otherwise a wrap switches on the way / curvature too large: not judged).
  """
  plan, fd_states = [], []
  for w, st in enumerate(states):
    v = np.asarray(st["qvel"], dtype=np.float64)
    vn = float(np.abs(v).max())
    if not vn > 0:
      continue
    for eps in OWN_EPS:
      for sgn in (+1, -1):
        q = np.asarray(st["qpos"], dtype=np.float64).copy()
        mujoco.mj_integratePos(mjm, q, v / vn, sgn * eps)
        s2 = dict(st)
        s2["qpos"] = q.astype(np.float32)
        fd_states.append(s2)
    plan.append((w, v, vn))
  if not plan:
    return
  dfd = mw.make_data(mjm, m, fd_states, **caps)
  mjw.kinematics(m, dfd)
  mjw.com_pos(m, dfd)
  mjw.tendon(m, dfd)
  L = np.asarray(mw.npy(dfd.ten_length), dtype=np.float64)
  spatial = [int(mjm.tendon_num[t]) > 0 and int(mjm.wrap_type[mjm.tendon_adr[t]]) != int(mujoco.mjtWrap.mjWRAP_JOINT) for t in range(mjm.ntendon)]
  for k, (w, v, vn) in enumerate(plan):
    la = (L[4 * k] - L[4 * k + 1]) / (2 * OWN_EPS[0]) * vn
    lb = (L[4 * k + 2] - L[4 * k + 3]) / (2 * OWN_EPS[1]) * vn
    tj = dense_tenJ(mjm, tenJ[w])
    pred = tj @ v
    for t in range(mjm.ntendon):
      rec.check()
      if t in inside_w[w]:
        rec.count("fd_not_judged(inside-wrap tendon)")
        continue
      if not (np.all(np.isfinite(L[4 * k : 4 * k + 4, t])) and np.isfinite(pred[t])):
        rec.viol("ten_J:own_length_finite_difference:nonfinite", f"tendon {t}: ten_length / ten_J not finite world {w}")
        continue
      tol = 1e-3 * vn * max(1.0, float(np.abs(L[4 * k : 4 * k + 4, t]).max()))
      if abs(la[t] - lb[t]) > tol:
        rec.count("own_fd_unstable(not judged)")
        continue
      bound = tol + 16 * E.EPS32 * float(np.abs(tj[t]) @ np.abs(v)) + 10 * abs(la[t] - lb[t])
      r = abs(pred[t] - la[t]) / bound
      rec.worst("fd:ten_J.qvel(own ten_length)", r)
      rec.cover("tendons_own_fd_judged:" + ("spatial" if spatial[t] else "fixed"), 1)
      if r > cmp.VIOL_FACTOR:
        rec.viol("ten_J:finite_difference_of_own_ten_length", f"tendon {t}: ten_J.qvel={pred[t]:.7g} but the central difference of mujoco_warp's own ten_length along qvel is {la[t]:.7g} (second step size: {lb[t]:.7g}) world {w}")
      elif r > 1:
        rec.inconcl("ten_J vs finite difference of own ten_length in grey zone")


def run_case(case):
  import warp as wp

  import mujoco_warp as mjw

  rec = core.Rec(case)
  rng = np.random.default_rng(case["seed"] + 31)
  xtree = case.get("family") == "xtree"
  if xtree:
    xml, mjm, feat = X.make_model(case["seed"])
  else:
    P = dict(PROFILE)
    if case["big"]:
      P["big_tree"] = case["big"]
      P["nbody"] = (2, 4)
    xml, mjm, feat, _ = gen.make_model(case["seed"], P)
  if mjm is None:
    rec.rejected = "mujoco compile"
    return rec.result()
  try:
    m = mw.put_model(mjm)
  except (NotImplementedError, ValueError) as e:
    rec.rejected = f"put_model: {e}"[:200]
    rec.count("rejected_put_model")
    return rec.result()
  nworld = 3
  states = [gen.sample_state(mjm, rng, vel=float(rng.choice([0.3, 1.0, 3.0])), quat_scale=False) for _ in range(nworld)]
  if xtree:
    # two worlds near qpos0 (the tendons wrap their geoms there by construction), the third anywhere
    for w, spread in enumerate((0.05, float(rng.choice([0.15, 0.3])))):
      states[w]["qpos"] = X.near_qpos(mjm, rng, spread)
  need = 0
  try:
    for st in states:
      md = mujoco.MjData(mjm)
      mw.apply_state_mj(mjm, md, st)
      mujoco.mj_forward(mjm, md)
      need = max(need, int(md.nefc))
      ncon = int(md.ncon)
  except mujoco.FatalError:
    rec.rejected = "mujoco fatal error on this state"
    return rec.result()
  njmax = next((c for c in NJMAX if c >= need + need // 4 + 8), None)
  if njmax is None:
    rec.rejected = f"scene needs {need} rows"
    rec.count("rejected_too_many_rows")
    return rec.result()
  caps = dict(njmax=njmax, nconmax=max(48, 2 * ncon + 8))
  d = mw.make_data(mjm, m, states, **caps)
  mjw.forward(m, d)
  nac = int(mw.npy(d.nacon)[0])
  nrows_total = 0
  # ------------------------------------------------------------------ (a) efc.vel = J qvel
  rows_w = []
  for w in range(nworld):
    rows = mw.efc_rows(mjm, m, d, w)
    rows_w.append(rows)
    if not E.capacity_ok(d, w, rows):
      rec.count("worlds_capacity_exceeded")
      continue
    n = rows["nefc"]
    if not n:
      continue
    qv = np.asarray(states[w]["qvel"], dtype=np.float64)
    J = np.asarray(rows["J"], dtype=np.float64).reshape(n, mjm.nv)
    want = J @ qv
    bound = 16 * E.EPS32 * (np.abs(J) @ np.abs(qv)) + 1e-9
    err = np.abs(np.asarray(rows["vel"], dtype=np.float64) - want)
    ratio = err / bound
    i = int(np.argmax(ratio))
    rec.check(n)
    rec.worst("efc.vel=J.qvel", float(ratio[i]))
    nrows_total += n
    for t in range(8):
      k = int((rows["type"] == t).sum())
      if k:
        rec.cover("vel_rows:" + E.TYPE_NAME[t], k)
    if not np.all(np.isfinite(rows["vel"])):
      rec.viol("efc.vel:nonfinite", f"efc.vel not finite world {w}")
    elif ratio[i] > cmp.VIOL_FACTOR:
      rec.viol(f"efc.vel!=J.qvel:{E.TYPE_NAME[int(rows['type'][i])]}", f"row {i} ({E.TYPE_NAME[int(rows['type'][i])]} id {int(rows['id'][i])}): efc.vel={rows['vel'][i]:.7g} but J.qvel={want[i]:.7g} (bound {bound[i]:.3g}) world {w} ({'sparse' if m.is_sparse else 'dense'})")
    elif ratio[i] > 1:
      rec.inconcl("efc.vel vs J.qvel in grey zone")
  rec.cover("vel_worlds:" + ("sparse" if m.is_sparse else "dense"), nworld)
  # ------------------------------------------------------------------ (b) jac()
  xpos = mw.npy(d.xpos)
  xmat = mw.npy(d.xmat)
  bodies = list(range(1, mjm.nbody))
  if len(bodies) > 6:
    bodies = sorted(rng.choice(bodies, size=6, replace=False).tolist())
  per_world_points = [[] for _ in range(nworld)]
  got = [[] for _ in range(nworld)]
  for b in bodies:
    for rep in range(2):
      loc = rng.normal(size=3) * (0.3 if rep else 0.0)
      pts = np.zeros((nworld, 3), dtype=np.float32)
      for w in range(nworld):
        pts[w] = (np.asarray(xpos[w][b], dtype=np.float64) + np.asarray(xmat[w][b], dtype=np.float64).reshape(3, 3) @ loc).astype(np.float32)
      jp = wp.zeros((nworld, 3, mjm.nv), dtype=float)
      jr = wp.zeros((nworld, 3, mjm.nv), dtype=float)
      if rep == 0:
        mjw.jac(m, d, jp, jr, wp.array(pts, dtype=wp.vec3), wp.array(np.full(nworld, b, dtype=np.int32), dtype=int))
      else:
        # optional outputs: one call each
        mjw.jac(m, d, jp, None, wp.array(pts, dtype=wp.vec3), wp.array(np.full(nworld, b, dtype=np.int32), dtype=int))
        mjw.jac(m, d, None, jr, wp.array(pts, dtype=wp.vec3), wp.array(np.full(nworld, b, dtype=np.int32), dtype=int))
      jpn, jrn = jp.numpy(), jr.numpy()
      for w in range(nworld):
        per_world_points[w].append((b, pts[w].astype(np.float64)))
        got[w].append((jpn[w].astype(np.float64), jrn[w].astype(np.float64)))
  tenJ = mw.npy(d.ten_J)
  tlen = mw.npy(d.ten_length)
  twn, twa, wxp = mw.npy(d.ten_wrapnum), mw.npy(d.ten_wrapadr), mw.npy(d.wrap_xpos)
  inside_w = [set() for _ in range(nworld)]
  mom = mw.npy(d.actuator_moment)
  mrn, mra, mci = mw.npy(d.moment_rownnz), mw.npy(d.moment_rowadr), mw.npy(d.moment_colind)
  for w in range(nworld):
    st = states[w]
    ref, mjd = reference(mjm, st, per_world_points[w])
    prng = np.random.default_rng(case["seed"] * 3 + w)
    noise = {k: 0.0 for k in ref}
    for _ in range(3):
      alt, _ = reference(mjm, cmp.perturb_state(st, prng), per_world_points[w])
      for k in ref:
        noise[k] = max(noise[k], float(np.abs(alt[k] - ref[k]).max()) if ref[k].size else 0.0)
    for k, (b, p) in enumerate(per_world_points[w]):
      cmp.judge(rec, "jacp", got[w][k][0], ref[f"jacp{k}"], A_JAC, noise[f"jacp{k}"], sig_prefix="jac:", ctx=f"body {b} world {w}")
      cmp.judge(rec, "jacr", got[w][k][1], ref[f"jacr{k}"], A_JAC, noise[f"jacr{k}"], sig_prefix="jac:", ctx=f"body {b} world {w}")
      rec.cover("jac_calls_judged", 1)
    # finite differences along qvel
    v = np.asarray(st["qvel"], dtype=np.float64)
    vn = float(np.abs(v).max())
    if vn > 0:
      pl = []
      for b, p in per_world_points[w]:
        R = mjd.xmat[b].reshape(3, 3)
        pl.append((b, R.T @ (p - mjd.xpos[b])))
      f1 = fd_along(mjm, st, v, 1e-6, pl)
      f2 = fd_along(mjm, st, v, 3e-6, pl)
      for k, (b, p) in enumerate(per_world_points[w]):
        for nm, gj, fa, fb in (("jacp", got[w][k][0], f1[0][k], f2[0][k]), ("jacr", got[w][k][1], f1[1][k], f2[1][k])):
          scale = max(1.0, float(np.abs(fa).max()))
          rec.check()
          if np.abs(fa - fb).max() > 1e-5 * scale:
            rec.count("fd_unstable(not judged)")
            continue
          pred = gj @ v
          mag = np.abs(gj) @ np.abs(v)
          bound = 1e-5 * scale + 16 * E.EPS32 * float(mag.max()) + 10 * float(np.abs(fa - fb).max())
          r = float(np.abs(pred - fa).max()) / bound
          rec.worst(f"fd:{nm}.qvel", r)
          if r > cmp.VIOL_FACTOR:
            rec.viol(f"jac:{nm}:finite_difference", f"{nm}.qvel={pred.tolist()} but d/dt of the {'point position' if nm == 'jacp' else 'body orientation'} along qvel is {fa.tolist()} (body {b}, world {w})")
          elif r > 1:
            rec.inconcl(f"{nm} vs finite difference in grey zone")
      # (c) tendon / actuator Jacobians
      cls = X.classify(mjm, mjd) if mjm.ntendon else []
      # tendons with an inside wrap (sidesite inside the geom): MuJoCo's Newton solver may fall back to the "average" point,
      # where its own ten_J is not the derivative of its own length -> compared with MuJoCo only, never with differences
      inside_t = {c["tendon"] for c in cls if c["inside"]}
      inside_w[w] = inside_t
      skip_t = set()
      if mjm.ntendon:
        tj = dense_tenJ(mjm, tenJ[w])
        for t in sorted(inside_t):
          lg, lr = float(tlen[w][t]), float(mjd.ten_length[t])
          rec.check()
          rec.cover("inside_wrap_tendon_lengths_compared", 1)
          a, n = int(mjd.ten_wrapadr[t]), int(mjd.ten_wrapnum[t])
          dx = 0.0
          if int(twn[w][t]) == n and int(twa[w][t]) == a:
            dx = float(np.abs(np.asarray(wxp[w], dtype=np.float64).reshape(-1, 3)[a : a + n] - np.asarray(mjd.wrap_xpos).reshape(-1, 3)[a : a + n]).max()) if n else 0.0
          if not (abs(lg - lr) <= 1e-4 * max(1.0, abs(lr)) and dx <= 1e-3):
            skip_t.add(t)
            rec.viol(SIG_INSIDE, f"tendon {t} (inside wrap): ten_length={lg:.7g} but MuJoCo {lr:.7g}, wrap points differ by {dx:.3g}: the float32 inside-wrap solver returned its fallback point; ten_J of this tendon is not compared, world {w}")
        keep_t = np.array([t not in skip_t for t in range(mjm.ntendon)])
        verdict = cmp.judge(rec, "ten_J", tj[keep_t], ref["ten_J"][keep_t], A_JAC, noise["ten_J"], ctx=f"world {w}") if keep_t.any() else "incon"
        if verdict != "incon":
          # which wrapping configurations this comparison actually observed (MuJoCo's wrap_obj at this state)
          for c in cls:
            if c["tendon"] in skip_t:
              continue
            if not c["wrapped"]:
              rec.cover("wrap_geom_not_wrapping_in_state", 1)
              continue
            rec.cover(f"wrapped:{c['type']}:{'inside_sidesite' if c['inside'] else 'sidesite' if c['sidesite'] else 'no_sidesite'}", 1)
            where = "world_body" if c["geom_on_world"] else ("body_with_rotational_dofs" if c["rot"] else "body_without_rotational_dofs")
            rec.cover("wrapped_geom_on:" + where, 1)
            if c["rot"]:
              for side in ("next", "prev"):
                rec.cover(f"wrapped_geom_on_rotating_body:{side}_site_in_{'other' if c[side + '_other_tree'] else 'same'}_tree", 1)
            if c["pulley_scaled"]:
              rec.cover("wrapped_geom_in_pulley_scaled_branch", 1)
        pred = tj @ v
        for t in range(mjm.ntendon):
          scale = max(1.0, abs(f1[2][t]))
          rec.check()
          if t in inside_t:
            rec.count("fd_not_judged(inside-wrap tendon)")
            continue
          if abs(f1[2][t] - f2[2][t]) > 1e-5 * scale:
            rec.count("fd_unstable(not judged)")
            continue
          bound = 1e-5 * scale + 16 * E.EPS32 * float(np.abs(tj[t]) @ np.abs(v)) + 10 * abs(f1[2][t] - f2[2][t])
          r = abs(pred[t] - f1[2][t]) / bound
          rec.worst("fd:ten_J.qvel", r)
          rec.cover("tendons_fd_judged", 1)
          if r > cmp.VIOL_FACTOR:
            rec.viol("ten_J:finite_difference", f"tendon {t}: ten_J.qvel={pred[t]:.7g} but d(ten_length)/dt along qvel = {f1[2][t]:.7g} world {w}")
          elif r > 1:
            rec.inconcl("ten_J vs finite difference in grey zone")
      if mjm.nu:
        am = dense_moment(mjm.nu, mjm.nv, mom[w], mrn[w], mra[w], mci[w])
        # body (adhesion) transmissions take their moment from the contacts of this step: not a position-stage quantity
        on_tendon = [int(mjm.actuator_trnid[i, 0]) if int(mjm.actuator_trntype[i]) == int(mujoco.mjtTrn.mjTRN_TENDON) else -1 for i in range(mjm.nu)]
        keep = np.array([int(t) != int(mujoco.mjtTrn.mjTRN_BODY) and on_tendon[i] not in skip_t for i, t in enumerate(mjm.actuator_trntype)])
        if keep.any():
          cmp.judge(rec, "actuator_moment", am[keep], ref["actuator_moment"][keep], A_JAC, noise["actuator_moment"], ctx=f"world {w}")
        pred = am @ v
        for i in range(mjm.nu):
          # the moment is the gradient of actuator_length only for scalar transmissions (hinge/slide joint, tendon,
          # slider-crank); site/ball/free/body transmissions define length as 0 or as a non-integrable quantity
          trn = int(mjm.actuator_trntype[i])
          if trn in (int(mujoco.mjtTrn.mjTRN_JOINT), int(mujoco.mjtTrn.mjTRN_JOINTINPARENT)):
            if int(mjm.jnt_type[mjm.actuator_trnid[i, 0]]) not in (int(mujoco.mjtJoint.mjJNT_HINGE), int(mujoco.mjtJoint.mjJNT_SLIDE)):
              continue
          elif trn not in (int(mujoco.mjtTrn.mjTRN_TENDON), int(mujoco.mjtTrn.mjTRN_SLIDERCRANK)):
            rec.cover("actuators_moment_compared_only:trn%d" % trn, 1)
            continue
          scale = max(1.0, abs(f1[3][i]))
          rec.check()
          if on_tendon[i] in inside_t:
            rec.count("fd_not_judged(inside-wrap tendon)")
            continue
          if abs(f1[3][i] - f2[3][i]) > 1e-5 * scale:
            rec.count("fd_unstable(not judged)")
            continue
          bound = 1e-5 * scale + 16 * E.EPS32 * float(np.abs(am[i]) @ np.abs(v)) + 10 * abs(f1[3][i] - f2[3][i])
          r = abs(pred[i] - f1[3][i]) / bound
          rec.worst("fd:actuator_moment.qvel", r)
          rec.cover("actuators_fd_judged:trn%d" % int(mjm.actuator_trntype[i]), 1)
          if r > cmp.VIOL_FACTOR:
            rec.viol(f"actuator_moment:finite_difference:trn{int(mjm.actuator_trntype[i])}", f"actuator {i}: moment.qvel={pred[i]:.7g} but d(actuator_length)/dt along qvel = {f1[3][i]:.7g} world {w}")
          elif r > 1:
            rec.inconcl("actuator_moment vs finite difference in grey zone")
  if mjm.ntendon:
    own_length_fd(rec, mjw, mjm, m, states, tenJ, caps, inside_w)
  if xtree:
    rec.cover("xtree_cases", 1)
  # ------------------------------------------------------------------ (d) dense vs sparse
  if case["metamorphic"]:
    other = mujoco.mjtJacobian.mjJAC_SPARSE if not m.is_sparse else mujoco.mjtJacobian.mjJAC_DENSE
    mjm2 = mujoco.MjModel.from_xml_string(xml)
    mjm2.opt.jacobian = other
    try:
      m2 = mw.put_model(mjm2)
    except (NotImplementedError, ValueError):
      m2 = None
    if m2 is not None and m2.is_sparse != m.is_sparse:
      d2 = mw.make_data(mjm2, m2, states, **caps)
      mjw.forward(m2, d2)
      ovf1, ovf2 = mw.overflow(d), mw.overflow(d2)
      rows_agree = [False] * nworld
      qacc_ok = [False] * nworld
      for w in range(nworld):
        r1, r2 = rows_w[w], mw.efc_rows(mjm2, m2, d2, w)
        ctx = f"world {w} (dense vs sparse)"
        if not (E.capacity_ok(d, w, r1, ovf1) and E.capacity_ok(d2, w, r2, ovf2)):
          rec.count("dense_vs_sparse_worlds_capacity_exceeded")
          continue
        rec.cover("dense_vs_sparse_worlds", 1)
        v0 = cmp.first_divergence(rec, "nefc", np.array([r1["ne"], r1["nf"], r1["nl"], r1["nefc"]]), np.array([r2["ne"], r2["nf"], r2["nl"], r2["nefc"]]), sig_prefix="dense_vs_sparse:", ctx=ctx)
        if v0 == "viol":
          continue
        ok = True
        vt = cmp.first_divergence(rec, "efc.type", np.asarray(r1["type"]), np.asarray(r2["type"]), sig_prefix="dense_vs_sparse:", ctx=ctx)
        if vt == "viol":
          continue
        for f in ("J", "pos", "D", "aref", "vel", "frictionloss") if r1["nefc"] else ():
          # row by row, relative to the row's own magnitude (a D=1e15 row must not hide a 2x error elsewhere)
          a = np.asarray(r1[f], dtype=np.float64).reshape(r1["nefc"], -1)
          b = np.asarray(r2[f], dtype=np.float64).reshape(r2["nefc"], -1)
          sc = np.maximum(1.0, np.maximum(np.abs(a).max(axis=1), np.abs(b).max(axis=1)))
          rel = np.abs(a - b).max(axis=1) / sc
          rec.check()
          if not np.all(np.isfinite(rel)):
            rec.viol(f"dense_vs_sparse:efc.{f}:nonfinite", f"efc.{f} not finite {ctx}")
            ok = False
            continue
          i = int(np.argmax(rel))
          rec.worst(f"fd:efc.{f}", float(rel[i]) / 1e-4)
          if rel[i] >= 1e-2:
            t = int(r1["type"][i])
            rec.viol(
              f"dense_vs_sparse:efc.{f}:{E.TYPE_NAME[t]}",
              f"efc.{f} of row {i} ({E.TYPE_NAME[t]} id {int(r1['id'][i])}) differs between jacobian=dense and sparse: {a[i].ravel()[:6].tolist()} vs {b[i].ravel()[:6].tolist()} (rel {rel[i]:.3g}) {ctx}; dense is the {'second' if m.is_sparse else 'first'} run",
            )
            ok = False
          elif rel[i] > 1e-4:
            rec.inconcl(f"efc.{f} dense vs sparse between round-off and violation line")
            ok = False
        if not ok:
          continue
        rows_agree[w] = True
        if (int(ovf1[w]) | int(ovf2[w])) & (E.OVF_ITER | E.OVF_LS):
          rec.count("dense_vs_sparse_qacc_not_judged(iteration limit)")
          continue
        # qacc of both runs must be optimal for the same problem
        Pd = E.problem(mjm, m, d, w, r1)
        if Pd["cone_bad"] or (Pd["n"] and np.any((Pd["D"] >= 1e12) & ~Pd["inert"])):
          continue
        if not (E.hessian_condition(Pd) < 5e6):
          rec.count("dense_vs_sparse_qacc_not_judged(hessian condition > 5e6)")
          continue
        q2 = np.asarray(mw.npy(d2.qacc)[w], dtype=np.float64)[: mjm.nv]
        if not np.all(np.isfinite(q2)) or not np.all(np.isfinite(Pd["qacc"])):
          rec.viol("dense_vs_sparse:qacc:nonfinite", f"qacc not finite {ctx}")
          continue
        a_opt, info = E.solve64(Pd, Pd["qacc"])
        g2, c2, f2_, s2, j2 = E.grad_cost(Pd, q2)
        g1, c1, f1_, s1, j1 = E.grad_cost(Pd, Pd["qacc"])
        jm, gm = E.noise_terms(Pd, q2, f2_, start=np.abs(Pd["qacc_smooth"]))
        eg = 8 * E.EPS32 * gm
        try:
          floor = 0.5 * float(eg @ np.linalg.solve(info["H"], eg)) / Pd["scale"]
        except np.linalg.LinAlgError:
          continue
        solver = "Newton" if mjm.opt.solver == mujoco.mjtSolver.mjSOL_NEWTON else "CG"
        K = {"Newton": 30.0, "CG": 1000.0}[solver]
        cost_mag = abs(c1) + abs(c2) + abs(info["cost"]) + float(np.abs(Pd["qfrc_smooth"]) @ np.abs(q2))
        bound = K * Pd["tolerance"] + floor + 1e-13 * cost_mag / Pd["scale"] + 10 * info["gradnorm"] / Pd["scale"] * float(np.abs(q2 - a_opt).max())
        if float(np.abs(info["grad"]).max()) > 1e-9 * max(1e-300, float(gm.max())) and info["gradnorm"] / Pd["scale"] > 1e-9:
          rec.count("dense_vs_sparse_ref_optimum_not_converged")
          continue
        qacc_ok[w] = True
        for nm, c in (("own", c1), ("other", c2)):
          r = (c - info["cost"]) / Pd["scale"] / bound
          if not (r <= 1):
            qacc_ok[w] = False
          rec.check()
          rec.worst(f"dense_vs_sparse:cost_gap:{nm}", r)
          if r > cmp.VIOL_FACTOR:
            rec.viol("dense_vs_sparse:qacc_cost_gap", f"qacc of the {'sparse' if (nm == 'other') != m.is_sparse else 'dense'} run is not optimal for the problem both runs share: scaled gap {(c - info['cost']) / Pd['scale']:.3g} = {r:.3g}x bound {ctx}")
          elif r > 1:
            rec.inconcl("dense vs sparse cost gap in grey zone")
      # one step: next state
      mjw.step(m, d)
      mjw.step(m2, d2)
      for f in ("qpos", "qvel"):
        a, b = mw.npy(getattr(d, f)), mw.npy(getattr(d2, f))
        for w in range(nworld):
          if (int(mw.overflow(d)[w]) | int(mw.overflow(d2)[w])) & (E.OVF_ITER | E.OVF_LS | E.OVF_NEFC | E.OVF_NNZ | E.OVF_CONTACT):
            continue
          if not qacc_ok[w]:
            rec.count("next_state_not_judged(qacc of the two runs not certified: iteration limit / ill-conditioned / grey)")
            continue
          if not rows_agree[w]:
            continue  # a row difference was already reported (or was not judged); the next state only echoes it
          if np.all(np.isfinite(a[w])) and np.all(np.isfinite(b[w])) and np.abs(a[w]).max() < 1e6:
            cmp.first_divergence(rec, f, a[w], b[w], sig_prefix="dense_vs_sparse:next_", ctx=f"world {w} after one step")
  for f in feat:
    rec.cover("features", f)
  if mjm.nv >= 3 and nrows_total >= 1:
    rec.nontrivial(xml, *[s["qpos"] for s in states], *[s["qvel"] for s in states])
  rec.sample = {"model": f"{'cross-tree wrapping family' if xtree else 'generated'} seed {case['seed']} big={case['big']}", "nv": mjm.nv, "nbody": mjm.nbody, "ntendon": mjm.ntendon, "nu": mjm.nu, "sparse": bool(m.is_sparse), "nefc": [int(x) for x in mw.npy(d.nefc)], "metamorphic": case["metamorphic"]}
  return rec.result()


def requirements(agg, tier):
  unmet = []
  cov = agg["cover"]
  q = tier == "quick"
  for t in E.TYPE_NAME:
    if cov.get("vel_rows:" + t, 0) < (20 if q else 200):
      unmet.append(f"fewer than 20 rows of type {t} in the efc.vel check ({cov.get('vel_rows:' + t, 0)})")
  for k, v in {"vel_worlds:dense": 30, "vel_worlds:sparse": 30, "jac_calls_judged": 500, "tendons_fd_judged": 50, "dense_vs_sparse_worlds": 40}.items():
    if cov.get(k, 0) < v:
      unmet.append(f"{k}: {cov.get(k, 0)} < {v}")
  for trn in (0, 1, 2, 3):  # joint, jointinparent, slidercrank, tendon
    if cov.get(f"actuators_fd_judged:trn{trn}", 0) < 3:
      unmet.append(f"fewer than 3 actuators of transmission type {trn} judged by finite differences")
  if cov.get("actuators_moment_compared_only:trn4", 0) < 3:
    unmet.append("fewer than 3 site-transmission actuators compared with MuJoCo's moment")
  feats = set(cov.get("features", []))
  for f in ["joint:free", "joint:ball", "joint:hinge", "joint:slide", "tendon:fixed", "tendon:spatial", "wrap:sphere", "wrap:cylinder", "trn:refsite"]:
    if f not in feats:
      unmet.append(f"feature never generated: {f}")
  # cross-tree wrapping family: the tendon Jacobian of a geom that really wraps, sits on a body with rotational dofs and has
  # its neighbouring sites in another kinematic tree must have been compared (both halves of the segment, both geom types,
  # with and without sidesite, inside a pulley-scaled branch)
  for k, v in {
    "wrapped_geom_on_rotating_body:next_site_in_other_tree": 30,
    "wrapped_geom_on_rotating_body:prev_site_in_other_tree": 30,
    "wrapped_geom_on_rotating_body:next_site_in_same_tree": 2,
    "wrapped:sphere:sidesite": 8,
    "wrapped:sphere:no_sidesite": 5,
    "wrapped:cylinder:sidesite": 8,
    "wrapped:cylinder:no_sidesite": 8,
    "wrapped_geom_in_pulley_scaled_branch": 8,
    "inside_wrap_tendon_lengths_compared": 3,
    "tendons_own_fd_judged:spatial": 50,
    "tendons_own_fd_judged:fixed": 5,
  }.items():
    if cov.get(k, 0) < (v if q else 5 * v):
      unmet.append(f"{k}: {cov.get(k, 0)} < {v if q else 5 * v}")
  if agg["distinct"] < 30:
    unmet.append("fewer than 30 distinct non-trivial cases")
  return unmet
