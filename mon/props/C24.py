"""C24 Constraint forces are physically admissible.

Invariant monitor (float64 recomputation, no reference engine): after forward() and after each of several step()s, every
world's reported efc.force / efc.state / qfrc_constraint / contact_force must satisfy: limit, frictionless-normal,
pyramid-edge and elliptic-normal forces >= 0; elliptic forces inside their friction cone; |friction-loss force| <=
frictionloss; SATISFIED rows carry exactly zero force; states legal for the row type and uniform within an elliptic
contact; qfrc_constraint = J^T efc.force; contact_force normal >= -adhesion. The invariants live in
mon/props/_efc.py:admissibility() and are also called by C06 on its workload.
"""

import mujoco
import numpy as np

from mon import core, gen, mw
from mon.props import C06
from mon.props import _efc as E
from mon.props import _scenes as S

ID = "C24"
LEVEL = "exploration"
RULE = (
  "case=(kind,seed): generated constraint scene (equalities, dof/tendon friction loss, joint/tendon limits, contacts of "
  "condim 1/3/4/6 with margins and geom adhesion, adhesion actuators), pile, closed loop or repository model; both cones, "
  "both solvers, dense/sparse; 3 worlds; invariants evaluated after forward() and after each of 4 step()s (warm-started "
  "solves on moving states). Non-trivial: >=1 evaluation with >=3 rows carrying non-zero force; distinct by hash(xml, qpos, qvel)."
)
ASSUMPTIONS = [
  "sign and cone conventions are MuJoCo's documented ones (force >= 0 pushes out of the constraint; elliptic cone "
  "sum_j (f_j/friction_j)^2 <= f_normal^2)",
  "float32 allowances: cone membership 1e-4 relative, friction loss 1e-5 relative, qfrc_constraint 128*eps32*(|J|^T|f| + "
  "|Ma| + |qfrc_smooth| + start-point terms) because Newton/pyramidal reconstructs it as Ma - qfrc_smooth - grad",
  "worlds whose row capacity overflowed are skipped (C16); iteration-limit worlds ARE judged (admissibility does not need convergence)",
]
BUDGET = {"quick": 120, "thorough": 1200}

PROFILE = gen.profile(
  **{
    **C06.BASE,
    "geoms": ("sphere", "capsule", "ellipsoid", "box", "cylinder"),
    "p_adhesion": 0.3,
    "actuators": 2,
    "act_trn": ("body", "joint"),
    "act_kinds": ("motor", "position"),
    "flags_disable": (),
  }
)
NSTEP = 4


def cases(tier, seed):
  out = []
  ngen = 50 if tier == "quick" else 1000
  nscene = 20 if tier == "quick" else 300
  combos = [(c, s, j) for c in ("pyramidal", "elliptic") for s in ("Newton", "CG") for j in ("dense", "sparse")]
  for i in range(ngen):
    out.append({"id": f"gen{seed}_{i}", "kind": "gen", "seed": seed * 100000 + i, "settle": (0, 20)[i % 2], "exact_geoms": 0})
  for i in range(nscene):
    c, s, j = combos[i % 8]
    out.append({"id": f"pile{seed}_{i}", "kind": "pile", "seed": seed * 100000 + 50000 + i, "n": (3, 4, 5, 8)[(i // 8) % 4], "cone": c, "solver": s, "jac": j, "settle": (60, 0)[i % 2], "exact_geoms": 0, "weight": 2})
    c, s, j = combos[(i + 5) % 8]
    out.append({"id": f"loop{seed}_{i}", "kind": "loop", "seed": seed * 100000 + 70000 + i, "n": (2, 3, 4, 6)[(i // 8) % 4], "cone": c, "solver": s, "jac": j, "settle": 0, "exact_geoms": 1})
  for k, p in enumerate(C06.REPO_MODELS):
    for r in range(2 if tier == "quick" else 10):
      c, s, j = combos[(k * 3 + r + 1) % 8]
      out.append({"id": f"repo{seed}_{k}_{r}", "kind": "repo", "path": p, "seed": seed * 100000 + 90000 + r, "cone": c, "solver": s, "jac": j, "settle": 20, "exact_geoms": 0, "weight": 2})
  return out


def run_case(case):
  import mujoco_warp as mjw

  rec = core.Rec(case)
  rng = np.random.default_rng(case["seed"] + 11)
  if case["kind"] == "gen":
    xml, mjm, feat, _ = gen.make_model(case["seed"], PROFILE)
    feat = feat or []
  else:
    xml, mjm, feat = C06.build(case, rng)
  if mjm is None:
    rec.rejected = "mujoco compile"
    return rec.result()
  try:
    m = mw.put_model(mjm)
  except (NotImplementedError, ValueError) as e:
    rec.rejected = f"put_model: {e}"[:200]
    rec.count("rejected_put_model")
    return rec.result()
  solver = "Newton" if mjm.opt.solver == mujoco.mjtSolver.mjSOL_NEWTON else "CG"
  cone = "elliptic" if mjm.opt.cone == mujoco.mjtCone.mjCONE_ELLIPTIC else "pyramidal"
  nworld = 3
  states = []
  for w in range(nworld):
    st = gen.sample_state(mjm, rng, vel=float(rng.choice([0.0, 0.5, 2.0])), quat_scale=False)
    if case["kind"] in ("pile", "repo") and w < 2:
      st["qpos"] = (np.array(mjm.qpos0) + (rng.normal(size=mjm.nq) * 0.01 if w else 0)).astype(np.float32)
      st["qvel"] = (st["qvel"] * 0.1).astype(np.float32)
    if mjm.nu:
      st["ctrl"] = np.abs(st["ctrl"]).astype(np.float32)
    states.append(S.settle(mjm, st, case["settle"]))
  try:
    need = 0
    for st in states:
      mjd = mujoco.MjData(mjm)
      mw.apply_state_mj(mjm, mjd, st)
      mujoco.mj_forward(mjm, mjd)
      need = max(need, int(mjd.nefc))
      ncon = int(mjd.ncon)
  except mujoco.FatalError:
    rec.rejected = "mujoco fatal error on this state"
    return rec.result()
  njmax = next((c for c in C06.NJMAX if c >= 2 * need + 16), None)
  if njmax is None:
    rec.rejected = f"scene needs {need} rows"
    rec.count("rejected_too_many_rows")
    return rec.result()
  d = mw.make_data(mjm, m, states, njmax=njmax, nconmax=max(64, 3 * ncon + 16))
  nontriv = False
  for k in range(NSTEP + 1):
    ws = np.array(mw.npy(d.qacc_warmstart), dtype=np.float64)[:, : mjm.nv]
    if k == 0:
      mjw.forward(m, d)
    else:
      mjw.step(m, d)
    qa = mw.npy(d.qacc)
    if not np.all(np.isfinite(qa)) or not np.all(np.isfinite(mw.npy(d.qpos))):
      rec.count("rollout_diverged(stopped)")
      break
    nac = int(mw.npy(d.nacon)[0])
    for w in range(nworld):
      rows = mw.efc_rows(mjm, m, d, w)
      if not E.capacity_ok(d, w, rows):
        rec.count("evaluations_capacity_exceeded")
        continue
      n = E.admissibility(rec, mjm, m, d, w, rows=rows, contact_force=True, start=ws[w])
      rec.cover("evaluations", 1)
      rec.cover(f"evaluations:{solver}:{cone}:{'sparse' if m.is_sparse else 'dense'}", 1)
      rec.cover("evaluations_after:" + ("forward" if k == 0 else "step"), 1)
      if n and int((np.asarray(rows["force"]) != 0).sum()) >= 3:
        nontriv = True
      # adhesion contacts that are active
      con = mw.contacts(d, w)
      adh = np.asarray(mw.npy(d.contact.adhesion))[con["slot"]] if len(con["slot"]) else np.zeros(0)
      if len(adh):
        rec.cover("contacts_with_adhesion", int(((adh != 0) & (con["efc_address"][:, 0] >= 0)).sum()))
        rec.cover("contacts_active", int((con["efc_address"][:, 0] >= 0).sum()))
  for f in feat:
    rec.cover("features", f)
  rec.cover("kind:" + case["kind"], 1)
  if nontriv:
    rec.nontrivial(xml, *[s["qpos"] for s in states], *[s["qvel"] for s in states])
  rec.sample = {"kind": case["kind"], "model": case.get("path", f"seed {case['seed']}"), "nv": mjm.nv, "nu": mjm.nu, "solver": solver, "cone": cone, "sparse": bool(m.is_sparse), "nefc_last": [int(x) for x in mw.npy(d.nefc)]}
  return rec.result()


def requirements(agg, tier):
  unmet = []
  cov = agg["cover"]
  q = tier == "quick"
  for s in ("Newton", "CG"):
    for c in ("pyramidal", "elliptic"):
      for j in ("dense", "sparse"):
        k = f"evaluations:{s}:{c}:{j}"
        if cov.get(k, 0) < (20 if q else 200):
          unmet.append(f"too few evaluations for {k}: {cov.get(k, 0)}")
  need = {
    "adm_rows_active:limit_joint": 50,
    "adm_rows_active:limit_tendon": 20,
    "adm_rows_active:contact_frictionless": 20,
    "adm_rows_active:contact_pyramidal": 200,
    "adm_rows:frictionloss": 100,
    "adm_rows_saturated:frictionloss": 30,
    "adm_rows_satisfied": 50,
    "adm_cones_middle": 30,
    "adm_cones_bottom": 30,
    "adm_cones_top": 5,
    "adm_cones:dim3": 20,
    "adm_cones:dim4": 20,
    "adm_cones:dim6": 20,
    "adm_contact_force_calls": 200,
    "contacts_with_adhesion": 20,
    "evaluations_after:step": 100,
  }
  for k, v in need.items():
    if cov.get(k, 0) < v:
      unmet.append(f"{k}: {cov.get(k, 0)} < {v}")
  if agg["distinct"] < 30:
    unmet.append("fewer than 30 distinct non-trivial cases")
  return unmet
