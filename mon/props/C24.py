"""C24 Constraint forces are physically admissible.

Invariant monitor (float64 recomputation, no reference engine): after forward() and after each of several step()s, every
world's reported efc.force / efc.state / qfrc_constraint / contact_force must satisfy: limit, frictionless-normal,
pyramid-edge and elliptic-normal forces >= 0; elliptic forces inside their friction cone; |friction-loss force| <=
frictionloss; SATISFIED rows carry exactly zero force; states legal for the row type and uniform within an elliptic
contact; qfrc_constraint = J^T efc.force; contact_force normal >= -adhesion. The invariants live in
mon/props/_efc.py:admissibility() and are also called by C06 on its workload.

Besides single states and short rollouts the workload contains HISTORIES (mon/props/_hist.py): multi-world call sequences
in which a world's row count changes between calls (rows -> none -> rows, through per-world state rewrites, reset_data
with a mask, eq_active toggles, bodies leaving contact) while other worlds keep theirs; worlds without rows are judged too
(J^T efc.force is the empty sum, so qfrc_constraint must vanish).
"""

import mujoco
import numpy as np

from mon import core, gen, mw
from mon.props import C06
from mon.props import _efc as E
from mon.props import _hist as H
from mon.props import _scenes as S

ID = "C24"
LEVEL = "exploration"
RULE = (
  "case=(kind,seed): generated constraint scene (equalities, dof/tendon friction loss, joint/tendon limits, contacts of "
  "condim 1/3/4/6 with margins and geom adhesion, adhesion actuators), pile, closed loop or repository model; both cones, "
  "both solvers, dense/sparse; 3 worlds; invariants evaluated after forward() and after each of 4 step()s (warm-started "
  "solves on moving states). Non-trivial: >=1 evaluation with >=3 rows carrying non-zero force; distinct by hash(xml, qpos, qvel). "
  "kind=hist (histories): 2..5 worlds of a scene without dry friction (free bodies over a plane, limited arm, connect/joint/weld "
  "equalities, tendon limit), 10 calls (forward or step); between calls single worlds are rewritten (qpos/qvel/eq_active), reset "
  "with a reset_data mask or a reset_data_keyframe key array, have eq_active toggled, or bounce off the floor, so that their row count goes rows -> 0 -> rows while "
  "a keeper world (world 0 in 2 of 3 cases, else the last) keeps its rows; now and then all worlds are emptied at once. Every world "
  "is judged after every call, worlds with nefc == 0 included (qfrc_constraint must be the empty sum). Non-trivial: a world that "
  "carried constraint force is judged with nefc == 0 while another world has rows. "
  "kind=cut (cut-off solves): 2..4 worlds of a non-colliding chain (nv 2 or 4) with joint / fixed-tendon friction loss, opt.iterations "
  "1..3 (sometimes 5 / 50), warm start on, 8 calls (step, or forward with qacc copied into qacc_warmstart); between calls each world's "
  "qfrc_applied (5..25 x friction loss) reverses sign with probability 0.7, so warm-started friction rows jump from one saturated side to "
  "the other within one iteration and the solve stops at its iteration limit; two cases of three are Newton/pyramidal (dense, sparse). "
  "Every world is judged after every call whether or not the ITERATIONS overflow bit is set. Non-trivial: a friction row changed its "
  "saturated side in a solve that ended at the iteration limit."
)
ASSUMPTIONS = [
  "sign and cone conventions are MuJoCo's documented ones (force >= 0 pushes out of the constraint; elliptic cone "
  "sum_j (f_j/friction_j)^2 <= f_normal^2)",
  "float32 allowances: cone membership 1e-4 relative, friction loss 1e-5 relative, qfrc_constraint 128*eps32*(|J|^T|f| + "
  "|Ma| + |qfrc_smooth| + start-point terms) because Newton/pyramidal reconstructs it as Ma - qfrc_smooth - grad",
  "worlds whose row capacity overflowed are skipped (C16); iteration-limit worlds ARE judged (admissibility does not need convergence)",
  "a world with nefc == 0 has J^T efc.force = 0: qfrc_constraint is judged against 128*eps32*(|Ma| + |qfrc_smooth| + |M||warmstart|) + 1e-6 "
  "(Newton/pyramidal reconstructs it as Ma - qfrc_smooth - grad; every other path writes exact zeros)",
  "histories, Newton/pyramidal: the start-point terms of the qfrc_constraint allowance also contain |J|^T |f(J start - aref)|, the "
  "row forces at the start point of the solve (warmstart, or qacc_smooth with WARMSTART disabled): after a rewrite/reset the start "
  "point is far from the solution and the reconstruction's round-off is ~1 eps32 of that magnitude",
  "history events only use public state arrays (qpos, qvel, eq_active) and mjw.reset_data(reset=mask); the states they write are "
  "accepted by MuJoCo (finite qacc < 1e5, no warning)",
]
BUDGET = {"quick": 300, "thorough": 1500}

PROFILE = gen.profile(
  **{
    **C06.BASE,
    "geoms": ("sphere", "capsule", "ellipsoid", "box", "cylinder"),
    "p_adhesion": 0.3,
    "actuators": 2,
    "act_trn": ("body", "joint"),
    "act_kinds": ("motor", "position"),
    "flags_disable": (),
  }
)
NSTEP = 4


def cases(tier, seed):
  out = []
  ngen = 50 if tier == "quick" else 1000
  nscene = 20 if tier == "quick" else 300
  combos = [(c, s, j) for c in ("pyramidal", "elliptic") for s in ("Newton", "CG") for j in ("dense", "sparse")]
  # histories (row counts of single worlds change between calls): every cone x solver x jacobian equally often, world 0
  # keeps its rows in two cases of three, the last world does in the third. Listed first and declared with the largest
  # weight (workers run their cases by descending weight): cheap cases, and the family is observed even when a loaded
  # machine makes the budget expire early.
  for i in range(40 if tier == "quick" else 400):
    c, s, j = combos[i % 8]
    out.append({"id": f"hist{seed}_{i}", "kind": "hist", "seed": seed * 100000 + 30000 + i, "cone": c, "solver": s, "jac": j, "keep0": int((i // 8) % 3 != 2), "weight": 2})
  # cut-off solves (iteration limit 1..3, warm start, applied force reversing against dry friction): two cases of three are
  # Newton/pyramidal (the incremental path that reconstructs qfrc_constraint from the gradient), the rest cycles the others
  others = [cb for cb in combos if cb[:2] != ("pyramidal", "Newton")]
  for i in range(36 if tier == "quick" else 360):
    c, s, j = ("pyramidal", "Newton", ("dense", "sparse")[(i // 3) % 2]) if i % 3 != 2 else others[(i // 3) % 6]
    out.append({"id": f"cut{seed}_{i}", "kind": "cut", "seed": seed * 100000 + 40000 + i, "cone": c, "solver": s, "jac": j, "weight": 2})
  for i in range(ngen):
    out.append({"id": f"gen{seed}_{i}", "kind": "gen", "seed": seed * 100000 + i, "settle": (0, 20)[i % 2], "exact_geoms": 0})
  for i in range(nscene):
    c, s, j = combos[i % 8]
    out.append({"id": f"pile{seed}_{i}", "kind": "pile", "seed": seed * 100000 + 50000 + i, "n": (3, 4, 5, 8)[(i // 8) % 4], "cone": c, "solver": s, "jac": j, "settle": (60, 0)[i % 2], "exact_geoms": 0, "weight": 2})
    c, s, j = combos[(i + 5) % 8]
    out.append({"id": f"loop{seed}_{i}", "kind": "loop", "seed": seed * 100000 + 70000 + i, "n": (2, 3, 4, 6)[(i // 8) % 4], "cone": c, "solver": s, "jac": j, "settle": 0, "exact_geoms": 1})
  for k, p in enumerate(C06.REPO_MODELS):
    for r in range(2 if tier == "quick" else 10):
      c, s, j = combos[(k * 3 + r + 1) % 8]
      out.append({"id": f"repo{seed}_{k}_{r}", "kind": "repo", "path": p, "seed": seed * 100000 + 90000 + r, "cone": c, "solver": s, "jac": j, "settle": 20, "exact_geoms": 0, "weight": 2})
  return out


def run_case(case):
  import mujoco_warp as mjw

  if case["kind"] == "hist":
    return run_hist(case)
  if case["kind"] == "cut":
    return run_cut(case)
  rec = core.Rec(case)
  rng = np.random.default_rng(case["seed"] + 11)
  if case["kind"] == "gen":
    xml, mjm, feat, _ = gen.make_model(case["seed"], PROFILE)
    feat = feat or []
  else:
    xml, mjm, feat = C06.build(case, rng)
  if mjm is None:
    rec.rejected = "mujoco compile"
    return rec.result()
  try:
    m = mw.put_model(mjm)
  except (NotImplementedError, ValueError) as e:
    rec.rejected = f"put_model: {e}"[:200]
    rec.count("rejected_put_model")
    return rec.result()
  solver = "Newton" if mjm.opt.solver == mujoco.mjtSolver.mjSOL_NEWTON else "CG"
  cone = "elliptic" if mjm.opt.cone == mujoco.mjtCone.mjCONE_ELLIPTIC else "pyramidal"
  nworld = 3
  states = []
  for w in range(nworld):
    st = gen.sample_state(mjm, rng, vel=float(rng.choice([0.0, 0.5, 2.0])), quat_scale=False)
    if case["kind"] in ("pile", "repo") and w < 2:
      st["qpos"] = (np.array(mjm.qpos0) + (rng.normal(size=mjm.nq) * 0.01 if w else 0)).astype(np.float32)
      st["qvel"] = (st["qvel"] * 0.1).astype(np.float32)
    if mjm.nu:
      st["ctrl"] = np.abs(st["ctrl"]).astype(np.float32)
    states.append(S.settle(mjm, st, case["settle"]))
  try:
    need = 0
    for st in states:
      mjd = mujoco.MjData(mjm)
      mw.apply_state_mj(mjm, mjd, st)
      mujoco.mj_forward(mjm, mjd)
      need = max(need, int(mjd.nefc))
      ncon = int(mjd.ncon)
  except mujoco.FatalError:
    rec.rejected = "mujoco fatal error on this state"
    return rec.result()
  njmax = next((c for c in C06.NJMAX if c >= 2 * need + 16), None)
  if njmax is None:
    rec.rejected = f"scene needs {need} rows"
    rec.count("rejected_too_many_rows")
    return rec.result()
  d = mw.make_data(mjm, m, states, njmax=njmax, nconmax=max(64, 3 * ncon + 16))
  nontriv = False
  for k in range(NSTEP + 1):
    ws = np.array(mw.npy(d.qacc_warmstart), dtype=np.float64)[:, : mjm.nv]
    if k == 0:
      mjw.forward(m, d)
    else:
      mjw.step(m, d)
    qa = mw.npy(d.qacc)
    if not np.all(np.isfinite(qa)) or not np.all(np.isfinite(mw.npy(d.qpos))):
      rec.count("rollout_diverged(stopped)")
      break
    nac = int(mw.npy(d.nacon)[0])
    for w in range(nworld):
      rows = mw.efc_rows(mjm, m, d, w)
      if not E.capacity_ok(d, w, rows):
        rec.count("evaluations_capacity_exceeded")
        continue
      n = E.admissibility(rec, mjm, m, d, w, rows=rows, contact_force=True, start=ws[w], judge_empty=True)
      rec.cover("evaluations", 1)
      rec.cover(f"evaluations:{solver}:{cone}:{'sparse' if m.is_sparse else 'dense'}", 1)
      rec.cover("evaluations_after:" + ("forward" if k == 0 else "step"), 1)
      if n and int((np.asarray(rows["force"]) != 0).sum()) >= 3:
        nontriv = True
      # adhesion contacts that are active
      con = mw.contacts(d, w)
      adh = np.asarray(mw.npy(d.contact.adhesion))[con["slot"]] if len(con["slot"]) else np.zeros(0)
      if len(adh):
        rec.cover("contacts_with_adhesion", int(((adh != 0) & (con["efc_address"][:, 0] >= 0)).sum()))
        rec.cover("contacts_active", int((con["efc_address"][:, 0] >= 0).sum()))
  for f in feat:
    rec.cover("features", f)
  rec.cover("kind:" + case["kind"], 1)
  if nontriv:
    rec.nontrivial(xml, *[s["qpos"] for s in states], *[s["qvel"] for s in states])
  rec.sample = {"kind": case["kind"], "model": case.get("path", f"seed {case['seed']}"), "nv": mjm.nv, "nu": mjm.nu, "solver": solver, "cone": cone, "sparse": bool(m.is_sparse), "nefc_last": [int(x) for x in mw.npy(d.nefc)]}
  return rec.result()


HIST_CALLS = 10


def _hist_event(rng, info, cur, nonempty_now):
  """Chooses what happens to one flipping world before the next call: (mechanism, target kind) or None."""
  if rng.random() >= 0.55:
    return None
  want_empty = rng.random() < (0.8 if nonempty_now else 0.25)
  has_eq = bool(info["eq"])
  if want_empty:
    opts = ["write_free", "write_free"]
    if info["lifted0"]:
      opts += ["reset", "reset"]
    else:
      opts += ["reset_key"]  # keyframe 0 = lifted placement
    if cur == "eqonly":
      opts += ["eq_off"] * 3
    if cur in ("rest", "bounce"):
      opts += ["write_bounce"]
  else:
    opts = ["write_rest", "write_rest"]
    if not info["lifted0"]:
      opts += ["reset", "reset"]
    else:
      opts += ["reset_key"]  # keyframe 0 = bodies on the floor
    if has_eq:
      opts += ["write_eqonly"]
      if cur == "free":
        opts += ["eq_on", "eq_on"]
  mech = opts[int(rng.integers(len(opts)))]
  kind = {"write_free": "free", "write_rest": "rest", "write_bounce": "bounce", "write_eqonly": "eqonly", "eq_off": "free", "eq_on": "eqonly", "reset": "free" if info["lifted0"] else "rest", "reset_key": "rest" if info["lifted0"] else "free"}[mech]
  return mech, kind


def run_hist(case):
  """Histories: several worlds of one scene; between calls a world's state is rewritten / reset with a mask / has its
  equalities toggled / bounces off the floor, so that its row count goes rows -> none -> rows while at least one other
  world (world 0 in two cases of three) keeps its rows. The invariants are judged after every call in every world."""
  import mujoco_warp as mjw

  rec = core.Rec(case)
  rng = np.random.default_rng(case["seed"] + 23)
  xml, info = H.scene(rng, case["cone"], case["solver"], case["jac"])
  mjm = gen.compile_xml(xml)
  if mjm is None:
    rec.rejected = "mujoco compile"
    return rec.result()
  try:
    m = mw.put_model(mjm)
  except (NotImplementedError, ValueError) as e:
    rec.rejected = f"put_model: {e}"[:200]
    rec.count("rejected_put_model")
    return rec.result()
  combo = f"{case['solver']}:{case['cone']}:{'sparse' if m.is_sparse else 'dense'}"
  nworld = int(rng.integers(2, 6))
  keepers = {0} if case["keep0"] else {nworld - 1}
  if nworld >= 4 and rng.random() < 0.3:
    keepers.add(int(rng.integers(1, nworld - 1)))

  def draw(kind, want_empty=None, tries=6):
    for _ in range(tries):
      st = H.state(mjm, info, rng, kind)
      if st is None:
        return None
      if kind == "rest" and rng.random() < 0.5:
        st = dict(S.settle(mjm, st, 15), kind="rest")
      nefc, ncon, ok = H.classify(mjm, st)
      if ok and (want_empty is None or (nefc == 0) == want_empty):
        st["nefc_mj"], st["ncon_mj"] = nefc, ncon
        return st
    return None

  states, cur = [], []
  for w in range(nworld):
    kind = "rest" if (w in keepers or rng.random() < 0.8) else "free"
    st = draw(kind, want_empty=(kind == "free"))
    if st is None:
      rec.rejected = f"no usable {kind} state"
      rec.count("rejected_hist_state")
      return rec.result()
    states.append(st)
    cur.append(kind)
  probe = [draw("rest") for _ in range(4)]
  need = max([s["nefc_mj"] for s in states] + [s["nefc_mj"] for s in probe if s is not None])
  ncon = max([s["ncon_mj"] for s in states] + [s["ncon_mj"] for s in probe if s is not None])
  njmax = next((c for c in C06.NJMAX if c >= 2 * need + 16), None)
  if njmax is None:
    rec.rejected = f"scene needs {need} rows"
    rec.count("rejected_too_many_rows")
    return rec.result()
  d = mw.make_data(mjm, m, states, njmax=njmax, nconmax=max(64, 3 * ncon + 16))
  had_force = [False] * nworld  # some earlier call left a non-zero qfrc_constraint in this world
  was_empty_after_force = [False] * nworld
  last_nefc = [None] * nworld
  last_qfrc = [0.0] * nworld
  quiet = [0] * nworld
  warm_disabled = bool(mjm.opt.disableflags & mujoco.mjtDisableBit.mjDSBL_WARMSTART)
  nontriv = False
  calls = []
  for k in range(HIST_CALLS):
    mech_of = {}
    if k:
      writes, wstates, resets, keyed, togg, tvals = [], [], [], [], [], []
      everyone = rng.random() < 0.06  # now and then every world (keepers too) loses its rows at once
      for w in range(nworld):
        if w in keepers and not everyone:
          continue
        ev = ("write_free", "free") if everyone else _hist_event(rng, info, cur[w], bool(last_nefc[w]))
        if quiet[w] > 0 and not everyone:
          quiet[w] -= 1  # a bouncing world is left alone for two calls so that it leaves the floor by itself
          continue
        if ev is None:
          continue
        mech, kind = ev
        quiet[w] = 2 if mech == "write_bounce" else 0
        if mech == "reset":
          resets.append(w)
        elif mech == "reset_key":
          keyed.append(w)
          if kind == "free" and np.any(mjm.eq_active0):
            kind = "eqonly"  # the keyframe restores eq_active0
        elif mech in ("eq_off", "eq_on"):
          v = np.zeros(mjm.neq, dtype=bool)
          if mech == "eq_on":
            v[:] = [(name != "weld") or info["lifted0"] for name in info["eq"]]
            if not v.any():
              continue
          togg.append(w)
          tvals.append(v)
        else:
          st = draw(kind, want_empty=True if kind == "free" else (False if kind in ("rest", "eqonly") else None))
          if st is None:
            rec.count("hist_event_state_not_found")
            continue
          writes.append(w)
          wstates.append(st)
        mech_of[w] = mech
        cur[w] = kind
        rec.cover("hist:event:" + mech, 1)
      H.reset_worlds(m, d, resets)
      H.reset_key_worlds(m, d, keyed)
      H.write_worlds(d, writes, wstates)
      H.toggle_eq(d, togg, tvals)
      if everyone:
        for w in keepers:  # they come back on the following call
          cur[w] = "pending_rest"
      else:
        back = [w for w in keepers if cur[w] == "pending_rest"]
        sts = [draw("rest", want_empty=False) for _ in back]
        if all(s is not None for s in sts):
          H.write_worlds(d, back, sts)
          for w in back:
            cur[w] = "rest"
    ws = np.array(mw.npy(d.qacc_warmstart), dtype=np.float64)[:, : mjm.nv]
    call = "forward" if rng.random() < 0.3 else "step"
    calls.append(call)
    if call == "forward":
      mjw.forward(m, d)
    else:
      mjw.step(m, d)
    if not np.all(np.isfinite(mw.npy(d.qacc))) or not np.all(np.isfinite(mw.npy(d.qpos))):
      rec.count("rollout_diverged(stopped)")
      break
    if warm_disabled:  # the solve started from qacc_smooth (same state: step() integrates after the solve)
      ws = np.array(mw.npy(d.qacc_smooth), dtype=np.float64)[:, : mjm.nv]
    nefc = [int(x) for x in mw.npy(d.nefc)]
    qfc = np.abs(np.asarray(mw.npy(d.qfrc_constraint), dtype=np.float64)[:, : mjm.nv]).max(axis=1)
    for w in range(nworld):
      rows = mw.efc_rows(mjm, m, d, w)
      if not E.capacity_ok(d, w, rows):
        rec.count("evaluations_capacity_exceeded")
        last_nefc[w] = nefc[w]
        continue
      E.admissibility(rec, mjm, m, d, w, rows=rows, contact_force=True, start=ws[w], judge_empty=True, start_force=True)
      rec.cover("evaluations", 1)
      rec.cover(f"evaluations:{combo}", 1)
      rec.cover("evaluations_after:" + call, 1)
      rec.cover("hist:evaluations", 1)
      others = any(nefc[v] > 0 for v in range(nworld) if v != w)
      if nefc[w] == 0:
        rec.cover("hist:empty_world_evaluations", 1)
        if not others:
          rec.cover("hist:all_worlds_empty_evaluations", 1)
        if had_force[w]:
          was_empty_after_force[w] = True
          rec.cover("hist:emptied_after_force", 1)
          if others:
            rec.cover(f"hist:emptied_after_force_others_have_rows:{combo}", 1)
            nontriv = True
            if w > 0 and nefc[0] > 0:
              rec.cover("hist:emptied_after_force_while_world0_has_rows", 1)
            if w == 0:
              rec.cover("hist:world0_emptied_after_force_while_others_have_rows", 1)
        if last_nefc[w]:
          # the transition itself: rows at the previous call, none now
          rec.cover("hist:emptied_by:" + mech_of.get(w, "dynamics"), 1)
          if last_qfrc[w] > 1e-3:
            rec.cover("hist:emptied_right_after_nonzero_qfrc_constraint", 1)
      else:
        if was_empty_after_force[w] and last_nefc[w] == 0:
          rec.cover("hist:refilled_after_empty", 1)
          rec.cover("hist:refilled_by:" + mech_of.get(w, "dynamics"), 1)
        if last_nefc[w] is not None and last_nefc[w] != nefc[w]:
          rec.cover("hist:row_count_changed_nonzero", 1)
      if qfc[w] > 1e-3 and nefc[w] > 0:
        had_force[w] = True
      last_nefc[w] = nefc[w]
      last_qfrc[w] = float(qfc[w])
  rec.cover("kind:hist", 1)
  rec.cover("hist:nworld", str(nworld))
  rec.cover("hist:keeper", "world0" if 0 in keepers else "last_world")
  for name in info["eq"]:
    rec.cover("features", "hist:eq:" + name)
  if mjm.ntendon:
    rec.cover("features", "hist:tendon_limit")
  if mjm.opt.disableflags & mujoco.mjtDisableBit.mjDSBL_WARMSTART:
    rec.cover("features", "hist:warmstart_disabled")
  if nontriv:
    rec.nontrivial(xml, case["seed"], *[s["qpos"] for s in states])
  rec.sample = {"kind": "hist", "model": f"seed {case['seed']}", "nv": mjm.nv, "nworld": nworld, "keepers": sorted(keepers), "combo": combo, "calls": calls, "nefc_last": [int(x) for x in mw.npy(d.nefc)], "eq": info["eq"], "lifted0": info["lifted0"]}
  return rec.result()


CUT_CALLS = 8


def run_cut(case):
  """Cut-off solves: a chain with joint / tendon friction loss, iteration limit 1..3 (now and then 5 / 50), warm start on.
  Between calls each world's large applied generalized force (qfrc_applied, several times the friction loss) reverses
  sign with probability 0.7, so warm-started friction rows sit saturated on one side and the first Newton/CG iteration
  carries them to the other side; the solve stops at its iteration limit wherever it happens to be. The invariants do not
  need convergence: every world is judged after every call, iteration-limit bit set or not."""
  import warp as wp

  import mujoco_warp as mjw

  rec = core.Rec(case)
  rng = np.random.default_rng(case["seed"] + 37)
  xml, info = H.cut_scene(rng, case["cone"], case["solver"], case["jac"])
  mjm = gen.compile_xml(xml)
  if mjm is None:
    rec.rejected = "mujoco compile"
    return rec.result()
  try:
    m = mw.put_model(mjm)
  except (NotImplementedError, ValueError) as e:
    rec.rejected = f"put_model: {e}"[:200]
    rec.count("rejected_put_model")
    return rec.result()
  nv = mjm.nv
  combo = f"{case['solver']}:{case['cone']}:{'sparse' if m.is_sparse else 'dense'}"
  nworld = int(rng.integers(2, 5))
  mode = "step" if rng.random() < 0.5 else "forward+warmstart"  # forward(): the caller carries qacc over as the next warm start
  flscale = max(max(info["fl"]), 0.2)
  tau = rng.uniform(5.0, 25.0, size=(nworld, nv)) * flscale * rng.choice([-1.0, 1.0], size=(nworld, nv))
  sign = rng.choice([-1.0, 1.0], size=nworld)
  states = []
  for w in range(nworld):
    states.append(
      {
        "qpos": (np.array(mjm.qpos0) + rng.uniform(-0.5, 0.5, size=mjm.nq)).astype(np.float32),
        "qvel": (rng.normal(size=nv) * 0.1).astype(np.float32),
        "act": np.zeros(mjm.na, np.float32),
        "ctrl": np.zeros(mjm.nu, np.float32),
        "mocap_pos": np.zeros((mjm.nmocap, 3), np.float32),
        "mocap_quat": np.zeros((mjm.nmocap, 4), np.float32),
        "qfrc_applied": (sign[w] * tau[w]).astype(np.float32),
        "xfrc_applied": np.zeros((mjm.nbody, 6), np.float32),
        "eq_active": np.zeros(mjm.neq, dtype=bool),
        "time": np.float32(0.0),
      }
    )
  d = mw.make_data(mjm, m, states, njmax=C06.NJMAX[0], nconmax=64)
  small = info["iterations"] <= 3
  prev_side = [None] * nworld
  nontriv = False
  for k in range(CUT_CALLS):
    if k:
      for w in range(nworld):
        if rng.random() < 0.7:
          sign[w] = -sign[w]
        if rng.random() < 0.3:
          tau[w] *= rng.uniform(0.6, 1.5)
      wp.copy(d.qfrc_applied, wp.array((sign[:, None] * tau).astype(np.float32), dtype=float))
    ws = np.array(mw.npy(d.qacc_warmstart), dtype=np.float64)[:, :nv]
    if mode == "step":
      mjw.step(m, d)
    else:
      mjw.forward(m, d)
    if not np.all(np.isfinite(mw.npy(d.qacc))) or not np.all(np.isfinite(mw.npy(d.qpos))):
      rec.count("rollout_diverged(stopped)")
      break
    ovf = mw.npy(d.overflow)
    for w in range(nworld):
      rows = mw.efc_rows(mjm, m, d, w)
      if not E.capacity_ok(d, w, rows):
        rec.count("evaluations_capacity_exceeded")
        continue
      n = E.admissibility(rec, mjm, m, d, w, rows=rows, contact_force=False, sig_prefix="cut:", start=ws[w], judge_empty=True, start_force=True)
      rec.cover("evaluations", 1)
      rec.cover(f"evaluations:{combo}", 1)
      rec.cover("evaluations_after:" + ("step" if mode == "step" else "forward"), 1)
      rec.cover("cut:evaluations", 1)
      rec.cover(f"cut:evaluations:{combo}", 1)
      cut = bool(int(ovf[w]) & E.OVF_ITER)
      if cut:
        rec.cover("cut:evaluations_at_iteration_limit", 1)
        rec.cover(f"cut:evaluations_at_iteration_limit:{combo}", 1)
      if not n:
        continue
      t = np.asarray(rows["type"], dtype=int)
      f = np.asarray(rows["force"], dtype=np.float64)
      fl = np.asarray(rows["frictionloss"], dtype=np.float64)
      fric = (t == E.T_FDOF) | (t == E.T_FTEN)
      side = np.where(fric & (np.abs(f) >= fl * (1 - 1e-6)), np.sign(f), 0.0)
      if prev_side[w] is not None and len(prev_side[w]) == len(side):
        nflip = int(((side * prev_side[w]) < 0).sum())
        if nflip:
          rec.cover("cut:friction_rows_changed_saturated_side", nflip)
          if cut:
            rec.cover("cut:friction_rows_changed_saturated_side_at_iteration_limit", nflip)
            rec.cover(f"cut:friction_rows_changed_saturated_side_at_iteration_limit:{combo}", nflip)
            nontriv = True
      prev_side[w] = side
    if mode != "step":
      wp.copy(d.qacc_warmstart, d.qacc)
  rec.cover("kind:cut", 1)
  rec.cover("cut:iterations", str(info["iterations"]))
  rec.cover("cut:mode", mode)
  if info["tendon"]:
    rec.cover("features", "cut:tendon_frictionloss")
  if info["limits"]:
    rec.cover("features", "cut:joint_limits")
  if nontriv:
    rec.nontrivial(xml, case["seed"], *[s["qpos"] for s in states])
  rec.sample = {"kind": "cut", "model": f"seed {case['seed']}", "nv": nv, "nworld": nworld, "combo": combo, "iterations": info["iterations"], "mode": mode, "nefc_last": [int(x) for x in mw.npy(d.nefc)]}
  return rec.result()


def requirements(agg, tier):
  unmet = []
  cov = agg["cover"]
  q = tier == "quick"
  # cut-off solves: friction rows that changed their saturated side in a solve that stopped at its iteration limit
  for j in ("dense", "sparse"):
    k = f"cut:friction_rows_changed_saturated_side_at_iteration_limit:Newton:pyramidal:{j}"
    if cov.get(k, 0) < (20 if q else 200):
      unmet.append(f"{k}: {cov.get(k, 0)} < {20 if q else 200}")
  for k, v in {"cut:evaluations_at_iteration_limit": 100, "cut:friction_rows_changed_saturated_side_at_iteration_limit": 60}.items():
    if cov.get(k, 0) < v:
      unmet.append(f"{k}: {cov.get(k, 0)} < {v}")
  # histories: a world that carried constraint force loses all its rows while another world keeps rows
  for s in ("Newton", "CG"):
    for c in ("pyramidal", "elliptic"):
      for j in ("dense", "sparse"):
        k = f"hist:emptied_after_force_others_have_rows:{s}:{c}:{j}"
        if cov.get(k, 0) < (8 if q else 80):
          unmet.append(f"too few history evaluations for {k}: {cov.get(k, 0)}")
  hneed = {
    "hist:emptied_after_force_while_world0_has_rows": 40,
    "hist:world0_emptied_after_force_while_others_have_rows": 8,
    "hist:emptied_right_after_nonzero_qfrc_constraint": 30,
    "hist:refilled_after_empty": 20,
    "hist:all_worlds_empty_evaluations": 2,
    "hist:emptied_by:write_free": 8,
    "hist:emptied_by:reset": 4,
    "hist:emptied_by:reset_key": 2,
    "hist:emptied_by:eq_off": 2,
    "hist:emptied_by:dynamics": 2,
    "adm_worlds_without_rows": 60,
  }
  for k, v in hneed.items():
    if cov.get(k, 0) < v:
      unmet.append(f"{k}: {cov.get(k, 0)} < {v}")
  for s in ("Newton", "CG"):
    for c in ("pyramidal", "elliptic"):
      for j in ("dense", "sparse"):
        k = f"evaluations:{s}:{c}:{j}"
        if cov.get(k, 0) < (20 if q else 200):
          unmet.append(f"too few evaluations for {k}: {cov.get(k, 0)}")
  need = {
    "adm_rows_active:limit_joint": 50,
    "adm_rows_active:limit_tendon": 20,
    "adm_rows_active:contact_frictionless": 20,
    "adm_rows_active:contact_pyramidal": 200,
    "adm_rows:frictionloss": 100,
    "adm_rows_saturated:frictionloss": 30,
    "adm_rows_satisfied": 50,
    "adm_cones_middle": 30,
    "adm_cones_bottom": 30,
    "adm_cones_top": 5,
    "adm_cones:dim3": 20,
    "adm_cones:dim4": 20,
    "adm_cones:dim6": 20,
    "adm_contact_force_calls": 200,
    "contacts_with_adhesion": 20,
    "evaluations_after:step": 100,
  }
  for k, v in need.items():
    if cov.get(k, 0) < v:
      unmet.append(f"{k}: {cov.get(k, 0)} < {v}")
  if agg["distinct"] < 30:
    unmet.append("fewer than 30 distinct non-trivial cases")
  return unmet
