"""C12 Next step depends only on the integration state.

Metamorphic monitor: the integration state of a fresh Data is copied (get_state -> set_state, signature
INTEGRATION) into (a) a Data with an arbitrary prior history (steps with other inputs, contact phases, resets,
overflowing episodes), (b) a Data of the same history whose every step-writable non-state entry was overwritten
with finite garbage, (c) fresh Datas created while wp.empty returns arrays pre-filled with two different
patterns; step()/forward() from all of them must give bit-identical observables, contacts and rows.
"""

import numpy as np

from mon import core, meta, mw, scenes

ID = "C12"
LEVEL = "exploration"
TECHNIQUE = "runtime monitoring: metamorphic history/poison comparison (scratch-memory sanitizer + state transplant)"
RULE = (
  "case=(scene, entry=step|forward): 2-3 worlds; reference = fresh make_data + set_state(S); variants = Data after a random "
  "history (10-25 steps with other states/controls, reset_data of one world, a starved-capacity episode), the same with all "
  "step-writable non-state entries scrambled, and fresh Datas under two wp.empty fill patterns. Non-trivial: scene has >=1 contact "
  "or constraint row in the compared step and the history Data differed from the fresh one before the transplant; distinct by hash(scene, S)."
)
ASSUMPTIONS = [
  "sleep-disabled models only (as the property states); comparison gated on no capacity-overflow bit in the compared call",
  "expected bit-identical; relative <=1e-4 tallied as round-off, >=1e-2 violation (first-divergence thresholds)",
  "the scrambler only overwrites entries that stepping was observed to modify (model-derived constants in Data are untouched)",
]
BUDGET = {"quick": 200, "thorough": 2400}
CAP_BITS = 1 | 2 | 4 | 8 | 16 | 32 | 64 | 128 | 256


def cases(tier, seed):
  out = []
  nrep = 1 if tier == "quick" else 5
  for r in range(nrep):
    for k, (p, opt) in enumerate(scenes.REPO):
      out.append({"id": f"repo{seed}_{k}_{r}", "scene": {"kind": "repo", "path": p, "opt": opt}, "seed": seed * 1000 + 59 * r + k, "entry": ("step", "forward")[(k + r) % 2], "weight": 3})
  n = 40 if tier == "quick" else 700
  for i in range(n):
    prof = ("full", "free", "joints")[i % 3]
    out.append({"id": f"gen{seed}_{i}", "scene": {"kind": "gen", "seed": seed * 100000 + i, "profile": prof, "override": {"nuserdata": 3, "delays": 0.3}}, "seed": seed * 100000 + i, "entry": ("step", "forward", "step")[i % 3], "weight": 1})
  for i in range(1 if tier == "quick" else 10):
    out.append({"id": f"big{seed}_{i}", "scene": {"kind": "gen", "seed": seed * 100000 + 8000 + i, "profile": "bigtree"}, "seed": seed * 100000 + 8000 + i, "entry": "step", "weight": 4})
  return out


def _observe(mjw, mjm, m, d, entry):
  d.overflow.zero_()
  if entry == "step":
    mjw.step(m, d)
  else:
    mjw.forward(m, d)
  nw = d.nworld
  return {"obs": meta.snap_obs(d), "con": [mw.contacts(d, w) for w in range(nw)], "rows": [mw.efc_rows(mjm, m, d, w) for w in range(nw)]}


def _compare(rec, tag, A, B, nworld):
  if (A["obs"]["overflow"] & CAP_BITS).any() or (B["obs"]["overflow"] & CAP_BITS).any():
    rec.count("ungated_capacity_overflow")
    return "ungated"
  worst = "bit"
  order = {"bit": 0, "round": 1, "incon": 2, "viol": 3}
  for w in range(nworld):
    if meta.gate(A["obs"]["overflow"], w, B["obs"]["overflow"], w):
      rec.count("worlds_ungated_iteration_limit")
      continue
    for c in (
      meta.compare_obs(rec, f"{tag} world {w}", A["obs"], B["obs"], w, w, sig_prefix=tag.split()[0] + ":"),
      meta.compare_contacts(rec, f"{tag} world {w}", A["con"][w], B["con"][w], sig_prefix=tag.split()[0] + ":"),
      meta.compare_rows(rec, f"{tag} world {w}", A["rows"][w], B["rows"][w], sig_prefix=tag.split()[0] + ":", with_force=True),
    ):
      if order[c] > order[worst]:
        worst = c
  return worst


def run_case(case):
  import mujoco
  import warp as wp

  import mujoco_warp as mjw
  from mon import gen, poison

  rec = core.Rec(case)
  rng = np.random.default_rng(case["seed"])
  label, mjm, feats = scenes.scene(case["scene"])
  if mjm is None:
    rec.rejected = "mujoco compile"
    return rec.result()
  try:
    m = mw.put_model(mjm)
  except (NotImplementedError, ValueError) as e:
    rec.rejected = f"put_model: {e}"[:200]
    return rec.result()
  poison.install()
  poison.set_pattern(None)
  nworld = 2 + case["seed"] % 2
  entry = case["entry"]
  S = scenes.settle_states(mjm, rng, nworld, steps=(5, 0, 20))
  sig = int(mjw.State.INTEGRATION)
  nstate = mujoco.mj_stateSize(mjm, sig)

  # reference: fresh Data holding S; its state vector is what gets transplanted
  d_ref = mw.make_data(mjm, m, S)
  # a few steps so that history buffers / warmstart / act are non-trivial parts of the state
  for _ in range(2):
    mjw.step(m, d_ref)
  vec = wp.zeros((nworld, nstate), dtype=float)
  mjw.get_state(m, d_ref, vec, sig)
  fresh_snap0 = poison.snapshot_all(mw.make_data(mjm, m, S))

  def fresh_with_state():
    d = mw.make_data(mjm, m, S)
    mjw.set_state(m, d, vec, sig)
    return d

  ref = _observe(mjw, mjm, m, fresh_with_state(), entry)
  nrow = sum(r["nefc"] for r in ref["rows"])
  ncon = sum(len(c["dist"]) for c in ref["con"])

  # (a) history Data
  H = scenes.settle_states(mjm, rng, nworld, steps=(0, 9, 3), vel=2.0)
  d_h = mw.make_data(mjm, m, H)
  nsteps = int(rng.integers(10, 25))
  for t in range(nsteps):
    if mjm.nu and t % 4 == 0:
      wp.copy(d_h.ctrl, wp.array(rng.normal(size=(nworld, mjm.nu)).astype(np.float32), dtype=float))
    if t == nsteps // 2:
      mask = np.zeros(nworld, dtype=bool)
      mask[int(rng.integers(nworld))] = True
      mjw.reset_data(m, d_h, wp.array(mask, dtype=bool))
    mjw.step(m, d_h)
  # an episode on another Data with starved capacities (dirties allocator reuse, sets overflow bits there)
  try:
    d_o = mw.make_data(mjm, m, H, nconmax=2, njmax=4)
    for _ in range(3):
      mjw.step(m, d_o)
    del d_o
  except Exception:
    rec.count("starved_episode_rejected")
  hist_snap = poison.snapshot_all(d_h)
  differed = any((k in hist_snap and hist_snap[k].shape == v.shape and not np.array_equal(hist_snap[k], v)) for k, v in fresh_snap0.items() if k in ("qfrc_bias", "xpos", "qacc", "efc.force", "contact.dist"))
  mjw.set_state(m, d_h, vec, sig)
  out = _observe(mjw, mjm, m, d_h, entry)
  rec.count("history_" + _compare(rec, "history vs fresh", ref, out, nworld))

  # (b) scrambled Data
  d_s = mw.make_data(mjm, m, H)
  for _ in range(3):
    mjw.step(m, d_s)
  mask = poison.writable_mask(fresh_snap0, poison.snapshot_all(d_s))
  nscr = poison.scramble(d_s, mask, rng)
  mjw.set_state(m, d_s, vec, sig)
  out = _observe(mjw, mjm, m, d_s, entry)
  rec.count("scrambled_" + _compare(rec, "scrambled vs fresh", ref, out, nworld))
  rec.cover("scrambled_entries", nscr)
  rec.cover("scrambled_fields", sorted(mask.keys()))

  # (c) wp.empty patterns
  outs = []
  for f, i in ((1234.5, 1), (-321.25, 2)):
    poison.set_pattern(f, i)
    d_p = fresh_with_state()
    outs.append(_observe(mjw, mjm, m, d_p, entry))
    poison.set_pattern(None)
  rec.count("poisonA_" + _compare(rec, "wp.empty-patternA vs fresh", ref, outs[0], nworld))
  rec.count("poisonB_" + _compare(rec, "wp.empty-patternB vs patternA", outs[0], outs[1], nworld))
  rec.cover("wp_empty_calls_poisoned", poison.COUNT["empty_calls"])

  for f in feats:
    rec.cover("features", f)
  rec.cover("entry:" + entry, 1)
  rec.cover("rows_seen", nrow)
  rec.cover("contacts_seen", ncon)
  if (nrow + ncon) > 0 and differed:
    rec.nontrivial(label, *[s["qpos"] for s in S])
  rec.sample = {"scene": case["scene"], "entry": entry, "nworld": nworld, "history_steps": nsteps, "state_size": int(nstate), "rows": nrow, "contacts": ncon, "scrambled_entries": nscr}
  return rec.result()


def requirements(agg, tier):
  unmet = []
  t = agg["tally"]
  for k in ("history_", "scrambled_", "poisonA_", "poisonB_"):
    judged = sum(v for kk, v in t.items() if kk.startswith(k) and not kk.endswith("ungated"))
    if judged < 30:
      unmet.append(f"only {judged} gated comparisons of kind {k} (<30)")
  if agg["cover"].get("wp_empty_calls_poisoned", 0) < 100:
    unmet.append("wp.empty poisoner intercepted fewer than 100 allocations")
  if agg["cover"].get("scrambled_entries", 0) < 10000:
    unmet.append("scrambler overwrote fewer than 10000 entries")
  return unmet
