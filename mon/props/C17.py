"""C17 No out-of-bounds access or crash on accepted inputs.

Bounds-checked execution monitor: every kernel is compiled with Warp's debug mode (array indexing asserts,
abort with "Assertion failed ... array.h") in a private kernel cache, and the public simulation API is driven
on generated / repository models with default, tiny, zero and exact-fit capacities, random flag sets
(incl. sleeping with and without islands) and extreme finite states.  A worker that dies (assertion, signal)
is a violation attributed to the case that was running; an exception raised by the library after it accepted
the model and Data is a violation; invalid arguments must be rejected with ValueError/NotImplementedError.
"""

import numpy as np

from mon import core, mw, scenes

ID = "C17"
LEVEL = "exploration"
TECHNIQUE = "runtime monitoring: sanitizer-style bounds-checked kernel build (wp.config.mode=debug) + crash/exception oracle over the public API"
CRASH_IS_VIOLATION = True
RULE = (
  "case=(scene, flag set, capacity class in {default, tiny, zero, exact-fit}, nworld 1-3, state class): public API sequence "
  "put_model, make_data/put_data, step x3, forward, step1/step2, inverse, reset_data(mask), reset_data_keyframe, get/set_state, "
  "contact_force (all ids below min(nacon,naconmax) and after overflow), jac, mul_m, solve_m, factor_m, ray/rays, get_data_into. "
  "Non-trivial: >=6 API entry points ran on an accepted model with nv>=2; distinct by hash(scene, capacities, flags)."
)
ASSUMPTIONS = [
  "Warp 1.17 debug mode asserts 0 <= |index| < extent for every array access but wraps negative indices (memory-safe reads of element n+i are not flagged)",
  "only paths that the workloads drive on Warp's CPU device are observed",
  "NaN/Inf states are out of the deciding tier (reported separately in thorough)",
]
BUDGET = {"quick": 260, "thorough": 2700}


def cases(tier, seed):
  import mujoco

  out = []
  capclasses = ("default", "tiny", "zero", "exact", "tiny")
  nrep = 1 if tier == "quick" else 5
  for r in range(nrep):
    for k, (p, opt) in enumerate(scenes.REPO):
      out.append({"id": f"repo{seed}_{k}_{r}", "mode": "debug", "scene": {"kind": "repo", "path": p, "opt": opt}, "seed": seed * 1000 + 71 * r + k, "caps": capclasses[(k + r) % 5], "nworld": 1 + (k + r) % 3, "weight": 3})
  n = 42 if tier == "quick" else 700
  flagsets = [0, int(mujoco.mjtEnableBit.mjENBL_SLEEP), 0, int(mujoco.mjtEnableBit.mjENBL_ENERGY), 0, int(mujoco.mjtEnableBit.mjENBL_SLEEP)]
  for i in range(n):
    prof = ("full", "free", "joints")[i % 3]
    en = flagsets[(i // 3) % len(flagsets)]  # every profile meets every flag set
    dis = 0
    if i % 11 == 5:
      dis = int(mujoco.mjtDisableBit.mjDSBL_ISLAND)
    sc = {"kind": "gen", "seed": seed * 100000 + i, "profile": prof, "opt": {"enable": en, "disable": dis}}
    if en & int(mujoco.mjtEnableBit.mjENBL_SLEEP):
      sc["override"] = {"solvers": ("Newton",)}
    out.append({"id": f"gen{seed}_{i}", "mode": "debug", "scene": sc, "seed": seed * 100000 + i, "caps": capclasses[i % 5], "nworld": 1 + i % 3, "extreme": i % 4 == 3, "weight": 1})
  # sleeping on the repository's tendon / equality / actuator models (wake kernels: tendon limits with wrap geoms,
  # equalities, site transmissions)
  sleepers = ["tendon/wrap.xml", "tendon/tendon_limit.xml", "tendon/pulley_wrap.xml", "tendon/site_fixed.xml", "constraints.xml", "actuation/site.xml", "humanoid/humanoid.xml", "collision.xml"]
  for k, p in enumerate(sleepers if tier == "quick" else sleepers * 3):
    out.append(
      {"id": f"sleeprepo{seed}_{k}", "mode": "debug", "scene": {"kind": "repo", "path": p, "opt": {"enable": int(mujoco.mjtEnableBit.mjENBL_SLEEP), "solver": "Newton"}}, "seed": seed * 1000 + 300 + k, "caps": capclasses[k % 5], "nworld": 1 + k % 2, "extreme": k % 3 == 2, "weight": 2}
    )
  # argument validation probes (release build is enough, but keep one mode per check)
  out.append({"id": f"args{seed}", "mode": "debug", "scene": {"kind": "repo", "path": "pendula.xml", "opt": {}}, "seed": seed, "caps": "args", "nworld": 2, "weight": 1})
  return out


def _caps(kind, mjm, m, rng, need=None):
  if kind == "default":
    return {}
  if kind == "tiny":
    c = dict(nconmax=int(rng.integers(1, 4)), njmax=int(rng.integers(1, 9)))
    if m.is_sparse and rng.random() < 0.7:
      c["njmax_nnz"] = int(rng.integers(1, 12))
    return c
  if kind == "zero":
    return dict(nconmax=0, njmax=int(rng.integers(0, 3)))
  if kind == "exact" and need:
    c = dict(naconmax=max(need["nacon"], 0), njmax=max(need["nefc"], 0))
    if m.is_sparse:
      c["njmax_nnz"] = max(need["nnz"], 1)
    return c
  return {}


def _need(mjw, mjm, m, states):
  """counts on a default-capacity Data (release semantics are identical in debug mode)."""
  d = mw.make_data(mjm, m, states, nconmax=200, njmax=400)
  mjw.forward(m, d)
  rows = [mw.efc_rows(mjm, m, d, w) for w in range(d.nworld)]
  return {"nacon": int(mw.npy(d.nacon)[0]), "nefc": int(max(r["nefc"] for r in rows)), "nnz": int(max(r.get("nnz", 0) for r in rows))}


def _args_probe(rec, mjw, mjm, m):
  import warp as wp

  bad = [
    ("make_data:nconmax<0", lambda: mjw.make_data(mjm, nconmax=-1)),
    ("make_data:njmax<0", lambda: mjw.make_data(mjm, njmax=-1)),
    ("make_data:nvmax>nv", lambda: mjw.make_data(mjm, nvmax=mjm.nv + 1)),
    ("make_data:nvmax<0", lambda: mjw.make_data(mjm, nvmax=-1)),
    ("make_data:nworld=0", lambda: mjw.make_data(mjm, nworld=0)),
    ("make_data:naconmax<0", lambda: mjw.make_data(mjm, naconmax=-5)),
    ("make_data:nccdmax>nconmax", lambda: mjw.make_data(mjm, nconmax=2, nccdmax=3)),
    ("put_model:batch_size=0", lambda: mjw.put_model(mjm, batch_sizes={"geom_size": 0})),
    ("put_model:batch_field_unknown", lambda: mjw.put_model(mjm, batch_sizes={"nv": 2})),
    ("get_state:sig>=2^NSTATE", lambda: mjw.get_state(m, mjw.make_data(mjm), wp.zeros((1, 4), dtype=float), 1 << int(mjw.State.NSTATE))),
    ("reset_data_keyframe:key=nkey", lambda: mjw.reset_data_keyframe(m, mjw.make_data(mjm), int(mjm.nkey))),
    ("reset_data_keyframe:key=-1", lambda: mjw.reset_data_keyframe(m, mjw.make_data(mjm), -1)),
  ]
  for name, fn in bad:
    rec.check()
    try:
      fn()
    except (ValueError, NotImplementedError, TypeError, IndexError) as e:
      rec.count("invalid_rejected")
      continue
    rec.viol(f"invalid-accepted:{name}", f"invalid configuration accepted without exception: {name}")


def run_case(case):
  import mujoco
  import warp as wp

  import mujoco_warp as mjw

  rec = core.Rec(case)
  rng = np.random.default_rng(case["seed"])
  label, mjm, feats = scenes.scene(case["scene"])
  if mjm is None:
    rec.rejected = "mujoco compile"
    return rec.result()
  try:
    m = mw.put_model(mjm)
  except (NotImplementedError, ValueError) as e:
    rec.rejected = f"put_model: {e}"[:200]
    return rec.result()
  if case["caps"] == "args":
    _args_probe(rec, mjw, mjm, m)
    rec.nontrivial("args")
    rec.cover("api", "argument_validation")
    rec.sample = {"probe": "argument validation"}
    return rec.result()
  nworld = case["nworld"]
  states = scenes.settle_states(mjm, rng, nworld, steps=(6, 0, 20))
  if case.get("extreme"):
    for s in states:
      s["qvel"] = (s["qvel"] * 0 + rng.normal(size=mjm.nv) * 300).astype(np.float32)
      s["ctrl"] = (rng.normal(size=mjm.nu) * 1e4).astype(np.float32)
      s["xfrc_applied"] = (rng.normal(size=(mjm.nbody, 6)) * 1e3).astype(np.float32)
  need = _need(mjw, mjm, m, states) if case["caps"] == "exact" else None
  caps = _caps(case["caps"], mjm, m, rng, need)
  api = []
  try:
    d = mw.make_data(mjm, m, states, **caps)
  except ValueError as e:
    rec.rejected = f"make_data: {e}"[:200]
    rec.count("make_data_rejected")
    return rec.result()
  api.append("make_data")
  iters = int(mjm.opt.iterations)

  def chk_iter():
    rec.check()
    ni = mw.npy(d.solver_niter)
    if (ni > iters).any():
      rec.viol("solver_niter>iterations", f"solver_niter {ni} exceeds opt.iterations {iters}")

  for _ in range(3):
    mjw.step(m, d)
    chk_iter()
  api.append("step")
  mjw.forward(m, d)
  chk_iter()
  api.append("forward")
  if mjm.opt.integrator != mujoco.mjtIntegrator.mjINT_RK4:
    mjw.step1(m, d)
    mjw.step2(m, d)
    api.append("step1/step2")
  mjw.inverse(m, d)
  api.append("inverse")
  # contact_force over every pool id below min(nacon, naconmax), in random order, both frames
  nacon = int(mw.npy(d.nacon)[0])
  nid = min(nacon, d.naconmax)
  if nid > 0:
    ids = rng.permutation(nid).astype(np.int32)
    force = wp.zeros(nid, dtype=wp.spatial_vector)
    mjw.contact_force(m, d, wp.array(ids, dtype=int), bool(case["seed"] % 2), force)
    f = force.numpy()
    rec.check()
    api.append("contact_force")
  # support functions
  nv = mjm.nv
  vec = wp.array(rng.normal(size=(nworld, nv)).astype(np.float32), dtype=float)
  res = wp.zeros((nworld, nv), dtype=float)
  mjw.mul_m(m, d, res, vec)
  mjw.factor_m(m, d)
  mjw.solve_m(m, d, res, vec)
  api += ["mul_m", "factor_m", "solve_m"]
  jacp = wp.zeros((nworld, 3, nv), dtype=float)
  jacr = wp.zeros((nworld, 3, nv), dtype=float)
  pts = wp.array(rng.normal(size=(nworld, 3)).astype(np.float32), dtype=wp.vec3)
  bodies = wp.array(rng.integers(0, mjm.nbody, size=nworld).astype(np.int32), dtype=int)
  mjw.jac(m, d, jacp, jacr, pts, bodies)
  api.append("jac")
  # rays
  nray = 7
  pnt = wp.array(rng.normal(size=(nworld, nray, 3)).astype(np.float32) * 2, dtype=wp.vec3)
  dirs = rng.normal(size=(nworld, nray, 3))
  dirs /= np.linalg.norm(dirs, axis=-1, keepdims=True)
  vecs = wp.array(dirs.astype(np.float32), dtype=wp.vec3)
  dist = wp.zeros((nworld, nray), dtype=float)
  gid = wp.zeros((nworld, nray), dtype=int)
  nrm = wp.zeros((nworld, nray), dtype=wp.vec3)
  from mujoco_warp._src.types import vec6

  mjw.rays(m, d, pnt, vecs, vec6(-1, -1, -1, -1, -1, -1), True, wp.array(np.full(nray, -1, np.int32), dtype=int), dist, gid, nrm)
  api.append("rays")
  # state API
  sig = int(mjw.State.INTEGRATION)
  ns = mujoco.mj_stateSize(mjm, sig)
  st = wp.zeros((nworld, ns), dtype=float)
  mjw.get_state(m, d, st, sig)
  mjw.set_state(m, d, st, sig)
  api.append("get/set_state")
  # resets
  mask = rng.random(nworld) < 0.5
  mjw.reset_data(m, d, wp.array(mask, dtype=bool))
  mjw.step(m, d)
  api.append("reset_data(mask)")
  if mjm.nkey:
    mjw.reset_data_keyframe(m, d, int(rng.integers(mjm.nkey)))
    mjw.step(m, d)
    api.append("reset_data_keyframe")
  mjw.reset_data(m, d)
  mjw.step(m, d)
  chk_iter()
  # host round trip
  mjd = mujoco.MjData(mjm)
  for w in range(nworld):
    mjw.get_data_into(mjd, mjm, d, w)
  api.append("get_data_into")
  try:
    d2 = mjw.put_data(mjm, mjd, nworld=nworld, **{k: v for k, v in caps.items() if k in ("nconmax", "njmax", "njmax_nnz")})
    mjw.step(m, d2)
    api.append("put_data")
  except ValueError as e:
    rec.count("put_data_rejected")
  rec.check(len(api))
  for a in api:
    rec.cover("api", a)
  rec.cover("caps:" + case["caps"], 1)
  rec.cover("overflow_bits_seen", [str(int(x)) for x in np.unique(mw.npy(d.overflow))])
  for f in feats:
    rec.cover("features", f)
  if len(api) >= 6 and mjm.nv >= 2:
    rec.nontrivial(label, str(sorted(caps.items())), str(case["scene"].get("opt")))
  rec.sample = {"scene": case["scene"], "caps": {"class": case["caps"], **caps}, "nworld": nworld, "api": api, "nacon": nacon, "extreme_state": bool(case.get("extreme"))}
  return rec.result()


def requirements(agg, tier):
  unmet = []
  for c in ("default", "tiny", "zero", "exact"):
    if agg["cover"].get("caps:" + c, 0) < 3:
      unmet.append(f"capacity class {c} ran fewer than 3 times")
  if len(agg["cover"].get("api", [])) < 14:
    unmet.append("fewer than 14 API entry points exercised")
  return unmet
