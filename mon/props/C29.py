"""C29 Sleeping follows MuJoCo's sleep semantics.

Runtime monitor over long histories of generated multi-tree scenes with sleeping enabled.  Every step is split into
mjw.forward (all wake passes) and the integrator (sleep pass) and observed at both boundaries.  Hard invariants come
from the property statement (frozen sleepers, sleep only after MJ_MINAWAKE quiet steps of the whole island, no
awake/asleep pair across a contact / active equality / active tendon limit, no wake without a cause, sleep cycles are
exactly the islands).  Soft oracle: MuJoCo C stepped from MJWarp's own pre-step state (qpos, qvel, tree_asleep,
warmstart re-synchronised every step), compared on the awake set, the cycles and the countdown values, judged only
away from the velocity tolerance.  Schedules: the same history re-run with the tasks of the wake kernels (and of all
kernels) in reverse / keyed random order, compared on the awake set and the trajectory.
"""

import mujoco
import numpy as np

from mon import cmp, core, mw
from mon.props import _isl

ID = "C29"
LEVEL = "exploration"
RULE = (
  "case=(scene seed, perturbation seed): generated scene of 3-7 trees on a plane (free box/sphere/capsule, stacks, "
  "cart+pendulum, 2-hinge arm with optional motor => policy never, limited slider), optional links between trees "
  "(connect/weld/joint/tendon equality switched at run time, limited spatial and fixed tendons), 4 worlds with "
  "different initial velocities and different random perturbation schedules (xfrc/qfrc pulses, velocity kicks on "
  "awake and sleeping trees, eq_active toggles, ctrl), 250 (quick) / 1500 (thorough) steps of forward+integrator. "
  "Second family (eqwake / eqsched): zero-gravity contact-free scene of 4-7 strongly damped trees (slide, 2-slide, free, "
  "hinge, 2-body chain) that fall asleep in cycles of their own within ~12 steps; links that appear at run time: "
  "connect / weld by bodies and by sites (child bodies too), joint equalities, tendon equalities, connects to the world, "
  "switched through eq_active while both trees sleep in different cycles or while one was just kicked awake; limited "
  "fixed / spatial / geom-wrapping tendons whose limit is driven active by pushing one tree. "
  "Non-trivial: at least one tree fell asleep and at least one sleeping tree woke; distinct by hash(xml, event list)."
)
ASSUMPTIONS = [
  "MuJoCo 3.13 C is the reference for the one-step awake/asleep transition; its derived awake arrays are rebuilt by a "
  "Python replica of mj_updateSleep that reproduced MuJoCo's own evolution bit-exactly over 1500 perturbed steps",
  "one step = mjw.forward followed by the integrator (the definition of mjw.step); a fraction of cases uses mjw.step itself",
  "lock-step verdicts are gated: equal contact geom-pair multisets, no solver iteration limit, no |dof_length*qvel| "
  "within 5% of sleep_tolerance in either engine",
  "the c* compaction workspace of a fresh Data is zeroed once by the harness (it is wp.empty memory that the sparse compacted solve may read, see C38)",
  "the launch-order permuter explores serial orders of whole tasks (CPU device); true intra-launch concurrency is out of reach",
]
LEVEL_TEXT = (
  "Runtime monitoring of generated histories: hard invariants of the sleep state machine at every forward/integrator "
  "boundary, one-step differential oracle vs MuJoCo C with state re-synchronisation, and metamorphic comparison "
  "across task orders of the wake kernels."
)
BUDGET = {"quick": 300, "thorough": 1500}

# mechanisms after which a history keeps being observed (each is reported once per case; see the final report)
CONTINUE_SIGS = {
  "lockstep:wake_countdown:tendon_limit",
  "lockstep:velocity_tested_after_integration",
  "cycle:rebuilt_while_asleep",
}
MINAWAKE = int(mujoco.mjMINAWAKE)
K_AWAKE = -(1 + MINAWAKE)
NWORLD = 4
NCONMAX = 48
NJMAX = 192
ITER = 10  # the compacted solve runs every iteration on the CPU device (no early exit): keep it small


def cases(tier, seed):
  out = []
  # constraints that appear at run time between trees that are already asleep (see eqwake_scene).  Cheap cases (a few
  # seconds each); the weight only has to exceed the histories' so that the runner starts them first and the soft
  # budget never cuts the family off
  ne = 14 if tier == "quick" else 160
  for i in range(ne):
    out.append(
      {"id": f"eqwake{seed}_{i}", "kind": "eqwake", "seed": seed * 100000 + 20000 + i, "steps": 260 if tier == "quick" else 900, "entry": "step" if i % 4 == 3 else "split", "weight": 3.01}
    )
  n = 32 if tier == "quick" else 400
  steps = 250 if tier == "quick" else 1500
  for i in range(n):
    out.append(
      {"id": f"hist{seed}_{i}", "kind": "hist", "seed": seed * 100000 + i, "steps": steps, "entry": "step" if i % 5 == 4 else "split", "weight": 3}
    )
  ns = 8 if tier == "quick" else 80
  for i in range(ns):
    out.append({"id": f"sched{seed}_{i}", "kind": "sched", "seed": seed * 100000 + 5000 + i, "steps": 150 if tier == "quick" else 600, "mode": "perm", "weight": 4})
  nf = 4 if tier == "quick" else 24
  for i in range(nf):
    out.append({"id": f"wakeorder{seed}_{i}", "kind": "wakeorder", "seed": seed * 100000 + 9000 + i, "mode": "perm", "weight": 5})
  for i in range(2 if tier == "quick" else 16):
    out.append({"id": f"eqsched{seed}_{i}", "kind": "eqsched", "seed": seed * 100000 + 26000 + i, "steps": 150 if tier == "quick" else 500, "mode": "perm", "weight": 3})
  return out


# ------------------------------------------------------------------------------------------ run-time link scenes

EQW_TREES = ("sx", "sxz", "free", "hinge", "chain")
EQW_LINKS = (
  "connect_body", "connect_site", "weld_body", "weld_site", "joint", "joint_single", "connect_world", "connect_world_site",
  "limit_fixed", "limit_spatial", "limit_wrap", "tendon_eq", "tendon_eq2",
)
# links whose wake path is judged per kind in requirements()
EQW_REQUIRED = ("connect_body", "connect_site", "weld_body", "weld_site", "joint")


def eqwake_scene(seed):
  """Zero-gravity scene of 4-7 separate trees, every one on its own row (no contacts), strongly damped so that a kicked
  tree falls asleep again within a few tens of steps.  Links between the trees are constraints that are NOT there
  when the trees fall asleep: connect / weld equalities given by bodies and by sites (sites and bodies of child
  bodies too, so that body id != tree id != site id), joint equalities (two joints / one joint), connects to the
  world, tendon equalities (one / two tendons), all switched through eq_active at run time; limited fixed and
  spatial tendons (optionally wrapping a sphere / cylinder of the second tree) whose limit becomes active when one
  tree is pushed.  Returns (xml, meta); meta['eq_kind'][e] / meta['ten_kind'][i] name the link family of each row."""
  rng = np.random.default_rng(seed)
  nt = int(rng.integers(4, 8))
  tol = float(rng.choice([0.02, 0.05, 0.1]))
  damp = float(rng.choice([10.0, 20.0, 30.0]))
  dt = float(rng.choice([0.004, 0.005]))
  feats = set()
  bodies, trees = [], []
  for k in range(nt):
    kind = str(EQW_TREES[int(rng.integers(len(EQW_TREES)))])
    feats.add("eqw_tree:" + kind)
    y = 0.4 * k
    x = float(rng.uniform(-0.1, 0.1))
    sites = f'<site name="s{k}" pos=".05 0 0"/><site name="u{k}" pos="-.05 0 .02"/>'
    wrapg = f'<geom name="g{k}" type="{"sphere" if rng.random() < 0.5 else "cylinder"}" size=".03 .05" mass=".2"/>'
    if kind == "sx":
      bodies.append(f'<body name="r{k}" pos="{x:.4g} {y:.4g} 0"><joint name="ja{k}" type="slide" axis="1 0 0"/><geom/>{wrapg}{sites}</body>')
      trees.append({"bodies": [f"r{k}"], "joints": [f"ja{k}"]})
    elif kind == "sxz":
      bodies.append(
        f'<body name="r{k}" pos="{x:.4g} {y:.4g} 0"><joint name="ja{k}" type="slide" axis="1 0 0"/><joint name="jb{k}" type="slide" axis="0 0 1"/><geom/>{wrapg}{sites}</body>'
      )
      trees.append({"bodies": [f"r{k}"], "joints": [f"ja{k}", f"jb{k}"]})
    elif kind == "free":
      bodies.append(f'<body name="r{k}" pos="{x:.4g} {y:.4g} 0"><joint name="f{k}" type="free" damping="{damp}"/><geom size=".1" mass="3"/>{wrapg}{sites}</body>')
      trees.append({"bodies": [f"r{k}"], "joints": []})
    elif kind == "hinge":
      bodies.append(
        f'<body name="r{k}" pos="{x:.4g} {y:.4g} 0"><joint name="ja{k}" type="hinge" axis="0 0 1" damping="{damp * 0.02:.4g}"/><geom pos=".1 0 0"/>'
        f'<geom name="g{k}" type="sphere" size=".03" pos=".15 0 0" mass=".2"/><site name="s{k}" pos=".2 0 0"/><site name="u{k}" pos=".1 0 .05"/></body>'
      )
      trees.append({"bodies": [f"r{k}"], "joints": [f"ja{k}"]})
    else:  # chain: the sites / wrap geom / second joint sit on the child body
      bodies.append(
        f'<body name="r{k}" pos="{x:.4g} {y:.4g} 0"><joint name="ja{k}" type="slide" axis="1 0 0"/><geom/>'
        f'<body name="c{k}" pos=".15 0 0"><joint name="jb{k}" type="slide" axis="0 0 1"/><geom/>{wrapg}{sites}</body></body>'
      )
      trees.append({"bodies": [f"r{k}", f"c{k}"], "joints": [f"ja{k}", f"jb{k}"]})
  eqs, tendons, eq_kind, ten_kind, spatial_slack = [], [], [], [], {}
  # MuJoCo refuses tendon equalities under sleeping, and aborts on a sleeping tree that owns rows of its own (equality to
  # the world, see cycle:rebuilt_while_asleep): most scenes stay free of both so that every step is lock-step comparable
  flavour = str(rng.choice(["plain", "plain", "plain", "single", "teneq"]))
  with_teneq = flavour == "teneq"
  feats.add("eqw_flavour:" + flavour)
  nl = int(rng.integers(3, 7))
  for li in range(nl):
    a, b = [int(v) for v in rng.choice(nt, size=2, replace=False)]
    ta, tb = trees[a], trees[b]
    lk = str(EQW_LINKS[int(rng.integers(len(EQW_LINKS)))])
    if li < 2:  # every scene has two of the body/site/joint equalities, rotating with the scene seed
      lk = EQW_REQUIRED[(seed + 2 * li) % len(EQW_REQUIRED)]
      if lk == "joint" and not (ta["joints"] and tb["joints"]):
        lk = "connect_site"
    if lk in ("joint_single", "connect_world", "connect_world_site") and flavour != "single":
      lk = str(rng.choice(["connect_site", "weld_site", "joint", "limit_fixed", "limit_spatial", "limit_wrap"]))
    act = "true" if rng.random() < 0.1 else "false"
    name = f'name="e{len(eqs)}" active="{act}"'
    ba, bb = str(rng.choice(ta["bodies"])), str(rng.choice(tb["bodies"]))
    sa, sb = str(rng.choice([f"s{a}", f"u{a}"])), str(rng.choice([f"s{b}", f"u{b}"]))
    jointed = bool(ta["joints"] and tb["joints"])
    if lk == "connect_body":
      eqs.append(f'<connect {name} body1="{ba}" body2="{bb}" anchor="{rng.uniform(-.1, .1):.3g} {rng.uniform(0, .3):.3g} 0"/>')
    elif lk == "connect_site":
      eqs.append(f'<connect {name} site1="{sa}" site2="{sb}"/>')
    elif lk == "weld_body":
      eqs.append(f'<weld {name} body1="{ba}" body2="{bb}"/>')
    elif lk == "weld_site":
      eqs.append(f'<weld {name} site1="{sa}" site2="{sb}"/>')
    elif lk == "connect_world":
      eqs.append(f'<connect {name} body1="{ba}" anchor="0 0 0"/>')
    elif lk == "connect_world_site":
      eqs.append(f'<connect {name} site1="{sa}" site2="sw"/>' if rng.random() < 0.5 else f'<weld {name} site1="sw" site2="{sa}"/>')
    elif lk == "joint" and jointed:
      eqs.append(f'<joint {name} joint1="{rng.choice(ta["joints"])}" joint2="{rng.choice(tb["joints"])}" polycoef="{rng.choice([0, 0.02])} {rng.choice([1, -1, 0.5])} 0 0 0"/>')
    elif lk == "joint_single" and ta["joints"]:
      eqs.append(f'<joint {name} joint1="{rng.choice(ta["joints"])}" polycoef="{rng.choice([0, 0.03])} 0 0 0 0"/>')
    elif lk == "limit_fixed" and jointed:
      r = float(rng.uniform(0.004, 0.03))
      mg = float(rng.choice([0.0, 0.0, 0.01]))
      tendons.append(
        f'<fixed name="T{len(tendons)}" limited="true" range="{-r:.4g} {r:.4g}" margin="{mg}"><joint joint="{rng.choice(ta["joints"])}" coef="1"/><joint joint="{rng.choice(tb["joints"])}" coef="{rng.choice([-1, 1])}"/></fixed>'
      )
      ten_kind.append(lk)
      continue
    elif lk in ("limit_spatial", "limit_wrap"):
      mid = f'<geom geom="g{b}"/>' if lk == "limit_wrap" else ""
      end = (f"u{a}" if sa == f"s{a}" else f"s{a}") if lk == "limit_wrap" and rng.random() < 0.5 else sb  # wrap variant: tree b only through its geom
      spatial_slack[len(tendons)] = (float(rng.uniform(0.003, 0.03)), float(rng.uniform(0.003, 0.03)))
      mg = float(rng.choice([0.0, 0.0, 0.005]))
      tendons.append(f'<spatial name="T{len(tendons)}" limited="true" range="0 9" margin="{mg}"><site site="{sa}"/>{mid}<site site="{end}"/></spatial>')
      ten_kind.append(lk)
      continue
    elif lk in ("tendon_eq", "tendon_eq2") and jointed and with_teneq:
      tendons.append(f'<fixed name="T{len(tendons)}"><joint joint="{rng.choice(ta["joints"])}" coef="1"/><joint joint="{rng.choice(tb["joints"])}" coef="1"/></fixed>')
      ten_kind.append("eq_only")
      t2 = ""
      if lk == "tendon_eq2":
        c = int(rng.integers(nt))
        if trees[c]["joints"]:
          tendons.append(f'<fixed name="T{len(tendons)}"><joint joint="{rng.choice(trees[c]["joints"])}" coef="1"/></fixed>')
          ten_kind.append("eq_only")
          t2 = f' tendon2="T{len(tendons) - 1}"'
      eqs.append(f'<tendon {name} tendon1="T{len(tendons) - 1 - bool(t2)}"{t2}/>')
    else:
      continue
    eq_kind.append(lk)
  for lk in eq_kind + ten_kind:
    feats.add("eqw_link:" + lk)
  integ = str(rng.choice(["Euler", "Euler", "implicitfast"]))
  jac = str(rng.choice(["dense", "sparse"]))
  xml = [
    f'<mujoco><option gravity="0 0 0" timestep="{dt}" sleep_tolerance="{tol}" integrator="{integ}" jacobian="{jac}" iterations="{ITER}"><flag sleep="enable"/></option>',
    f'<default><joint damping="{damp}"/><geom type="sphere" size=".05" mass="1" contype="0" conaffinity="0"/><equality solref="{rng.choice([0.02, 0.04])} 1"/></default>',
    '<worldbody><site name="sw" pos="0 -0.5 0"/>',
  ]
  xml += bodies
  xml.append("</worldbody>")
  if tendons:
    xml.append("<tendon>" + "".join(tendons) + "</tendon>")
  if eqs:
    xml.append("<equality>" + "".join(eqs) + "</equality>")
  xml.append("</mujoco>")
  feats |= {f"integrator:{integ}", f"jacobian:{jac}"}
  return "\n".join(xml), {"tol": tol, "features": sorted(feats), "eq_kind": eq_kind, "ten_kind": ten_kind, "spatial_slack": spatial_slack, "integrator": integ, "damp": damp}


def build_eqwake(case, rec):
  rng = np.random.default_rng(case["seed"] + 77)
  xml, meta = eqwake_scene(case["seed"])
  try:
    mjm = mujoco.MjModel.from_xml_string(xml)
  except Exception as e:  # noqa
    rec.rejected = f"mujoco compile: {e}"[:200]
    return None
  # limits of the spatial tendons sit a few millimetres around the rest length
  mjd = mujoco.MjData(mjm)
  mujoco.mj_forward(mjm, mjd)
  for i, (s_lo, s_hi) in meta["spatial_slack"].items():
    L0 = float(mjd.ten_length[i])
    mjm.tendon_range[i] = (max(L0 - s_lo, 0.0), L0 + s_hi)
  try:
    m = mw.put_model(mjm)
  except (NotImplementedError, ValueError) as e:
    rec.rejected = f"put_model: {e}"[:200]
    return None
  rec.cover("features", meta["features"])
  return rng, xml, meta, mjm, m, meta["integrator"]


def eqwake_states(rng, mjm, nworld):
  sts = []
  for w in range(nworld):
    qvel = np.zeros(mjm.nv, np.float32)
    if w:  # trees settle at different times
      for t in range(mjm.ntree):
        if rng.random() < 0.5:
          a, n = int(mjm.tree_dofadr[t]), int(mjm.tree_dofnum[t])
          qvel[a : a + n] = (rng.normal(size=n) * 0.15).astype(np.float32)
    sts.append({"qpos": np.array(mjm.qpos0, dtype=np.float32), "qvel": qvel})
  return sts


def eqwake_events(rng, mjm, topo, meta, steps, nworld):
  """Per-world schedule: equalities are switched on when both trees sleep (in cycles of their own), or shortly after
  one of the two was kicked awake; trees on limited tendons are pushed so that the limit becomes active while the
  other tree sleeps; active equalities are switched off again so that the pairs separate and the game restarts."""
  ev = [dict() for _ in range(nworld)]
  two = [e for e, (ty, ts) in enumerate(topo.eq_trees) if len(set(t for t in ts if t >= 0)) >= 2]
  lim = [i for i in range(mjm.ntendon) if mjm.tendon_limited[i] and len(topo.ten_trees[i]) >= 2]

  def kick(w, t, tr, scale):
    n = len(topo.tree_dofs[tr])
    v = (rng.normal(size=n) * scale).astype(np.float32)
    v[0] = np.float32(scale * rng.choice([-1.0, 1.0]) * rng.uniform(0.7, 1.5))
    ev[w].setdefault(t, []).append(("vel", tr, v.tolist()))

  for w in range(nworld):
    active = np.array(mjm.eq_active0, dtype=bool).copy()
    t = int(rng.integers(16, 30)) if w == 0 else int(rng.integers(70, 86))  # worlds > 0 start moving and settle later
    # the first two equalities of a scene are of the rotating body/site/joint kinds: each of them meets both
    # configurations (switched on over two sleepers / shortly after one of the two was kicked awake) in some world
    for k, e in enumerate(two[:2]):
      if active[e]:
        continue
      if (w + k) % 2 == 0:
        ev[w].setdefault(t, []).append(("eq", e))
      else:
        kick(w, t, int(topo.eq_trees[e][1][int(rng.integers(2))]), float(rng.choice([0.3, 1.0])))
        ev[w].setdefault(t + int(rng.integers(0, 7)), []).append(("eq", e))
      active[e] = True
      t += int(rng.integers(70, 90))
    while t < steps - 5:
      kind = str(rng.choice(["eq_on", "eq_on", "kick_eq", "kick_eq", "kick_limit", "kick_limit", "kick", "eq_off", "force", "eq_any"]))
      off_two = [e for e in two if not active[e]]
      if kind == "eq_on" and off_two:
        e = int(rng.choice(off_two))
        ev[w].setdefault(t, []).append(("eq", e))
        active[e] = True
      elif kind == "kick_eq" and off_two:
        e = int(rng.choice(off_two))
        trs = sorted(set(x for x in topo.eq_trees[e][1] if x >= 0))
        kick(w, t, int(rng.choice(trs)), float(rng.choice([0.3, 1.0])))
        ev[w].setdefault(t + int(rng.integers(0, 7)), []).append(("eq", e))
        active[e] = True
      elif kind == "kick_limit" and lim:
        i = int(rng.choice(lim))
        # damped travel ~ v / damping: a few centimetres, more than the slack of the limit
        kick(w, t, int(rng.choice(topo.ten_trees[i])), float(meta["damp"]) * float(rng.choice([0.02, 0.05, 0.1])))
      elif kind == "kick":
        kick(w, t, int(rng.integers(mjm.ntree)), float(rng.choice([0.5 * float(mjm.opt.sleep_tolerance), 0.5, 2.0])))
      elif kind == "eq_off" and active.any():
        e = int(rng.choice(np.nonzero(active)[0]))
        ev[w].setdefault(t, []).append(("eq", e))
        active[e] = False
      elif kind == "eq_any" and mjm.neq:
        e = int(rng.integers(mjm.neq))
        ev[w].setdefault(t, []).append(("eq", e))
        active[e] = not active[e]
      elif kind == "force":
        tr = int(rng.integers(mjm.ntree))
        dur = int(rng.integers(1, 6))
        if rng.random() < 0.5:
          b = int(rng.choice(topo.tree_bodies[tr]))
          f = (rng.normal(size=6) * np.array([10, 10, 10, 0.3, 0.3, 0.3])).astype(np.float32)
          ev[w].setdefault(t, []).append(("xfrc", b, f.tolist()))
          ev[w].setdefault(t + dur, []).append(("xfrc", b, [0.0] * 6))
        else:
          dof = int(rng.choice(topo.tree_dofs[tr]))
          ev[w].setdefault(t, []).append(("qfrc", dof, float(np.float32(rng.normal() * 5))))
          ev[w].setdefault(t + dur, []).append(("qfrc", dof, 0.0))
      t += int(rng.integers(22, 55))
  return ev


def eqwake_observe(rec, topo, meta, pre, mid, post, w, split):
  """Coverage of the input class: which run-time link met which asleep/awake configuration before the step."""
  A0 = pre["tree_asleep"][w]
  S0 = A0 >= 0
  cyc = {t: c for c in _isl.cycles_of(A0)[0] for t in c}
  Sa = (mid["tree_asleep"][w] >= 0) if split else (post["tree_asleep"][w] >= 0)
  for e, (ty, ts) in enumerate(topo.eq_trees):
    if not pre["eq_active"][w][e]:
      continue
    tt = sorted(set(t for t in ts if t >= 0))
    if len(tt) < 2:
      if tt and S0[tt[0]]:
        rec.cover(f"eqw:{meta['eq_kind'][e]}:active_on_sleeping_single_tree", 1)
      continue
    st = [bool(S0[t]) for t in tt]
    if any(st) and not all(st):
      rec.cover(f"eqw:{meta['eq_kind'][e]}:one_asleep_one_awake", 1)
      if not any(Sa[t] for t in tt):
        rec.cover(f"eqw:{meta['eq_kind'][e]}:woke", 1)
    elif all(st) and len(set(cyc.get(t) for t in tt)) > 1:
      rec.cover(f"eqw:{meta['eq_kind'][e]}:asleep_in_two_cycles", 1)
      if not any(Sa[t] for t in tt):
        rec.cover(f"eqw:{meta['eq_kind'][e]}:woke", 1)
  if split:
    for i, ts in enumerate(topo.ten_trees):
      if len(ts) < 2 or not topo.mjm.tendon_limited[i]:
        continue
      L = float(mid["ten_length"][w][i])
      lo, hi = topo.mjm.tendon_range[i]
      mg = float(topo.mjm.tendon_margin[i])
      if (L - lo < mg or hi - L < mg) and any(S0[t] for t in ts) and not all(S0[t] for t in ts):
        rec.cover(f"eqw:{meta['ten_kind'][i]}:limit_active_one_asleep_one_awake", 1)
        if not any(Sa[t] for t in ts):
          rec.cover(f"eqw:{meta['ten_kind'][i]}:woke", 1)


# ------------------------------------------------------------------------------------------ model helpers


class Topo:
  """Static topology of a model needed by the invariants."""

  def __init__(self, mjm):
    self.mjm = mjm
    self.ntree = mjm.ntree
    self.tree_dofs = [np.arange(mjm.tree_dofadr[t], mjm.tree_dofadr[t] + mjm.tree_dofnum[t]) for t in range(mjm.ntree)]
    self.tree_bodies = [np.nonzero(mjm.body_treeid == t)[0] for t in range(mjm.ntree)]
    self.tree_qpos = []
    for t in range(mjm.ntree):
      idx = []
      for j in range(mjm.njnt):
        if mjm.body_treeid[mjm.jnt_bodyid[j]] == t:
          n = {0: 7, 1: 4, 2: 1, 3: 1}[int(mjm.jnt_type[j])]
          idx += list(range(mjm.jnt_qposadr[j], mjm.jnt_qposadr[j] + n))
      self.tree_qpos.append(np.array(idx, dtype=int))
    self.never = np.array([p == int(mujoco.mjtSleepPolicy.mjSLEEP_AUTO_NEVER) or p == int(mujoco.mjtSleepPolicy.mjSLEEP_NEVER) for p in mjm.tree_sleep_policy])
    self.dof_length = np.asarray(mjm.dof_length, dtype=np.float32)
    self.tol = np.float32(mjm.opt.sleep_tolerance)
    # tendon -> trees
    self.ten_trees = []
    for i in range(mjm.ntendon):
      ts = []
      for w in range(mjm.tendon_adr[i], mjm.tendon_adr[i] + mjm.tendon_num[i]):
        ty, ob = int(mjm.wrap_type[w]), int(mjm.wrap_objid[w])
        b = -1
        if ty == int(mujoco.mjtWrap.mjWRAP_JOINT):
          b = mjm.jnt_bodyid[ob]
        elif ty == int(mujoco.mjtWrap.mjWRAP_SITE):
          b = mjm.site_bodyid[ob]
        elif ty in (int(mujoco.mjtWrap.mjWRAP_SPHERE), int(mujoco.mjtWrap.mjWRAP_CYLINDER)):
          b = mjm.geom_bodyid[ob]
        if b >= 0 and mjm.body_treeid[b] >= 0:
          ts.append(int(mjm.body_treeid[b]))
      self.ten_trees.append(sorted(set(ts)))
    # equality -> trees
    self.eq_trees = []
    for e in range(mjm.neq):
      ty = int(mjm.eq_type[e])
      o1, o2 = int(mjm.eq_obj1id[e]), int(mjm.eq_obj2id[e])
      ts = []
      if ty in (int(mujoco.mjtEq.mjEQ_CONNECT), int(mujoco.mjtEq.mjEQ_WELD)):
        if int(mjm.eq_objtype[e]) == int(mujoco.mjtObj.mjOBJ_SITE):
          o1, o2 = int(mjm.site_bodyid[o1]), int(mjm.site_bodyid[o2])
        ts = [int(mjm.body_treeid[o1]), int(mjm.body_treeid[o2])]
      elif ty == int(mujoco.mjtEq.mjEQ_JOINT):
        ts = [int(mjm.body_treeid[mjm.jnt_bodyid[o1]])] + ([int(mjm.body_treeid[mjm.jnt_bodyid[o2]])] if o2 >= 0 else [-1])
      elif ty == int(mujoco.mjtEq.mjEQ_TENDON):
        ts = list(self.ten_trees[o1]) + (list(self.ten_trees[o2]) if o2 >= 0 else [])
      self.eq_trees.append((ty, ts))

  def perturbed(self, t, qvel, qfrc, xfrc):
    d = self.tree_dofs[t]
    return bool(np.any(qvel[d] != 0) or np.any(qfrc[d] != 0) or np.any(xfrc[self.tree_bodies[t]] != 0))

  def can_sleep(self, t, qvel, qfrc, xfrc):
    """(can, grey): float32 replica of the tolerance test, grey if within 1e-4 relative of the tolerance."""
    if self.never[t]:
      return False, False
    d = self.tree_dofs[t]
    if np.any(qfrc[d] != 0) or np.any(xfrc[self.tree_bodies[t]] != 0):
      return False, False
    s = np.abs(self.dof_length[d] * np.asarray(qvel[d], dtype=np.float32))
    grey = bool(np.any(np.abs(s - self.tol) <= 1e-4 * self.tol))
    return bool(np.all(s < self.tol)), grey

  def near_tol(self, t, qvel, band=0.05):
    d = self.tree_dofs[t]
    s = np.abs(self.dof_length[d].astype(np.float64) * np.asarray(qvel[d], dtype=np.float64))
    return bool(np.any(np.abs(s - float(self.tol)) <= band * float(self.tol)))

  def links(self, contact_geom, eq_active, ten_length):
    """list of (kind, trees) link hyper-edges between dynamic trees that are 'on' in the given state."""
    mjm = self.mjm
    out = []
    for g1, g2 in contact_geom:
      if g1 < 0 or g2 < 0:
        continue
      t1, t2 = int(mjm.body_treeid[mjm.geom_bodyid[g1]]), int(mjm.body_treeid[mjm.geom_bodyid[g2]])
      if t1 >= 0 and t2 >= 0 and t1 != t2:
        out.append(("contact", (t1, t2)))
    for e, (ty, ts) in enumerate(self.eq_trees):
      if not eq_active[e]:
        continue
      if ty == int(mujoco.mjtEq.mjEQ_TENDON):
        tt = sorted(set(t for t in ts if t >= 0))
        if len(tt) >= 2:
          out.append(("tendon_eq", tuple(tt)))
      elif len(ts) == 2 and ts[0] >= 0 and ts[1] >= 0 and ts[0] != ts[1]:
        out.append(("equality", (ts[0], ts[1])))
    for i, ts in enumerate(self.ten_trees):
      if len(ts) < 2 or not mjm.tendon_limited[i]:
        continue
      L = float(ten_length[i])
      lo, hi = mjm.tendon_range[i]
      mg = float(mjm.tendon_margin[i])
      dlo, dhi = L - lo, hi - L
      # float32 grey zone around activation: a possible wake cause, but no obligation to wake
      if min(abs(dlo - mg), abs(dhi - mg)) < 1e-5 * max(1.0, abs(L)):
        out.append(("tendon_limit?", tuple(ts)))
        continue
      if dlo < mg or dhi < mg:
        out.append(("tendon_limit", tuple(ts)))
    return out


# ------------------------------------------------------------------------------------------ events


def make_events(rng, mjm, topo, steps, nworld):
  """Per-world perturbation schedule: dict step -> list of (kind, args)."""
  ev = [dict() for _ in range(nworld)]
  for w in range(nworld):
    t = int(rng.integers(40, 120))
    while t < steps:
      kind = str(rng.choice(["xfrc", "qfrc", "vel", "vel", "eq", "ctrl", "vel_small"]))
      tr = int(rng.integers(mjm.ntree))
      if kind == "xfrc":
        b = int(rng.choice(topo.tree_bodies[tr]))
        f = (rng.normal(size=6) * np.array([15, 15, 15, 1, 1, 1])).astype(np.float32)
        dur = int(rng.integers(1, 8))
        ev[w].setdefault(t, []).append(("xfrc", b, f.tolist()))
        ev[w].setdefault(t + dur, []).append(("xfrc", b, [0.0] * 6))
      elif kind == "qfrc":
        dof = int(rng.choice(topo.tree_dofs[tr]))
        dur = int(rng.integers(1, 8))
        ev[w].setdefault(t, []).append(("qfrc", dof, float(np.float32(rng.normal() * 5))))
        ev[w].setdefault(t + dur, []).append(("qfrc", dof, 0.0))
      elif kind in ("vel", "vel_small"):
        sc = 1.5 if kind == "vel" else 0.5 * float(mjm.opt.sleep_tolerance)
        v = (rng.normal(size=len(topo.tree_dofs[tr])) * sc).astype(np.float32)
        ev[w].setdefault(t, []).append(("vel", tr, v.tolist()))
      elif kind == "eq" and mjm.neq:
        ev[w].setdefault(t, []).append(("eq", int(rng.integers(mjm.neq))))
      elif kind == "ctrl" and mjm.nu:
        ev[w].setdefault(t, []).append(("ctrl", int(rng.integers(mjm.nu)), float(np.float32(rng.uniform(-1, 1)))))
      t += int(rng.integers(30, 160))
  return ev


def apply_events(d, topo, ev, step, host):
  """host: dict of numpy mirrors (qvel is re-read from the device)."""
  import warp as wp

  dirty = set()
  for w, e in enumerate(ev):
    for item in e.get(step, []):
      k = item[0]
      if k == "xfrc":
        host["xfrc_applied"][w, item[1]] = np.array(item[2], dtype=np.float32)
        dirty.add("xfrc_applied")
      elif k == "qfrc":
        host["qfrc_applied"][w, item[1]] = np.float32(item[2])
        dirty.add("qfrc_applied")
      elif k == "vel":
        if "qvel" not in dirty:
          host["qvel"] = d.qvel.numpy().copy()
        host["qvel"][w, topo.tree_dofs[item[1]]] = np.array(item[2], dtype=np.float32)
        dirty.add("qvel")
      elif k == "eq":
        host["eq_active"][w, item[1]] = not host["eq_active"][w, item[1]]
        dirty.add("eq_active")
      elif k == "ctrl":
        host["ctrl"][w, item[1]] = np.float32(item[2])
        dirty.add("ctrl")
  for k in dirty:
    dst = getattr(d, k)
    wp.copy(dst, wp.array(host[k], dtype=dst.dtype))
  return dirty


# ------------------------------------------------------------------------------------------ observation


def snap_pre(d):
  return {
    k: getattr(d, k).numpy().copy()
    for k in ("qpos", "qvel", "tree_asleep", "qacc_warmstart", "qfrc_applied", "xfrc_applied", "eq_active", "ctrl", "act", "time")
  }


def snap_mid(d):
  out = {k: getattr(d, k).numpy().copy() for k in ("tree_asleep", "tree_awake", "tree_island", "nisland", "ten_length", "qacc", "solver_niter", "nefc")}
  nacon = int(d.nacon.numpy()[0])
  n = min(nacon, d.naconmax)
  out["con_world"] = d.contact.worldid.numpy()[:n].copy()
  out["con_geom"] = d.contact.geom.numpy()[:n].copy()
  out["nacon"] = nacon
  return out


def snap_post(d):
  return {k: getattr(d, k).numpy().copy() for k in ("qpos", "qvel", "tree_asleep", "tree_awake", "body_awake", "ntree_awake", "nv_awake", "nbody_awake")}


def check_derived(rec, topo, post, w, where):
  mjm = topo.mjm
  ta = post["tree_asleep"][w]
  rec.check()
  if not np.array_equal(post["tree_awake"][w], (ta < 0).astype(int)):
    rec.viol("derived:tree_awake", f"tree_awake {post['tree_awake'][w]} inconsistent with tree_asleep {ta} ({where})")
  if "body_awake" in post:
    aw = ta < 0
    exp_n = int(aw.sum())
    if int(post["ntree_awake"][w]) != exp_n:
      rec.viol("derived:ntree_awake", f"ntree_awake {post['ntree_awake'][w]} != {exp_n} ({where})")
    ba = post["body_awake"][w]
    for b in range(1, mjm.nbody):
      t = mjm.body_treeid[b]
      if t >= 0:
        asleep_state = ba[b] == 0  # SleepState.ASLEEP == mjS_ASLEEP == 0
        if asleep_state != (not aw[t]):
          rec.viol("derived:body_awake", f"body_awake[{b}]={ba[b]} but tree {t} awake={aw[t]} ({where})")
          break
    nv_aw = int(sum(len(topo.tree_dofs[t]) for t in range(topo.ntree) if aw[t]))
    if int(post["nv_awake"][w]) != nv_aw:
      rec.viol("derived:nv_awake", f"nv_awake {post['nv_awake'][w]} != {nv_aw} ({where})")


class WorldMon:
  """Invariant monitor state of one world."""

  def __init__(self, topo):
    self.topo = topo
    self.quiet = np.zeros(topo.ntree, dtype=int)
    self.grey = np.zeros(topo.ntree, dtype=int)  # steps since a grey-zone tolerance test
    self.nslept = 0
    self.nwoke = 0
    self.wake_causes = set()
    self.retired = False

  def step(self, rec, w, pre, mid, post, split, ctx):
    topo = self.topo
    nt = topo.ntree
    A0, A1 = pre["tree_asleep"][w], post["tree_asleep"][w]
    S0, S1 = A0 >= 0, A1 >= 0
    qv0, qf, xf = pre["qvel"][w], pre["qfrc_applied"][w], pre["xfrc_applied"][w]
    cyc0, ok0 = _isl.cycles_of(A0)
    cyc1, ok1 = _isl.cycles_of(A1)
    rec.check()
    self.retired = False
    if not ok0:
      self.retired = True
      return
    if split:
      # an active connect/weld/joint equality between two trees that sleep in different cycles wakes both in forward
      # (judged before the cycle bookkeeping below: the unwoken pair forms an island of sleepers that sleep() rebuilds)
      Af = mid["tree_asleep"][w]
      cf = {t: c for c in _isl.cycles_of(Af)[0] for t in c}
      for kind, ts in topo.links(np.zeros((0, 2), int), pre["eq_active"][w], mid["ten_length"][w]):
        if kind == "equality" and Af[ts[0]] >= 0 and Af[ts[1]] >= 0:
          rec.check()
          if cf.get(ts[0]) != cf.get(ts[1]):
            rec.viol("wake:equality_two_sleeping_cycles", f"active equality between sleeping trees {ts} of different cycles did not wake them: tree_asleep after forward {Af.tolist()} (before {A0.tolist()}) {ctx}", trees=list(ts))
    rebuilt = [int(t) for t in np.nonzero(S0 & S1 & (A0 != A1))[0]]
    if rebuilt:
      isl_now = mid["tree_island"][w] if mid is not None else None
      if isl_now is not None and all(isl_now[t] >= 0 for t in rebuilt):
        rec.viol(
          "cycle:rebuilt_while_asleep",
          f"trees {rebuilt} stayed asleep but their tree_asleep pointers were rewritten {A0.tolist()} -> {A1.tolist()}: the sleeping trees still own constraint rows (tree_island {isl_now.tolist()}) and sleep() rebuilt a cycle over that island only; well-formed cycles afterwards: {ok1} {ctx}",
          trees=rebuilt,
        )
      else:
        rec.viol("cycle:changed_while_asleep", f"trees {rebuilt} stayed asleep but tree_asleep changed {A0.tolist()} -> {A1.tolist()} {ctx}")
      self.retired = True
      return
    if not ok1:
      rec.viol("cycle:malformed", f"tree_asleep {A1.tolist()} does not decompose into cycles (before {A0.tolist()}) {ctx}")
      self.retired = True
      return
    if split:
      Am = mid["tree_asleep"][w]
      Sm = Am >= 0
      sel = mid["con_world"] == w
      links = topo.links(mid["con_geom"][sel], pre["eq_active"][w], mid["ten_length"][w])
      isl = mid["tree_island"][w]
    else:
      Am, Sm, links, isl = None, None, None, None
    pert = np.array([topo.perturbed(t, qv0, qf, xf) for t in range(nt)])

    # -- H0: policy never trees never sleep
    rec.check()
    if np.any(S1 & topo.never):
      rec.viol("policy:never_asleep", f"tree with sleep policy never is asleep: tree_asleep={A1.tolist()} {ctx}")

    # -- H1: frozen sleepers
    stay = S0 & S1 if not split else (S0 & Sm)
    for t in np.nonzero(stay)[0]:
      rec.check()
      if split and not S1[t]:
        rec.viol("sleep:woke_in_integrator", f"tree {t} asleep after forward but awake after the integrator {ctx}")
        continue
      if pert[t]:
        # perturbed sleeper that stayed asleep -> must-wake violation (only decidable at forward boundary or for step entry)
        rec.viol("wake:perturbed_stays_asleep", f"tree {t} has applied force / velocity but stayed asleep {ctx}", tree=int(t))
        continue
      qi, di = topo.tree_qpos[t], topo.tree_dofs[t]
      if not np.array_equal(pre["qpos"][w][qi], post["qpos"][w][qi]):
        rec.viol("frozen:qpos_changed", f"sleeping tree {t} moved: max |dqpos|={np.abs(pre['qpos'][w][qi] - post['qpos'][w][qi]).max():.3g} {ctx}", tree=int(t))
      if np.any(post["qvel"][w][di] != 0) or np.any(pre["qvel"][w][di] != 0):
        rec.viol("frozen:qvel_nonzero", f"sleeping tree {t} has qvel {post['qvel'][w][di].tolist()} {ctx}", tree=int(t))
      if split and np.any(mid["qacc"][w][di] != 0):
        rec.viol("frozen:qacc_nonzero", f"sleeping tree {t} has qacc {mid['qacc'][w][di].tolist()} after forward {ctx}", tree=int(t))
    for t in np.nonzero(S1)[0]:
      rec.check()
      if np.any(post["qvel"][w][topo.tree_dofs[t]] != 0):
        rec.viol("frozen:qvel_nonzero", f"tree {t} asleep after the step with non-zero qvel {ctx}", tree=int(t))

    # -- wake bookkeeping / cycles wake as a whole
    awake_after_fwd = ~Sm if split else ~S1
    for c in cyc0:
      m_ = [bool(awake_after_fwd[t]) for t in c]
      rec.check()
      if any(m_) and not all(m_) and split:
        rec.viol("cycle:partial_wake", f"sleep cycle {sorted(c)} only partly awake after forward: tree_asleep={Am.tolist()} {ctx}")
    woke = S0 & awake_after_fwd
    if woke.any():
      self.nwoke += int(woke.sum())

    if split:
      # -- H3: no awake/asleep pair across a live link, perturbed trees awake
      for t in range(nt):
        if pert[t]:
          rec.check()
          if Sm[t]:
            rec.viol("wake:perturbed_stays_asleep", f"tree {t} has applied force / velocity but is asleep after forward {ctx}", tree=int(t))
      cyc_of = {}
      cm, _ = _isl.cycles_of(Am)
      for c in cm:
        for t in c:
          cyc_of[t] = c
      for kind, ts in links:
        if kind.endswith("?"):
          continue
        rec.check()
        st = [bool(Sm[t]) for t in ts]
        if any(st) and not all(st):
          rec.viol(f"wake:{kind}_awake_asleep_pair", f"{kind} links trees {ts} but asleep flags after forward are {st}: tree_asleep={Am.tolist()} (before {A0.tolist()}) {ctx}", trees=list(ts))
      # -- H4: every wake has a cause
      if woke.any():
        just = set(int(t) for t in np.nonzero(~S0)[0]) | set(int(t) for t in np.nonzero(pert)[0])
        cause = {int(t): ("perturbation" if pert[t] else "awake") for t in just}
        cyc0_of = {t: c for c in cyc0 for t in c}
        for kind, ts in links:
          # an active connect/weld/joint equality between two sleeping trees of different cycles wakes both (MuJoCo semantics)
          if kind == "equality" and S0[ts[0]] and S0[ts[1]] and cyc0_of.get(ts[0]) != cyc0_of.get(ts[1]):
            for t in ts:
              just.add(int(t))
              cause[int(t)] = "equality_two_sleeping_cycles"
        changed = True
        while changed:
          changed = False
          for c in cyc0:
            if any(t in just for t in c) and not all(t in just for t in c):
              for t in c:
                if t not in just:
                  cause[t] = "cycle"
                just.add(t)
              changed = True
          for kind, ts in links:
            if any(t in just for t in ts) and not all(t in just for t in ts):
              for t in ts:
                if t not in just:
                  cause[t] = kind.rstrip("?")
                just.add(t)
              changed = True
        for t in np.nonzero(woke)[0]:
          rec.check()
          if int(t) not in just:
            rec.viol("wake:without_cause", f"tree {t} woke during forward without perturbation, contact, equality or tendon link to an awake tree: before {A0.tolist()} after {Am.tolist()} {ctx}", tree=int(t))
          else:
            self.wake_causes.add(cause[int(t)])

    # -- H2 / H5: falling asleep
    newly = (~Sm if split else ~S0) & S1
    if newly.any():
      self.nslept += int(newly.sum())
      for c in cyc1:
        if not any(newly[t] for t in c):
          continue
        rec.check()
        if split:
          t0 = min(c)
          exp = frozenset(int(t) for t in np.nonzero(isl == isl[t0])[0]) if isl[t0] >= 0 else frozenset([t0])
          if exp != c:
            rec.viol("cycle:not_island", f"new sleep cycle {sorted(c)} differs from the island {sorted(exp)} (tree_island {isl.tolist()}) {ctx}")
        if any(self.grey[t] for t in c):
          rec.count("sleep_decision_grey")
          continue
        short = [int(t) for t in c if self.quiet[t] < MINAWAKE - 1]
        if short:
          rec.viol("sleep:too_early", f"cycle {sorted(c)} fell asleep but trees {short} were quiet only {[int(self.quiet[t]) for t in short]} consecutive steps (< {MINAWAKE}) {ctx}", trees=short)
    # awake countdown stays in range
    rec.check()
    if np.any((A1 < K_AWAKE)):
      rec.viol("countdown:out_of_range", f"tree_asleep {A1.tolist()} below {K_AWAKE} {ctx}")

    # -- quiet counters (end-of-step tolerance test on the post-integration velocities)
    for t in range(nt):
      if S1[t]:
        self.quiet[t] += 1
      else:
        can, grey = topo.can_sleep(t, post["qvel"][w], qf, xf)
        if grey:
          self.grey[t] = MINAWAKE + 1
        self.quiet[t] = self.quiet[t] + 1 if can else 0
      if self.grey[t]:
        self.grey[t] -= 1


# ------------------------------------------------------------------------------------------ MuJoCo lock-step


def mj_onestep(mjm, mjd, pre, w):
  mujoco.mj_resetData(mjm, mjd)
  mjd.qpos[:] = pre["qpos"][w]
  mjd.qvel[:] = pre["qvel"][w]
  if mjm.na:
    mjd.act[:] = pre["act"][w]
  if mjm.nu:
    mjd.ctrl[:] = pre["ctrl"][w]
  mjd.qfrc_applied[:] = pre["qfrc_applied"][w]
  mjd.xfrc_applied[:] = pre["xfrc_applied"][w]
  if mjm.neq:
    mjd.eq_active[:] = pre["eq_active"][w]
  mjd.time = float(pre["time"][w])
  # kinematics of every body must be current before trees are declared asleep
  mujoco.mj_forward(mjm, mjd)
  mjd.qacc_warmstart[:] = pre["qacc_warmstart"][w]
  _isl.mj_set_sleep(mjm, mjd, pre["tree_asleep"][w])
  mujoco.mj_step(mjm, mjd)


def lockstep(rec, topo, mjd, pre, mid, post, w, ctx, iterations, wlinks=None, woken_vel=False):
  mjm = topo.mjm
  try:
    mj_onestep(mjm, mjd, pre, w)
  except mujoco.FatalError as e:
    # e.g. "mj_sleep: found sleeping tree in island" after a run-time eq_active toggle on a sleeping tree: MuJoCo refuses the state
    rec.count("lockstep_mujoco_refuses_state")
    return
  A1, B1 = post["tree_asleep"][w], np.array(mjd.tree_asleep)
  # gating
  if any(int(mjd.warning[int(k)].number) for k in (mujoco.mjtWarning.mjWARN_BADQPOS, mujoco.mjtWarning.mjWARN_BADQVEL, mujoco.mjtWarning.mjWARN_BADQACC)):
    # the reference diverged in this very step and reset itself (every tree awake again): nothing to compare with
    rec.count("lockstep_ungated_mujoco_unstable")
    return
  sel = mid["con_world"] == w
  gw = sorted(map(tuple, np.sort(mid["con_geom"][sel], axis=1).tolist()))
  gm = sorted(map(tuple, np.sort(np.array(mjd.contact.geom[: mjd.ncon]).reshape(-1, 2), axis=1).tolist()))
  if gw != gm:
    rec.count("lockstep_ungated_contacts")
    return
  if int(mid["solver_niter"][w]) >= iterations or int(np.max(mjd.solver_niter)) >= iterations:
    rec.count("lockstep_ungated_iterlimit")
    return
  Sw, Sm_ = A1 >= 0, B1 >= 0
  qw, qm = post["qvel"][w], np.array(mjd.qvel)
  rec.check()
  if np.array_equal(Sw, Sm_):
    rec.count("lockstep_awake_set_equal")
    cw, _ = _isl.cycles_of(A1)
    cm, _ = _isl.cycles_of(B1)
    if set(cw) != set(cm):
      rec.viol("lockstep:cycles", f"sleep cycles differ from MuJoCo: {sorted(map(sorted, cw))} vs {sorted(map(sorted, cm))} {ctx}")
    # countdown of awake trees
    for t in np.nonzero(~Sw)[0]:
      if A1[t] == B1[t]:
        rec.count("lockstep_countdown_equal")
        continue
      if topo.near_tol(t, qw) or topo.near_tol(t, qm):
        rec.count("lockstep_ungated_near_tolerance")
        continue
      qf, xf = pre["qfrc_applied"][w], pre["xfrc_applied"][w]
      if topo.can_sleep(t, qw, qf, xf)[0] != topo.can_sleep(t, qm, qf, xf)[0]:
        # the two engines' post-step velocities fall on different sides of the tolerance: a dynamics difference
        # (contact solver), not a sleep-semantics difference -> belongs to C06/C08/C38
        rec.count("lockstep_ungated_velocity_side")
        continue
      if topo.can_sleep(t, pre["qvel"][w], qf, xf)[0] != topo.can_sleep(t, qw, qf, xf)[0]:
        sig = "lockstep:velocity_tested_after_integration"
        why = " -- the tree's pre-step velocity and post-step velocity are on different sides of sleep_tolerance: MuJoCo tests the velocity before integrating, MJWarp after"
      elif pre["tree_asleep"][w][t] >= 0:
        # the tree was woken during this step: which countdown a woken tree starts with depends on the wake path
        kinds = sorted(set(k.rstrip("?") for k, ts in (wlinks or []) if int(t) in ts))
        kind = kinds[0] if len(kinds) == 1 else ("several" if kinds else "other")
        sig = f"lockstep:wake_countdown:{kind}"
        why = f" -- tree woken in this step through {kinds or 'an unknown path'}: MuJoCo lets it inherit the countdown of the tree that woke it"
      else:
        sig, why = "lockstep:countdown", ""
      rec.viol(
        sig,
        f"tree {t} countdown {A1[t]} vs MuJoCo {B1[t]} after one step from the same state (before: {pre['tree_asleep'][w].tolist()}, after forward: {mid['tree_asleep'][w].tolist() if mid else None}){why} {ctx}",
        tree=int(t), mjw=A1.tolist(), mj=B1.tolist(),
      )
    if woken_vel:
      # a tree that both engines woke in this step is part of this step's solve in both: only gross disagreement
      # (moved vs not moved) is judged, the rest is the solver's precision (C06/C38)
      for t in np.nonzero((pre["tree_asleep"][w] >= 0) & ~Sw)[0]:
        di = topo.tree_dofs[t]
        scale = float(np.abs(qm[di]).max())
        err = float(np.abs(qw[di] - qm[di]).max())
        if scale < 1e-2 and err < 1e-2:
          continue
        rec.check()
        if err <= 0.02 * max(scale, float(np.abs(qw[di]).max())) + 1e-4:
          rec.count("lockstep_woken_tree_velocity_equal")
        elif err > 0.5 * max(scale, float(np.abs(qw[di]).max())) + 1e-2:
          # observed on the unchanged tree: a tree woken as a cycle mate whose tendon-limit row is assembled by MJWarp in
          # the waking step but not by MuJoCo (one-step lag).  The property speaks about the awake/asleep evolution,
          # not about the forces of the waking step: recorded, not judged.
          if not rec.tally.get("lockstep_woken_tree_velocity_differs"):
            rec.cover("woken_tree_velocity_differs_sample", f"tree {t}: {qw[di].tolist()} vs MuJoCo {qm[di].tolist()}; before {pre['tree_asleep'][w].tolist()} after {A1.tolist()}; links {[(k, list(ts)) for k, ts in (wlinks or []) if int(t) in ts]} {ctx}"[:300])
          rec.count("lockstep_woken_tree_velocity_differs")
        else:
          rec.count("lockstep_woken_tree_velocity_grey")
    return
  # awake sets differ: judge only away from the tolerance
  diff = np.nonzero(Sw != Sm_)[0]
  for t in diff:
    awake_q = qm if Sw[t] else qw  # the engine in which the tree is still awake shows the tested velocity
    mates = [int(t)]
    isl = mid["tree_island"][w] if mid is not None else None
    if isl is not None and isl[t] >= 0:
      mates = [int(u) for u in np.nonzero(isl == isl[t])[0]]
    if any(topo.near_tol(u, awake_q) for u in mates):
      rec.count("lockstep_ungated_near_tolerance")
      return
    qf, xf = pre["qfrc_applied"][w], pre["xfrc_applied"][w]
    both_awake = [u for u in mates if not Sw[u] and not Sm_[u]]
    if any(topo.can_sleep(u, qw, qf, xf)[0] != topo.can_sleep(u, qm, qf, xf)[0] for u in both_awake):
      rec.count("lockstep_ungated_velocity_side")
      return
  qf, xf = pre["qfrc_applied"][w], pre["xfrc_applied"][w]
  sig, why = "lockstep:awake_set", ""
  for t in diff:
    isl = mid["tree_island"][w] if mid is not None else None
    mates = [int(u) for u in np.nonzero(isl == isl[t])[0]] if isl is not None and isl[t] >= 0 else [int(t)]
    awake_q = qm if Sw[t] else qw
    if any(topo.can_sleep(u, pre["qvel"][w], qf, xf)[0] != topo.can_sleep(u, awake_q, qf, xf)[0] for u in mates):
      sig = "lockstep:velocity_tested_after_integration"
      why = " -- pre-step and post-step velocities of the island are on different sides of sleep_tolerance: MuJoCo tests the velocity before integrating, MJWarp after"
  rec.viol(
    sig,
    f"awake set after one step differs from MuJoCo: tree_asleep {A1.tolist()} vs {B1.tolist()} (before: {pre['tree_asleep'][w].tolist()}){why} {ctx}",
    mjw=A1.tolist(), mj=B1.tolist(), before=pre["tree_asleep"][w].tolist(),
  )


# ------------------------------------------------------------------------------------------ case runners


def build(case, rec):
  rng = np.random.default_rng(case["seed"])
  integ = str(rng.choice(["Euler", "Euler", "implicitfast"]))
  jac = str(rng.choice(["dense", "sparse"]))
  cone = str(rng.choice(["pyramidal", "elliptic"]))
  xml, meta = _isl.sleep_scene(case["seed"], ntree=(3, 7), jac=jac, cone=cone, integrator=integ, iterations=ITER)
  try:
    mjm = mujoco.MjModel.from_xml_string(xml)
  except Exception as e:  # noqa
    rec.rejected = f"mujoco compile: {e}"[:200]
    return None
  try:
    m = mw.put_model(mjm)
  except (NotImplementedError, ValueError) as e:
    rec.rejected = f"put_model: {e}"[:200]
    return None
  for f in meta["features"]:
    rec.cover("features", f)
  rec.cover("features", [f"integrator:{integ}", f"jacobian:{jac}", f"cone:{cone}"])
  return rng, xml, meta, mjm, m, integ


CW = ("cM", "cqLD", "crhs", "cx", "cJ", "cMa", "cqfrc_smooth", "cqacc_smooth", "cqacc_warmstart", "cqacc", "cqfrc_constraint")


def fresh_data(mjm, m, sts, **caps):
  """make_data + zeroed compaction workspace.

  The c* scratch arrays are allocated with wp.empty; the compacted solve of a sparse model reads cqfrc_constraint before
  writing it when a world has no constraint rows (reported under C38).  Zeroing them once makes the histories of this
  monitor reproducible; the stale-workspace mechanism itself is C38's subject.
  """
  d = mw.make_data(mjm, m, sts, **caps)
  for k in CW:
    a = getattr(d, k, None)
    if a is not None and a.size:
      a.zero_()
  return d


def init_states(rng, mjm, nworld):
  sts = []
  for w in range(nworld):
    qpos = np.array(mjm.qpos0, dtype=np.float32)
    qvel = (rng.normal(size=mjm.nv) * rng.choice([0.0, 0.2, 1.0])).astype(np.float32)
    for j in range(mjm.njnt):
      if mjm.jnt_type[j] == 0:
        a = mjm.jnt_qposadr[j]
        qpos[a + 2] += np.float32(rng.uniform(0, 0.1))
    sts.append({"qpos": qpos, "qvel": qvel})
  return sts


def integrate(mjw, m, d, integ):
  if integ == "Euler":
    mjw.euler(m, d)
  else:
    mjw.implicit(m, d)


def run_hist(case, rec):
  import mujoco_warp as mjw

  eqw = case["kind"] == "eqwake"
  b = build_eqwake(case, rec) if eqw else build(case, rec)
  if b is None:
    return
  rng, xml, meta, mjm, m, integ = b
  topo = Topo(mjm)
  if eqw:
    d = fresh_data(mjm, m, eqwake_states(rng, mjm, NWORLD), nconmax=NCONMAX, njmax=NJMAX)
    ev = eqwake_events(rng, mjm, topo, meta, case["steps"], NWORLD)
  else:
    d = fresh_data(mjm, m, init_states(rng, mjm, NWORLD), nconmax=NCONMAX, njmax=NJMAX)
    ev = make_events(rng, mjm, topo, case["steps"], NWORLD)
  host = {k: getattr(d, k).numpy().copy() for k in ("xfrc_applied", "qfrc_applied", "eq_active", "ctrl", "qvel")}
  mons = [WorldMon(topo) for _ in range(NWORLD)]
  mjd = mujoco.MjData(mjm)
  split = case["entry"] == "split"
  iterations = int(mjm.opt.iterations)
  for s in range(case["steps"]):
    apply_events(d, topo, ev, s, host)
    pre = snap_pre(d)
    if split:
      mjw.forward(m, d)
      mid = snap_mid(d)
      integrate(mjw, m, d, integ)
    else:
      mjw.step(m, d)
      mid = snap_mid(d)  # contacts / islands / tree_island of this step; tree_asleep is already post-sleep
    post = snap_post(d)
    ov = int(d.overflow.numpy().max()) if s % 50 == 0 else 0
    if ov:
      rec.inconcl(f"capacity overflow {ov}")
      break
    if not np.all(np.isfinite(post["qpos"])) or not np.all(np.isfinite(post["qvel"])):
      rec.inconcl("state became non-finite")
      break
    for w in range(NWORLD):
      if mons[w].retired:
        continue
      ctx = f"[world {w} step {s}]"
      if eqw:
        eqwake_observe(rec, topo, meta, pre, mid, post, w, split)
      mons[w].step(rec, w, pre, mid, post, split, ctx)
      if mons[w].retired:
        rec.count("worlds_retired_after_cycle_corruption")
        continue
      check_derived(rec, topo, post, w, ctx)
      if split:
        check_derived(rec, topo, {"tree_asleep": mid["tree_asleep"], "tree_awake": mid["tree_awake"]}, w, ctx + " after forward")
      wl = topo.links(mid["con_geom"][mid["con_world"] == w], pre["eq_active"][w], mid["ten_length"][w])
      lockstep(rec, topo, mjd, pre, mid if split else {**mid, "tree_asleep": post["tree_asleep"]}, post, w, ctx, iterations, wlinks=wl, woken_vel=eqw)
    if any(v["sig"] not in CONTINUE_SIGS for v in rec.violations) or all(mn.retired for mn in mons):
      break
  nslept = sum(mn.nslept for mn in mons)
  nwoke = sum(mn.nwoke for mn in mons)
  rec.cover("trees_fell_asleep", nslept)
  rec.cover("trees_woke", nwoke)
  rec.cover("world_steps", NWORLD * case["steps"])
  for mn in mons:
    rec.cover("wake_causes", sorted(mn.wake_causes))
  rec.cover("policy_never_trees", int(topo.never.sum()))
  rec.cover("entry:" + case["entry"], 1)
  if eqw:
    rec.cover("eqw_trees_fell_asleep", nslept)
    rec.cover("eqw_trees_woke", nwoke)
    rec.cover("eqw_world_steps", NWORLD * case["steps"])
  if nslept and nwoke:
    rec.nontrivial(xml, repr(ev))
  rec.sample = {"seed": case["seed"], "kind": case["kind"], "ntree": int(mjm.ntree), "nv": int(mjm.nv), "features": meta["features"], "tol": meta["tol"], "slept": nslept, "woke": nwoke, "events_world0": sorted(ev[0].items())[:4]}


def rollout(mjw, sched, m, d, mjm, topo, ev, steps, integ, mode, key, kernel_filter):
  """Runs a history under one schedule; returns per-step (tree_asleep, qpos, qvel)."""
  host = {k: getattr(d, k).numpy().copy() for k in ("xfrc_applied", "qfrc_applied", "eq_active", "ctrl", "qvel")}
  out = []
  sched.set_schedule(mode, key, kernel_filter=kernel_filter)
  for s in range(steps):
    apply_events(d, topo, ev, s, host)
    mjw.step(m, d)
    out.append((d.tree_asleep.numpy().copy(), d.qpos.numpy().copy(), d.qvel.numpy().copy()))
  sched.set_schedule(0, 0)
  return out


def compare_rollouts(rec, topo, ref, alt, label, sig="sched:awake_set"):
  """First-divergence comparison of two schedules. Returns True if judged equal throughout."""
  nworld = ref[0][0].shape[0]
  for w in range(nworld):
    for s in range(len(ref)):
      a0, q0, v0 = ref[s]
      a1, q1, v1 = alt[s]
      rec.check()
      same_set = np.array_equal(a0[w] >= 0, a1[w] >= 0)
      bit = same_set and np.array_equal(q0[w], q1[w]) and np.array_equal(v0[w], v1[w])
      if bit:
        if not np.array_equal(a0[w], a1[w]):
          rec.count(f"{label}:countdown_values_differ_only")
        continue
      if not same_set:
        # observable difference of the awake set: judge unless a tolerance test was close in the previous step
        prev_v = ref[s - 1][2][w] if s else v0[w]
        prev_v1 = alt[s - 1][2][w] if s else v1[w]
        diff = np.nonzero((a0[w] >= 0) != (a1[w] >= 0))[0]
        traj_equal = s == 0 or (np.array_equal(ref[s - 1][1][w], alt[s - 1][1][w]) and np.array_equal(prev_v, prev_v1))
        if traj_equal:
          rec.viol(
            sig,
            f"awake set depends on task order: step {s} world {w} tree_asleep {a0[w].tolist()} (identity) vs {a1[w].tolist()} ({label}); trajectories were bit-identical up to the previous step; previous tree_asleep {ref[s - 1][0][w].tolist() if s else None} vs {alt[s - 1][0][w].tolist() if s else None}",
            step=s, world=w, trees=diff.tolist(),
          )
        else:
          rec.count(f"{label}:awake_set_differs_after_roundoff_divergence")
        break
      r = cmp.first_divergence(rec, "qpos", q0[w], q1[w], sig_prefix="sched:", ctx=f"world {w} step {s} ({label})")
      r2 = cmp.first_divergence(rec, "qvel", v0[w], v1[w], sig_prefix="sched:", ctx=f"world {w} step {s} ({label})")
      rec.count(f"{label}:first_divergence_{r}")
      break
    else:
      rec.count(f"{label}:bit_identical_history")


def run_sched(case, rec):
  import mujoco_warp as mjw

  from mon import sched

  eqw = case["kind"] == "eqsched"
  b = build_eqwake(case, rec) if eqw else build(case, rec)
  if b is None:
    return
  rng, xml, meta, mjm, m, integ = b
  topo = Topo(mjm)
  if eqw:
    sts = eqwake_states(rng, mjm, NWORLD)
    ev = eqwake_events(rng, mjm, topo, meta, case["steps"], NWORLD)
  else:
    sts = init_states(rng, mjm, NWORLD)
    ev = make_events(rng, mjm, topo, case["steps"], NWORLD)
  sched.reset_counters()
  sched.start_log()
  runs = {}
  for label, mode, filt in (("identity", 0, None), ("wake_reverse", 1, "wake"), ("wake_random", 2, "wake"), ("all_random", 2, None)):
    d = fresh_data(mjm, m, sts, nconmax=NCONMAX, njmax=NJMAX)
    runs[label] = rollout(mjw, sched, m, d, mjm, topo, ev, case["steps"], integ, mode, case["seed"] & 0xFFFF, filt)
  log, names = sched.stop_log()
  rec.cover("kernels_permuted", sorted(n for n in names if "wake" in n or "sleep" in n or "island" in n or "flood" in n or "cycle" in n))
  rec.cover("launches", sched.counters()["launches"])
  rec.cover("launches_permuted_ge2", sched.counters()["launches_permuted_ge2"])
  for label in ("wake_reverse", "wake_random", "all_random"):
    compare_rollouts(rec, topo, runs["identity"], runs[label], label)
  a = np.array([r[0] for r in runs["identity"]])
  slept = int(((a[1:] >= 0) & (a[:-1] < 0)).sum())
  woke = int(((a[1:] < 0) & (a[:-1] >= 0)).sum())
  rec.cover("sched_trees_fell_asleep", slept)
  rec.cover("sched_trees_woke", woke)
  if eqw:
    rec.cover("eqsched_trees_woke", woke)
  if slept and woke:
    rec.nontrivial("sched", xml, repr(ev))
  rec.sample = {"seed": case["seed"], "kind": "sched", "ntree": int(mjm.ntree), "slept": slept, "woke": woke, "features": meta["features"]}


WAKEORDER_XML = """
<mujoco>
  <option timestep="0.004" sleep_tolerance="0.05" jacobian="{jac}"><flag sleep="enable"/></option>
  <worldbody>
    <geom type="plane" size="20 20 .1"/>
    <body name="A" pos="0 0 .1"><freejoint/><geom type="box" size=".1 .1 .1"/></body>
    <body name="B" pos="{bx} 0 .1"><freejoint/><geom type="box" size=".1 .1 .1"/></body>
    <body name="X" pos="-0.195 0 .1"><freejoint/><geom type="sphere" size=".1"/></body>
    <body name="Y" pos="{yx} 0 .1"><freejoint/><geom type="sphere" size=".1"/></body>
    {extra}
  </worldbody>
  <equality><connect name="e" body1="A" body2="B" anchor="0 0 0" active="false"/></equality>
</mujoco>
"""


def run_wakeorder(case, rec):
  """F8 scenario: one sleeping cycle {A,B}; two awake trees with different countdowns touch A and B in the same step.

  Variant 'touching': A and B still touch (one island after waking); variant 'apart': A and B were put in one cycle by
  a since-deactivated equality and do not touch (two islands after waking).  The awake set / trajectory over the next
  2*MJ_MINAWAKE+4 steps must not depend on the order in which the contacts are processed.
  """
  import mujoco_warp as mjw
  import warp as wp

  from mon import sched

  rng = np.random.default_rng(case["seed"])
  variant = ("touching", "apart")[case["seed"] % 2]
  jac = ("dense", "sparse")[(case["seed"] // 2) % 2]
  bx = 0.198 if variant == "touching" else 0.6
  xml = WAKEORDER_XML.format(jac=jac, bx=bx, yx=bx + 0.195, extra="")
  mjm = mujoco.MjModel.from_xml_string(xml)
  m = mw.put_model(mjm)
  topo = Topo(mjm)
  cx, cy = int(rng.integers(K_AWAKE, -1)), int(rng.integers(K_AWAKE, -1))
  if cx == cy:
    cy = max(K_AWAKE, cx - 3) if cx > K_AWAKE + 3 else cx + 3
  nsteps = 2 * MINAWAKE + 6
  res = {}
  sched.reset_counters()
  for label, mode in (("identity", 0), ("reverse", 1), ("random", 2), ("rotate", 3)):
    d = fresh_data(mjm, m, [{"qpos": np.array(mjm.qpos0, dtype=np.float32), "qvel": np.zeros(mjm.nv, np.float32)}], nconmax=32, njmax=128)
    ta = np.array([[1, 0, cx, cy]], dtype=np.int32)
    wp.copy(d.tree_asleep, wp.array(ta, dtype=int))
    from mujoco_warp._src import sleep as _sleep

    _sleep.update_sleep(m, d)
    sched.set_schedule(mode, case["seed"] & 0xFFFF, kernel_filter="wake")
    hist = []
    for s in range(nsteps):
      mjw.step(m, d)
      hist.append((d.tree_asleep.numpy().copy(), d.qpos.numpy().copy(), d.qvel.numpy().copy()))
    sched.set_schedule(0, 0)
    res[label] = hist
  woke = bool(np.all(res["identity"][0][0][0][:2] < 0))
  rec.cover("wakeorder_variant:" + variant, 1)
  rec.cover("wakeorder_cycle_woke_by_two_contacts", int(woke))
  for label in ("reverse", "random", "rotate"):
    compare_rollouts(rec, topo, res["identity"], res[label], "wakeorder_" + label, sig="sched:wake_collision_order")
  if woke:
    rec.nontrivial("wakeorder", variant, jac, cx, cy)
  rec.sample = {"kind": "wakeorder", "variant": variant, "countdown_X": cx, "countdown_Y": cy, "after_first_step_identity": res["identity"][0][0][0].tolist(), "after_first_step_reverse": res["reverse"][0][0][0].tolist()}


def run_case(case):
  rec = core.Rec(case)
  if case["kind"] in ("hist", "eqwake"):
    run_hist(case, rec)
  elif case["kind"] in ("sched", "eqsched"):
    run_sched(case, rec)
  else:
    run_wakeorder(case, rec)
  return rec.result()


def requirements(agg, tier):
  unmet = []
  cov = agg["cover"]
  if cov.get("trees_fell_asleep", 0) < 50:
    unmet.append("fewer than 50 fall-asleep transitions observed")
  if cov.get("trees_woke", 0) < 30:
    unmet.append("fewer than 30 wake transitions observed")
  causes = set(cov.get("wake_causes", []))
  for c in ("perturbation", "contact", "cycle"):
    if c not in causes:
      unmet.append(f"wake cause never observed: {c}")
  if not ({"equality", "tendon_limit", "tendon_eq"} & causes):
    unmet.append("no wake through an equality or tendon link observed")
  if agg["tally"].get("lockstep_awake_set_equal", 0) < 1000:
    unmet.append("fewer than 1000 gated lock-step comparisons with MuJoCo")
  if cov.get("launches_permuted_ge2", 0) < 200:
    unmet.append("fewer than 200 permuted launches")
  if cov.get("wakeorder_cycle_woke_by_two_contacts", 0) < 2:
    unmet.append("two-contact wake scenario not reached")
  if agg["distinct"] < 10:
    unmet.append("fewer than 10 distinct non-trivial histories")
  # run-time links: every body/site/joint equality family must have been switched on over sleeping trees in both
  # configurations, and a tendon limit must have become active between an awake and a sleeping tree
  for lk in EQW_REQUIRED:
    for conf in ("asleep_in_two_cycles", "one_asleep_one_awake"):
      if cov.get(f"eqw:{lk}:{conf}", 0) < 1:
        unmet.append(f"run-time link never observed: {lk} active with trees {conf}")
  if sum(cov.get(f"eqw:{lk}:limit_active_one_asleep_one_awake", 0) for lk in ("limit_fixed", "limit_spatial", "limit_wrap")) < 2:
    unmet.append("fewer than 2 tendon limits became active between an awake and a sleeping tree")
  if cov.get("eqw_trees_woke", 0) < 40:
    unmet.append("fewer than 40 wake transitions in the run-time link scenes")
  return unmet
