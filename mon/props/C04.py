"""C04 Collision detection agrees with MuJoCo C (contact multiset).

Differential monitor: mjw.kinematics + mjw.collision on generated scenes x 3 worlds with different poses, versus
mj_kinematics + mj_collision on the same float32-representable poses. Contacts are grouped per (world, geom pair);
pair existence, contact count, distance, position, normal/frame, dim, friction, solref, solreffriction, solimp and
includemargin are compared. MuJoCo is re-run on 3 copies of the pose perturbed by 1e-6 (conditioning probe): a pair
whose reference count changes is inconclusive, and the measured spread widens the bound of every numeric field.
"""

import mujoco
import numpy as np

from mon import cmp, core, gen, mw
from mon.props import _col

ID = "C04"
LEVEL = "exploration"
RULE = (
  "case=(kind,pair type or profile,flag set,seed). kind 'pair': 5 independent geom pairs of one of the 33 collision-table "
  "types, each steered by bisection to a drawn signed distance (penetrating / grazing / inside margin+gap / separated; 25% "
  "axis-aligned orientations for face-face and parallel-edge contacts), random sizes, margins, gaps, priority, solmix, "
  "condim, friction, solref, solimp, explicit <pair>s; kind 'crowd': 8-14 random geoms thrown into a small box over a "
  "(tilted) plane and/or height field with pairs and excludes; kind 'tree': mon.gen kinematic trees (welded/child bodies, "
  "several geoms per body) with collide=True. Flag sets: default, MULTICCD disabled, NATIVECCD+MULTICCD disabled; pyramidal "
  "and elliptic cones. 3 worlds with different poses. Non-trivial: >=1 geom pair in contact in MuJoCo; distinct by "
  "hash(xml, poses)."
)
ASSUMPTIONS = [
  "MuJoCo 3.13 C (float64) mj_collision is the reference at the same float32-representable qpos",
  "repository-documented differences are not judged as violations: plane-mesh contact count, convex pairs without "
  "multi-contact support under MULTICCD (deepest contact only), non-unique face-face manifolds of box/mesh/cylinder pairs "
  "(existence, deepest distance, normal, parameters), height-field contact selection (existence, deepest contact, MJWarp "
  "contacts must be a subset of MuJoCo's per-prism contacts)",
  "a deepest distance that differs from MuJoCo's is accepted when MJWarp's (normal, dist) is a valid and better separating "
  "direction: dist equals the float64 support-function gap along MJWarp's normal and is larger than MuJoCo's (the signed "
  "distance of two convex shapes is the maximum of that gap over all directions)",
  "NATIVECCD-disabled scenes: MuJoCo then uses libccd for convex pairs, so only primitive-function pairs (incl. box-box) are judged numerically",
  "collision_primitive's process-global dispatch list (finding F6, property C36) is pinned per case so verdicts do not depend on worker history",
]
BUDGET = {"quick": 450, "thorough": 2400}

FLAGSETS = _col.FLAGSETS

# float32 / convex-solver allowances: (dist, pos, normal)
ALLOW_PRIM = (1e-5, 5e-5, 5e-4)
ALLOW_CCD = (1e-4, 5e-3, 2e-2)
C_NOISE_SCALE = 0.2  # cmp.judge multiplies noise by 50; the 1e-6 pose probe is ~10 float32 ulps, so use 10x
PARAM_ALLOW = 2e-6
EXIST_TOL = {"prim": 2e-5, "ccd": 2e-4}

def cases(tier, seed):
  out = []
  reps = 1 if tier == "quick" else 12
  k = 0
  for r in range(reps):
    for pi, (t1, t2) in enumerate(_col.PAIR_TABLE):
      for fs in ("default", "nomulti"):
        if tier == "quick" and fs == "nomulti" and not ({t1, t2} & _col.FLAT):
          continue  # single- vs multi-contact CCD only differs for flat-faced shapes
        out.append({"id": f"pair{seed}_{r}_{t1}-{t2}_{fs}", "kind": "pair", "pair": [t1, t2], "flags": fs, "seed": seed * 1000003 + k, "weight": 2})
        k += 1
    # box-box primitive (NATIVECCD disabled) and a few others under that flag set
    for t1, t2 in (("box", "box"), ("capsule", "box"), ("plane", "box"), ("capsule", "capsule")):
      out.append({"id": f"pair{seed}_{r}_{t1}-{t2}_nonative", "kind": "pair", "pair": [t1, t2], "flags": "nonative", "seed": seed * 1000003 + k, "weight": 2})
      k += 1
  ncrowd = 24 if tier == "quick" else 500
  for i in range(ncrowd):
    out.append({"id": f"crowd{seed}_{i}", "kind": "crowd", "flags": ("default", "nomulti", "nonative")[i % 3], "seed": seed * 1000003 + 500000 + i, "weight": 3})
  ntree = 24 if tier == "quick" else 500
  for i in range(ntree):
    out.append({"id": f"tree{seed}_{i}", "kind": "tree", "flags": ("default", "nomulti")[i % 2], "seed": seed * 1000003 + 700000 + i, "weight": 2})
  return out


# ------------------------------------------------------------------------------------ scene construction


make_case_model = _col.make_case_model


# ------------------------------------------------------------------------------------ oracle


def pair_threshold(mjm, g1, g2):
  """(margin, gap, pairid) MuJoCo uses for this geom pair."""
  for i in range(mjm.npair):
    a, b = int(mjm.pair_geom1[i]), int(mjm.pair_geom2[i])
    if (a, b) == (g1, g2) or (a, b) == (g2, g1):
      return float(mjm.pair_margin[i]), float(mjm.pair_gap[i]), i
  return float(mjm.geom_margin[g1] + mjm.geom_margin[g2]), float(mjm.geom_gap[g1] + mjm.geom_gap[g2]), -1


def band(dist, margin, gap):
  if dist < 0:
    return "penetrating"
  if dist < margin:
    return "margin-band"
  return "gap-band"


def _match(pa, pb):
  """Greedy nearest-position matching of two equally long point sets; returns index list into pb."""
  n = len(pa)
  used, out = set(), []
  for i in range(n):
    d = np.linalg.norm(pb - pa[i], axis=1)
    for j in used:
      d[j] = np.inf
    j = int(np.argmin(d))
    used.add(j)
    out.append(j)
  return out


def _judge(rec, name, pname, got, ref, allow, noise, ctx):
  """cmp.judge with the worst-ratio keyed by numeric class and the violation signature refined by pair type."""
  n0 = len(rec.violations)
  v = cmp.judge(rec, name, got, ref, allow, noise, ctx=ctx)
  if v == "viol" and len(rec.violations) > n0:
    rec.violations[-1]["sig"] = name.split("[")[0] + ":" + pname
  return v


def _fold(rec, n0, sig):
  """Replaces the signatures of the violations recorded since index n0 by one mechanism-level signature (keeps one)."""
  if len(rec.violations) > n0:
    rec.violations[n0]["sig"] = sig
    del rec.violations[n0 + 1 :]


def _minsize(mjm, g):
  t = int(mjm.geom_type[g])
  if t in (0, 1):
    return 1.0
  if t == 7:
    return 0.1
  sz = mjm.geom_size[g]
  n = {2: 1, 3: 1, 5: 2, 4: 3, 6: 3}[t]  # capsule: radius only
  return float(np.min(sz[:n]))


def classify(t1, t2, flagset):
  """-> (numeric class 'prim'|'ccd', strict(bool), reason when loose)."""
  pair = (t1, t2)
  multiccd = flagset == "default"
  num = "prim" if (pair in _col.PRIMITIVE_PAIRS or (pair == ("box", "box") and flagset == "nonative")) else "ccd"
  if t1 == "hfield":
    return num, False, "hfield-selection"
  if pair == ("plane", "mesh"):
    return num, False, "plane-mesh-count"
  if pair == ("box", "box") and flagset == "nonative":
    return num, False, "boxbox-manifold"
  if num == "ccd" and t1 in _col.FLAT and t2 in _col.FLAT:
    return num, False, "flat-manifold"
  if multiccd and pair in _col.NO_MULTICCD:
    return num, False, "no-multiccd-support"
  return num, True, ""


def compare_world(rec, case, mjm, qpos, got, w, rng, nofilter_pairs):
  flagset = case["flags"]
  ref, mjd = _col.mj_collide(mjm, qpos)
  probes = [_col.mj_collide(mjm, _col.perturb_qpos(mjm, qpos, rng))[0] for _ in range(3)]
  gr, gg = _col.group_by_pair(ref), _col.group_by_pair(got)
  gps = [_col.group_by_pair(p) for p in probes]
  ncontact_ref = 0
  for key in sorted(set(gr) | set(gg)):
    g1, g2 = key
    t1, t2 = _col.GEOM_NAMES[int(mjm.geom_type[g1])], _col.GEOM_NAMES[int(mjm.geom_type[g2])]
    pname = f"{t1}-{t2}"
    num, strict, why = classify(t1, t2, flagset)
    allow = ALLOW_PRIM if num == "prim" else ALLOW_CCD
    ia, ib = gr.get(key, []), gg.get(key, [])
    ncontact_ref += len(ia)
    counts = [len(g.get(key, [])) for g in gps]
    stable = all(c == len(ia) for c in counts)
    margin, gap, pid = pair_threshold(mjm, g1, g2)
    thr = margin + gap
    ctx = f"world {w} geoms ({g1},{g2}) {pname} flags={flagset}"
    libccd_ref = flagset == "nonative" and num == "ccd"
    xsig = ":explicit-pair" if pid >= 0 else ""
    if t1 == "hfield" and thr > 0:
      # MuJoCo raises the prisms by margin(+gap) and reports the distance to the raised surface (its dist is smaller
      # than the surface distance by (margin+gap)*n_z): no usable reference for these pairs
      rec.count("unjudged:hfield_margin_reference_quirk")
      if ib:
        rec.cover("contacts:" + pname, len(ib))
      continue
    if t1 not in ("plane", "hfield") and np.linalg.norm(mjd.geom_xpos[g1] - mjd.geom_xpos[g2]) < 1e-7:
      rec.count("unjudged:coincident_centres")  # fully degenerate for GJK/EPA in both engines
      continue
    rec.check()
    # ---- existence
    if not ia or not ib:
      if not stable or (not ia and any(counts)):
        rec.count("pair_unstable_reference")
        continue
      if libccd_ref:
        rec.count("unjudged:libccd_reference")
        continue
      tol = EXIST_TOL[num]
      if ia:
        dmin = float(ref["dist"][ia].min())
        if num == "ccd" and dmin < -0.5 * min(_minsize(mjm, g1), _minsize(mjm, g2)):
          rec.count("unjudged:deep_penetration")
          continue
        if dmin > thr - tol:
          rec.count("pair_borderline")
          continue
        if t1 == "hfield" and dmin > -2e-3:
          rec.count("pair_borderline")
          continue
        bnd = band(dmin, margin, gap)
        geom_thr = float(mjm.geom_margin[g1] + mjm.geom_margin[g2] + mjm.geom_gap[g1] + mjm.geom_gap[g2])
        if key in nofilter_pairs(w):
          # present once every candidate pair reaches the narrowphase: a bounding-volume filter dropped it
          sig = "missing-pair:dropped-by-broadphase-filter" + (":explicit-pair-margin" if (pid >= 0 and thr > geom_thr and dmin >= 0) else "")
        elif pname == "plane-mesh" and dmin > 0:
          sig = "missing-pair:plane-mesh:dist>0"
        elif bnd == "gap-band" and (pname == "capsule-capsule" or (pname == "box-box" and flagset == "nonative")):
          sig = "missing-pair:gap-band:narrowphase-cuts-at-margin"
        elif num == "ccd" and bnd == "margin-band" and t1 != "hfield":
          sig = "missing-pair:ccd-narrowphase:margin-band"
        else:
          sig = f"missing-pair:{'explicit-pair' if pid >= 0 else pname}:{bnd}"
        rec.viol(
          sig,
          f"MuJoCo reports {len(ia)} contact(s), MJWarp none; dist={dmin:.6g} margin={margin:.4g} gap={gap:.4g} {ctx}",
          dist=ref["dist"][ia], pos=ref["pos"][ia],
        )  # fmt: skip
      else:
        dmin = float(got["dist"][ib].min())
        if abs(dmin - thr) < tol:
          rec.count("pair_borderline")
          continue
        dref = None
        if t1 != "hfield":
          dref = float(mujoco.mj_geomDistance(mjm, mjd, g1, g2, thr + 0.1, None))
          if abs(dref - thr) < tol:
            rec.count("pair_borderline")
            continue
        elif dmin > -2e-3:
          rec.count("pair_borderline")
          continue
        w1, w2 = int(mjm.body_weldid[mjm.geom_bodyid[g1]]), int(mjm.body_weldid[mjm.geom_bodyid[g2]])
        both_static = pid < 0 and (w1 == 0 or mjm.body_mocapid[w1] >= 0) and (w2 == 0 or mjm.body_mocapid[w2] >= 0)
        rec.viol(
          "spurious-pair:both-static" if both_static else f"spurious-pair:{'explicit-pair' if pid >= 0 else pname}:{band(dmin, margin, gap)}",
          f"MJWarp reports {len(ib)} contact(s), MuJoCo none; mjwarp dist={dmin:.6g} mj_geomDistance={dref} margin={margin:.4g} gap={gap:.4g} {ctx}",
          dist=got["dist"][ib], pos=got["pos"][ib],
        )  # fmt: skip
      continue
    rec.cover("contacts:" + pname, len(ib))
    rec.cover("pairs_in_contact", 1)
    if not stable:
      rec.count("pair_unstable_reference")
      continue
    # ---- parameters (exact up to float32)
    a0 = ia[0]
    if pid >= 0:
      how = ":explicit-pair"
    else:
      how = ":priority-differs" if mjm.geom_priority[g1] != mjm.geom_priority[g2] else ":priority-equal"
      if mjm.geom_solref[g1][0] <= 0 or mjm.geom_solref[g2][0] <= 0:
        how += ":direct-solref"
    for b in ib:
      for f in ("includemargin", "friction", "solref", "solreffriction", "solimp"):
        cmp.judge(rec, f + how, got[f][b], ref[f][a0], PARAM_ALLOW, 0.0, ctx=ctx)
      rec.check()
      if int(got["dim"][b]) != int(ref["dim"][a0]):
        rec.viol("dim", f"contact dim {int(got['dim'][b])} vs MuJoCo {int(ref['dim'][a0])} {ctx}")
    if pid >= 0:
      rec.cover("explicit_pair_contacts", len(ib))
    if t1 == "hfield":
      # height fields: MJWarp keeps at most 4 of the per-prism contacts MuJoCo reports (deepest + 3 spread out)
      if libccd_ref:
        rec.count("unjudged:libccd_reference")
        continue
      if float(ref["dist"][ia].min()) < -0.5 * _minsize(mjm, g2):
        rec.count("unjudged:deep_penetration")  # a geom deep inside a non-convex terrain has no well-defined contact
        continue
      _hfield(rec, ref, ia, got, ib, xsig, ctx)
      continue
    # ---- deepest contact
    a = ia[int(np.argmin(ref["dist"][ia]))]
    b = ib[int(np.argmin(got["dist"][ib]))]
    dref, dgot = float(ref["dist"][a]), float(got["dist"][b])
    nref, ngot = ref["frame"][a][:3], got["frame"][b][:3]
    noise_d = noise_n = 0.0
    for p, gp in zip(probes, gps):
      ip = gp[key]
      ap = ip[int(np.argmin(p["dist"][ip]))]
      noise_d = max(noise_d, abs(float(p["dist"][ap]) - dref))
      noise_n = max(noise_n, float(np.abs(p["frame"][ap][:3] - nref).max()))
    if libccd_ref:
      rec.count("unjudged:libccd_reference")
      continue
    deep = dref < -0.5 * min(_minsize(mjm, g1), _minsize(mjm, g2))
    if deep and num == "ccd":
      rec.count("unjudged:deep_penetration")
      continue
    cls = num
    nv0 = len(rec.violations)
    vd = _judge(rec, f"dist[{cls}]", pname, dgot, dref, allow[0], noise_d * C_NOISE_SCALE, ctx)
    grazing = abs(dref) < 2e-6 and num == "ccd"
    vn = "ok"
    if grazing:
      rec.count("unjudged:grazing_normal")
    else:
      vn = _judge(rec, f"normal[{cls}]", pname, ngot, nref, allow[2], noise_n * C_NOISE_SCALE, ctx)
    if (vd == "viol" or vn == "viol") and t1 != "plane":
      # Arbitration with float64 support functions: the signed distance of two convex shapes is the maximum over unit
      # directions n of gap(n) = min_{p2} n.p2 - max_{p1} n.p1. MJWarp's answer stands if its dist is the gap along its
      # own normal and that gap is not smaller than the gap along MuJoCo's normal (MuJoCo's multi-contact manifolds
      # snap the normal to a face and report per-point depths, which need not be the deepest direction).
      o1, o2 = _col.geo_of(mjm, mjd, g1), _col.geo_of(mjm, mjd, g2)
      un = np.asarray(ngot, dtype=np.float64)
      un = un / max(np.linalg.norm(un), 1e-12)
      gap_got = _col.support_gap(o1, o2, un)
      gap_ref = _col.support_gap(o1, o2, np.asarray(nref, dtype=np.float64))
      if abs(gap_got - dgot) < 10 * allow[0] and gap_got >= gap_ref - 10 * allow[0]:
        nv = (vd == "viol") + (vn == "viol")
        del rec.violations[len(rec.violations) - nv :]
        rec.count("deepest_differs_but_valid_and_not_worse")
        continue
    boxprim = pname == "box-box" and flagset == "nonative"
    if boxprim:
      _fold(rec, nv0, "box-box-primitive:deepest-contact-differs")
    # ---- counts / positions
    nv1 = len(rec.violations)
    if len(ia) != len(ib):
      if strict:
        rec.check()
        sub = ":upper-corners-reported" if (pname == "plane-box" and len(ib) > 4 and len(ia) <= 4) else ""
        if pname == "capsule-box":
          sub = ":second-contact"  # deepest contact agreed (checked above); only the auxiliary second contact differs
        rec.viol(f"count:{pname}{sub}", f"{len(ib)} contacts vs MuJoCo {len(ia)} {ctx}", mj_dist=ref["dist"][ia], mjw_dist=got["dist"][ib])
      else:
        rec.count("count_differs_allowed:" + why)
      continue
    if not strict and len(ia) > 1:
      rec.count("manifold_not_compared:" + why)
      continue
    pa, pb = ref["pos"][ia], got["pos"][ib]
    order = _match(pa, pb)
    # probe noise for matched contacts
    npos = ndist = nfr = 0.0
    for p, gp in zip(probes, gps):
      ip = gp[key]
      o2 = _match(pa, p["pos"][ip])
      for i, j in enumerate(o2):
        npos = max(npos, float(np.abs(p["pos"][ip[j]] - pa[i]).max()))
        ndist = max(ndist, abs(float(p["dist"][ip[j]]) - float(ref["dist"][ia[i]])))
        nfr = max(nfr, float(np.abs(p["frame"][ip[j]] - ref["frame"][ia[i]]).max()))
    # a cylinder standing on its cap touches the plane in a rim triangle whose rotation about the axis is arbitrary
    # (MuJoCo ties it to the cylinder's local x axis, MJWarp to the world): positions are not comparable there
    cap = pname == "plane-cylinder" and len(ia) >= 3
    if cap:
      rec.count("manifold_not_compared:cylinder-cap-on-plane")
    for i, j in enumerate(order):
      ai, bj = ia[i], ib[j]
      if not cap:
        _judge(rec, f"pos[{cls}]", pname, got["pos"][bj], ref["pos"][ai], allow[1], npos * C_NOISE_SCALE, ctx)
      _judge(rec, f"dist_all[{cls}]", pname, got["dist"][bj], ref["dist"][ai], allow[0], ndist * C_NOISE_SCALE, ctx)
      if not (abs(float(ref["dist"][ai])) < 2e-6 and num == "ccd"):
        v = _judge(rec, f"normal_all[{cls}]", pname, got["frame"][bj][:3], ref["frame"][ai][:3], allow[2], nfr * C_NOISE_SCALE, ctx)
        # mju_makeFrame switches the tangent construction at |n_y| = 0.5: not comparable when the normal sits on the switch
        if v == "ok" and abs(abs(float(ref["frame"][ai][1])) - 0.5) > 3 * allow[2]:
          tsig = f"tangents:{pname}"
          if pname == "plane-capsule":
            nn = np.asarray(ref["frame"][ai][:3], dtype=np.float64)
            ax = np.asarray(mjd.geom_xmat[g2], dtype=np.float64).reshape(3, 3)[:, 2]
            if np.linalg.norm(ax - nn * (nn @ ax)) < 0.5:
              tsig += ":axis-projection<0.5"  # MJWarp falls back to a world axis, MuJoCo still aligns with the capsule
          cmp.judge(rec, tsig, got["frame"][bj][3:], ref["frame"][ai][3:], allow[2], nfr * C_NOISE_SCALE, ctx=ctx)
    if boxprim:
      _fold(rec, nv1, "box-box-primitive:deepest-contact-differs")
    elif pname == "capsule-box" and len(ia) == 2:
      _fold(rec, nv1, "count:capsule-box:second-contact")
    rec.cover("strict_matched:" + pname, len(ia))
  return ncontact_ref


def _hfield(rec, ref, ia, got, ib, xsig, ctx):
  """Every MJWarp height-field contact must coincide with one of MuJoCo's per-prism contacts, and MuJoCo's deepest
  contact must be among them (MJWarp's first contact is the minimum over the prisms)."""
  tol_pos, tol_dist = 30 * ALLOW_CCD[1], 30 * ALLOW_CCD[0]
  for b in ib:
    dp = np.linalg.norm(ref["pos"][ia] - got["pos"][b], axis=1)
    dd = np.abs(ref["dist"][ia] - got["dist"][b])
    dn = np.abs(ref["frame"][ia][:, :3] - got["frame"][b][:3]).max(axis=1)
    score = np.maximum(np.maximum(dp / tol_pos, dd / tol_dist), dn / (30 * ALLOW_CCD[2]))
    rec.check()
    r = float(score.min())
    rec.worst("hfield_subset", r)
    if r > 1:
      into = float(got["frame"][b][2]) < -0.5  # the height field geom is never rotated in these scenes: its z is world z
      rec.viol(
        "hfield:contact-normal-into-terrain" if into else "hfield:contact-not-in-reference",
        f"height-field contact pos {got['pos'][b]} dist {got['dist'][b]:.6g} normal {got['frame'][b][:3]} has no MuJoCo counterpart (best score {r:.3g}) {ctx}",
        mj_dist=ref["dist"][ia], mj_pos=ref["pos"][ia],
      )  # fmt: skip
  rec.check()
  dref, dgot = float(ref["dist"][ia].min()), float(got["dist"][ib].min())
  r = (dgot - dref) / tol_dist
  rec.worst("hfield_deepest", r)
  if r > 1:
    rec.viol("hfield:deepest-contact-missed", f"MuJoCo's deepest height-field contact dist {dref:.6g} is not reported (MJWarp deepest {dgot:.6g}) {ctx}")
  rec.cover("hfield_pairs_judged", 1)


def run_case(case):
  rec = core.Rec(case)
  rng = np.random.default_rng(case["seed"])
  made = make_case_model(case, rng)
  if made is None:
    rec.rejected = "mujoco compile"
    return rec.result()
  xml, mjm, qs, feats = made
  _col.pin_primitive_dispatch(mjm)
  try:
    m = mw.put_model(mjm)
  except (NotImplementedError, ValueError) as e:
    rec.rejected = f"put_model: {e}"[:200]
    rec.count("rejected_put_model")
    return rec.result()
  d, cw = _col.mjw_collide(mjm, m, qs)
  ov = mw.npy(d.overflow)
  nacon = int(mw.npy(d.nacon)[0])
  ncoll = int(mw.npy(d.ncollision)[0])
  if np.any(ov) or nacon > d.naconmax or ncoll > d.naconmax:
    rec.inconcl(f"capacity overflow bits={ov.tolist()} nacon={nacon} ncollision={ncoll} naconmax={d.naconmax}")
    return rec.result()
  nf = {}

  def nofilter_pairs(w):
    """geom pairs of world w that have a contact when no broadphase filter is applied (computed on demand)."""
    if "p" not in nf:
      old = m.opt.broadphase_filter
      m.opt.broadphase_filter = 0
      _, c0 = _col.mjw_collide(mjm, m, qs, d=d)
      m.opt.broadphase_filter = old
      nf["p"] = [set(_col.group_by_pair(x)) for x in c0]
    return nf["p"][w]

  total = 0
  for w, q in enumerate(qs):
    total += compare_world(rec, case, mjm, q, cw[w], w, rng, nofilter_pairs)
  for f in feats:
    rec.cover("features", f)
  rec.cover("worlds_compared", len(qs))
  if total > 0:
    rec.nontrivial(xml, *qs)
  rec.sample = {"kind": case["kind"], "pair": case.get("pair"), "flags": case["flags"], "ngeom": int(mjm.ngeom), "npair": int(mjm.npair), "nexclude": int(mjm.nexclude), "mujoco_contacts_all_worlds": total, "mjwarp_contacts_all_worlds": nacon}
  return rec.result()


def requirements(agg, tier):
  unmet = []
  cov = agg["cover"]
  need = 10 if tier == "quick" else 100
  missing = [f"{a}-{b}" for a, b in _col.PAIR_TABLE if cov.get(f"contacts:{a}-{b}", 0) < need]
  if missing:
    unmet.append(f"fewer than {need} contacts observed for pair types: {missing}")
  feats = set(cov.get("features", []))
  for f in ("flags:default", "flags:nomulti", "flags:nonative", "cone:elliptic", "cone:pyramidal", "crowd", "tree"):
    if f not in feats:
      unmet.append(f"feature never generated: {f}")
  if cov.get("explicit_pair_contacts", 0) < 5:
    unmet.append("fewer than 5 contacts of explicit <pair>s compared")
  if agg["distinct"] < 30:
    unmet.append("fewer than 30 distinct non-trivial cases")
  return unmet
