"""C10 Per-world model parameters take effect only in their world.

Metamorphic monitor: for every batchable Model / Option / Statistic field F (read at run time from the array specs
whose leading dimension is "*"), a Model whose F holds different values per world (batch sizes nworld, a divisor,
a non-divisor and 1) is simulated as a batch, and world i is compared (first-divergence rule, all observables,
contacts, rows) with an unbatched Model holding F[i % b] simulated alone from the same state.  Fields are also
batched through put_model(batch_sizes=...).  Liveness of each field (changing it changes the trajectory) is
measured; a field that never was live is reported as uncovered, never as held.
"""

import dataclasses

import numpy as np

from mon import core, meta, mw, scenes

ID = "C10"
LEVEL = "exploration"
TECHNIQUE = "runtime monitoring: metamorphic comparison of a per-world-batched Model against unbatched Models holding each world's values"
RULE = (
  "case=(scene, field F, batch size b): F's per-world values are positive-scaled copies (factor 0.6..1.6; quaternions renormalised; "
  "gravity/wind/magnetic additively perturbed) of the model's value; T=3 steps; worlds 0..nworld-1 compared with unbatched runs. "
  "Non-trivial: F was live in this case (the perturbed world's trajectory differs from the unperturbed model's); distinct by hash(scene, F, b)."
)
ASSUMPTIONS = [
  "integer / id / boolean batchable fields (geom_dataid, geom_matid, mat_texid, light_type, light_castshadow, light_active) and "
  "render-only float fields (rgba, light colours, material) do not influence the physics trajectory: they are decided by C35's renderer, not here",
  "derived fields are not re-derived after perturbing a source field (both the batched and the unbatched model carry the same inconsistent value, so the comparison stays valid)",
  "first-divergence rule with bit-equality expected",
]
BUDGET = {"quick": 240, "thorough": 2700}

RENDER_ONLY = {"geom_rgba", "mat_texrepeat", "mat_emission", "mat_specular", "mat_shininess", "mat_rgba", "light_attenuation", "light_cutoff", "light_exponent", "light_ambient", "light_diffuse", "light_specular", "cam_fovy", "cam_intrinsic", "geom_aabb"}
ADDITIVE = {"gravity", "wind", "magnetic"}

SINK_XML = """
<mujoco>
  <option timestep="0.00390625" density="50" viscosity="0.02" wind="0.5 0.2 0" magnetic="0.2 -0.3 0.5" cone="elliptic" impratio="2"/>
  <compiler angle="radian"/>
  <default><geom solmix="1.5" friction="0.9 0.02 0.002"/></default>
  <worldbody>
    <geom name="floor" type="plane" size="0 0 1" margin="0.01" gap="0.002"/>
    <site name="w0" pos="0 0.6 1.2"/>
    <light name="l0" mode="trackcom" target="torso" pos="0 0 3" dir="0 0 -1"/>
    <camera name="c0" mode="targetbody" target="arm2" pos="1 -1 1"/>
    <body name="torso" pos="0 0 0.32" gravcomp="0.3">
      <freejoint name="root"/>
      <geom name="gt" type="sphere" size="0.12" margin="0.012" gap="0.003" priority="1" solref="0.03 0.9" solimp="0.9 0.96 0.002 0.5 2" adhesion="1"/>
      <geom name="gt2" type="capsule" size="0.05 0.15" pos="0.1 0 -0.12" euler="0 1.2 0" margin="0.008"/>
      <site name="st" pos="0 0 0.15"/>
      <camera name="c1" mode="trackcom" pos="0.3 0 0.5"/>
      <light name="l1" mode="track" pos="0 0.3 0.6" dir="0 0 -1"/>
      <body name="arm1" pos="0.15 0 0.05">
        <joint name="j1" type="hinge" axis="0 1 0" range="-0.4 0.5" limited="true" margin="0.05" stiffness="4" springref="0.1" damping="0.3" armature="0.02" frictionloss="0.1" actuatorfrcrange="-3 3" actuatorfrclimited="true"/>
        <geom name="ga1" type="capsule" size="0.03" fromto="0 0 0 0.25 0 0" margin="0.006"/>
        <site name="s1" pos="0.12 0 0.04"/>
        <body name="arm2" pos="0.25 0 0">
          <joint name="j2" type="hinge" axis="0 0 1" range="-0.6 0.6" limited="true" damping="0.2" armature="0.01" frictionloss="0.05"/>
          <joint name="j3" type="slide" axis="1 0 0" range="-0.05 0.08" limited="true" stiffness="30" damping="0.5"/>
          <geom name="ga2" type="sphere" size="0.05" pos="0.15 0 0" margin="0.01"/>
          <geom name="gwrap" type="sphere" size="0.04" pos="0.07 0.05 0" contype="0" conaffinity="0"/>
          <site name="s2" pos="0.15 0 0.06"/>
          <site name="s2b" pos="0.02 0.12 0"/>
        </body>
      </body>
      <body name="leg" pos="-0.1 0 -0.08">
        <joint name="j4" type="ball" range="0 0.7" limited="true" damping="0.1" stiffness="2" armature="0.005"/>
        <geom name="gl" type="capsule" size="0.04" fromto="0 0 0 0 0 -0.2" margin="0.01" gap="0.004"/>
        <site name="s3" pos="0 0 -0.2"/>
      </body>
    </body>
    <body name="ball" pos="0.5 0.3 0.1">
      <freejoint/>
      <geom name="gb" type="sphere" size="0.1" margin="0.01" condim="4"/>
      <site name="sb" pos="0 0 0.1"/>
    </body>
  </worldbody>
  <contact>
    <pair geom1="gb" geom2="ga2" condim="6" friction="0.7 0.6 0.01 0.002 0.003" margin="0.02" gap="0.005" solref="0.02 1.1" solreffriction="0.03 1" solimp="0.92 0.97 0.003 0.5 2"/>
    <exclude body1="torso" body2="arm2"/>
  </contact>
  <tendon>
    <fixed name="tf" range="-0.3 0.4" limited="true" margin="0.02" stiffness="5" springlength="0.05 0.1" damping="0.2" frictionloss="0.05" armature="0.01" solreflimit="0.03 1" solimplimit="0.9 0.95 0.002 0.5 2" solreffriction="0.04 1" solimpfriction="0.9 0.95 0.003 0.5 2" actuatorfrcrange="-2 2" actuatorfrclimited="true">
      <joint joint="j1" coef="1"/><joint joint="j2" coef="-0.7"/>
    </fixed>
    <spatial name="ts" range="0.1 0.45" limited="true" stiffness="8" damping="0.3" frictionloss="0.03">
      <site site="st"/><geom geom="gwrap" sidesite="s2b"/><site site="s2"/>
    </spatial>
    <spatial name="ts2" stiffness="3"><site site="w0"/><site site="s3"/></spatial>
  </tendon>
  <equality>
    <tendon name="eqt" tendon1="tf" tendon2="ts" polycoef="0.02 0.8 0.1 0 0" solref="0.03 1" solimp="0.9 0.95 0.002 0.5 2"/>
    <joint name="eqj" joint1="j3" joint2="j2" polycoef="0.01 0.05 0 0 0"/>
    <connect name="eqc" body1="ball" body2="arm2" anchor="0 0 0.2" active="true" solref="0.05 1"/>
    <weld name="eqw" body1="leg" relpose="0 0 0.3 1 0 0 0" active="false"/>
  </equality>
  <actuator>
    <position name="ap" joint="j1" kp="6" kv="0.4" ctrlrange="-0.5 0.5" ctrllimited="true" forcerange="-4 4" forcelimited="true"/>
    <general name="ag" joint="j2" dyntype="filter" dynprm="0.05" gaintype="affine" gainprm="2 0.3 -0.1" biastype="affine" biasprm="0.1 -1 -0.2" actrange="-1 1" actlimited="true" gear="1.5"/>
    <intvelocity name="ai" joint="j3" kp="20" actrange="-0.05 0.05"/>
    <motor name="at" tendon="tf" gear="1.2" forcerange="-1 1" forcelimited="true"/>
    <general name="ac" cranksite="s2" slidersite="st" cranklength="0.35" gainprm="1.5"/>
    <adhesion name="aa" body="torso" ctrlrange="0 1" gain="5"/>
    <muscle name="am" tendon="ts2" lengthrange="0.3 1.6" force="30"/>
  </actuator>
  <sensor>
    <magnetometer site="st"/><framepos objtype="camera" objname="c0"/><subtreecom body="torso"/><touch site="s3"/>
    <tendonpos tendon="ts"/><actuatorfrc actuator="ap"/><jointlimitfrc joint="j1"/><framezaxis objtype="site" objname="s2"/>
  </sensor>
</mujoco>
"""

SCENES = [
  {"kind": "xml", "xml": "SINK"},
  {"kind": "repo", "path": "humanoid/humanoid.xml", "opt": {}},
  {"kind": "repo", "path": "constraints.xml", "opt": {}},
  {"kind": "repo", "path": "collision.xml", "opt": {}},
  {"kind": "repo", "path": "tendon/tendon_limit.xml", "opt": {}},
  {"kind": "repo", "path": "actuation/actuators.xml", "opt": {}},
  {"kind": "repo", "path": "tendon/wrap.xml", "opt": {}},
  {"kind": "repo", "path": "actuation/slidercrank.xml", "opt": {}},
  {"kind": "gen", "seed": 31337, "profile": "full", "override": {"fluid": 1.0, "p_gravcomp": 0.5, "p_camlight": 0.6, "sensor_kinds": ("framepos", "subtreecom", "touch", "jointpos", "magnetometer", "camprojection"), "sensors": 6, "p_margin": 0.0, "integrators": ("Euler", "implicitfast")}},
  {"kind": "gen", "seed": 31338, "profile": "joints", "override": {"fluid": 1.0, "p_gravcomp": 0.5, "p_camlight": 0.6, "p_frictionloss": 0.8, "p_limit": 0.8, "equality": 4, "tendon_fixed": 0.9, "tendon_spatial": 0.7}},
  {"kind": "gen", "seed": 31339, "profile": "full", "override": {"p_pair": 0.9, "p_margin": 0.8, "p_priority": 0.5, "cones": ("elliptic",), "geoms": ("sphere", "capsule"), "p_adhesion": 0.5}},
]


def batch_fields():
  from mujoco_warp._src import types, warp_util

  out = []
  for owner, cls in (("model", types.Model), ("opt", types.Option), ("stat", types.Statistic)):
    for f in dataclasses.fields(cls):
      if warp_util.is_array_spec(f.type):
        sh = getattr(f.type, "shape", ())
        if sh and sh[0] == "*":
          out.append((owner, f.name))
  return out


def cases(tier, seed):
  fields = batch_fields()
  rng = np.random.default_rng(seed + 5)
  out = []
  per = 1 if tier == "quick" else 4
  k = 0
  for owner, name in fields:
    if name in RENDER_ONLY:
      continue
    for r in range(per):
      sc = 0 if rng.random() < 0.6 else int(rng.integers(len(SCENES)))  # prefer the kitchen-sink scene (most fields live)
      out.append({"id": f"{owner}.{name}_{seed}_{r}", "field": [owner, name], "scene": SCENES[sc], "sc": sc, "seed": seed * 1000 + k, "nworld": 4, "b": (4, 2, 3, 1)[(k + r) % 4], "via": ("assign", "put_model")[(k + r) % 2], "weight": 1})
      k += 1
  if tier == "quick":
    # sample: quick tier covers ~60 fields, thorough all
    pass  # every batchable float field is run once in the quick tier too (a sampled subset missed seeded defects)
  return out


def _holder(m, owner):
  return m if owner == "model" else (m.opt if owner == "opt" else m.stat)


def _perturb(name, base, b, rng):
  """base: numpy (1, ...) -> (b, ...) with world 0 unchanged."""
  arr = np.repeat(base, b, axis=0).astype(base.dtype)
  for w in range(1, b):
    if name in ADDITIVE:
      arr[w] = base[0] + rng.normal(size=base[0].shape).astype(base.dtype) * 2.0
    else:
      fac = rng.uniform(0.6, 1.6, size=base[0].shape).astype(base.dtype)
      arr[w] = base[0] * fac
      if not np.any(base[0] != 0) and name.split("_")[-1] in ("margin", "gap", "frictionloss", "damping", "armature", "stiffness", "gravcomp", "density", "viscosity", "adhesion"):
        arr[w] = rng.uniform(0.001, 0.02, size=base[0].shape).astype(base.dtype)  # all-zero field: small positive values
      if name.split("_")[-1] in ("margin", "gap") and w % 2 == 1:
        # detection distances: also values far above world 0's, so that pairs exist which only this world's row brings
        # into the broadphase / narrowphase (a stage reading another world's row then loses or invents contacts)
        arr[w] = (arr[w] + rng.uniform(0.0, 0.25, size=base[0].shape) * (rng.random(base[0].shape) < 0.7)).astype(base.dtype)
      if "quat" in name:
        q = base[0].reshape(-1, 4) + rng.normal(size=base[0].reshape(-1, 4).shape).astype(base.dtype) * 0.3
        q /= np.linalg.norm(q, axis=-1, keepdims=True)
        arr[w] = q.reshape(base[0].shape)
      if name == "jnt_axis" or name == "light_dir":
        v = base[0].reshape(-1, 3) + rng.normal(size=base[0].reshape(-1, 3).shape).astype(base.dtype) * 0.3
        n = np.linalg.norm(v, axis=-1, keepdims=True)
        arr[w] = (v / np.where(n > 0, n, 1)).reshape(base[0].shape)
  return arr


def _traj(mjw, mjm, m, states, T):
  d = mw.make_data(mjm, m, states)
  out = []
  for t in range(T):
    mjw.step(m, d)
    out.append({"obs": meta.snap_obs(d), "con": [mw.contacts(d, w) for w in range(d.nworld)], "rows": [mw.efc_rows(mjm, m, d, w) for w in range(d.nworld)]})
  return out


def run_case(case):
  import copy

  import warp as wp

  import mujoco_warp as mjw

  rec = core.Rec(case)
  rng = np.random.default_rng(case["seed"])
  owner, name = case["field"]
  # pick the first scene (starting from the drawn one) in which the field is non-empty and not all zero
  import mujoco

  mjm = None
  for k in range(len(SCENES)):
    spec = SCENES[(case["sc"] + k) % len(SCENES)]
    if spec["kind"] == "xml":
      label, cand, feats = "sink", mujoco.MjModel.from_xml_string(SINK_XML), ["xml:kitchen-sink"]
    else:
      label, cand, feats = scenes.scene(spec)
    if cand is None:
      continue
    try:
      mw.put_model(cand)
    except (NotImplementedError, ValueError):
      rec.count("scene_rejected_by_put_model")
      continue
    src = cand.opt if owner == "opt" else (cand.stat if owner == "stat" else cand)
    v = getattr(src, name, None)
    if name == "impratio_invsqrt":
      v = np.array([1.0])
    if v is None:
      v = np.array([1.0]) if k == len(SCENES) - 1 else None
    if v is not None and np.asarray(v).size and np.any(np.asarray(v) != 0):
      mjm, case = cand, dict(case, scene=spec)
      break
    if mjm is None and k == len(SCENES) - 1:
      mjm, case = cand, dict(case, scene=spec)
  if mjm is None:
    rec.rejected = "mujoco compile"
    return rec.result()
  nworld, b, T = case["nworld"], case["b"], 3
  try:
    if case["via"] == "put_model" and owner == "model":
      m = mw.put_model(mjm, batch_sizes={name: b})
    else:
      m = mw.put_model(mjm)
  except (NotImplementedError, ValueError) as e:
    rec.rejected = f"put_model: {e}"[:200]
    rec.cover("rejections", f"{name}: {e}"[:90])
    return rec.result()
  h = _holder(m, owner)
  a0 = getattr(h, name)
  base = np.array(a0.numpy())[:1]
  if base.size == 0 or base.dtype.kind != "f":
    rec.rejected = "field empty in this scene or not float"
    rec.count("field_empty_or_nonfloat")
    return rec.result()
  vals = _perturb(name, base, b, rng)
  st = scenes.settle_states(mjm, rng, 1, steps=(6,))[0]
  states = [st] * nworld  # same state in every world: differences come from F only

  def model_with(arr):
    mm = copy.copy(m)
    if owner == "model":
      setattr(mm, name, wp.array(arr, dtype=a0.dtype))
    elif owner == "opt":
      mm.opt = copy.copy(m.opt)
      setattr(mm.opt, name, wp.array(arr, dtype=a0.dtype))
    else:
      mm.stat = copy.copy(m.stat)
      setattr(mm.stat, name, wp.array(arr, dtype=a0.dtype))
    return mm

  B = _traj(mjw, mjm, model_with(vals), states, T)
  live = False
  for w in range(nworld):
    U = _traj(mjw, mjm, model_with(vals[w % b : w % b + 1]), [st], T)
    for t in range(T):
      why = meta.gate(U[t]["obs"]["overflow"], 0, B[t]["obs"]["overflow"], w)
      if why:
        rec.count("ungated_" + why)
        break
      if meta.diverged(U[t]["obs"], 0, B[t]["obs"], w):
        rec.count("ungated_diverged_world")
        break
      tag = f"{owner}.{name} batch={b} world {w} step {t}"
      c1 = meta.compare_obs(rec, tag, U[t]["obs"], B[t]["obs"], 0, w, sig_prefix=f"{owner}.{name}:")
      c2 = meta.compare_contacts(rec, tag, U[t]["con"][0], B[t]["con"][w], sig_prefix=f"{owner}.{name}:")
      c3 = meta.compare_rows(rec, tag, U[t]["rows"][0], B[t]["rows"][w], sig_prefix=f"{owner}.{name}:", with_force=True)
      cls = max((c1, c2, c3), key=lambda c: {"bit": 0, "round": 1, "incon": 2, "viol": 3}[c])
      rec.count("world_steps_" + cls)
      if cls != "bit":
        break
    # liveness: does the perturbed value change the trajectory w.r.t. world 0's value?
    if w % b != 0 and not live:
      for k in ("qpos", "qvel", "qacc", "sensordata", "cam_xpos", "light_xpos", "site_xpos", "geom_xpos", "xpos"):
        if k in B[T - 1]["obs"] and not np.array_equal(B[T - 1]["obs"][k][w], B[T - 1]["obs"][k][0]):
          live = True
          break
  rec.cover("fields_run", f"{owner}.{name}")
  if live:
    rec.cover("fields_live", f"{owner}.{name}")
    rec.nontrivial(label, owner, name, b)
  else:
    rec.cover("fields_not_live_in_some_case", f"{owner}.{name}")
  rec.cover("batch_sizes", str(b))
  rec.cover("via:" + case["via"], 1)
  rec.sample = {"field": f"{owner}.{name}", "scene": case["scene"].get("path", "generated"), "batch": b, "via": case["via"], "live": live, "world1_values": vals[min(1, b - 1)].ravel()[:6]}
  return rec.result()


def requirements(agg, tier):
  unmet = []
  live = len(agg["cover"].get("fields_live", []))
  need = 10 if tier == "quick" else 60
  if live < need:
    unmet.append(f"only {live} batchable fields were live (<{need})")
  if agg["tally"].get("world_steps_bit", 0) + agg["tally"].get("world_steps_round", 0) < 200:
    unmet.append("fewer than 200 world-steps compared")
  return unmet
