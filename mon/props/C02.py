"""C02 Smooth dynamics agree with MuJoCo C.

Differential monitor: fwd_position (no collision) + fwd_velocity + fwd_actuation + fwd_acceleration of MJWarp
versus the same MuJoCo stages; qacc_smooth judged by backward error against MuJoCo's own M and qfrc_smooth.
"""

import mujoco
import numpy as np

from mon import cmp, core, gen, mw

ID = "C02"
LEVEL = "exploration"
RULE = (
  "case=(profile,seed): generated tree with armature, springs (incl. tendon springlength ranges), dampers, gravcomp, "
  "fluid (density/viscosity/wind, box+ellipsoid models), tendon armature, optional 33..70-dof chain to cross the inertia "
  "block-layout boundaries, or a repository model; 3 worlds with different random qpos/qvel/qfrc_applied/xfrc_applied. "
  "Non-trivial: nv>=3 and |qvel|>0; distinct by hash(model xml, qpos, qvel)."
)
ASSUMPTIONS = [
  "MuJoCo 3.13 C (float64) is the reference at the same float32-representable state",
  "collision detection is switched off (contype=conaffinity=0): smooth dynamics do not depend on contacts",
  "qacc_smooth is judged by the backward error ||M x - qfrc_smooth|| so that an ill-conditioned M cannot raise alarms",
]
BUDGET = {"quick": 200, "thorough": 1800}

A = 1e-5
ALLOW = {"qacc_smooth": 1e-3}

PROFILE = gen.profile(
  nbody=(2, 9),
  p_spring=0.5,
  p_damping=0.6,
  p_armature=0.5,
  p_gravcomp=0.4,
  fluid=0.5,
  tendon_fixed=0.5,
  tendon_spatial=0.6,
  p_limit=0.0,
  p_mocap=0.1,
  actuators=2,
  act_kinds=("motor", "position", "general"),
  p_massless=0.1,
  p_fluid_ellipsoid=0.35,
  p_tendon_armature=0.6,
  p_free=0.4,
  act_ball=False,  # ball/free-joint servos are C03's subject (MuJoCo 3.13 wraps their position error)
  p_poly=0.6,  # polynomial stiffness / damping on joints and tendons
  p_actfrcrange=0.3,
  p_actgravcomp=0.4,
)

REPO_MODELS = ["humanoid/humanoid.xml", "pendula.xml", "tendon/armature.xml", "tendon/damping.xml", "actuation/actuators.xml"]

NAMES = (
  "M qfrc_bias qfrc_spring qfrc_damper qfrc_gravcomp qfrc_fluid qfrc_passive cvel cdof_dot ten_velocity actuator_velocity "
  "qfrc_smooth"
).split()


def cases(tier, seed):
  n = 120 if tier == "quick" else 2500
  out = []
  for i in range(n):
    big = 0
    if i % 12 == 5:
      big = (33, 63, 64, 65, 70)[(i // 12) % 5]
    out.append({"id": f"gen{seed}_{i}", "kind": "gen", "seed": seed * 100000 + i, "big": big, "weight": 3 if big else 1})
  for k, p in enumerate(REPO_MODELS):
    for r in range(1 if tier == "quick" else 5):
      out.append({"id": f"repo{seed}_{k}_{r}", "kind": "repo", "path": p, "seed": seed * 100000 + 555 + r, "weight": 2})
  return out


def stage(mjm, mjd):
  mujoco.mj_fwdPosition(mjm, mjd)
  mujoco.mj_fwdVelocity(mjm, mjd)
  mujoco.mj_fwdActuation(mjm, mjd)
  mujoco.mj_fwdAcceleration(mjm, mjd)


def extract(mjm, mjd):
  out = {k: getattr(mjd, k) for k in NAMES}
  out["qacc_smooth"] = mjd.qacc_smooth
  out["qfrc_actuator"] = mjd.qfrc_actuator
  return out


def run_case(case):
  import os

  import mujoco_warp as mjw

  rec = core.Rec(case)
  rng = np.random.default_rng(case["seed"])
  if case["kind"] == "gen":
    P = dict(PROFILE)
    if case["big"]:
      P["big_tree"] = case["big"]
      P["nbody"] = (1, 3)
      P["jacobians"] = ("sparse",)
    xml, mjm, feat, s = gen.make_model(case["seed"], P)
    if mjm is None:
      rec.rejected = "mujoco compile"
      return rec.result()
  else:
    path = os.path.join(core.TEST_DATA, case["path"])
    mjm = mujoco.MjModel.from_xml_path(path)
    mjm.geom_contype[:] = 0
    mjm.geom_conaffinity[:] = 0
    xml, feat = case["path"], ["repo:" + case["path"]]
  mjm.opt.disableflags |= mujoco.mjtDisableBit.mjDSBL_CONTACT
  try:
    m = mw.put_model(mjm)
  except (NotImplementedError, ValueError) as e:
    rec.rejected = f"put_model: {e}"[:200]
    rec.count("rejected_put_model")
    return rec.result()
  nworld = 3
  states = [gen.sample_state(mjm, rng, vel=rng.choice([0.3, 3.0])) for _ in range(nworld)]
  d = mw.make_data(mjm, m, states)
  mjw.fwd_position(m, d)
  mjw.fwd_velocity(m, d)
  mjw.fwd_actuation(m, d)
  mjw.fwd_acceleration(m, d)
  got = {k: mw.npy(getattr(d, k)) for k in NAMES + ["qacc_smooth", "qfrc_actuator"]}
  for w in range(nworld):
    ref, noise, mjd = cmp.reference(mjm, states[w], stage, extract, seed=case["seed"] + w)
    # actuation (actuator_force, its clamps, qfrc_actuator) is C03's subject: the smooth force is judged with MJWarp's own
    # actuator term substituted into the reference, so that an actuation difference (e.g. the listed C03 finding on
    # forcerange vs tendon actuatorfrcrange order) is not re-reported here as a smooth-dynamics difference
    ga = np.asarray(got["qfrc_actuator"][w], dtype=np.float64).reshape(-1)[: mjm.nv]
    dact = ga - np.asarray(ref["qfrc_actuator"], dtype=np.float64).reshape(-1)
    if np.abs(dact).max(initial=0) > 1e-4 * max(1.0, float(np.abs(ref["qfrc_actuator"]).max(initial=0))):
      rec.count("worlds_where_qfrc_actuator_differs_from_mujoco(C03 subject, substituted)")
    ref = dict(ref)
    ref["qfrc_smooth"] = np.asarray(ref["qfrc_smooth"], dtype=np.float64) + dact.reshape(np.asarray(ref["qfrc_smooth"]).shape)
    for k in NAMES:
      r = ref[k]
      g = np.asarray(got[k][w]).reshape(-1)[: r.size].reshape(r.shape)
      cmp.judge(rec, k, g, r, A, noise[k], ctx=f"world {w}")
    # qacc_smooth: backward error with the reference M and rhs
    Mref = mw.dense_M(mjm, ref["M"])
    x = np.asarray(got["qacc_smooth"][w], dtype=np.float64)[: mjm.nv]
    rec.check()
    if np.abs(ref["qacc_smooth"]).max() > 1e7 * max(1.0, np.abs(ref["qfrc_smooth"]).max()):
      rec.inconcl("inertia matrix numerically singular in the reference (e.g. two parallel slide joints on one body)")
      rec.count("singular_M")
    elif not np.all(np.isfinite(x)):
      rec.viol("qacc_smooth:nonfinite", f"qacc_smooth not finite world {w}")
    else:
      res = np.abs(Mref @ x - ref["qfrc_smooth"]).max()
      den = np.abs(Mref).sum(axis=1).max() * max(1.0, np.abs(x).max()) + np.abs(ref["qfrc_smooth"]).max()
      ratio = res / (1e-5 * den)
      rec.worst("qacc_smooth_backward", ratio)
      if ratio > cmp.VIOL_FACTOR:
        rec.viol("qacc_smooth", f"qacc_smooth backward error {res:.3g} vs scale {den:.3g} world {w}", got=x[:6], ref=ref["qacc_smooth"][:6])
      elif ratio > 1:
        rec.inconcl("qacc_smooth backward error in grey zone")
  for f in feat:
    rec.cover("features", f)
  lay = "nv<=6" if mjm.nv <= 6 else ("nv<=32" if mjm.nv <= 32 else ("nv<=64" if mjm.nv <= 64 else "nv>64"))
  rec.cover("nv_class", lay)
  rec.cover("sparse" if m.is_sparse else "dense", 1)
  if mjm.nv >= 3:
    rec.nontrivial(xml, *[s["qpos"] for s in states], *[s["qvel"] for s in states])
  rec.sample = {"model": case.get("path", f"generated seed {case['seed']} big_tree={case.get('big')}"), "nv": mjm.nv, "nu": mjm.nu, "ntendon": mjm.ntendon, "sparse": bool(m.is_sparse), "qvel_world0": states[0]["qvel"][:6]}
  return rec.result()


def requirements(agg, tier):
  unmet = []
  feats = set(agg["cover"].get("features", []))
  for f in ["spring", "damping", "armature", "gravcomp", "fluid", "fluid_ellipsoid", "tendon_spring", "tendon_damping", "tendon_armature"]:
    if f not in feats:
      unmet.append(f"feature never generated: {f}")
  for c in ["nv<=6", "nv<=32", "nv<=64", "nv>64"]:
    if c not in agg["cover"].get("nv_class", []):
      unmet.append(f"inertia layout class never reached: {c}")
  if agg["distinct"] < 30:
    unmet.append("fewer than 30 distinct non-trivial cases")
  return unmet
