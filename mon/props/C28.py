"""C28 Constraint islands are the connected components.

Exhaustive + random runtime monitor of mjw.island / compute_island_mapping.  One model with n trees carries a
switchable constraint for every unordered pair of trees and a self/world edge for every tree; the switch is per world
(eq_active, or qpos for contacts / joint limits), so all 2^(n(n+1)/2) constraint graphs are the worlds of one batch.
Oracles: (1) a Python union-find over the intended graph and, independently, over the constraint rows MJWarp itself
assembled (tree sets read off type/id and Jacobian sparsity); (2) structural invariants of the dof / efc maps
(mutually inverse permutations, island blocks contiguous and ordered equality-friction-rest, counts consistent);
(3) mj_island of MuJoCo C on the same state.
"""

import mujoco
import numpy as np

from mon import core, mw
from mon.props import _isl

ID = "C28"
LEVEL = "bounded-exhaustive"
RULE = (
  "enumeration case=(family, n, jacobian, driver, chunk): every graph on n trees with n(n+1)/2 switchable edges "
  "(pair edges + one self/world edge per tree), families connect, weld, joint-equality, tendon-equality (generic Jacobian "
  "scan), contact (overlapping spheres between trees, static-geom contact or joint limit as self edge) and mixed; "
  "quick: all graphs for n<=4 (2..1024 worlds per family), thorough: n=5 (32768 graphs per family) and, as far as the budget allows (reported, not required), n=6 for connect/contact "
  "(2097152 graphs each); driver A calls fwd_position+island+compute_island_mapping, driver B mjw.forward of the "
  "sleep-enabled model; plus random 20-40-tree scenes (static contacts, frictionloss, limits, tendon limits/friction, "
  "3-tree tendons, equalities) x 8 worlds, dense and sparse, and the n<=4 enumerations under permuted task orders. "
  "Non-trivial: a batch with >=2 distinct island partitions; distinct by hash(family, n, jacobian, driver, chunk) / scene xml."
)
ASSUMPTIONS = [
  "the switchable-edge models realise exactly the intended rows: checked per world (nefc == rows of the active edges)",
  "a row 'touches' the trees of its bodies (connect/weld/contact/limit/frictionloss) or of its structurally non-zero Jacobian columns (other rows), as in mj_island",
  "MuJoCo 3.13 mj_island is the reference for labels and per-island counts; map *order* inside an island is not judged (atomics)",
]
LEVEL_TEXT = (
  "Bounded-exhaustive runtime check: every constraint graph on n<=4 (quick) / n<=5 (thorough; n=6 for two families when time allows) trees is executed "
  "through the real kernels and compared with a union-find and with MuJoCo; random larger scenes and permuted task orders on top."
)
EXHAUSTIVE = {"quick": True, "thorough": True}
BUDGET = {"quick": 150, "thorough": 1500}

CHUNK = 4096
EQ, FDOF, FTEN, LJNT, LTEN = 0, 1, 2, 3, 4  # mjtConstraint
CONTACTS = (5, 6, 7)
CAPACITY_BITS = 0x1FF  # every OverflowType bit except ITERATIONS / LS_ITERATIONS (driver B runs the solver with iterations=1)


def cases(tier, seed):
  out = []
  fams = _isl.FAMILIES
  for n in (1, 2, 3, 4):
    for fam in fams:
      for jac in ("dense", "sparse"):
        for drv in ("A", "B"):
          out.append({"id": f"enum_{fam}_{n}_{jac}_{drv}", "kind": "enum", "family": fam, "n": n, "jac": jac, "driver": drv, "chunk": 0, "weight": 1 + (n == 4) * 2})
  for n in (3, 4):
    for fam in fams:
      out.append({"id": f"perm_{fam}_{n}", "kind": "enum", "family": fam, "n": n, "jac": ("dense", "sparse")[n % 2], "driver": "A", "chunk": 0, "mode": "perm", "weight": 2, "sched": 2})
  if tier == "thorough":
    for fam in fams:
      for jac in ("dense", "sparse"):
        for c in range(2 ** 15 // CHUNK):
          out.append({"id": f"enum_{fam}_5_{jac}_A_{c}", "kind": "enum", "family": fam, "n": 5, "jac": jac, "driver": "A", "chunk": c, "weight": 4})
      for c in range(0, 2 ** 15 // CHUNK, 4):
        out.append({"id": f"enum_{fam}_5_sparse_B_{c}", "kind": "enum", "family": fam, "n": 5, "jac": "sparse", "driver": "B", "chunk": c, "weight": 8})
    for fam in ("connect", "contact"):
      for c in range(2 ** 21 // (4 * CHUNK)):
        out.append({"id": f"enum_{fam}_6_sparse_A_{c}", "kind": "enum", "family": fam, "n": 6, "jac": "sparse", "driver": "A", "chunk": c, "chunk_size": 4 * CHUNK, "weight": 0.5, "light": True})
  nr = 24 if tier == "quick" else 300
  for i in range(nr):
    out.append({"id": f"rand{seed}_{i}", "kind": "rand", "seed": seed * 100000 + i, "jac": ("dense", "sparse")[i % 2], "driver": "AB"[(i // 2) % 2], "weight": 3})
  return out


# ------------------------------------------------------------------------------------------ row -> trees


row_trees = _isl.row_trees
Rows = _isl.Rows


# ------------------------------------------------------------------------------------------ invariants


def fetch(d):
  names = "tree_island nisland dof_island island_nv island_nefc island_ne island_nf island_dofadr island_idofadr island_iefcadr map_dof2idof map_idof2dof dof_islandid nidof map_efc2iefc map_iefc2efc efc_islandid nefc".split()
  out = {k: getattr(d, k).numpy() for k in names}
  out["efc_island"] = d.efc.island.numpy()
  out["efc_type"] = d.efc.type.numpy()
  return out


def check_maps(rec, mjm, F, w, ctx, njmax):
  """Structural invariants of world w. Returns False at the first violation."""
  nv, nt = mjm.nv, mjm.ntree
  ti = F["tree_island"][w]
  ni = int(F["nisland"][w])
  rec.check()

  def bad(sig, msg, **kw):
    rec.viol(sig, f"{msg} {ctx}", **kw)
    return False

  lab = ti[ti >= 0]
  if ni != (lab.max() + 1 if lab.size else 0) or (lab.size and set(lab.tolist()) != set(range(ni))):
    return bad("nisland", f"nisland {ni} inconsistent with tree_island {ti.tolist()}")
  # numbering by smallest tree
  first = [int(np.nonzero(ti == k)[0][0]) for k in range(ni)]
  if first != sorted(first):
    return bad("island_numbering", f"islands are not numbered by their smallest tree: first trees {first}, tree_island {ti.tolist()}")
  di = F["dof_island"][w][:nv]
  if not np.array_equal(di, ti[mjm.dof_treeid]):
    return bad("dof_island", f"dof_island {di.tolist()} != tree_island[dof_treeid] {ti[mjm.dof_treeid].tolist()}")
  inv = F["island_nv"][w][:ni]
  cnt = np.bincount(di[di >= 0], minlength=ni)[:ni] if ni else np.zeros(0, int)
  if not np.array_equal(inv, cnt):
    return bad("island_nv", f"island_nv {inv.tolist()} != dof counts {cnt.tolist()}")
  nidof = int(F["nidof"][w])
  if nidof != int(cnt.sum()):
    return bad("nidof", f"nidof {nidof} != {int(cnt.sum())}")
  if ni:
    adr = np.concatenate([[0], np.cumsum(cnt)[:-1]])
    if not np.array_equal(F["island_idofadr"][w][:ni], adr):
      return bad("island_idofadr", f"island_idofadr {F['island_idofadr'][w][:ni].tolist()} != {adr.tolist()}")
    dofadr = np.array([int(np.nonzero(di == k)[0][0]) for k in range(ni)])
    if not np.array_equal(F["island_dofadr"][w][:ni], dofadr):
      return bad("island_dofadr", f"island_dofadr {F['island_dofadr'][w][:ni].tolist()} != first dof of each island {dofadr.tolist()}")
  d2i, i2d = F["map_dof2idof"][w][:nv], F["map_idof2dof"][w][:nv]
  if not np.array_equal(np.sort(d2i), np.arange(nv)):
    return bad("map_dof2idof:not_permutation", f"map_dof2idof {d2i.tolist()} is not a permutation of 0..nv-1")
  if not np.array_equal(i2d[d2i], np.arange(nv)):
    return bad("map_idof2dof:not_inverse", f"map_idof2dof[map_dof2idof] != identity: {d2i.tolist()} / {i2d.tolist()}")
  for k in range(ni):
    sel = di == k
    lo = int(adr[k])
    if not np.array_equal(np.sort(d2i[sel]), np.arange(lo, lo + cnt[k])):
      return bad("map_dof2idof:island_block", f"dofs of island {k} do not occupy idof block [{lo},{lo + cnt[k]}): {d2i[sel].tolist()}")
  if np.any(d2i[di < 0] < nidof):
    return bad("map_dof2idof:unconstrained", f"unconstrained dofs mapped below nidof {nidof}: {d2i.tolist()}")
  iid = F["dof_islandid"][w][:nv]
  exp_iid = np.where(np.arange(nv) < nidof, di[i2d], -1)
  if not np.array_equal(iid, exp_iid):
    return bad("dof_islandid", f"dof_islandid {iid.tolist()} != island of map_idof2dof {exp_iid.tolist()}")
  # ---- constraints
  nefc = int(min(F["nefc"][w], njmax))
  ei = F["efc_island"][w][:nefc]
  et = F["efc_type"][w][:nefc]
  exp_ei = F["_row_island"]
  if not np.array_equal(ei, exp_ei):
    return bad("efc_island", f"efc.island {ei.tolist()} != island of the row's trees {exp_ei.tolist()}")
  if nefc and ei.min() < 0:
    rec.count("rows_without_island")
  inefc = F["island_nefc"][w][:ni]
  c_all = np.bincount(ei[ei >= 0], minlength=ni)[:ni] if ni else np.zeros(0, int)
  c_e = np.bincount(ei[(ei >= 0) & (et == EQ)], minlength=ni)[:ni] if ni else c_all
  c_f = np.bincount(ei[(ei >= 0) & ((et == FDOF) | (et == FTEN))], minlength=ni)[:ni] if ni else c_all
  if not np.array_equal(inefc, c_all):
    return bad("island_nefc", f"island_nefc {inefc.tolist()} != {c_all.tolist()}")
  if not np.array_equal(F["island_ne"][w][:ni], c_e):
    return bad("island_ne", f"island_ne {F['island_ne'][w][:ni].tolist()} != {c_e.tolist()}")
  if not np.array_equal(F["island_nf"][w][:ni], c_f):
    return bad("island_nf", f"island_nf {F['island_nf'][w][:ni].tolist()} != {c_f.tolist()}")
  if ni:
    eadr = np.concatenate([[0], np.cumsum(c_all)[:-1]])
    if not np.array_equal(F["island_iefcadr"][w][:ni], eadr):
      return bad("island_iefcadr", f"island_iefcadr {F['island_iefcadr'][w][:ni].tolist()} != {eadr.tolist()}")
  e2i, i2e = F["map_efc2iefc"][w][:nefc], F["map_iefc2efc"][w]
  inrows = np.nonzero(ei >= 0)[0]
  tot = int(c_all.sum())
  if not np.array_equal(np.sort(e2i[inrows]), np.arange(tot)):
    return bad("map_efc2iefc:not_permutation", f"map_efc2iefc of island rows {e2i[inrows].tolist()} is not a permutation of 0..{tot - 1}")
  if not np.array_equal(i2e[e2i[inrows]], inrows):
    return bad("map_iefc2efc:not_inverse", f"map_iefc2efc[map_efc2iefc] != identity on island rows")
  for k in range(ni):
    lo = int(eadr[k])
    for cls, a, b in (("equality", lo, lo + c_e[k]), ("friction", lo + c_e[k], lo + c_e[k] + c_f[k]), ("other", lo + c_e[k] + c_f[k], lo + c_all[k])):
      if cls == "equality":
        sel = (ei == k) & (et == EQ)
      elif cls == "friction":
        sel = (ei == k) & ((et == FDOF) | (et == FTEN))
      else:
        sel = (ei == k) & (et != EQ) & (et != FDOF) & (et != FTEN)
      if not np.array_equal(np.sort(e2i[sel]), np.arange(a, b)):
        return bad("map_efc2iefc:island_block", f"{cls} rows of island {k} do not occupy iefc block [{a},{b}): {e2i[sel].tolist()}")
  eid = F["efc_islandid"][w][:tot]
  if not np.array_equal(eid, ei[i2e[:tot]]):
    return bad("efc_islandid", f"efc_islandid {eid.tolist()} != island of map_iefc2efc")
  return True


MJ_FIELDS = ("island_nv", "island_nefc", "island_ne", "island_nf", "island_dofadr", "island_idofadr", "island_iefcadr")


def check_mujoco(rec, mjm, mjd, F, w, ctx, labels_only=False):
  """Labels and per-island counts against mj_island (MuJoCo leaves tree_island stale when nisland == 0)."""
  if int(mjd.nefc) != int(F["nefc"][w]):
    # the two engines assembled different rows (e.g. MuJoCo's dense path drops an all-zero connect block): C05's subject
    rec.count("mujoco_nefc_differs")
    return True
  rec.check()
  ni = int(mjd.nisland)
  if ni != int(F["nisland"][w]):
    rec.viol("mujoco:nisland", f"nisland {F['nisland'][w]} vs mj_island {ni} {ctx}")
    return False
  if ni == 0:
    return True
  if not np.array_equal(F["tree_island"][w], mjd.tree_island):
    rec.viol("mujoco:tree_island", f"tree_island {F['tree_island'][w].tolist()} vs mj_island {mjd.tree_island.tolist()} {ctx}")
    return False
  if labels_only:
    return True
  if not np.array_equal(F["dof_island"][w][: mjm.nv], mjd.dof_island):
    rec.viol("mujoco:dof_island", f"dof_island differs from mj_island {ctx}")
    return False
  for k in MJ_FIELDS:
    if not np.array_equal(F[k][w][:ni], getattr(mjd, k)[:ni]):
      rec.viol("mujoco:" + k, f"{k} {F[k][w][:ni].tolist()} vs mj_island {getattr(mjd, k)[:ni].tolist()} {ctx}")
      return False
  same = np.array_equal(F["map_dof2idof"][w][: mjm.nv], mjd.map_dof2idof) and np.array_equal(F["map_efc2iefc"][w][: mjd.nefc], mjd.map_efc2iefc[: mjd.nefc])
  rec.count("maps_equal_mujoco" if same else "maps_order_differs_from_mujoco")
  return True


# ------------------------------------------------------------------------------------------ runners


def drive(mjw, island_mod, m, d, driver):
  if driver == "A":
    mjw.fwd_position(m, d)
    mjw.island(m, d)
    island_mod.compute_island_mapping(m, d)
  else:
    mjw.forward(m, d)


def run_enum(case, rec):
  import mujoco_warp as mjw
  import warp as wp
  from mujoco_warp._src import island as island_mod

  n, fam, jac, drv = case["n"], case["family"], case["jac"], case["driver"]
  xml, info = _isl.graph_model(n, fam, jac)
  mjm = mujoco.MjModel.from_xml_string(xml)
  mjm_ref = mjm
  if drv == "B":
    mjm_ref = mujoco.MjModel.from_xml_string(xml)  # MuJoCo 3.13 refuses tendon equalities with sleeping: islands are taken from the flag-free model
    mjm.opt.enableflags |= mujoco.mjtEnableBit.mjENBL_SLEEP
    mjm.opt.iterations = 1
  m = mw.put_model(mjm)
  ne = _isl.nedges(n)
  csize = case.get("chunk_size", CHUNK)
  g0 = case["chunk"] * csize
  G = min(2 ** ne - g0, csize)
  gs = np.arange(g0, g0 + G)
  qp = np.tile(np.array(mjm.qpos0, dtype=np.float32), (G, 1))
  ea = np.zeros((G, mjm.neq), dtype=bool)
  for k, (i, j) in enumerate(info["edges"]):
    on = ((gs >> k) & 1).astype(bool)
    f = info["fam_of"][k]
    if f == "contact":
      for t in {i, j}:
        jid = mujoco.mj_name2id(mjm, mujoco.mjtObj.mjOBJ_JOINT, f"jc{k}_{t}")
        qp[on, mjm.jnt_qposadr[jid]] = _isl.ENGAGED
    else:
      ea[:, mujoco.mj_name2id(mjm, mujoco.mjtObj.mjOBJ_EQUALITY, f"e{k}")] = on
  njmax = int(sum(info["rows"])) + 4
  ncon = sum(1 for f in info["fam_of"] if f == "contact") + 2
  d = mjw.make_data(mjm, nworld=G, njmax=njmax, nconmax=ncon)
  wp.copy(d.qpos, wp.array(qp, dtype=float))
  if mjm.neq:
    wp.copy(d.eq_active, wp.array(ea, dtype=bool))
  if case.get("mode") == "perm":
    from mon import sched

    sched.reset_counters()
    sched.set_schedule(case.get("sched", 2), 12345 + n)
  drive(mjw, island_mod, m, d, drv)
  if case.get("mode") == "perm":
    from mon import sched

    sched.set_schedule(0, 0)
    rec.cover("launches_permuted_ge2", sched.counters()["launches_permuted_ge2"])
  if int((d.overflow.numpy() & CAPACITY_BITS).max()):
    ov = d.overflow.numpy() & CAPACITY_BITS
    rec.inconcl(f"capacity overflow in enumeration batch: bits {sorted(set(ov[ov != 0].tolist()))} in {int((ov != 0).sum())} worlds, driver {drv}, nefc max {int(d.nefc.numpy().max())}/{njmax}, nacon {int(d.nacon.numpy()[0])}/{d.naconmax}")
    return
  F = fetch(d)
  rows_per_edge = np.array(info["rows"])
  # expected labels (vectorised union-find by brute force per world)
  E = info["edges"]
  partitions = set()
  con_geom_all = d.contact.geom.numpy()
  R = Rows(m, d)
  light = bool(case.get("light"))
  mjd = mujoco.MjData(mjm_ref)
  nmj = 0
  for li in range(G):
    g = int(gs[li])
    ctx = f"[family {fam} n={n} {jac} driver {drv} graph {g}]"
    act = [E[k] for k in range(ne) if (g >> k) & 1]
    exp = _isl.components(n, act)
    rec.check()
    if not np.array_equal(exp, F["tree_island"][li]) or int(F["nisland"][li]) != int(exp.max() + 1):
      rec.viol("tree_island", f"tree_island {F['tree_island'][li].tolist()} nisland {F['nisland'][li]} != connected components {exp.tolist()} of edges {act} {ctx}", graph=g)
      return
    exprows = int(sum(rows_per_edge[k] for k in range(ne) if (g >> k) & 1))
    if int(F["nefc"][li]) != exprows:
      rec.inconcl(f"model did not realise the intended rows: nefc {F['nefc'][li]} vs {exprows} {ctx}")
      return
    partitions.add(tuple(exp.tolist()))
    if light and li % 64:
      continue
    # rows -> trees from what MJWarp assembled, independent union-find, and map invariants
    if True:
      rows, cols = R.world(mjm, li)
      con_geom = con_geom_all  # efc.id of contact rows indexes the global contact pool
      rt = row_trees(mjm, rows, con_geom, cols)
      exp2 = _isl.components(n, rt)
      rec.check()
      if not np.array_equal(exp2, F["tree_island"][li]):
        rec.viol("tree_island:rows", f"tree_island {F['tree_island'][li].tolist()} != components of the assembled rows {exp2.tolist()} {ctx}", graph=g)
        return
      F["_row_island"] = np.array([exp2[t[0]] if t else -1 for t in rt], dtype=int)
      if drv == "B" and mjm.ntree == 1:
        # solve() computes the island mapping only when ntree > 1: nothing to observe
        rec.count("mapping_not_computed_single_tree")
      else:
        if not check_maps(rec, mjm, F, li, ctx, njmax):
          return
        rec.count("worlds_map_invariants")
    if n <= 4 or li % 16 == 0:
      mujoco.mj_resetData(mjm_ref, mjd)
      mjd.qpos[:] = qp[li]
      if mjm.neq:
        mjd.eq_active[:] = ea[li]
      mujoco.mj_forward(mjm_ref, mjd)
      nmj += 1
      if not check_mujoco(rec, mjm, mjd, F, li, ctx, labels_only=(drv == "B" and mjm.ntree == 1)):
        return
  rec.cover("graphs_checked", G)
  rec.cover("graphs_vs_mujoco", nmj)
  rec.cover(f"graphs:{fam}:n{n}", G)
  rec.cover("families", fam)
  rec.cover("drivers", "fwd_position+island+mapping" if drv == "A" else "forward(sleep enabled)")
  rec.cover("jacobian", jac)
  if case.get("mode") == "perm":
    rec.cover("graphs_under_permuted_order", G)
  if len(partitions) >= 2:
    rec.nontrivial(fam, n, jac, drv, case["chunk"], case.get("mode"))
  rec.sample = {"family": fam, "n": n, "jacobian": jac, "driver": drv, "graphs": [int(gs[0]), int(gs[-1])], "distinct_partitions": len(partitions), "nv": int(mjm.nv), "edge_kinds": sorted(set(info["fam_of"]))}


def random_scene(seed, jac):
  """20-40 trees: sliders/pendula/free bodies over a plane + static boxes, frictionloss, limits, equalities, tendons."""
  rng = np.random.default_rng(seed)
  dense = jac == "dense"
  nt = int(rng.integers(20, 41))
  bodies, eqs, tens = [], [], []
  joints = []  # (tree, joint name)
  names = []
  nv = 0
  for t in range(nt):
    kind = str(rng.choice(["slide", "hinge2", "slide2"] if dense else ["free", "free", "slide", "hinge2", "slide2"]))
    if dense and nv >= 56:
      kind = "slide"
    x, y = (t % 7) * 0.21 + rng.normal() * 0.01, (t // 7) * 0.21 + rng.normal() * 0.01
    fl = f' frictionloss="{rng.uniform(0.1, 1):.3g}"' if rng.random() < 0.25 else ""
    lim = ' limited="true" range="0.05 1"' if rng.random() < 0.3 else (' limited="true" range="-1 1"' if rng.random() < 0.3 else "")
    r = rng.uniform(0.08, 0.125)
    if kind == "free":
      z = rng.uniform(0.05, 0.3)
      bodies.append(f'<body name="b{t}" pos="{x:.4g} {y:.4g} {z:.4g}"><freejoint/><geom type="sphere" size="{r:.3g}"/></body>')
      nv += 6
    elif kind == "slide":
      z = rng.uniform(0.05, 0.3)
      bodies.append(f'<body name="b{t}" pos="{x:.4g} {y:.4g} {z:.4g}"><joint name="j{t}a" type="slide" axis="0 0 1"{fl}{lim}/><geom type="sphere" size="{r:.3g}"/></body>')
      joints.append((t, f"j{t}a"))
      nv += 1
    elif kind == "slide2":
      z = rng.uniform(0.05, 0.3)
      bodies.append(
        f'<body name="b{t}" pos="{x:.4g} {y:.4g} {z:.4g}"><joint name="j{t}a" type="slide" axis="1 0 0"{fl}/><joint name="j{t}b" type="slide" axis="0 0 1"{lim}/><geom type="sphere" size="{r:.3g}"/></body>'
      )
      joints += [(t, f"j{t}a"), (t, f"j{t}b")]
      nv += 2
    else:
      bodies.append(
        f'<body name="b{t}" pos="{x:.4g} {y:.4g} 0.5"><joint name="j{t}a" type="hinge" axis="0 1 0"{fl}/><geom type="capsule" size=".03" fromto="0 0 0 0 0 -.2"/>'
        f'<body pos="0 0 -.2"><joint name="j{t}b" type="hinge" axis="0 1 0"{lim}/><geom type="capsule" size=".03" fromto="0 0 0 0 0 -.2"/></body></body>'
      )
      joints += [(t, f"j{t}a"), (t, f"j{t}b")]
      nv += 2
    names.append(f"b{t}")
  for e in range(int(rng.integers(3, 10))):
    a, b = [int(v) for v in rng.choice(nt, size=2, replace=False)]
    k = str(rng.choice(["connect", "weld", "connect_world", "joint", "joint1", "teneq"]))
    if k == "connect":
      eqs.append(f'<connect body1="b{a}" body2="b{b}" anchor="0.02 0 -0.1"/>')
    elif k == "weld":
      eqs.append(f'<weld body1="b{a}" body2="b{b}"/>')
    elif k == "connect_world":
      eqs.append(f'<connect body1="b{a}" anchor="0.02 0 -0.1"/>')
    elif joints:
      ja = joints[int(rng.integers(len(joints)))]
      jb = joints[int(rng.integers(len(joints)))]
      if k == "joint" and ja[1] != jb[1]:
        eqs.append(f'<joint joint1="{ja[1]}" joint2="{jb[1]}"/>')
      elif k == "joint1":
        eqs.append(f'<joint joint1="{ja[1]}"/>')
      elif k == "teneq":
        jc = joints[int(rng.integers(len(joints)))]
        if len({ja[1], jb[1], jc[1]}) == 3:
          tens.append(f'<fixed name="T{len(tens)}"><joint joint="{ja[1]}" coef="1"/><joint joint="{jb[1]}" coef="-0.5"/><joint joint="{jc[1]}" coef="0.7"/></fixed>')
          eqs.append(f'<tendon tendon1="T{len(tens) - 1}"/>')
  for e in range(int(rng.integers(0, 4))):
    if len(joints) >= 2:
      ja, jb = joints[int(rng.integers(len(joints)))], joints[int(rng.integers(len(joints)))]
      if ja[1] != jb[1]:
        extra = str(rng.choice([' limited="true" range="0.2 1"', ' frictionloss="0.3"', ' limited="true" range="-1 -0.2" frictionloss="0.2"']))
        tens.append(f'<fixed name="T{len(tens)}"{extra}><joint joint="{ja[1]}" coef="1"/><joint joint="{jb[1]}" coef="1"/></fixed>')
  statics = "".join(
    f'<geom type="box" size=".1 .1 .05" pos="{(rng.integers(7)) * 0.21:.3g} {(rng.integers(6)) * 0.21:.3g} 0.05"/>' for _ in range(int(rng.integers(0, 4)))
  )
  xml = (
    _isl._opt(jac=jac)
    + f'<worldbody><geom type="plane" size="10 10 .1"/>{statics}'
    + "".join(bodies)
    + "</worldbody>"
    + ("<tendon>" + "".join(tens) + "</tendon>" if tens else "")
    + ("<equality>" + "".join(eqs) + "</equality>" if eqs else "")
    + "</mujoco>"
  )
  return xml


def run_rand(case, rec):
  import mujoco_warp as mjw
  import warp as wp
  from mujoco_warp._src import island as island_mod

  rng = np.random.default_rng(case["seed"] + 17)
  xml = random_scene(case["seed"], case["jac"])
  try:
    mjm = mujoco.MjModel.from_xml_string(xml)
  except Exception as e:  # noqa
    rec.rejected = f"mujoco compile: {e}"[:200]
    return
  drv = case["driver"]
  mjm_ref = mjm
  if drv == "B":
    mjm_ref = mujoco.MjModel.from_xml_string(xml)
    mjm.opt.enableflags |= mujoco.mjtEnableBit.mjENBL_SLEEP
    mjm.opt.iterations = 1
  try:
    m = mw.put_model(mjm)
  except (NotImplementedError, ValueError) as e:
    rec.rejected = f"put_model: {e}"[:200]
    return
  W = 8
  qp = np.tile(np.array(mjm.qpos0, dtype=np.float32), (W, 1))
  for w in range(W):
    for j in range(mjm.njnt):
      a = mjm.jnt_qposadr[j]
      if mjm.jnt_type[j] == 0:
        qp[w, a : a + 3] += rng.normal(size=3).astype(np.float32) * np.float32(0.03)
      else:
        qp[w, a] += np.float32(rng.normal() * 0.15)
  ea = rng.random((W, mjm.neq)) < 0.6
  njmax, ncon = 600, 160
  d = mjw.make_data(mjm, nworld=W, njmax=njmax, nconmax=ncon)
  wp.copy(d.qpos, wp.array(qp, dtype=float))
  if mjm.neq:
    wp.copy(d.eq_active, wp.array(ea, dtype=bool))
  drive(mjw, island_mod, m, d, drv)
  if int((d.overflow.numpy() & CAPACITY_BITS).max()):
    ov = d.overflow.numpy() & CAPACITY_BITS
    rec.inconcl(f"capacity overflow: bits {sorted(set(ov[ov != 0].tolist()))}, driver {drv}, nefc max {int(d.nefc.numpy().max())}/{njmax}, nacon {int(d.nacon.numpy()[0])}/{d.naconmax}")
    return
  F = fetch(d)
  con_geom = d.contact.geom.numpy()
  R = Rows(m, d)
  nacon = int(d.nacon.numpy()[0])
  con_world = d.contact.worldid.numpy()[:nacon]
  mjd = mujoco.MjData(mjm_ref)
  kinds = set()
  parts = set()
  for w in range(W):
    ctx = f"[random scene seed {case['seed']} {case['jac']} driver {drv} world {w}]"
    rows, cols = R.world(mjm, w)
    rt = row_trees(mjm, rows, con_geom, cols)
    exp = _isl.components(mjm.ntree, rt)
    rec.check()
    if not np.array_equal(exp, F["tree_island"][w]) or int(F["nisland"][w]) != int(exp.max() + 1):
      rec.viol("tree_island:rows", f"tree_island {F['tree_island'][w].tolist()} != components of the assembled rows {exp.tolist()} {ctx}")
      return
    F["_row_island"] = np.array([exp[t[0]] if t else -1 for t in rt], dtype=int)
    if not check_maps(rec, mjm, F, w, ctx, njmax):
      return
    rec.count("worlds_map_invariants")
    for r in range(rows["nefc"]):
      ty = int(rows["type"][r])
      kinds.add({EQ: "equality", FDOF: "friction_dof", FTEN: "friction_tendon", LJNT: "limit_joint", LTEN: "limit_tendon"}.get(ty, "contact"))
      if len(rt[r]) >= 3:
        kinds.add("row_touching_3_trees")
      if ty in CONTACTS and len(rt[r]) == 1:
        kinds.add("contact_with_static")
    parts.add(tuple(exp.tolist()))
    # MuJoCo, when both engines assembled the same contact geom pairs
    mujoco.mj_resetData(mjm_ref, mjd)
    mjd.qpos[:] = qp[w]
    if mjm.neq:
      mjd.eq_active[:] = ea[w]
    mujoco.mj_forward(mjm_ref, mjd)
    sel = con_world == w
    gw = sorted(map(tuple, np.sort(con_geom[:nacon][sel], axis=1).tolist()))
    gm = sorted(map(tuple, np.sort(np.array(mjd.contact.geom[: mjd.ncon]).reshape(-1, 2), axis=1).tolist()))
    if gw == gm:
      if not check_mujoco(rec, mjm, mjd, F, w, ctx):
        return
      rec.count("random_worlds_vs_mujoco")
    else:
      rec.count("random_worlds_contact_sets_differ")
  rec.cover("row_kinds", sorted(kinds))
  rec.cover("random_worlds", W)
  rec.cover("jacobian", case["jac"])
  rec.cover("ntree_max", 0)
  rec.cover("random_ntree", [int(mjm.ntree)])
  if len(parts) >= 2 or (len(parts) == 1 and max(list(parts)[0]) >= 1):
    rec.nontrivial(xml)
  rec.sample = {"kind": "random", "seed": case["seed"], "ntree": int(mjm.ntree), "nv": int(mjm.nv), "neq": int(mjm.neq), "ntendon": int(mjm.ntendon), "jacobian": case["jac"], "nisland_per_world": F["nisland"].tolist(), "nefc_per_world": F["nefc"].tolist()}


def run_case(case):
  rec = core.Rec(case)
  if case["kind"] == "enum":
    run_enum(case, rec)
  else:
    run_rand(case, rec)
  return rec.result()


def requirements(agg, tier):
  unmet = []
  cov = agg["cover"]
  for fam in _isl.FAMILIES:
    for n in (1, 2, 3, 4) + ((5,) if tier == "thorough" else ()):
      # every jacobian x driver combination enumerates the full space: dense+sparse x A (+B for n<=4)
      need = 2 ** _isl.nedges(n) * (4 if n <= 4 else 2)
      if n in (3, 4):
        need += 2 ** _isl.nedges(n)  # permuted-order pass
      if cov.get(f"graphs:{fam}:n{n}", 0) < need:
        unmet.append(f"enumeration incomplete: family {fam} n={n}: {cov.get(f'graphs:{fam}:n{n}', 0)} of {need} graph executions")
  kinds = set(cov.get("row_kinds", []))
  for k in ("equality", "friction_dof", "limit_joint", "contact", "contact_with_static", "friction_tendon", "limit_tendon", "row_touching_3_trees"):
    if k not in kinds:
      unmet.append(f"row kind never observed in random scenes: {k}")
  if agg["tally"].get("random_worlds_vs_mujoco", 0) < 40:
    unmet.append("fewer than 40 random worlds compared with mj_island")
  if cov.get("graphs_under_permuted_order", 0) < 1000:
    unmet.append("permuted-order enumeration missing")
  return unmet
