"""Constraint-space helpers shared by the constraint/solver monitors (C05, C06, C24, C39, C22).

Everything here is float64 numpy written from MuJoCo's documented constraint model (computation chapter, "Constraint
model" / "Solver"): it never calls into mujoco_warp kernels, it only reads arrays that mujoco_warp produced.

  mj_rows(mjm, mjd)                 MuJoCo's rows with a dense Jacobian
  match_contacts(cw, mjd)           contact matching (geom pair, nearest position)
  problem(mjm, m, d, w)             the convex problem of world w as MJWarp assembled it (its own rows)
  law(P, jar)                       force / state / cost of every row at jar = J qacc - aref
  grad_cost(P, a)                   gradient and total cost at acceleration a
  solve64(P, a0)                    float64 Newton optimum of P (exact line search)
  admissibility(rec, mjm, m, d, w)  C24 invariants (importable by other monitors)
"""

import mujoco
import numpy as np

from mon import mw

T_EQ, T_FDOF, T_FTEN, T_LJNT, T_LTEN, T_CFL, T_CPYR, T_CELL = range(8)
S_SAT, S_QUAD, S_LNEG, S_LPOS, S_CONE = range(5)
TYPE_NAME = ["equality", "friction_dof", "friction_tendon", "limit_joint", "limit_tendon", "contact_frictionless", "contact_pyramidal", "contact_elliptic"]
EPS32 = float(np.finfo(np.float32).eps)

assert int(mujoco.mjtConstraint.mjCNSTR_CONTACT_ELLIPTIC) == T_CELL and int(mujoco.mjtConstraintState.mjCNSTRSTATE_CONE) == S_CONE

OVF_ITER = 1 << 9
OVF_LS = 1 << 10
OVF_NEFC = 1 << 0
OVF_NNZ = 1 << 1
OVF_CONTACT = (1 << 2) | (1 << 3) | (1 << 4) | (1 << 5) | (1 << 8)


# ------------------------------------------------------------------------------------------- MuJoCo side


def mj_dense_J(mjm, mjd):
  n, nv = int(mjd.nefc), mjm.nv
  J = np.zeros((n, nv))
  if n:
    if mujoco.mj_isSparse(mjm):
      mujoco.mju_sparse2dense(J, mjd.efc_J, mjd.efc_J_rownnz, mjd.efc_J_rowadr, mjd.efc_J_colind)
    else:
      J = np.array(mjd.efc_J).reshape(-1, nv)[:n].copy()
  return J


def mj_rows(mjm, mjd):
  n = int(mjd.nefc)
  out = {"nefc": n, "ne": int(mjd.ne), "nf": int(mjd.nf), "nl": int(mjd.nl), "J": mj_dense_J(mjm, mjd)}
  for k in ("type", "id", "pos", "margin", "D", "vel", "aref", "frictionloss", "force", "state"):
    out[k] = np.array(getattr(mjd, "efc_" + k))[:n].copy()
  kbip = np.array(mjd.efc_KBIP).reshape(-1, 4)[:n]
  out["imp"] = kbip[:, 2].copy()
  # magnitude of the terms that aref = -K*imp*(pos-margin) - B*vel sums (its float32 round-off scales with them)
  out["aref_terms"] = np.abs(kbip[:, 0] * kbip[:, 2] * (out["pos"] - out["margin"])) + np.abs(kbip[:, 1] * out["vel"])
  return out


def mj_contacts(mjd):
  c = mjd.contact
  n = int(mjd.ncon)
  return {
    "geom": np.array(c.geom).reshape(-1, 2)[:n],
    "pos": np.array(c.pos).reshape(-1, 3)[:n],
    "dist": np.array(c.dist)[:n],
    "frame": np.array(c.frame).reshape(-1, 9)[:n],
    "dim": np.array(c.dim)[:n],
    "friction": np.array(c.friction).reshape(-1, 5)[:n],
    "includemargin": np.array(c.includemargin)[:n],
    "efc_address": np.array(c.efc_address)[:n],
    "exclude": np.array(c.exclude)[:n],
    "adhesion": np.array(c.adhesion)[:n] if hasattr(c, "adhesion") else np.zeros(n),
  }


def match_contacts(g_a, p_a, g_b, p_b, tol=2e-4):
  """Matches contact lists a -> b per geom pair by nearest position.

  Returns (map a->b (−1 = none), ok) where ok means: same multiset of geom pairs and every match within tol.
  """
  na, nb = len(g_a), len(g_b)
  amap = -np.ones(na, dtype=int)
  ok = na == nb
  used = np.zeros(nb, dtype=bool)
  pairs = {}
  for j in range(nb):
    pairs.setdefault((int(g_b[j][0]), int(g_b[j][1])), []).append(j)
  cnt_a = {}
  for i in range(na):
    key = (int(g_a[i][0]), int(g_a[i][1]))
    cnt_a[key] = cnt_a.get(key, 0) + 1
  for key, n in cnt_a.items():
    if len(pairs.get(key, [])) != n:
      ok = False
  for i in range(na):
    key = (int(g_a[i][0]), int(g_a[i][1]))
    best, bd = -1, np.inf
    for j in pairs.get(key, []):
      if used[j]:
        continue
      dd = float(np.abs(np.asarray(p_a[i], dtype=np.float64) - p_b[j]).max())
      if dd < bd:
        best, bd = j, dd
    if best >= 0 and bd <= tol:
      amap[i] = best
      used[best] = True
    else:
      ok = False
  return amap, ok


# ------------------------------------------------------------------------------------------- MJWarp side


def problem(mjm, m, d, w, rows=None):
  """The convex problem of world w exactly as MJWarp assembled it, in float64 (values are its float32 numbers)."""
  rows = rows if rows is not None else mw.efc_rows(mjm, m, d, w)
  nv = mjm.nv
  n = rows["nefc"]
  P = {"rows": rows, "n": n, "nv": nv}
  P["J"] = np.asarray(rows["J"], dtype=np.float64).reshape(n, nv)
  for k in ("D", "aref", "frictionloss", "force"):
    P[k] = np.asarray(rows[k], dtype=np.float64)
  P["type"] = np.asarray(rows["type"], dtype=int)
  P["id"] = np.asarray(rows["id"], dtype=int)
  P["state"] = np.asarray(rows["state"], dtype=int)
  # rows whose Jacobian is identically zero cannot influence qacc: their cost is a constant (possibly 1e17 with
  # D = 1/mjMINVAL) and is left out of the cost so that it does not swamp float64 differences
  P["inert"] = ~np.any(P["J"] != 0, axis=1) if n else np.zeros(0, dtype=bool)
  P["M"] = mw.dense_M(mjm, np.asarray(mw.npy(d.M)[w]).reshape(-1))
  for k in ("qacc", "qacc_smooth", "qfrc_smooth", "qfrc_constraint"):
    P[k] = np.asarray(mw.npy(getattr(d, k))[w], dtype=np.float64)[:nv]
  ir = mw.npy(m.opt.impratio_invsqrt)
  P["impratio_invsqrt"] = float(ir[w % ir.shape[0]])
  mi = mw.npy(m.stat.meaninertia)
  P["meaninertia"] = float(mi[w % mi.shape[0]])
  tol = mw.npy(m.opt.tolerance)
  P["tolerance"] = float(tol[w % tol.shape[0]])
  P["scale"] = P["meaninertia"] * max(1, nv)
  # elliptic cones: rows of one contact are the consecutive rows carrying its id (normal first)
  cdim = mw.npy(d.contact.dim)
  cfri = mw.npy(d.contact.friction)
  ell = np.nonzero(P["type"] == T_CELL)[0]
  groups = {}
  for r in ell:
    groups.setdefault(int(P["id"][r]), []).append(int(r))
  idx0, idxT, fr, mu, cid, bad = [], [], [], [], [], []
  for c, rs in groups.items():
    ok = 0 <= c < cdim.shape[0] and len(rs) == int(cdim[c]) and rs == list(range(rs[0], rs[0] + len(rs))) and len(rs) >= 2
    if not ok:
      bad.append(c)
      continue
    f = np.asarray(cfri[c], dtype=np.float64)
    idx0.append(rs[0])
    t = rs[1:] + [-1] * (5 - len(rs[1:]))
    idxT.append(t)
    fr.append(f)
    mu.append(f[0] * P["impratio_invsqrt"])
    cid.append(c)
  P["cone_idx0"] = np.array(idx0, dtype=int)
  P["cone_idxT"] = np.array(idxT, dtype=int).reshape(-1, 5)
  P["cone_fr"] = np.array(fr, dtype=np.float64).reshape(-1, 5)
  P["cone_mu"] = np.array(mu, dtype=np.float64)
  P["cone_cid"] = np.array(cid, dtype=int)
  P["cone_bad"] = bad
  return P


def law(P, jar, want_hess=False):
  """MuJoCo's constraint cost law. Returns force, state, cost (scalar), and (optionally) the Hessian pieces.

  quadratic rows      s = 1/2 D jar^2                                  f = -D jar
  friction-loss rows  linear beyond |jar| >= frictionloss / D         f = -/+ frictionloss
  limit/contact rows  one-sided: zero for jar >= 0
  elliptic contacts   top zone zero, bottom zone quadratic in all rows, middle zone 1/2 Dm (N - mu T)^2
  """
  t, D, fl = P["type"], P["D"], P["frictionloss"]
  n = P["n"]
  live = ~P["inert"]  # weights of the cost terms (forces are still reported for inert rows)
  force = np.zeros(n)
  state = np.zeros(n, dtype=int)
  cost = 0.0
  dact = np.zeros(n)  # D of rows that are in a quadratic zone (Hessian J^T diag(dact) J)
  eq = t == T_EQ
  force[eq] = -D[eq] * jar[eq]
  state[eq] = S_QUAD
  dact[eq] = D[eq]
  cost += 0.5 * float(np.sum((D * jar**2)[eq & live]))
  fr = (t == T_FDOF) | (t == T_FTEN)
  if fr.any():
    rf = np.where(D[fr] > 0, fl[fr] / np.where(D[fr] > 0, D[fr], 1.0), 0.0)
    j = jar[fr]
    neg = j <= -rf
    pos = j >= rf
    mid = ~neg & ~pos
    f = np.where(neg, fl[fr], np.where(pos, -fl[fr], -D[fr] * j))
    s = np.where(neg, S_LNEG, np.where(pos, S_LPOS, S_QUAD))
    c = np.where(neg, -fl[fr] * (0.5 * rf + j), np.where(pos, -fl[fr] * (0.5 * rf - j), 0.5 * D[fr] * j * j))
    force[fr] = f
    state[fr] = s
    cost += float(c[live[fr]].sum())
    dd = np.zeros(int(fr.sum()))
    dd[mid] = D[fr][mid]
    dact[fr] = dd
  one = (t == T_LJNT) | (t == T_LTEN) | (t == T_CFL) | (t == T_CPYR)
  act = one & (jar < 0)
  force[act] = -D[act] * jar[act]
  state[act] = S_QUAD
  dact[act] = D[act]
  cost += 0.5 * float(np.sum((D * jar**2)[act & live]))
  hc = []
  i0 = P["cone_idx0"]
  if i0.size:
    iT, frc, mu = P["cone_idxT"], P["cone_fr"], P["cone_mu"]
    mask = iT >= 0
    jt = np.where(mask, jar[np.where(mask, iT, 0)], 0.0)
    U = jt * frc * mask
    N = jar[i0] * mu
    TT = np.sum(U * U, axis=1)
    T = np.sqrt(TT)
    top = (N >= mu * T) | ((T <= 0) & (N >= 0))
    bot = ~top & ((mu * N + T <= 0) | ((T <= 0) & (N < 0)))
    mid = ~top & ~bot
    D0 = D[i0]
    for c in np.nonzero(bot)[0]:
      rs = [i0[c]] + [r for r in iT[c] if r >= 0]
      force[rs] = -D[rs] * jar[rs]
      state[rs] = S_QUAD
      dact[rs] = D[rs]
      if live[rs].any():  # a cone is one cost term: it counts unless every one of its rows is inert
        cost += 0.5 * float(np.sum(D[rs] * jar[rs] ** 2))
    for c in np.nonzero(top)[0]:
      rs = [i0[c]] + [r for r in iT[c] if r >= 0]
      state[rs] = S_SAT
    for c in np.nonzero(mid)[0]:
      k = int(mask[c].sum())
      rs = [i0[c]] + [int(r) for r in iT[c][:k]]
      Dm = D0[c] / (mu[c] * mu[c] * (1.0 + mu[c] * mu[c]))
      r = N[c] - mu[c] * T[c]
      f0 = -Dm * r * mu[c]
      force[rs[0]] = f0
      force[rs[1:]] = -(f0 / T[c]) * U[c][:k] * frc[c][:k]
      state[rs] = S_CONE
      if live[rs].any():
        cost += 0.5 * Dm * r * r
      if want_hess:
        g = np.zeros(k + 1)
        g[0] = mu[c]
        g[1:] = -mu[c] * frc[c][:k] * U[c][:k] / T[c]
        f2 = frc[c][:k] ** 2
        H2 = np.zeros((k + 1, k + 1))
        v = f2 * jt[c][:k]
        H2[1:, 1:] = -mu[c] * (np.diag(f2) / T[c] - np.outer(v, v) / T[c] ** 3)
        hc.append((rs, Dm * (np.outer(g, g) + r * H2)))
  if want_hess:
    return force, state, cost, dact, hc
  return force, state, cost


def grad_cost(P, a, want_hess=False):
  """Gradient M a - qfrc_smooth - J^T f(J a - aref) and the total cost (Gauss term written without qacc_smooth)."""
  Ma = P["M"] @ a
  jar = P["J"] @ a - P["aref"]
  res = law(P, jar, want_hess)
  force, state, sc = res[0], res[1], res[2]
  g = Ma - P["qfrc_smooth"] - P["J"].T @ force
  cost = 0.5 * float(a @ Ma) - float(P["qfrc_smooth"] @ a) + sc
  if want_hess:
    H = P["M"] + P["J"].T @ (res[3][:, None] * P["J"])
    for rs, Hc in res[4]:
      Jc = P["J"][rs]
      H = H + Jc.T @ Hc @ Jc
    return g, cost, force, state, jar, H
  return g, cost, force, state, jar


def solve64(P, a0, iters=60):
  """Float64 Newton with exact (bisection on the monotone directional derivative) line search. Returns a, info."""
  a = np.array(a0, dtype=np.float64)
  J, M, qs, aref = P["J"], P["M"], P["qfrc_smooth"], P["aref"]
  best = None
  for it in range(iters):
    g, cost, force, state, jar, H = grad_cost(P, a, want_hess=True)
    gn = float(np.sqrt(g @ g))
    if best is None or cost < best[1]:
      best = (a.copy(), cost, gn)
    if gn <= 1e-13 * max(1.0, float(np.abs(qs).max()), float(np.abs(M @ a).max())):
      break
    try:
      L = np.linalg.cholesky(H)
      p = -np.linalg.solve(L.T, np.linalg.solve(L, g))
    except np.linalg.LinAlgError:
      p = -np.linalg.solve(H + 1e-10 * np.eye(H.shape[0]) * np.trace(H), g)
    Jp = J @ p
    Mp = M @ p
    Ma = M @ a

    def dphi(tt):
      f = law(P, jar + tt * Jp)[0]
      return float((Ma + tt * Mp - qs) @ p - f @ Jp)

    d0 = dphi(0.0)
    if d0 >= 0:
      break
    lo, hi = 0.0, 1.0
    d1 = dphi(1.0)
    if abs(d1) <= 1e-14 * abs(d0):
      a = a + p
      continue
    k = 0
    while d1 < 0 and k < 40:
      lo, hi = hi, hi * 2
      d1 = dphi(hi)
      k += 1
    if d1 < 0:
      a = a + hi * p
      continue
    for _ in range(80):
      mid = 0.5 * (lo + hi)
      dm = dphi(mid)
      if dm < 0:
        lo = mid
      else:
        hi = mid
      if hi - lo <= 1e-15 * hi:
        break
    a = a + 0.5 * (lo + hi) * p
  g, cost, force, state, jar, H = grad_cost(P, a, want_hess=True)
  gn = float(np.sqrt(g @ g))
  if best is not None and best[1] < cost:
    a, cost, gn = best
    g, cost, force, state, jar, H = grad_cost(P, a, want_hess=True)
  return a, {"cost": cost, "grad": g, "gradnorm": gn, "H": H, "force": force, "state": state, "jar": jar, "iters": it + 1}


def noise_terms(P, a, force, start=None):
  """Componentwise magnitude of the terms that a float32 evaluation of jar and of the gradient adds up.

  jar_mag[r] = |J_r||a| + |aref_r|                       (round-off of jar is ~ eps32 * depth * jar_mag)
  grad_mag[i] = (|M||a|)_i + |qfrc_smooth|_i + sum_r |J_ri| (|f_r| + D_r jar_mag_r)
  """
  aJ = np.abs(P["J"])
  # Jaref and Ma are updated incrementally from the starting point of the solve, so their round-off carries the
  # magnitude of the largest iterate (a hostile warmstart of 1e4 leaves ~1e4*eps32 in jar for the rest of the solve)
  amag = np.abs(a) if start is None else np.maximum(np.abs(a), np.abs(start))
  jar_mag = aJ @ amag + np.abs(P["aref"])
  live = ~P["inert"]
  grad_mag = np.abs(P["M"]) @ amag + np.abs(P["qfrc_smooth"]) + aJ.T @ ((np.abs(force) + P["D"] * jar_mag) * live)
  return jar_mag, grad_mag


# ------------------------------------------------------------------------------------------- C24 invariants

ADM_REL = 1e-4  # float32 allowance for cone membership (relative to the normal force)


def admissibility_empty(rec, mjm, m, d, w, sig_prefix="", start=None):
  """World w has no constraint rows: J^T efc.force is the empty sum, so qfrc_constraint must be zero up to the round-off of
  the Newton/pyramidal reconstruction Ma - qfrc_smooth - grad (exactly zero on every other path)."""
  nv = mjm.nv
  rec.check()
  qc = np.asarray(mw.npy(d.qfrc_constraint)[w], dtype=np.float64)[:nv]
  if not np.all(np.isfinite(qc)):
    rec.viol(sig_prefix + "qfrc_constraint:nonfinite", f"qfrc_constraint not finite world {w} (no constraint rows)")
    return
  Ma = np.asarray(mw.npy(d.efc.Ma)[w], dtype=np.float64)[:nv]
  qs = np.asarray(mw.npy(d.qfrc_smooth)[w], dtype=np.float64)[:nv]
  extra = 0.0
  if start is not None:
    Md = mw.dense_M(mjm, np.asarray(mw.npy(d.M)[w]).reshape(-1))
    extra = np.abs(Md) @ np.abs(np.asarray(start, dtype=np.float64))[:nv]
  fin = np.isfinite(Ma) & np.isfinite(qs)
  bound = 128 * EPS32 * (np.where(fin, np.abs(Ma) + np.abs(qs), 0.0) + extra) + 1e-6
  ratio = float((np.abs(qc) / bound).max()) if nv else 0.0
  rec.worst("adm:qfrc_constraint:no_rows", ratio)
  rec.cover("adm_worlds_without_rows", 1)
  if ratio > 30:
    i = int(np.argmax(np.abs(qc) / bound))
    rec.viol(
      sig_prefix + "qfrc_constraint!=JT.force:world_without_rows",
      f"world {w} has nefc=0 (J^T efc.force = 0) but qfrc_constraint[{i}]={qc[i]:.6g} (bound {bound[i]:.3g}), max |qfrc_constraint|={np.abs(qc).max():.6g}",
      dof=i,
    )
  elif ratio > 1:
    rec.inconcl("qfrc_constraint of a world without rows in grey zone")


def admissibility(rec, mjm, m, d, w, rows=None, contact_force=True, sig_prefix="", start=None, judge_empty=False, start_force=False):
  """C24: physical admissibility of the reported constraint forces of world w (after forward/step).

  Returns the number of rows looked at. Violations are recorded on rec with mechanism signatures.
  judge_empty: a world with nefc == 0 is judged too (qfrc_constraint must be the empty sum); default off = old behaviour.
  start_force: the float32 floor of qfrc_constraint also carries the row forces AT the start point of the solve
  (Newton/pyramidal only; needed when the start point is far from the solution: rewritten / reset worlds); default off.
  """
  import warp as wp

  import mujoco_warp as mjw

  rows = rows if rows is not None else mw.efc_rows(mjm, m, d, w)
  n = rows["nefc"]
  if n == 0:
    if judge_empty and rows.get("nefc_raw", 0) == 0:
      admissibility_empty(rec, mjm, m, d, w, sig_prefix=sig_prefix, start=start)
    return 0
  t = np.asarray(rows["type"], dtype=int)
  f = np.asarray(rows["force"], dtype=np.float64)
  st = np.asarray(rows["state"], dtype=int)
  fl = np.asarray(rows["frictionloss"], dtype=np.float64)
  ids = np.asarray(rows["id"], dtype=int)
  J = np.asarray(rows["J"], dtype=np.float64).reshape(n, mjm.nv)
  ctx = f"world {w}"
  rec.check()
  if not np.all(np.isfinite(f)):
    rec.viol(sig_prefix + "efc.force:nonfinite", f"efc.force has non-finite entries {ctx}")
    return n
  fscale = max(1.0, float(np.abs(f).max()))
  # one-sided rows: limits, frictionless normals, pyramid edges
  for tt in (T_LJNT, T_LTEN, T_CFL, T_CPYR):
    sel = t == tt
    if sel.any():
      rec.check()
      rec.cover("adm_rows:" + TYPE_NAME[tt], int(sel.sum()))
      rec.cover("adm_rows_active:" + TYPE_NAME[tt], int((f[sel] > 0).sum()))
      worst = float(f[sel].min())
      if worst < -1e-6 * fscale:
        i = int(np.nonzero(sel)[0][np.argmin(f[sel])])
        rec.viol(sig_prefix + f"negative_force:{TYPE_NAME[tt]}", f"{TYPE_NAME[tt]} row {i} carries force {f[i]:.6g} < 0 {ctx}", row=i, id=int(ids[i]))
  # friction loss
  sel = (t == T_FDOF) | (t == T_FTEN)
  if sel.any():
    rec.check()
    rec.cover("adm_rows:frictionloss", int(sel.sum()))
    rec.cover("adm_rows_saturated:frictionloss", int((np.abs(f[sel]) >= fl[sel] * (1 - 1e-6)).sum()))
    exc = np.abs(f[sel]) - fl[sel] * (1 + 1e-5) - 1e-9
    if exc.max() > 0:
      i = int(np.nonzero(sel)[0][np.argmax(exc)])
      rec.viol(sig_prefix + "frictionloss_exceeded", f"|force| {abs(f[i]):.6g} > frictionloss {fl[i]:.6g} at row {i} ({TYPE_NAME[t[i]]} id {ids[i]}) {ctx}", row=i)
    # a saturated row must push against the sign recorded in its state
    bad = sel & (((st == S_LNEG) & (f < 0)) | ((st == S_LPOS) & (f > 0)))
    if bad.any():
      i = int(np.nonzero(bad)[0][0])
      rec.viol(sig_prefix + "frictionloss_state_sign", f"row {i} state {st[i]} but force {f[i]:.6g} {ctx}", row=i)
  # satisfied rows carry zero force
  rec.check()
  sat = st == S_SAT
  rec.cover("adm_rows_satisfied", int(sat.sum()))
  if sat.any() and np.abs(f[sat]).max() > 0:
    i = int(np.nonzero(sat)[0][np.argmax(np.abs(f[sat]))])
    rec.viol(sig_prefix + "satisfied_nonzero_force", f"row {i} ({TYPE_NAME[t[i]]}) is SATISFIED but force={f[i]:.6g} {ctx}", row=i)
  # states must be legal for the row type
  rec.check()
  legal = np.ones(n, dtype=bool)
  legal &= ~((t == T_EQ) & (st != S_QUAD))
  legal &= ~(((t == T_FDOF) | (t == T_FTEN)) & ~np.isin(st, (S_QUAD, S_LNEG, S_LPOS)))
  legal &= ~(np.isin(t, (T_LJNT, T_LTEN, T_CFL, T_CPYR)) & ~np.isin(st, (S_SAT, S_QUAD)))
  legal &= ~((t == T_CELL) & ~np.isin(st, (S_SAT, S_QUAD, S_CONE)))
  if not legal.all():
    i = int(np.nonzero(~legal)[0][0])
    rec.viol(sig_prefix + "illegal_state", f"row {i} of type {TYPE_NAME[t[i]]} has state {st[i]} {ctx}", row=i)
  # elliptic cones
  ell = np.nonzero(t == T_CELL)[0]
  if ell.size:
    cfri = mw.npy(d.contact.friction)
    groups = {}
    for r in ell:
      groups.setdefault(int(ids[r]), []).append(int(r))
    rec.check()
    ncone = 0
    for c, rs in groups.items():
      if not (0 <= c < cfri.shape[0]):
        continue
      fr = np.asarray(cfri[c], dtype=np.float64)[: len(rs) - 1]
      fn = f[rs[0]]
      ft = f[rs[1:]]
      ncone += 1
      rec.cover("adm_cones:dim%d" % len(rs), 1)
      if len(set(st[rs].tolist())) != 1:
        rec.viol(sig_prefix + "elliptic_mixed_state", f"rows {rs} of contact {c} have states {st[rs].tolist()} {ctx}")
      if fn < -1e-6 * fscale:
        rec.viol(sig_prefix + "negative_force:contact_elliptic", f"elliptic normal force {fn:.6g} < 0 (contact {c}) {ctx}", row=rs[0])
        continue
      if np.any(fr <= 0):
        continue
      tang = float(np.sqrt(np.sum((ft / fr) ** 2)))
      lim = fn * (1 + ADM_REL) + 1e-6 * fscale
      rec.worst("adm:cone", (tang - fn) / (ADM_REL * max(fn, 1e-30) + 1e-6 * fscale) if tang > fn else 0.0)
      if tang > fn * (1 + 30 * ADM_REL) + 30e-6 * fscale:
        rec.viol(sig_prefix + "outside_friction_cone", f"elliptic contact {c}: scaled tangential force {tang:.6g} > normal {fn:.6g} (friction {fr.tolist()}) {ctx}", rows=rs)
      elif tang > lim:
        rec.inconcl("cone membership in grey zone")
      if st[rs[0]] == S_CONE:
        rec.cover("adm_cones_middle", 1)
      elif st[rs[0]] == S_QUAD:
        rec.cover("adm_cones_bottom", 1)
      else:
        rec.cover("adm_cones_top", 1)
    rec.cover("adm_cones", ncone)
  # qfrc_constraint = J^T force
  rec.check()
  qc = np.asarray(mw.npy(d.qfrc_constraint)[w], dtype=np.float64)[: mjm.nv]
  jtf = J.T @ f
  mag = np.abs(J).T @ np.abs(f)
  Ma = np.asarray(mw.npy(d.efc.Ma)[w], dtype=np.float64)[: mjm.nv]
  qs = np.asarray(mw.npy(d.qfrc_smooth)[w], dtype=np.float64)[: mjm.nv]
  # Newton/pyramidal reconstructs qfrc_constraint as Ma - qfrc_smooth - grad: its round-off scales with those terms
  # (Ma and Jaref are accumulated from the start point of the solve: `start` = |warmstart| widens the floor accordingly)
  extra = 0.0
  if start is not None:
    Md = mw.dense_M(mjm, np.asarray(mw.npy(d.M)[w]).reshape(-1))
    sa = np.abs(np.asarray(start, dtype=np.float64))[: mjm.nv]
    D = np.asarray(rows["D"], dtype=np.float64)
    live = np.any(J != 0, axis=1)
    extra = np.abs(Md) @ sa + np.abs(J).T @ (D * (np.abs(J) @ sa) * live)
    if start_force and mjm.opt.solver == mujoco.mjtSolver.mjSOL_NEWTON and mjm.opt.cone == mujoco.mjtCone.mjCONE_PYRAMIDAL:
      # the reconstruction Ma - qfrc_smooth - grad_scale*grad carries the gradient of the START point along the ray: its
      # round-off scales with the force the rows exert at the start point, f(J start - aref) -- after a world was rewritten
      # or reset that is ~D*|aref| although the final forces are small (measured: error ~ 1 eps32 of that magnitude)
      jar0 = J @ np.asarray(start, dtype=np.float64)[: mjm.nv] - np.asarray(rows["aref"], dtype=np.float64)
      f0 = D * np.abs(jar0)
      fric = (t == T_FDOF) | (t == T_FTEN)
      f0[fric] = np.minimum(f0[fric], fl[fric])
      one = np.isin(t, (T_LJNT, T_LTEN, T_CFL, T_CPYR))
      f0[one & (jar0 > 0)] = 0.0
      extra = extra + np.abs(J).T @ (f0 * live)
  bound = 128 * EPS32 * (mag + np.abs(Ma) + np.abs(qs) + extra) + 1e-6 * max(1.0, float(np.abs(jtf).max()))
  if not np.all(np.isfinite(qc)):
    rec.viol(sig_prefix + "qfrc_constraint:nonfinite", f"qfrc_constraint not finite {ctx}")
  else:
    ratio = float((np.abs(qc - jtf) / bound).max())
    rec.worst("adm:qfrc_constraint", ratio)
    if ratio > 30:
      i = int(np.argmax(np.abs(qc - jtf) / bound))
      rec.viol(sig_prefix + "qfrc_constraint!=JT.force", f"qfrc_constraint[{i}]={qc[i]:.6g} but (J^T force)[{i}]={jtf[i]:.6g} (bound {bound[i]:.3g}) {ctx}", dof=i)
    elif ratio > 1:
      rec.inconcl("qfrc_constraint vs J^T force in grey zone")
  # contact_force: normal >= -adhesion
  if contact_force:
    con = mw.contacts(d, w)
    sel = np.nonzero((con["type"] & 1) > 0)[0]
    if sel.size:
      slots = con["slot"][sel].astype(np.int32)
      out = wp.zeros(len(slots), dtype=wp.spatial_vector)
      mjw.contact_force(m, d, wp.array(slots, dtype=int), False, out)
      cf = out.numpy().astype(np.float64)
      adh = np.asarray(mw.npy(d.contact.adhesion), dtype=np.float64)[slots]
      rec.check()
      rec.cover("adm_contact_force_calls", len(slots))
      low = cf[:, 0] + adh
      if low.min() < -1e-5 * fscale:
        i = int(np.argmin(low))
        rec.viol(sig_prefix + "contact_force:negative_normal", f"contact_force normal {cf[i, 0]:.6g} (adhesion {adh[i]:.3g}) for contact slot {slots[i]} {ctx}")
  return n


# ------------------------------------------------------------------------------------------- MuJoCo problem


def problem_mj(mjm, mjd):
  """Same structure as problem() but from MuJoCo's own arrays (used for the gated certificate and to self-test law())."""
  rows = mj_rows(mjm, mjd)
  nv, n = mjm.nv, rows["nefc"]
  P = {"rows": rows, "n": n, "nv": nv, "J": rows["J"]}
  for k in ("D", "aref", "frictionloss", "force"):
    P[k] = np.asarray(rows[k], dtype=np.float64)
  P["type"] = np.asarray(rows["type"], dtype=int)
  P["id"] = np.asarray(rows["id"], dtype=int)
  P["state"] = np.asarray(rows["state"], dtype=int)
  P["inert"] = ~np.any(P["J"] != 0, axis=1) if n else np.zeros(0, dtype=bool)
  P["M"] = mw.dense_M(mjm, np.array(mjd.M))
  for k in ("qacc", "qacc_smooth", "qfrc_smooth", "qfrc_constraint"):
    P[k] = np.array(getattr(mjd, k), dtype=np.float64)
  P["impratio_invsqrt"] = 1.0 / np.sqrt(mjm.opt.impratio)
  P["meaninertia"] = float(mjm.stat.meaninertia)
  P["tolerance"] = float(mjm.opt.tolerance)
  P["scale"] = P["meaninertia"] * max(1, nv)
  idx0, idxT, fr, mu, cid = [], [], [], [], []
  if mjm.opt.cone == mujoco.mjtCone.mjCONE_ELLIPTIC:
    for c in range(mjd.ncon):
      con = mjd.contact[c]
      if con.efc_address < 0 or con.dim < 2:
        continue
      a, k = int(con.efc_address), int(con.dim)
      idx0.append(a)
      idxT.append(list(range(a + 1, a + k)) + [-1] * (6 - k))
      fr.append(np.array(con.friction, dtype=np.float64))
      mu.append(float(con.friction[0]) * P["impratio_invsqrt"])
      cid.append(c)
  P["cone_idx0"] = np.array(idx0, dtype=int)
  P["cone_idxT"] = np.array(idxT, dtype=int).reshape(-1, 5)
  P["cone_fr"] = np.array(fr, dtype=np.float64).reshape(-1, 5)
  P["cone_mu"] = np.array(mu, dtype=np.float64)
  P["cone_cid"] = np.array(cid, dtype=int)
  P["cone_bad"] = []
  return P


def mj_optimum(mjm, st, tol=1e-12, iters=300, solver=None, warm=None):
  """MuJoCo forward on the state with a tight tolerance. Returns mjd (a fresh MjData)."""
  mm = mjm
  old = (mm.opt.tolerance, mm.opt.iterations, mm.opt.solver, mm.opt.ls_iterations, mm.opt.ls_tolerance)
  try:
    mm.opt.tolerance = tol
    mm.opt.iterations = iters
    mm.opt.ls_iterations = 100
    if solver is not None:
      mm.opt.solver = solver
    mjd = mujoco.MjData(mm)
    mw.apply_state_mj(mm, mjd, st)
    if warm is not None:
      mjd.qacc_warmstart[:] = warm
    mujoco.mj_forward(mm, mjd)
  finally:
    mm.opt.tolerance, mm.opt.iterations, mm.opt.solver, mm.opt.ls_iterations, mm.opt.ls_tolerance = old
  return mjd


# ------------------------------------------------------------------------------------------- finding classifiers


def weldparent_invweight_ratio(mjm, eqid, subrow):
  """For a connect/weld equality: invweight0(constrained bodies) / invweight0(their weld parents), or None if the bodies
  are their own weld ids. D ~ 1/invweight, so a sparse-path row built from the weld parents has D_mjwarp/D_mujoco == ratio."""
  e = int(eqid)
  if int(mjm.eq_type[e]) not in (int(mujoco.mjtEq.mjEQ_CONNECT), int(mujoco.mjtEq.mjEQ_WELD)):
    return None
  if int(mjm.eq_objtype[e]) == int(mujoco.mjtObj.mjOBJ_SITE):
    b1, b2 = int(mjm.site_bodyid[mjm.eq_obj1id[e]]), int(mjm.site_bodyid[mjm.eq_obj2id[e]])
  else:
    b1, b2 = int(mjm.eq_obj1id[e]), int(mjm.eq_obj2id[e])
  w1, w2 = int(mjm.body_weldid[b1]), int(mjm.body_weldid[b2])
  if (w1, w2) == (b1, b2):
    return None
  comp = 1 if (int(mjm.eq_type[e]) == int(mujoco.mjtEq.mjEQ_WELD) and subrow >= 3) else 0
  iw_own = float(mjm.body_invweight0[b1, comp] + mjm.body_invweight0[b2, comp])
  iw_weld = float(mjm.body_invweight0[w1, comp] + mjm.body_invweight0[w2, comp])
  if iw_weld <= 0 or iw_own <= 0:
    return None
  return iw_own / iw_weld


def only_weldparent_D_differs(mjm, P, Pj):
  """True iff the D of MJWarp's problem P and MuJoCo's Pj agree (1e-3) on every non-contact row except connect/weld rows
  whose D ratio equals the weld-parent invweight ratio, and at least one such row exists (narrow mechanism test)."""

  def keyed(Q):
    seen, out = {}, {}
    for i in range(Q["n"]):
      t, oid = int(Q["type"][i]), int(Q["id"][i])
      if t >= T_CFL:
        continue
      k = seen.get((t, oid), 0)
      seen[(t, oid)] = k + 1
      out[(t, oid, k)] = i
    return out

  a, b = keyed(P), keyed(Pj)
  if set(a) != set(b):
    return False
  hit = False
  for key, i in a.items():
    r = P["D"][i] / Pj["D"][b[key]]
    if abs(r - 1) <= 1e-3:
      continue
    want = weldparent_invweight_ratio(mjm, key[1], key[2]) if key[0] == T_EQ else None
    if want is None or abs(r - want) > 1e-3 * want:
      return False
    hit = True
  return hit


def capacity_ok(d, w, rows=None, ovf=None):
  """False if world w lost rows/contacts to a capacity limit (njmax, njmax_nnz, naconmax, collision buffers): such
  worlds are C16's subject and are not judged by the constraint monitors."""
  ovf = mw.npy(d.overflow) if ovf is None else ovf
  if int(ovf[w]) & (OVF_NEFC | OVF_NNZ | OVF_CONTACT):
    return False
  if int(mw.npy(d.nefc)[w]) > d.njmax or int(mw.npy(d.nacon)[0]) > d.naconmax:
    return False
  if rows is not None and not rows.get("J_ok", True):
    return False
  return True


def hessian_condition(P):
  """Condition number of the Newton Hessian M + J^T D J (+ cone terms) at qacc_smooth; inf if not positive definite."""
  try:
    ev = np.linalg.eigvalsh(grad_cost(P, P["qacc_smooth"], want_hess=True)[5])
    return float(ev[-1] / ev[0]) if ev[0] > 0 else np.inf
  except np.linalg.LinAlgError:
    return np.inf
