"""Hand-built constraint scenes shared by C06/C24/C39 (piles, closed loops) + state settling through MuJoCo."""

import mujoco
import numpy as np

from mon import gen


def _f(x):
  return " ".join(f"{float(v):.6g}" for v in np.atleast_1d(x))


def options_xml(rng, cone, solver, jacobian, extra=""):
  ts = rng.choice([0.002, 0.004, 0.005])
  imp = f' impratio="{_f(rng.choice([0.5, 1, 3, 10]))}"' if cone == "elliptic" and rng.random() < 0.6 else ""
  return f'<option timestep="{ts}" cone="{cone}" solver="{solver}" jacobian="{jacobian}"{imp} {extra}/>'


def pile_xml(rng, n, cone, solver, jacobian, condims=(1, 3, 4, 6), kinds=("sphere", "capsule", "box", "ellipsoid", "cylinder"), adhesion=0.0):
  """n free bodies stacked (slightly interpenetrating, laterally jittered) on a plane, a wall and each other."""
  out = ["<mujoco>", "  " + options_xml(rng, cone, solver, jacobian), '  <compiler angle="radian"/>', "  <worldbody>"]
  pc = condims[rng.integers(len(condims))]
  adh = f' adhesion="{_f(rng.uniform(1, 10))}"' if rng.random() < adhesion else ""
  out.append(f'    <geom name="floor" type="plane" size="0 0 1" condim="{pc}" friction="{_f([rng.uniform(0.3, 1.2), 0.01, 0.002])}"{adh}/>')
  if rng.random() < 0.5:
    out.append(f'    <geom name="wall" type="box" size="0.02 1 0.5" pos="{_f([rng.uniform(0.18, 0.3), 0, 0.5])}" condim="{condims[rng.integers(len(condims))]}"/>')
  z = 0.0
  for i in range(n):
    k = kinds[rng.integers(len(kinds))]
    r = rng.uniform(0.06, 0.12)
    if k == "sphere":
      size, h = _f(r), r
    elif k == "capsule":
      size, h = _f([r * 0.7, r]), r * 0.7
    elif k == "cylinder":
      size, h = _f([r, r * 0.8]), r * 0.8
    elif k == "box":
      size, h = _f([r, r * rng.uniform(0.6, 1.2), r * 0.8]), r * 0.8
    else:
      size, h = _f([r, r * rng.uniform(0.6, 1.2), r * 0.8]), r * 0.8
    z += h * rng.uniform(0.9, 1.0)
    quat = ""
    if k in ("capsule", "cylinder") and rng.random() < 0.7:
      quat = ' euler="0 1.5708 0"' if rng.random() < 0.5 else f' quat="{_f(gen._rquat(rng))}"'
    cd = condims[rng.integers(len(condims))]
    fr = _f([rng.uniform(0.2, 1.5), rng.uniform(0.002, 0.02), rng.uniform(0.0005, 0.01)])
    mg = f' margin="{_f(rng.uniform(0.001, 0.02))}"' if rng.random() < 0.3 else ""
    adh = f' adhesion="{_f(rng.uniform(1, 10))}"' if rng.random() < adhesion else ""
    sol = f' solref="{_f([rng.uniform(0.005, 0.04), rng.uniform(0.7, 1.3)])}"' if rng.random() < 0.4 else ""
    sol += f' solimp="{_f([rng.uniform(0.85, 0.95), rng.uniform(0.95, 0.995), 0.001, 0.5, 2])}"' if rng.random() < 0.3 else ""
    out.append(f'    <body name="p{i}" pos="{_f([rng.normal() * 0.02, rng.normal() * 0.02, z])}"><freejoint/>')
    out.append(f'      <geom type="{k}" size="{size}"{quat} condim="{cd}" friction="{fr}" density="{_f(rng.uniform(300, 3000))}"{mg}{adh}{sol}/>')
    out.append("    </body>")
    z += h * rng.uniform(0.9, 1.0)
  out += ["  </worldbody>", "</mujoco>"]
  return "\n".join(out)


def loop_xml(rng, n, cone, solver, jacobian):
  """Closed kinematic loops: an n-link hinge/ball chain whose tip is connected/welded back to the world or to an earlier
  link, with limits, friction loss, a tendon limit and a few touching geoms."""
  out = ["<mujoco>", "  " + options_xml(rng, cone, solver, jacobian), '  <compiler angle="radian"/>', "  <worldbody>"]
  out.append('    <geom name="floor" type="plane" size="0 0 1" pos="0 0 -0.05"/>')
  out.append('    <site name="anchor" pos="0.15 0.1 1.25"/>')  # off the chain axis: tendon_invweight0 must not vanish
  L = 0.25
  ind = "    "
  jts = []
  for i in range(n):
    jt = "ball" if rng.random() < 0.25 else "hinge"
    jts.append(jt)
    pos = "0 0 1" if i == 0 else f"{L} 0 0"
    out.append(f'{ind}<body name="l{i}" pos="{pos}">')
    a = f'name="j{i}" type="{jt}"'
    if jt == "hinge":
      a += f' axis="{_f(gen._raxis(rng))}"'
      if rng.random() < 0.5:
        lo = rng.uniform(-1.0, 0.0)
        a += f' limited="true" range="{_f([lo, lo + rng.uniform(0.3, 1.5)])}"'
      if rng.random() < 0.4:
        a += f' frictionloss="{_f(rng.uniform(0.05, 1.0))}"'
    elif rng.random() < 0.5:
      a += f' limited="true" range="0 {_f(rng.uniform(0.3, 1.2))}"'
    if rng.random() < 0.5:
      a += f' damping="{_f(rng.uniform(0.05, 1))}" armature="{_f(rng.uniform(0.001, 0.05))}"'
    out.append(f"{ind}  <joint {a}/>")
    out.append(f'{ind}  <geom type="capsule" size="0.03" fromto="0 0 0 {L} 0 0" condim="{[1, 3, 4, 6][rng.integers(4)]}"/>')
    out.append(f'{ind}  <site name="s{i}" pos="{L} 0 0"/>')
    ind += "  "
  for i in range(n):
    ind = ind[:-2]
    out.append(f"{ind}</body>")
  out.append("  </worldbody>")
  out.append("  <equality>")
  kind = rng.integers(4)
  sol = f' solref="{_f([rng.uniform(0.005, 0.04), rng.uniform(0.7, 1.3)])}"' if rng.random() < 0.5 else ""
  if kind == 0:
    out.append(f'    <connect body1="l{n - 1}" anchor="{L} 0 0"{sol}/>')
  elif kind == 1:
    out.append(f'    <weld body1="l{n - 1}" torquescale="{_f(rng.uniform(0.3, 2))}"{sol}/>')
  elif kind == 2:
    out.append(f'    <connect site1="s{n - 1}" site2="anchor"{sol}/>')
  else:
    out.append(f'    <connect body1="l{n - 1}" body2="l0" anchor="{L} 0 0"{sol}/>')
  hinges = [i for i in range(n) if jts[i] == "hinge"]
  if rng.random() < 0.6 and len(hinges) >= 2:
    out.append(f'    <joint joint1="j{hinges[-1]}" joint2="j{hinges[0]}" polycoef="0 {_f(rng.uniform(-1.5, 1.5))} 0 0 0"/>')
  out.append("  </equality>")
  out.append("  <tendon>")
  fl = f' frictionloss="{_f(rng.uniform(0.05, 0.5))}"' if rng.random() < 0.5 else ""
  out.append(f'    <spatial name="t0" limited="true" range="{_f([0.05, rng.uniform(0.2, 0.6)])}"{fl}><site site="anchor"/><site site="s{n // 2}"/></spatial>')
  out.append("  </tendon>")
  out.append("</mujoco>")
  return "\n".join(x for x in out if x)


def settle(mjm, st, nsteps):
  """Advances the state with MuJoCo (float64) so that contacts and limits reach realistic, moderately stiff
  configurations; returns a float32-representable state (unchanged if the simulation diverged)."""
  from mon import mw

  if nsteps <= 0:
    return st
  mjd = mujoco.MjData(mjm)
  mw.apply_state_mj(mjm, mjd, st)
  try:
    for _ in range(nsteps):
      mujoco.mj_step(mjm, mjd)
  except Exception:
    return st
  if not (np.all(np.isfinite(mjd.qpos)) and np.all(np.isfinite(mjd.qvel))) or np.abs(mjd.qvel).max() > 1e3 or np.abs(mjd.qpos).max() > 1e3:
    return st
  out = dict(st)
  out["qpos"] = mjd.qpos.astype(np.float32)
  out["qvel"] = mjd.qvel.astype(np.float32)
  out["act"] = mjd.act.astype(np.float32)
  out["time"] = np.float32(mjd.time)
  return out
