"""C07 Sensors and energy agree with MuJoCo C.

Differential monitor: every sensor's slice of Data.sensordata and Data.energy after MJWarp forward (or the staged
fwd_position/sensor_pos/.../solve/sensor_acc sequence) versus mj_forward at the same float32 state, judged per sensor
(own scale, own noise floor). Sensors that depend on the constraint solver are judged only under the gating rule.
"""

import copy

import mujoco
import numpy as np

from mon import cmp, core, gen, mw
from mon.props.C03 import judge_el, reference_el

ID = "C07"
LEVEL = "exploration"
RULE = (
  "case=(kind,seed). kind=free: generated tree without contacts/limits/equalities (qacc=qacc_smooth, every sensor judged) "
  "carrying up to 16 sensors drawn from all generated types x objtype/reftype (body,xbody,geom,site,camera) x cutoff, with "
  "cameras, tendons, actuators, fluid, gravcomp, ENERGY flag on/off with/without energy sensors. kind=con: same with joint/tendon "
  "limits, equalities, frictionloss (limit sensors; solver-dependent sensors gated). kind=scene: hand-written plane scenes "
  "(sphere/capsule/box/ellipsoid bodies, stacks, articulated children) with touch sites of all 5 shapes, contact sensors "
  "(geom/body/subtree/site matching, data subsets, reduce none/mindist/maxforce/netforce, num), force/torque/accelerometer/"
  "frame*acc, rangefinder, geom distance/normal/fromto, both cones, condim 1/3/4/6. kind=tactile: mesh tactile sensor. "
  "kind=frame: unconstrained tree of 2-4 fast-spinning bodies (free/ball/hinge/slide, jointless child, mocap, static world objects) "
  "whose inertial frames are displaced from and rotated against the body frames (explicit inertial or unequal off-centre geoms), "
  "each with an offset+rotated geom, site and camera (fixed/track/target modes); full cross product frame{pos,quat,x/y/zaxis,linvel,"
  "angvel} x objtype(5) x reftype(none+5) on random objects, frame{lin,ang}acc x objtype, velocimeter/gyro/accelerometer, subtree "
  "sensors; cutoffs of the order of the values on ~30% of the real-valued ones. "
  "3 worlds with different random states. Non-trivial: >=1 sensor with a non-zero reference value; distinct by "
  "hash(model xml, qpos, qvel of all worlds)."
)
ASSUMPTIONS = [
  "MuJoCo 3.13 C (float64) mj_forward is the reference at the same float32-representable state; no sensor callbacks/plugins",
  "gating rule (DESIGN §3): sensors that depend on qacc/efc_force are judged only if both engines produced the same "
  "constraint counts (ne,nf,nl,nefc) and the same contact list, neither hit its iteration limit, and MuJoCo's own structure "
  "and value are stable under the +-2ulp probe",
  "per-sensor allowance a*max(1,|ref|)+50*noise with a=2e-5 (pos/vel), 1e-4 (unconstrained acc), 1e-3 (constrained acc, "
  "geom distance family via iterative GJK); discontinuous sensors (rangefinder, insidesite, touch, contact-in-site, "
  "camprojection) are not judged when a 3e-6 perturbation of the state moves MuJoCo's own value by more than the violation line",
  "contact-sensor slots are compared as a multiset (contact order is engine specific); truncated (nmatch>num) unordered "
  "sensors are judged on their 'found' field only",
]
BUDGET = {"quick": 300, "thorough": 1500}

S = mujoco.mjtSensor
ST = {int(v): k[7:].lower() for k, v in S.__members__.items()}
OBJ = {int(v): k[6:].lower() for k, v in mujoco.mjtObj.__members__.items()}

A_POS, A_VEL, A_ACC_FREE, A_ACC_CON, A_DIST = 2e-5, 2e-5, 1e-4, 1e-3, 1e-3

# sensors whose value depends on the constraint solver (qacc / efc_force)
SOLVER_DEP = {int(x) for x in (S.mjSENS_ACCELEROMETER, S.mjSENS_FORCE, S.mjSENS_TORQUE, S.mjSENS_FRAMELINACC, S.mjSENS_FRAMEANGACC, S.mjSENS_JOINTLIMITFRC, S.mjSENS_TENDONLIMITFRC, S.mjSENS_TOUCH, S.mjSENS_CONTACT, S.mjSENS_TACTILE)}
# sensors with a discontinuous dependence on the state
DISCONT = {int(x) for x in (S.mjSENS_RANGEFINDER, S.mjSENS_INSIDESITE, S.mjSENS_TOUCH, S.mjSENS_CONTACT, S.mjSENS_CAMPROJECTION, S.mjSENS_GEOMDIST, S.mjSENS_GEOMNORMAL, S.mjSENS_GEOMFROMTO, S.mjSENS_TACTILE)}
QUAT = {int(S.mjSENS_FRAMEQUAT), int(S.mjSENS_BALLQUAT)}
DISTFAM = {int(S.mjSENS_GEOMDIST), int(S.mjSENS_GEOMNORMAL), int(S.mjSENS_GEOMFROMTO)}

KINDS_BASE = (
  "jointpos jointvel jointactuatorfrc ballquat ballangvel tendonpos tendonvel tendonactuatorfrc actuatorpos actuatorvel actuatorfrc "
  "framepos framequat framexaxis frameyaxis framezaxis framelinvel frameangvel framelinacc frameangacc subtreecom subtreelinvel "
  "subtreeangmom accelerometer velocimeter gyro force torque magnetometer rangefinder clock e_potential e_kinetic distance normal "
  "fromto insidesite camprojection touch"
).split()
KINDS_LIMIT = "jointlimitpos jointlimitvel jointlimitfrc tendonlimitpos tendonlimitvel tendonlimitfrc".split()

PROFILE_FREE = gen.profile(
  nbody=(2, 8),
  p_camlight=0.6,
  tendon_fixed=0.5,
  tendon_spatial=0.4,
  actuators=4,
  act_kinds=("motor", "position", "velocity", "general"),
  act_ball=False,
  sensors=16,
  sensor_kinds=tuple(KINDS_BASE + KINDS_BASE + KINDS_LIMIT),
  p_limit=0.0,
  fluid=0.2,
  p_gravcomp=0.2,
  p_mocap=0.15,
  p_massless=0.1,
  p_site=0.9,
  flags_enable=("energy",),
)
PROFILE_CON = dict(
  PROFILE_FREE,
  p_limit=0.7,
  equality=2,
  eq_kinds=("connect", "weld", "joint"),
  p_frictionloss=0.15,
  sensor_kinds=tuple(KINDS_BASE + KINDS_LIMIT * 5 + ["accelerometer", "force", "torque", "framelinacc", "frameangacc"] * 2),
)


def cases(tier, seed):
  q = tier == "quick"
  out = []
  for i in range(110 if q else 2200):
    out.append({"id": f"free{seed}_{i}", "kind": "free", "seed": seed * 100000 + i, "entry": ("fwd", "staged")[i % 2], "variant": i % 10})
  for i in range(60 if q else 1000):
    out.append({"id": f"con{seed}_{i}", "kind": "con", "seed": seed * 100000 + 30000 + i, "entry": ("fwd", "staged")[i % 2], "variant": i % 10, "weight": 2})
  for i in range(70 if q else 1200):
    out.append({"id": f"scene{seed}_{i}", "kind": "scene", "seed": seed * 100000 + 60000 + i, "entry": ("fwd", "staged")[i % 2], "weight": 2})
  for i in range(16 if q else 300):
    out.append({"id": f"frame{seed}_{i}", "kind": "frame", "seed": seed * 100000 + 80000 + i, "entry": ("fwd", "staged")[i % 2], "weight": 2})
  for i in range(4 if q else 40):
    out.append({"id": f"tactile{seed}_{i}", "kind": "tactile", "seed": seed * 100000 + 90000 + i, "entry": "fwd", "weight": 3})
  return out


# --------------------------------------------------------------------------------------- hand-written scenes

SITE_SHAPES = ("sphere", "capsule", "ellipsoid", "cylinder", "box")


def contact_scene(seed):
  rng = np.random.default_rng(seed)
  f = gen._f
  cone = ("pyramidal", "elliptic")[rng.integers(2)]
  jac = ("dense", "sparse", "auto")[rng.integers(3)]
  solver = ("Newton", "Newton", "CG")[rng.integers(3)]
  nb = int(rng.integers(1, 4))
  bodies, sensors, geoms, bnames, sites = [], [], ["floor"], ["world"], []
  floor_cd = (1, 3, 3, 4, 6)[rng.integers(5)]
  for b in range(nb):
    x = 1.2 * b
    shape = ("sphere", "sphere", "capsule_h", "capsule_v", "box", "ellipsoid", "twosphere")[rng.integers(7)]
    cd = (1, 3, 3, 4, 6)[rng.integers(5)]
    fr = f'friction="{f([rng.uniform(0.3, 1.2), 0.005, 0.0001])}"'
    r = rng.uniform(0.08, 0.14)
    gl = []
    if shape == "sphere":
      gl.append(f'<geom name="g{b}" type="sphere" size="{f(r)}" condim="{cd}" {fr}/>')
      h = r
    elif shape == "capsule_h":
      gl.append(f'<geom name="g{b}" type="capsule" size="{f(r)} 0.12" euler="0 90 {f(rng.uniform(0, 90))}" condim="{cd}" {fr}/>')
      h = r
    elif shape == "capsule_v":
      gl.append(f'<geom name="g{b}" type="capsule" size="{f(r)} 0.1" condim="{cd}" {fr}/>')
      h = r + 0.1
    elif shape == "box":
      hz = rng.uniform(0.06, 0.12)
      gl.append(f'<geom name="g{b}" type="box" size="{f([rng.uniform(0.1, 0.2), rng.uniform(0.1, 0.2), hz])}" condim="{cd}" {fr}/>')
      h = hz
    elif shape == "ellipsoid":
      hz = rng.uniform(0.06, 0.1)
      gl.append(f'<geom name="g{b}" type="ellipsoid" size="{f([rng.uniform(0.1, 0.16), rng.uniform(0.1, 0.16), hz])}" condim="{cd}" {fr}/>')
      h = hz
    else:
      gl.append(f'<geom name="g{b}" type="sphere" size="{f(r)}" pos="0.15 0 0" condim="{cd}" {fr}/>')
      gl.append(f'<geom name="g{b}b" type="sphere" size="{f(r)}" pos="-0.15 0 0" condim="{cd}"/>')
      geoms.append(f"g{b}b")
      h = r
    geoms.append(f"g{b}")
    jt = rng.integers(3)
    if jt == 0 or shape in ("box", "twosphere"):
      j = "<freejoint/>"
    elif jt == 1:
      j = '<joint type="slide" axis="0 0 1"/><joint type="hinge" axis="1 0.3 0"/>'
    else:
      j = '<joint type="slide" axis="0 0.2 1"/><joint type="slide" axis="1 0 0"/>'
    sl = []
    for k in range(int(rng.integers(1, 3))):
      sh = SITE_SHAPES[rng.integers(5)]
      sz = f(rng.uniform(0.04, 0.25, size=3))
      sp = f([rng.normal() * 0.05, rng.normal() * 0.05, -h + rng.normal() * 0.04])
      sl.append(f'<site name="s{b}_{k}" type="{sh}" size="{sz}" pos="{sp}" euler="{f(rng.uniform(-30, 30, size=3))}"/>')
      sites.append(f"s{b}_{k}")
      sensors.append(f'<touch site="s{b}_{k}"{(" cutoff=" + chr(34) + f(rng.uniform(0.5, 20)) + chr(34)) if rng.random() < 0.2 else ""}/>')
    sl.append(f'<site name="ft{b}" pos="{f(rng.normal(size=3) * 0.05)}" euler="{f(rng.uniform(-90, 90, size=3))}" size="0.02"/>')
    sl.append(f'<site name="rf{b}" pos="{f([0.3 + rng.uniform(0, 0.1), rng.normal() * 0.1, 0.1])}" euler="{f([180 + rng.uniform(-40, 40), rng.uniform(-40, 40), 0])}" size="0.02"/>')
    sensors += [f'<force site="ft{b}"/>', f'<torque site="ft{b}"/>', f'<accelerometer site="ft{b}"/>', f'<rangefinder site="rf{b}"/>']
    sensors.append(f'<insidesite site="s{b}_0" objtype="{("xbody", "geom", "site")[b % 3]}" objname="{("b%d" % b, "g%d" % b, "ft%d" % b)[b % 3]}"/>')
    ot = ("body", "xbody", "geom", "site")[rng.integers(4)]
    on = {"body": f"b{b}", "xbody": f"b{b}", "geom": f"g{b}", "site": f"ft{b}"}[ot]
    sensors += [f'<framelinacc objtype="{ot}" objname="{on}"/>', f'<frameangacc objtype="{ot}" objname="{on}"/>', f'<velocimeter site="ft{b}"/>', f'<gyro site="ft{b}"/>']
    child = ""
    if rng.random() < 0.4:
      cz = rng.choice([-0.004, 0.002, 0.02])
      child = f'<body name="c{b}" pos="0.25 0 0.2"><joint type="hinge" axis="0 1 0"/><geom name="gc{b}" type="sphere" size="0.06" pos="0.1 0 {f(-0.2 - h + 0.06 + cz)}" condim="{cd}"/><site name="fc{b}" size="0.02"/></body>'
      geoms.append(f"gc{b}")
      bnames.append(f"c{b}")
      sensors += [f'<force site="fc{b}"/>', f'<torque site="fc{b}"/>']
    top = ""
    if shape == "box" and rng.random() < 0.5:
      top = f'</body><body name="t{b}" pos="{f([x + rng.normal() * 0.03, rng.normal() * 0.03, 2 * h + 0.07 + rng.choice([-0.003, 0.0, 0.004])])}"><freejoint/><geom name="gt{b}" type="sphere" size="0.07" condim="{cd}"/><site name="st{b}" type="sphere" size="0.1"/>'
      geoms.append(f"gt{b}")
      bnames.append(f"t{b}")
      sensors.append(f'<touch site="st{b}"/>')
    z = h + rng.choice([-0.006, -0.002, 0.0, 0.003, 0.03])
    bodies.append(f'<body name="b{b}" pos="{f([x, 0, z])}">{j}{"".join(gl)}{"".join(sl)}{child}{top}</body>')
    bnames.append(f"b{b}")
  # contact sensors
  datas = ("found", "found force dist", "found force dist normal", "found torque pos tangent", "found force torque dist pos normal tangent", "force", "found dist pos")
  for k in range(int(rng.integers(2, 6))):
    r = rng.integers(7)
    g1, g2 = geoms[rng.integers(len(geoms))], geoms[rng.integers(len(geoms))]
    b1, b2 = bnames[rng.integers(len(bnames))], bnames[rng.integers(len(bnames))]
    if r == 0:
      spec = ""
    elif r == 1:
      spec = f'geom1="{g1}"'
    elif r == 2:
      spec = f'geom1="{g1}" geom2="floor"' if rng.random() < 0.5 else f'geom1="floor" geom2="{g1}"'
    elif r == 3:
      spec = f'body1="{b1}"' if rng.random() < 0.5 else f'body2="{b1}"'
    elif r == 4:
      spec = f'subtree1="{b1}"' if rng.random() < 0.5 else f'subtree1="{b1}" subtree2="{b2}"'
    elif r == 5:
      spec = f'site="{sites[rng.integers(len(sites))]}"'
    else:
      spec = f'body1="{b1}" geom2="{g2}"' if g2 != g1 else f'body1="{b1}"'
    red = ("none", "mindist", "maxforce", "netforce")[rng.integers(4)]
    data = datas[rng.integers(len(datas))]
    num = int(rng.choice([1, 2, 4]))
    sensors.append(f'<contact name="cs{k}" {spec} reduce="{red}" data="{data}" num="{num}"/>')
    if red in ("mindist", "maxforce") or (red == "none" and "found" not in data):
      # sibling with room for every match: used to detect truncation ties (and judged itself)
      sensors.append(f'<contact name="cs{k}_all" {spec} reduce="{red}" data="found force dist" num="10"/>')
  # geom distance family between bodies
  gg = [g for g in geoms if g != "floor"]
  if len(gg) >= 2:
    for k in range(int(rng.integers(0, 4))):
      i1, i2 = rng.choice(len(gg), size=2, replace=False)
      kind = ("distance", "normal", "fromto")[rng.integers(3)]
      sensors.append(f'<{kind} geom1="{gg[i1]}" geom2="{gg[i2]}" cutoff="{f(rng.choice([0.5, 2.0, 10.0]))}"/>')
  if len(bnames) >= 3 and rng.random() < 0.5:
    kind = ("distance", "normal", "fromto")[rng.integers(3)]
    sensors.append(f'<{kind} body1="{bnames[1]}" body2="{bnames[2]}" cutoff="10"/>')
  xml = f"""<mujoco>
  <compiler angle="degree"/>
  <option cone="{cone}" jacobian="{jac}" solver="{solver}" timestep="0.002" impratio="{f(rng.choice([1, 1, 5]))}" tolerance="1e-10"/>
  <worldbody>
    <geom name="floor" type="plane" size="5 5 .01" condim="{floor_cd}"/>
    {chr(10).join(bodies)}
  </worldbody>
  <sensor>
    {chr(10).join(sensors)}
  </sensor>
</mujoco>"""
  return xml, {"cone:" + cone, "jacobian:" + jac, "solver:" + solver}


def scene_state(mjm, rng):
  st = gen.sample_state(mjm, rng, vel=0.2, quat_scale=False, applied=False)
  qpos = np.array(mjm.qpos0, dtype=np.float64)
  tilt = rng.choice([0.0, 0.02, 0.3])
  for j in range(mjm.njnt):
    a = mjm.jnt_qposadr[j]
    t = mjm.jnt_type[j]
    if t == 0:
      qpos[a : a + 3] += [rng.normal() * 0.02, rng.normal() * 0.02, rng.normal() * 0.003]
      q = np.array([1, 0, 0, 0]) + rng.normal(size=4) * tilt * np.array([0, 1, 1, 1])
      qpos[a + 3 : a + 7] = q / np.linalg.norm(q)
    elif t == 2:
      qpos[a] += rng.normal() * 0.003
    else:
      qpos[a] += rng.normal() * 0.05
  st["qpos"] = qpos.astype(np.float32)
  return st


TACTILE_XML = """<mujoco>
  <option><flag multiccd="{multiccd}"/></option>
  <asset>
    <mesh name="sensor_mesh" builtin="sphere" params="{sub}" scale="{sc} {sc} {sc}"/>
  </asset>
  <worldbody>
    <body name="sensor_body" pos="0 0 {z}">
      <freejoint/>
      <geom name="sensor_geom" type="mesh" mesh="sensor_mesh"/>
    </body>
    <body>
      <geom type="box" size=".7 .7 .3"/>
    </body>
  </worldbody>
  <sensor>
    <tactile geom="sensor_geom" mesh="sensor_mesh"/>
  </sensor>
</mujoco>"""


# --------------------------------------------------------------------------------------- frame-sensor cross product

FRAME_REL = ("framepos", "framequat", "framexaxis", "frameyaxis", "framezaxis", "framelinvel", "frameangvel")  # take a reference frame
FRAME_ACC = ("framelinacc", "frameangacc")
FRAME_OT = ("body", "xbody", "geom", "site", "camera")
FRAME_TYPES = {int(getattr(S, "mjSENS_" + k.upper())) for k in FRAME_REL + FRAME_ACC}
SITE_MOTION = {int(S.mjSENS_VELOCIMETER), int(S.mjSENS_GYRO), int(S.mjSENS_ACCELEROMETER)}


def frame_scene(seed):
  """Tree of 2-4 spinning bodies (+ jointless child, mocap body, static world objects). Every moving body has an inertial frame
  that is neither at the body origin nor aligned with it (explicit <inertial pos quat> or two unequal off-centre geoms), and a geom,
  a site and a camera each with its own offset and orientation, so that xpos/xipos/geom_xpos/site_xpos/cam_xpos and
  xmat/ximat/geom_xmat/site_xmat/cam_xmat are pairwise different. Sensors: every frame sensor that takes a reference frame x
  objtype (5) x reftype (none + 5) on randomly chosen objects, frame*acc x objtype, site motion sensors, subtree sensors;
  cutoffs of the order of the values on ~30% of the real-valued ones (MuJoCo's compiler rejects cutoff on axis/quaternion data)."""
  rng = np.random.default_rng(seed)
  f = gen._f
  rq = gen._rquat
  nb = int(rng.integers(2, 5))
  names, parent, joints = [], {}, {}
  for i in range(nb):
    nm = f"fb{i}"
    p = "world" if i == 0 or rng.random() < 0.35 else names[rng.integers(len(names))]
    parent[nm] = p
    if i == 0:
      jt = ("free", "ball", "ballslide")[rng.integers(3)]
    elif p == "world":
      jt = ("free", "ball", "hinge2", "slidehinge")[rng.integers(4)]
    else:
      jt = ("ball", "hinge", "hinge", "hinge2", "slidehinge", "weld")[rng.integers(6)]
    joints[nm] = jt
    names.append(nm)
  mocap = rng.random() < 0.35
  if mocap:
    names.append("fbm")
    parent["fbm"] = "world"
    joints["fbm"] = "mocap"
  feats = set()

  def off(s, lo):
    v = rng.normal(size=3) * s
    n = np.linalg.norm(v)
    return v * (max(n, lo) / n)

  def body_xml(nm):
    jt = joints[nm]
    feats.add("frame_joint:" + jt)
    out = [f'<body name="{nm}" pos="{f(rng.normal(size=3) * 0.4 + (np.array([0, 0, 1.0]) if parent[nm] == "world" else 0))}" quat="{f(rq(rng))}"{" mocap=" + chr(34) + "true" + chr(34) if jt == "mocap" else ""}>']
    jp = f'pos="{f(rng.normal(size=3) * 0.1)}"'
    ax = lambda: f'axis="{f(gen._raxis(rng))}"'  # noqa: E731
    if jt == "free":
      out.append("<freejoint/>")
    elif jt == "ball":
      out.append(f'<joint type="ball" {jp}/>')
    elif jt == "ballslide":
      out.append(f'<joint type="slide" {ax()}/><joint type="ball" {jp}/>')
    elif jt == "hinge":
      out.append(f'<joint type="hinge" {jp} {ax()}/>')
    elif jt == "hinge2":
      out.append(f'<joint type="hinge" {jp} {ax()}/><joint type="hinge" pos="{f(rng.normal(size=3) * 0.1)}" {ax()}/>')
    elif jt == "slidehinge":
      out.append(f'<joint type="slide" {ax()}/><joint type="hinge" {jp} {ax()}/>')
    gt = ("sphere", "box", "capsule", "ellipsoid", "cylinder")[rng.integers(5)]
    gs = {"sphere": f(rng.uniform(0.04, 0.1)), "capsule": f(rng.uniform(0.03, 0.08, size=2) * [1, 2]), "cylinder": f(rng.uniform(0.03, 0.08, size=2) * [1, 2])}.get(gt, f(rng.uniform(0.03, 0.12, size=3)))
    out.append(f'<geom name="g_{nm}" type="{gt}" size="{gs}" pos="{f(off(0.2, 0.1))}" quat="{f(rq(rng))}" contype="0" conaffinity="0" density="{f(rng.uniform(300, 2000))}"/>')
    if rng.random() < 0.6:
      diag = rng.uniform(0.004, 0.05, size=3)
      diag[2] = min(diag[2], 0.9 * (diag[0] + diag[1]))
      diag[0] = min(diag[0], 0.9 * (diag[1] + diag[2]))
      diag[1] = min(diag[1], 0.9 * (diag[0] + diag[2]))
      out.append(f'<inertial pos="{f(off(0.2, 0.1))}" quat="{f(rq(rng))}" mass="{f(rng.uniform(0.3, 3))}" diaginertia="{f(diag)}"/>')
      feats.add("frame_inertia:explicit")
    else:
      # second, unequal geom: centre of mass between the two, principal axes along neither geom frame
      out.append(f'<geom type="box" size="{f(rng.uniform(0.02, 0.1, size=3))}" pos="{f(off(0.25, 0.1))}" quat="{f(rq(rng))}" contype="0" conaffinity="0" density="{f(rng.uniform(300, 2000))}"/>')
      feats.add("frame_inertia:from_geoms")
    out.append(f'<site name="s_{nm}" type="{SITE_SHAPES[rng.integers(5)]}" size="0.03 0.04 0.05" pos="{f(off(0.2, 0.1))}" quat="{f(rq(rng))}"/>')
    mode, tgt = "fixed", ""
    if rng.random() < 0.3:
      mode = ("track", "trackcom", "targetbody", "targetbodycom")[rng.integers(4)]
      if jt == "mocap" and mode.startswith("track"):
        mode = "fixed"
      if mode.startswith("target"):
        cands = [b for b in names if b != nm]
        tgt = f' target="{cands[rng.integers(len(cands))]}"'
      feats.add("frame_cam:" + mode)
    out.append(f'<camera name="c_{nm}" mode="{mode}"{tgt} pos="{f(off(0.2, 0.1))}" quat="{f(rq(rng))}"/>')
    for ch in names:
      if parent[ch] == nm:
        out += body_xml(ch)
    out.append("</body>")
    return out

  wb = [
    f'<geom name="g_world" type="box" size="0.1 0.2 0.05" pos="{f(rng.normal(size=3) * 0.5)}" quat="{f(rq(rng))}" contype="0" conaffinity="0"/>',
    f'<site name="s_world" pos="{f(rng.normal(size=3) * 0.5)}" quat="{f(rq(rng))}" size="0.05"/>',
    f'<camera name="c_world" pos="{f(rng.normal(size=3) * 0.5)}" quat="{f(rq(rng))}"/>',
  ]
  for nm in names:
    if parent[nm] == "world":
      wb += body_xml(nm)
  allb = names + ["world"]

  def pick(tp):
    b = allb[rng.integers(len(allb))] if rng.random() < 0.12 else names[rng.integers(nb)]  # mostly the spinning bodies
    return b if tp in ("body", "xbody") else {"geom": "g_", "site": "s_", "camera": "c_"}[tp] + b

  sens = []
  for k in FRAME_REL:
    for ot in FRAME_OT:
      for rt in (None,) + FRAME_OT:
        cut = ""
        if rng.random() < 0.3 and k in ("framepos", "framelinvel", "frameangvel"):  # MuJoCo rejects cutoff on axis/quaternion data
          cut = f' cutoff="{f(rng.uniform(0.05, 1.5))}"'
        ref = f' reftype="{rt}" refname="{pick(rt)}"' if rt else ""
        sens.append(f'<{k} objtype="{ot}" objname="{pick(ot)}"{ref}{cut}/>')
  for k in FRAME_ACC:
    for ot in FRAME_OT:
      for _ in range(2):
        cut = f' cutoff="{f(rng.uniform(0.5, 20))}"' if rng.random() < 0.3 else ""
        sens.append(f'<{k} objtype="{ot}" objname="{pick(ot)}"{cut}/>')
  for nm in names[:nb]:
    for k in ("velocimeter", "gyro", "accelerometer"):
      cut = f' cutoff="{f(rng.uniform(0.05, 5))}"' if rng.random() < 0.3 else ""
      sens.append(f'<{k} site="s_{nm}"{cut}/>')
  for k in ("subtreecom", "subtreelinvel", "subtreeangmom"):
    sens.append(f'<{k} body="{names[rng.integers(nb)]}"/>')
  integ = ("Euler", "implicitfast", "implicit", "RK4")[rng.integers(4)]
  xml = f"""<mujoco>
  <option integrator="{integ}" gravity="{f(rng.normal(size=3) * 3 + [0, 0, -9.81] if rng.random() < 0.5 else [0, 0, -9.81])}"/>
  <worldbody>
    {chr(10).join(wb)}
  </worldbody>
  <sensor>
    {chr(10).join(sens)}
  </sensor>
</mujoco>"""
  return xml, feats | {"frame_cross", "integrator:" + integ}


def _frame_body(mjm, tp, oid):
  """Body that carries the object (tp, oid), or -1."""
  O = mujoco.mjtObj
  if oid < 0:
    return -1
  if tp in (int(O.mjOBJ_BODY), int(O.mjOBJ_XBODY)):
    return int(oid)
  if tp == int(O.mjOBJ_GEOM):
    return int(mjm.geom_bodyid[oid])
  if tp == int(O.mjOBJ_SITE):
    return int(mjm.site_bodyid[oid])
  if tp == int(O.mjOBJ_CAMERA):
    return int(mjm.cam_bodyid[oid])
  return -1


def offcentre_spinning(mjm, mjd, b):
  """True if body b's inertial frame is displaced from and rotated against its body frame, and the body spins about an axis
  that is not along the displacement: the class of states in which xpos/xipos and xmat/ximat confusions are visible."""
  if b <= 0:
    return False
  ip = np.array(mjm.body_ipos[b])
  if np.linalg.norm(ip) < 0.05 or abs(mjm.body_iquat[b][0]) > 0.999:
    return False
  om = np.array(mjd.cvel[b][:3])
  off = np.array(mjd.xipos[b]) - np.array(mjd.xpos[b])
  return bool(np.linalg.norm(om) > 0.3 and np.linalg.norm(np.cross(off, om)) > 0.03)


# --------------------------------------------------------------------------------------- reference


def _niter(mjd):
  n = max(1, int(getattr(mjd, "nisland", 0)))
  return int(np.max(mjd.solver_niter[:n]))


def extract(mjm, mjd):
  c = mjd.contact
  return {
    "sensordata": mjd.sensordata,
    "energy": mjd.energy,
    "struct": [mjd.nefc, mjd.ne, mjd.nf, mjd.nl, mjd.ncon, int(_niter(mjd) >= mjm.opt.iterations)],
    "qacc": mjd.qacc,
  }


def coarse_spread(mjm, st, seed, eps=3e-6, probes=2):
  """Spread of MuJoCo's sensordata under a perturbation of the order of accumulated float32 error in positions."""
  rng = np.random.default_rng(seed + 999)
  base = None
  spread = np.zeros(mjm.nsensordata)
  for k in range(probes + 1):
    s2 = dict(st)
    if k:
      for key in ("qpos", "qvel"):
        v = np.asarray(st[key], dtype=np.float64)
        s2[key] = v + rng.choice([-1.0, 1.0], size=v.shape) * eps * np.maximum(1.0, np.abs(v))
    mjd = mujoco.MjData(mjm)
    mw.apply_state_mj(mjm, mjd, s2)
    mujoco.mj_forward(mjm, mjd)
    if k == 0:
      base = np.array(mjd.sensordata)
    else:
      spread = np.maximum(spread, np.abs(np.array(mjd.sensordata) - base))
  return spread


def contact_list_mj(mjd):
  c = mjd.contact
  rows = sorted((int(c.geom[i][0]), int(c.geom[i][1]), int(c.dim[i]), tuple(np.round(c.pos[i], 3)), i) for i in range(mjd.ncon))
  idx = [r[4] for r in rows]
  return [r[:3] for r in rows], np.array([c.pos[i] for i in idx]).reshape(-1, 3), np.array([c.frame[i] for i in idx]).reshape(-1, 9)


def contact_list_mjw(d, w):
  c = mw.contacts(d, w)
  n = len(c["dist"])
  # contacts that exist only for geom-distance sensors (ContactType.SENSOR without CONSTRAINT) are not constraint contacts
  rows = sorted((int(c["geom"][i][0]), int(c["geom"][i][1]), int(c["dim"][i]), tuple(np.round(c["pos"][i], 3)), i) for i in range(n) if int(c["type"][i]) & 1)
  idx = [r[4] for r in rows]
  return [r[:3] for r in rows], np.array([c["pos"][i] for i in idx]).reshape(-1, 3), np.array([np.asarray(c["frame"][i]).reshape(-1) for i in idx]).reshape(-1, 9)


# --------------------------------------------------------------------------------------- per-sensor verdict


STATIC_SKEW = {int(S.mjSENS_ACCELEROMETER), int(S.mjSENS_FRAMELINACC), int(S.mjSENS_FRAMEANGACC)}


def obj_body_static(mjm, i):
  ot, oid = int(mjm.sensor_objtype[i]), int(mjm.sensor_objid[i])
  if ot in (int(mujoco.mjtObj.mjOBJ_BODY), int(mujoco.mjtObj.mjOBJ_XBODY)):
    b = oid
  elif ot == int(mujoco.mjtObj.mjOBJ_GEOM):
    b = mjm.geom_bodyid[oid]
  elif ot == int(mujoco.mjtObj.mjOBJ_SITE):
    b = mjm.site_bodyid[oid]
  elif ot == int(mujoco.mjtObj.mjOBJ_CAMERA):
    b = mjm.cam_bodyid[oid]
  else:
    return False
  b = int(b)
  while b > 0:
    if mjm.body_dofnum[b] > 0:
      return False
    b = int(mjm.body_parentid[b])
  return True


LIMIT_ROWS = {int(x) for x in (S.mjSENS_JOINTLIMITPOS, S.mjSENS_JOINTLIMITVEL, S.mjSENS_JOINTLIMITFRC, S.mjSENS_TENDONLIMITPOS, S.mjSENS_TENDONLIMITVEL, S.mjSENS_TENDONLIMITFRC)}
JOINT_LIMIT = {int(x) for x in (S.mjSENS_JOINTLIMITPOS, S.mjSENS_JOINTLIMITVEL, S.mjSENS_JOINTLIMITFRC)}


def limit_cross_type_row(mjm, mjd, i):
  """True if MuJoCo's row list holds a limit row of the *other* kind (tendon vs joint) with the sensor's object id."""
  t = int(mjm.sensor_type[i])
  other = int(mujoco.mjtConstraint.mjCNSTR_LIMIT_TENDON) if t in JOINT_LIMIT else int(mujoco.mjtConstraint.mjCNSTR_LIMIT_JOINT)
  oid = int(mjm.sensor_objid[i])
  return any(int(mjd.efc_type[k]) == other and int(mjd.efc_id[k]) == oid for k in range(mjd.nefc))


def distfam_has_capsule_pair(mjm, i):
  def geoms(tp, oid):
    if tp == int(mujoco.mjtObj.mjOBJ_BODY):
      return range(mjm.body_geomadr[oid], mjm.body_geomadr[oid] + mjm.body_geomnum[oid])
    return [oid]

  cap = int(mujoco.mjtGeom.mjGEOM_CAPSULE)
  g1 = geoms(int(mjm.sensor_objtype[i]), int(mjm.sensor_objid[i]))
  g2 = geoms(int(mjm.sensor_reftype[i]), int(mjm.sensor_refid[i]))
  return any(int(mjm.geom_type[a]) == cap for a in g1) and any(int(mjm.geom_type[b]) == cap for b in g2)


def contact_layout(mjm, i):
  spec = int(mjm.sensor_intprm[i, 0])
  fields = []
  for bit, (nm, sz) in enumerate((("found", 1), ("force", 3), ("torque", 3), ("dist", 1), ("pos", 3), ("normal", 3), ("tangent", 3))):
    if spec & (1 << bit):
      fields.append((nm, sz))
  size = sum(s for _, s in fields)
  return fields, size, int(mjm.sensor_intprm[i, 1])


def match_rows(ref_rows, got_rows):
  """Greedy nearest-row matching; returns got rows permuted to ref order."""
  got_rows = [g for g in got_rows]
  out = []
  for r in ref_rows:
    k = int(np.argmin([np.abs(g - r).max() for g in got_rows]))
    out.append(got_rows.pop(k))
  return np.array(out)


def judge_sensor(rec, mjm, i, got, ref, noise, coarse, gated, struct_ok, constrained, sib, mjd, raw, cond_M, ctx):
  """Verdict for sensor i. got/ref/noise/coarse: full sensordata-sized arrays."""
  t = int(mjm.sensor_type[i])
  name = ST.get(t, str(t))
  a, n = int(mjm.sensor_adr[i]), int(mjm.sensor_dim[i])
  g, r, nz, cz = got[a : a + n].astype(np.float64), ref[a : a + n], noise[a : a + n], coarse[a : a + n]
  stage = int(mjm.sensor_needstage[i])
  if t in STATIC_SKEW and not np.any(r != 0) and obj_body_static(mjm, i):
    # MuJoCo 3.13 reports exactly 0 for acceleration sensors attached to static bodies (world, welded, mocap) although
    # cacc of those bodies is -gravity; classic MuJoCo semantics (and MJWarp) give -g in the sensor frame: not judged
    rec.count("skew_static_body_acc_sensor_not_judged")
    return "skew"
  contact_off = bool(mjm.opt.disableflags & mujoco.mjtDisableBit.mjDSBL_CONTACT)
  if t in LIMIT_ROWS and not struct_ok:
    rec.count("sensor_ungated")
    rec.count("ungated:" + name)
    return "ungated"
  if t in SOLVER_DEP:
    if not gated:
      rec.count("sensor_ungated")
      rec.count("ungated:" + name)
      return "ungated"
    allow = A_ACC_CON if constrained else max(A_ACC_FREE, 3e-7 * cond_M)  # float32 solve error grows with cond(M)
  elif t in DISTFAM:
    allow = A_DIST
  elif stage == 1:
    allow = A_POS
  elif stage == 2:
    allow = A_VEL
  else:
    allow = A_ACC_FREE
  sc = max(1.0, float(np.abs(r).max()), float(np.abs(raw[a : a + n]).max())) if n else 1.0  # raw: value before cutoff
  if constrained and t in SOLVER_DEP and t != int(S.mjSENS_TACTILE):  # tactile is geometric (penetration), no force scale
    # solver precision is relative to the largest constraint force / acceleration of the world, not to this sensor's value
    if t in STATIC_SKEW:
      sc = max(sc, float(np.abs(mjd.qacc).max()) if mjd.qacc.size else 0.0)
    else:
      sc = max(sc, float(np.abs(mjd.efc_force).max()) if mjd.nefc else 0.0)
  if t in DISCONT and n and float(cz.max()) > cmp.VIOL_FACTOR * allow * sc:
    rec.count("near_discontinuity:" + name)
    rec.inconcl(f"{name}: reference jumps under a 3e-6 perturbation")
    return "incon"
  if t in DISTFAM and int(mjm.sensor_objtype[i]) == int(mujoco.mjtObj.mjOBJ_GEOM) and int(mjm.sensor_reftype[i]) == int(mujoco.mjtObj.mjOBJ_GEOM):
    # MuJoCo's own distance query is not monotone in its cutoff (GJK early-out): if the reference says "nothing within cutoff"
    # but the same query with a large cutoff finds a smaller distance, the reference is not usable
    c = float(mjm.sensor_cutoff[i])
    none_ref = (t == int(S.mjSENS_GEOMDIST) and r[0] == c) or (t != int(S.mjSENS_GEOMDIST) and not np.any(r != 0))
    if none_ref and c > 0:
      ft = np.zeros(6)
      dbig = mujoco.mj_geomDistance(mjm, mjd, int(mjm.sensor_objid[i]), int(mjm.sensor_refid[i]), 1.0e3, ft)
      if dbig < c * (1 - 1e-6):
        rec.count("geomdist_reference_cutoff_dependent")
        rec.inconcl(f"{name}: mj_geomDistance finds {dbig:.4g} with a large cutoff but nothing with the sensor cutoff {c:.4g}")
        return "incon"
  rec.count("judged:" + name)
  sig = "sensor:" + name
  # "no distance found" output of the geom-distance family: cutoff / zero vector
  nodist = t in DISTFAM and ((t == int(S.mjSENS_GEOMDIST) and abs(g[0] - mjm.sensor_cutoff[i]) <= 1e-6 * max(1.0, mjm.sensor_cutoff[i])) or (t != int(S.mjSENS_GEOMDIST) and not np.any(g != 0)))
  if t in DISTFAM and contact_off and nodist:
    sig += ":contact-disabled"  # MuJoCo's mj_geomDistance does not depend on the CONTACT flag
  elif t == int(S.mjSENS_TOUCH) and mjm.sensor_cutoff[i] > 0 and r[0] == mjm.sensor_cutoff[i] and g[0] > r[0]:
    sig = "sensor:touch:cutoff-not-applied"
  elif t in LIMIT_ROWS and limit_cross_type_row(mjm, mjd, i):
    sig = "sensor:limit-sensor-reads-other-constraint-type"  # own mechanism: efc_id matched without checking joint vs tendon
  elif t in DISTFAM and nodist and distfam_has_capsule_pair(mjm, i):
    sig += ":capsule-capsule"  # own mechanism: capsule_capsule() drops distances beyond the contact margin
  if t in QUAT:
    if np.abs(g + r).max() < np.abs(g - r).max():
      g = -g
  if t == int(S.mjSENS_CONTACT):
    fields, size, reduce = contact_layout(mjm, i)
    num = n // size
    gr, rr = g.reshape(num, size), r.reshape(num, size)
    nmatch = None
    if fields[0][0] == "found":
      nmatch = int(round(rr[:, 0].max()))
      # the count itself
      res = judge_el(rec, "contact.found", [gr[:, 0].max()], [rr[:, 0].max()], 0.0, 0.0, sig=sig + ":found", ctx=ctx, allow_abs=0.5)
      if res != "ok":
        return res
    elif sib is not None:
      nmatch = sib["nmatch"]
    if reduce != 3:
      if nmatch is None:
        nmatch = int((np.abs(rr).max(axis=1) > 0).sum())
      if nmatch > num:
        rec.count("contact_sensor_truncated")
        if reduce == 0:
          return "ok"  # which `num` of the matches are reported depends on the engine's contact order
        if sib is None or sib["tie"](num):
          rec.count("contact_sensor_truncation_tie")
          return "ok"
      k = min(nmatch, num)
      if k:
        gm = match_rows(rr[:k], gr[:k])
        g = np.concatenate([gm.reshape(-1), gr[k:].reshape(-1)])
        r = np.concatenate([rr[:k].reshape(-1), rr[k:].reshape(-1)])
  if t == int(S.mjSENS_GEOMFROMTO) and np.any(r != 0) and np.any(g != 0) and np.abs(g - r).max() > allow * sc:
    # closest points are not unique between parallel faces/edges: equal length and direction is all that is defined
    vg, vr = g[3:] - g[:3], r[3:] - r[:3]
    lg, lr = np.linalg.norm(vg), np.linalg.norm(vr)
    if abs(lg - lr) <= allow * sc and (min(lg, lr) < 1e-6 or np.dot(vg, vr) / (lg * lr) > 1 - 1e-4):
      rec.count("geomfromto_nonunique_closest_points")
      rec.inconcl("geomfromto: same distance and direction, different closest points (not unique)")
      return "incon"
  return judge_el(rec, name, g, r, allow, nz, scale=sc, sig=sig, ctx=ctx)


def sibling_info(mjm, i, ref):
  """For contact sensor `<name>_all` (num=10, data 'found force dist'): match count and criteria of the reference."""
  a, n = int(mjm.sensor_adr[i]), int(mjm.sensor_dim[i])
  rows = ref[a : a + n].reshape(-1, 5)
  nmatch = int(round(rows[:, 0].max()))
  reduce = int(mjm.sensor_intprm[i, 1])
  crit = rows[:nmatch, 4] if reduce == 1 else -np.sum(rows[:nmatch, 1:4] ** 2, axis=1)

  def tie(num):
    if nmatch > rows.shape[0] or num >= nmatch:
      return nmatch > rows.shape[0]
    c = np.sort(crit)
    gap = abs(c[num] - c[num - 1])
    return gap < 1e-3 * max(1e-3, abs(c[num]), abs(c[num - 1]))

  return {"nmatch": nmatch, "tie": tie}


# --------------------------------------------------------------------------------------- the case


def build(case, rec):
  kind = case["kind"]
  if kind in ("free", "con"):
    P = dict(PROFILE_FREE if kind == "free" else PROFILE_CON)
    v = case.get("variant", 0)
    if v == 4:
      P["flags_disable"] = ("sensor",)
    if v == 5:
      P["integrators"] = ("implicitfast",)
    if v == 6:
      P["jacobians"] = ("sparse",)
    if v == 7:
      P["cones"] = ("elliptic",)
    xml, mjm, feats, _ = gen.make_model(case["seed"], P, accept=lambda m: m.nsensor > 0)
    if mjm is None:
      rec.rejected = "mujoco compile"
      return None
    if kind == "free" and v == 8:
      mjm.opt.disableflags |= mujoco.mjtDisableBit.mjDSBL_CONTACT  # geoms have contype=conaffinity=0 anyway
    return xml, mjm, set(feats)
  if kind == "scene":
    xml, feats = contact_scene(case["seed"])
  elif kind == "frame":
    xml, feats = frame_scene(case["seed"])
  else:
    rng = np.random.default_rng(case["seed"])
    sc = rng.choice([0.5, 1.0])
    xml = TACTILE_XML.format(multiccd=("enable", "disable")[rng.integers(2)], sub=int(rng.integers(0, 2)), sc=gen._f(sc), z=gen._f(0.3 + sc))
    feats = {"tactile"}
  mjm = gen.compile_xml(xml)
  if mjm is None:
    rec.rejected = "mujoco compile"
    return None
  return xml, mjm, feats


def run_case(case):
  import mujoco_warp as mjw

  rec = core.Rec(case)
  b = build(case, rec)
  if b is None:
    return rec.result()
  xml, mjm, feats = b
  kind = case["kind"]
  rng = np.random.default_rng(case["seed"])
  try:
    m = mw.put_model(mjm)
  except (NotImplementedError, ValueError) as e:
    rec.rejected = f"put_model: {e}"[:200]
    rec.count("rejected_put_model")
    return rec.result()
  nworld = 3
  if kind == "scene":
    states = [scene_state(mjm, rng) for _ in range(nworld)]
    d = mw.make_data(mjm, m, states, nconmax=48, njmax=256)
  elif kind == "tactile":
    states = []
    for _ in range(nworld):
      st = gen.sample_state(mjm, rng, vel=0.1, quat_scale=False, applied=False)
      q = np.array(mjm.qpos0)
      qq = np.array([1, 0, 0, 0]) + rng.normal(size=4) * 0.1
      q[3:7] = qq / np.linalg.norm(qq)
      # put the lowest mesh vertex (after rotation) at the box top (z=0.3) plus an offset
      R = np.zeros(9)
      mujoco.mju_quat2Mat(R, q[3:7])
      gq = np.zeros(9)
      mujoco.mju_quat2Mat(gq, mjm.geom_quat[0])
      vz = (R.reshape(3, 3) @ (gq.reshape(3, 3) @ mjm.mesh_vert.T + mjm.geom_pos[0][:, None]))[2]
      q[2] = 0.3 - vz.min() + rng.choice([-0.03, -0.01, -0.003, 0.05])
      st["qpos"] = q.astype(np.float32)
      states.append(st)
    d = mw.make_data(mjm, m, states, nconmax=48, njmax=256)
  elif kind == "frame":
    states = [gen.sample_state(mjm, rng, vel=rng.choice([1.0, 3.0])) for _ in range(nworld)]
    d = mw.make_data(mjm, m, states)
  else:
    states = [gen.sample_state(mjm, rng, vel=rng.choice([0.3, 2.0])) for _ in range(nworld)]
    d = mw.make_data(mjm, m, states, njmax=96, njmax_nnz=96 * mjm.nv) if kind == "con" else mw.make_data(mjm, m, states)
  d.sensordata.fill_(7.0e7)
  d.energy.fill_(7.0e7)
  if case["entry"] == "fwd":
    mjw.forward(m, d)
  else:
    from mujoco_warp._src import sensor as mjw_sensor
    from mujoco_warp._src import solver as mjw_solver

    energy = bool(mjm.opt.enableflags & mujoco.mjtEnableBit.mjENBL_ENERGY)
    mjw.fwd_position(m, d)
    d.sensordata.zero_()  # the staged API accumulates into a cleared buffer, as forward() does
    mjw.sensor_pos(m, d)
    if energy:
      if not m.sensor_e_potential:
        mjw.energy_pos(m, d)
    else:
      d.energy.zero_()
    mjw.fwd_velocity(m, d)
    mjw.sensor_vel(m, d)
    if energy and not m.sensor_e_kinetic:
      mjw.energy_vel(m, d)
    mjw.fwd_actuation(m, d)
    mjw.fwd_acceleration(m, d, factorize=True)
    mjw.solve(m, d)
    mjw.sensor_acc(m, d)
  got_sd = np.array(mw.npy(d.sensordata))
  got_en = np.array(mw.npy(d.energy))
  nefc = np.minimum(mw.npy(d.nefc), d.njmax)
  ne, nf, nl = mw.npy(d.ne), mw.npy(d.nf), mw.npy(d.nl)
  niter = mw.npy(d.solver_niter)
  ovf = mw.npy(d.overflow)
  sensor_off = bool(mjm.opt.disableflags & mujoco.mjtDisableBit.mjDSBL_SENSOR)
  energy_on = bool(mjm.opt.enableflags & mujoco.mjtEnableBit.mjENBL_ENERGY)
  names = [mujoco.mj_id2name(mjm, mujoco.mjtObj.mjOBJ_SENSOR, i) or "" for i in range(mjm.nsensor)]
  nontrivial = False
  for w in range(nworld):
    st = states[w]
    ctx = f"world {w}"
    try:
      ref, noise, mjd = reference_el(mjm, st, mujoco.mj_forward, extract, seed=case["seed"] + w)
    except mujoco.FatalError as e:  # e.g. "rank-deficient sparse Hessian": MuJoCo has no answer for this state
      rec.inconcl(f"MuJoCo fatal error on the reference: {e}"[:150])
      rec.count("reference_fatal_error")
      continue
    rs = ref["struct"]
    constrained = rs[0] > 0 or nefc[w] > 0
    # ---- gating rule
    gated = True
    why = None
    evM = np.linalg.eigvalsh(mw.dense_M(mjm, mjd.M)) if mjm.nv else np.ones(1)
    cond_M = float(evM[-1] / max(evM[0], 1e-300))
    if evM[0] <= 1e-9 * evM[-1]:
      gated, why = False, "singular inertia matrix"
    elif np.any(noise["struct"] > 0):
      gated, why = False, "reference structure unstable under ulp probe"
    elif [int(rs[0]), int(rs[1]), int(rs[2]), int(rs[3])] != [int(nefc[w]), int(ne[w]), int(nf[w]), int(nl[w])]:
      gated, why = False, "constraint counts differ"
    elif rs[5] > 0 or niter[w] >= mjm.opt.iterations:
      gated, why = False, "iteration limit reached"
    elif rs[0] > 0 and float(np.abs(mjd.efc_force).max()) > 1e6 * max(1.0, float(np.abs(mjd.qfrc_smooth).max())):
      gated, why = False, "degenerate constraint forces in the reference"
    elif ovf[w]:
      gated, why = False, "overflow flag"
    elif rs[4] > 0 or kind in ("scene", "tactile"):
      cl, cp, cf = contact_list_mj(mjd)
      gl, gp, gf = contact_list_mjw(d, w)
      if cl != gl or (len(cl) and np.abs(cp - gp).max() > 2e-3):
        gated, why = False, "contact lists differ"
      elif len(cl) and np.abs(cf - gf).max() > 1e-3:
        gated, why = False, "contact frames differ"
    if gated and rs[0] > 0:
      n = int(rs[0])
      ncrow = int(np.sum(mjd.efc_type[:n] < int(mujoco.mjtConstraint.mjCNSTR_CONTACT_FRICTIONLESS)))  # rows that are not contact rows
      a = sorted(zip(mw.npy(d.efc.type)[w][:n].tolist(), mw.npy(d.efc.id)[w][:n].tolist()))
      b = sorted(zip(mjd.efc_type[:n].tolist(), mjd.efc_id[:n].tolist()))
      if [x[0] for x in a] != [x[0] for x in b] or sorted(x for x in a if x[0] < 5) != sorted(x for x in b if x[0] < 5):
        gated, why = False, "constraint row types/ids differ"
    if gated and rs[0] > 0:
      # sensors are functions of efc_force: they are judged given equal inputs (solver/assembly agreement is C05/C06's subject)
      n = int(rs[0])
      fa, fb = np.sort(mw.npy(d.efc.force)[w][:n].astype(np.float64)), np.sort(np.array(mjd.efc_force[:n]))
      if not np.all(np.isfinite(fa)) or np.abs(fa - fb).max() > 1e-2 * max(1.0, float(np.abs(fb).max())):
        gated, why = False, "efc_force differs between the engines"
        if not np.all(np.isfinite(fa)):
          rec.count("mjwarp_efc_force_not_finite")
    struct_ok = gated or why in ("iteration limit reached", "efc_force differs between the engines")
    rec.count("worlds")
    if constrained:
      rec.count("worlds_constrained")
    if not gated:
      rec.count("worlds_ungated")
      rec.count("ungated_reason:" + why)
    elif constrained:
      rec.count("worlds_constrained_gated")
      rec.cover("gated_rows", int(rs[0]))
      rec.cover("gated_contacts", int(rs[4]))
    # ---- energy
    if energy_on:
      has_ep = bool(np.any(mjm.sensor_type == int(S.mjSENS_E_POTENTIAL)))
      has_ek = bool(np.any(mjm.sensor_type == int(S.mjSENS_E_KINETIC)))
      for k, nm, has in ((0, "potential", has_ep), (1, "kinetic", has_ek)):
        # classified mechanism: forward._energy_pos/_energy_vel leave the computation to sensor_pos when an energy sensor
        # exists, and sensor_pos returns early under DisableBit.SENSOR -> Data.energy[k] is never written
        stale = sensor_off and has and got_en[w][k] == 7.0e7
        judge_el(rec, "energy_" + nm, [got_en[w][k]], [ref["energy"][k]], A_POS, noise["energy"][k], sig="energy:not-computed-when-sensor-disabled-and-energy-sensor-present" if stale else "energy", ctx=ctx)
      rec.cover("energy_compared", 1)
    else:
      rec.check()
      if np.any(got_en[w] != 0) and not np.any(mjm.sensor_type == int(S.mjSENS_E_POTENTIAL)) and not np.any(mjm.sensor_type == int(S.mjSENS_E_KINETIC)):
        rec.viol("energy:flag-off-nonzero", f"ENERGY disabled but Data.energy={got_en[w]} {ctx}")
    if mjm.nsensor == 0:
      continue
    if sensor_off:
      rec.check()
      rec.cover("sensor_disabled_worlds", 1)
      if np.any(got_sd[w] != 0) and np.any(got_sd[w] != 7.0e7):
        rec.viol("sensor:disabled-but-written", f"SENSOR disabled, sensordata written {ctx}")
      continue
    coarse = coarse_spread(mjm, st, case["seed"] + w) if any(int(t) in DISCONT for t in mjm.sensor_type) else np.zeros(mjm.nsensordata)
    raw = ref["sensordata"]
    if np.any(mjm.sensor_cutoff > 0):
      # magnitudes before cutoff (a saturated component says nothing about the size of the terms behind the others)
      m_nocut = copy.copy(mjm)
      m_nocut.sensor_cutoff[:] = 0
      d_nocut = mujoco.MjData(m_nocut)
      mw.apply_state_mj(m_nocut, d_nocut, st)
      mujoco.mj_forward(m_nocut, d_nocut)
      raw = np.array(d_nocut.sensordata)
    sibs = {}
    for i in range(mjm.nsensor):
      if names[i].endswith("_all"):
        sibs[names[i][:-4]] = sibling_info(mjm, i, ref["sensordata"])
    offc = {}  # body id -> off-centre inertial frame and spinning in this world
    for i in range(mjm.nsensor):
      t = int(mjm.sensor_type[i])
      res = judge_sensor(rec, mjm, i, got_sd[w], ref["sensordata"], noise["sensordata"], coarse, gated, struct_ok, constrained, sibs.get(names[i]), mjd, raw, cond_M, ctx + f" sensor {i} ({names[i]})")
      a, n = int(mjm.sensor_adr[i]), int(mjm.sensor_dim[i])
      r = ref["sensordata"][a : a + n]
      if res == "ok":
        nz = bool(np.any(r != 0))
        trip = f"{ST.get(t)}/{OBJ.get(int(mjm.sensor_objtype[i]), '?')}/{OBJ.get(int(mjm.sensor_reftype[i]), '?')}"
        rec.cover("triples_ok", trip)
        if nz:
          rec.cover("triples_ok_nonzero", trip)
          rec.cover("types_ok_nonzero", ST.get(t))
          nontrivial = True
        if t in SOLVER_DEP and constrained and nz:
          rec.cover("solverdep_constrained_nonzero", ST.get(t))
        c = float(mjm.sensor_cutoff[i])
        if c > 0 and t not in DISTFAM:
          rec.cover("cutoff_active" if np.any(np.abs(r) == c) else "cutoff_inactive", 1)
        if (t in FRAME_TYPES or t in SITE_MOTION) and nz:
          # moving frames whose body origin and centre of mass differ: which (sensor, objtype) / (sensor, reftype) pairs were
          # compared while the object's / reference's body had an off-centre, rotated inertial frame and was spinning
          ot_, rt_ = OBJ.get(int(mjm.sensor_objtype[i]), "?"), OBJ.get(int(mjm.sensor_reftype[i]), "?")
          bo = _frame_body(mjm, int(mjm.sensor_objtype[i]), int(mjm.sensor_objid[i]))
          br = _frame_body(mjm, int(mjm.sensor_reftype[i]), int(mjm.sensor_refid[i])) if t in FRAME_TYPES else -1
          spin_o = offc.setdefault(bo, offcentre_spinning(mjm, mjd, bo))
          spin_r = offc.setdefault(br, offcentre_spinning(mjm, mjd, br))
          if spin_o:
            rec.cover("frame_obj_offcentre_spinning", f"{ST.get(t)}/{ot_}")
          if spin_r:
            rec.cover("frame_ref_offcentre_spinning", f"{ST.get(t)}/{rt_}")
            rec.cover("frame_ref_offcentre_spinning_sensors", 1)
            if spin_o and bo != br:
              rec.cover("frame_obj_and_ref_offcentre_spinning", f"{ST.get(t)}/{ot_}/{rt_}")
          if c > 0 and t in FRAME_TYPES:
            clamped = np.abs(raw[a : a + n]) > c
            if clamped.any() and not clamped.all():
              rec.cover("frame_cutoff_partly_clamped", 1)
              if spin_r:
                rec.cover("frame_cutoff_partly_clamped_ref_spinning", 1)
        if t == int(S.mjSENS_CONTACT) and nz:
          rec.cover("contact_reduce_nonzero", ("none", "mindist", "maxforce", "netforce")[int(mjm.sensor_intprm[i, 1])])
          rec.cover("contact_match_nonzero", f"{OBJ.get(int(mjm.sensor_objtype[i]))}/{OBJ.get(int(mjm.sensor_reftype[i]))}")
        if t == int(S.mjSENS_TOUCH) and nz:
          rec.cover("touch_site_shape_nonzero", SITE_SHAPES[[2, 3, 4, 5, 6].index(int(mjm.site_type[mjm.sensor_objid[i]]))] if int(mjm.site_type[mjm.sensor_objid[i]]) in (2, 3, 4, 5, 6) else "?")
        if t in DISTFAM:
          rec.cover("geomdist_within_cutoff" if np.any(r != 0) and (t != int(S.mjSENS_GEOMDIST) or r[0] < c) else "geomdist_beyond_cutoff", 1)
        if t == int(S.mjSENS_RANGEFINDER):
          rec.cover("rangefinder_hit" if r[0] >= 0 else "rangefinder_miss", 1)
        if t == int(S.mjSENS_INSIDESITE):
          rec.cover("insidesite_" + ("in" if r[0] else "out"), 1)
  for ft in feats:
    rec.cover("features", ft)
  rec.cover("kind:" + kind, 1)
  rec.cover("entry:" + case["entry"], 1)
  rec.cover("energy_flag_" + ("on" if energy_on else "off") + ("_with_energy_sensor" if (np.any(mjm.sensor_type == int(S.mjSENS_E_POTENTIAL)) or np.any(mjm.sensor_type == int(S.mjSENS_E_KINETIC))) else "_without_energy_sensor"), 1)
  if nontrivial:
    rec.nontrivial(xml, *[s["qpos"] for s in states], *[s["qvel"] for s in states])
  rec.sample = {
    "model": f"{kind} seed {case['seed']}",
    "entry": case["entry"],
    "nv": mjm.nv,
    "nsensor": mjm.nsensor,
    "sensors": [f"{ST.get(int(mjm.sensor_type[i]))}/{OBJ.get(int(mjm.sensor_objtype[i]))}/{OBJ.get(int(mjm.sensor_reftype[i]))}" for i in range(min(mjm.nsensor, 10))],
    "nefc_world0": int(nefc[0]),
  }
  return rec.result()


NEED_TYPES = (
  "magnetometer camprojection rangefinder jointpos tendonpos actuatorpos ballquat jointlimitpos tendonlimitpos framepos framexaxis "
  "frameyaxis framezaxis framequat subtreecom geomdist geomnormal geomfromto insidesite e_potential e_kinetic clock velocimeter gyro "
  "jointvel tendonvel actuatorvel ballangvel jointlimitvel tendonlimitvel framelinvel frameangvel subtreelinvel subtreeangmom touch "
  "contact accelerometer force torque actuatorfrc tendonactfrc jointactfrc jointlimitfrc tendonlimitfrc framelinacc frameangacc"
).split()


def requirements(agg, tier):
  unmet = []
  cov = agg["cover"]
  have = set(cov.get("types_ok_nonzero", []))
  for t in NEED_TYPES:
    if t not in have:
      unmet.append(f"sensor type never compared with a non-zero reference: {t}")
  trip = set(cov.get("triples_ok_nonzero", []))
  for ot in ("body", "xbody", "geom", "site", "camera"):
    if not any(x.split("/")[1] == ot for x in trip if x.startswith("frame")):
      unmet.append(f"frame sensor objtype never seen: {ot}")
    if not any(x.split("/")[2] == ot for x in trip if x.startswith("frame")):
      unmet.append(f"frame sensor reftype never seen: {ot}")
  if len(trip) < 60:
    unmet.append(f"only {len(trip)} distinct (type,objtype,reftype) triples compared")
  # frame sensors on frames whose body has an off-centre, rotated inertial frame and spins (xpos/xipos, xmat/ximat differ and matter)
  ref_sp, obj_sp = set(cov.get("frame_ref_offcentre_spinning", [])), set(cov.get("frame_obj_offcentre_spinning", []))
  for tp in FRAME_OT:
    for k in FRAME_REL:
      if f"{k}/{tp}" not in ref_sp:
        unmet.append(f"{k} never compared with reftype={tp} on a spinning reference body with off-centre inertial frame")
    for k in FRAME_REL + FRAME_ACC:
      if f"{k}/{tp}" not in obj_sp:
        unmet.append(f"{k} never compared with objtype={tp} on a spinning body with off-centre inertial frame")
  for k in ("velocimeter", "gyro", "accelerometer"):
    if f"{k}/site" not in obj_sp:
      unmet.append(f"{k} never compared on a spinning body with off-centre inertial frame")
  both = len(cov.get("frame_obj_and_ref_offcentre_spinning", []))
  if both < 140:
    unmet.append(f"only {both} of 175 (frame sensor, objtype, reftype) triples compared with object and reference on different spinning off-centre bodies")
  for k, n in (("frame_ref_offcentre_spinning_sensors", 1000), ("frame_cutoff_partly_clamped", 20), ("frame_cutoff_partly_clamped_ref_spinning", 5)):
    if cov.get(k, 0) < n:
      unmet.append(f"coverage {k}={cov.get(k, 0)} < {n}")
  for s in ("accelerometer", "force", "torque", "touch", "contact", "framelinacc", "jointlimitfrc"):
    if s not in cov.get("solverdep_constrained_nonzero", []):
      unmet.append(f"solver-dependent sensor never compared on a constrained, gated world: {s}")
  for r in ("none", "mindist", "maxforce", "netforce"):
    if r not in cov.get("contact_reduce_nonzero", []):
      unmet.append(f"contact sensor reduce mode never compared: {r}")
  if "tactile" not in have:
    unmet.append("tactile sensor never compared with a non-zero reference")
  for s in SITE_SHAPES:
    if s not in cov.get("touch_site_shape_nonzero", []):
      unmet.append(f"touch sensor with site shape never compared non-zero: {s}")
  for k, n in (("cutoff_active", 10), ("cutoff_inactive", 10), ("energy_compared", 30), ("sensor_disabled_worlds", 3), ("rangefinder_hit", 5), ("rangefinder_miss", 1), ("insidesite_in", 1), ("insidesite_out", 1), ("geomdist_within_cutoff", 5), ("entry:fwd", 10), ("entry:staged", 10)):
    if cov.get(k, 0) < n:
      unmet.append(f"coverage {k}={cov.get(k, 0)} < {n}")
  for k in ("energy_flag_on_with_energy_sensor", "energy_flag_on_without_energy_sensor", "energy_flag_off_with_energy_sensor", "energy_flag_off_without_energy_sensor"):
    if cov.get(k, 0) < 1:
      unmet.append(f"never observed: {k}")
  t = agg["tally"]
  wc = t.get("worlds_constrained", 0)
  if wc and t.get("worlds_constrained_gated", 0) < 0.5 * wc:
    unmet.append(f"gated fraction of constrained worlds below 50% ({t.get('worlds_constrained_gated', 0)}/{wc})")
  if agg["distinct"] < 80:
    unmet.append("fewer than 80 distinct non-trivial cases")
  return unmet
