"""C36 Results do not depend on what else ran in the process.

Cross-process metamorphic monitor: a target configuration is simulated (a) alone in a fresh interpreter and
(b) in a fresh interpreter after a random program of other configurations (different NATIVECCD / MULTICCD /
cone / solver / jacobian / sleep / broadphase / geom-type sets / sizes / capacities / warn_overflow).  The two
target trajectories (qpos, qvel, qacc, sensordata, nefc, contacts) must be bit-identical.  A cache audit hooked
into warp_util.cache_kernel compares a deep content fingerprint of the builder arguments at every cache hit
with the one stored at the miss (a hit with different contents = stale kernel served).
"""

import json
import os
import subprocess
import sys
import tempfile

import numpy as np

from mon import core

ID = "C36"
LEVEL = "exploration"
TECHNIQUE = "runtime monitoring: cross-process metamorphic comparison (fresh interpreter vs after a program of other configurations) + kernel-cache audit hook"
RULE = (
  "case=(target configuration, program of 3-5 other configurations drawn from a pool that differs in every option the code "
  "specialises kernels or module globals on): target run for 4 steps in a fresh process, alone and after the program. "
  "Non-trivial: target has contacts or constraint rows and >=2 program entries ran; distinct by hash(target, program)."
)
ASSUMPTIONS = [
  "expected bit-identical trajectories (same machine, same kernels); any difference is reported",
  "the pool covers the option dimensions listed in DESIGN C36; options outside the pool are not observed",
]
BUDGET = {"quick": 240, "thorough": 2400}

BOX_XML = """
<mujoco>
  <option timestep="0.00390625"/>
  <worldbody>
    <geom type="plane" size="0 0 1"/>
    <body pos="0 0 0.12"><freejoint/><geom type="box" size=".1 .1 .1"/></body>
    <body pos="0.05 0.02 0.31" euler="5 3 20"><freejoint/><geom type="box" size=".1 .08 .1"/></body>
    <body pos="0.5 0 0.1"><freejoint/><geom type="sphere" size=".1"/></body>
    <body pos="0.5 0.3 0.1"><freejoint/><geom type="capsule" size=".05 .1"/></body>
  </worldbody>
</mujoco>
"""


SPHERES_XML = """
<mujoco>
  <option timestep="0.00390625"/>
  <default><geom condim="CONDIM" friction="0.8 0.02 0.01"/></default>
  <worldbody>
    <geom type="plane" size="0 0 1"/>
    <body pos="0 0 0.095"><freejoint/><geom type="sphere" size=".1"/></body>
    <body pos="0.05 0.03 0.28"><freejoint/><geom type="sphere" size=".1"/></body>
    <body pos="0.4 0 0.098"><freejoint/><geom type="capsule" size=".1 .1" euler="0 90 0"/></body>
  </worldbody>
</mujoco>
"""


def _tree_xml(nchain, length):
  """One kinematic tree with 1 + nchain*length hinge dofs (> 64: sparse LDL region): a root link carrying nchain serial
  chains.  Trees built with the same product have the same nv but a different depth (number of elimination levels)."""
  out = ['<mujoco><option timestep="0.002"/><worldbody><body pos="0 0 2"><joint type="hinge" axis="0 1 0" armature="0.05"/>', '<geom type="sphere" size="0.05" mass="1" contype="0" conaffinity="0"/>']
  for c in range(nchain):
    for k in range(length):
      ax = ("1 0 0", "0 1 0", "0 0 1")[(c + k) % 3]
      out.append(f'<body pos="{0.05 if k else 0.1 * (c + 1)} {0.02 * c} -0.04"><joint type="hinge" axis="{ax}" armature="0.05" damping="0.05"/><geom type="capsule" size="0.01 0.02" mass="0.05" contype="0" conaffinity="0"/>')
    out.append("</body>" * length)
  out.append("</body></worldbody></mujoco>")
  return "".join(out)


def pool():
  import mujoco

  D = mujoco.mjtDisableBit
  E = mujoco.mjtEnableBit
  P = []
  P.append({"scene": {"kind": "xml", "xml": BOX_XML, "opt": {}}, "tag": "box:nativeccd"})
  P.append({"scene": {"kind": "xml", "xml": BOX_XML, "opt": {"disable": int(D.mjDSBL_NATIVECCD)}}, "tag": "box:nonativeccd"})
  P.append({"scene": {"kind": "xml", "xml": BOX_XML, "opt": {"disable": int(D.mjDSBL_MULTICCD)}}, "tag": "box:nomulticcd"})
  P.append({"scene": {"kind": "xml", "xml": BOX_XML, "opt": {"cone": "elliptic"}}, "tag": "box:elliptic"})
  P.append({"scene": {"kind": "repo", "path": "collision.xml", "opt": {}}, "tag": "collision"})
  P.append({"scene": {"kind": "repo", "path": "collision.xml", "opt": {"disable": int(D.mjDSBL_NATIVECCD)}}, "tag": "collision:nonativeccd"})
  P.append({"scene": {"kind": "repo", "path": "primitives.xml", "opt": {}}, "tag": "primitives"})
  P.append({"scene": {"kind": "repo", "path": "humanoid/humanoid.xml", "opt": {}}, "tag": "humanoid"})
  P.append({"scene": {"kind": "repo", "path": "humanoid/humanoid.xml", "opt": {"solver": "CG", "jacobian": "sparse"}}, "tag": "humanoid:cg:sparse"})
  P.append({"scene": {"kind": "repo", "path": "constraints.xml", "opt": {}}, "tag": "constraints"})
  P.append({"scene": {"kind": "repo", "path": "constraints.xml", "opt": {"jacobian": "sparse", "cone": "elliptic"}}, "tag": "constraints:sparse:elliptic"})
  P.append({"scene": {"kind": "repo", "path": "pendula.xml", "opt": {}}, "tag": "pendula"})
  P.append({"scene": {"kind": "repo", "path": "collision.xml", "opt": {}}, "model_opts": {"broadphase": 1}, "tag": "collision:sap_tile"})
  P.append({"scene": {"kind": "repo", "path": "collision.xml", "opt": {}}, "model_opts": {"broadphase": 2, "broadphase_filter": 5}, "tag": "collision:sap_seg:filter5"})
  P.append({"scene": {"kind": "repo", "path": "collision.xml", "opt": {}}, "model_opts": {"warn_overflow": False}, "caps": {"nconmax": 2, "njmax": 4}, "tag": "collision:starved:nowarn"})
  P.append({"scene": {"kind": "repo", "path": "humanoid/humanoid.xml", "opt": {}}, "caps": {"njmax": 48, "nconmax": 16}, "tag": "humanoid:njmax48"})
  # same structure, different maximum contact dimension (kernels specialised on nmaxcondim / cone / jacobian)
  for cd in (1, 3, 4, 6):
    xml = SPHERES_XML.replace("CONDIM", str(cd))
    P.append({"scene": {"kind": "xml", "xml": xml, "opt": {"cone": "elliptic", "jacobian": "sparse"}}, "tag": f"spheres:condim{cd}:elliptic:sparse"})
  P.append({"scene": {"kind": "xml", "xml": SPHERES_XML.replace("CONDIM", "6"), "opt": {"cone": "pyramidal", "jacobian": "dense"}}, "tag": "spheres:condim6:pyramidal:dense"})
  P.append({"scene": {"kind": "xml", "xml": SPHERES_XML.replace("CONDIM", "4"), "opt": {"cone": "elliptic", "jacobian": "dense", "solver": "CG"}}, "tag": "spheres:condim4:elliptic:dense:cg"})
  P.append({"scene": {"kind": "gen", "seed": 424277, "profile": "bigtree"}, "tag": "gen:bigtree"})
  # same nv (71), different tree depth: kernels specialised on more than nv must not be shared between them
  for nchain, length in ((10, 7), (7, 10), (2, 35)):
    P.append({"scene": {"kind": "xml", "xml": _tree_xml(nchain, length), "opt": {}}, "tag": f"tree71:depth{length}"})
  for s in range(6):
    P.append({"scene": {"kind": "gen", "seed": 424200 + s, "profile": ("full", "free", "joints")[s % 3]}, "tag": f"gen{s}"})
  P.append({"scene": {"kind": "gen", "seed": 424299, "profile": "free", "override": {"solvers": ("Newton",)}, "opt": {"enable": int(E.mjENBL_SLEEP)}}, "tag": "gen:sleep"})
  return P


# directed (target, program) pairs: configurations that differ from the target in exactly one specialisation argument
DIRECTED = [
  ("spheres:condim6:elliptic:sparse", ["spheres:condim4:elliptic:sparse"]),
  ("spheres:condim4:elliptic:sparse", ["spheres:condim6:elliptic:sparse", "spheres:condim3:elliptic:sparse"]),
  ("spheres:condim3:elliptic:sparse", ["spheres:condim1:elliptic:sparse", "spheres:condim6:elliptic:sparse"]),
  ("spheres:condim6:pyramidal:dense", ["spheres:condim4:elliptic:dense:cg", "spheres:condim6:elliptic:sparse"]),
  ("collision", ["collision:sap_tile", "collision:sap_seg:filter5", "collision:starved:nowarn"]),
  ("humanoid", ["humanoid:cg:sparse", "humanoid:njmax48", "gen:bigtree"]),
  ("constraints", ["constraints:sparse:elliptic", "gen:sleep"]),
  ("gen:bigtree", ["humanoid", "pendula"]),
  ("tree71:depth7", ["tree71:depth35"]),
  ("tree71:depth35", ["tree71:depth7", "tree71:depth10"]),
  ("tree71:depth10", ["tree71:depth7", "gen:bigtree"]),
]


def cases(tier, seed):
  P = pool()
  rng = np.random.default_rng(seed + 99)
  out = []
  n = 34 if tier == "quick" else 400
  for i in range(n):
    t = i % len(P)
    k = int(rng.integers(3, 6))
    prog = [int(x) for x in rng.choice(len(P), size=k, replace=False) if int(x) != t]
    # directed: the box scenes follow each other (NATIVECCD on after off and vice versa)
    if i < 4:
      t, prog = (0, [1, 5]) if i % 2 == 0 else (1, [0, 4])
    elif i < 4 + len(DIRECTED):
      tt, pp = DIRECTED[i - 4]
      tags = [x["tag"] for x in P]
      t, prog = tags.index(tt), [tags.index(x) for x in pp]
    out.append({"id": f"p{seed}_{i}", "target": t, "program": prog, "seed": seed * 1000 + i, "nworld": 1 + i % 2, "weight": 1})
  return out


def _child(spec):
  with tempfile.TemporaryDirectory(dir=os.path.join(core.VERIF, ".cache", "work")) as td:
    sp, op = os.path.join(td, "spec.json"), os.path.join(td, "out.json")
    with open(sp, "w") as f:
      json.dump(spec, f)
    env = dict(os.environ)
    env["OMP_NUM_THREADS"] = "1"
    r = subprocess.run([sys.executable, "-m", "mon.c36child", sp, op], cwd=core.VERIF, env=env, capture_output=True, text=True, timeout=900)
    if r.returncode != 0 or not os.path.exists(op):
      return {"error": f"rc={r.returncode}", "stderr": r.stderr[-1500:]}
    return json.load(open(op))


def run_case(case):
  rec = core.Rec(case)
  P = pool()

  def cfg(i):
    c = dict(P[i])
    c["nworld"] = case["nworld"]
    c["seed"] = case["seed"] * 7 + i
    return c

  target = cfg(case["target"])
  steps = 4
  alone = _child({"program": [], "target": target, "steps": steps, "verif": core.VERIF})
  after = _child({"program": [cfg(i) for i in case["program"]], "target": target, "steps": steps, "verif": core.VERIF})
  for name, r in (("alone", alone), ("after-program", after)):
    if "error" in r:
      # a crash of the library in the child is a finding of C17; here the case is not decided
      rec.inconcl(f"child {name} failed: {r['error']} {r.get('stderr', '')[-300:]}")
      return rec.result()
  if "error" in alone["target"]:
    rec.inconcl(f"target raises when run alone (C17's subject): {alone['target']['error']}")
    return rec.result()
  if "rejected" in alone["target"]:
    rec.rejected = alone["target"]["rejected"]
    return rec.result()
  rec.check()
  if "error" in after["target"]:
    et = after["target"]["error"].split(":")[0]
    rec.viol(f"target-raises-only-after-program:{et}", f"target runs alone but raises after the program: {after['target']['error']} ... {after['target'].get('where', '')[-300:]}; target={P[case['target']]['tag']} after program {[P[i]['tag'] for i in case['program']]}")
    return rec.result()
  if "rejected" in after["target"]:
    rec.viol("target-rejected-after-program", f"target accepted alone but rejected after program: {after['target']['rejected']}")
    return rec.result()
  ta, tb = alone["target"]["traj"], after["target"]["traj"]
  tag = f"target={P[case['target']]['tag']} after program {[P[i]['tag'] for i in case['program']]}"
  ncon = 0
  for t in range(steps):
    a, b = ta[t], tb[t]
    ncon += a["ncon"]
    rec.check()
    if a["ncon"] != b["ncon"] or a["contact_geom"] != b["contact_geom"]:
      rec.viol("contacts:count-or-pairs-depend-on-process-history", f"step {t}: {a['ncon']} contacts alone vs {b['ncon']} after program; {tag}; primitive dispatch list before target: {after['globals_before_target']}")
      break
    diff = [k for k in ("qpos", "qvel", "qacc", "sensordata", "nefc", "qfrc_constraint", "contacts") if a[k] != b[k]]
    if diff:
      # quantify
      k = diff[0]
      xa = np.frombuffer(bytes.fromhex(a[k]), dtype=np.float32 if k != "nefc" else np.int32)
      xb = np.frombuffer(bytes.fromhex(b[k]), dtype=np.float32 if k != "nefc" else np.int32)
      err = float(np.abs(xa.astype(np.float64) - xb.astype(np.float64)).max()) if xa.shape == xb.shape else float("inf")
      rec.viol(f"trajectory-depends-on-process-history:{k}", f"step {t}: fields {diff} differ (max |d{k}|={err:.3g}); {tag}")
      break
    rec.count("steps_bit_identical")
  # cache audit of the after-program process
  rec.check()
  for c in after["audit"]["collisions"]:
    rec.viol(f"cache-hit-with-different-arguments:{c['builder']}", f"kernel cache served a kernel built for other argument contents: {c}")
  rec.cover("cache_hits_audited", after["audit"]["hits"])
  rec.cover("cache_misses", after["audit"]["misses"])
  rec.cover("targets", P[case["target"]]["tag"])
  ran = sum(1 for x in after["program"] if x == "ran")
  rec.cover("program_entries_run", ran)
  for i in case["program"]:
    rec.cover("program_tags", P[i]["tag"])
  if ran >= 2 and (ncon > 0 or alone["target"]["nv"] > 0):
    rec.nontrivial(P[case["target"]]["tag"], str(case["program"]), case["nworld"])
  rec.sample = {"target": P[case["target"]]["tag"], "program": [P[i]["tag"] for i in case["program"]], "nworld": case["nworld"], "contacts_total": ncon, "cache_hits_audited": after["audit"]["hits"]}
  return rec.result()


def requirements(agg, tier):
  unmet = []
  if agg["tally"].get("steps_bit_identical", 0) < 60:
    unmet.append("fewer than 60 target steps compared bit-identical")
  if agg["cover"].get("cache_hits_audited", 0) < 200:
    unmet.append("cache audit saw fewer than 200 cache hits")
  if len(agg["cover"].get("targets", [])) < 12:
    unmet.append("fewer than 12 distinct target configurations")
  return unmet
