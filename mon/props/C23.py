"""C23 Rotations stay valid.

Invariant monitor at the step boundary of multi-step runs: after every observed step (every step at the start of a run,
then every k-th), for every world whose state is still finite and bounded,
  * free / ball quaternions in qpos have | |q| - 1 | <= 1e-5,
  * xquat is unit (1e-5) and xmat, ximat, geom_xmat, site_xmat, cam_xmat satisfy max|R^T R - I| <= 1e-4 and det R > 0.
Runs: all four integrators, timesteps 1e-4..0.05, |omega| up to 1e3 rad/s, unnormalised (scale e^-2.3..e^2.3), tiny
(1e-6..1e-18) and float32-underflowing (1e-30) initial quaternions incl. mocap quaternions, horizons 200 (quick) to
20000 (thorough) steps.
"""

import mujoco
import numpy as np

from mon import core, gen, mw
from mon.props import _step

ID = "C23"
LEVEL = "exploration"
RULE = (
  "case=(seed,integrator,timestep,horizon): generated tree biased to free and ball joints (also hinge/slide, several joints "
  "per body, mocap bodies, sites, cameras in all tracking modes, springs/dampers/actuators, no contacts) or free bodies "
  "bouncing on a plane; 4 worlds = {unit quats & |omega|~3, unnormalised & |omega|~30, tiny quats & |omega|~300, "
  "unnormalised & |omega| up to 1e3}; plus an 'underflow' class (|q|=1e-30). Non-trivial: >=1 free or ball joint and >=50 "
  "judged steps; distinct by hash(xml, integrator, timestep, states)."
)
ASSUMPTIONS = [
  "a world is judged only while its qvel is finite and below 1e6 and its qpos finite-or-not is attributable: once qvel "
  "leaves that range the run is counted 'diverged' (explicit integration with huge h*omega) and judged no further",
  "bounded horizon: 200 steps (quick), up to 20000 steps (thorough); invariants sampled every step for the first 20 steps, "
  "then every 10th (quick) / 100th (thorough) step and at the last step",
  "tolerances 1e-5 on quaternion norms and 1e-4 on R^T R - I are 100x / 1000x float32 epsilon",
  "a quaternion whose squared norm underflows float32 (|q|<=1e-23) cannot be normalised in float32; it is exercised and "
  "reported under its own signature prefix 'underflow:' (MuJoCo float64 replaces |q|<1e-15 by the identity)",
]
BUDGET = {"quick": 240, "thorough": 1500}

INTEGRATORS = ("Euler", "implicitfast", "implicit", "RK4")
INT_ENUM = {"Euler": 0, "RK4": 1, "implicit": 2, "implicitfast": 3}
TIMESTEPS = (1e-4, 1e-3, 0.00390625, 0.01, 0.05)

QTOL = 1e-5
RTOL = 1e-4

P_ROT = gen.profile(
  nbody=(1, 6),
  p_free=0.6,
  p_ball=0.45,
  p_multi=0.3,
  p_mocap=0.25,
  p_camlight=0.5,
  p_site=0.8,
  p_spring=0.3,
  p_damping=0.4,
  p_armature=0.3,
  tendon_fixed=0.2,
  actuators=2,
  act_kinds=("motor", "position", "general"),
  act_ball=False,
  p_massless=0.1,
)
P_BOUNCE = gen.profile(
  nbody=(1, 4),
  p_free=1.0,
  p_ball=0.3,
  p_plane=1.0,
  collide=True,
  geoms=("sphere", "capsule", "box", "ellipsoid"),
  p_site=0.6,
  p_camlight=0.3,
)


def cases(tier, seed):
  out = []
  n = 40 if tier == "quick" else 160
  for i in range(n):
    integ = INTEGRATORS[i % 4]
    ts = TIMESTEPS[(i // 4) % 5]
    kind = "bounce" if i % 9 == 8 else "rot"
    if tier == "quick":
      horizon = 200
    else:
      horizon = (2000, 500, 500, 20000, 500, 2000, 500, 500)[(i * 3 + i // 8 + i // 40) % 8]  # mixes with integrator / timestep
    out.append({"id": f"{kind}{seed}_{i}", "kind": kind, "seed": seed * 100000 + i, "integrator": integ, "timestep": ts, "horizon": horizon, "underflow": int(i % 4 == 1), "weight": max(1, horizon // 200) * (2 if integ == "RK4" else 1)})
  return out


def has_rot(mjm):
  return bool(np.any((mjm.jnt_type == mujoco.mjtJoint.mjJNT_FREE) | (mjm.jnt_type == mujoco.mjtJoint.mjJNT_BALL)))


def make_states(mjm, rng, underflow):
  qs, _ = _step.quat_slots(mjm)
  states = []
  classes = []
  for w in range(4):
    omega = (3.0, 30.0, 300.0, float(rng.choice([100.0, 1000.0])))[w]
    st = gen.sample_state(mjm, rng, vel=1.0, quat_scale=(w in (1, 3)))
    qp = st["qpos"].astype(np.float64)
    qv = st["qvel"].astype(np.float64)
    cls = ("unit", "unnormalised", "tiny", "unnormalised")[w]
    if w == 2:
      for a in qs:
        q = rng.normal(size=4)
        q /= np.linalg.norm(q)
        qp[a : a + 4] = q * 10.0 ** float(rng.choice([-6, -12, -18]))
    if underflow and w == 3:
      cls = "underflow"
      for a in qs:
        q = rng.normal(size=4)
        q /= np.linalg.norm(q)
        qp[a : a + 4] = q * 1e-30
    # angular velocities of the chosen magnitude on rotational dofs
    for j in range(mjm.njnt):
      a = int(mjm.jnt_dofadr[j])
      if mjm.jnt_type[j] == mujoco.mjtJoint.mjJNT_FREE:
        v = rng.normal(size=3)
        qv[a + 3 : a + 6] = v / np.linalg.norm(v) * omega * rng.uniform(0.3, 1.0)
      elif mjm.jnt_type[j] == mujoco.mjtJoint.mjJNT_BALL:
        v = rng.normal(size=3)
        qv[a : a + 3] = v / np.linalg.norm(v) * omega * rng.uniform(0.3, 1.0)
    st["qpos"] = qp.astype(np.float32)
    st["qvel"] = qv.astype(np.float32)
    if mjm.nmocap and w == 2:
      st["mocap_quat"] = (st["mocap_quat"] * 1e-6).astype(np.float32)
    states.append(st)
    classes.append(cls)
  return states, classes


def rot_defect(R):
  """(max |R^T R - I|, min det) over an array (..., 3, 3); NaN-safe (NaN -> inf)."""
  R = np.asarray(R, dtype=np.float64).reshape(-1, 3, 3)
  if R.size == 0:
    return 0.0, 1.0
  if not np.all(np.isfinite(R)):
    return float("inf"), float("-inf")
  e = np.abs(np.einsum("nij,nik->njk", R, R) - np.eye(3)).max()
  return float(e), float(np.linalg.det(R).min())


def run_case(case):
  import mujoco_warp as mjw

  rec = core.Rec(case)
  rng = np.random.default_rng(case["seed"])
  P = P_ROT if case["kind"] == "rot" else P_BOUNCE
  xml, mjm, feat, _ = gen.make_model(case["seed"], P, accept=lambda mm: has_rot(mm) and _step.well_conditioned(mm))
  if mjm is None:
    rec.rejected = "no model with free/ball joints"
    return rec.result()
  mjm.opt.integrator = INT_ENUM[case["integrator"]]
  mjm.opt.timestep = case["timestep"]
  try:
    m = mw.put_model(mjm)
  except (NotImplementedError, ValueError) as e:
    rec.rejected = f"put_model: {e}"[:200]
    return rec.result()
  states, classes = make_states(mjm, rng, case["underflow"])
  nworld = len(states)
  d = mw.make_data(mjm, m, states)
  qs, _ = _step.quat_slots(mjm)
  horizon = case["horizon"]
  stride = 10 if horizon <= 200 else 100
  alive = np.ones(nworld, dtype=bool)
  judged = np.zeros(nworld, dtype=int)
  mats = [k for k in ("xmat", "ximat", "geom_xmat", "site_xmat", "cam_xmat") if getattr(d, k).shape[1] > 0]
  worst = {}
  reported = set()
  steps_done = 0
  for k in range(horizon):
    mjw.step(m, d)
    steps_done = k + 1
    if not (k < 20 or (k + 1) % stride == 0 or k == horizon - 1):
      continue
    qvel = mw.npy(d.qvel)
    qpos = mw.npy(d.qpos)
    xquat = mw.npy(d.xquat)
    M = {name: mw.npy(getattr(d, name)) for name in mats}
    for w in range(nworld):
      if not alive[w]:
        continue
      v = qvel[w]
      if not np.all(np.isfinite(v)) or np.abs(v).max(initial=0) > 1e6:
        alive[w] = False
        rec.count("worlds_diverged")
        rec.count(f"diverged:{case['integrator']}:h={case['timestep']}")
        continue
      pre = "underflow:" if classes[w] == "underflow" else ""
      judged[w] += 1
      # qpos quaternions
      rec.check()
      qn = np.array([np.linalg.norm(qpos[w][a : a + 4].astype(np.float64)) for a in qs])
      e = float(np.abs(qn - 1).max()) if np.all(np.isfinite(qn)) else float("inf")
      worst["qpos_quat_norm"] = max(worst.get("qpos_quat_norm", 0), e / QTOL) if not pre else worst.get("qpos_quat_norm", 0)
      if e > QTOL and (pre + "qpos") not in reported:
        reported.add(pre + "qpos")
        rec.viol(pre + "qpos_quat_not_unit", f"free/ball quaternion norm deviates by {e:.3g} after step {k + 1} (world {w}, class {classes[w]}, {case['integrator']}, h={case['timestep']})", step=k + 1, norms=qn[:6], qvel=v[:6])
      # xquat
      rec.check()
      xn = np.linalg.norm(xquat[w].astype(np.float64), axis=-1)[1:]
      e = float(np.abs(xn - 1).max(initial=0)) if np.all(np.isfinite(xn)) else float("inf")
      if not pre:
        worst["xquat_norm"] = max(worst.get("xquat_norm", 0), e / QTOL)
      if e > QTOL and (pre + "xquat") not in reported:
        reported.add(pre + "xquat")
        rec.viol(pre + "xquat_not_unit", f"xquat norm deviates by {e:.3g} at step {k + 1} (world {w}, class {classes[w]})", step=k + 1)
      for name in mats:
        rec.check()
        arr = M[name][w]
        if name == "xmat" or name == "ximat":
          arr = arr[1:]
        e, det = rot_defect(arr)
        if not pre:
          worst[name] = max(worst.get(name, 0), e / RTOL)
        if (e > RTOL or det <= 0) and (pre + name) not in reported:
          reported.add(pre + name)
          rec.viol(pre + f"{name}_not_rotation", f"{name}: max|R^T R - I|={e:.3g}, min det={det:.3g} at step {k + 1} (world {w}, class {classes[w]}, {case['integrator']}, h={case['timestep']})", step=k + 1)
    if not alive.any():
      break
  for name, r in worst.items():
    rec.worst(name, r)
  integ = case["integrator"]
  tot = int(judged.sum())
  rec.cover("judged_world_steps", tot)
  rec.cover("judged_world_steps:" + integ, tot)
  rec.cover(f"judged_world_steps:h={case['timestep']}", tot)
  rec.cover("steps_run", steps_done * nworld)
  rec.cover("max_horizon_reached", [str(steps_done)] if steps_done >= horizon else [])
  for w in range(nworld):
    rec.cover("class:" + classes[w], int(judged[w]))
  rec.cover("worlds_survived_horizon", int(alive.sum()))
  for f in feat:
    if f.startswith(("joint:", "camlight:", "mocap")):
      rec.cover("features", f)
  for name in mats:
    rec.cover("matrices", name)
  if steps_done >= horizon and alive.any():
    rec.cover(f"horizon>={horizon}", 1)
  if tot >= 50:
    rec.nontrivial(xml, integ, case["timestep"], *[s["qpos"] for s in states], *[s["qvel"] for s in states])
  rec.sample = {"kind": case["kind"], "integrator": integ, "timestep": case["timestep"], "horizon": horizon, "nv": mjm.nv, "nq": mjm.nq, "n_quat": len(qs), "classes": classes, "judged_steps_per_world": judged.tolist(), "alive_at_end": alive.tolist(), "omega_world3": float(np.abs(states[3]["qvel"]).max())}
  return rec.result()


def requirements(agg, tier):
  unmet = []
  cov = agg["cover"]
  for integ in INTEGRATORS:
    if cov.get("judged_world_steps:" + integ, 0) < 300:
      unmet.append(f"fewer than 300 judged world-steps for {integ}")
  for ts in TIMESTEPS:
    if cov.get(f"judged_world_steps:h={ts}", 0) < 100:
      unmet.append(f"fewer than 100 judged world-steps at timestep {ts}")
  for c in ("unit", "unnormalised", "tiny", "underflow"):
    if cov.get("class:" + c, 0) < 50:
      unmet.append(f"fewer than 50 judged world-steps for initial-quaternion class {c}")
  for f in ("joint:free", "joint:ball", "mocap"):
    if f not in cov.get("features", []):
      unmet.append(f"feature never exercised: {f}")
  for mname in ("xmat", "ximat", "geom_xmat", "site_xmat", "cam_xmat"):
    if mname not in cov.get("matrices", []):
      unmet.append(f"matrix field never observed: {mname}")
  need = "horizon>=200" if tier == "quick" else "horizon>=20000"
  if not cov.get(need):
    unmet.append(f"no run survived the full horizon ({need})")
  if agg["distinct"] < 20:
    unmet.append("fewer than 20 distinct non-trivial cases")
  return unmet
