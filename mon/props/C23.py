"""C23 Rotations stay valid.

Invariant monitor at the step boundary of multi-step runs: after every observed step (every step at the start of a run,
then every k-th), for every world whose state is still finite and bounded,
  * free / ball quaternions in qpos have | |q| - 1 | <= 1e-5,
  * xquat is unit (1e-5) and xmat, ximat, geom_xmat, site_xmat, cam_xmat satisfy max|R^T R - I| <= 1e-4 and det R > 0.
Runs: all four integrators, timesteps 1e-4..0.05, |omega| up to 1e3 rad/s, unnormalised (scale e^-2.3..e^2.3), tiny
(1e-6..1e-18) and float32-underflowing (1e-30) initial quaternions incl. mocap quaternions, horizons 200 (quick) to
20000 (thorough) steps.
'still' family (degenerate motion): gravity off, no springs / actuators / applied forces / contacts, and angular velocities
that are exactly zero, float32 denormals, below mjMINVAL=1e-15 or merely slow (1e-14..1), with free, ball and mocap
quaternions that are scaled (e^+-2.3), nearly unit (1 +- 1e-2..2e-4), tiny (1e-6..1e-18), huge (1e3..9e9, the largest
qpos MuJoCo accepts) or underflowing (1e-30, exactly 0); fresh non-unit states are written into the same Data every 3
steps (set_world_states), so every round integrates a non-unit quaternion with a degenerate velocity; every world is
judged after every step (there is no motion that could excuse a divergence).
"""

import mujoco
import numpy as np

from mon import core, gen, mw
from mon.props import _step

ID = "C23"
LEVEL = "exploration"
RULE = (
  "case=(seed,integrator,timestep,horizon): generated tree biased to free and ball joints (also hinge/slide, several joints "
  "per body, mocap bodies, sites, cameras in all tracking modes, springs/dampers/actuators, no contacts) or free bodies "
  "bouncing on a plane; 4 worlds = {unit quats & |omega|~3, unnormalised & |omega|~30, tiny quats & |omega|~300, "
  "unnormalised & |omega| up to 1e3}; plus an 'underflow' class (|q|=1e-30). Non-trivial: >=1 free or ball joint and >=50 "
  "judged steps; distinct by hash(xml, integrator, timestep, states). "
  "case kind 'still'=(seed,integrator,timestep,rounds x steps): generated tree (free/ball/hinge/slide, mocap, sites, cameras; "
  "no springs/actuators/tendons, gravity 0, contacts off) with 7 worlds = angular-velocity class {exactly 0, linear only, "
  "float32 denormal, <1e-15, slow 1e-14..1, drawn per joint} x per-joint quaternion class {scaled, nearly unit, tiny, huge}, "
  "plus a |q|^2-underflowing world; new states every round. Non-trivial: >=10 measured (world, joint, step) triples "
  "whose input quaternion was non-unit and whose angular velocity before and after the step was <1e-15."
)
ASSUMPTIONS = [
  "a world is judged only while its qvel is finite and below 1e6 and its qpos finite-or-not is attributable: once qvel "
  "leaves that range the run is counted 'diverged' (explicit integration with huge h*omega) and judged no further",
  "bounded horizon: 200 steps (quick), up to 20000 steps (thorough); invariants sampled every step for the first 20 steps, "
  "then every 10th (quick) / 100th (thorough) step and at the last step",
  "tolerances 1e-5 on quaternion norms and 1e-4 on R^T R - I are 100x / 1000x float32 epsilon",
  "a quaternion whose squared norm underflows float32 (|q|<=1e-23) cannot be normalised in float32; it is exercised and "
  "reported under its own signature prefix 'underflow:' (MuJoCo float64 replaces |q|<1e-15 by the identity)",
  "quaternion components stay below mjMAXVAL=1e10: MuJoCo's mj_checkPos declares a state with a larger |qpos| invalid "
  "(warning BADQPOS, automatic reset), so such states are outside the accepted domain and are not generated (measured: "
  "MJWarp returns a zero xquat / NaN qvel once |q|^2 exceeds FLT_MAX, |q|>=1.9e19)",
  "'still' family: stillness is measured, not assumed: a (world, joint, step) counts as degenerate only if the joint's "
  "angular velocity read back before and after the step is below 1e-15",
]
BUDGET = {"quick": 240, "thorough": 1500}

INTEGRATORS = ("Euler", "implicitfast", "implicit", "RK4")
INT_ENUM = {"Euler": 0, "RK4": 1, "implicit": 2, "implicitfast": 3}
TIMESTEPS = (1e-4, 1e-3, 0.00390625, 0.01, 0.05)

QTOL = 1e-5
RTOL = 1e-4

P_ROT = gen.profile(
  nbody=(1, 6),
  p_free=0.6,
  p_ball=0.45,
  p_multi=0.3,
  p_mocap=0.25,
  p_camlight=0.5,
  p_site=0.8,
  p_spring=0.3,
  p_damping=0.4,
  p_armature=0.3,
  tendon_fixed=0.2,
  actuators=2,
  act_kinds=("motor", "position", "general"),
  act_ball=False,
  p_massless=0.1,
)
# nothing that could set a still body in motion: no springs, actuators or tendons (gravity is switched off after compile)
P_STILL = gen.profile(
  nbody=(1, 6),
  p_free=0.6,
  p_ball=0.5,
  p_multi=0.3,
  p_mocap=0.3,
  p_camlight=0.5,
  p_site=0.8,
  p_spring=0.0,
  p_damping=0.4,
  p_armature=0.3,
  p_massless=0.1,
)
P_BOUNCE = gen.profile(
  nbody=(1, 4),
  p_free=1.0,
  p_ball=0.3,
  p_plane=1.0,
  collide=True,
  geoms=("sphere", "capsule", "box", "ellipsoid"),
  p_site=0.6,
  p_camlight=0.3,
)


def cases(tier, seed):
  out = []
  n = 40 if tier == "quick" else 160
  for i in range(n):
    integ = INTEGRATORS[i % 4]
    ts = TIMESTEPS[(i // 4) % 5]
    kind = "bounce" if i % 9 == 8 else "rot"
    if tier == "quick":
      horizon = 200
    else:
      horizon = (2000, 500, 500, 20000, 500, 2000, 500, 500)[(i * 3 + i // 8 + i // 40) % 8]  # mixes with integrator / timestep
    out.append({"id": f"{kind}{seed}_{i}", "kind": kind, "seed": seed * 100000 + i, "integrator": integ, "timestep": ts, "horizon": horizon, "underflow": int(i % 4 == 1), "weight": max(1, horizon // 200) * (2 if integ == "RK4" else 1)})
  # 'still' family: non-rotating bodies with non-unit quaternions, re-injected every round
  # Scheduling: the runner hands each worker its cases heaviest-declared-weight first and stops starting cases when the
  # budget expires. A still case costs about as much as a 200-step run, but is declared just above every other weight so
  # that it runs first in every worker and is never what an expired budget drops; 16 / 48 cases divide the usual worker
  # counts (2,3,4,6,8,12,16 for 48), so every worker gets the same number and the balance of the rest is unaffected.
  ns = 16 if tier == "quick" else 48
  still = []
  for i in range(ns):
    integ = INTEGRATORS[i % 4]
    ts = TIMESTEPS[(i // 4 + i) % 5]
    rounds, steps = (6, 3) if tier == "quick" else (20, 3)
    tail = 0 if tier == "quick" else (300 if i % 4 == i // 4 % 4 else 0)
    still.append({"id": f"still{seed}_{i}", "kind": "still", "seed": seed * 100000 + 50000 + i, "integrator": integ, "timestep": ts, "rounds": rounds, "steps": steps, "tail": tail, "nocontact": int(i % 3 == 0), "weight": 3 if tier == "quick" else 201})
  # interleave, so that --limit N (first N cases) sees both families
  merged = []
  for i in range(max(len(out), len(still))):
    if i < len(still):
      merged.append(still[i])
    if i < len(out):
      merged.append(out[i])
  return merged


def has_rot(mjm):
  return bool(np.any((mjm.jnt_type == mujoco.mjtJoint.mjJNT_FREE) | (mjm.jnt_type == mujoco.mjtJoint.mjJNT_BALL)))


def make_states(mjm, rng, underflow):
  qs, _ = _step.quat_slots(mjm)
  states = []
  classes = []
  for w in range(4):
    omega = (3.0, 30.0, 300.0, float(rng.choice([100.0, 1000.0])))[w]
    st = gen.sample_state(mjm, rng, vel=1.0, quat_scale=(w in (1, 3)))
    qp = st["qpos"].astype(np.float64)
    qv = st["qvel"].astype(np.float64)
    cls = ("unit", "unnormalised", "tiny", "unnormalised")[w]
    if w == 2:
      for a in qs:
        q = rng.normal(size=4)
        q /= np.linalg.norm(q)
        qp[a : a + 4] = q * 10.0 ** float(rng.choice([-6, -12, -18]))
    if underflow and w == 3:
      cls = "underflow"
      for a in qs:
        q = rng.normal(size=4)
        q /= np.linalg.norm(q)
        qp[a : a + 4] = q * 1e-30
    # angular velocities of the chosen magnitude on rotational dofs
    for j in range(mjm.njnt):
      a = int(mjm.jnt_dofadr[j])
      if mjm.jnt_type[j] == mujoco.mjtJoint.mjJNT_FREE:
        v = rng.normal(size=3)
        qv[a + 3 : a + 6] = v / np.linalg.norm(v) * omega * rng.uniform(0.3, 1.0)
      elif mjm.jnt_type[j] == mujoco.mjtJoint.mjJNT_BALL:
        v = rng.normal(size=3)
        qv[a : a + 3] = v / np.linalg.norm(v) * omega * rng.uniform(0.3, 1.0)
    st["qpos"] = qp.astype(np.float32)
    st["qvel"] = qv.astype(np.float32)
    if mjm.nmocap and w == 2:
      st["mocap_quat"] = (st["mocap_quat"] * 1e-6).astype(np.float32)
    states.append(st)
    classes.append(cls)
  return states, classes


def rot_defect(R):
  """(max |R^T R - I|, min det) over an array (..., 3, 3); NaN-safe (NaN -> inf)."""
  R = np.asarray(R, dtype=np.float64).reshape(-1, 3, 3)
  if R.size == 0:
    return 0.0, 1.0
  if not np.all(np.isfinite(R)):
    return float("inf"), float("-inf")
  e = np.abs(np.einsum("nij,nik->njk", R, R) - np.eye(3)).max()
  return float(e), float(np.linalg.det(R).min())


# ----------------------------------------------------------------------------------- 'still' family (degenerate motion)
#
# Bodies that do not rotate: the angular velocity used for the position update is exactly zero, a float32 denormal, below
# mjMINVAL (1e-15), or merely small, while the quaternion that is integrated is not unit (scaled, nearly unit, tiny, huge).
# Nothing may be skipped on that path: qpos must still come back normalised.  Gravity is off, there are no springs,
# actuators, applied forces or contacts, so a body that starts still stays still; stillness is nevertheless MEASURED per
# (world, joint, step) from qvel before and after the step and only measured observations feed the coverage counters.

FLT_MIN = 1.1754944e-38  # smallest normal float32
MINVAL = 1e-15  # mjMINVAL
W_BUCKETS = ("zero", "denormal", "lt_minval", "lt_1e-6", "lt_1e-3")  # 'degenerate' = the first three
Q_CLASSES = ("unnormalised", "near_unit", "tiny", "huge")

# (angular-velocity class, quaternion class) of the worlds of a 'still' case
STILL_WORLDS = (
  ("zero", "mix"),
  ("lin", "mix"),
  ("denormal", "mix"),
  ("lt_minval", "mix"),
  ("slow", "mix"),
  ("zero", "underflow"),
  ("per_joint", "mix"),  # every joint draws its own angular-velocity class: still and moving joints side by side
)


def _unit(rng, n):
  v = rng.normal(size=n)
  return v / np.linalg.norm(v)


def _mix_scale(rng):
  """(class, scale) of one non-unit quaternion that float32 can still normalise."""
  c = Q_CLASSES[int(rng.integers(len(Q_CLASSES)))]
  if c == "unnormalised":
    s = float(np.exp(rng.uniform(-2.3, 2.3)))
    if abs(s - 1) < 1e-2:
      s = 1.5
  elif c == "near_unit":
    s = 1.0 + float(rng.choice([-1.0, 1.0])) * 10.0 ** float(rng.choice([-2, -3, -3.7]))
  elif c == "tiny":
    s = 10.0 ** float(rng.choice([-6, -12, -18]))
  else:
    s = float(rng.choice([1e3, 1e6, 9e9]))  # components stay below mjMAXVAL = 1e10
  return c, s


def _class_scale(rng, qclass):
  if qclass == "underflow":
    return "underflow", float(rng.choice([1e-30, 1e-30, 0.0]))  # exact zero too
  return _mix_scale(rng)


def _omega_mag(rng, wclass):
  if wclass == "per_joint":
    wclass = ("zero", "denormal", "lt_minval", "slow", "fast")[int(rng.integers(5))]
  if wclass == "fast":
    return float(rng.uniform(1.0, 30.0))
  if wclass in ("zero", "lin"):
    return 0.0
  if wclass == "denormal":
    return 10.0 ** -float(rng.uniform(38.3, 44.0))
  if wclass == "lt_minval":
    return 10.0 ** -float(rng.uniform(15.3, 37.0))
  return 10.0 ** -float(rng.uniform(0.0, 14.7))  # slow


def make_still_states(mjm, rng):
  """One state per STILL_WORLDS entry; returns (states, per-world list of quaternion classes per slot)."""
  qs, _ = _step.quat_slots(mjm)
  states, qcls = [], []
  for wclass, qclass in STILL_WORLDS:
    st = gen.sample_state(mjm, rng, vel=0.0, quat_scale=False, applied=False)
    qp = st["qpos"].astype(np.float64)
    qv = np.zeros(mjm.nv)
    cls = []
    for a in qs:
      c, s = _class_scale(rng, qclass)
      qp[a : a + 4] = _unit(rng, 4) * s
      cls.append(c)
    for j in range(mjm.njnt):
      a = int(mjm.jnt_dofadr[j])
      t = mjm.jnt_type[j]
      if t == mujoco.mjtJoint.mjJNT_FREE:
        if wclass == "lin":
          qv[a : a + 3] = rng.normal(size=3) * 0.5
        else:
          qv[a : a + 3] = _unit(rng, 3) * _omega_mag(rng, wclass)
        qv[a + 3 : a + 6] = _unit(rng, 3) * _omega_mag(rng, wclass)
      elif t == mujoco.mjtJoint.mjJNT_BALL:
        qv[a : a + 3] = _unit(rng, 3) * _omega_mag(rng, wclass)
      else:
        qv[a] = float(rng.choice([-1.0, 1.0])) * _omega_mag(rng, wclass)
    with np.errstate(all="ignore"):
      st["qpos"] = qp.astype(np.float32)
      st["qvel"] = qv.astype(np.float32)
      mq = np.zeros((mjm.nmocap, 4))
      for i in range(mjm.nmocap):
        _, s = _class_scale(rng, qclass)
        mq[i] = _unit(rng, 4) * s
      st["mocap_quat"] = mq.astype(np.float32)
    st["ctrl"] = np.zeros(mjm.nu, np.float32)
    st["qacc_warmstart"] = np.zeros(mjm.nv, np.float32)
    states.append(st)
    qcls.append(cls)
  return states, qcls


def w_bucket(w0, w1):
  w = max(w0, w1)
  if not np.isfinite(w):
    return "nonfinite"
  if w == 0.0:
    return "zero"
  if w < FLT_MIN:
    return "denormal"
  if w < MINVAL:
    return "lt_minval"
  if w < 1e-6:
    return "lt_1e-6"
  if w < 1e-3:
    return "lt_1e-3"
  return "moving"


def judge_world(rec, case, k, w, cls, pre, qpos_w, xquat_w, M_w, qs, mats, worst, reported, extra=""):
  """The invariants of one world after step k+1; `pre` is the signature prefix of the world's class."""
  track = not pre

  def sig(base):
    return pre + base

  where = f"world {w}, class {cls}{extra}, {case['integrator']}, h={case['timestep']}"
  # qpos quaternions
  rec.check()
  qn = np.array([np.linalg.norm(qpos_w[a : a + 4].astype(np.float64)) for a in qs])
  e = float(np.abs(qn - 1).max()) if np.all(np.isfinite(qn)) else float("inf")
  if track:
    worst["qpos_quat_norm"] = max(worst.get("qpos_quat_norm", 0), e / QTOL)
  if e > QTOL and (pre + "qpos") not in reported:
    reported.add(pre + "qpos")
    rec.viol(sig("qpos_quat_not_unit"), f"free/ball quaternion norm deviates by {e:.3g} after step {k + 1} ({where})", step=k + 1, norms=qn[:6])
  # xquat
  rec.check()
  xn = np.linalg.norm(xquat_w.astype(np.float64), axis=-1)[1:]
  e = float(np.abs(xn - 1).max(initial=0)) if np.all(np.isfinite(xn)) else float("inf")
  if track:
    worst["xquat_norm"] = max(worst.get("xquat_norm", 0), e / QTOL)
  if e > QTOL and (pre + "xquat") not in reported:
    reported.add(pre + "xquat")
    rec.viol(sig("xquat_not_unit"), f"xquat norm deviates by {e:.3g} at step {k + 1} ({where})", step=k + 1)
  for name in mats:
    rec.check()
    arr = M_w[name]
    if name == "xmat" or name == "ximat":
      arr = arr[1:]
    e, det = rot_defect(arr)
    if track:
      worst[name] = max(worst.get(name, 0), e / RTOL)
    if (e > RTOL or det <= 0) and (pre + name) not in reported:
      reported.add(pre + name)
      rec.viol(sig(f"{name}_not_rotation"), f"{name}: max|R^T R - I|={e:.3g}, min det={det:.3g} at step {k + 1} ({where})", step=k + 1)


def run_still(case):
  import mujoco_warp as mjw

  rec = core.Rec(case)
  rng = np.random.default_rng(case["seed"])
  xml, mjm, feat, _ = gen.make_model(case["seed"], P_STILL, accept=lambda mm: has_rot(mm) and _step.well_conditioned(mm))
  if mjm is None:
    rec.rejected = "no model with free/ball joints"
    return rec.result()
  integ = case["integrator"]
  mjm.opt.integrator = INT_ENUM[integ]
  mjm.opt.timestep = case["timestep"]
  mjm.opt.gravity[:] = 0.0
  mjm.opt.wind[:] = 0.0
  mjm.jnt_stiffness[:] = 0.0
  if case.get("nocontact"):
    mjm.opt.disableflags |= int(mujoco.mjtDisableBit.mjDSBL_CONTACT)
  try:
    m = mw.put_model(mjm)
  except (NotImplementedError, ValueError) as e:
    rec.rejected = f"put_model: {e}"[:200]
    return rec.result()
  qs, _ = _step.quat_slots(mjm)
  # (qpos address of the quaternion, address of its 3 angular dofs, joint type) per slot, same order as quat_slots
  slots = []
  for j in range(mjm.njnt):
    t = mjm.jnt_type[j]
    if t == mujoco.mjtJoint.mjJNT_FREE:
      slots.append((int(mjm.jnt_qposadr[j]) + 3, int(mjm.jnt_dofadr[j]) + 3, "free"))
    elif t == mujoco.mjtJoint.mjJNT_BALL:
      slots.append((int(mjm.jnt_qposadr[j]), int(mjm.jnt_dofadr[j]), "ball"))
  assert [s[0] for s in slots] == list(qs)
  nworld = len(STILL_WORLDS)
  worst, reported = {}, set()
  judged = 0
  deg_nonunit = 0
  d = None
  mats = []
  plan = [case["steps"]] * case["rounds"] + ([case["tail"]] if case.get("tail") else [])
  stride = 25
  for r, nstep in enumerate(plan):
    states, qcls = make_still_states(mjm, rng)
    if d is None:
      d = mw.make_data(mjm, m, states)
      mats = [k for k in ("xmat", "ximat", "geom_xmat", "site_xmat", "cam_xmat") if getattr(d, k).shape[1] > 0]
    else:
      mw.set_world_states(m, d, states)
    qpos_in = np.array(mw.npy(d.qpos))
    qvel_in = np.array(mw.npy(d.qvel))
    mocap_in = np.array(mw.npy(d.mocap_quat)).reshape(nworld, -1, 4)
    for w in range(nworld):
      if STILL_WORLDS[w][1] == "mix" and mocap_in.shape[1]:
        mn = np.linalg.norm(mocap_in[w].astype(np.float64), axis=-1)
        rec.cover("still:mocap_quat_nonunit_in", int((np.abs(mn - 1) > 1e-4).sum()))
    for k in range(nstep):
      mjw.step(m, d)
      qpos = np.array(mw.npy(d.qpos))
      qvel = np.array(mw.npy(d.qvel))
      observe = k < 5 or (k + 1) % stride == 0 or k == nstep - 1
      # measured stillness per (world, quaternion slot) of this step; inputs are qpos_in / qvel_in
      for w in range(nworld):
        wclass, qclass = STILL_WORLDS[w]
        for i, (qa, da, jt) in enumerate(slots):
          n_in = float(np.linalg.norm(qpos_in[w][qa : qa + 4].astype(np.float64)))
          nonunit = (not np.isfinite(n_in)) or abs(n_in - 1) > 1e-4
          if not nonunit:
            continue
          w_in = float(np.linalg.norm(qvel_in[w][da : da + 3].astype(np.float64)))
          if qclass != "mix":
            rec.cover(f"still:{qclass}:{w_bucket(w_in, w_in)}", 1)  # the step itself may produce NaN velocities here
            continue
          b = w_bucket(w_in, float(np.linalg.norm(qvel[w][da : da + 3].astype(np.float64))))
          rec.cover(f"still:{jt}:{b}:nonunit_in", 1)
          if b in W_BUCKETS[:3]:
            deg_nonunit += 1
            rec.cover(f"still:{integ}:degenerate_nonunit_in", 1)
            rec.cover(f"still:qclass:{qcls[w][i]}:degenerate", 1)
      if observe:
        xquat = mw.npy(d.xquat)
        M = {name: mw.npy(getattr(d, name)) for name in mats}
        for w in range(nworld):
          wclass, qclass = STILL_WORLDS[w]
          pre = "" if qclass == "mix" else qclass + ":"
          judged += 1
          rec.cover("still:judged_world_steps:" + ("mix" if qclass == "mix" else qclass), 1)
          judge_world(rec, case, k, w, "still/" + qclass, pre, qpos[w], xquat[w], {name: M[name][w] for name in mats}, qs, mats, worst, reported, extra=f", omega class {wclass}, round {r}")
      qpos_in, qvel_in = qpos, qvel
  for name, rr in worst.items():
    rec.worst(name, rr)
  rec.cover("still:judged_world_steps", judged)
  rec.cover("still:judged_world_steps:" + integ, judged)
  for f in feat:
    if f.startswith(("joint:", "mocap")):
      rec.cover("still:features", f)
  if deg_nonunit >= 10:
    rec.nontrivial(xml, integ, case["timestep"], "still", case["seed"])
  rec.sample = {"kind": "still", "integrator": integ, "timestep": case["timestep"], "rounds": plan, "nv": mjm.nv, "nq": mjm.nq, "n_quat": len(qs), "worlds": [list(x) for x in STILL_WORLDS], "degenerate_nonunit_joint_steps": deg_nonunit}
  return rec.result()


def run_case(case):
  import mujoco_warp as mjw

  if case["kind"] == "still":
    return run_still(case)
  rec = core.Rec(case)
  rng = np.random.default_rng(case["seed"])
  P = P_ROT if case["kind"] == "rot" else P_BOUNCE
  xml, mjm, feat, _ = gen.make_model(case["seed"], P, accept=lambda mm: has_rot(mm) and _step.well_conditioned(mm))
  if mjm is None:
    rec.rejected = "no model with free/ball joints"
    return rec.result()
  mjm.opt.integrator = INT_ENUM[case["integrator"]]
  mjm.opt.timestep = case["timestep"]
  try:
    m = mw.put_model(mjm)
  except (NotImplementedError, ValueError) as e:
    rec.rejected = f"put_model: {e}"[:200]
    return rec.result()
  states, classes = make_states(mjm, rng, case["underflow"])
  nworld = len(states)
  d = mw.make_data(mjm, m, states)
  qs, _ = _step.quat_slots(mjm)
  horizon = case["horizon"]
  stride = 10 if horizon <= 200 else 100
  alive = np.ones(nworld, dtype=bool)
  judged = np.zeros(nworld, dtype=int)
  mats = [k for k in ("xmat", "ximat", "geom_xmat", "site_xmat", "cam_xmat") if getattr(d, k).shape[1] > 0]
  worst = {}
  reported = set()
  steps_done = 0
  for k in range(horizon):
    mjw.step(m, d)
    steps_done = k + 1
    if not (k < 20 or (k + 1) % stride == 0 or k == horizon - 1):
      continue
    qvel = mw.npy(d.qvel)
    qpos = mw.npy(d.qpos)
    xquat = mw.npy(d.xquat)
    M = {name: mw.npy(getattr(d, name)) for name in mats}
    for w in range(nworld):
      if not alive[w]:
        continue
      v = qvel[w]
      if not np.all(np.isfinite(v)) or np.abs(v).max(initial=0) > 1e6:
        alive[w] = False
        rec.count("worlds_diverged")
        rec.count(f"diverged:{case['integrator']}:h={case['timestep']}")
        continue
      pre = "underflow:" if classes[w] == "underflow" else ""
      judged[w] += 1
      judge_world(rec, case, k, w, classes[w], pre, qpos[w], xquat[w], {name: M[name][w] for name in mats}, qs, mats, worst, reported)
    if not alive.any():
      break
  for name, r in worst.items():
    rec.worst(name, r)
  integ = case["integrator"]
  tot = int(judged.sum())
  rec.cover("judged_world_steps", tot)
  rec.cover("judged_world_steps:" + integ, tot)
  rec.cover(f"judged_world_steps:h={case['timestep']}", tot)
  rec.cover("steps_run", steps_done * nworld)
  rec.cover("max_horizon_reached", [str(steps_done)] if steps_done >= horizon else [])
  for w in range(nworld):
    rec.cover("class:" + classes[w], int(judged[w]))
  rec.cover("worlds_survived_horizon", int(alive.sum()))
  for f in feat:
    if f.startswith(("joint:", "camlight:", "mocap")):
      rec.cover("features", f)
  for name in mats:
    rec.cover("matrices", name)
  if steps_done >= horizon and alive.any():
    rec.cover(f"horizon>={horizon}", 1)
  if tot >= 50:
    rec.nontrivial(xml, integ, case["timestep"], *[s["qpos"] for s in states], *[s["qvel"] for s in states])
  rec.sample = {"kind": case["kind"], "integrator": integ, "timestep": case["timestep"], "horizon": horizon, "nv": mjm.nv, "nq": mjm.nq, "n_quat": len(qs), "classes": classes, "judged_steps_per_world": judged.tolist(), "alive_at_end": alive.tolist(), "omega_world3": float(np.abs(states[3]["qvel"]).max())}
  return rec.result()


def requirements(agg, tier):
  unmet = []
  cov = agg["cover"]
  for integ in INTEGRATORS:
    if cov.get("judged_world_steps:" + integ, 0) < 300:
      unmet.append(f"fewer than 300 judged world-steps for {integ}")
  for ts in TIMESTEPS:
    if cov.get(f"judged_world_steps:h={ts}", 0) < 100:
      unmet.append(f"fewer than 100 judged world-steps at timestep {ts}")
  for c in ("unit", "unnormalised", "tiny", "underflow"):
    if cov.get("class:" + c, 0) < 50:
      unmet.append(f"fewer than 50 judged world-steps for initial-quaternion class {c}")
  for f in ("joint:free", "joint:ball", "mocap"):
    if f not in cov.get("features", []):
      unmet.append(f"feature never exercised: {f}")
  for mname in ("xmat", "ximat", "geom_xmat", "site_xmat", "cam_xmat"):
    if mname not in cov.get("matrices", []):
      unmet.append(f"matrix field never observed: {mname}")
  need = "horizon>=200" if tier == "quick" else "horizon>=20000"
  if not cov.get(need):
    unmet.append(f"no run survived the full horizon ({need})")
  # 'still' family: every degenerate-velocity bucket, joint type, integrator and quaternion class must have been observed
  # with a non-unit input quaternion (measured per world, joint and step)
  for integ in INTEGRATORS:
    if cov.get(f"still:{integ}:degenerate_nonunit_in", 0) < 20:
      unmet.append(f"still family: fewer than 20 non-unit quaternions integrated with |omega|<1e-15 under {integ}")
  for jt in ("free", "ball"):
    for b in W_BUCKETS:
      if cov.get(f"still:{jt}:{b}:nonunit_in", 0) < 5:
        unmet.append(f"still family: fewer than 5 non-unit {jt} quaternions integrated with angular velocity class {b}")
  for c in Q_CLASSES:
    if cov.get(f"still:qclass:{c}:degenerate", 0) < 10:
      unmet.append(f"still family: fewer than 10 {c} quaternions integrated with |omega|<1e-15")
  for c in ("mix", "underflow"):
    if cov.get("still:judged_world_steps:" + c, 0) < 30:
      unmet.append(f"still family: fewer than 30 judged world-steps of quaternion class {c}")
  if cov.get("still:underflow:zero", 0) < 10:
    unmet.append("still family: fewer than 10 underflowing quaternions integrated with exactly zero angular velocity")
  if cov.get("still:mocap_quat_nonunit_in", 0) < 5:
    unmet.append("still family: fewer than 5 non-unit mocap quaternions")
  if agg["distinct"] < 20:
    unmet.append("fewer than 20 distinct non-trivial cases")
  return unmet
