"""C13 reset_data restores a fresh Data for the selected worlds and leaves the others untouched.

Metamorphic monitor over three executions of the real code on one model: A (history, then reset_data(mask)), B (same
history, no reset: control for unselected worlds) and F (a fresh make_data: reference for selected worlds).  Right after
the reset every state field of a selected world must equal F bit for bit and every array of an unselected world -- and
the contacts it reports -- must equal B; then all three are stepped with identical inputs and compared after every
step under the first-divergence rule.
"""

import numpy as np

from mon import cmp, core, gen, mw
from mon.props import _state as S

ID = "C13"
LEVEL = "exploration"
RULE = (
  "case=(model seed): generated colliding scene (plane, free/ball/hinge/slide bodies, mocap, equalities, userdata, actuators "
  "incl. dyntype=user actdim 2-3 and dcmotor so that na>nu, delayed actuators/sensors, optionally sleeping enabled); per case "
  "3-5 scenarios = (nworld 2-4, random per-world states, history of 4-14 steps with random ctrl/mocap inputs, mask kind "
  "none/all/empty/single/world0-only/all-but-0/random, mask dtype bool/int32/uint8/int64). Non-trivial: the history changed "
  "qpos of every world and >=1 world was selected or unselected with contacts present; distinct by hash(xml, states, mask)."
)
ASSUMPTIONS = [
  "a fresh mjw.make_data (no state written) is the definition of 'fresh Data'; MuJoCo is not consulted here",
  "observables compared after every step: qpos qvel act time qacc qacc_warmstart sensordata actuator_force qfrc_actuator "
  "qfrc_constraint qfrc_smooth xpos xquat history act_dot ne nf nl nefc tree_asleep and the world's sorted contacts",
  "first-divergence rule: bit-equal expected; <=1e-4 relative tallied as round-off (batch neighbours differ between runs); >=1e-2 violated",
  "a world is not judged from the step on at which it (or the shared contact pool) overflows nconmax/njmax in either execution (C16's subject)",
  "after a known-mechanism violation (stale act[nu:na], stale history) the monitor repairs that field from F so that the "
  "trajectory comparison still decides everything else",
]
BUDGET = {"quick": 320, "thorough": 1800}

STATE = ("time", "qpos", "qvel", "act", "ctrl", "qacc_warmstart", "qfrc_applied", "xfrc_applied", "eq_active", "mocap_pos", "mocap_quat", "userdata", "history", "tree_asleep", "tree_awake", "body_awake", "ne", "nf", "nl", "nefc")
TRAJ = ("qpos", "qvel", "act", "time", "qacc", "qacc_warmstart", "sensordata", "actuator_force", "qfrc_actuator", "qfrc_constraint", "qfrc_smooth", "xpos", "xquat", "history", "act_dot", "ne", "nf", "nl", "nefc", "tree_asleep")
MASKS = ("none", "all", "empty", "single", "zero", "notzero", "random")
DTYPES = ("bool", "int32", "uint8", "int64")

CAPS = dict(nconmax=40, njmax=160)  # one capacity class for every model: bounds kernel specialisations
STALE_VEL = ("cvel", "cdof_dot", "subtree_linvel")

PROFILE = gen.profile(
  nbody=(2, 6),
  geoms=("sphere", "capsule", "box"),  # few primitive-pair sets: bounds narrowphase kernel specialisations
  collide=True,
  contact_rich=True,
  p_plane=0.9,
  p_free=0.4,
  p_mocap=0.35,
  actuators=3,
  act_kinds=("motor", "position", "general", "dcmotor", "intvelocity"),
  act_trn=("joint",),
  act_ball=False,
  equality=2,
  eq_kinds=("connect", "weld", "joint"),
  nuserdata=3,
  sensors=3,
  sensor_kinds=("jointpos", "jointvel", "framepos", "actuatorfrc", "touch"),
  delays=0.3,
  p_limit=0.3,
  timestep=(0.00390625, 0.001953125),
  condims=(1, 3, 4),
)


def cases(tier, seed):
  n = 48 if tier == "quick" else 1400  # every new model costs 10-20 s of kernel specialisation when the cache is cold
  out = []
  for i in range(n):
    sl = i % 4 == 3
    out.append({"id": f"m{seed}_{i}", "seed": seed * 100000 + i, "sleep": sl, "nscen": 3 if sl else 5, "weight": 2 if sl else 1})
  return out


def _mask_array(kind, nworld, rng):
  if kind == "none" or kind == "all":
    return np.ones(nworld, bool)
  if kind == "empty":
    return np.zeros(nworld, bool)
  if kind == "single":
    m = np.zeros(nworld, bool)
    m[rng.integers(nworld)] = True
    return m
  if kind == "zero":
    m = np.zeros(nworld, bool)
    m[0] = True
    return m
  if kind == "notzero":
    m = np.ones(nworld, bool)
    m[0] = False
    return m
  return rng.random(nworld) < 0.5


def _wp_mask(kind, mask, dtype, rng):
  import warp as wp

  if kind == "none":
    return None
  if dtype == "bool":
    return wp.array(mask, dtype=bool)
  vals = np.where(mask, rng.integers(1, 100, size=mask.shape), 0)  # any non-zero selects
  return wp.array(vals, dtype={"int32": wp.int32, "uint8": wp.uint8, "int64": wp.int64}[dtype])


def _snap(d, names):
  return {k: np.array(mw.npy(getattr(d, k))) for k in names}


def _compare_step(rec, a, b, ca, cb, w, ctx, sig_prefix):
  """All observables of world w after one step; returns 'bit' | 'round' | 'viol' | 'incon'."""
  worst = "bit"
  order = {"bit": 0, "round": 1, "incon": 2, "viol": 3}
  for k in TRAJ:
    r = cmp.first_divergence(rec, k, a[k][w], b[k][w], sig_prefix=sig_prefix, ctx=ctx)
    if order[r] > order[worst]:
      worst = r
  if len(ca["dist"]) != len(cb["dist"]):
    rec.check()
    # a differing contact count at bit-equal state is structural; after round-off it is not judged
    if worst == "bit":
      rec.viol(sig_prefix + "ncon", f"contact count {len(ca['dist'])} vs {len(cb['dist'])} {ctx}")
      worst = "viol"
  else:
    for k in ("dist", "pos", "frame", "geom", "dim"):
      r = cmp.first_divergence(rec, "contact." + k, ca[k], cb[k], sig_prefix=sig_prefix, ctx=ctx)
      if order[r] > order[worst]:
        worst = r
  return worst


def step_all(m, datas, inp):
  """One step of several Data with identical inputs; overflow bits are zeroed first so that they describe this step."""
  import mujoco_warp as mjw

  for d in datas:
    S.apply_inputs(d, inp)
    mw.zero_overflow(d)
    mjw.step(m, d)


def overflowed(datas, w):
  """True if world w (or the shared contact pool) ran out of capacity in the last step of any of the executions:
  which rows / contacts survive then depends on the neighbours, so equal trajectories are not implied."""
  for d in datas:
    if int(mw.npy(d.overflow)[w]) != 0 or int(mw.npy(d.nacon)[0]) > d.naconmax or int(mw.npy(d.nefc)[w]) > d.njmax:
      return True
  return False


def _bad_masks(rec, m, d, nworld):
  import mujoco_warp as mjw
  import warp as wp

  bad = {
    "short": wp.zeros(nworld + 1, dtype=bool),
    "2d": wp.zeros((nworld, 1), dtype=bool),
    "float": wp.zeros(nworld, dtype=float),
  }
  before = _snap(d, ("qpos", "time", "act"))
  for name, arr in bad.items():
    rec.check()
    try:
      mjw.reset_data(m, d, arr)
      rec.viol("reset:bad-mask-accepted:" + name, f"reset_data accepted a mask with {name} shape/dtype {arr.shape} {arr.dtype}")
    except ValueError:
      rec.count("bad_mask_rejected")
  after = _snap(d, ("qpos", "time", "act"))
  rec.check()
  for k in before:
    if before[k].tobytes() != after[k].tobytes():
      rec.viol("reset:rejected-call-modified-data", f"{k} changed although reset_data raised")


def _scenario(rec, mjm, m, xml, rng, sc, sleep):
  import mujoco_warp as mjw

  nworld = int(rng.integers(2, 5))
  kind = MASKS[sc % len(MASKS)] if sc < len(MASKS) else MASKS[rng.integers(len(MASKS))]
  dtype = DTYPES[rng.integers(len(DTYPES))]
  H = int(rng.integers(11, 15)) if sleep else int(rng.integers(4, 9))
  T = 4
  states = [gen.sample_state(mjm, rng, vel=float(rng.choice([0.05, 1.0])) if sleep else 1.0, quat_scale=False) for _ in range(nworld)]
  for s in states:
    s["qacc_warmstart"] = rng.normal(size=mjm.nv).astype(np.float32)
  A = mw.make_data(mjm, m, states, **CAPS)
  B = mw.make_data(mjm, m, states, **CAPS)
  F = mjw.make_data(mjm, nworld=nworld, **CAPS)
  fresh0 = _snap(F, STATE)
  for _ in range(H):
    inp = S.sample_inputs(mjm, rng, nworld)
    for d in (A, B):
      S.apply_inputs(d, inp)
      mjw.step(m, d)
  names = mw.world_fields(A)
  pre = _snap(A, names)
  preB = _snap(B, names)
  # determinism of the harness' own premise: A and B executed the same history
  for k in ("qpos", "qvel", "act", "history"):
    if pre[k].tobytes() != preB[k].tobytes():
      rec.inconcl("two executions of the same history differ: control run unusable")
      return
  if not np.all(np.isfinite(pre["qpos"])) or not np.all(np.isfinite(pre["qvel"])):
    rec.inconcl("history diverged to non-finite state")
    return
  ncon_pre = [len(mw.contacts(A, w)["dist"]) for w in range(nworld)]
  conB = [S.world_contacts(B, w) for w in range(nworld)]
  efcB = {k: np.array(mw.npy(getattr(B.efc, k))) for k in ("type", "id", "pos", "force", "D", "aref")}
  ovf = mw.npy(A.overflow).copy()
  asleep_pre = int((pre["tree_asleep"] >= 0).sum()) if "tree_asleep" in pre else 0

  mask = _mask_array(kind, nworld, rng)
  wm = _wp_mask(kind, mask, dtype, rng)
  mjw.reset_data(m, A, wm)
  post = _snap(A, names)
  sel = [w for w in range(nworld) if mask[w]]
  uns = [w for w in range(nworld) if not mask[w]]
  nu, na = mjm.nu, mjm.na

  # ---- selected worlds: state equals a fresh Data, bit for bit
  repaired = False
  for w in sel:
    for k in STATE:
      rec.check()
      a, f = post[k][w], fresh0[k][w]
      if a.tobytes() == f.tobytes():
        continue
      if k == "act" and na > nu and a[:nu].tobytes() == f[:nu].tobytes() and a[nu:].tobytes() == pre["act"][w][nu:].tobytes():
        rec.viol("reset:act-beyond-nu-not-reset", f"act[{nu}:{na}] of reset world {w} kept its pre-reset value {a[nu:]} (fresh: {f[nu:]}); nu={nu} na={na}")
        rec.count("F1_act_beyond_nu")
      elif k == "history" and a.tobytes() == pre["history"][w].tobytes():
        rec.viol("reset:history-not-reset", f"history buffer of reset world {w} is unchanged by reset_data (fresh make_data buffer differs in {int((a != f).sum())} of {a.size} entries)")
        rec.count("F2_history_not_reset")
      elif k == "body_awake" and all(mjm.body_treeid[b] < 0 and mjm.body_mocapid[b] < 0 and mjm.body_mocapid[mjm.body_rootid[b]] >= 0 for b in np.nonzero(a != f)[0]):
        bad = np.nonzero(a != f)[0].tolist()
        rec.viol("reset:body_awake-static-child-of-mocap", f"body_awake of jointless children of a mocap body {bad} is {a[bad].tolist()} after reset_data, {f[bad].tolist()} in a fresh Data (and in MuJoCo): reset_sleep looks at the body's own mocapid instead of its root's; world {w}")
        rec.count("body_awake_mocap_child")
      else:
        idx = int(np.argmax(a.ravel() != f.ravel()))
        rec.viol(f"reset:{k}-not-fresh", f"{k} of reset world {w} differs from fresh Data at {idx}: {a.ravel()[idx]} vs {f.ravel()[idx]} (mask {kind}/{dtype})")
    rec.check()
    if int(mw.npy(A.overflow)[w]) != 0:
      rec.viol("reset:overflow-not-cleared", f"overflow bits of reset world {w} = {int(mw.npy(A.overflow)[w])}")
    rec.check()
    nrep = len(mw.contacts(A, w)["dist"])
    if nrep != 0:
      rec.viol("reset:selected-world-still-reports-contacts", f"reset world {w} still reports {nrep} contacts")
  if sel:
    # repair the known stale fields from F so that the trajectory comparison decides everything else
    act = post["act"].copy()
    hist = post["history"].copy()
    for w in sel:
      if act[w].tobytes() != fresh0["act"][w].tobytes():
        act[w] = fresh0["act"][w]
        repaired = True
      if hist[w].tobytes() != fresh0["history"][w].tobytes():
        hist[w] = fresh0["history"][w]
        repaired = True
    if repaired:
      if act.size:
        S.set_field(A, "act", act)
      if hist.size:
        S.set_field(A, "history", hist)

  # ---- unselected worlds: every per-world array untouched, reported contacts unchanged
  f3 = False
  for w in uns:
    for k in names:
      rec.check()
      if post[k][w].tobytes() != pre[k][w].tobytes():
        rec.viol(f"reset:unselected-world-modified:{k}", f"{k} of unselected world {w} changed by reset_data(mask {kind} {mask.astype(int).tolist()})")
    rec.check()
    for k, vB in efcB.items():
      if np.array(mw.npy(getattr(A.efc, k)))[w].tobytes() != vB[w].tobytes():
        rec.viol(f"reset:unselected-world-modified:efc.{k}", f"efc.{k} of unselected world {w} changed by reset_data")
    rec.check()
    ca = S.world_contacts(A, w)
    ok, why = S.contacts_equal(ca, conB[w])
    if not ok:
      f3 = True
      rec.viol(
        "reset:partial-mask-corrupts-unselected-contacts",
        f"unselected world {w} reported {len(conB[w]['dist'])} contacts before reset_data(mask {mask.astype(int).tolist()}) and {len(ca['dist'])} after ({why}); nacon {ncon_pre} -> {int(mw.npy(A.nacon)[0])}",
      )
      rec.count("F3_unselected_contacts")
    # get_data_into must agree with the pool view
    import mujoco

    res = mujoco.MjData(mjm)
    mjw.get_data_into(res, mjm, A, world_id=w)
    rec.check()
    if res.ncon != len(ca["dist"]):
      rec.viol("reset:get_data_into-ncon-inconsistent", f"get_data_into ncon {res.ncon} vs pool {len(ca['dist'])} world {w}")
  rec.count("unselected_with_contacts", sum(1 for w in uns if len(conB[w]["dist"]) > 0))

  # ---- stale velocity-stage arrays of reset worlds (read by connect/weld rows before com_vel recomputes them):
  # A2 keeps them, A gets them zeroed as in a fresh Data; one step tells whether they matter.
  A2 = None
  import mujoco

  eq_cw = bool(np.any(np.isin(mjm.eq_type, (int(mujoco.mjtEq.mjEQ_CONNECT), int(mujoco.mjtEq.mjEQ_WELD))) & (np.asarray(mjm.eq_active0) != 0)))
  stale = [w for w in sel if any(post[k][w].tobytes() != _snap(F, (k,))[k][w].tobytes() for k in STALE_VEL)]
  if stale:
    A2 = S.clone_into(mjw.make_data(mjm, nworld=nworld, **CAPS), A)
    for k in STALE_VEL:
      a = np.array(mw.npy(getattr(A, k)))
      f = np.array(mw.npy(getattr(F, k)))
      for w in stale:
        a[w] = f[w]
      S.set_field(A, k, a)

  # ---- subsequent trajectory
  live = {w: True for w in range(nworld)}
  for t in range(T):
    inp = S.sample_inputs(mjm, rng, nworld)
    step_all(m, (A, B, F), inp)
    if t == 0 and A2 is not None:
      step_all(m, (A2,), inp)
      s1, s2 = _snap(A, TRAJ), _snap(A2, TRAJ)
      for w in stale:
        if overflowed((A, A2), w):
          continue
        rec.check()
        rel = S.max_rel_diff(s1, s2, TRAJ, w)
        if rel >= 1e-2:
          if eq_cw:
            rec.viol(
              "reset:stale-cvel-read-by-equality-aref",
              f"first step of reset world {w} changes by rel {rel:.3g} when its stale cvel/cdof_dot/subtree_linvel (left over from before reset_data) are zeroed as in a fresh Data; model has active connect/weld equalities whose aref is assembled before com_vel runs",
            )
            rec.count("stale_cvel_equality")
          else:
            rec.viol("reset:stale-cvel-changes-next-step", f"first step of reset world {w} changes by rel {rel:.3g} when stale cvel/cdof_dot/subtree_linvel are zeroed (no active connect/weld in the model)")
        elif rel > 1e-4:
          rec.inconcl("stale cvel: effect between round-off and violation line")
        else:
          rec.count("stale_cvel_no_effect")
    sa, sb, sf = _snap(A, TRAJ), _snap(B, TRAJ), _snap(F, TRAJ)
    for w in range(nworld):
      if not live[w]:
        continue
      if overflowed((A, F) if mask[w] else (A, B), w):
        live[w] = False
        rec.count("traj_stopped_at_capacity_overflow")
        continue
      if mask[w]:
        r = _compare_step(rec, sa, sf, S.world_contacts(A, w), S.world_contacts(F, w), w, f"reset world {w} vs fresh Data, step {t} after reset (mask {kind}/{dtype})", "traj-selected:")
        rec.count("traj_selected_" + r)
      else:
        r = _compare_step(rec, sa, sb, S.world_contacts(A, w), S.world_contacts(B, w), w, f"unselected world {w} vs control run, step {t} after reset (mask {kind}/{dtype})", "traj-unselected:")
        rec.count("traj_unselected_" + r)
      if r != "bit":
        live[w] = False

  rec.cover("mask:" + kind, 1)
  rec.cover("dtype:" + dtype, 1)
  rec.cover("worlds_selected", len(sel))
  rec.cover("worlds_unselected", len(uns))
  rec.cover("history_steps", H)
  rec.cover("contacts_before_reset", int(sum(ncon_pre)))
  rec.cover("overflow_bits_before_reset", int((ovf != 0).sum()))
  rec.cover("sleeping_trees_before_reset", asleep_pre)
  if repaired:
    rec.count("scenarios_repaired_after_known_mechanism")
  moved = all(np.abs(pre["qpos"][w] - np.asarray(mjm.qpos0, np.float32)).max() > 1e-4 for w in range(nworld))
  if moved:
    rec.nontrivial(xml, kind, dtype, mask, *[s["qpos"] for s in states])
  return {"nworld": nworld, "mask": kind, "dtype": dtype, "H": H, "selected": sel, "contacts_before": ncon_pre}


def run_case(case):
  rec = core.Rec(case)
  rng = np.random.default_rng(case["seed"] + 99)
  P = dict(PROFILE)
  mut = None
  if case["sleep"]:
    P["flags_enable"] = ()
    P["p_mocap"] = 0.15
    mut = lambda x: x.replace("<option ", '<option sleep_tolerance="100" ', 1).replace("</option>", '<flag sleep="enable"/></option>', 1) if "<flag" not in x else x
  ua, da, ds = int(rng.integers(0, 3)), int(rng.integers(0, 3)), int(rng.integers(0, 3))
  if case["seed"] % 5 == 1:
    # few actuators, each with a multi-dimensional activation: guarantees na > nu
    P["actuators"] = 0
    xml, mjm, feat = S.build(case["seed"], P, user_act=2, delay_act=min(da, 1), delay_sens=ds, plain_motor=0, mutate_xml=mut)
  else:
    xml, mjm, feat = S.build(case["seed"], P, user_act=ua, delay_act=da, delay_sens=ds, plain_motor=1, mutate_xml=mut)
  if mjm is None:
    rec.rejected = "mujoco compile"
    return rec.result()
  if case["sleep"]:
    # on the CPU device the compacted (sleep) solver runs all opt.iterations unconditionally: keep histories affordable
    mjm.opt.iterations = 12
  try:
    m = mw.put_model(mjm)
  except (NotImplementedError, ValueError) as e:
    rec.rejected = f"put_model: {e}"[:200]
    return rec.result()
  for f in feat:
    rec.cover("features", f)
  import mujoco

  if mjm.opt.enableflags & mujoco.mjtEnableBit.mjENBL_SLEEP:
    rec.cover("features", "sleep_enabled")
  if mjm.na > mjm.nu:
    rec.cover("models_na_gt_nu", 1)
  if mjm.nhistory:
    rec.cover("models_with_history", 1)
  samples = []
  for sc in range(case["nscen"]):
    s = _scenario(rec, mjm, m, xml, rng, sc + (case["seed"] % len(MASKS)), case["sleep"])
    if s:
      samples.append(s)
  # API rejections (once per model)
  import mujoco_warp as mjw

  d = mjw.make_data(mjm, nworld=3)
  _bad_masks(rec, m, d, 3)
  rec.sample = {"model": f"generated seed {case['seed']}", "nv": mjm.nv, "nu": mjm.nu, "na": mjm.na, "nhistory": mjm.nhistory, "nmocap": mjm.nmocap, "neq": mjm.neq, "scenarios": samples[:3]}
  return rec.result()


def requirements(agg, tier):
  unmet = []
  cov = agg["cover"]
  for k in MASKS:
    if cov.get("mask:" + k, 0) < 5:
      unmet.append(f"mask kind {k} exercised fewer than 5 times")
  for k in DTYPES:
    if cov.get("dtype:" + k, 0) < 5:
      unmet.append(f"mask dtype {k} exercised fewer than 5 times")
  if cov.get("models_na_gt_nu", 0) < 5:
    unmet.append("fewer than 5 models with na>nu")
  if cov.get("models_with_history", 0) < 5:
    unmet.append("fewer than 5 models with delay buffers")
  if cov.get("contacts_before_reset", 0) < 100:
    unmet.append("fewer than 100 contacts present at reset time")
  if cov.get("sleeping_trees_before_reset", 0) < 1:
    unmet.append("no sleeping tree at reset time")
  if agg["tally"].get("unselected_with_contacts", 0) < 10:
    unmet.append("fewer than 10 unselected worlds with contacts observed")
  t = agg["tally"]
  if t.get("traj_selected_bit", 0) + t.get("traj_selected_round", 0) < 200:
    unmet.append("fewer than 200 post-reset world-steps of selected worlds judged")
  if t.get("traj_unselected_bit", 0) + t.get("traj_unselected_round", 0) < 200:
    unmet.append("fewer than 200 post-reset world-steps of unselected worlds judged")
  if agg["distinct"] < 30:
    unmet.append("fewer than 30 distinct non-trivial scenarios")
  return unmet
