"""C19 Contact pair filtering follows MuJoCo's rules.

Differential + rule monitor: random kinematic trees in which every geom is a large sphere (or a plane through the
cluster) at nearly the same point, so geometry never filters a pair. The set of geom pairs MJWarp reports contacts for
must equal mj_collision's set (primary oracle) and the set predicted by an independent Python evaluation of MuJoCo's
documented rules over MjModel fields (secondary oracle; if the two oracles disagree the case is inconclusive).
Contacts of explicit <pair>s must carry the pair's condim / friction / solref / solreffriction / solimp / margin.
A second case family attaches collision sensors (distance / normal / fromto) to filtered-out pairs: the sensors keep those
pairs in the broadphase tables and in the contact pool (SENSOR-only entries), and they must still never become contacts
(CONSTRAINT bit, constraint rows, nefc).
"""

import mujoco
import numpy as np

from mon import core, gen, mw
from mon.props import _col

ID = "C19"
LEVEL = "exploration"
RULE = (
  "case=(seed): random tree of 3-9 bodies (free / hinge / slide / ball joints, jointless = welded bodies incl. welded chains "
  "and bodies welded to the world, mocap bodies), 1-2 sphere geoms of radius 0.3-0.6 per body all within 0.05 of one point, "
  "optional world sphere and plane; contype/conaffinity drawn from {0,1,2,3,4,5,6,7} with a bias to 0; 0-3 <exclude>s (both "
  "body orders, also parent/child and same-weld bodies), 0-4 explicit <pair>s with own parameters (also on geoms whose masks "
  "do not match, on excluded bodies, on parent/child geoms); FILTERPARENT on/off; broadphase type drawn from NXN / SAP_TILE / "
  "SAP_SEGMENTED so both pair-table code paths run; 2 worlds with different joint angles. Every third case ('sens' family) "
  "adds 1-4 collision sensors (distance / normal / fromto, geom- or body-level, either geom order, cutoff 0/0.05/1/10, shared "
  "pairs) aimed mostly at pairs the filter rejects (bitmask, same weld body, same body, parent/child, <exclude>), also at "
  "ordinary and explicit pairs; such pairs stay in the broadphase tables for the sensor but must never be reported as "
  "(CONSTRAINT) contacts nor receive constraint rows; in half of those cases the last world moves free/sliding bodies metres "
  "apart (observed pairs beyond margin). Judged there: contact set vs MuJoCo, sensor-only pool entries have no efc address, "
  "nefc equals MuJoCo's when the contact lists agree, sensor values. Non-trivial: >=1 pair accepted and >=1 pair rejected by "
  "the rules; distinct by hash(xml)."
)
ASSUMPTIONS = [
  "primary oracle: mujoco.mj_collision (MuJoCo 3.13) on the same model and qpos",
  "secondary oracle: explicit pair, else different bodies, different weld bodies, not both static (world or mocap weld body), not weld-parent/child unless FILTERPARENT is "
  "disabled or one of them is the world, (contype1 & conaffinity2) | (contype2 & conaffinity1), not <exclude>d",
  "all geoms overlap geometrically (verified per pair in float64 for the spheres / plane), so only the rules decide",
  "geom order inside a reported pair is not judged here (see C18: SAP broadphases may swap same-type geoms)",
  "a 'reported contact' is a contact pool entry with the ContactType.CONSTRAINT bit (what MuJoCo's mjData.contact holds); entries "
  "with only the SENSOR bit are the collision sensors' private measurements and are required to stay out of the solver",
  "sens family reference: mj_kinematics + mj_comPos + mj_collision + mj_makeConstraint + mj_sensorPos; collision-sensor values "
  "are compared with MuJoCo's (secondary; not judged at distance ties between candidate pairs, at the cutoff boundary or for "
  "coincident centres; 1e-3 agree / 3e-2 violated)",
]
BUDGET = {"quick": 400, "thorough": 1800}


def cases(tier, seed):
  n = 240 if tier == "quick" else 6000
  out = []
  for i in range(n):
    out.append({"id": f"f{seed}_{i}", "seed": seed * 1000003 + i})
    if i % 2 == 1:
      # "sens" family: same trees, plus collision sensors that keep filtered-out pairs alive in the collision pipeline
      out.append({"id": f"s{seed}_{i // 2}", "seed": seed * 1000003 + 500000 + i // 2, "kind": "sens", "weight": 1.5})
  return out


def _f(x):
  return " ".join(f"{float(v):.6g}" for v in np.atleast_1d(x))


def build(rng):
  nb = int(rng.integers(3, 10))
  parent = {}
  kids = {"world": []}
  spec = {}
  order = []
  feats = set()
  for i in range(nb):
    name = f"b{i}"
    par = "world" if (i == 0 or rng.random() < 0.25) else order[int(rng.integers(len(order)))]
    r = rng.random()
    if par == "world" and r < 0.15:
      jt = "mocap"
    elif par == "world" and r < 0.4:
      jt = "free"
    elif r < 0.6:
      jt = "hinge"
    elif r < 0.7:
      jt = "slide"
    elif r < 0.78:
      jt = "ball"
    else:
      jt = "weld"
    spec[name] = (par, jt)
    kids.setdefault(par, []).append(name)
    kids.setdefault(name, [])
    order.append(name)
    feats.add("joint:" + jt)
    if jt == "weld":
      feats.add("weld:to_world" if par == "world" else "weld:to_body")
      if par != "world" and spec[par][1] == "weld":
        feats.add("weld:chain")
  geoms = []  # (name, body)

  def bits():
    r = rng.random()
    if r < 0.2:
      return 0
    if r < 0.5:
      return 1
    return int(rng.integers(0, 8))

  def geom_xml(body, k, plane=False):
    name = f"g_{body}_{k}"
    geoms.append((name, body))
    a = f'name="{name}" contype="{bits()}" conaffinity="{bits()}"'
    if rng.random() < 0.3:
      a += f' condim="{[1, 3, 4, 6][int(rng.integers(4))]}"'
    if rng.random() < 0.3:
      a += f' friction="{_f([rng.uniform(0.2, 1.5), rng.uniform(0.002, 0.02), rng.uniform(0.0001, 0.01)])}"'
    if rng.random() < 0.2:
      a += f' priority="{int(rng.integers(0, 3))}"'
    if plane:
      return f'<geom {a} type="plane" size="0 0 1" pos="0 0 -0.1"/>'
    return f'<geom {a} type="sphere" size="{_f(rng.uniform(0.3, 0.6))}" pos="{_f(rng.uniform(-0.02, 0.02, size=3))}"/>'

  def body_xml(name):
    par, jt = spec[name]
    out = [f'<body name="{name}" pos="{_f(rng.uniform(-0.01, 0.01, size=3))}"' + (' mocap="true"' if jt == "mocap" else "") + ">"]
    if jt == "free":
      out.append("<freejoint/>")
    elif jt in ("hinge", "slide", "ball"):
      ax = f' axis="{_f(rng.normal(size=3))}"' if jt != "ball" else ""
      out.append(f'<joint type="{jt}"{ax}/>')
    for k in range(1 + int(rng.random() < 0.3)):
      out.append(geom_xml(name, k))
    if jt in ("weld", "mocap") and rng.random() < 0.0:
      pass
    for ch in kids[name]:
      out.extend(body_xml(ch))
    out.append("</body>")
    return out

  wb = []
  if rng.random() < 0.5:
    wb.append(geom_xml("world", 0))
    feats.add("world_sphere")
  if rng.random() < 0.4:
    wb.append(geom_xml("world", 1, plane=True))
    feats.add("world_plane")
  for name in kids["world"]:
    wb.extend(body_xml(name))
  con = []
  pairs = []
  for _ in range(int(rng.integers(0, 5))):
    if len(geoms) < 2:
      break
    i, j = rng.choice(len(geoms), size=2, replace=False)
    key = (min(i, j), max(i, j))
    if key in pairs:
      continue
    pairs.append(key)
    a = f'geom1="{geoms[i][0]}" geom2="{geoms[j][0]}"'
    a += f' condim="{[1, 3, 4, 6][int(rng.integers(4))]}"'
    if rng.random() < 0.7:
      a += f' friction="{_f(rng.uniform(0.1, 1.5, size=2))} {_f(rng.uniform(0.001, 0.02, size=3))}"'
    if rng.random() < 0.6:
      a += f' margin="{_f(rng.uniform(0, 0.05))}" gap="{_f(rng.uniform(0, 0.02))}"'
    if rng.random() < 0.6:
      a += f' solref="{_f([rng.uniform(0.01, 0.05), rng.uniform(0.5, 1.5)])}"'
    if rng.random() < 0.5:
      a += f' solreffriction="{_f([rng.uniform(0.01, 0.05), rng.uniform(0.5, 1.5)])}"'
    if rng.random() < 0.6:
      a += f' solimp="{_f([rng.uniform(0.8, 0.95), rng.uniform(0.95, 0.99), rng.uniform(0.0005, 0.005), 0.5, 2])}"'
    con.append(f"<pair {a}/>")
    feats.add("pair")
  for _ in range(int(rng.integers(0, 4))):
    if nb < 2:
      break
    i, j = rng.choice(nb, size=2, replace=False)
    con.append(f'<exclude body1="b{i}" body2="b{j}"/>')
    feats.add("exclude:body1>body2" if i > j else "exclude:body1<body2")
  fp = rng.random() < 0.4
  if fp:
    feats.add("filterparent:disabled")
  else:
    feats.add("filterparent:enabled")
  xml = (
    "<mujoco><option>" + ('<flag filterparent="disable"/>' if fp else "") + "</option><worldbody>"
    + "".join(wb) + "</worldbody>" + (f"<contact>{''.join(con)}</contact>" if con else "") + "</mujoco>"
  )  # fmt: skip
  return xml, sorted(feats)


def rule_set(mjm, mjd):
  """Independent evaluation of MuJoCo's pair rules; returns (set of unordered geom pairs, reasons dict)."""
  fp_disabled = bool(mjm.opt.disableflags & mujoco.mjtDisableBit.mjDSBL_FILTERPARENT)
  explicit = {}
  for i in range(mjm.npair):
    explicit[frozenset((int(mjm.pair_geom1[i]), int(mjm.pair_geom2[i])))] = i
  excl = set()
  for i in range(mjm.nexclude):
    sgn = int(mjm.exclude_signature[i])
    excl.add(frozenset((sgn >> 16, sgn & 0xFFFF)))
  weld = mjm.body_weldid
  out, why = set(), {}
  for g1 in range(mjm.ngeom):
    for g2 in range(g1 + 1, mjm.ngeom):
      key = frozenset((g1, g2))
      # geometric overlap (spheres / plane)
      t1, t2 = int(mjm.geom_type[g1]), int(mjm.geom_type[g2])
      if key in explicit:
        pid = explicit[key]
        thr = float(mjm.pair_margin[pid] + mjm.pair_gap[pid])
      else:
        thr = float(mjm.geom_margin[g1] + mjm.geom_margin[g2] + mjm.geom_gap[g1] + mjm.geom_gap[g2])
      if t1 == 0 and t2 == 0:
        why[key] = "plane-plane"
        continue
      if t1 == 0 or t2 == 0:
        p, s = (g1, g2) if t1 == 0 else (g2, g1)
        n = mjd.geom_xmat[p].reshape(3, 3)[:, 2]
        dist = float(n @ (mjd.geom_xpos[s] - mjd.geom_xpos[p])) - float(mjm.geom_size[s][0])
      else:
        dist = float(np.linalg.norm(mjd.geom_xpos[g1] - mjd.geom_xpos[g2])) - float(mjm.geom_size[g1][0] + mjm.geom_size[g2][0])
      if dist > thr - 1e-3:
        why[key] = "not-overlapping"
        continue
      if key in explicit:
        out.add(key)
        why[key] = "explicit-pair"
        continue
      b1, b2 = int(mjm.geom_bodyid[g1]), int(mjm.geom_bodyid[g2])
      w1, w2 = int(weld[b1]), int(weld[b2])
      if b1 == b2:
        why[key] = "same-body"
      elif w1 == w2:
        why[key] = "same-weld-body"
      elif (w1 == 0 or mjm.body_mocapid[w1] >= 0) and (w2 == 0 or mjm.body_mocapid[w2] >= 0):
        why[key] = "both-static"  # world / welded-to-world / mocap bodies never collide with each other in MuJoCo
      elif not fp_disabled and w1 != 0 and w2 != 0 and (int(weld[mjm.body_parentid[w1]]) == w2 or int(weld[mjm.body_parentid[w2]]) == w1):
        why[key] = "parent-child"
      elif not ((int(mjm.geom_contype[g1]) & int(mjm.geom_conaffinity[g2])) or (int(mjm.geom_contype[g2]) & int(mjm.geom_conaffinity[g1]))):
        why[key] = "contype-conaffinity"
      elif frozenset((b1, b2)) in excl:
        why[key] = "exclude"
      else:
        out.add(key)
        why[key] = "dynamic-pair"
  return out, why


FILTERED = ("contype-conaffinity", "same-weld-body", "parent-child", "exclude", "same-body", "both-static")
SENSOR_TAGS = {mujoco.mjtSensor.mjSENS_GEOMDIST: "distance", mujoco.mjtSensor.mjSENS_GEOMNORMAL: "normal", mujoco.mjtSensor.mjSENS_GEOMFROMTO: "fromto"}


def add_sensors(rng, xml, mjm0):
  """Adds 1-4 collision sensors (<distance> / <normal> / <fromto>, geom- or body-level, either order, shared pairs) to the
  model, aimed with a 70% bias at geom pairs the contact filter rejects (classified by rule_set at qpos0, where every
  geom overlaps every other), else at ordinary and explicit pairs. Planes are never sensor objects."""
  mjd0 = mujoco.MjData(mjm0)
  mujoco.mj_kinematics(mjm0, mjd0)
  _, why = rule_set(mjm0, mjd0)
  by = {}
  for key, v in why.items():
    g1, g2 = sorted(key)
    if int(mjm0.geom_type[g1]) == 0 or int(mjm0.geom_type[g2]) == 0:
      continue
    by.setdefault(v, []).append((g1, g2))
  if not by:
    return None, []
  every = sorted(p for v in by.values() for p in v)
  filt = [c for c in FILTERED if c in by]
  gname = lambda g: mujoco.mj_id2name(mjm0, mujoco.mjtObj.mjOBJ_GEOM, g)
  bname = lambda b: mujoco.mj_id2name(mjm0, mujoco.mjtObj.mjOBJ_BODY, b)
  out, feats = [], set()
  prev = None
  for k in range(int(rng.integers(1, 5))):
    r = rng.random()
    if prev is not None and r < 0.12:
      g1, g2 = prev  # a second sensor on the same geom pair (shared collision id)
      feats.add("sensor:shared_pair")
    elif r < 0.7 and filt:
      c = filt[int(rng.integers(len(filt)))]
      g1, g2 = by[c][int(rng.integers(len(by[c])))]
    elif r < 0.85 and "dynamic-pair" in by:
      g1, g2 = by["dynamic-pair"][int(rng.integers(len(by["dynamic-pair"])))]
    elif "explicit-pair" in by:
      g1, g2 = by["explicit-pair"][int(rng.integers(len(by["explicit-pair"])))]
    else:
      g1, g2 = every[int(rng.integers(len(every)))]
    prev = (g1, g2)
    if rng.random() < 0.5:
      g1, g2 = g2, g1
    b1, b2 = int(mjm0.geom_bodyid[g1]), int(mjm0.geom_bodyid[g2])
    a = []
    for tag, g, b in (("1", g1, b1), ("2", g2, b2)):
      if b1 != b2 and b != 0 and rng.random() < 0.3:
        a.append(f'body{tag}="{bname(b)}"')
        feats.add("sensor:body_level")
      else:
        a.append(f'geom{tag}="{gname(g)}"')
        feats.add("sensor:geom_level")
    kind = ("distance", "normal", "fromto")[int(rng.integers(3))]
    cut = [0.0, 0.05, 1.0, 10.0][int(rng.integers(4))]
    feats.add("sensor:" + kind)
    feats.add(f"sensor:cutoff={cut:g}")
    out.append(f'<{kind} name="s{k}" {" ".join(a)} cutoff="{cut:g}"/>')
  return xml.replace("</mujoco>", "<sensor>" + "".join(out) + "</sensor></mujoco>"), sorted(feats)


def sensor_pairs(mjm):
  """geom pairs each collision sensor observes (as io.put_model enumerates them): list of (sensor id, [(g1, g2)...])."""
  out = []
  for s in range(mjm.nsensor):
    if int(mjm.sensor_type[s]) not in SENSOR_TAGS:
      continue
    ends = []
    for t, i in ((int(mjm.sensor_objtype[s]), int(mjm.sensor_objid[s])), (int(mjm.sensor_reftype[s]), int(mjm.sensor_refid[s]))):
      if t == mujoco.mjtObj.mjOBJ_BODY:
        ends.append(list(range(int(mjm.body_geomadr[i]), int(mjm.body_geomadr[i]) + int(mjm.body_geomnum[i]))))
      else:
        ends.append([i])
    out.append((s, [(a, b) for a in ends[0] for b in ends[1]]))
  return out


def run_case(case):
  import mujoco_warp as mjw
  import warp as wp
  from mujoco_warp._src.types import BroadphaseType

  rec = core.Rec(case)
  rng = np.random.default_rng(case["seed"])
  xml, feats = build(rng)
  mjm = gen.compile_xml(xml)
  if mjm is None:
    rec.rejected = "mujoco compile"
    return rec.result()
  sens = case.get("kind") == "sens"
  if sens:
    xml2, sfeats = add_sensors(rng, xml, mjm)
    if xml2 is None:
      rec.rejected = "no geom pair a collision sensor could observe"
      return rec.result()
    xml = xml2
    feats = sorted(set(feats) | set(sfeats))
    mjm = gen.compile_xml(xml)
    if mjm is None:
      rec.rejected = "mujoco compile (sensors)"
      rec.count("rejected_sensor_compile")
      return rec.result()
  _col.pin_primitive_dispatch(mjm)
  try:
    m = mw.put_model(mjm)
  except (NotImplementedError, ValueError) as e:
    rec.rejected = f"put_model: {e}"[:200]
    rec.count("rejected_put_model")
    return rec.result()
  bp = int(rng.integers(3))
  m.opt.broadphase = BroadphaseType(bp)
  nworld = 2
  qs = []
  for w in range(nworld):
    q = np.array(mjm.qpos0, dtype=np.float64)
    for j in range(mjm.njnt):
      a = mjm.jnt_qposadr[j]
      t = mjm.jnt_type[j]
      if t == mujoco.mjtJoint.mjJNT_HINGE:
        q[a] = rng.normal() * 0.5
      elif t == mujoco.mjtJoint.mjJNT_SLIDE:
        q[a] = rng.normal() * 0.01
      elif t == mujoco.mjtJoint.mjJNT_FREE:
        q[a : a + 3] += rng.normal(size=3) * 0.01
    qs.append(q.astype(np.float32).astype(np.float64))
  if sens and rng.random() < 0.5:
    # last world: free / sliding bodies moved away, so that sensor-observed pairs (also ones that pass the filter) are
    # beyond margin: they stay in the pipeline for the sensor but must not be contacts
    q = qs[-1].copy()
    for j in range(mjm.njnt):
      a = mjm.jnt_qposadr[j]
      if mjm.jnt_type[j] == mujoco.mjtJoint.mjJNT_FREE:
        q[a : a + 3] += rng.normal(size=3) * 2.0
      elif mjm.jnt_type[j] == mujoco.mjtJoint.mjJNT_SLIDE:
        q[a] = rng.normal() * 2.0
    qs[-1] = q.astype(np.float32).astype(np.float64)
    feats = sorted(set(feats) | {"sensor:apart_world"})
  npair = mjm.ngeom * (mjm.ngeom - 1) // 2
  refs = []
  if sens:
    for w in range(nworld):
      mjd = mujoco.MjData(mjm)
      mjd.qpos[:] = qs[w]
      # not mj_fwdPosition: its island stage aborts on explicit pairs between two static bodies
      mujoco.mj_kinematics(mjm, mjd)
      mujoco.mj_comPos(mjm, mjd)
      mujoco.mj_collision(mjm, mjd)
      mujoco.mj_makeConstraint(mjm, mjd)
      mujoco.mj_sensorPos(mjm, mjd)
      refs.append((_col.mj_contacts(mjm, mjd), mjd))
    need = 12 * (max(r[0]["geom"].shape[0] for r in refs) + 8)
    njmax = 256 if need <= 256 else (1024 if need <= 1024 else 4096)
  else:
    njmax = 8
  d = mjw.make_data(mjm, nworld=nworld, nconmax=2 * npair + 16, njmax=njmax)
  wp.copy(d.qpos, wp.array(np.stack(qs).astype(np.float32), dtype=float))
  d.overflow.zero_()
  mjw.kinematics(m, d)
  if sens:
    mjw.com_pos(m, d)
  mjw.collision(m, d)
  if sens:
    mjw.make_constraint(m, d)
    mjw.sensor_pos(m, d)
  if np.any(mw.npy(d.overflow)) or int(mw.npy(d.nacon)[0]) > d.naconmax or int(mw.npy(d.ncollision)[0]) > d.naconmax:
    rec.inconcl("capacity overflow")
    return rec.result()
  cw = _col.world_contacts(d)
  spairs = sensor_pairs(mjm) if sens else []
  observed = {frozenset(p) for _, ps in spairs for p in ps}
  nacc = nrej = 0
  for w in range(nworld):
    if sens:
      ref, mjd = refs[w]
    else:
      ref, mjd = _col.mj_collide(mjm, qs[w])
    rules, why = rule_set(mjm, mjd)
    mjset = {frozenset(map(int, p)) for p in ref["geom"]}
    got = {}
    ctype = np.asarray(cw[w]["type"]).astype(np.int64)
    for i, p in enumerate(cw[w]["geom"]):
      key = frozenset(map(int, p))
      if ctype[i] & 1:  # ContactType.CONSTRAINT: a contact in MuJoCo's sense
        got.setdefault(key, []).append(i)
        continue
      # sensor-only pool entry: legitimate only for a pair a collision sensor observes, and it must stay out of the solver
      rec.check()
      rec.cover("sensor_only_pool_entries", 1)
      if not (ctype[i] & 2) or key not in observed:
        rec.viol("non-constraint-pool-entry-without-sensor", f"world {w}: contact pool entry for geoms {sorted(key)} has type {int(ctype[i])} but no collision sensor observes the pair")
      if np.any(np.asarray(cw[w]["efc_address"][i]) >= 0):
        rec.viol("sensor-only-contact-has-constraint-rows", f"world {w}: sensor-only entry for geoms {sorted(key)} has efc_address {np.asarray(cw[w]['efc_address'][i]).tolist()}")
    gotset = set(got)
    rec.check()
    if mjset != rules:
      rec.inconcl(f"rule evaluator disagrees with mj_collision on {sorted(map(sorted, mjset ^ rules))[:3]} ({[why.get(k) for k in list(mjset ^ rules)[:3]]})")
      rec.count("oracles_disagree")
      continue
    nacc += len(rules)
    nrej += sum(1 for k, v in why.items() if k not in rules and v not in ("not-overlapping", "plane-plane"))
    for k, v in why.items():
      rec.cover("rule:" + v, 1)
    for key in sorted(observed, key=sorted):
      rec.check()
      rec.cover("sensor_pair:" + why.get(key, "?"), 1)
      if why.get(key) in FILTERED:
        rec.cover("sensor_pairs_filtered_and_within_margin", 1)
    for key in sorted(gotset - mjset, key=sorted):
      if key in observed and why.get(key) != "both-static":
        rec.viol(
          f"sensor-observed-pair-becomes-contact:{why.get(key, '?')}",
          f"world {w}: geoms {sorted(key)} are observed by a collision sensor and rejected by MuJoCo's contact rules ({why.get(key)}), "
          f"yet MJWarp reports a CONSTRAINT contact for them; broadphase {BroadphaseType(bp).name}",
        )
        continue
      rec.viol(
        f"pair-reported-but-filtered:{why.get(key, '?')}",
        f"world {w}: MJWarp reports a contact for geoms {sorted(key)} which MuJoCo's rules reject ({why.get(key)}); broadphase {BroadphaseType(bp).name}",
      )
    for key in sorted(mjset - gotset, key=sorted):
      rec.viol(
        f"pair-missing:{why.get(key, '?')}",
        f"world {w}: no MJWarp contact for geoms {sorted(key)} which MuJoCo collides ({why.get(key)}); broadphase {BroadphaseType(bp).name}",
      )
    # contact count per pair and explicit-pair parameters
    refg = {}
    for i, p in enumerate(ref["geom"]):
      refg.setdefault(frozenset(map(int, p)), []).append(i)
    for key in sorted(gotset & mjset, key=sorted):
      rec.check()
      if len(got[key]) != len(refg[key]):
        rec.viol("pair-contact-count", f"world {w}: {len(got[key])} contacts for geoms {sorted(key)} vs MuJoCo {len(refg[key])}")
      if why[key] != "explicit-pair":
        continue
      pid = [i for i in range(mjm.npair) if frozenset((int(mjm.pair_geom1[i]), int(mjm.pair_geom2[i]))) == key][0]
      c = cw[w]
      for b in got[key]:
        exp = {
          "dim": int(mjm.pair_dim[pid]),
          "friction": np.maximum(mjm.pair_friction[pid], 1e-5),
          "solref": mjm.pair_solref[pid],
          "solreffriction": mjm.pair_solreffriction[pid],
          "solimp": mjm.pair_solimp[pid],
          "includemargin": float(mjm.pair_margin[pid]),
        }
        for f, e in exp.items():
          rec.check()
          x = np.asarray(c[f][b], dtype=np.float64)
          e = np.asarray(e, dtype=np.float64)
          a0 = refg[key][0]
          r = np.asarray(ref[f][a0], dtype=np.float64)
          if np.abs(x - e).max() > 2e-6 * max(1.0, np.abs(e).max()) or np.abs(x - r).max() > 2e-6 * max(1.0, np.abs(r).max()):
            rec.viol(f"explicit-pair-param:{f}", f"world {w}: contact of explicit pair {pid} geoms {sorted(key)} has {f}={x}, pair specifies {e}, MuJoCo contact has {r}")
        rec.cover("explicit_pair_contacts_checked", 1)
    if not sens:
      continue
    # constraint rows: with equal contact lists (pairs and per-pair counts) both engines must build the same number of rows
    # (the models have no other constraint source); a filtered pair that reached the solver shows up here as well
    nefc = int(mw.npy(d.nefc)[w])
    if nefc > d.njmax:
      rec.inconcl("njmax overflow")
    elif gotset == mjset and all(len(got[k]) == len(refg[k]) for k in gotset):
      rec.check()
      rec.cover("nefc_compared", 1)
      if nefc != int(mjd.nefc):
        rec.viol("nefc-differs-with-equal-contact-lists", f"world {w}: nefc {nefc} vs MuJoCo {int(mjd.nefc)} although both engines report the same contacts per geom pair")
    # sensor values (secondary: the sensors must keep measuring while their pairs stay out of the contact set)
    sd = mw.npy(d.sensordata)[w]
    gdist = lambda a, b: float(np.linalg.norm(mjd.geom_xpos[a] - mjd.geom_xpos[b])) - float(mjm.geom_size[a][0] + mjm.geom_size[b][0])
    for s, ps in spairs:
      adr, dim = int(mjm.sensor_adr[s]), int(mjm.sensor_dim[s])
      cut = float(mjm.sensor_cutoff[s])
      ds = sorted(gdist(a, b) for a, b in ps)
      cen = min(float(np.linalg.norm(mjd.geom_xpos[a] - mjd.geom_xpos[b])) for a, b in ps)
      if (len(ds) > 1 and ds[1] - ds[0] < 1e-3) or abs(ds[0] - cut) < 1e-3 or cen < 1e-3:
        rec.count("sensor_value_not_judged:tie_or_cutoff_boundary")
        continue
      x, r = np.asarray(sd[adr : adr + dim], dtype=np.float64), np.asarray(mjd.sensordata[adr : adr + dim], dtype=np.float64)
      err = float(np.abs(x - r).max())
      rec.check()
      if err <= 3e-2:
        rec.worst("sensordata", err / 1e-3)
      tag = SENSOR_TAGS[int(mjm.sensor_type[s])]
      mirrored = (dim == 3 and np.abs(x + r).max() < 1e-3) or (dim == 6 and np.abs(x[:3] - r[3:]).max() < 1e-3 and np.abs(x[3:] - r[:3]).max() < 1e-3)
      if err > 3e-2 and mirrored and bp != 0:
        # known mechanism: sensor.py decides the direction from geom ids assuming contact.geom = (low id, high id) for
        # same-type geoms, but the SAP broadphases emit same-type pairs in sweep order
        rec.viol(
          "collision-sensor-direction-mirrored:sap-broadphase-same-type-geom-order",
          f"world {w}: sensor {s} ({tag}, cutoff {cut:g}) on geom pairs {ps} reads {x}, MuJoCo {r}: direction mirrored under broadphase {BroadphaseType(bp).name}",
        )
      elif err > 3e-2 and bp != 0 and ds[0] > 0 and ds[0] < cut and ((dim == 1 and abs(x[0] - cut) < 1e-6) or (dim > 1 and not np.any(x))):
        # known mechanism: the SAP sweep only visits geom pairs whose projections on the sweep axis overlap; the
        # "or pairid[1] >= 0" clause in _sap_broadphase bypasses the bounding-volume filter only, so a separated
        # sensor pair is never handed to the narrowphase and the sensor returns its cutoff / zeros
        rec.viol(
          "collision-sensor-misses-separated-pair:sap-broadphase-sweep",
          f"world {w}: sensor {s} ({tag}, cutoff {cut:g}) on geom pairs {ps} reads {x}, MuJoCo {r} (closest pair distance {ds[0]:.6g} < cutoff); broadphase {BroadphaseType(bp).name}",
        )
      elif err > 3e-2:
        rec.viol(
          f"collision-sensor-value:{tag}",
          f"world {w}: sensor {s} ({tag}, cutoff {cut:g}) on geom pairs {ps} reads {x}, MuJoCo {r} (closest pair distance {ds[0]:.6g}); broadphase {BroadphaseType(bp).name}",
        )
      elif err > 1e-3:
        rec.count("sensor_value_grey")
      else:
        rec.cover("sensor_values_agree:" + tag, 1)
  for f in feats:
    rec.cover("features", f)
  rec.cover("broadphase:" + BroadphaseType(bp).name, 1)
  if sens:
    rec.cover("sensor_cases", 1)
    rec.cover("sensor_broadphase:" + BroadphaseType(bp).name, 1)
    rec.cover("collision_sensors", len(spairs))
  rec.cover("pairs_accepted", nacc)
  rec.cover("pairs_rejected", nrej)
  if nacc > 0 and nrej > 0:
    rec.nontrivial(xml)
  rec.sample = {"family": "sens" if sens else "plain", "ncollision_sensor": len(spairs), "ngeom": int(mjm.ngeom), "nbody": int(mjm.nbody), "npair": int(mjm.npair), "nexclude": int(mjm.nexclude), "filterparent_disabled": bool(mjm.opt.disableflags & mujoco.mjtDisableBit.mjDSBL_FILTERPARENT), "broadphase": BroadphaseType(bp).name, "pairs_accepted_all_worlds": nacc, "pairs_rejected_all_worlds": nrej}
  return rec.result()


def requirements(agg, tier):
  unmet = []
  cov = agg["cover"]
  for r in ("explicit-pair", "same-body", "same-weld-body", "both-static", "parent-child", "contype-conaffinity", "exclude", "dynamic-pair"):
    if cov.get("rule:" + r, 0) < 20:
      unmet.append(f"rule '{r}' decided fewer than 20 pairs")
  feats = set(cov.get("features", []))
  for f in ("filterparent:disabled", "filterparent:enabled", "weld:to_world", "weld:to_body", "weld:chain", "joint:mocap", "exclude:body1>body2", "exclude:body1<body2", "world_plane", "world_sphere"):
    if f not in feats:
      unmet.append(f"feature never generated: {f}")
  for b in ("NXN", "SAP_TILE", "SAP_SEGMENTED"):
    if not cov.get("broadphase:" + b):
      unmet.append(f"broadphase {b} never used")
  if cov.get("explicit_pair_contacts_checked", 0) < 20:
    unmet.append("fewer than 20 explicit-pair contacts checked")
  # "sens" family: filtered pairs kept alive in the collision pipeline by collision sensors
  if cov.get("sensor_cases", 0) < 40:
    unmet.append("fewer than 40 cases with collision sensors ran")
  for r in ("contype-conaffinity", "same-weld-body", "parent-child", "exclude", "same-body"):
    if cov.get("sensor_pair:" + r, 0) < 8:
      unmet.append(f"fewer than 8 sensor-observed overlapping geom pairs rejected by rule '{r}'")
  for r, k in (("dynamic-pair", 5), ("explicit-pair", 3), ("not-overlapping", 5)):
    if cov.get("sensor_pair:" + r, 0) < k:
      unmet.append(f"fewer than {k} sensor-observed geom pairs of class '{r}'")
  if cov.get("sensor_only_pool_entries", 0) < 20:
    unmet.append("fewer than 20 sensor-only contact pool entries observed (the sensors kept no filtered pair in the pipeline)")
  if cov.get("nefc_compared", 0) < 20:
    unmet.append("nefc compared with MuJoCo in fewer than 20 sensor worlds")
  for f in ("sensor:distance", "sensor:normal", "sensor:fromto", "sensor:body_level", "sensor:geom_level", "sensor:shared_pair", "sensor:apart_world"):
    if f not in feats:
      unmet.append(f"feature never generated: {f}")
  for b in ("NXN", "SAP_TILE", "SAP_SEGMENTED"):
    if not cov.get("sensor_broadphase:" + b):
      unmet.append(f"broadphase {b} never used with collision sensors")
  if agg["distinct"] < 50:
    unmet.append("fewer than 50 distinct non-trivial cases")
  return unmet
